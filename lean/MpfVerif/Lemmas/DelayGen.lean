import MpfVerif.Model.DelayGen
import MpfVerif.Lemmas.Delay
/-!
# The hand model of the DelayManager does what the generated programs do (C13)

One lemma per translated method of `Gen/DelayOps.lean` (`*_run`): what the program returns, what it leaves in the dict and
which calls it makes, started on the dict `heapOf N ds` of a hand-model state.  `Props/C13.lean` folds the calls with
`applyEff` and compares with `stepCmd`.
-/
set_option linter.unusedSimpArgs false
namespace MpfVerif.Delay
open MpfVerif.Py MpfVerif.Gen.DelayOps

/-! ## the dict of the interpreter vs. the list of the hand model -/

theorem nm_inj (N : Names) {a b : Nat} (h : N.nm a = N.nm b) : a = b := by
  have := congrArg N.unnm h
  simpa [N.inv] using this

theorem nm_beq (N : Names) (a b : Nat) : (N.nm a == N.nm b) = (a == b) := by
  by_cases h : a = b
  · subst h; simp
  · have : N.nm a ≠ N.nm b := fun e => h (nm_inj N e)
    rw [beq_eq_false_iff_ne.mpr this, beq_eq_false_iff_ne.mpr h]

theorem dictHas_heapOf (N : Names) (ds : List Entry) (n : Nat) :
    dictHas (heapOf N ds) (N.nm n) = ds.any (fun e => e.name == n) := by
  simp [heapOf, dictHas, List.any_map, encEntry, nm_beq, Function.comp_def]

theorem dictFind_heapOf (N : Names) (ds : List Entry) (n : Nat) :
    dictFind (heapOf N ds) (N.nm n) =
      (ds.find? (fun e => e.name == n)).map (fun e => [.int e.hid, .int e.cb, .int e.arg]) := by
  simp [heapOf, dictFind, List.find?_map, Option.map_map, encEntry, nm_beq, Function.comp_def]

theorem dictErase_heapOf (N : Names) (ds : List Entry) (n : Nat) (hp : ds.Pairwise (fun a b => a.name ≠ b.name)) :
    dictErase (heapOf N ds) (N.nm n) = heapOf N (ds.filter (fun x => x.name != n)) := by
  induction ds with
  | nil => rfl
  | cons e r ih =>
    have hp' := List.pairwise_cons.mp hp
    simp only [heapOf, dictErase, List.map_cons, encEntry, nm_beq, List.filter_cons]
    cases h : (e.name == n)
    · have : (e.name != n) = true := by simp [bne, h]
      simp only [this, if_true, List.map_cons, encEntry, Bool.false_eq_true, if_false]
      have := ih hp'.2
      simp only [heapOf] at this
      rw [this]
    · have : (e.name != n) = false := by simp [bne, h]
      simp only [this, if_true, Bool.false_eq_true, if_false]
      have hn : e.name = n := by simpa using h
      have : r.filter (fun x => x.name != n) = r := by
        apply List.filter_eq_self.mpr
        intro x hx
        have := hp'.1 x hx
        simp [bne_iff_ne, ← hn]; exact fun c => this c.symm
      rw [this]

theorem dictSet_heapOf_new (N : Names) (ds : List Entry) (n h c : Nat) (a : Int) (hn : ∀ e ∈ ds, e.name ≠ n) :
    dictSet (heapOf N ds) (N.nm n) [.int h, .int c, .int a] = heapOf N (ds ++ [⟨n, h, c, a⟩]) := by
  induction ds with
  | nil => rfl
  | cons e r ih =>
    have h1 : (e.name == n) = false := by simpa using hn e (by simp)
    simp only [heapOf, dictSet, List.map_cons, encEntry, nm_beq, h1, Bool.false_eq_true, if_false, List.cons_append]
    have := ih (fun x hx => hn x (by simp [hx]))
    simp only [heapOf, encEntry] at this
    rw [this]

/-! ## results without the callee's locals -/

/-- a result without the locals: `some v` = returned `v`, `none` = fell through -/
def dropL : DRes → Dict × List Eff × Except Err (Option PyVal)
  | (H, log, .ok (.done v)) => (H, log, .ok (some v))
  | (H, log, .ok (.next _)) => (H, log, .ok none)
  | (H, log, .error x) => (H, log, .error x)

/-- `x = self.f(...)` seen through `dropL` of the callee -/
theorem execDS_call (c : Ctx) (ora : DOracle) (H : Dict) (l : Locals) (t : Option String) (prog : List Py.DSt)
    (args : List (String × DEx)) :
    execDS c ora H l (.call t prog args) =
      match evalDArgs c H l args with
      | .error x => (H, [], .error x)
      | .ok vs =>
        match dropL (execDL c ora H (argLocals vs) prog) with
        | (H', log, .ok (some v)) => (H', log, .ok (.next (bindTarget l t v)))
        | (H', log, .ok none) => (H', log, .ok (.next (bindTarget l t .none)))
        | (H', log, .error x) => (H', log, .error x) := by
  simp only [execDS]
  cases evalDArgs c H l args with
  | error x => rfl
  | ok vs =>
    simp only []
    rcases execDL c ora H (argLocals vs) prog with ⟨H', log, r⟩
    rcases r with x | (l' | v) <;> rfl

theorem resOf_eq (r : DRes) : resOf r = ((dropL r).1, (dropL r).2.1, (dropL r).2.2.map (fun o => o.getD .none)) := by
  rcases r with ⟨H', log, r⟩
  rcases r with x | (l' | v) <;> rfl

/-- the clock, `uuid.uuid4()` and the event queue do not raise; `schedule_once` returns the handle the model numbers
`nextId`; `uuid4` the fresh name.  What a *callback* answers (a value or any exception) is left open. -/
def OraOk (ora : DOracle) (nextId : Nat) (fresh : PyVal) : Prop :=
  (∀ args, ora ⟨"clock", "unschedule", args⟩ = .ok .none) ∧
  (∀ args, ora ⟨"clock", "schedule_once", args⟩ = .ok (.int nextId)) ∧
  (∀ args, ora ⟨"uuid", "uuid4", args⟩ = .ok fresh) ∧
  (∀ args, ora ⟨"events", "process_event_queue", args⟩ = .ok .none)

def unsched (hid : Nat) : Eff := ⟨"clock", "unschedule", [("event", .int hid)]⟩

/-! ## one lemma per method -/

theorem check_run (N : Names) (c : Ctx) (ora : DOracle) (ds : List Entry) (l : Locals) (n : Nat)
    (hl : l "delay" = N.nm n) :
    dropL (execDL c ora (heapOf N ds) l check) =
      (heapOf N ds, [], .ok (some (.bool (ds.any (fun e => e.name == n))))) := by
  simp [check, dropL, execDL, execDS, evalD, evalA, evalE, hl, dictHas_heapOf, bind, Except.bind, pure, Except.pure]

theorem remove_run (N : Names) (c : Ctx) (ora : DOracle) (ds : List Entry) (hp : ds.Pairwise (fun a b => a.name ≠ b.name))
    (l : Locals) (n : Nat) (hl : l "name" = N.nm n) (nx : Nat) (fr : PyVal) (ho : OraOk ora nx fr) :
    dropL (execDL c ora (heapOf N ds) l remove) =
      match ds.find? (fun e => e.name == n) with
      | some e => (heapOf N (ds.filter (fun x => x.name != n)), [unsched e.hid], .ok none)
      | none => (heapOf N ds, [], .ok none) := by
  cases hf : ds.find? (fun e => e.name == n) with
  | none =>
    simp [remove, dropL, execDL, execDS, evalD, evalA, evalE, hl, dictFind_heapOf, hf, bind, Except.bind, pure, Except.pure]
  | some e =>
    simp [remove, dropL, execDL, execDS, evalD, evalA, evalE, evalDArgs, hl, dictFind_heapOf, hf, bind, Except.bind, pure,
      Except.pure, bindMany, dictErase_heapOf N ds n hp, ho.1, unsched, bindTarget]

/-- the `timeout` the source computes from `ms` (`ms / 1000.0`, micro-units) -/
def timeoutOf : PyVal → PyVal
  | .int i => .flt (i * 1000000 * 1000000 / 1000000000)
  | .flt m => .flt (m * 1000000 / 1000000000)
  | _ => .none

theorem timeoutUs_timeoutOf (v : PyVal) (d : Nat) (h : usOf v = some d) : timeoutUs (timeoutOf v) = some d := by
  cases v <;> simp [usOf] at h <;> simp [timeoutOf, timeoutUs, ← h] <;> congr 1 <;> omega

def schedEff (N : Names) (msv : PyVal) (n cb : Nat) (a : Int) : Eff :=
  ⟨"clock", "schedule_once", [("callback.func", .str "cb:_process_delay_callback"), ("callback.0", N.nm n),
    ("callback.1", .int cb), ("callback.kwargs", .int a), ("timeout", timeoutOf msv)]⟩

/-- the dict after `pop(name)` -/
def popD (ds : List Entry) (n : Nat) : List Entry :=
  match ds.find? (fun e => e.name == n) with
  | some _ => ds.filter (fun x => x.name != n)
  | none => ds

/-- the `unschedule` call `pop(name)` is followed by -/
def popE (ds : List Entry) (n : Nat) : List Eff :=
  match ds.find? (fun e => e.name == n) with
  | some e => [unsched e.hid]
  | none => []

theorem popD_noname (ds : List Entry) (n : Nat) : ∀ e ∈ popD ds n, e.name ≠ n := by
  unfold popD
  cases hf : ds.find? (fun e => e.name == n) with
  | none => intro e he; simpa using List.find?_eq_none.mp hf e he
  | some x => intro e he; simpa using (List.mem_filter.mp he).2

theorem remove_run' (N : Names) (c : Ctx) (ora : DOracle) (ds : List Entry) (hp : ds.Pairwise (fun a b => a.name ≠ b.name))
    (l : Locals) (n : Nat) (hl : l "name" = N.nm n) (nx : Nat) (fr : PyVal) (ho : OraOk ora nx fr) :
    dropL (execDL c ora (heapOf N ds) l remove) = (heapOf N (popD ds n), popE ds n, .ok none) := by
  rw [remove_run N c ora ds hp l n hl nx fr ho]
  unfold popD popE
  cases ds.find? (fun e => e.name == n) <;> rfl

theorem add_run (N : Names) (c : Ctx) (ora : DOracle) (ds : List Entry) (hp : ds.Pairwise (fun a b => a.name ≠ b.name))
    (l : Locals) (msv : PyVal) (d n cb : Nat) (a : Int) (anon : Bool) (nx : Nat) (fr : PyVal) (ho : OraOk ora nx fr)
    (hms : l "ms" = msv) (hus : usOf msv = some d) (hcb : l "callback" = .int cb) (hkw : l "kwargs" = .int a)
    (hname : l "name" = if anon then .none else N.nm n) (hfr : anon = true → fr = N.nm n) :
    dropL (execDL c ora (heapOf N ds) l add) =
      (heapOf N (popD ds n ++ [⟨n, nx, cb, a⟩]),
       (if anon then [⟨"uuid", "uuid4", []⟩] else []) ++ popE ds n ++ [schedEff N msv n cb a], .ok (some (N.nm n))) := by
  have hset := dictSet_heapOf_new N (popD ds n) n nx cb a (popD_noname ds n)
  have ht := N.truthy n
  unfold popD popE at *
  cases anon
  · cases msv <;> simp [usOf] at hus <;>
    cases hf : ds.find? (fun e => e.name == n) <;> simp only [hf] at hset <;>
    simp [add, dropL, execDL, execDS, evalD, evalA, evalE, evalC, evalDArgs, evalDList, hname, hms, hcb, hkw, ht, dictFind_heapOf, hf, bind,
      Except.bind, pure, Except.pure, bindMany, dictErase_heapOf N ds n hp, ho.1, ho.2.1, unsched, bindTarget, arithDiv,
      PyVal.num, hset, schedEff, timeoutOf]
  · have hfr' := hfr rfl
    cases msv <;> simp [usOf] at hus <;>
    cases hf : ds.find? (fun e => e.name == n) <;> simp only [hf] at hset <;>
    simp [add, dropL, execDL, execDS, evalD, evalA, evalE, evalC, evalDArgs, evalDList, hname, hms, hcb, hkw, ht, dictFind_heapOf, hf, bind,
      Except.bind, pure, Except.pure, bindMany, dictErase_heapOf N ds n hp, ho.1, ho.2.1, ho.2.2.1, hfr', unsched, bindTarget, arithDiv,
      PyVal.num, PyVal.truthy, hset, schedEff, timeoutOf]

theorem dropL_done {r : DRes} {H : Dict} {log : List Eff} {v : PyVal} (h : dropL r = (H, log, .ok (some v))) :
    r = (H, log, .ok (.done v)) := by
  rcases r with ⟨H', log', r⟩
  rcases r with x | (l' | w) <;> simp [dropL] at h ⊢ <;> exact h

theorem dropL_next {r : DRes} {H : Dict} {log : List Eff} (h : dropL r = (H, log, .ok none)) :
    ∃ l', r = (H, log, .ok (.next l')) := by
  rcases r with ⟨H', log', r⟩
  rcases r with x | (l' | w) <;> simp [dropL] at h
  exact ⟨l', by simp [h]⟩

theorem any_eq_find (ds : List Entry) (n : Nat) :
    ds.any (fun e => e.name == n) = (ds.find? (fun e => e.name == n)).isSome := by
  induction ds with
  | nil => rfl
  | cons e r ih => simp only [List.any_cons, List.find?_cons]; cases h : (e.name == n) <;> simp [ih]

theorem find_popD (ds : List Entry) (n : Nat) : (popD ds n).find? (fun e => e.name == n) = none := by
  apply List.find?_eq_none.mpr
  intro e he
  simpa using popD_noname ds n e he

theorem popD_idem (ds : List Entry) (n : Nat) : popD (popD ds n) n = popD ds n := by
  have h := find_popD ds n
  generalize popD ds n = x at h ⊢
  simp [popD, h]

theorem popE_popD (ds : List Entry) (n : Nat) : popE (popD ds n) n = [] := by
  have h := find_popD ds n
  generalize popD ds n = x at h ⊢
  simp [popE, h]

theorem popD_pairwise (ds : List Entry) (n : Nat) (hp : ds.Pairwise (fun a b => a.name ≠ b.name)) :
    (popD ds n).Pairwise (fun a b => a.name ≠ b.name) := by
  unfold popD
  cases ds.find? (fun e => e.name == n) with
  | none => exact hp
  | some e => exact hp.filter _

theorem popD_of_not_any (ds : List Entry) (n : Nat) (h : ds.any (fun e => e.name == n) = false) :
    popD ds n = ds ∧ popE ds n = [] := by
  rw [any_eq_find] at h
  unfold popD popE
  cases hf : ds.find? (fun e => e.name == n) with
  | none => exact ⟨rfl, rfl⟩
  | some e => simp [hf] at h

theorem add_if_run (N : Names) (c : Ctx) (ora : DOracle) (ds : List Entry) (hp : ds.Pairwise (fun a b => a.name ≠ b.name))
    (l : Locals) (msv : PyVal) (d n cb : Nat) (a : Int) (nx : Nat) (fr : PyVal) (ho : OraOk ora nx fr)
    (hms : l "ms" = msv) (hus : usOf msv = some d) (hcb : l "callback" = .int cb) (hkw : l "kwargs" = .int a)
    (hname : l "name" = N.nm n) :
    dropL (execDL c ora (heapOf N ds) l add_if_doesnt_exist) =
      if ds.any (fun e => e.name == n) then (heapOf N ds, [], .ok (some (N.nm n)))
      else (heapOf N (popD ds n ++ [⟨n, nx, cb, a⟩]), popE ds n ++ [schedEff N msv n cb a], .ok (some (N.nm n))) := by
  have h1 := dropL_done (check_run N c ora ds (argLocals [("delay", N.nm n)]) n (by simp [argLocals, List.lookup]))
  have h2 := dropL_done (add_run N c ora ds hp
    (argLocals [("ms", msv), ("callback", .int cb), ("name", N.nm n), ("kwargs", .int a)]) msv d n cb a false nx fr ho
    (by simp [argLocals, List.lookup]) hus (by simp [argLocals, List.lookup]) (by simp [argLocals, List.lookup])
    (by simp [argLocals, List.lookup]) (by simp))
  cases hany : ds.any (fun e => e.name == n) <;> simp only [hany] at h1 <;>
  simp [add_if_doesnt_exist, dropL, execDL, execDS, evalD, evalA, evalE, evalC, evalDArgs, hname, hms, hcb, hkw, bind,
    Except.bind, pure, Except.pure, bindTarget, h1, h2, PyVal.truthy]

theorem reset_run (N : Names) (c : Ctx) (ora : DOracle) (ds : List Entry) (hp : ds.Pairwise (fun a b => a.name ≠ b.name))
    (l : Locals) (msv : PyVal) (d n cb : Nat) (a : Int) (nx : Nat) (fr : PyVal) (ho : OraOk ora nx fr)
    (hms : l "ms" = msv) (hus : usOf msv = some d) (hcb : l "callback" = .int cb) (hkw : l "kwargs" = .int a)
    (hname : l "name" = N.nm n) :
    dropL (execDL c ora (heapOf N ds) l reset) =
      (heapOf N (popD ds n ++ [⟨n, nx, cb, a⟩]), popE ds n ++ [schedEff N msv n cb a], .ok (some (N.nm n))) := by
  cases hany : ds.any (fun e => e.name == n)
  · have h2 := dropL_done (add_run N c ora ds hp
      (argLocals [("ms", msv), ("callback", .int cb), ("name", N.nm n), ("kwargs", .int a)]) msv d n cb a false nx fr ho
      (by simp [argLocals, List.lookup]) hus (by simp [argLocals, List.lookup]) (by simp [argLocals, List.lookup])
      (by simp [argLocals, List.lookup]) (by simp))
    simp [reset, dropL, execDL, execDS, evalD, evalA, evalE, evalC, evalDArgs, hname, hms, hcb, hkw, bind,
      Except.bind, pure, Except.pure, bindTarget, h2, PyVal.truthy, dictHas_heapOf, hany]
  · obtain ⟨l1, h1⟩ := dropL_next (remove_run' N c ora ds hp (argLocals [("name", N.nm n)]) n
      (by simp [argLocals, List.lookup]) nx fr ho)
    have h2 := dropL_done (add_run N c ora (popD ds n) (popD_pairwise ds n hp)
      (argLocals [("ms", msv), ("callback", .int cb), ("name", N.nm n), ("kwargs", .int a)]) msv d n cb a false nx fr ho
      (by simp [argLocals, List.lookup]) hus (by simp [argLocals, List.lookup]) (by simp [argLocals, List.lookup])
      (by simp [argLocals, List.lookup]) (by simp))
    rw [popD_idem, popE_popD] at h2
    simp [reset, dropL, execDL, execDS, evalD, evalA, evalE, evalC, evalDArgs, hname, hms, hcb, hkw, bind,
      Except.bind, pure, Except.pure, bindTarget, h1, h2, PyVal.truthy, dictHas_heapOf, hany]

def callEff (cb : Nat) (a : Int) : Eff := ⟨"callback", "call", [("func", .int cb), ("kwargs", .int a)]⟩

/-- what `run_now` returns when the callback answered `r`: it swallows exactly `KeyError` -/
def swallow (r : Except Err PyVal) : Except Err (Option PyVal) :=
  match r with
  | .ok _ => .ok none
  | .error x => if x = "KeyError" then .ok none else .error x

theorem run_now_run (N : Names) (c : Ctx) (ora : DOracle) (ds : List Entry) (hp : ds.Pairwise (fun a b => a.name ≠ b.name))
    (l : Locals) (n : Nat) (nx : Nat) (fr : PyVal) (ho : OraOk ora nx fr) (hname : l "name" = N.nm n) :
    dropL (execDL c ora (heapOf N ds) l run_now) =
      match ds.find? (fun e => e.name == n) with
      | none => (heapOf N ds, [], .ok none)
      | some e => (heapOf N (popD ds n), popE ds n ++ [callEff e.cb e.arg], swallow (ora (callEff e.cb e.arg))) := by
  obtain ⟨l1, h1⟩ := dropL_next (remove_run' N c ora ds hp (argLocals [("name", N.nm n)]) n
      (by simp [argLocals, List.lookup]) nx fr ho)
  have hany := any_eq_find ds n
  cases hf : ds.find? (fun e => e.name == n) with
  | none =>
    simp only [hf, Option.isSome_none] at hany
    simp [run_now, dropL, execDL, execDS, evalD, evalA, evalE, evalC, evalDArgs, hname, bind,
      Except.bind, pure, Except.pure, PyVal.truthy, dictHas_heapOf, hany]
  | some e =>
    simp only [hf, Option.isSome_some] at hany
    cases hr : ora (callEff e.cb e.arg) with
    | ok v =>
      simp only [callEff] at hr
      simp [run_now, dropL, execDL, execDS, evalD, evalA, evalE, evalC, evalDArgs, hname, bind,
        Except.bind, pure, Except.pure, PyVal.truthy, dictHas_heapOf, dictFind_heapOf, hany, hf, bindMany, h1, callEff, hr,
        swallow, bindTarget]
    | error x =>
      simp only [callEff] at hr
      by_cases hx : x = "KeyError" <;>
      simp [run_now, dropL, execDL, execDS, evalD, evalA, evalE, evalC, evalDArgs, hname, bind,
        Except.bind, pure, Except.pure, PyVal.truthy, dictHas_heapOf, dictFind_heapOf, hany, hf, bindMany, h1, callEff, hr,
        swallow, bindTarget, hx]

def queueEff : Eff := ⟨"events", "process_event_queue", []⟩

theorem pdc_run (N : Names) (c : Ctx) (ora : DOracle) (ds : List Entry) (hp : ds.Pairwise (fun a b => a.name ≠ b.name))
    (l : Locals) (n cb : Nat) (a : Int) (nx : Nat) (fr : PyVal) (ho : OraOk ora nx fr) (hname : l "name" = N.nm n)
    (hcb : l "callback" = .int cb) (hkw : l "kwargs" = .int a) :
    dropL (execDL c ora (heapOf N ds) l p_process_delay_callback) =
      match ora (callEff cb a) with
      | .ok _ => (heapOf N (popD ds n), [callEff cb a, queueEff], .ok none)
      | .error x => (heapOf N (popD ds n), [callEff cb a], .error x) := by
  have hany := any_eq_find ds n
  unfold popD
  cases hf : ds.find? (fun e => e.name == n) <;> simp only [hf, Option.isSome_none, Option.isSome_some] at hany <;>
  cases hr : ora (callEff cb a) <;> simp only [callEff] at hr <;>
  simp [p_process_delay_callback, dropL, execDL, execDS, evalD, evalA, evalE, evalC, evalDArgs, hname, hcb, hkw, bind,
    Except.bind, pure, Except.pure, dictHas_heapOf, hany, hf, callEff, hr, bindTarget, queueEff, ho.2.2.2,
    dictErase_heapOf N ds n hp]

/-- the body of the loop of the generated `clear` -/
def clearBody : List Py.DSt := match clear with
  | .forKeys _ b :: _ => b
  | _ => []

theorem clear_eq : clear = [.forKeys "name" clearBody, .s .dictClear] := rfl

theorem clearBody_run (N : Names) (c : Ctx) (ora : DOracle) (e : Entry) (r : List Entry)
    (hp : (e :: r).Pairwise (fun a b => a.name ≠ b.name)) (l : Locals) (nx : Nat) (fr : PyVal) (ho : OraOk ora nx fr)
    (hname : l "name" = N.nm e.name) :
    dropL (execDL c ora (heapOf N (e :: r)) l clearBody) = (heapOf N r, [unsched e.hid, unsched e.hid], .ok none) := by
  obtain ⟨l1, h1⟩ := dropL_next (remove_run' N c ora (e :: r) hp (argLocals [("name", N.nm e.name)]) e.name
      (by simp [argLocals, List.lookup]) nx fr ho)
  have hpd : popD (e :: r) e.name = r := by
    have hp' := List.pairwise_cons.mp hp
    simp only [popD, List.find?_cons, beq_self_eq_true, List.filter_cons, bne_self_eq_false, Bool.false_eq_true, if_false]
    apply List.filter_eq_self.mpr
    intro x hx
    have := hp'.1 x hx
    simp [bne_iff_ne]; exact fun c => this c.symm
  have hpe : popE (e :: r) e.name = [unsched e.hid] := by simp [popE]
  rw [hpd, hpe] at h1
  have hfind : dictFind (heapOf N (e :: r)) (N.nm e.name) = some [.int e.hid, .int e.cb, .int e.arg] := by
    rw [dictFind_heapOf]; simp
  simp [clearBody, clear, dropL, execDL, execDS, evalD, evalA, evalE, evalDArgs, hname, bind, Except.bind, pure, Except.pure,
    hfind, bindMany, bindTarget, ho.1, h1, unsched]

theorem clearLoop_run (N : Names) (c : Ctx) (ora : DOracle) (nx : Nat) (fr : PyVal) (ho : OraOk ora nx fr) :
    ∀ (ds : List Entry) (l : Locals), ds.Pairwise (fun a b => a.name ≠ b.name) →
    dropL (execFor c ora "name" clearBody (ds.map (fun e => N.nm e.name)) (heapOf N ds) l) =
      ([], ds.flatMap (fun e => [unsched e.hid, unsched e.hid]), .ok none)
  | [], l, _ => rfl
  | e :: r, l, hp => by
    obtain ⟨l1, h1⟩ := dropL_next (clearBody_run N c ora e r hp (fun m => if m = "name" then N.nm e.name else l m) nx fr ho
      (by simp))
    have ih := clearLoop_run N c ora nx fr ho r l1 (List.pairwise_cons.mp hp).2
    simp only [List.map_cons, execFor, h1, List.flatMap_cons]
    rcases hx : execFor c ora "name" clearBody (r.map (fun e => N.nm e.name)) (heapOf N r) l1 with ⟨H2, log2, r2⟩
    rw [hx] at ih ⊢
    rcases r2 with x | (l' | w) <;> simp [dropL] at ih ⊢ <;> (try simp [ih])

theorem clear_run (N : Names) (c : Ctx) (ora : DOracle) (ds : List Entry) (hp : ds.Pairwise (fun a b => a.name ≠ b.name))
    (l : Locals) (nx : Nat) (fr : PyVal) (ho : OraOk ora nx fr) :
    dropL (execTL c ora clear (heapOf N ds) l) =
      ([], ds.flatMap (fun e => [unsched e.hid, unsched e.hid]), .ok none) := by
  have hk : dictKeys (heapOf N ds) = ds.map (fun e => N.nm e.name) := by
    simp [dictKeys, heapOf, encEntry, Function.comp_def]
  obtain ⟨l1, h1⟩ := dropL_next (clearLoop_run N c ora nx fr ho ds l hp)
  simp [clear_eq, execTL, hk, h1, execDS, dropL]

/-! ## folding the calls: generated program = hand model, per operation -/

theorem callD_eq (c : Ctx) (ora : DOracle) (H : Dict) (prog : List Py.DSt) (args : List (String × PyVal))
    {H' : Dict} {log : List Eff} {r : Except Err (Option PyVal)}
    (h : dropL (execDL c ora H (argLocals args) prog) = (H', log, r)) :
    callD c ora H prog args = (H', log, r.map (fun o => o.getD .none)) := by
  rw [callD, resOf_eq, h]

theorem live_any_of_entry {s : St} (i : Inv s) {e : Entry} (he : e ∈ s.delays) :
    s.live.any (fun h => h.hid == e.hid) = true := by
  obtain ⟨h, hh, e1⟩ := i.entry_live e he
  exact List.any_eq_true.mpr ⟨h, hh, by simp [← e1, entryOf]⟩

theorem popD_popName (s : St) (n : Nat) : popD s.delays n = (popName s n).1.delays := by
  unfold popD popName St.entry?
  cases s.delays.find? (fun e => e.name == n) <;> rfl

/-- folding the `unschedule` that follows `pop(name)` gives `popName` of the hand model -/
theorem fold_popE (N : Names) (s : St) (i : Inv s) (n : Nat) (g : GSt) (hl : g.live = s.live) :
    (popE s.delays n).foldl (applyEff N s.now) g =
      { g with live := (popName s n).1.live, obs := g.obs ++ (popName s n).2 } := by
  unfold popE popName St.entry?
  cases hf : s.delays.find? (fun e => e.name == n) with
  | none => cases g; simp at hl; simp [hl]
  | some e =>
    have ha := live_any_of_entry i (find_name hf).1
    simp [applyEff, unsched, Eff.arg, List.lookup, natOf, hl, ha]

theorem ghost_append (a b : List Obs) : ghost (a ++ b) = ghost a ++ ghost b := by
  induction a with
  | nil => rfl
  | cons x r ih => cases x <;> simp [ghost, ih]

theorem callsOf_append (a b : List Obs) : callsOf (a ++ b) = callsOf a ++ callsOf b := by
  induction a with
  | nil => rfl
  | cons x r ih => cases x <;> simp [callsOf, ih]

theorem ghost_popName (s : St) (n : Nat) : ghost (popName s n).2 = (popName s n).2 := by
  unfold popName; split <;> rfl

theorem callsOf_popName (s : St) (n : Nat) : callsOf (popName s n).2 = [] := by
  unfold popName; split <;> rfl

theorem add_refines (P : Nat → List Cmd) (N : Names) (c : Ctx) (ora : DOracle) (s : St) (i : Inv s) (fr : PyVal)
    (ho : OraOk ora s.nextId fr) (msv : PyVal) (d n cb : Nat) (a : Int) (hus : usOf msv = some d) :
    gen N s (callD c ora (heapOf N s.delays) add [("ms", msv), ("callback", .int cb), ("name", N.nm n), ("kwargs", .int a)]) =
      hand N (stepCmd P s (.add d n cb a)) := by
  have h := add_run N c ora s.delays i.names
    (argLocals [("ms", msv), ("callback", .int cb), ("name", N.nm n), ("kwargs", .int a)]) msv d n cb a false s.nextId fr ho
    (by simp [argLocals, List.lookup]) hus (by simp [argLocals, List.lookup]) (by simp [argLocals, List.lookup])
    (by simp [argLocals, List.lookup]) (by simp)
  rw [callD_eq c ora _ _ _ h]
  have hp := fold_popE N s i n ⟨s.live, s.nextId, [], [], false⟩ rfl
  have ht := timeoutUs_timeoutOf msv d hus
  have hnx : (popName s n).1.nextId = s.nextId := by unfold popName; split <;> rfl
  have hnow : (popName s n).1.now = s.now := by unfold popName; split <;> rfl
  simp [gen, hand, stepCmd, doAdd, List.foldl_append, hp, applyEff, schedEff, Eff.arg, List.lookup, ht, N.inv, natOf, intOf,
    popD_popName, hnx, hnow, ghost, callsOf, ghost_append, callsOf_append, ghost_popName, callsOf_popName]

theorem add_anon_refines (P : Nat → List Cmd) (N : Names) (c : Ctx) (ora : DOracle) (s : St) (i : Inv s) (n : Nat)
    (ho : OraOk ora s.nextId (N.nm n)) (msv : PyVal) (d cb : Nat) (a : Int) (hus : usOf msv = some d) :
    gen N s (callD c ora (heapOf N s.delays) add [("ms", msv), ("callback", .int cb), ("kwargs", .int a)]) =
      hand N (stepCmd P s (.add d n cb a)) := by
  have h := add_run N c ora s.delays i.names
    (argLocals [("ms", msv), ("callback", .int cb), ("kwargs", .int a)]) msv d n cb a true s.nextId (N.nm n) ho
    (by simp [argLocals, List.lookup]) hus (by simp [argLocals, List.lookup]) (by simp [argLocals, List.lookup])
    (by simp [argLocals, List.lookup]) (by simp)
  rw [callD_eq c ora _ _ _ h]
  have hp := fold_popE N s i n ⟨s.live, s.nextId, [], [], false⟩ rfl
  have ht := timeoutUs_timeoutOf msv d hus
  have hnx : (popName s n).1.nextId = s.nextId := by unfold popName; split <;> rfl
  have hnow : (popName s n).1.now = s.now := by unfold popName; split <;> rfl
  simp [gen, hand, stepCmd, doAdd, List.foldl_append, hp, applyEff, schedEff, Eff.arg, List.lookup, ht, N.inv, natOf, intOf,
    popD_popName, hnx, hnow, ghost, callsOf, ghost_append, callsOf_append, ghost_popName, callsOf_popName]

theorem popName_popName (s : St) (n : Nat) : popName (popName s n).1 n = ((popName s n).1, []) := by
  apply popName_none
  apply List.find?_eq_none.mpr
  intro e he
  simpa using popName_noname s n e he

theorem stepCmd_reset_eq_add (P : Nat → List Cmd) (s : St) (d n cb : Nat) (a : Int) :
    stepCmd P s (.reset d n cb a) = stepCmd P s (.add d n cb a) := by
  simp only [stepCmd]
  split
  · simp [doAdd, popName_popName]
  · rename_i hany
    have : s.delays.find? (fun e => e.name == n) = none := by
      cases hf : s.delays.find? (fun e => e.name == n) with
      | none => rfl
      | some e => exact absurd (by rw [any_eq_find, hf]; rfl) hany
    simp [doAdd, popName_none this]

theorem reset_refines (P : Nat → List Cmd) (N : Names) (c : Ctx) (ora : DOracle) (s : St) (i : Inv s) (fr : PyVal)
    (ho : OraOk ora s.nextId fr) (msv : PyVal) (d n cb : Nat) (a : Int) (hus : usOf msv = some d) :
    gen N s (callD c ora (heapOf N s.delays) reset [("ms", msv), ("callback", .int cb), ("name", N.nm n), ("kwargs", .int a)]) =
      hand N (stepCmd P s (.reset d n cb a)) := by
  rw [stepCmd_reset_eq_add, ← add_refines P N c ora s i fr ho msv d n cb a hus]
  have h1 := reset_run N c ora s.delays i.names
    (argLocals [("ms", msv), ("callback", .int cb), ("name", N.nm n), ("kwargs", .int a)]) msv d n cb a s.nextId fr ho
    (by simp [argLocals, List.lookup]) hus (by simp [argLocals, List.lookup]) (by simp [argLocals, List.lookup])
    (by simp [argLocals, List.lookup])
  have h2 := add_run N c ora s.delays i.names
    (argLocals [("ms", msv), ("callback", .int cb), ("name", N.nm n), ("kwargs", .int a)]) msv d n cb a false s.nextId fr ho
    (by simp [argLocals, List.lookup]) hus (by simp [argLocals, List.lookup]) (by simp [argLocals, List.lookup])
    (by simp [argLocals, List.lookup]) (by simp)
  rw [callD_eq c ora _ _ _ h1, callD_eq c ora _ _ _ h2]
  simp

theorem add_if_refines (P : Nat → List Cmd) (N : Names) (c : Ctx) (ora : DOracle) (s : St) (i : Inv s) (fr : PyVal)
    (ho : OraOk ora s.nextId fr) (msv : PyVal) (d n cb : Nat) (a : Int) (hus : usOf msv = some d) :
    gen N s (callD c ora (heapOf N s.delays) add_if_doesnt_exist
        [("ms", msv), ("callback", .int cb), ("name", N.nm n), ("kwargs", .int a)]) =
      hand N (stepCmd P s (.addIf d n cb a)) := by
  have h1 := add_if_run N c ora s.delays i.names
    (argLocals [("ms", msv), ("callback", .int cb), ("name", N.nm n), ("kwargs", .int a)]) msv d n cb a s.nextId fr ho
    (by simp [argLocals, List.lookup]) hus (by simp [argLocals, List.lookup]) (by simp [argLocals, List.lookup])
    (by simp [argLocals, List.lookup])
  cases hany : s.delays.any (fun e => e.name == n)
  · simp only [hany, Bool.false_eq_true, if_false] at h1
    have h2 := add_run N c ora s.delays i.names
      (argLocals [("ms", msv), ("callback", .int cb), ("name", N.nm n), ("kwargs", .int a)]) msv d n cb a false s.nextId fr ho
      (by simp [argLocals, List.lookup]) hus (by simp [argLocals, List.lookup]) (by simp [argLocals, List.lookup])
      (by simp [argLocals, List.lookup]) (by simp)
    have := add_refines P N c ora s i fr ho msv d n cb a hus
    rw [callD_eq c ora _ _ _ h2] at this
    rw [callD_eq c ora _ _ _ h1]
    simp only [stepCmd, hany, Bool.false_eq_true, if_false] at this ⊢
    simpa using this
  · simp only [hany, if_true] at h1
    rw [callD_eq c ora _ _ _ h1]
    simp [gen, hand, stepCmd, hany, ghost, callsOf]

theorem remove_refines (P : Nat → List Cmd) (N : Names) (c : Ctx) (ora : DOracle) (s : St) (i : Inv s) (fr : PyVal)
    (ho : OraOk ora s.nextId fr) (n : Nat) :
    gen N s (callD c ora (heapOf N s.delays) remove [("name", N.nm n)]) = hand N (stepCmd P s (.remove n)) := by
  have h1 := remove_run' N c ora s.delays i.names (argLocals [("name", N.nm n)]) n (by simp [argLocals, List.lookup])
    s.nextId fr ho
  rw [callD_eq c ora _ _ _ h1]
  have hp := fold_popE N s i n ⟨s.live, s.nextId, [], [], false⟩ rfl
  have hnx : (popName s n).1.nextId = s.nextId := by unfold popName; split <;> rfl
  simp [gen, hand, stepCmd, hp, popD_popName, hnx, ghost_popName, callsOf_popName]

theorem check_refines (P : Nat → List Cmd) (N : Names) (c : Ctx) (ora : DOracle) (s : St) (n : Nat) :
    gen N s (callD c ora (heapOf N s.delays) check [("delay", N.nm n)]) = hand N (stepCmd P s (.check n)) ∧
    (callD c ora (heapOf N s.delays) check [("delay", N.nm n)]).2.2 =
      .ok (.bool (s.delays.any (fun e => e.name == n))) := by
  have h1 := check_run N c ora s.delays (argLocals [("delay", N.nm n)]) n (by simp [argLocals, List.lookup])
  rw [callD_eq c ora _ _ _ h1]
  simp [gen, hand, stepCmd, ghost, callsOf, Except.map]

theorem run_now_refines (P : Nat → List Cmd) (N : Names) (c : Ctx) (ora : DOracle) (s : St) (i : Inv s) (fr : PyVal)
    (ho : OraOk ora s.nextId fr) (n : Nat) :
    gen N s (callD c ora (heapOf N s.delays) run_now [("name", N.nm n)]) = hand N (stepCmd P s (.runNow n)) ∧
    (stepCmd P s (.runNow n)).2.2 =
      pushedRunNow P (gen N s (callD c ora (heapOf N s.delays) run_now [("name", N.nm n)])).calls := by
  have h1 := run_now_run N c ora s.delays i.names (argLocals [("name", N.nm n)]) n s.nextId fr ho
    (by simp [argLocals, List.lookup])
  have hp := fold_popE N s i n ⟨s.live, s.nextId, [], [], false⟩ rfl
  have hnx : (popName s n).1.nextId = s.nextId := by unfold popName; split <;> rfl
  cases hf : s.delays.find? (fun e => e.name == n) with
  | none =>
    simp only [hf] at h1
    rw [callD_eq c ora _ _ _ h1]
    simp [gen, hand, stepCmd, St.entry?, hf, ghost, callsOf, pushedRunNow]
  | some e =>
    simp only [hf] at h1
    rw [callD_eq c ora _ _ _ h1]
    simp [gen, hand, stepCmd, St.entry?, hf, List.foldl_append, hp, applyEff, callEff, Eff.arg, List.lookup, natOf, intOf,
      popD_popName, hnx, ghost, callsOf, ghost_append, callsOf_append, ghost_popName, callsOf_popName, pushedRunNow]

/-- `_process_delay_callback` (what the loop calls when the handle is due): the entry under the name is dropped, the stored
callback is called with the stored kwargs, no clock call is made -/
theorem pdc_refines (N : Names) (c : Ctx) (ora : DOracle) (s : St) (i : Inv s) (fr : PyVal) (ho : OraOk ora s.nextId fr)
    (h : Handle) (hl : h ∈ s.live) :
    let r := gen N s (callD c ora (heapOf N s.delays) p_process_delay_callback
      [("name", N.nm h.name), ("callback", .int h.cb), ("kwargs", .int h.arg)])
    r.dict = heapOf N (s.delays.filter (fun e => e.name != h.name)) ∧ r.live = s.live ∧ r.nextId = s.nextId ∧
    r.obs = [] ∧ r.calls = [(h.cb, h.arg)] ∧ r.unknown = false := by
  have h1 := pdc_run N c ora s.delays i.names
    (argLocals [("name", N.nm h.name), ("callback", .int h.cb), ("kwargs", .int h.arg)]) h.name h.cb h.arg s.nextId fr ho
    (by simp [argLocals, List.lookup]) (by simp [argLocals, List.lookup]) (by simp [argLocals, List.lookup])
  have he := i.live_entry h hl
  have hpd : popD s.delays h.name = s.delays.filter (fun e => e.name != h.name) := by
    unfold popD
    cases hf : s.delays.find? (fun e => e.name == h.name) with
    | some x => rfl
    | none => have := List.find?_eq_none.mp hf _ he; simp [entryOf] at this
  rw [hpd] at h1
  cases hr : ora (callEff h.cb h.arg) <;> simp only [hr] at h1 <;> rw [callD_eq c ora _ _ _ h1] <;>
  simp [gen, applyEff, callEff, queueEff, Eff.arg, List.lookup, natOf, intOf]

/-- folding the calls of `clear` (each entry's handle is unscheduled twice: by `clear` itself and by `remove`) -/
theorem fold_clear (N : Names) (now : Nat) : ∀ (es : List Entry) (g : GSt), es.Pairwise (fun a b => a.hid ≠ b.hid) →
    (∀ e ∈ es, g.live.any (fun h => h.hid == e.hid) = true) →
    (es.flatMap (fun e => [unsched e.hid, unsched e.hid])).foldl (applyEff N now) g =
      { g with live := g.live.filter (fun h => !(es.any (fun e => e.hid == h.hid))),
               obs := g.obs ++ es.map (fun e => .cancel e.hid) }
  | [], g, _, _ => by
    cases g; simp
    exact (List.filter_eq_self.mpr (fun _ _ => rfl)).symm
  | e :: r, g, hp, hl => by
    have hp' := List.pairwise_cons.mp hp
    have h1 : g.live.any (fun h => h.hid == e.hid) = true := hl e (by simp)
    have h2 : (g.live.filter (fun h => h.hid != e.hid)).any (fun h => h.hid == e.hid) = false := by
      simp [List.any_filter]
    have hl' : ∀ e' ∈ r, (g.live.filter (fun h => h.hid != e.hid)).any (fun h => h.hid == e'.hid) = true := by
      intro e' he'
      obtain ⟨h, hh, hq⟩ := List.any_eq_true.mp (hl e' (by simp [he']))
      refine List.any_eq_true.mpr ⟨h, List.mem_filter.mpr ⟨hh, ?_⟩, hq⟩
      have : e.hid ≠ e'.hid := hp'.1 e' he'
      have hq' : h.hid = e'.hid := by simpa using hq
      simp [hq']; exact fun c => this c.symm
    simp only [List.flatMap_cons, List.foldl_append, List.foldl_cons, List.foldl_nil]
    have s1 : applyEff N now g (unsched e.hid) =
        { g with live := g.live.filter (fun h => h.hid != e.hid), obs := g.obs ++ [.cancel e.hid] } := by
      simp [applyEff, unsched, Eff.arg, List.lookup, natOf, h1]
    have s2 : applyEff N now { g with live := g.live.filter (fun h => h.hid != e.hid), obs := g.obs ++ [.cancel e.hid] }
        (unsched e.hid) = { g with live := g.live.filter (fun h => h.hid != e.hid), obs := g.obs ++ [.cancel e.hid] } := by
      simp [applyEff, unsched, Eff.arg, List.lookup, natOf, h2]
    rw [s1, s2, fold_clear N now r _ hp'.2 hl']
    have hc : ∀ a : Handle, (e.hid == a.hid) = (a.hid == e.hid) := fun a => BEq.comm
    simp [List.filter_filter, List.any_cons, Bool.and_comm, bne, hc]

theorem clear_refines (P : Nat → List Cmd) (N : Names) (c : Ctx) (ora : DOracle) (s : St) (i : Inv s) (fr : PyVal)
    (ho : OraOk ora s.nextId fr) :
    gen N s (callT c ora (heapOf N s.delays) clear []) = hand N (stepCmd P s .clear) := by
  have h1 := clear_run N c ora s.delays i.names (argLocals []) s.nextId fr ho
  have hc : callT c ora (heapOf N s.delays) clear [] =
      ([], s.delays.flatMap (fun e => [unsched e.hid, unsched e.hid]), .ok .none) := by
    rw [callT, resOf_eq, h1]; rfl
  rw [hc]
  have hf := fold_clear N s.now s.delays ⟨s.live, s.nextId, [], [], false⟩ i.hids
    (fun e he => live_any_of_entry i he)
  have hg : ghost (s.delays.map (fun e => Obs.cancel e.hid)) = s.delays.map (fun e => Obs.cancel e.hid) := by
    induction s.delays with
    | nil => rfl
    | cons x r ih => simp [ghost, ih]
  have hcl : callsOf (s.delays.map (fun e => Obs.cancel e.hid)) = [] := by
    induction s.delays with
    | nil => rfl
    | cons x r ih => simp [callsOf, ih]
  simp [gen, hand, stepCmd, doClear, hf, hg, hcl, heapOf]

end MpfVerif.Delay
