import MpfVerif.Model.EventBus
/-!
# Lemmas for C01: the deque stack of `process_event_queue` simulates one depth-first agenda; sorting; dispatch.
-/
namespace MpfVerif.EventBus

section generic
variable {S Ev : Type}

/-- Loop-head invariant: an empty current deque means nothing is stacked; only the bottom deque of `inner` may be
empty; `event_queue` is empty whenever the inner `while` is running. -/
def Loop.Inv (st : Loop S Ev) : Prop :=
  (st.cur = [] → st.inner = []) ∧ (∀ q ∈ st.inner.dropLast, q ≠ []) ∧ (st.cur ≠ [] → st.queue = [])

theorem step_sim (proc : S → Ev → S × List Ev) (cbrun : S → Option (S × List Ev)) (st : Loop S Ev)
    (h : Loop.Inv st) :
    match Loop.step proc cbrun st with
    | none => Spec.step proc cbrun st.abs = none
    | some st' => Loop.Inv st' ∧ ((st.cur = [] ∧ st'.abs = st.abs) ∨ Spec.step proc cbrun st.abs = some st'.abs) := by
  obtain ⟨s, queue, cur, inner⟩ := st
  obtain ⟨h1, h2, h3⟩ := h
  simp only at h1 h2 h3
  cases cur with
  | nil =>
    have hi : inner = [] := h1 rfl
    subst hi
    cases queue with
    | nil =>
      cases hc : cbrun s with
      | none => simp [Loop.step, Spec.step, Loop.abs, hc]
      | some r =>
        obtain ⟨s', posted⟩ := r
        simp [Loop.step, Spec.step, Loop.abs, hc, Loop.Inv]
    | cons x xs => simp [Loop.step, Loop.abs, Loop.Inv]
  | cons e rest =>
    have hq : queue = [] := h3 (by simp)
    subst hq
    cases hp : proc s e with
    | mk s' posted =>
      cases rest with
      | nil =>
        cases inner with
        | nil =>
          cases posted with
          | nil => simp [Loop.step, Spec.step, Loop.abs, hp, Loop.Inv]
          | cons p ps => simp [Loop.step, Spec.step, Loop.abs, hp, Loop.Inv]
        | cons q qs =>
          cases posted with
          | nil =>
            simp [Loop.step, Spec.step, Loop.abs, hp, Loop.Inv]
            refine ⟨?_, ?_⟩
            · intro hq
              subst hq
              cases qs with
              | nil => rfl
              | cons q2 qs2 => exact absurd rfl (h2 [] (by simp [List.dropLast]))
            · intro x hx
              apply h2
              cases qs with
              | nil => simp [List.dropLast] at hx
              | cons q2 qs2 => simp [List.dropLast] at hx ⊢; exact Or.inr hx
          | cons p ps =>
            simp [Loop.step, Spec.step, Loop.abs, hp, Loop.Inv]
            intro x hx
            cases qs with
            | nil => simp [List.dropLast] at hx
            | cons q2 qs2 =>
              simp [List.dropLast] at hx
              rcases hx with hx | hx
              · subst hx; exact h2 _ (by simp [List.dropLast])
              · exact h2 _ (by simp [List.dropLast]; exact Or.inr hx)
      | cons r rs =>
        cases posted with
        | nil =>
          simp [Loop.step, Spec.step, Loop.abs, hp, Loop.Inv]
          exact h2
        | cons p ps =>
          simp [Loop.step, Spec.step, Loop.abs, hp, Loop.Inv]
          intro x hx
          cases inner with
          | nil => simp [List.dropLast] at hx
          | cons q qs =>
            simp [List.dropLast] at hx
            rcases hx with hx | hx
            · subst hx; simp
            · exact h2 _ hx


/-- any number of loop iterations is matched by at most as many agenda steps -/
theorem iter_refines (proc : S → Ev → S × List Ev) (cbrun : S → Option (S × List Ev)) (n : Nat) (st : Loop S Ev)
    (h : Loop.Inv st) :
    Loop.Inv (Loop.iter proc cbrun n st) ∧
      ∃ m, m ≤ n ∧ Spec.iter proc cbrun m st.abs = (Loop.iter proc cbrun n st).abs := by
  induction n generalizing st with
  | zero => exact ⟨h, 0, Nat.le_refl _, rfl⟩
  | succ n ih =>
    have hs := step_sim proc cbrun st h
    cases hst : Loop.step proc cbrun st with
    | none =>
      simp only [Loop.iter, hst]
      exact ⟨h, 0, Nat.zero_le _, rfl⟩
    | some st' =>
      rw [hst] at hs
      simp only [Loop.iter, hst]
      obtain ⟨hinv, hrel⟩ := hs
      obtain ⟨hi, m, hm, heq⟩ := ih st' hinv
      refine ⟨hi, ?_⟩
      rcases hrel with ⟨_, hstut⟩ | hstep
      · exact ⟨m, Nat.le_succ_of_le hm, by rw [← hstut]; exact heq⟩
      · exact ⟨m + 1, Nat.succ_le_succ hm, by simp only [Spec.iter, hstep]; exact heq⟩

/-- the loop ends exactly when the agenda machine has nothing left to do -/
theorem ends_iff (proc : S → Ev → S × List Ev) (cbrun : S → Option (S × List Ev)) (st : Loop S Ev)
    (h : Loop.Inv st) : Loop.step proc cbrun st = none ↔ Spec.step proc cbrun st.abs = none := by
  have hs := step_sim proc cbrun st h
  constructor
  · intro hn; rw [hn] at hs; exact hs
  · intro hn
    cases hst : Loop.step proc cbrun st with
    | none => rfl
    | some st' =>
      rw [hst] at hs
      rcases hs.2 with ⟨hc, _⟩ | hstep
      · -- a swap-in step: the queue is not empty, so the agenda is not either
        obtain ⟨s, queue, cur, inner⟩ := st
        simp only at hc
        subst hc
        have hi : inner = [] := h.1 rfl
        subst hi
        cases queue with
        | nil =>
          simp [Loop.step] at hst
          simp [Spec.step, Loop.abs] at hn
          cases hc2 : cbrun s with
          | none => simp [hc2] at hst
          | some r => simp [hc2] at hn
        | cons x xs => simp [Spec.step, Loop.abs] at hn
      · rw [hn] at hstep; cases hstep

theorem step_none_drained (proc : S → Ev → S × List Ev) (cbrun : S → Option (S × List Ev)) (st : Loop S Ev)
    (h : Loop.Inv st) (hn : Loop.step proc cbrun st = none) :
    st.cur = [] ∧ st.inner = [] ∧ st.queue = [] ∧ cbrun st.s = none := by
  obtain ⟨s, queue, cur, inner⟩ := st
  cases cur with
  | cons e rest =>
    simp only [Loop.step] at hn
    split at hn <;> (split at hn <;> cases hn)
  | nil =>
    have hi : inner = [] := h.1 rfl
    cases queue with
    | cons x xs => simp [Loop.step] at hn
    | nil =>
      cases hc : cbrun s with
      | none => exact ⟨rfl, hi, rfl, rfl⟩
      | some r => simp [Loop.step, hc] at hn

end generic

/-! ## sorting and the registry -/

def Desc (l : List Handler) : Prop := l.Pairwise (fun a b => a.prio ≥ b.prio)

theorem mem_insDesc (h x : Handler) (l : List Handler) : x ∈ insDesc h l ↔ x = h ∨ x ∈ l := by
  induction l with
  | nil => simp [insDesc]
  | cons y ys ih =>
    unfold insDesc
    split
    · simp
    · simp [ih]; constructor <;> (intro hh; rcases hh with a | a | a <;> simp [a])

theorem insDesc_desc (h : Handler) (l : List Handler) (hl : Desc l) : Desc (insDesc h l) := by
  induction l with
  | nil => simp [insDesc, Desc]
  | cons y ys ih =>
    unfold Desc at hl
    rw [List.pairwise_cons] at hl
    unfold insDesc
    split
    · rename_i hge
      unfold Desc
      rw [List.pairwise_cons]
      refine ⟨?_, List.pairwise_cons.mpr hl⟩
      intro z hz
      rcases List.mem_cons.mp hz with rfl | hz
      · exact hge
      · have := hl.1 z hz; omega
    · rename_i hlt
      unfold Desc
      rw [List.pairwise_cons]
      refine ⟨?_, ih hl.2⟩
      intro z hz
      rcases (mem_insDesc h z ys).mp hz with rfl | hz
      · omega
      · exact hl.1 z hz

theorem sortDesc_desc (l : List Handler) : Desc (sortDesc l) := by
  induction l with
  | nil => simp [sortDesc, Desc]
  | cons h r ih => exact insDesc_desc h _ ih

/-- where `add_handler` puts a new handler in an already sorted list: behind every handler of the same or a higher
priority, in front of the first lower one; nothing else moves -/
def insAfter (h : Handler) : List Handler → List Handler
  | [] => [h]
  | y :: ys => if y.prio ≥ h.prio then y :: insAfter h ys else h :: y :: ys

theorem insDesc_head (y : Handler) (l : List Handler) (hl : ∀ z ∈ l, y.prio ≥ z.prio) : insDesc y l = y :: l := by
  cases l with
  | nil => rfl
  | cons z zs => simp [insDesc, hl z List.mem_cons_self]

theorem mem_insAfter (h x : Handler) (l : List Handler) : x ∈ insAfter h l ↔ x = h ∨ x ∈ l := by
  induction l with
  | nil => simp [insAfter]
  | cons y ys ih =>
    unfold insAfter
    split
    · simp [ih]; constructor <;> (intro hh; rcases hh with a | a | a <;> simp [a])
    · simp

theorem insAfter_cons (h y : Handler) (ys : List Handler) :
    insAfter h (y :: ys) = if y.prio ≥ h.prio then y :: insAfter h ys else h :: y :: ys := rfl

theorem sortDesc_append_one (h : Handler) (l : List Handler) (hl : Desc l) : sortDesc (l ++ [h]) = insAfter h l := by
  induction l with
  | nil => rfl
  | cons y ys ih =>
    unfold Desc at hl
    rw [List.pairwise_cons] at hl
    simp only [List.cons_append, sortDesc]
    rw [ih hl.2, insAfter_cons]
    by_cases hge : y.prio ≥ h.prio
    · rw [if_pos hge]
      apply insDesc_head
      intro z hz
      rcases (mem_insAfter h z ys).mp hz with rfl | hz
      · exact hge
      · exact hl.1 z hz
    · rw [if_neg hge]
      have hys : insAfter h ys = h :: ys := by
        cases ys with
        | nil => rfl
        | cons z zs =>
          have := hl.1 z List.mem_cons_self
          rw [insAfter_cons, if_neg (by omega)]
      rw [hys]
      simp only [insDesc]
      rw [if_neg hge, insDesc_head y ys hl.1]

theorem regGet_regSet (r : Reg) (e e' : Nat) (hs : List Handler) :
    regGet (regSet r e hs) e' = if e = e' then hs else regGet r e' := by
  induction r with
  | nil => simp [regSet, regGet]
  | cons p r ih =>
    obtain ⟨e0, old⟩ := p
    unfold regSet
    split
    · rename_i h0; subst h0
      by_cases h : e0 = e' <;> simp [regGet, h]
    · rename_i h0
      simp only [regGet, ih]
      by_cases h : e = e'
      · subst h; simp [h0]
      · simp [h]

/-- registry operations of the public API -/
inductive RegOp
  | add (ev : Nat) (h : Handler)
  | removeKey (ev key : Nat)
  | removeAll (ev : Nat)
  | replace (ev : Nat) (h : Handler)
  | removeFn (pid : Nat)
  | removeEvFn (ev pid : Nat)

def applyOp (r : Reg) : RegOp → Reg
  | .add ev h => addHandler r ev h
  | .removeKey ev key => removeKey r ev key
  | .removeAll ev => removeAll r ev
  | .replace ev h => replaceHandler r ev h
  | .removeFn pid => removeFn r pid
  | .removeEvFn ev pid => removeEvFn r ev pid

theorem regGet_removeFn (r : Reg) (pid ev : Nat) :
    regGet (removeFn r pid) ev = (regGet r ev).filter (fun x => x.fn != pid) := by
  induction r with
  | nil => simp [removeFn, regGet]
  | cons p r ih =>
    obtain ⟨e, hs⟩ := p
    simp only [removeFn, regGet]
    split
    · rfl
    · exact ih

def RegSorted (r : Reg) : Prop := ∀ ev, Desc (regGet r ev)

theorem applyOp_sorted (r : Reg) (op : RegOp) (h : RegSorted r) : RegSorted (applyOp r op) := by
  intro ev
  cases op with
  | add e hd =>
    simp only [applyOp, addHandler, regGet_regSet]
    split
    · exact sortDesc_desc _
    · exact h ev
  | removeKey e k =>
    simp only [applyOp, removeKey, regGet_regSet]
    split
    · exact List.Pairwise.sublist List.filter_sublist (h e)
    · exact h ev
  | removeAll e =>
    simp only [applyOp, removeAll, regGet_regSet]
    split
    · simp [Desc]
    · exact h ev
  | replace e hd =>
    simp only [applyOp, replaceHandler, regGet_regSet]
    split
    · exact sortDesc_desc _
    · exact h ev
  | removeFn pid =>
    simp only [applyOp, regGet_removeFn]
    exact List.Pairwise.sublist List.filter_sublist (h ev)
  | removeEvFn e pid =>
    simp only [applyOp, removeEvFn, regGet_regSet]
    split
    · exact List.Pairwise.sublist List.filter_sublist (h e)
    · exact h ev

/-! ## the concrete bus: what handlers, callbacks and top-level code can and cannot touch -/

theorem runAct_frame (c : Core) (a : Act) :
    (runAct c a).1.cbq = c.cbq ∧ (runAct c a).1.log = c.log ∧ (runAct c a).1.facts = c.facts := by
  cases a <;> simp [runAct] <;> split <;> simp

theorem runActs_frame (c : Core) (acts : List Act) :
    (runActs c acts).1.cbq = c.cbq ∧ (runActs c acts).1.log = c.log ∧ (runActs c acts).1.facts = c.facts := by
  induction acts generalizing c with
  | nil => simp [runActs]
  | cons a r ih =>
    simp only [runActs]
    have h1 := runAct_frame c a
    split
    · exact h1
    · have h2 := ih (runAct c a).1
      exact ⟨h2.1.trans h1.1, h2.2.1.trans h1.2.1, h2.2.2.trans h1.2.2⟩

theorem runAct_reg_sorted (c : Core) (a : Act) (hf : c.facts = Facts.canon) (h : RegSorted c.reg) :
    RegSorted (runAct c a).1.reg := by
  cases a with
  | post ev ty cb kw => simp only [runAct]; split <;> exact h
  | add ev hd => simp only [runAct, hf, addHandlerF_canon]; exact applyOp_sorted c.reg (.add ev hd) h
  | removeKey ev k => exact applyOp_sorted c.reg (.removeKey ev k) h
  | removeAll ev => exact applyOp_sorted c.reg (.removeAll ev) h
  | replace ev hd => simp only [runAct, hf, replaceHandlerF_canon]; exact applyOp_sorted c.reg (.replace ev hd) h
  | removeFn pid => exact applyOp_sorted c.reg (.removeFn pid) h
  | removeEvFn ev pid => exact applyOp_sorted c.reg (.removeEvFn ev pid) h
  | replaceRaw ev hd => simp only [runAct, hf, addHandlerF_canon]; exact applyOp_sorted c.reg (.add ev hd) h
  | raise => exact h
  | resolve wid => simp only [runAct]; split <;> exact h
  | monitor on => exact h
  | reenter => exact h

theorem runActs_reg_sorted (c : Core) (acts : List Act) (hf : c.facts = Facts.canon) (h : RegSorted c.reg) :
    RegSorted (runActs c acts).1.reg := by
  induction acts generalizing c with
  | nil => simpa [runActs] using h
  | cons a r ih =>
    simp only [runActs]
    have h1 := runAct_reg_sorted c a hf h
    split
    · exact h1
    · exact ih _ ((runAct_frame c a).2.2.trans hf) h1

/-- serials of the callbacks that have run -/
def cbSns (log : List Obs) : List Nat :=
  log.filterMap (fun o => match o with | .cb _ sn _ => some sn | .call .. => none)

theorem cbSns_append_call (log : List Obs) (k e n : Nat) (kw : Kw) : cbSns (log ++ [Obs.call k e n kw]) = cbSns log := by
  simp [cbSns, List.filterMap_append]

theorem runHandlers_frame (progs : Nat → Prog) (ev sn : Nat) (ty : Ty) (hs : List Handler) (c : Core) (kw : Kw)
    (res : Ret) : (runHandlers progs ev sn ty hs c kw res).1.cbq = c.cbq ∧
      cbSns (runHandlers progs ev sn ty hs c kw res).1.log = cbSns c.log := by
  induction hs generalizing c kw res with
  | nil => simp [runHandlers]
  | cons h hs ih =>
    simp only [runHandlers]
    split
    · exact ih c kw res
    · have hf := runActs_frame { c with log := c.log ++ [Obs.call h.key ev sn (kwUpdate kw h.kw)] } (progs h.pid).acts
      split
      · simp only [hf.1, hf.2.1, cbSns_append_call]; trivial
      · simp only
        have h2 := ih (runActs { c with log := c.log ++ [Obs.call h.key ev sn (kwUpdate kw h.kw)] } (progs h.pid).acts).1
        refine ⟨(h2 _ _).1.trans hf.1, (h2 _ _).2.trans ?_⟩
        rw [hf.2.1, cbSns_append_call]

theorem popLast_spec {α : Type} (l r : List α) (x : α) (h : popLast l = some (r, x)) : l = r ++ [x] := by
  induction l generalizing r with
  | nil => simp [popLast] at h
  | cons a t ih =>
    cases t with
    | nil => simp [popLast] at h; obtain ⟨rfl, rfl⟩ := h; rfl
    | cons b t' =>
      simp only [popLast] at h
      cases hp : popLast (b :: t') with
      | none => simp [hp] at h
      | some q =>
        obtain ⟨l', z⟩ := q
        simp [hp] at h
        obtain ⟨rfl, rfl⟩ := h
        rw [ih l' hp]; rfl

def swapOpt {α : Type} : Option (List α × α) → Option (α × List α)
  | some (r, x) => some (x, r)
  | none => none

theorem popAt_right {α : Type} (l : List α) : popAt .right l = swapOpt (popLast l) := by
  cases l with
  | nil => rfl
  | cons a t => simp only [popAt]; cases popLast (a :: t) <;> rfl

/-- a callback step removes exactly the entry it runs — the *last* one — and logs it once -/
theorem cbRun_pops (progs : Nat → Prog) (c c' : Core) (posted : List Posted) (hfc : c.facts = Facts.canon)
    (h : cbRun progs c = some (c', posted)) :
    ∃ pid sn kw, c.cbq = c'.cbq ++ [(pid, sn, kw)] ∧ c'.log = c.log ++ [Obs.cb pid sn kw] := by
  unfold cbRun at h
  have hpa : popAt c.facts.cbPop c.cbq = swapOpt (popLast c.cbq) := by
    rw [hfc]; exact popAt_right _
  rw [hpa] at h
  cases hp : popLast c.cbq with
  | none => simp [hp, swapOpt] at h
  | some q =>
    obtain ⟨rest, pid, sn, kw⟩ := q
    simp only [hp, swapOpt, Option.some.injEq] at h
    have hf := runActs_frame { c with cbq := rest, log := c.log ++ [Obs.cb pid sn kw], qempty := true } (progs pid).acts
    rw [h] at hf
    refine ⟨pid, sn, kw, ?_, hf.2.1⟩
    rw [hf.1]
    exact popLast_spec _ _ _ hp

/-- calls logged by one dispatch of a plain event: the snapshot handlers whose condition holds on the merged kwargs,
each once, in list order -/
def expectedCalls (ev sn : Nat) (kw : Kw) (hs : List Handler) : List Obs :=
  (hs.filter (fun h => condHolds h.cond (kwUpdate kw h.kw))).map (fun h => Obs.call h.key ev sn (kwUpdate kw h.kw))

theorem runHandlers_plain_log (progs : Nat → Prog) (ev sn : Nat) (hs : List Handler) (c : Core) (kw : Kw) (res : Ret) :
    (runHandlers progs ev sn .plain hs c kw res).1.log = c.log ++ expectedCalls ev sn kw hs ∧
    (runHandlers progs ev sn .plain hs c kw res).2.1 = kw := by
  induction hs generalizing c res with
  | nil => simp [runHandlers, expectedCalls]
  | cons h hs ih =>
    simp only [runHandlers]
    by_cases hc : condHolds h.cond (kwUpdate kw h.kw) = true
    · simp only [hc, Bool.not_true, Bool.false_eq_true, if_false]
      have hf := runActs_frame { c with log := c.log ++ [Obs.call h.key ev sn (kwUpdate kw h.kw)] } (progs h.pid).acts
      rw [if_neg (by simp)]
      simp only
      have h2 := ih (runActs { c with log := c.log ++ [Obs.call h.key ev sn (kwUpdate kw h.kw)] } (progs h.pid).acts).1
        (progs h.pid).ret
      refine ⟨?_, h2.2⟩
      rw [h2.1, hf.2.1]
      simp [expectedCalls, hc]
    · have hc' : condHolds h.cond (kwUpdate kw h.kw) = false := by simpa using hc
      simp only [hc', Bool.not_false, if_true]
      have h2 := ih c res
      refine ⟨?_, h2.2⟩
      rw [h2.1]
      simp [expectedCalls, hc']

/-- `dict(list(kwargs.items()) + list(handler.kwargs.items()))`: a key of the handler's kwargs (no duplicate keys, as in
any dict) reads the handler's value; any other key reads the posted one -/
theorem kwGet_kwSet (d : Kw) (k k' : Nat) (v : Val) : kwGet (kwSet d k v) k' = if k = k' then some v else kwGet d k' := by
  induction d with
  | nil => simp [kwSet, kwGet]
  | cons p r ih =>
    obtain ⟨k0, v0⟩ := p
    unfold kwSet
    split
    · rename_i h0; subst h0
      by_cases h : k0 = k' <;> simp [kwGet, h]
    · rename_i h0
      simp only [kwGet, ih]
      by_cases h : k = k'
      · subst h; simp [h0]
      · simp [h]

theorem kwGet_kwUpdate (d u : Kw) (k : Nat) (hu : (u.map Prod.fst).Nodup) :
    kwGet (kwUpdate d u) k = match kwGet u k with | some v => some v | none => kwGet d k := by
  induction u generalizing d with
  | nil => simp [kwUpdate, kwGet]
  | cons p r ih =>
    obtain ⟨k0, v0⟩ := p
    simp only [List.map_cons, List.nodup_cons] at hu
    simp only [kwUpdate, kwGet]
    rw [ih _ hu.2]
    by_cases h : k0 = k
    · subst h
      have hr : kwGet r k0 = none := by
        have hn := hu.1
        clear ih hu
        induction r with
        | nil => rfl
        | cons q r ihr =>
          simp only [List.map_cons, List.mem_cons, not_or] at hn
          simp only [kwGet]
          rw [if_neg (fun hh => hn.1 hh.symm)]
          exact ihr hn.2
      simp [hr, kwGet_kwSet]
    · simp only [if_neg h]
      cases kwGet r k with
      | some v => rfl
      | none => simp [kwGet_kwSet, h]



/-- reference: what a relay event's kwargs become — the left fold of the handlers' returned dicts -/
def relayFold (progs : Nat → Prog) : List Handler → Kw → Kw
  | [], kw => kw
  | h :: hs, kw =>
    if !condHolds h.cond (kwUpdate kw h.kw) then relayFold progs hs kw
    else match (progs h.pid).ret with
      | .dict d => relayFold progs hs (kwUpdate kw (ofInts d))
      | _ => relayFold progs hs kw

/-- reference: the handler calls of a relay event — each handler sees the fold so far merged with its own kwargs -/
def relayCalls (progs : Nat → Prog) (ev sn : Nat) : List Handler → Kw → List Obs
  | [], _ => []
  | h :: hs, kw =>
    if !condHolds h.cond (kwUpdate kw h.kw) then relayCalls progs ev sn hs kw
    else Obs.call h.key ev sn (kwUpdate kw h.kw) :: (match (progs h.pid).ret with
      | .dict d => relayCalls progs ev sn hs (kwUpdate kw (ofInts d))
      | _ => relayCalls progs ev sn hs kw)

theorem runHandlers_relay (progs : Nat → Prog) (ev sn : Nat) (hs : List Handler) (c : Core) (kw : Kw) (res : Ret) :
    (runHandlers progs ev sn .relay hs c kw res).1.log = c.log ++ relayCalls progs ev sn hs kw ∧
    (runHandlers progs ev sn .relay hs c kw res).2.1 = relayFold progs hs kw := by
  induction hs generalizing c kw res with
  | nil => simp [runHandlers, relayCalls, relayFold]
  | cons h hs ih =>
    simp only [runHandlers, relayCalls, relayFold]
    by_cases hc : condHolds h.cond (kwUpdate kw h.kw) = true
    · simp only [hc, Bool.not_true, Bool.false_eq_true, if_false]
      have hf := runActs_frame { c with log := c.log ++ [Obs.call h.key ev sn (kwUpdate kw h.kw)] } (progs h.pid).acts
      rw [if_neg (by simp)]
      cases hr : (progs h.pid).ret <;> simp only [] <;>
        (refine ⟨?_, (ih _ _ _).2⟩; rw [(ih _ _ _).1, hf.2.1]; simp)
    · have hc' : condHolds h.cond (kwUpdate kw h.kw) = false := by simpa using hc
      simp only [hc', Bool.not_false, if_true]
      exact ih c kw res

/-- reference for boolean events: calls up to and including the first handler returning `False` -/
def boolCalls (progs : Nat → Prog) (ev sn : Nat) (kw : Kw) : List Handler → List Obs
  | [] => []
  | h :: hs =>
    if !condHolds h.cond (kwUpdate kw h.kw) then boolCalls progs ev sn kw hs
    else Obs.call h.key ev sn (kwUpdate kw h.kw) ::
      (if (progs h.pid).ret = .bool false then [] else boolCalls progs ev sn kw hs)

/-- does some called handler return `False`? -/
def boolStops (progs : Nat → Prog) (kw : Kw) : List Handler → Bool
  | [] => false
  | h :: hs =>
    if !condHolds h.cond (kwUpdate kw h.kw) then boolStops progs kw hs
    else if (progs h.pid).ret = .bool false then true else boolStops progs kw hs

theorem runHandlers_boolean (progs : Nat → Prog) (ev sn : Nat) (hs : List Handler) (c : Core) (kw : Kw) (res : Ret) :
    (runHandlers progs ev sn .boolean hs c kw res).1.log = c.log ++ boolCalls progs ev sn kw hs ∧
    (runHandlers progs ev sn .boolean hs c kw res).2.1 =
      (if boolStops progs kw hs then kwSet kw evResult (.bool false) else kw) := by
  induction hs generalizing c res with
  | nil => simp [runHandlers, boolCalls, boolStops]
  | cons h hs ih =>
    simp only [runHandlers, boolCalls, boolStops]
    by_cases hc : condHolds h.cond (kwUpdate kw h.kw) = true
    · simp only [hc, Bool.not_true, Bool.false_eq_true, if_false]
      have hf := runActs_frame { c with log := c.log ++ [Obs.call h.key ev sn (kwUpdate kw h.kw)] } (progs h.pid).acts
      by_cases hr : (progs h.pid).ret = .bool false
      · rw [if_pos ⟨trivial, hr⟩]
        simp [hr, hf.2.1]
      · rw [if_neg (fun hh => hr hh.2)]
        simp only [hr, if_false]
        refine ⟨?_, (ih _ _).2⟩
        rw [(ih _ _).1, hf.2.1]; simp
    · have hc' : condHolds h.cond (kwUpdate kw h.kw) = false := by simpa using hc
      simp only [hc', Bool.not_false, if_true]
      exact ih c res



/-! ## the loop as the code runs it: blocking, `_min_priority` results, exceptions -/

/-- reference: the handler calls of one dispatch (any event type) when nobody raises — a function of the snapshot, the
posted kwargs and the handlers' return values only.  A handler is left out when its blocking facility is blocked by the
`_min_priority` an earlier handler of this dispatch returned (or that was posted), or when its condition is false. -/
def dispCalls (progs : Nat → Prog) (ev sn : Nat) (ty : Ty) : List Handler → Kw → List Obs
  | [], _ => []
  | h :: hs, kw =>
    if blocked kw h || !condHolds h.cond (kwUpdate kw h.kw) then dispCalls progs ev sn ty hs kw
    else Obs.call h.key ev sn (kwUpdate kw h.kw) ::
      (if ty = .boolean ∧ (progs h.pid).ret = .bool false then []
       else dispCalls progs ev sn ty hs (foldRet ty (progs h.pid).ret kw))

theorem runHandlersX_frame (progs : Nat → Prog) (ev sn : Nat) (ty : Ty) (hs : List Handler) (c : Core) (kw : Kw)
    (res : Ret) : (runHandlersX progs ev sn ty hs c kw res).1.cbq = c.cbq ∧
      cbSns (runHandlersX progs ev sn ty hs c kw res).1.log = cbSns c.log ∧
      (runHandlersX progs ev sn ty hs c kw res).1.facts = c.facts := by
  induction hs generalizing c kw res with
  | nil => simp [runHandlersX]
  | cons h hs ih =>
    simp only [runHandlersX]
    split
    · exact ih c kw res
    · have hf := runActs_frame { c with log := c.log ++ [Obs.call h.key ev sn (kwUpdate kw h.kw)] } (progs h.pid).acts
      split
      · simp only [hf.1, hf.2.1, hf.2.2, cbSns_append_call]; trivial
      · split
        · simp only [hf.1, hf.2.1, hf.2.2, cbSns_append_call]; trivial
        · simp only
          have h2 := ih (runActs { c with log := c.log ++ [Obs.call h.key ev sn (kwUpdate kw h.kw)] } (progs h.pid).acts).1
          refine ⟨(h2 _ _).1.trans hf.1, (h2 _ _).2.1.trans ?_, (h2 _ _).2.2.trans hf.2.2⟩
          rw [hf.2.1, cbSns_append_call]

/-- The calls of one dispatch are always a prefix of the reference list — each handler at most once, in snapshot
order, nobody out of turn, even when a handler raises — and the whole list when nobody raised. -/
theorem runHandlersX_log (progs : Nat → Prog) (ev sn : Nat) (ty : Ty) (hs : List Handler) (c : Core) (kw : Kw) (res : Ret) :
    ∃ n, (runHandlersX progs ev sn ty hs c kw res).1.log = c.log ++ (dispCalls progs ev sn ty hs kw).take n ∧
      ((runHandlersX progs ev sn ty hs c kw res).1.raised = false → (dispCalls progs ev sn ty hs kw).length ≤ n) := by
  induction hs generalizing c kw res with
  | nil => exact ⟨0, by simp [runHandlersX, dispCalls], by simp [dispCalls]⟩
  | cons h hs ih =>
    simp only [runHandlersX, dispCalls]
    by_cases hsk : (blocked kw h || !condHolds h.cond (kwUpdate kw h.kw)) = true
    · simp only [hsk, if_true]
      exact ih c kw res
    · have hsk' : (blocked kw h || !condHolds h.cond (kwUpdate kw h.kw)) = false := by simpa using hsk
      simp only [hsk', Bool.false_eq_true, if_false]
      have hf := runActs_frame { c with log := c.log ++ [Obs.call h.key ev sn (kwUpdate kw h.kw)] } (progs h.pid).acts
      by_cases hr : (runActs { c with log := c.log ++ [Obs.call h.key ev sn (kwUpdate kw h.kw)] } (progs h.pid).acts).1.raised = true
      · simp only [hr, if_true]
        refine ⟨1, ?_, ?_⟩
        · rw [hf.2.1]; simp
        · intro hx; first | cases hx | (rw [hr] at hx; cases hx)
      · have hr' : (runActs { c with log := c.log ++ [Obs.call h.key ev sn (kwUpdate kw h.kw)] } (progs h.pid).acts).1.raised = false := by
          simpa using hr
        simp only [hr', Bool.false_eq_true, if_false]
        by_cases hb : ty = .boolean ∧ (progs h.pid).ret = .bool false
        · simp only [hb, and_self, if_true]
          refine ⟨1, ?_, ?_⟩
          · rw [hf.2.1]; simp
          · intro _; simp
        · simp only [hb, if_false]
          obtain ⟨n, h1, h2⟩ := ih (runActs { c with log := c.log ++ [Obs.call h.key ev sn (kwUpdate kw h.kw)] } (progs h.pid).acts).1
            (foldRet ty (progs h.pid).ret kw) (progs h.pid).ret
          refine ⟨n + 1, ?_, ?_⟩
          · rw [h1, hf.2.1]; simp
          · intro hx; have := h2 hx; simp; omega

/-- once an exception is propagating the flag stays up to the end of `_run_handlers` -/
theorem processEvent_log (progs : Nat → Prog) (c : Core) (e : Posted) :
    ∃ n, (processEvent progs c e).1.log = c.log ++ (dispCalls progs e.ev e.sn e.ty (regGet c.reg e.ev) e.kw).take n ∧
      ((processEvent progs c e).1.raised = false →
        (dispCalls progs e.ev e.sn e.ty (regGet c.reg e.ev) e.kw).length ≤ n) := by
  obtain ⟨n, h1, h2⟩ := runHandlersX_log progs e.ev e.sn e.ty (regGet c.reg e.ev) { c with qempty := true } e.kw .none
  refine ⟨n, ?_, ?_⟩
  · unfold processEvent
    simp only
    split
    · exact h1
    · split <;> exact h1
  · unfold processEvent
    simp only
    split
    · intro hx; exact h2 hx
    · split <;> (intro hx; exact h2 hx)

/-- dispatching an event runs no callback; it queues its own callback exactly once (under the event's own serial) when
nobody raised, and not at all when a handler raised -/
theorem processEvent_cbq (progs : Nat → Prog) (c : Core) (e : Posted) (hfc : c.facts = Facts.canon) :
    cbSns (processEvent progs c e).1.log = cbSns c.log ∧
    (if (processEvent progs c e).1.raised then (processEvent progs c e).1.cbq = c.cbq else
      match e.cb with
      | none => (processEvent progs c e).1.cbq = c.cbq
      | some cb => ∃ kw, (processEvent progs c e).1.cbq = c.cbq ++ [(cb, e.sn, kw)]) := by
  have hf := runHandlersX_frame progs e.ev e.sn e.ty (regGet c.reg e.ev) { c with qempty := true } e.kw .none
  unfold processEvent
  simp only
  by_cases hr : (runHandlersX progs e.ev e.sn e.ty (regGet c.reg e.ev) { c with qempty := true } e.kw .none).1.raised = true
  · simp only [hr, if_true]
    exact ⟨hf.2.1, hf.1⟩
  · have hr' : (runHandlersX progs e.ev e.sn e.ty (regGet c.reg e.ev) { c with qempty := true } e.kw .none).1.raised = false := by
      simpa using hr
    simp only [hr', Bool.false_eq_true, if_false]
    cases hcb : e.cb with
    | none => simp only [hr', Bool.false_eq_true, if_false]; exact ⟨hf.2.1, hf.1⟩
    | some cb =>
      simp only [hr', Bool.false_eq_true, if_false]
      refine ⟨hf.2.1, ?_⟩
      have hfx := hf.2.2.trans hfc
      rw [hfx, hf.1]
      exact ⟨_, rfl⟩

/-! ## the facts of the source -/

theorem enq_right {α : Type} (q p : List α) : enq .right q p = q ++ p := by cases q <;> rfl

/-- with the canonical deque ends the parameterised iteration IS the iteration the refinement theorems are about -/
theorem Loop.stepF_canon {S Ev : Type} (proc : S → Ev → S × List Ev) (cbrun : S → Option (S × List Ev)) (st : Loop S Ev) :
    Loop.stepF Facts.canon proc cbrun st = Loop.step proc cbrun st := by
  obtain ⟨s, queue, cur, inner⟩ := st
  cases cur with
  | nil => simp [Loop.stepF, Loop.step, Facts.canon, popAt, enq_right]
  | cons e rest =>
    cases rest with
    | nil => cases inner <;> simp [Loop.stepF, Loop.step, Facts.canon, popAt, pushAt, enq_right]
    | cons r rs => simp [Loop.stepF, Loop.step, Facts.canon, popAt, pushAt, enq_right]

/-! ## futures: `_wait_handler` resolves a future at most once -/

def futs (m : List (Nat × SObs)) : List Nat :=
  m.filterMap (fun p => match p.2 with | .fut w => some w | _ => none)

/-- every future reported as resolved is in `resolved`, and none is reported twice -/
def FutInv (c : Core) : Prop := (futs c.mlog).Nodup ∧ ∀ w ∈ futs c.mlog, w ∈ c.resolved

theorem runAct_futInv (c : Core) (a : Act) (h : FutInv c) : FutInv (runAct c a).1 := by
  cases a with
  | post ev ty cb kw =>
    simp only [runAct]
    split
    · exact h
    · by_cases hm : c.mon = true
      · simp only [hm, if_true, FutInv, futs, List.filterMap_append, List.filterMap_cons, List.filterMap_nil,
          List.append_nil]
        exact h
      · have hm' : c.mon = false := by simpa using hm
        simp only [hm', Bool.false_eq_true, if_false, FutInv]
        exact h
  | resolve wid =>
    simp only [runAct]
    split
    · exact h
    · rename_i hnot
      have hnot' : wid ∉ c.resolved := by simpa using hnot
      obtain ⟨h1, h2⟩ := h
      refine ⟨?_, ?_⟩
      · simp only [futs, List.filterMap_append, List.filterMap_cons, List.filterMap_nil]
        rw [List.nodup_append]
        refine ⟨h1, by simp, ?_⟩
        intro a ha b hb
        simp at hb
        subst hb
        intro hab; subst hab
        exact hnot' (h2 _ ha)
      · intro w hw
        simp only [futs, List.filterMap_append, List.filterMap_cons, List.filterMap_nil, List.mem_append,
          List.mem_singleton] at hw
        rcases hw with hw | hw
        · exact List.mem_cons_of_mem _ (h2 w hw)
        · subst hw; exact List.mem_cons_self
  | add ev hd => exact h
  | removeKey ev k => exact h
  | removeAll ev => exact h
  | replace ev hd => exact h
  | removeFn pid => exact h
  | removeEvFn ev pid => exact h
  | replaceRaw ev hd => exact h
  | raise => exact h
  | monitor on => exact h
  | reenter => exact h

theorem runActs_futInv (c : Core) (acts : List Act) (h : FutInv c) : FutInv (runActs c acts).1 := by
  induction acts generalizing c with
  | nil => simpa [runActs] using h
  | cons a r ih =>
    simp only [runActs]
    split
    · exact runAct_futInv c a h
    · exact ih _ (runAct_futInv c a h)


end MpfVerif.EventBus
