import MpfVerif.Model.StateMachine
/-! helper lemmas for the state-machine model (C18 extension) -/
namespace MpfVerif.StateMachine

/-- no transition has state `i` among its sources and `k` among its events: no handler is registered -/
theorem no_match (i k : Nat) (ts : List Trans) (j : Nat)
    (hn : ∀ t ∈ ts, i ∈ t.src → k ∉ t.events) : matchesFrom i k j ts = [] := by
  induction ts generalizing j with
  | nil => rfl
  | cons t r ih =>
    simp only [matchesFrom, List.append_eq_nil_iff]
    refine ⟨?_, ih (j + 1) (fun t' ht' => hn t' (List.mem_cons_of_mem _ ht'))⟩
    split
    · rename_i hc
      have hi : i ∈ t.src := by simpa using hc
      have hk := hn t List.mem_cons_self hi
      simp only [List.map_eq_nil_iff, List.filter_eq_nil_iff]
      intro x hx hxk
      have : x = k := by simpa using hxk
      exact hk (this ▸ hx)
    · rfl

end MpfVerif.StateMachine
