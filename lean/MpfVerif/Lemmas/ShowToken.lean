import MpfVerif.Model.ShowToken
/-! C17: show-token substitution — total, capture-free, identity without tokens. -/
namespace MpfVerif.ShowToken

theorem substSeg_noTok (toks : Toks) (g : Seg) (h : ∀ n ∈ segToks g, (lookup toks n).isSome = true) :
    segToks (substSeg toks g) = [] := by
  cases g with
  | lit s => rfl
  | tok n =>
    have := h n (by simp [segToks])
    cases hl : lookup toks n with
    | none => rw [hl] at this; cases this
    | some r => simp only [substSeg, hl, segToks]

theorem substSegs_noTok (toks : Toks) (l : List Seg) (h : ∀ n ∈ segsToks l, (lookup toks n).isSome = true) :
    segsToks (substSegs toks l) = [] := by
  induction l with
  | nil => rfl
  | cons g r ih =>
    have h1 : ∀ n ∈ segToks g, (lookup toks n).isSome = true := fun n hn => h n (by simp [segsToks]; exact Or.inl hn)
    have h2 : ∀ n ∈ segsToks r, (lookup toks n).isSome = true := fun n hn => h n (by
      simp only [segsToks, List.map_cons, List.flatten_cons, List.mem_append]; exact Or.inr hn)
    have i := ih h2
    simp only [segsToks, substSegs, List.map_cons, List.flatten_cons] at i ⊢
    rw [substSeg_noTok toks g h1, i]; rfl

theorem paths_noTok (toks : Toks) (p : List (List Seg)) (h : ∀ n ∈ (p.map segsToks).flatten, (lookup toks n).isSome = true) :
    ((p.map (substSegs toks)).map segsToks).flatten = [] := by
  induction p with
  | nil => rfl
  | cons k r ih =>
    have h1 : ∀ n ∈ segsToks k, (lookup toks n).isSome = true := fun n hn => h n (by simp; exact Or.inl hn)
    have h2 : ∀ n ∈ (r.map segsToks).flatten, (lookup toks n).isSome = true := fun n hn => h n (by
      simp only [List.map_cons, List.flatten_cons, List.mem_append]; exact Or.inr hn)
    simp only [List.map_cons, List.flatten_cons]
    rw [substSegs_noTok toks k h1, ih h2]; rfl

theorem subst_noTok (toks : Toks) (sh : List Entry) (h : ∀ n ∈ tokensOf sh, (lookup toks n).isSome = true) :
    tokensOf (subst toks sh) = [] := by
  induction sh with
  | nil => rfl
  | cons e r ih =>
    have h1 : ∀ n ∈ entryToks e, (lookup toks n).isSome = true := fun n hn => h n (by
      simp only [tokensOf, List.map_cons, List.flatten_cons, List.mem_append]; exact Or.inl hn)
    have h2 : ∀ n ∈ tokensOf r, (lookup toks n).isSome = true := fun n hn => h n (by
      simp only [tokensOf, List.map_cons, List.flatten_cons, List.mem_append]; exact Or.inr hn)
    have i := ih h2
    simp only [tokensOf, subst, List.map_cons, List.flatten_cons] at i ⊢
    rw [i, List.append_nil]
    unfold entryToks substEntry
    simp only
    rw [paths_noTok toks e.path (fun n hn => h1 n (by unfold entryToks; exact List.mem_append.mpr (Or.inl hn))),
      substSegs_noTok toks e.val (fun n hn => h1 n (by unfold entryToks; exact List.mem_append.mpr (Or.inr hn)))]
    rfl

/-! ### tokens that do not occur do not matter; identity -/

theorem substSegs_congr (a b : Toks) (l : List Seg) (h : ∀ n ∈ segsToks l, lookup a n = lookup b n) :
    substSegs a l = substSegs b l := by
  induction l with
  | nil => rfl
  | cons g r ih =>
    have h2 : ∀ n ∈ segsToks r, lookup a n = lookup b n := fun n hn => h n (by
      simp only [segsToks, List.map_cons, List.flatten_cons, List.mem_append]; exact Or.inr hn)
    have i := ih h2
    simp only [substSegs, List.map_cons] at i ⊢
    rw [i]
    congr 1
    cases g with
    | lit s => rfl
    | tok n =>
      have := h n (by simp [segsToks, segToks])
      simp only [substSeg, this]

theorem paths_congr (a b : Toks) (p : List (List Seg)) (h : ∀ n ∈ (p.map segsToks).flatten, lookup a n = lookup b n) :
    p.map (substSegs a) = p.map (substSegs b) := by
  induction p with
  | nil => rfl
  | cons k r ih =>
    have h1 : ∀ n ∈ segsToks k, lookup a n = lookup b n := fun n hn => h n (by simp; exact Or.inl hn)
    have h2 : ∀ n ∈ (r.map segsToks).flatten, lookup a n = lookup b n := fun n hn => h n (by
      simp only [List.map_cons, List.flatten_cons, List.mem_append]; exact Or.inr hn)
    simp only [List.map_cons]
    rw [substSegs_congr a b k h1, ih h2]

theorem subst_congr (a b : Toks) (sh : List Entry) (h : ∀ n ∈ tokensOf sh, lookup a n = lookup b n) :
    subst a sh = subst b sh := by
  induction sh with
  | nil => rfl
  | cons e r ih =>
    have h1 : ∀ n ∈ entryToks e, lookup a n = lookup b n := fun n hn => h n (by
      simp only [tokensOf, List.map_cons, List.flatten_cons, List.mem_append]; exact Or.inl hn)
    have h2 : ∀ n ∈ tokensOf r, lookup a n = lookup b n := fun n hn => h n (by
      simp only [tokensOf, List.map_cons, List.flatten_cons, List.mem_append]; exact Or.inr hn)
    simp only [subst, List.map_cons] at ih ⊢
    rw [ih h2]
    congr 1
    unfold substEntry
    rw [paths_congr a b e.path (fun n hn => h1 n (by unfold entryToks; exact List.mem_append.mpr (Or.inl hn))),
      substSegs_congr a b e.val (fun n hn => h1 n (by unfold entryToks; exact List.mem_append.mpr (Or.inr hn)))]

theorem substSegs_nil (l : List Seg) : substSegs [] l = l := by
  induction l with
  | nil => rfl
  | cons g r ih =>
    simp only [substSegs, List.map_cons] at ih ⊢
    rw [ih]; cases g <;> rfl

theorem subst_nil (sh : List Entry) : subst [] sh = sh := by
  induction sh with
  | nil => rfl
  | cons e r ih =>
    simp only [subst, List.map_cons] at ih ⊢
    rw [ih]
    congr 1
    unfold substEntry
    have : e.path.map (substSegs []) = e.path := by
      induction e.path with
      | nil => rfl
      | cons k r ih => simp only [List.map_cons, ih, substSegs_nil]
    rw [this, substSegs_nil]

/-! ### one token after the other = simultaneous -/

/-- folding the one-token replacements over a segment -/
theorem fold_seg (toks : Toks) : ∀ (g : Seg), toks.foldl (fun g nr => subst1Seg nr.1 nr.2 g) g =
    (match g with | .lit s => .lit s | .tok n => substSeg toks (.tok n)) := by
  induction toks with
  | nil => intro g; cases g <;> simp [substSeg, lookup]
  | cons nr rest ih =>
    intro g
    obtain ⟨n, r⟩ := nr
    simp only [List.foldl_cons]
    cases g with
    | lit s => rw [show subst1Seg n r (Seg.lit s) = Seg.lit s from rfl, ih]
    | tok m =>
      by_cases h : n = m
      · rw [show subst1Seg n r (Seg.tok m) = Seg.lit r by simp [subst1Seg, h], ih]
        simp [substSeg, lookup, h]
      · rw [show subst1Seg n r (Seg.tok m) = Seg.tok m by simp [subst1Seg, h], ih]
        simp [substSeg, lookup, h]

theorem fold_seg' (toks : Toks) (g : Seg) : toks.foldl (fun g nr => subst1Seg nr.1 nr.2 g) g = substSeg toks g := by
  rw [fold_seg]; cases g <;> rfl

theorem foldl_map {α β : Type} (F : β → α → α) (toks : List β) : ∀ (l : List α),
    toks.foldl (fun l b => l.map (F b)) l = l.map (fun a => toks.foldl (fun a b => F b a) a) := by
  induction toks with
  | nil => intro l; simp
  | cons b r ih => intro l; simp only [List.foldl_cons]; rw [ih, List.map_map]; rfl

theorem fold_segs (toks : Toks) (l : List Seg) :
    toks.foldl (fun l nr => l.map (subst1Seg nr.1 nr.2)) l = substSegs toks l := by
  rw [foldl_map (fun (nr : List Char × List Char) g => subst1Seg nr.1 nr.2 g)]
  unfold substSegs
  apply List.map_congr_left
  intro g _
  exact fold_seg' toks g

theorem fold_entry_val (toks : Toks) : ∀ (e : Entry),
    toks.foldl (fun e nr => { e with val := e.val.map (subst1Seg nr.1 nr.2) }) e =
      { e with val := toks.foldl (fun l nr => l.map (subst1Seg nr.1 nr.2)) e.val } := by
  induction toks with
  | nil => intro e; rfl
  | cons nr r ih => intro e; simp only [List.foldl_cons]; rw [ih]

theorem fold_path (toks : Toks) (p : List (List Seg)) :
    toks.foldl (fun p nr => p.map (fun k => k.map (subst1Seg nr.1 nr.2))) p = p.map (substSegs toks) := by
  rw [foldl_map (fun (nr : List Char × List Char) (k : List Seg) => k.map (subst1Seg nr.1 nr.2))]
  apply List.map_congr_left
  intro k _
  exact fold_segs toks k

theorem fold_entry_path (toks : Toks) : ∀ (e : Entry),
    toks.foldl (fun e nr => { e with path := e.path.map (fun k => k.map (subst1Seg nr.1 nr.2)) }) e =
      { e with path := toks.foldl (fun p nr => p.map (fun k => k.map (subst1Seg nr.1 nr.2))) e.path } := by
  induction toks with
  | nil => intro e; rfl
  | cons nr r ih => intro e; simp only [List.foldl_cons]; rw [ih]

theorem fold_vals (toks : Toks) (sh : List Entry) : toks.foldl (fun sh nr => vals1 nr.1 nr.2 sh) sh =
    sh.map (fun e => { e with val := substSegs toks e.val }) := by
  unfold vals1
  rw [foldl_map (fun (nr : List Char × List Char) (e : Entry) => { e with val := e.val.map (subst1Seg nr.1 nr.2) })]
  apply List.map_congr_left
  intro e _
  rw [fold_entry_val, fold_segs]

theorem fold_keys (toks : Toks) (sh : List Entry) : toks.foldl (fun sh nr => keys1 nr.1 nr.2 sh) sh =
    sh.map (fun e => { e with path := e.path.map (substSegs toks) }) := by
  unfold keys1
  rw [foldl_map (fun (nr : List Char × List Char) (e : Entry) =>
    { e with path := e.path.map (fun k => k.map (subst1Seg nr.1 nr.2)) })]
  apply List.map_congr_left
  intro e _
  rw [fold_entry_path, fold_path]

theorem substSeq_eq (toks : Toks) (sh : List Entry) : substSeq toks sh = subst toks sh := by
  unfold substSeq
  rw [fold_vals, fold_keys, List.map_map]
  rfl

end MpfVerif.ShowToken
