import MpfVerif.Model.BallLedger
/-! Helper lemmas for the ball ledger (C04, C05): totals and entries under `bump` / `setAt`, well-formedness. -/
namespace MpfVerif.BallLedger

theorem total_bump (l : List Int) (i : Nat) (d : Int) (h : i < l.length) : total (bump l i d) = total l + d := by
  induction l generalizing i with
  | nil => simp at h
  | cons x xs ih =>
    cases i with
    | zero => simp [bump]; omega
    | succ i =>
      simp [bump]
      have := ih i (by simpa using h)
      omega

@[simp] theorem length_bump (l : List Int) (i : Nat) (d : Int) : (bump l i d).length = l.length := by
  induction l generalizing i with
  | nil => rfl
  | cons x xs ih => cases i <;> simp [bump, ih]

@[simp] theorem length_setAt {α : Type} (l : List α) (i : Nat) (v : α) : (setAt l i v).length = l.length := by
  induction l generalizing i with
  | nil => rfl
  | cons x xs ih => cases i <;> simp [setAt, ih]

theorem getD_bump (l : List Int) (i j : Nat) (d : Int) :
    (bump l i d).getD j 0 = if j = i ∧ i < l.length then l.getD j 0 + d else l.getD j 0 := by
  induction l generalizing i j with
  | nil => simp [bump]
  | cons x xs ih =>
    cases i with
    | zero => cases j <;> simp [bump]
    | succ i =>
      cases j with
      | zero => simp [bump]
      | succ j => have := ih i j; simpa [bump] using this

theorem getD_setAt {α : Type} (l : List α) (i j : Nat) (v dflt : α) :
    (setAt l i v).getD j dflt = if j = i ∧ i < l.length then v else l.getD j dflt := by
  induction l generalizing i j with
  | nil => simp [setAt]
  | cons x xs ih =>
    cases i with
    | zero => cases j <;> simp [setAt]
    | succ i =>
      cases j with
      | zero => simp [setAt]
      | succ j => have := ih i j; simpa [setAt] using this

/-- the three count vectors have one entry per node -/
structure WF (c : Cfg) (s : St) : Prop where
  hb : s.balls.length = c.n
  hc : s.counted.length = c.n
  ha : s.avail.length = c.n

theorem total_replicate_zero (n : Nat) : total (List.replicate n 0) = 0 := by
  induction n with
  | zero => rfl
  | succ n ih => simp [List.replicate_succ, ih]

/-- the two conservation laws together with well-formedness (the induction invariant) -/
def Conserved (c : Cfg) (s : St) : Prop :=
  WF c s ∧ total s.avail = s.known ∧ total s.balls + s.inflight = s.known

theorem total_bump2 (l : List Int) (i j : Nat) (d e : Int) (hi : i < l.length) (hj : j < l.length) :
    total (bump (bump l i d) j e) = total l + d + e := by
  rw [total_bump _ _ _ (by simpa using hj), total_bump _ _ _ hi]

theorem dequeue_same (s s1 : St) (d : Nat) (h : dequeue s d = some s1) :
    s1.balls = s.balls ∧ s1.counted = s.counted ∧ s1.avail = s.avail ∧ s1.inflight = s.inflight ∧ s1.known = s.known := by
  unfold dequeue at h
  split at h
  · simp at h; subst h; simp
  · simp at h

theorem lostPath_same (c : Cfg) (s s1 : St) (a t : Nat) (h : lostPath c s a t = some s1) :
    s1.balls = s.balls ∧ s1.counted = s.counted ∧ s1.inflight = s.inflight ∧ s1.known = s.known ∧
    (s1.avail = s.avail ∨ s1.avail = bump (bump s.avail t (-1)) c.missing 1) := by
  unfold lostPath at h
  split at h
  · simp at h; subst h; simp
  · split at h
    · simp at h; subst h; simp
    · simp at h

theorem creditReturn_cons (c : Cfg) (s : St) (d : Nat) (hd : d < c.n) (hc : Conserved c s) : Conserved c (creditReturn s d) := by
  obtain ⟨⟨hb, hcn, ha⟩, hav, hbl⟩ := hc
  unfold creditReturn
  split
  · refine ⟨⟨by simp [hb], hcn, ha⟩, hav, ?_⟩
    simp only []
    rw [total_bump _ _ _ (by omega)]; omega
  · exact ⟨⟨hb, hcn, ha⟩, hav, hbl⟩

/-- fields that do not take part in the three invariants may change freely -/
theorem Conserved.of_eq (c : Cfg) (s s' : St) (hc : Conserved c s) (h1 : s'.balls = s.balls) (h2 : s'.counted = s.counted)
    (h3 : s'.avail = s.avail) (h4 : s'.inflight = s.inflight) (h5 : s'.known = s.known) : Conserved c s' := by
  obtain ⟨⟨hb, hcn, ha⟩, hav, hbl⟩ := hc
  exact ⟨⟨by rw [h1, hb], by rw [h2, hcn], by rw [h3, ha]⟩, by rw [h3, h5, hav], by rw [h1, h4, h5, hbl]⟩

theorem cons_mk (c : Cfg) (s s' : St) (hc : Conserved c s) (lb : s'.balls.length = c.n) (lc : s'.counted.length = c.n)
    (la : s'.avail.length = c.n) (hA : total s'.avail - s'.known = total s.avail - s.known)
    (hB : total s'.balls + s'.inflight - s'.known = total s.balls + s.inflight - s.known) : Conserved c s' := by
  obtain ⟨_, hav, hbl⟩ := hc
  exact ⟨⟨lb, lc, la⟩, by omega, by omega⟩

macro "guards" h:ident : tactic =>
  `(tactic| simp only [Bool.and_eq_true, Bool.or_eq_true, decide_eq_true_eq, Bool.not_eq_true', beq_iff_eq] at $h:ident)

macro "close_cons" : tactic => `(tactic| (
  refine cons_mk _ _ _ (by assumption) (by simp [*]) (by simp [*]) (by simp [*]) ?_ ?_ <;>
  simp (disch := ((try simp only [length_bump, length_setAt]); omega)) only [total_bump] <;> omega))

theorem step_conserved (c : Cfg) (s s' : St) (op : Op) (h : step c s op = some s') (hc : Conserved c s) :
    Conserved c s' := by
  have hc0 := hc
  obtain ⟨⟨hb, hcn, ha⟩, hav, hbl⟩ := hc
  cases op with
  | request => simp [step] at h; subst h; close_cons
  | plan path =>
    simp only [step] at h
    split at h
    · split at h
      · rename_i hg; guards hg
        cases h
        close_cons
      · simp at h
    · simp at h
  | queueReq d =>
    simp only [step] at h
    split at h
    · cases h; close_cons
    · simp at h
  | reqPop d =>
    simp only [step] at h
    split at h
    · cases h; close_cons
    · simp at h
  | ballLeft d =>
    simp only [step] at h
    split at h
    · split at h
      · rename_i hg; guards hg
        cases h
        close_cons
      · simp at h
    · simp at h
  | waitBall d =>
    simp only [step] at h
    split at h
    · rename_i hg; guards hg
      split at h
      · cases hq : dequeue s d with
        | none => simp [hq] at h
        | some s1 =>
          simp [hq] at h; subst h
          obtain ⟨e1, e2, e3, e4, e5⟩ := dequeue_same s s1 d hq
          exact Conserved.of_eq c s _ hc0 e1 e2 e3 e4 e5
      · split at h
        · cases h
          exact Conserved.of_eq c _ _ (creditReturn_cons c s d hg.1.1 hc0) rfl rfl rfl rfl rfl
        · simp at h
    · simp at h
  | waitTarget d =>
    simp only [step] at h
    split at h
    · rename_i hg; guards hg
      split at h
      · cases hq : dequeue s d with
        | none => simp [hq] at h
        | some s1 =>
          simp [hq] at h; subst h
          obtain ⟨e1, e2, e3, e4, e5⟩ := dequeue_same s s1 d hq
          exact Conserved.of_eq c s _ hc0 e1 e2 e3 e4 e5
      · split at h
        · cases h; close_cons
        · split at h
          · cases h
            exact Conserved.of_eq c _ _ (creditReturn_cons c s d hg.1 hc0) rfl rfl rfl rfl rfl
          · simp at h
    · simp at h
  | attempt d t n =>
    simp only [step] at h
    split at h
    · cases h; exact hc0
    · simp at h
  | ejectStart d t =>
    simp only [step] at h
    split at h
    · cases h; close_cons
    · simp at h
  | confirmTimeout d =>
    simp only [step] at h
    split at h
    · cases h; close_cons
    · simp at h
  | enterExpected d =>
    simp only [step] at h
    split at h
    · split at h
      · rename_i hg; guards hg
        cases h; close_cons
      · simp at h
    · simp at h
  | pfCapture d =>
    simp only [step] at h
    split at h
    · rename_i hg; guards hg
      cases h; close_cons
    · simp at h
  | pfArrived t =>
    simp only [step] at h
    split at h
    · split at h
      · cases h; close_cons
      · simp at h
    · simp at h
  | enterUnexpected d =>
    simp only [step] at h
    split at h
    · rename_i hg; guards hg
      cases h; close_cons
    · simp at h
  | confirm d t =>
    simp only [step, finishEject] at h
    split at h
    · rename_i hg; guards hg
      split at h
      · split at h
        · cases h; close_cons
        · simp at h
      · split at h
        · cases h; close_cons
        · simp at h
    · simp at h
  | lateConfirm d t =>
    simp only [step, finishEject] at h
    split at h
    · rename_i hg; guards hg
      split at h
      · split at h
        · cases h; close_cons
        · simp at h
      · split at h
        · cases h; close_cons
        · simp at h
    · simp at h
  | ejectFailedReturn d n =>
    simp only [step, failCommon] at h
    split at h
    · split at h
      · split at h
        · split at h
          · cases h; close_cons
          · simp at h
        · cases h; close_cons
      · simp at h
    · simp at h
  | ejectFailedStuck d n =>
    simp only [step, failCommon] at h
    split at h
    · split at h
      · split at h
        · split at h
          · cases h; close_cons
          · simp at h
        · cases h; close_cons
      · simp at h
    · simp at h
  | broken d =>
    simp only [step] at h
    split at h
    · split at h
      · rename_i hg; guards hg
        have hcr := creditReturn_cons c s d (by omega) hc0
        split at h
        · split at h
          · cases h; exact Conserved.of_eq c _ _ hcr rfl rfl rfl rfl rfl
          · simp at h
        · cases h; exact Conserved.of_eq c _ _ hcr rfl rfl rfl rfl rfl
      · simp at h
    · simp at h
  | lostEjected d =>
    simp only [step] at h
    split at h
    · split at h
      · rename_i t _ hg; guards hg
        cases hq : lostPath c s d t with
        | none => simp [hq] at h
        | some s1 =>
          simp [hq, finishEject] at h; subst h
          obtain ⟨e1, e2, e3, e4, e5⟩ := lostPath_same c s s1 d t hq
          rcases e5 with e5 | e5
          · refine cons_mk _ _ _ hc0 (by simp [*]) (by simp [*]) (by simp [*]) ?_ ?_ <;>
              simp (disch := ((try simp only [length_bump, length_setAt]); omega)) only [total_bump, e1, e3, e4, e5] <;> omega
          · refine cons_mk _ _ _ hc0 (by simp [*]) (by simp [*]) (by simp [*]) ?_ ?_ <;>
              simp (disch := ((try simp only [length_bump, length_setAt]); omega)) only [total_bump, e1, e3, e4, e5] <;> omega
      · simp at h
    · simp at h
  | lostIdle d =>
    simp only [step] at h
    split at h
    · rename_i hg; guards hg
      cases h; close_cons
    · simp at h
  | incomingTimeout d =>
    simp only [step] at h
    split at h
    · split at h
      · rename_i hg; guards hg
        cases hq : lostPath c s d d with
        | none => simp [hq] at h
        | some s1 =>
          simp [hq] at h; subst h
          obtain ⟨e1, e2, e3, e4, e5⟩ := lostPath_same c s s1 d d hq
          rcases e5 with e5 | e5
          · refine cons_mk _ _ _ hc0 (by simp [*]) (by simp [*]) (by simp [*]) ?_ ?_ <;>
              simp (disch := ((try simp only [length_bump, length_setAt]); omega)) only [total_bump, e1, e3, e4, e5] <;> omega
          · refine cons_mk _ _ _ hc0 (by simp [*]) (by simp [*]) (by simp [*]) ?_ ?_ <;>
              simp (disch := ((try simp only [length_bump, length_setAt]); omega)) only [total_bump, e1, e3, e4, e5] <;> omega
      · simp at h
    · simp at h
  | newBallFound =>
    simp only [step] at h
    split at h
    · rename_i hg; guards hg
      cases h; close_cons
    · simp at h
  | manualLeft d t =>
    simp only [step] at h
    split at h
    · rename_i hg; guards hg
      cases h; close_cons
    · simp at h
  | confirmManual d t =>
    simp only [step, finishEject] at h
    split at h
    · rename_i hg; guards hg
      cases h; close_cons
    · simp at h
  | manualTimeout d =>
    simp only [step] at h
    split at h
    · rename_i hg; guards hg
      cases h; close_cons
    · simp at h
  | manualReturn d =>
    simp only [step] at h
    split at h
    · split at h
      · rename_i hg; guards hg
        cases h; close_cons
      · simp at h
    · simp at h
  | extConfirm d t =>
    simp only [step, finishEject] at h
    split at h
    · rename_i hg; guards hg
      split at h
      · cases h; close_cons
      · cases h; close_cons
    · simp at h
  | pfArrivedStale t src =>
    simp only [step] at h
    split at h
    · cases h; close_cons
    · simp at h
  | pfArrivedFrom t src =>
    simp only [step] at h
    split at h
    · cases h; close_cons
    · simp at h
  | skipStart d t =>
    simp only [step] at h
    split at h
    · cases h; close_cons
    · simp at h
  | skipConfirm d t =>
    simp only [step] at h
    split at h
    · split at h
      · rename_i hg; guards hg
        cases h; close_cons
      · simp at h
    · simp at h
  | skipFail d t =>
    simp only [step] at h
    split at h
    · cases h; close_cons
    · simp at h
  | skipConfirmIdle d t =>
    simp only [step] at h
    split at h
    · split at h
      · rename_i hg; guards hg
        cases h; close_cons
      · simp at h
    · simp at h

theorem run_conserved (c : Cfg) (ops : List Op) (s s' : St) (h : run c s ops = some s') (hc : Conserved c s) :
    Conserved c s' := by
  induction ops generalizing s with
  | nil => simp [run] at h; subst h; exact hc
  | cons op rest ih =>
    simp only [run] at h
    cases hs : step c s op with
    | none => simp [hs] at h
    | some s1 =>
      simp only [hs] at h
      exact ih s1 h (step_conserved c s s1 op hs hc)

theorem init_conserved (c : Cfg) (counts : List Int) (hl : counts.length = c.n) : Conserved c (initSt c counts) := by
  refine ⟨⟨hl, hl, hl⟩, rfl, ?_⟩
  simp [initSt]

/-- every device: 0 ≤ balls ≤ counted ≤ capacity -/
def Bounded (c : Cfg) (s : St) : Prop :=
  ∀ i, c.isPf i = false → 0 ≤ s.b i ∧ s.b i ≤ s.c i ∧ s.c i ≤ c.capOf i

theorem dequeue_bc (s s1 : St) (d : Nat) (h : dequeue s d = some s1) : s1.balls = s.balls ∧ s1.counted = s.counted :=
  ⟨(dequeue_same s s1 d h).1, (dequeue_same s s1 d h).2.1⟩

theorem Bounded.of_eq (c : Cfg) (s s' : St) (hB : Bounded c s) (h1 : s'.balls = s.balls) (h2 : s'.counted = s.counted) :
    Bounded c s' := by
  intro i hi
  have := hB i hi
  simpa [St.b, St.c, h1, h2] using this

theorem creditReturn_bnd (c : Cfg) (s : St) (d : Nat) (hB : Bounded c s) (hg : canCredit s d = true) :
    Bounded c (creditReturn s d) := by
  unfold creditReturn
  split
  · rename_i hp
    have hlt : s.b d < s.c d := by
      simp only [canCredit, Bool.or_eq_true, decide_eq_true_eq] at hg
      rcases hg with hg | hg
      · simp [bne, hp] at hg
      · exact hg
    intro i hi
    have := hB i hi
    by_cases hid : i = d
    · subst hid
      simp only [St.b, St.c, getD_bump] at this hlt ⊢
      split <;> omega
    · simp only [St.b, St.c, getD_bump, hid, false_and, if_false] at this ⊢
      exact this
  · exact hB

macro "close_bnd" d:ident : tactic => `(tactic| (
  intro i hi
  have hBi := (by assumption : Bounded _ _) i hi
  by_cases hid : i = $d
  · subst hid; simp only [St.b, St.c, getD_bump] at *; (repeat' split) <;> (first | omega | (simp_all; done))
  · simp only [St.b, St.c, getD_bump, hid, false_and, if_false] at *; (repeat' split) <;> (first | exact hBi | omega | (simp_all; done))))

theorem step_bounded (c : Cfg) (s s' : St) (op : Op) (h : step c s op = some s') (hW : WF c s) (hB : Bounded c s) : Bounded c s' := by
  obtain ⟨hb, hcn, _⟩ := hW
  cases op with
  | ballLeft d =>
    simp only [step] at h
    split at h
    · split at h
      · rename_i hg; guards hg
        cases h
        close_bnd d
      · simp at h
    · simp at h
  | enterExpected d =>
    simp only [step] at h
    split at h
    · split at h
      · rename_i hg; guards hg
        cases h; close_bnd d
      · simp at h
    · simp at h
  | pfCapture d =>
    simp only [step] at h
    split at h
    · rename_i hg; guards hg
      cases h; close_bnd d
    · simp at h
  | pfArrived t =>
    simp only [step] at h
    split at h
    · split at h
      · cases h; exact Bounded.of_eq c s _ hB rfl rfl
      · simp at h
    · simp at h
  | request => simp [step] at h; subst h; exact Bounded.of_eq c s _ hB rfl rfl
  | plan path =>
    simp only [step] at h
    split at h
    · split at h
      · cases h; exact Bounded.of_eq c s _ hB rfl rfl
      · simp at h
    · simp at h
  | queueReq d =>
    simp only [step] at h
    split at h
    · cases h; exact Bounded.of_eq c s _ hB rfl rfl
    · simp at h
  | reqPop d =>
    simp only [step] at h
    split at h
    · cases h; exact Bounded.of_eq c s _ hB rfl rfl
    · simp at h
  | waitBall d =>
    simp only [step] at h
    split at h
    · split at h
      · cases hq : dequeue s d with
        | none => simp [hq] at h
        | some s1 =>
          simp [hq] at h; subst h
          exact Bounded.of_eq c s _ hB (dequeue_bc s s1 d hq).1 (dequeue_bc s s1 d hq).2
      · split at h
        · rename_i hg; guards hg
          cases h
          exact Bounded.of_eq c _ _ (creditReturn_bnd c s d hB hg.2) rfl rfl
        · simp at h
    · simp at h
  | waitTarget d =>
    simp only [step] at h
    split at h
    · split at h
      · cases hq : dequeue s d with
        | none => simp [hq] at h
        | some s1 =>
          simp [hq] at h; subst h
          exact Bounded.of_eq c s _ hB (dequeue_bc s s1 d hq).1 (dequeue_bc s s1 d hq).2
      · split at h
        · cases h; exact Bounded.of_eq c s _ hB rfl rfl
        · split at h
          · rename_i hg; guards hg
            cases h
            exact Bounded.of_eq c _ _ (creditReturn_bnd c s d hB hg.2) rfl rfl
          · simp at h
    · simp at h
  | attempt d t n =>
    simp only [step] at h
    split at h
    · cases h; exact hB
    · simp at h
  | ejectStart d t =>
    simp only [step] at h
    split at h
    · cases h; exact Bounded.of_eq c s _ hB rfl rfl
    · simp at h
  | confirmTimeout d =>
    simp only [step] at h
    split at h
    · cases h; exact Bounded.of_eq c s _ hB rfl rfl
    · simp at h
  | enterUnexpected d =>
    simp only [step] at h
    split at h
    · rename_i hg; guards hg
      cases h; close_bnd d
    · simp at h
  | confirm d t =>
    simp only [step, finishEject] at h
    split at h
    · rename_i hg; guards hg
      split at h
      · split at h
        · cases h; close_bnd d
        · simp at h
      · split at h
        · cases h; close_bnd d
        · simp at h
    · simp at h
  | lateConfirm d t =>
    simp only [step, finishEject] at h
    split at h
    · rename_i hg; guards hg
      split at h
      · split at h
        · cases h; close_bnd d
        · simp at h
      · split at h
        · cases h; close_bnd d
        · simp at h
    · simp at h
  | ejectFailedReturn d n =>
    simp only [step, failCommon] at h
    split at h
    · split at h
      · split at h
        · split at h
          · cases h; exact Bounded.of_eq c s _ hB rfl rfl
          · simp at h
        · cases h; exact Bounded.of_eq c s _ hB rfl rfl
      · simp at h
    · simp at h
  | ejectFailedStuck d n =>
    simp only [step, failCommon] at h
    split at h
    · split at h
      · split at h
        · split at h
          · cases h; exact Bounded.of_eq c s _ hB rfl rfl
          · simp at h
        · cases h; exact Bounded.of_eq c s _ hB rfl rfl
      · simp at h
    · simp at h
  | broken d =>
    simp only [step] at h
    split at h
    · split at h
      · rename_i hg; guards hg
        have hcr := creditReturn_bnd c s d hB hg.2
        split at h
        · split at h
          · cases h; exact Bounded.of_eq c _ _ hcr rfl rfl
          · simp at h
        · cases h; exact Bounded.of_eq c _ _ hcr rfl rfl
      · simp at h
    · simp at h
  | lostEjected d =>
    simp only [step] at h
    split at h
    · split at h
      · rename_i t _ hg; guards hg
        cases hq : lostPath c s d t with
        | none => simp [hq] at h
        | some s1 =>
          simp [hq, finishEject] at h; subst h
          obtain ⟨e1, e2, _, _, _⟩ := lostPath_same c s s1 d t hq
          rw [e1, e2]
          close_bnd d
      · simp at h
    · simp at h
  | lostIdle d =>
    simp only [step] at h
    split at h
    · rename_i hg; guards hg
      cases h; close_bnd d
    · simp at h
  | incomingTimeout d =>
    simp only [step] at h
    split at h
    · split at h
      · rename_i hg; guards hg
        cases hq : lostPath c s d d with
        | none => simp [hq] at h
        | some s1 =>
          simp [hq] at h; subst h
          obtain ⟨e1, e2, _, _, _⟩ := lostPath_same c s s1 d d hq
          rw [e1]
          intro i hi
          have hBi := hB i hi
          have hne : i ≠ c.missing := by rintro rfl; simp_all
          simp only [St.b, St.c, getD_bump, hne, false_and, if_false, e2] at hBi ⊢
          exact hBi
      · simp at h
    · simp at h
  | newBallFound =>
    simp only [step] at h
    split at h
    · rename_i hg; guards hg
      cases h
      intro i hi
      have hBi := hB i hi
      have hne : i ≠ c.missing := by rintro rfl; simp_all
      simp only [St.b, St.c, getD_bump, hne, false_and, if_false] at hBi ⊢
      exact hBi
    · simp at h
  | manualLeft d t =>
    simp only [step] at h
    split at h
    · rename_i hg; guards hg
      cases h; close_bnd d
    · simp at h
  | confirmManual d t =>
    simp only [step, finishEject] at h
    split at h
    · rename_i hg; guards hg
      cases h; close_bnd d
    · simp at h
  | manualTimeout d =>
    simp only [step] at h
    split at h
    · rename_i hg; guards hg
      cases h; close_bnd d
    · simp at h
  | manualReturn d =>
    simp only [step] at h
    split at h
    · split at h
      · rename_i hg; guards hg
        cases h; close_bnd d
      · simp at h
    · simp at h
  | extConfirm d t =>
    simp only [step, finishEject] at h
    split at h
    · rename_i hg; guards hg
      split at h
      · cases h; close_bnd d
      · cases h; close_bnd d
    · simp at h
  | pfArrivedStale t src =>
    simp only [step] at h
    split at h
    · cases h; exact Bounded.of_eq c s _ hB rfl rfl
    · simp at h
  | pfArrivedFrom t src =>
    simp only [step] at h
    split at h
    · cases h; exact Bounded.of_eq c s _ hB rfl rfl
    · simp at h
  | skipStart d t =>
    simp only [step] at h
    split at h
    · cases h; exact Bounded.of_eq c s _ hB rfl rfl
    · simp at h
  | skipConfirm d t =>
    simp only [step] at h
    split at h
    · split at h
      · rename_i hg; guards hg
        cases h; close_bnd t
      · simp at h
    · simp at h
  | skipFail d t =>
    simp only [step] at h
    split at h
    · cases h; exact Bounded.of_eq c s _ hB rfl rfl
    · simp at h
  | skipConfirmIdle d t =>
    simp only [step] at h
    split at h
    · split at h
      · rename_i hg; guards hg
        cases h; close_bnd t
      · simp at h
    · simp at h

theorem run_bounded (c : Cfg) (ops : List Op) (s s' : St) (h : run c s ops = some s') (hc : Conserved c s)
    (hB : Bounded c s) : Bounded c s' := by
  induction ops generalizing s with
  | nil => simp [run] at h; subst h; exact hB
  | cons op rest ih =>
    simp only [run] at h
    cases hs : step c s op with
    | none => simp [hs] at h
    | some s1 =>
      simp only [hs] at h
      exact ih s1 h (step_conserved c s s1 op hs hc) (step_bounded c s s1 op hs hc.1 hB)

end MpfVerif.BallLedger
