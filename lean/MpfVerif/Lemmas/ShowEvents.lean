import MpfVerif.Lemmas.Show
/-! C17: counting the show events of one play instance. -/
namespace MpfVerif.Show

/-- number of times the show event `e` is posted in a trace -/
def cntE (e : Ev) : List Obs → Nat
  | [] => 0
  | Obs.ev e' :: r => (if e' = e then 1 else 0) + cntE e r
  | Obs.eff _ _ :: r => cntE e r
  | Obs.clr :: r => cntE e r

theorem cntE_append (e : Ev) (a b : List Obs) : cntE e (a ++ b) = cntE e a + cntE e b := by
  induction a with
  | nil => simp [cntE]
  | cons x r ih =>
    cases x with
    | eff i t => simpa [cntE] using ih
    | ev e' => simp [cntE, ih]; omega
    | clr => simpa [cntE] using ih

theorem cntE_evs (e : Ev) (l : List Ev) : cntE e (l.map Obs.ev) = l.count e := by
  induction l with
  | nil => rfl
  | cons x r ih =>
    simp only [List.map_cons, cntE, ih, List.count_cons]
    by_cases h : x = e <;> simp [h] <;> omega

theorem cntE_onlyPaused (e : Ev) (he : e ≠ .paused) (l : List Obs) (h : onlyPaused l) : cntE e l = 0 := by
  induction l with
  | nil => rfl
  | cons x r ih =>
    have hx := h x List.mem_cons_self
    subst hx
    have : ¬ (Ev.paused = e) := fun hh => he hh.symm
    simp only [cntE, this, if_false, Nat.zero_add]
    exact ih (fun o ho => h o (List.mem_cons_of_mem _ ho))

theorem cancel_loops (s : RS) : (cancelHandle s).loops = s.loops := by
  unfold cancelHandle; cases s.handle <;> rfl

theorem cancel_known (s : RS) : (cancelHandle s).known = s.known := by
  unfold cancelHandle; cases s.handle <;> rfl

theorem playStep_facts (s : RS) (idx : Nat) (evs : List Ev) (pa : Bool) :
    (playStep s idx evs pa).1.stopped = s.stopped ∧ (playStep s idx evs pa).1.loops = s.loops ∧
    (playStep s idx evs pa).2 = Obs.eff idx s.nextTime :: evs.map Obs.ev := by
  unfold playStep
  refine ⟨?_, ?_, ?_⟩ <;> (dsimp only; try (split <;> rfl))

theorem stop_facts (s : RS) (hs : s.stopped = false) :
    (stop s).1.stopped = true ∧ (stop s).1.loops = s.loops ∧
    (stop s).2 = (if s.dirty then [Obs.clr] else []) ++ [Obs.ev .stopped] := by
  unfold stop
  simp only [hs, Bool.false_eq_true, if_false]
  exact ⟨by rw [cancel_stopped], by rw [cancel_loops], by first | rfl | trivial⟩

theorem cancel_started (s : RS) : (cancelHandle s).started = s.started := by
  unfold cancelHandle; cases s.handle <;> rfl

theorem cancel_pending (s : RS) : (cancelHandle s).pending = s.pending := by
  unfold cancelHandle; cases s.handle <;> rfl

theorem playStep_ghost (s : RS) (idx : Nat) (evs : List Ev) (pa : Bool) :
    (playStep s idx evs pa).1.started = s.started ∧ (playStep s idx evs pa).1.pending = s.pending := by
  unfold playStep
  refine ⟨?_, ?_⟩ <;> (dsimp only; try (split <;> rfl))

theorem stop_ghost (s : RS) : (stop s).1.started = s.started ∧ (stop s).1.pending = s.pending := by
  unfold stop
  split
  · exact ⟨rfl, rfl⟩
  · exact ⟨by rw [cancel_started], by rw [cancel_pending]⟩

/-- `_run_next_step` does not touch the start bookkeeping -/
theorem runNext_ghost (s : RS) (post : List Ev) (pa : Bool) :
    (runNext s post pa).1.started = s.started ∧ (runNext s post pa).1.pending = s.pending := by
  unfold runNext
  split
  · exact ⟨rfl, rfl⟩
  · simp only
    generalize (if s.nextIdx < 0 then s.nextIdx % (s.durs.length : Int) else s.nextIdx) = idx0
    by_cases hw : idx0 ≥ (s.durs.length : Int)
    · rw [if_pos hw]
      split
      · exact playStep_ghost _ _ _ _
      · exact playStep_ghost { s with loops := some _ } _ _ _
      · exact stop_ghost s
    · rw [if_neg hw]; exact playStep_ghost _ _ _ _

/-- what one `_run_next_step` of a running show emits: either one step (with `looped` iff the show wrapped, the loop
budget going down by one), or — loop budget exhausted — the clean-up, `stopped`, the request's own events, `completed` -/
def RunRes (s : RS) (post : List Ev) (r : RS × List Obs) : Prop :=
  (r.1.stopped = false ∧ ∃ i t lp, r.2 = Obs.eff i t :: (post ++ lp).map Obs.ev ∧
    ((lp = [] ∧ r.1.loops = s.loops) ∨
     (lp = [Ev.looped] ∧ ((s.loops = none ∧ r.1.loops = none) ∨ ∃ n, s.loops = some (n + 1) ∧ r.1.loops = some n)))) ∨
  (r.1.stopped = true ∧ r.1.loops = s.loops ∧ s.loops = some 0 ∧
    r.2 = (if s.dirty then [Obs.clr] else []) ++ [Obs.ev .stopped] ++ (post ++ [Ev.completed]).map Obs.ev)

theorem runNext_out (s : RS) (post : List Ev) (pa : Bool) (hs : s.stopped = false) :
    RunRes s post (runNext s post pa) := by
  unfold runNext
  rw [if_neg (by rw [hs]; simp)]
  simp only
  generalize (if s.nextIdx < 0 then s.nextIdx % (s.durs.length : Int) else s.nextIdx) = idx0
  by_cases hw : idx0 ≥ (s.durs.length : Int)
  · rw [if_pos hw]
    split
    · rename_i hl
      have f := playStep_facts s 0 (post ++ [Ev.looped]) pa
      exact Or.inl ⟨by rw [f.1, hs], 0, s.nextTime, [Ev.looped], f.2.2, Or.inr ⟨rfl, Or.inl ⟨hl, by rw [f.2.1, hl]⟩⟩⟩
    · rename_i n hl
      have f := playStep_facts { s with loops := some n } 0 (post ++ [Ev.looped]) pa
      exact Or.inl ⟨by rw [f.1]; exact hs, 0, s.nextTime, [Ev.looped], f.2.2, Or.inr ⟨rfl, Or.inr ⟨n, hl, f.2.1⟩⟩⟩
    · rename_i hl
      have f := stop_facts s hs
      refine Or.inr ⟨f.1, f.2.1, hl, ?_⟩
      show (stop s).2 ++ _ = _
      rw [f.2.2]
  · rw [if_neg hw]
    have f := playStep_facts s idx0.toNat post pa
    exact Or.inl ⟨by rw [f.1, hs], idx0.toNat, s.nextTime, [], by rw [f.2.2]; simp, Or.inl ⟨rfl, f.2.1⟩⟩

/-- the loop budget: `n0` loops were granted; every `looped` consumed one -/
def LoopAcc (n0 : Option Nat) (s : RS) (tr : List Obs) : Prop :=
  match n0, s.loops with
  | some n, some m => cntE .looped tr + m = n
  | none, none => True
  | _, _ => False

/-- the event ledger of one play instance -/
def Ledger (n0 : Option Nat) (s : RS) (tr : List Obs) : Prop :=
  cntE .played tr = (if s.started then 1 else 0) ∧ cntE .stopped tr = (if s.stopped then 1 else 0) ∧
  cntE .completed tr ≤ cntE .stopped tr ∧ LoopAcc n0 s tr ∧ (s.pending = true → s.started = false)

theorem ledger_same (n0 : Option Nat) (s s' : RS) (tr out : List Obs) (h : Ledger n0 s tr)
    (hs : s'.stopped = s.stopped) (hl : s'.loops = s.loops) (hg : s'.started = s.started ∧ s'.pending = s.pending)
    (h0 : cntE .played out = 0 ∧ cntE .stopped out = 0 ∧ cntE .completed out = 0 ∧ cntE .looped out = 0) :
    Ledger n0 s' (tr ++ out) := by
  obtain ⟨a, b, c, d, e⟩ := h
  refine ⟨by rw [cntE_append, a, h0.1, hg.1]; rfl, by rw [cntE_append, b, h0.2.1, hs]; rfl, by
    rw [cntE_append, cntE_append, h0.2.1, h0.2.2.1]; omega, ?_, by rw [hg.1, hg.2]; exact e⟩
  unfold LoopAcc at d ⊢
  rw [hl, cntE_append, h0.2.2.2]
  exact d

/-- a request's own acknowledgement events -/
def IsAck (post : List Ev) : Prop :=
  post.count .played = 0 ∧ post.count .stopped = 0 ∧ post.count .completed = 0 ∧ post.count .looped = 0

/-- a request's own events besides `played` -/
def IsAck' (post : List Ev) : Prop :=
  post.count .stopped = 0 ∧ post.count .completed = 0 ∧ post.count .looped = 0

theorem ledger_runRes (n0 : Option Nat) (s : RS) (post : List Ev) (r : RS × List Obs) (tr : List Obs)
    (ha : cntE .played tr + post.count .played = (if s.started then 1 else 0))
    (b : cntE .stopped tr = (if s.stopped then 1 else 0)) (c : cntE .completed tr ≤ cntE .stopped tr)
    (d : LoopAcc n0 s tr) (e : s.pending = true → s.started = false)
    (hs : s.stopped = false) (hp : IsAck' post) (hr : RunRes s post r)
    (hg : r.1.started = s.started ∧ r.1.pending = s.pending) :
    Ledger n0 r.1 (tr ++ r.2) := by
  have e' : r.1.pending = true → r.1.started = false := by rw [hg.1, hg.2]; exact e
  rw [← hg.1] at ha
  rw [hs] at b
  simp only [Bool.false_eq_true, if_false] at b
  have hc0 : cntE .completed tr = 0 := by omega
  obtain ⟨hst, hco, hlo⟩ := hp
  rcases hr with ⟨hrs, i, t, lp, hout, hlp⟩ | ⟨hrs, hrl, hl0, hout⟩
  · have hev : ∀ e, cntE e r.2 = post.count e + lp.count e := by
      intro e; rw [hout]; simp only [cntE]; rw [cntE_evs, List.count_append]
    rcases hlp with ⟨rfl, hl⟩ | ⟨rfl, hl⟩
    · refine ⟨by rw [cntE_append, hev, ← ha]; simp, by rw [cntE_append, b, hev, hst, hrs]; rfl,
        by rw [cntE_append, cntE_append, hev, hev, hco, hst, hc0, b]; simp, ?_, e'⟩
      unfold LoopAcc at d ⊢
      rw [hl, cntE_append, hev, hlo]
      exact d
    · refine ⟨by rw [cntE_append, hev, ← ha]; simp, by rw [cntE_append, b, hev, hst, hrs]; rfl,
        by rw [cntE_append, cntE_append, hev, hev, hco, hst, hc0, b]; simp, ?_, e'⟩
      unfold LoopAcc at d ⊢
      rw [cntE_append, hev, hlo]
      rcases hl with ⟨h1, h2⟩ | ⟨n, h1, h2⟩
      · rw [h1] at d; rw [h2]; cases n0 <;> simp_all
      · rw [h1] at d; rw [h2]
        cases n0 with
        | none => simp at d
        | some n0 => simp only [List.count_cons_self, List.count_nil] at d ⊢; omega
  · have hev : ∀ e, cntE e r.2 = (if e = Ev.stopped then 1 else 0) + (post.count e + (if e = Ev.completed then 1 else 0)) := by
      intro e
      rw [hout, cntE_append, cntE_append, cntE_evs, List.count_append]
      have h1 : cntE e (if s.dirty = true then [Obs.clr] else []) = 0 := by split <;> simp [cntE]
      rw [h1]
      by_cases he1 : e = Ev.stopped <;> by_cases he2 : e = Ev.completed <;>
        simp [cntE, he1, he2, eq_comm]
    refine ⟨by rw [cntE_append, hev, ← ha]; simp, by rw [cntE_append, b, hev, hst, hrs]; simp,
      by rw [cntE_append, cntE_append, hev, hev, hco, hst, hc0, b]; simp, ?_, e'⟩
    unfold LoopAcc at d ⊢
    rw [hrl, cntE_append, hev, hlo]
    simpa using d

theorem ledger_congr (n0 : Option Nat) (s s' : RS) (tr : List Obs) (hs : s'.stopped = s.stopped) (hl : s'.loops = s.loops)
    (hg1 : s'.started = s.started) (hg2 : s'.pending = true → s.pending = true)
    (h : Ledger n0 s tr) : Ledger n0 s' tr := by
  unfold Ledger LoopAcc at *
  rw [hs, hl, hg1]
  exact ⟨h.1, h.2.1, h.2.2.1, h.2.2.2.1, fun hp => h.2.2.2.2 (hg2 hp)⟩

theorem ledger_nil (n0 : Option Nat) (s s' : RS) (tr : List Obs) (hs : s'.stopped = s.stopped) (hl : s'.loops = s.loops)
    (hg1 : s'.started = s.started) (hg2 : s'.pending = true → s.pending = true)
    (h : Ledger n0 s tr) : Ledger n0 s' (tr ++ []) := by
  rw [List.append_nil]; exact ledger_congr n0 s s' tr hs hl hg1 hg2 h

/-- `runNext` on any state (stopped or not) keeps the ledger -/
theorem ledger_runNext (n0 : Option Nat) (s : RS) (post : List Ev) (pa : Bool) (tr : List Obs) (hp : IsAck post)
    (h : Ledger n0 s tr) : Ledger n0 (runNext s post pa).1 (tr ++ (runNext s post pa).2) := by
  by_cases hs : s.stopped = true
  · rw [runNext_stopped s post pa hs]; exact ledger_nil n0 s s tr rfl rfl rfl id h
  · obtain ⟨a, b, c, d, e⟩ := h
    exact ledger_runRes n0 s post _ tr (by rw [hp.1]; exact a) b c d e (by simpa using hs) ⟨hp.2.1, hp.2.2.1, hp.2.2.2⟩
      (runNext_out s post pa (by simpa using hs)) (runNext_ghost s post pa)

theorem ledger_timerBody (n0 : Option Nat) (s : RS) (tr : List Obs) (h : Ledger n0 s tr) :
    Ledger n0 (timerBody s).1 (tr ++ (timerBody s).2) := by
  unfold timerBody
  split
  · exact ledger_nil n0 s _ tr rfl rfl rfl id h
  split
  · rename_i hns hpe
    obtain ⟨a, b, c, d, e⟩ := h
    have hst : s.started = false := e hpe
    have hns' : s.stopped = false := by simpa using hns
    exact ledger_runRes n0 { s with pending := false, started := true } [.played] _ tr
      (by show cntE .played tr + 1 = 1; rw [a, hst]; rfl) b c d (by intro hh; exact absurd hh (by simp))
      hns' (by unfold IsAck'; decide) (runNext_out _ _ _ hns') (runNext_ghost _ _ _)
  · exact ledger_runNext n0 _ _ _ tr (by unfold IsAck; decide) h

theorem ledger_reqBody (n0 : Option Nat) (s : RS) (ev : Ev) (back : Bool) (tr : List Obs) (hev : IsAck [ev])
    (h : Ledger n0 s tr) : Ledger n0 (reqBody s ev back).1 (tr ++ (reqBody s ev back).2) := by
  unfold reqBody
  split
  · exact ledger_nil n0 s _ tr rfl rfl rfl id h
  split
  · rename_i hns hpe
    obtain ⟨a, b, c, d, e⟩ := h
    have hst : s.started = false := e hpe
    have hns' : s.stopped = false := by simpa using hns
    exact ledger_runRes n0 { s with nextTime := s.now, pending := false, started := true } [.played] _ tr
      (by show cntE .played tr + 1 = 1; rw [a, hst]; rfl) b c d (by intro hh; exact absurd hh (by simp))
      hns' (by unfold IsAck'; decide) (runNext_out _ _ _ hns') (runNext_ghost _ _ _)
  · exact ledger_runNext n0 _ _ _ tr hev (ledger_congr n0 s _ tr rfl rfl rfl id h)

theorem step_ledger (n0 : Option Nat) (s : RS) (o : Op) (tr : List Obs) (hp : o.isPlay = false)
    (h : Ledger n0 s tr) : Ledger n0 (step s o).1 (tr ++ (step s o).2) := by
  cases o with
  | play durs num den loops start running manual sync t => simp [Op.isPlay] at hp
  | stop t =>
    simp only [step, ctl]
    split
    · by_cases hs : s.stopped = true
      · have : stop (setNow s t) = (setNow s t, []) := by unfold stop; simp [setNow, hs]
        rw [this]; exact ledger_nil n0 s _ tr rfl rfl rfl id h
      · have hs' : (setNow s t).stopped = false := by simpa [setNow] using hs
        have f := stop_facts (setNow s t) hs'
        obtain ⟨a, b, c, d, e⟩ := h
        have hb : cntE .stopped tr = 0 := by rw [b]; simp [hs]
        have hout : ∀ e, cntE e (stop (setNow s t)).2 = if e = Ev.stopped then 1 else 0 := by
          intro e; rw [f.2.2, cntE_append]
          have h1 : cntE e (if (setNow s t).dirty = true then [Obs.clr] else []) = 0 := by split <;> simp [cntE]
          rw [h1]; by_cases he : e = Ev.stopped <;> simp [cntE, he, eq_comm]
        have g := stop_ghost (setNow s t)
        refine ⟨by
            rw [cntE_append, a, hout]
            show _ = (if (stop (setNow s t)).1.started = true then 1 else 0)
            rw [g.1]; rfl, by rw [cntE_append, hb, hout]; simp [f.1],
          by rw [cntE_append, cntE_append, hout, hout]; simp; omega, ?_, by
            show (stop (setNow s t)).1.pending = true → (stop (setNow s t)).1.started = false
            rw [g.1, g.2]; exact e⟩
        unfold LoopAcc at d ⊢
        dsimp only
        rw [f.2.1, cntE_append, hout]
        simpa [setNow] using d
    · exact ledger_nil n0 s _ tr rfl rfl rfl id h
  | pause t =>
    simp only [step, ctl]
    split
    · have h' : Ledger n0 (cancelHandle (setNow s t)) tr :=
        ledger_congr n0 s _ tr (by rw [cancel_stopped]; rfl) (by rw [cancel_loops]; rfl) (by rw [cancel_started]; rfl)
          (by rw [cancel_pending]; exact id) h
      obtain ⟨a, b, c, d, e⟩ := h'
      refine ⟨by rw [cntE_append, a]; simp [cntE], by rw [cntE_append, b]; simp [cntE],
        by rw [cntE_append, cntE_append]; simp [cntE]; exact c, ?_, e⟩
      unfold LoopAcc at d ⊢
      rw [cntE_append]; simpa [cntE] using d
    · exact ledger_nil n0 s _ tr rfl rfl rfl id h
  | resume t =>
    simp only [step, ctl]
    split
    · apply ledger_reqBody n0 _ _ _ tr (by unfold IsAck; decide)
      exact ledger_congr n0 s _ tr (by rw [cancel_stopped]; rfl) (by rw [cancel_loops]; rfl)
        (by rw [cancel_started]; rfl) (by rw [cancel_pending]; exact id) h
    · exact ledger_nil n0 s _ tr rfl rfl rfl id h
  | advance t =>
    simp only [step, ctl]
    split
    · apply ledger_reqBody n0 _ _ _ tr (by unfold IsAck; decide)
      exact ledger_congr n0 s _ tr (by rw [cancel_stopped]; rfl) (by rw [cancel_loops]; rfl)
        (by rw [cancel_started]; rfl) (by rw [cancel_pending]; exact id) h
    · exact ledger_nil n0 s _ tr rfl rfl rfl id h
  | back t =>
    simp only [step, ctl]
    split
    · apply ledger_reqBody n0 _ _ _ tr (by unfold IsAck; decide)
      exact ledger_congr n0 s _ tr (by rw [cancel_stopped]; rfl) (by rw [cancel_loops]; rfl)
        (by rw [cancel_started]; rfl) (by rw [cancel_pending]; exact id) h
    · exact ledger_nil n0 s _ tr rfl rfl rfl id h
  | speed num den t =>
    simp only [step, ctl]
    split
    · exact ledger_nil n0 s _ tr rfl rfl rfl id h
    · exact ledger_nil n0 s _ tr rfl rfl rfl id h
  | fire t =>
    simp only [step]
    split
    · exact ledger_nil n0 s _ tr rfl rfl rfl id h
    · apply ledger_timerBody
      exact ledger_congr n0 s _ tr rfl rfl rfl id h

theorem run_ledger (n0 : Option Nat) (ops : List Op) : ∀ (s : RS) (tr : List Obs), (∀ o ∈ ops, o.isPlay = false) →
    Ledger n0 s tr → Ledger n0 (run s ops).1 (tr ++ (run s ops).2) := by
  induction ops with
  | nil => intro s tr _ h; simpa [run] using h
  | cons o r ih =>
    intro s tr hp h
    simp only [run]
    rw [← List.append_assoc]
    exact ih _ _ (fun x hx => hp x (List.mem_cons_of_mem _ hx)) (step_ledger n0 s o tr (hp o List.mem_cons_self) h)

/-- the first `_run_next_step` of a fresh instance opens the ledger -/
theorem first_ledger (s0 : RS) (pa : Bool) (hs : s0.stopped = false) (hst : s0.started = true) (hpe : s0.pending = false) :
    Ledger s0.loops (runNext s0 [.played] pa).1 (runNext s0 [.played] pa).2 := by
  have := ledger_runRes s0.loops s0 [.played] _ [] (by rw [hst]; rfl) (by rw [hs]; rfl) (Nat.le_refl _)
    (by unfold LoopAcc; cases s0.loops <;> simp [cntE]) (by rw [hpe]; intro hh; cases hh) hs (by unfold IsAck'; decide)
    (runNext_out s0 [.played] pa hs) (runNext_ghost s0 [.played] pa)
  simpa using this

/-- the play request on a key without a running show opens the ledger -/
theorem play_ledger (durs : List Nat) (num den : Nat) (loops : Option Nat) (start : Int) (running manual : Bool)
    (sync t : Nat) :
    Ledger loops (step {} (.play durs num den loops start running manual sync t)).1
      (step {} (.play durs num den loops start running manual sync t)).2 := by
  simp only [step]
  have hstop : stop (setNow ({} : RS) t) = (setNow {} t, []) := by unfold stop; simp [setNow]
  rw [hstop]
  simp only [List.nil_append]
  unfold startPlay
  split
  · exact first_ledger _ _ rfl rfl rfl
  · refine ⟨rfl, rfl, Nat.le_refl _, ?_, fun _ => rfl⟩
    unfold LoopAcc; cases loops <;> simp [cntE]

/-- shape of the output of the step that stops a show -/
def StopShape (out : List Obs) : Prop :=
  ∃ pre post, out = pre ++ Obs.ev .stopped :: post ∧ (∀ x ∈ pre, x = Obs.clr) ∧
    (post = [] ∨ ∃ acks, post = acks.map Obs.ev ++ [Obs.ev .completed] ∧ IsAck' acks)

theorem runRes_stop_shape (s : RS) (post : List Ev) (r : RS × List Obs) (hp : IsAck' post) (hr : RunRes s post r)
    (h : r.1.stopped = true) : StopShape r.2 := by
  rcases hr with ⟨hrs, _⟩ | ⟨_, _, _, hout⟩
  · rw [hrs] at h; simp at h
  · refine ⟨if s.dirty then [Obs.clr] else [], (post ++ [Ev.completed]).map Obs.ev, by rw [hout]; simp, ?_,
      Or.inr ⟨post, by simp, hp⟩⟩
    intro x hx; split at hx <;> simp at hx; exact hx

theorem step_stop_shape (s : RS) (o : Op) (hp : o.isPlay = false) (hs : s.stopped = false)
    (h : (step s o).1.stopped = true) : StopShape (step s o).2 := by
  have hrn : ∀ (s' : RS) (post : List Ev) (pa : Bool), s'.stopped = false → IsAck' post →
      (runNext s' post pa).1.stopped = true → StopShape (runNext s' post pa).2 :=
    fun s' post pa hs' hpost hh => runRes_stop_shape s' post _ hpost (runNext_out s' post pa hs') hh
  cases o with
  | play durs num den loops start running manual sync t => simp [Op.isPlay] at hp
  | stop t =>
    simp only [step, ctl] at h ⊢
    split
    · have f := stop_facts (setNow s t) (by simpa [setNow] using hs)
      refine ⟨if (setNow s t).dirty then [Obs.clr] else [], [], by rw [f.2.2], ?_, Or.inl rfl⟩
      intro x hx; split at hx <;> simp at hx; exact hx
    · rename_i hk; rw [if_neg hk] at h; simp [setNow, hs] at h
  | pause t =>
    simp only [step, ctl] at h ⊢
    split at h
    · rw [cancel_stopped] at h; simp [setNow, hs] at h
    · simp [setNow, hs] at h
  | resume t =>
    simp only [step, ctl] at h ⊢
    split
    · rename_i hk; rw [if_pos hk] at h
      have hns : (cancelHandle (setNow s t)).stopped = false := by rw [cancel_stopped]; simpa [setNow] using hs
      simp only [reqBody] at h ⊢
      rw [if_neg (by rw [hns]; simp)] at h ⊢
      split
      · rename_i hpe; rw [if_pos hpe] at h
        exact hrn _ _ _ hns (by unfold IsAck'; decide) h
      · rename_i hpe; rw [if_neg hpe] at h
        exact hrn _ _ _ hns (by unfold IsAck'; decide) h
    · rename_i hk; rw [if_neg hk] at h; simp [setNow, hs] at h
  | advance t =>
    simp only [step, ctl] at h ⊢
    split
    · rename_i hk; rw [if_pos hk] at h
      have hns : (cancelHandle (setNow s t)).stopped = false := by rw [cancel_stopped]; simpa [setNow] using hs
      simp only [reqBody] at h ⊢
      rw [if_neg (by rw [hns]; simp)] at h ⊢
      split
      · rename_i hpe; rw [if_pos hpe] at h
        exact hrn _ _ _ hns (by unfold IsAck'; decide) h
      · rename_i hpe; rw [if_neg hpe] at h
        exact hrn _ _ _ hns (by unfold IsAck'; decide) h
    · rename_i hk; rw [if_neg hk] at h; simp [setNow, hs] at h
  | back t =>
    simp only [step, ctl] at h ⊢
    split
    · rename_i hk; rw [if_pos hk] at h
      have hns : (cancelHandle (setNow s t)).stopped = false := by rw [cancel_stopped]; simpa [setNow] using hs
      simp only [reqBody] at h ⊢
      rw [if_neg (by rw [hns]; simp)] at h ⊢
      split
      · rename_i hpe; rw [if_pos hpe] at h
        exact hrn _ _ _ hns (by unfold IsAck'; decide) h
      · rename_i hpe; rw [if_neg hpe] at h
        exact hrn _ _ _ hns (by unfold IsAck'; decide) h
    · rename_i hk; rw [if_neg hk] at h; simp [setNow, hs] at h
  | speed num den t =>
    simp only [step, ctl] at h
    split at h <;> simp [setNow, hs] at h
  | fire t =>
    simp only [step] at h ⊢
    split
    · rename_i hd; rw [hd] at h; simp [setNow, hs] at h
    · rename_i tm hd; rw [hd] at h
      simp only [timerBody] at h ⊢
      have hns : (setNow s t).stopped = false := by simpa [setNow] using hs
      rw [if_neg (by rw [hns]; simp)] at h ⊢
      split
      · rename_i hpe; rw [if_pos hpe] at h
        exact hrn _ _ _ hns (by unfold IsAck'; decide) h
      · rename_i hpe; rw [if_neg hpe] at h
        exact hrn _ _ _ hns (by unfold IsAck'; decide) h

end MpfVerif.Show
