import MpfVerif.Lemmas.Show
/-! C17: counting the show events of one play instance. -/
namespace MpfVerif.Show

/-- number of times the show event `e` is posted in a trace -/
def cntE (e : Ev) : List Obs → Nat
  | [] => 0
  | Obs.ev e' :: r => (if e' = e then 1 else 0) + cntE e r
  | Obs.eff _ _ :: r => cntE e r
  | Obs.clr :: r => cntE e r

theorem cntE_append (e : Ev) (a b : List Obs) : cntE e (a ++ b) = cntE e a + cntE e b := by
  induction a with
  | nil => simp [cntE]
  | cons x r ih =>
    cases x with
    | eff i t => simpa [cntE] using ih
    | ev e' => simp [cntE, ih]; omega
    | clr => simpa [cntE] using ih

theorem cntE_evs (e : Ev) (l : List Ev) : cntE e (l.map Obs.ev) = l.count e := by
  induction l with
  | nil => rfl
  | cons x r ih =>
    simp only [List.map_cons, cntE, ih, List.count_cons]
    by_cases h : x = e <;> simp [h] <;> omega

theorem cntE_onlyPaused (e : Ev) (he : e ≠ .paused) (l : List Obs) (h : onlyPaused l) : cntE e l = 0 := by
  induction l with
  | nil => rfl
  | cons x r ih =>
    have hx := h x List.mem_cons_self
    subst hx
    have : ¬ (Ev.paused = e) := fun hh => he hh.symm
    simp only [cntE, this, if_false, Nat.zero_add]
    exact ih (fun o ho => h o (List.mem_cons_of_mem _ ho))

theorem cancel_loops (s : RS) : (cancelHandle s).loops = s.loops := by
  unfold cancelHandle; cases s.handle <;> rfl

theorem cancel_known (s : RS) : (cancelHandle s).known = s.known := by
  unfold cancelHandle; cases s.handle <;> rfl

theorem playStep_facts (s : RS) (idx : Nat) (evs : List Ev) (pa : Bool) :
    (playStep s idx evs pa).1.stopped = s.stopped ∧ (playStep s idx evs pa).1.loops = s.loops ∧
    (playStep s idx evs pa).2 = Obs.eff idx s.nextTime :: evs.map Obs.ev := by
  unfold playStep
  refine ⟨?_, ?_, ?_⟩ <;> (dsimp only; try (split <;> rfl))

theorem stop_facts (s : RS) (hs : s.stopped = false) :
    (stop s).1.stopped = true ∧ (stop s).1.loops = s.loops ∧
    (stop s).2 = (if s.dirty then [Obs.clr] else []) ++ [Obs.ev .stopped] := by
  unfold stop
  simp only [hs, Bool.false_eq_true, if_false]
  exact ⟨by rw [cancel_stopped], by rw [cancel_loops], by first | rfl | trivial⟩

/-- what one `_run_next_step` of a running show emits: either one step (with `looped` iff the show wrapped, the loop
budget going down by one), or — loop budget exhausted — the clean-up, `stopped`, the request's own events, `completed` -/
def RunRes (s : RS) (post : List Ev) (r : RS × List Obs) : Prop :=
  (r.1.stopped = false ∧ ∃ i t lp, r.2 = Obs.eff i t :: (post ++ lp).map Obs.ev ∧
    ((lp = [] ∧ r.1.loops = s.loops) ∨
     (lp = [Ev.looped] ∧ ((s.loops = none ∧ r.1.loops = none) ∨ ∃ n, s.loops = some (n + 1) ∧ r.1.loops = some n)))) ∨
  (r.1.stopped = true ∧ r.1.loops = s.loops ∧ s.loops = some 0 ∧
    r.2 = (if s.dirty then [Obs.clr] else []) ++ [Obs.ev .stopped] ++ (post ++ [Ev.completed]).map Obs.ev)

theorem runNext_out (s : RS) (post : List Ev) (pa : Bool) (hs : s.stopped = false) :
    RunRes s post (runNext s post pa) := by
  unfold runNext
  rw [if_neg (by rw [hs]; simp)]
  simp only
  generalize (if s.nextIdx < 0 then s.nextIdx % (s.durs.length : Int) else s.nextIdx) = idx0
  by_cases hw : idx0 ≥ (s.durs.length : Int)
  · rw [if_pos hw]
    split
    · rename_i hl
      have f := playStep_facts s 0 (post ++ [Ev.looped]) pa
      exact Or.inl ⟨by rw [f.1, hs], 0, s.nextTime, [Ev.looped], f.2.2, Or.inr ⟨rfl, Or.inl ⟨hl, by rw [f.2.1, hl]⟩⟩⟩
    · rename_i n hl
      have f := playStep_facts { s with loops := some n } 0 (post ++ [Ev.looped]) pa
      exact Or.inl ⟨by rw [f.1]; exact hs, 0, s.nextTime, [Ev.looped], f.2.2, Or.inr ⟨rfl, Or.inr ⟨n, hl, f.2.1⟩⟩⟩
    · rename_i hl
      have f := stop_facts s hs
      refine Or.inr ⟨f.1, f.2.1, hl, ?_⟩
      show (stop s).2 ++ _ = _
      rw [f.2.2]
  · rw [if_neg hw]
    have f := playStep_facts s idx0.toNat post pa
    exact Or.inl ⟨by rw [f.1, hs], idx0.toNat, s.nextTime, [], by rw [f.2.2]; simp, Or.inl ⟨rfl, f.2.1⟩⟩

/-- the loop budget: `n0` loops were granted; every `looped` consumed one -/
def LoopAcc (n0 : Option Nat) (s : RS) (tr : List Obs) : Prop :=
  match n0, s.loops with
  | some n, some m => cntE .looped tr + m = n
  | none, none => True
  | _, _ => False

/-- the event ledger of one play instance -/
def Ledger (n0 : Option Nat) (s : RS) (tr : List Obs) : Prop :=
  cntE .played tr = 1 ∧ cntE .stopped tr = (if s.stopped then 1 else 0) ∧ cntE .completed tr ≤ cntE .stopped tr ∧
  LoopAcc n0 s tr

theorem ledger_same (n0 : Option Nat) (s s' : RS) (tr out : List Obs) (h : Ledger n0 s tr)
    (hs : s'.stopped = s.stopped) (hl : s'.loops = s.loops)
    (h0 : cntE .played out = 0 ∧ cntE .stopped out = 0 ∧ cntE .completed out = 0 ∧ cntE .looped out = 0) :
    Ledger n0 s' (tr ++ out) := by
  obtain ⟨a, b, c, d⟩ := h
  refine ⟨by rw [cntE_append, a, h0.1], by rw [cntE_append, b, h0.2.1, hs]; rfl, by
    rw [cntE_append, cntE_append, h0.2.1, h0.2.2.1]; omega, ?_⟩
  unfold LoopAcc at d ⊢
  rw [hl, cntE_append, h0.2.2.2]
  exact d

/-- a request's own acknowledgement events -/
def IsAck (post : List Ev) : Prop :=
  post.count .played = 0 ∧ post.count .stopped = 0 ∧ post.count .completed = 0 ∧ post.count .looped = 0

theorem ledger_runRes (n0 : Option Nat) (s : RS) (post : List Ev) (r : RS × List Obs) (tr : List Obs)
    (h : Ledger n0 s tr) (hs : s.stopped = false) (hp : IsAck post) (hr : RunRes s post r) :
    Ledger n0 r.1 (tr ++ r.2) := by
  obtain ⟨a, b, c, d⟩ := h
  rw [hs] at b
  simp only [Bool.false_eq_true, if_false] at b
  have hc0 : cntE .completed tr = 0 := by omega
  obtain ⟨hpl, hst, hco, hlo⟩ := hp
  rcases hr with ⟨hrs, i, t, lp, hout, hlp⟩ | ⟨hrs, hrl, hl0, hout⟩
  · have hev : ∀ e, cntE e r.2 = post.count e + lp.count e := by
      intro e; rw [hout]; simp only [cntE]; rw [cntE_evs, List.count_append]
    rcases hlp with ⟨rfl, hl⟩ | ⟨rfl, hl⟩
    · refine ⟨by rw [cntE_append, a, hev, hpl]; rfl, by rw [cntE_append, b, hev, hst, hrs]; rfl,
        by rw [cntE_append, cntE_append, hev, hev, hco, hst, hc0, b]; simp, ?_⟩
      unfold LoopAcc at d ⊢
      rw [hl, cntE_append, hev, hlo]
      exact d
    · refine ⟨by rw [cntE_append, a, hev, hpl]; rfl, by rw [cntE_append, b, hev, hst, hrs]; rfl,
        by rw [cntE_append, cntE_append, hev, hev, hco, hst, hc0, b]; simp, ?_⟩
      unfold LoopAcc at d ⊢
      rw [cntE_append, hev, hlo]
      rcases hl with ⟨h1, h2⟩ | ⟨n, h1, h2⟩
      · rw [h1] at d; rw [h2]; cases n0 <;> simp_all
      · rw [h1] at d; rw [h2]
        cases n0 with
        | none => simp at d
        | some n0 => simp only [List.count_cons_self, List.count_nil] at d ⊢; omega
  · have hev : ∀ e, cntE e r.2 = (if e = Ev.stopped then 1 else 0) + (post.count e + (if e = Ev.completed then 1 else 0)) := by
      intro e
      rw [hout, cntE_append, cntE_append, cntE_evs, List.count_append]
      have h1 : cntE e (if s.dirty = true then [Obs.clr] else []) = 0 := by split <;> simp [cntE]
      rw [h1]
      by_cases he1 : e = Ev.stopped <;> by_cases he2 : e = Ev.completed <;>
        simp [cntE, he1, he2, eq_comm]
    refine ⟨by rw [cntE_append, a, hev, hpl]; simp, by rw [cntE_append, b, hev, hst, hrs]; simp,
      by rw [cntE_append, cntE_append, hev, hev, hco, hst, hc0, b]; simp, ?_⟩
    unfold LoopAcc at d ⊢
    rw [hrl, cntE_append, hev, hlo]
    simpa using d

end MpfVerif.Show
