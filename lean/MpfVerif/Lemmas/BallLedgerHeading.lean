import MpfVerif.Lemmas.BallLedger
/-! The `heading` invariant of single-source topologies (C04 `no_fire_into_full_single_source`). -/
namespace MpfVerif.BallLedger
set_option linter.unusedSimpArgs false

/-- decidable topology predicate: no device ejects into itself and every *device* target has at most one source
(playfields may be fed by any number of devices) -/
def Cfg.singleSource (c : Cfg) : Bool :=
  c.edges.all (fun e => e.1 != e.2 && (c.isPf e.2 || c.edges.all (fun e' => e'.2 != e.2 || e'.1 == e.1)))

theorem singleSource_unique (c : Cfg) (h : c.singleSource = true) (d d' t : Nat) (h1 : c.edge d t = true)
    (h2 : c.edge d' t = true) (hpf : c.isPf t = false) : d' = d ∧ d ≠ t := by
  simp only [Cfg.singleSource, List.all_eq_true, Bool.and_eq_true, Bool.or_eq_true, bne_iff_ne, beq_iff_eq] at h
  simp only [Cfg.edge, List.contains_iff_mem] at h1 h2
  obtain ⟨hne, hall⟩ := h (d, t) h1
  simp only [hpf, Bool.false_eq_true, false_or] at hall
  have := hall (d', t) h2
  simp at this hne
  exact ⟨this, hne⟩

/-- 1 while source `d` is between `ejectStart` and `ballLeft`/failure of an eject towards `t` -/
def firing (s : St) (d t : Nat) : Int :=
  if s.ph d = .ejecting ∧ s.failed.getD d false = false ∧ s.cu d = some t then 1 else 0

structure HInv (c : Cfg) (s : St) (d t : Nat) : Prop where
  lh : s.heading.length = c.n
  li : s.inc.length = c.n
  lp : s.phase.length = c.n
  lc : s.cur.length = c.n
  lf : s.failed.length = c.n
  eq : s.heading.getD t 0 = ((s.incOf t).length : Int) + firing s d t

theorem HInv.of_eq (c : Cfg) (s s' : St) (d t : Nat) (hi : HInv c s d t) (h1 : s'.heading = s.heading) (h2 : s'.inc = s.inc)
    (h3 : s'.phase = s.phase) (h4 : s'.cur = s.cur) (h5 : s'.failed = s.failed) : HInv c s' d t := by
  obtain ⟨a, b, e, f, g, h⟩ := hi
  refine ⟨by rw [h1, a], by rw [h2, b], by rw [h3, e], by rw [h4, f], by rw [h5, g], ?_⟩
  simpa [firing, St.ph, St.cu, St.incOf, h1, h2, h3, h4, h5] using h

theorem creditReturn_h (s : St) (d : Nat) :
    (creditReturn s d).heading = s.heading ∧ (creditReturn s d).inc = s.inc ∧ (creditReturn s d).phase = s.phase ∧
    (creditReturn s d).cur = s.cur ∧ (creditReturn s d).failed = s.failed := by
  unfold creditReturn; split <;> simp

theorem dequeue_h (s s1 : St) (d : Nat) (h : dequeue s d = some s1) :
    s1.heading = s.heading ∧ s1.inc = s.inc ∧ s1.phase = s.phase ∧ s1.failed = s.failed ∧ s.cu d = none ∧
    ∃ u, s1.cur = setAt s.cur d (some u) := by
  unfold dequeue at h
  split at h
  · rename_i u rest hc hq
    simp at h; subst h
    exact ⟨rfl, rfl, rfl, rfl, hc, u, rfl⟩
  · simp at h

theorem lostPath_h (c : Cfg) (s s1 : St) (a u : Nat) (h : lostPath c s a u = some s1) :
    s1.heading = s.heading ∧ s1.inc = s.inc ∧ s1.failed = s.failed ∧
    ((s1.phase = s.phase ∧ s1.cur = s.cur) ∨
     (s.ph u = .waitBall ∧ s1.phase = setAt s.phase u .idle ∧ s1.cur = setAt s.cur u none)) := by
  unfold lostPath at h
  split at h
  · rename_i hg
    simp only [Bool.and_eq_true, beq_iff_eq] at hg
    simp at h; subst h
    exact ⟨rfl, rfl, rfl, Or.inr ⟨hg.1, rfl, rfl⟩⟩
  · split at h
    · simp at h; subst h; exact ⟨rfl, rfl, rfl, Or.inl ⟨rfl, rfl⟩⟩
    · simp at h

theorem length_erase_of_contains (l : List Nat) (d : Nat) (h : l.contains d = true) :
    ((l.erase d).length : Int) = (l.length : Int) - 1 := by
  have hm : d ∈ l := by simpa using h
  have := List.length_erase_of_mem hm
  have hpos : 0 < l.length := List.length_pos_of_mem hm
  omega

theorem step_hinv (c : Cfg) (s s' : St) (op : Op) (d t : Nat) (hss : c.singleSource = true) (he : c.edge d t = true)
    (hpf : c.isPf t = false) (hd : d < c.n) (ht : t < c.n) (h : step c s op = some s') (hi : HInv c s d t) :
    HInv c s' d t := by
  have hne : d ≠ t := (singleSource_unique c hss d d t he he hpf).2
  obtain ⟨lh, li, lp, lc, lf, heq⟩ := hi
  have hi0 : HInv c s d t := ⟨lh, li, lp, lc, lf, heq⟩
  cases op with
  | ejectStart d' t' =>
    simp only [step] at h
    split at h
    · rename_i hg; guards hg
      cases h
      refine ⟨by simp [lh], li, by simp [lp], lc, lf, ?_⟩
      simp only [firing, St.ph, St.cu, St.incOf, getD_setAt, getD_bump] at heq hg ⊢
      by_cases h1 : t' = t
      · subst h1
        have := (singleSource_unique c hss d d' t' he hg.1.1.1.1.1.2 hpf).1
        subst this
        simp_all
      · by_cases h2 : d' = d
        · subst h2
          have : s.cur.getD d' none ≠ some t := by rw [hg.1.1.2]; simpa using h1
          simp_all [Ne.symm h1]
        · simp_all [Ne.symm h1, Ne.symm h2]
    · simp at h
  | request => simp [step] at h; subst h; exact HInv.of_eq c s _ d t hi0 rfl rfl rfl rfl rfl
  | plan path =>
    simp only [step] at h
    split at h
    · split at h
      · cases h; exact HInv.of_eq c s _ d t hi0 rfl rfl rfl rfl rfl
      · simp at h
    · simp at h
  | queueReq d' =>
    simp only [step] at h
    split at h
    · cases h; exact HInv.of_eq c s _ d t hi0 rfl rfl rfl rfl rfl
    · simp at h
  | reqPop d' =>
    simp only [step] at h
    split at h
    · cases h; exact HInv.of_eq c s _ d t hi0 rfl rfl rfl rfl rfl
    · simp at h
  | attempt d' t' n =>
    simp only [step] at h
    split at h
    · cases h; exact hi0
    · simp at h
  | pfCapture d' =>
    simp only [step] at h
    split at h
    · cases h; exact HInv.of_eq c s _ d t hi0 rfl rfl rfl rfl rfl
    · simp at h
  | enterUnexpected d' =>
    simp only [step] at h
    split at h
    · cases h; exact HInv.of_eq c s _ d t hi0 rfl rfl rfl rfl rfl
    · simp at h
  | lostIdle d' =>
    simp only [step] at h
    split at h
    · cases h; exact HInv.of_eq c s _ d t hi0 rfl rfl rfl rfl rfl
    · simp at h
  | newBallFound =>
    simp only [step] at h
    split at h
    · cases h; exact HInv.of_eq c s _ d t hi0 rfl rfl rfl rfl rfl
    · simp at h
  | ballLeft d' =>
    simp only [step] at h
    split at h
    · rename_i t' hcu
      split at h
      · rename_i hg; guards hg
        cases h
        refine ⟨lh, by simp [li], by simp [lp], lc, lf, ?_⟩
        simp only [firing, St.ph, St.cu, St.incOf, getD_setAt] at heq hg hcu ⊢
        by_cases h1 : t' = t
        · subst h1
          have := (singleSource_unique c hss d d' t' he hg.1.1.1.2 hpf).1
          subst this
          simp_all
        · by_cases h2 : d' = d
          · subst h2
            have : s.cur.getD d' none ≠ some t := by rw [hcu]; simpa using h1
            simp_all [Ne.symm h1]
          · simp_all [Ne.symm h1, Ne.symm h2]
      · simp at h
    · simp at h
  | confirmTimeout d' =>
    simp only [step] at h
    split at h
    · rename_i hg; guards hg
      cases h
      refine ⟨lh, li, by simp [lp], lc, lf, ?_⟩
      simp only [firing, St.ph, St.cu, St.incOf, getD_setAt] at heq hg ⊢
      by_cases h2 : d' = d
      · subst h2; simp_all
      · simp_all [Ne.symm h2]
    · simp at h
  | enterExpected t' =>
    simp only [step] at h
    split at h
    · rename_i src rest hinc
      split at h
      · rename_i hg; guards hg
        cases h
        refine ⟨by simp [lh], by simp [li], lp, lc, lf, ?_⟩
        simp only [firing, St.ph, St.cu, St.incOf, getD_setAt, getD_bump] at heq hg hinc ⊢
        by_cases h1 : t' = t
        · subst h1; simp_all; omega
        · simp_all [Ne.symm h1]
      · simp at h
    · simp at h
  | pfArrived t' =>
    simp only [step] at h
    split at h
    · split at h
      · rename_i hg; guards hg
        cases h
        refine ⟨lh, by simp [li], lp, lc, lf, ?_⟩
        have h1 : t' ≠ t := by rintro rfl; simp_all
        simp only [firing, St.ph, St.cu, St.incOf, getD_setAt] at heq ⊢
        simp_all [Ne.symm h1]
      · simp at h
    · simp at h
  | waitBall d' =>
    simp only [step] at h
    split at h
    · rename_i hg0
      split at h
      · rename_i hid
        cases hq : dequeue s d' with
        | none => simp [hq] at h
        | some s1 =>
          simp [hq] at h; subst h
          obtain ⟨e1, e2, e3, e4, e5, u, e6⟩ := dequeue_h s s1 d' hq
          refine ⟨by simp [e1, lh], by simp [e2, li], by simp [e3, lp], by simp [e6, lc], by simp [e4, lf], ?_⟩
          simp only [firing, St.ph, St.cu, St.incOf, getD_setAt, e1, e2, e3, e4, e6, beq_iff_eq] at heq hid ⊢
          by_cases h2 : d' = d
          · subst h2; simp_all
          · simp_all [Ne.symm h2]
      · split at h
        · rename_i hg; guards hg
          cases h
          obtain ⟨e1, e2, e3, e4, e5⟩ := creditReturn_h s d'
          refine ⟨by simp [e1, lh], by simp [e2, li], by simp [e3, lp], by simp [e4, lc], by simp [e5, lf], ?_⟩
          simp only [firing, St.ph, St.cu, St.incOf, getD_setAt, e1, e2, e3, e4, e5] at heq hg ⊢
          by_cases h2 : d' = d
          · subst h2; simp_all
          · simp_all [Ne.symm h2]
        · simp at h
    · simp at h
  | waitTarget d' =>
    simp only [step] at h
    split at h
    · rename_i hg0
      split at h
      · rename_i hid
        cases hq : dequeue s d' with
        | none => simp [hq] at h
        | some s1 =>
          simp [hq] at h; subst h
          obtain ⟨e1, e2, e3, e4, e5, u, e6⟩ := dequeue_h s s1 d' hq
          refine ⟨by simp [e1, lh], by simp [e2, li], by simp [e3, lp], by simp [e6, lc], by simp [e4, lf], ?_⟩
          simp only [firing, St.ph, St.cu, St.incOf, getD_setAt, e1, e2, e3, e4, e6, beq_iff_eq] at heq hid ⊢
          by_cases h2 : d' = d
          · subst h2; simp_all
          · simp_all [Ne.symm h2]
      · split at h
        · rename_i hwb
          cases h
          refine ⟨lh, li, by simp [lp], lc, lf, ?_⟩
          simp only [firing, St.ph, St.cu, St.incOf, getD_setAt, beq_iff_eq] at heq hwb ⊢
          by_cases h2 : d' = d
          · subst h2; simp_all
          · simp_all [Ne.symm h2]
        · split at h
          · rename_i hg; guards hg
            cases h
            obtain ⟨e1, e2, e3, e4, e5⟩ := creditReturn_h s d'
            refine ⟨by simp [e1, lh], by simp [e2, li], by simp [e3, lp], by simp [e4, lc], by simp [e5, lf], ?_⟩
            simp only [firing, St.ph, St.cu, St.incOf, getD_setAt, e1, e2, e3, e4, e5] at heq hg ⊢
            by_cases h2 : d' = d
            · subst h2; simp_all
            · simp_all [Ne.symm h2]
          · simp at h
    · simp at h
  | confirm d' t' =>
    simp only [step, finishEject] at h
    split at h
    · rename_i hg; guards hg
      split at h
      · rename_i hpft
        have h1 : t' ≠ t := by rintro rfl; simp_all
        split at h
        · cases h
          refine ⟨by simp [lh], by simp [li], by simp [lp], by simp [lc], by simp [lf], ?_⟩
          simp only [firing, St.ph, St.cu, St.incOf, getD_setAt, getD_bump] at heq hg ⊢
          by_cases h2 : d' = d
          · subst h2; simp_all [Ne.symm h1]
          · simp_all [Ne.symm h1, Ne.symm h2]
        · simp at h
      · split at h
        · cases h
          refine ⟨lh, li, by simp [lp], by simp [lc], by simp [lf], ?_⟩
          simp only [firing, St.ph, St.cu, St.incOf, getD_setAt] at heq hg ⊢
          by_cases h2 : d' = d
          · subst h2; simp_all
          · simp_all [Ne.symm h2]
        · simp at h
    · simp at h
  | lateConfirm d' t' =>
    simp only [step, finishEject] at h
    split at h
    · rename_i hg; guards hg
      split at h
      · rename_i hpft
        have h1 : t' ≠ t := by rintro rfl; simp_all
        split at h
        · cases h
          refine ⟨by simp [lh], by simp [li], by simp [lp], by simp [lc], by simp [lf], ?_⟩
          simp only [firing, St.ph, St.cu, St.incOf, getD_setAt, getD_bump] at heq hg ⊢
          by_cases h2 : d' = d
          · subst h2; simp_all [Ne.symm h1]
          · simp_all [Ne.symm h1, Ne.symm h2]
        · simp at h
      · split at h
        · cases h
          refine ⟨lh, li, by simp [lp], by simp [lc], by simp [lf], ?_⟩
          simp only [firing, St.ph, St.cu, St.incOf, getD_setAt] at heq hg ⊢
          by_cases h2 : d' = d
          · subst h2; simp_all
          · simp_all [Ne.symm h2]
        · simp at h
    · simp at h
  | ejectFailedReturn d' n =>
    simp only [step, failCommon] at h
    split at h
    · rename_i t' hcu
      split at h
      · rename_i hg; guards hg
        have hcase : (t' = t ∧ d' = d) ∨ t' ≠ t := by
          by_cases h1 : t' = t
          · subst h1; exact Or.inl ⟨rfl, (singleSource_unique c hss d d' t' he hg.1.1.1.1.2 hpf).1⟩
          · exact Or.inr h1
        split at h
        · split at h
          · rename_i hcont
            cases h
            refine ⟨by simp [lh], by simp [li], lp, lc, by simp [lf], ?_⟩
            have hlen := length_erase_of_contains _ _ hcont
            simp only [firing, St.ph, St.cu, St.incOf, getD_setAt, getD_bump] at heq hg hcu hlen ⊢
            rcases hcase with ⟨rfl, rfl⟩ | h1
            · simp_all <;> omega
            · by_cases h2 : d' = d
              · subst h2
                have : s.cur.getD d' none ≠ some t := by rw [hcu]; simpa using h1
                simp_all [Ne.symm h1]
              · simp_all [Ne.symm h1, Ne.symm h2]
          · simp at h
        · cases h
          refine ⟨by simp [lh], li, lp, lc, by simp [lf], ?_⟩
          simp only [firing, St.ph, St.cu, St.incOf, getD_setAt, getD_bump] at heq hg hcu ⊢
          rcases hcase with ⟨rfl, rfl⟩ | h1
          · simp_all <;> omega
          · by_cases h2 : d' = d
            · subst h2
              have : s.cur.getD d' none ≠ some t := by rw [hcu]; simpa using h1
              simp_all [Ne.symm h1]
            · simp_all [Ne.symm h1, Ne.symm h2]
      · simp at h
    · simp at h
  | ejectFailedStuck d' n =>
    simp only [step, failCommon] at h
    split at h
    · rename_i t' hcu
      split at h
      · rename_i hg; guards hg
        have hcase : (t' = t ∧ d' = d) ∨ t' ≠ t := by
          by_cases h1 : t' = t
          · subst h1; exact Or.inl ⟨rfl, (singleSource_unique c hss d d' t' he hg.1.1.1.1.2 hpf).1⟩
          · exact Or.inr h1
        split at h
        · split at h
          · rename_i hcont
            cases h
            refine ⟨by simp [lh], by simp [li], lp, lc, by simp [lf], ?_⟩
            have hlen := length_erase_of_contains _ _ hcont
            simp only [firing, St.ph, St.cu, St.incOf, getD_setAt, getD_bump] at heq hg hcu hlen ⊢
            rcases hcase with ⟨rfl, rfl⟩ | h1
            · simp_all <;> omega
            · by_cases h2 : d' = d
              · subst h2
                have : s.cur.getD d' none ≠ some t := by rw [hcu]; simpa using h1
                simp_all [Ne.symm h1]
              · simp_all [Ne.symm h1, Ne.symm h2]
          · simp at h
        · cases h
          refine ⟨by simp [lh], li, lp, lc, by simp [lf], ?_⟩
          simp only [firing, St.ph, St.cu, St.incOf, getD_setAt, getD_bump] at heq hg hcu ⊢
          rcases hcase with ⟨rfl, rfl⟩ | h1
          · simp_all <;> omega
          · by_cases h2 : d' = d
            · subst h2
              have : s.cur.getD d' none ≠ some t := by rw [hcu]; simpa using h1
              simp_all [Ne.symm h1]
            · simp_all [Ne.symm h1, Ne.symm h2]
      · simp at h
    · simp at h
  | broken d' =>
    simp only [step] at h
    split at h
    · rename_i t' hcu
      split at h
      · rename_i hg; guards hg
        obtain ⟨e1, e2, e3, e4, e5⟩ := creditReturn_h s d'
        have hcase : (t' = t ∧ d' = d) ∨ t' ≠ t := by
          by_cases h1 : t' = t
          · subst h1; exact Or.inl ⟨rfl, (singleSource_unique c hss d d' t' he hg.1.1.1.1.1.1.2 hpf).1⟩
          · exact Or.inr h1
        split at h
        · split at h
          · rename_i hfc hcont
            cases h
            refine ⟨by simp [e1, lh], by simp [e2, li], by simp [e3, lp], by simp [e4, lc], by simp [e5, lf], ?_⟩
            have hlen := length_erase_of_contains _ _ hcont
            simp only [firing, St.ph, St.cu, St.incOf, getD_setAt, getD_bump, e1, e2, e3, e4, e5, beq_iff_eq] at heq hg hcu hlen hfc ⊢
            rcases hcase with ⟨rfl, rfl⟩ | h1
            · simp_all <;> omega
            · by_cases h2 : d' = d
              · subst h2
                have : s.cur.getD d' none ≠ some t := by rw [hcu]; simpa using h1
                simp_all [Ne.symm h1]
              · simp_all [Ne.symm h1, Ne.symm h2]
          · simp at h
        · rename_i hfc
          cases h
          refine ⟨by simp [e1, lh], by simp [e2, li], by simp [e3, lp], by simp [e4, lc], by simp [e5, lf], ?_⟩
          simp only [firing, St.ph, St.cu, St.incOf, getD_setAt, getD_bump, e1, e2, e3, e4, e5, beq_iff_eq] at heq hg hcu hfc ⊢
          rcases hcase with ⟨rfl, rfl⟩ | h1
          · simp_all <;> omega
          · by_cases h2 : d' = d
            · subst h2
              have : s.cur.getD d' none ≠ some t := by rw [hcu]; simpa using h1
              simp_all [Ne.symm h1]
            · simp_all [Ne.symm h1, Ne.symm h2]
      · simp at h
    · simp at h
  | lostEjected d' =>
    simp only [step] at h
    split at h
    · rename_i t' hcu
      split at h
      · rename_i hg; guards hg
        cases hq : lostPath c s d' t' with
        | none => simp [hq] at h
        | some s1 =>
          simp [hq, finishEject] at h; subst h
          obtain ⟨e1, e2, e3, e4⟩ := lostPath_h c s s1 d' t' hq
          have hlen := length_erase_of_contains _ _ hg.1.2
          have hedge : c.edge d' t' = true := hg.1.1.1.1.1.2
          have hcase : (t' = t ∧ d' = d) ∨ t' ≠ t := by
            by_cases h1 : t' = t
            · subst h1; exact Or.inl ⟨rfl, (singleSource_unique c hss d d' t' he hedge hpf).1⟩
            · exact Or.inr h1
          rcases e4 with ⟨e4, e5⟩ | ⟨e6, e4, e5⟩
          · refine ⟨by simp [e1, lh], by simp [e2, li], by simp [e4, lp], by simp [e5, lc], by simp [e3, lf], ?_⟩
            simp only [firing, St.ph, St.cu, St.incOf, getD_setAt, getD_bump, e1, e2, e3, e4, e5] at heq hg hcu hlen ⊢
            rcases hcase with ⟨rfl, rfl⟩ | h1
            · simp_all <;> omega
            · by_cases h2 : d' = d
              · subst h2; simp_all [Ne.symm h1]
              · simp_all [Ne.symm h1, Ne.symm h2]
          · refine ⟨by simp [e1, lh], by simp [e2, li], by simp [e4, lp], by simp [e5, lc], by simp [e3, lf], ?_⟩
            simp only [firing, St.ph, St.cu, St.incOf, getD_setAt, getD_bump, e1, e2, e3, e4, e5] at heq hg hcu hlen e6 ⊢
            rcases hcase with ⟨rfl, rfl⟩ | h1
            · simp_all <;> omega
            · by_cases h2 : d' = d
              · subst h2; simp_all [Ne.symm h1]
              · by_cases h3 : t' = d
                · subst h3; simp_all [Ne.symm h1, Ne.symm h2]
                · simp_all [Ne.symm h1, Ne.symm h2, Ne.symm h3]
      · simp at h
    · simp at h
  | incomingTimeout d' =>
    simp only [step] at h
    split at h
    · rename_i x rest hinc
      split at h
      · rename_i hg; guards hg
        cases hq : lostPath c s d' d' with
        | none => simp [hq] at h
        | some s1 =>
          simp [hq] at h; subst h
          obtain ⟨e1, e2, e3, e4⟩ := lostPath_h c s s1 d' d' hq
          rcases e4 with ⟨e4, e5⟩ | ⟨e6, e4, e5⟩
          · refine ⟨by simp [e1, lh], by simp [e2, li], by simp [e4, lp], by simp [e5, lc], by simp [e3, lf], ?_⟩
            simp only [firing, St.ph, St.cu, St.incOf, getD_setAt, getD_bump, e1, e2, e3, e4, e5] at heq hg hinc ⊢
            by_cases h1 : d' = t
            · subst h1; simp_all <;> omega
            · simp_all [Ne.symm h1]
          · refine ⟨by simp [e1, lh], by simp [e2, li], by simp [e4, lp], by simp [e5, lc], by simp [e3, lf], ?_⟩
            simp only [firing, St.ph, St.cu, St.incOf, getD_setAt, getD_bump, e1, e2, e3, e4, e5] at heq hg hinc e6 ⊢
            by_cases h1 : d' = t
            · subst h1; simp_all [Ne.symm hne] <;> omega
            · by_cases h2 : d' = d
              · subst h2; simp_all [Ne.symm h1]
              · simp_all [Ne.symm h1, Ne.symm h2]
      · simp at h
    · simp at h
  | manualLeft d' t' =>
    simp only [step] at h
    split at h
    · rename_i hg; guards hg
      cases h
      refine ⟨by simp [lh], by simp [li], lp, by simp [lc], lf, ?_⟩
      simp only [firing, St.ph, St.cu, St.incOf, getD_setAt, getD_bump] at heq hg ⊢
      by_cases h1 : t' = t
      · subst h1
        by_cases h2 : d' = d
        · subst h2; simp_all <;> omega
        · simp_all [Ne.symm h2] <;> omega
      · by_cases h2 : d' = d
        · subst h2; simp_all [Ne.symm h1]
        · simp_all [Ne.symm h1, Ne.symm h2]
    · simp at h
  | confirmManual d' t' =>
    simp only [step, finishEject] at h
    split at h
    · rename_i hg; guards hg
      have h1 : t' ≠ t := by rintro rfl; simp_all
      cases h
      refine ⟨by simp [lh], by simp [li], by simp [lp], by simp [lc], by simp [lf], ?_⟩
      simp only [firing, St.ph, St.cu, St.incOf, getD_setAt, getD_bump] at heq hg ⊢
      by_cases h2 : d' = d
      · subst h2; simp_all [Ne.symm h1]
      · simp_all [Ne.symm h1, Ne.symm h2]
    · simp at h
  | manualTimeout d' =>
    simp only [step] at h
    split at h
    · rename_i hg; guards hg
      cases h
      refine ⟨lh, li, by simp [lp], lc, lf, ?_⟩
      simp only [firing, St.ph, St.cu, St.incOf, getD_setAt] at heq hg ⊢
      by_cases h2 : d' = d
      · subst h2; simp_all
      · simp_all [Ne.symm h2]
    · simp at h
  | manualReturn d' =>
    simp only [step] at h
    split at h
    · rename_i t' hcu
      split at h
      · rename_i hg; guards hg
        have hcont := hg.1.2
        cases h
        refine ⟨by simp [lh], by simp [li], lp, lc, by simp [lf], ?_⟩
        have hlen := length_erase_of_contains _ _ hcont
        simp only [firing, St.ph, St.cu, St.incOf, getD_setAt, getD_bump] at heq hg hcu hlen ⊢
        by_cases h1 : t' = t
        · subst h1
          by_cases h2 : d' = d
          · subst h2; simp_all <;> omega
          · simp_all [Ne.symm h2] <;> omega
        · by_cases h2 : d' = d
          · subst h2; simp_all [Ne.symm h1]
          · simp_all [Ne.symm h1, Ne.symm h2]
      · simp at h
    · simp at h
  | extConfirm d' t' =>
    simp only [step, finishEject] at h
    split at h
    · rename_i hg; guards hg
      split at h
      · rename_i hpft
        have h1 : t' ≠ t := by rintro rfl; simp_all
        cases h
        refine ⟨by simp [lh], li, by simp [lp], by simp [lc], by simp [lf], ?_⟩
        simp only [firing, St.ph, St.cu, St.incOf, getD_setAt, getD_bump] at heq hg ⊢
        by_cases h2 : d' = d
        · subst h2; simp_all [Ne.symm h1]
        · simp_all [Ne.symm h1, Ne.symm h2]
      · cases h
        refine ⟨lh, li, by simp [lp], by simp [lc], by simp [lf], ?_⟩
        simp only [firing, St.ph, St.cu, St.incOf, getD_setAt] at heq hg ⊢
        by_cases h2 : d' = d
        · subst h2
          rcases hg.1.1.1.1.2 with hp | hp <;> simp_all
        · simp_all [Ne.symm h2]
    · simp at h
  | pfArrivedStale t' src =>
    simp only [step] at h
    split at h
    · rename_i hg; guards hg
      have h1 : t' ≠ t := by rintro rfl; simp_all
      cases h
      refine ⟨lh, by simp [li], lp, lc, lf, ?_⟩
      simp only [firing, St.ph, St.cu, St.incOf, getD_setAt] at heq hg ⊢
      simp_all [Ne.symm h1]
    · simp at h
  | pfArrivedFrom t' src =>
    simp only [step] at h
    split at h
    · rename_i hg; guards hg
      have h1 : t' ≠ t := by rintro rfl; simp_all
      cases h
      refine ⟨lh, by simp [li], lp, lc, lf, ?_⟩
      simp only [firing, St.ph, St.cu, St.incOf, getD_setAt] at heq hg ⊢
      simp_all [Ne.symm h1]
    · simp at h
  | skipStart d' t' =>
    simp only [step] at h
    split at h
    · rename_i hg; guards hg
      cases h
      refine ⟨by simp [lh], by simp [li], lp, lc, lf, ?_⟩
      simp only [firing, St.ph, St.cu, St.incOf, getD_setAt, getD_bump] at heq hg ⊢
      by_cases h1 : t' = t
      · subst h1; simp_all <;> omega
      · simp_all [Ne.symm h1]
    · simp at h
  | skipConfirm d' t' =>
    simp only [step] at h
    split at h
    · rename_i src rest hinc
      split at h
      · rename_i hg; guards hg
        have h1 : t' ≠ t := by rintro rfl; simp_all
        cases h
        refine ⟨by simp [lh], by simp [li], by simp [lp], by simp [lc], lf, ?_⟩
        simp only [firing, St.ph, St.cu, St.incOf, getD_setAt, getD_bump] at heq hg hinc ⊢
        by_cases h3 : d' = t
        · subst h3
          simp_all [Ne.symm h1, Ne.symm hne, hne] <;> omega
        · by_cases h2 : d' = d
          · subst h2; simp_all [Ne.symm h1, Ne.symm h3]
          · simp_all [Ne.symm h1, Ne.symm h2, Ne.symm h3]
      · simp at h
    · simp at h
  | skipFail d' t' =>
    simp only [step] at h
    split at h
    · rename_i hg; guards hg
      have hcont := hg.2
      cases h
      refine ⟨by simp [lh], by simp [li], lp, lc, lf, ?_⟩
      have hlen := length_erase_of_contains _ _ hcont
      simp only [firing, St.ph, St.cu, St.incOf, getD_setAt, getD_bump] at heq hg hlen ⊢
      by_cases h1 : t' = t
      · subst h1; simp_all <;> omega
      · simp_all [Ne.symm h1]
    · simp at h
  | skipConfirmIdle d' t' =>
    simp only [step] at h
    split at h
    · rename_i src rest hinc
      split at h
      · rename_i hg; guards hg
        have h1 : t' ≠ t := by rintro rfl; simp_all
        cases h
        refine ⟨by simp [lh], by simp [li], lp, lc, lf, ?_⟩
        simp only [firing, St.ph, St.cu, St.incOf, getD_setAt, getD_bump] at heq hg hinc ⊢
        by_cases h3 : d' = t
        · subst h3
          simp_all [Ne.symm h1, Ne.symm hne, hne] <;> omega
        · simp_all [Ne.symm h1, Ne.symm h3]
      · simp at h
    · simp at h

theorem getD_replicate' {α : Type} (n i : Nat) (v : α) : (List.replicate n v).getD i v = v := by
  induction n generalizing i with
  | zero => simp
  | succ n ih =>
    cases i with
    | zero => simp [List.replicate_succ]
    | succ i => have := ih i; simpa [List.replicate_succ] using this

theorem init_hinv (c : Cfg) (counts : List Int) (d t : Nat) : HInv c (initSt c counts) d t := by
  refine ⟨by simp [initSt], by simp [initSt], by simp [initSt], by simp [initSt], by simp [initSt], ?_⟩
  have h1 := getD_replicate' c.n t (0 : Int)
  have h2 := getD_replicate' c.n t ([] : List Nat)
  have h3 := getD_replicate' c.n d Phase.idle
  simp only [firing, St.ph, St.incOf, initSt, h1, h2, h3]
  simp

theorem run_hinv (c : Cfg) (ops : List Op) (s s' : St) (d t : Nat) (hss : c.singleSource = true) (he : c.edge d t = true)
    (hpf : c.isPf t = false) (hd : d < c.n) (ht : t < c.n) (h : run c s ops = some s') (hi : HInv c s d t) :
    HInv c s' d t := by
  induction ops generalizing s with
  | nil => simp [run] at h; subst h; exact hi
  | cons op rest ih =>
    simp only [run] at h
    cases hs : step c s op with
    | none => simp [hs] at h
    | some s1 =>
      simp only [hs] at h
      exact ih s1 h (step_hinv c s s1 op d t hss he hpf hd ht hs hi)

end MpfVerif.BallLedger
