import MpfVerif.Model.Rules
/-!
# Lemmas for C10: the table invariant and the operations that keep the (table, aux, enabled) view unchanged
-/
namespace MpfVerif.Rules

/-- well-formed configuration: the rule keys (switch, coil) of all devices are pairwise distinct -/
structure WF (c : Cfg) : Prop where
  own : ∀ i, i < c.n → ((entriesOf (c.dev i)).map Entry.key).Nodup
  apart : ∀ i j, i < c.n → j < c.n → i ≠ j → ∀ e ∈ entriesOf (c.dev i), ∀ e' ∈ entriesOf (c.dev j), e.key ≠ e'.key

/-- the table invariant -/
structure Inv (c : Cfg) (s : St) : Prop where
  sound : ∀ e ∈ s.table, ∃ i, i < c.n ∧ (s.devs i).enabled = true ∧ e ∈ entriesOf (c.dev i)
  complete : ∀ i, i < c.n → (s.devs i).enabled = true → ∀ e ∈ entriesOf (c.dev i), e ∈ s.table
  nodup : (s.table.map Entry.key).Nodup
  auxSound : ∀ a ∈ s.aux, ∃ i, i < c.n ∧ (s.devs i).enabled = true ∧ a ∈ auxOf (c.dev i)

/-- `s'` has the same table, auxiliary handlers and enabled flags as `s` -/
structure Same (s s' : St) : Prop where
  table : s'.table = s.table
  aux : s'.aux = s.aux
  en : ∀ j, (s'.devs j).enabled = (s.devs j).enabled

theorem Same.rfl' (s : St) : Same s s := ⟨rfl, rfl, fun _ => rfl⟩

theorem Same.trans {a b d : St} (h1 : Same a b) (h2 : Same b d) : Same a d :=
  ⟨h2.table.trans h1.table, h2.aux.trans h1.aux, fun j => (h2.en j).trans (h1.en j)⟩

theorem Inv.of_same {c : Cfg} {s s' : St} (h : Same s s') (hi : Inv c s) : Inv c s' := by
  refine ⟨?_, ?_, ?_, ?_⟩
  · intro e he
    rw [h.table] at he
    obtain ⟨i, hi1, hi2, hi3⟩ := hi.sound e he
    exact ⟨i, hi1, by rw [h.en]; exact hi2, hi3⟩
  · intro i hi1 hi2 e he
    rw [h.table]
    rw [h.en] at hi2
    exact hi.complete i hi1 hi2 e he
  · rw [h.table]; exact hi.nodup
  · intro a ha
    rw [h.aux] at ha
    obtain ⟨i, hi1, hi2, hi3⟩ := hi.auxSound a ha
    exact ⟨i, hi1, by rw [h.en]; exact hi2, hi3⟩

theorem same_upd (s : St) (i : Nat) (d : DSt) (h : d.enabled = (s.devs i).enabled) : Same s (upd s i d) := by
  refine ⟨rfl, rfl, ?_⟩
  intro j
  simp only [upd]
  split
  · rename_i hj; subst hj; exact h
  · rfl

theorem same_coilOn (s : St) (x : Nat) : Same s (coilOn s x) := ⟨rfl, rfl, fun _ => rfl⟩
theorem same_coilOff (s : St) (x : Nat) : Same s (coilOff s x) := ⟨rfl, rfl, fun _ => rfl⟩
theorem same_coilPulse (s : St) (x : Nat) : Same s (coilPulse s x) := ⟨rfl, rfl, fun _ => rfl⟩

theorem same_upd_coilOn (s : St) (i : Nat) (d : DSt) (x : Nat) (h : d.enabled = (s.devs i).enabled) :
    Same s (coilOn (upd s i d) x) := (same_upd s i d h).trans (same_coilOn _ _)
theorem same_upd_coilOff (s : St) (i : Nat) (d : DSt) (x : Nat) (h : d.enabled = (s.devs i).enabled) :
    Same s (coilOff (upd s i d) x) := (same_upd s i d h).trans (same_coilOff _ _)
theorem same_upd_coilPulse (s : St) (i : Nat) (d : DSt) (x : Nat) (h : d.enabled = (s.devs i).enabled) :
    Same s (coilPulse (upd s i d) x) := (same_upd s i d h).trans (same_coilPulse _ _)

theorem same_swRelease (s : St) (i : Nat) (f : FCfg) : Same s (swRelease s i f) := by
  unfold swRelease
  have h1 := (same_upd s i { s.devs i with swFlipped := false } rfl).trans (same_coilOff _ f.main)
  cases f.hold with
  | none => exact h1
  | some h => exact h1.trans (same_coilOff _ h)

theorem same_swFlip (s : St) (i : Nat) (f : FCfg) : Same s (swFlip s i f) := by
  unfold swFlip
  split
  · have h1 := same_upd s i { s.devs i with swFlipped := true } rfl
    cases f.hold with
    | none => exact h1.trans (same_coilOn _ _)
    | some h => exact (h1.trans (same_coilPulse _ _)).trans (same_coilOn _ _)
  · exact Same.rfl' s

theorem same_fswDev (c : Cfg) (s : St) (i w : Nat) (st : Bool) : Same s (fswDev c s i w st) := by
  unfold fswDev
  split
  · exact Same.rfl' s
  · rename_i f _
    simp only
    split
    · split
      · exact Same.rfl' s
      · split
        · exact same_upd _ _ _ rfl
        · split
          · exact same_upd _ _ _ rfl
          · exact same_upd_coilOff _ _ _ _ rfl
    · split
      · exact Same.rfl' s
      · split
        · exact same_upd _ _ _ rfl
        · split
          · split <;> exact same_upd _ _ _ rfl
          · split
            · cases f.hold with
              | none => exact same_upd_coilOn _ _ _ _ rfl
              | some h => exact same_upd_coilPulse _ _ _ _ rfl
            · exact same_upd _ _ _ rfl

theorem same_searchDev (c : Cfg) (s : St) (i : Nat) : Same s (searchDev c s i) := by
  unfold searchDev
  split
  · rename_i f _
    exact (same_swFlip s i f).trans (same_upd _ _ _ rfl)
  · exact same_upd_coilPulse _ _ _ _ rfl

/-! ## enable / disable -/

theorem mem_clear_table (s : St) (d : Dev) (e : Entry) :
    e ∈ (clearRules s d).table ↔ e ∈ s.table ∧ e.key ∉ (entriesOf d).map Entry.key := by
  simp [clearRules, hasKey, List.mem_filter]

theorem mem_clear_aux (s : St) (d : Dev) (a : Aux) :
    a ∈ (clearRules s d).aux ↔ a ∈ s.aux ∧ a ∉ auxOf d := by
  simp [clearRules, List.mem_filter]

theorem clear_devs (s : St) (d : Dev) : (clearRules s d).devs = s.devs := rfl

/-- clearing the rules of an enabled device and marking it disabled keeps the invariant -/
theorem inv_clear {c : Cfg} (hw : WF c) {s s' : St} (i : Nat) (hi : i < c.n) (h : Inv c s)
    (ht : s'.table = (clearRules s (c.dev i)).table) (ha : s'.aux = (clearRules s (c.dev i)).aux)
    (hoff : (s'.devs i).enabled = false) (hoth : ∀ j, j ≠ i → (s'.devs j).enabled = (s.devs j).enabled) : Inv c s' := by
  refine ⟨?_, ?_, ?_, ?_⟩
  · intro e he
    rw [ht, mem_clear_table] at he
    obtain ⟨j, hj1, hj2, hj3⟩ := h.sound e he.1
    have hne : j ≠ i := by
      intro hji; subst hji
      exact he.2 (List.mem_map_of_mem hj3)
    exact ⟨j, hj1, by rw [hoth j hne]; exact hj2, hj3⟩
  · intro j hj1 hj2 e he
    have hne : j ≠ i := by
      intro hji; subst hji; rw [hoff] at hj2; exact Bool.noConfusion hj2
    rw [hoth j hne] at hj2
    rw [ht, mem_clear_table]
    refine ⟨h.complete j hj1 hj2 e he, ?_⟩
    intro hk
    obtain ⟨e', he', hkey⟩ := List.mem_map.mp hk
    exact hw.apart j i hj1 hi hne e he e' he' hkey.symm
  · rw [ht]
    have hs : ((clearRules s (c.dev i)).table.map Entry.key).Sublist (s.table.map Entry.key) := by
      simp only [clearRules]
      exact List.Sublist.map _ List.filter_sublist
    exact List.Nodup.sublist hs h.nodup
  · intro a ha'
    rw [ha, mem_clear_aux] at ha'
    obtain ⟨j, hj1, hj2, hj3⟩ := h.auxSound a ha'.1
    have hne : j ≠ i := by
      intro hji; subst hji; exact ha'.2 hj3
    exact ⟨j, hj1, by rw [hoth j hne]; exact hj2, hj3⟩

/-- writing the rules of a disabled device and marking it enabled keeps the invariant -/
theorem inv_install {c : Cfg} (hw : WF c) {s s' : St} (i : Nat) (hi : i < c.n) (h : Inv c s)
    (hdis : (s.devs i).enabled = false)
    (ht : s'.table = s.table ++ entriesOf (c.dev i)) (ha : s'.aux = s.aux ++ auxOf (c.dev i))
    (hon : (s'.devs i).enabled = true) (hoth : ∀ j, j ≠ i → (s'.devs j).enabled = (s.devs j).enabled) : Inv c s' := by
  have hen : ∀ j, (s.devs j).enabled = true → (s'.devs j).enabled = true := by
    intro j hj
    by_cases hji : j = i
    · subst hji; exact hon
    · rw [hoth j hji]; exact hj
  refine ⟨?_, ?_, ?_, ?_⟩
  · intro e he
    rw [ht, List.mem_append] at he
    rcases he with he | he
    · obtain ⟨j, hj1, hj2, hj3⟩ := h.sound e he
      exact ⟨j, hj1, hen j hj2, hj3⟩
    · exact ⟨i, hi, hon, he⟩
  · intro j hj1 hj2 e he
    rw [ht, List.mem_append]
    by_cases hji : j = i
    · subst hji; exact Or.inr he
    · rw [hoth j hji] at hj2
      exact Or.inl (h.complete j hj1 hj2 e he)
  · rw [ht, List.map_append, List.nodup_append]
    refine ⟨h.nodup, hw.own i hi, ?_⟩
    intro k hk k' hk' hkk
    obtain ⟨e, he, rfl⟩ := List.mem_map.mp hk
    obtain ⟨e', he', rfl⟩ := List.mem_map.mp hk'
    obtain ⟨j, hj1, hj2, hj3⟩ := h.sound e he
    have hne : j ≠ i := by
      intro hji; subst hji; rw [hdis] at hj2; exact Bool.noConfusion hj2
    exact hw.apart j i hj1 hi hne e hj3 e' he' hkk
  · intro a ha'
    rw [ha, List.mem_append] at ha'
    rcases ha' with ha' | ha'
    · obtain ⟨j, hj1, hj2, hj3⟩ := h.auxSound a ha'
      exact ⟨j, hj1, hen j hj2, hj3⟩
    · exact ⟨i, hi, hon, ha'⟩

theorem upd_devs_same (s : St) (i : Nat) (d : DSt) : ((upd s i d).devs i) = d := by simp [upd]
theorem upd_devs_other (s : St) (i j : Nat) (d : DSt) (h : j ≠ i) : ((upd s i d).devs j) = s.devs j := by simp [upd, h]

theorem inv_enableDev {c : Cfg} (hw : WF c) (s : St) (i : Nat) (hi : i < c.n) (h : Inv c s) : Inv c (enableDev c s i) := by
  unfold enableDev
  simp only
  split
  · exact h
  · rename_i hdis
    have hdis' : (s.devs i).enabled = false := by simpa using hdis
    split
    · cases hk : (c.dev i).kind with
      | flipper f =>
        simp only
        exact inv_install hw i hi h hdis' rfl rfl (by rw [upd_devs_same]) (fun j hj => by rw [upd_devs_other _ _ _ _ hj]; rfl)
      | autofire a =>
        simp only
        exact inv_install hw i hi h hdis' rfl rfl (by rw [upd_devs_same]) (fun j hj => by rw [upd_devs_other _ _ _ _ hj]; rfl)
    · exact Inv.of_same (s := s) ⟨rfl, rfl, fun _ => rfl⟩ h

theorem inv_disableDev {c : Cfg} (hw : WF c) (s : St) (i : Nat) (hi : i < c.n) (h : Inv c s) : Inv c (disableDev c s i) := by
  unfold disableDev
  simp only
  cases hk : (c.dev i).kind with
  | flipper f =>
    simp only
    split
    · -- table and aux are those of clearRules; device i ends disabled, the others keep their flag
      refine inv_clear hw i hi h (s' := _) ?_ ?_ (by rw [upd_devs_same]) ?_
      · split <;> split <;> simp [upd, coilOff, swRelease, clearRules] <;> (try cases f.hold <;> simp [coilOff])
      · split <;> split <;> simp [upd, coilOff, swRelease, clearRules] <;> (try cases f.hold <;> simp [coilOff])
      · intro j hj
        rw [upd_devs_other _ _ _ _ hj]
        split <;> split <;> simp [upd, coilOff, swRelease, clearRules, hj] <;> (try cases f.hold <;> simp [coilOff, hj])
    · exact h
  | autofire a =>
    simp only
    split
    · refine inv_clear hw i hi h (s' := _) rfl rfl (by rw [upd_devs_same]) ?_
      intro j hj
      rw [upd_devs_other _ _ _ _ hj]
      simp [clearRules, upd, hj]
    · rename_i hdis
      exact Inv.of_same (same_upd s i _ rfl) h

/-! ## loops over the devices -/

theorem forDevs_inv {P : St → Prop} (f : St → Nat → St) (n : Nat) (hf : ∀ s k, k < n → P s → P (f s k)) :
    ∀ m, m ≤ n → ∀ s, P s → P (forDevs f m s) := by
  intro m
  induction m with
  | zero => intro _ s hs; exact hs
  | succ k ih =>
    intro hk s hs
    simp only [forDevs]
    exact hf _ k (by omega) (ih (by omega) s hs)

theorem inv_evStep {c : Cfg} (hw : WF c) (s : St) (e : Nat) (h : Inv c s) : Inv c (evStep c s e) := by
  unfold evStep
  simp only
  apply forDevs_inv (P := Inv c) _ c.n _ c.n (Nat.le_refl _)
  · apply forDevs_inv (P := Inv c) _ c.n _ c.n (Nat.le_refl _) s h
    intro s k hk hs
    split
    · exact inv_disableDev hw s k hk hs
    · exact hs
  · intro s k hk hs
    split
    · exact inv_enableDev hw s k hk hs
    · exact hs

theorem inv_hitCore {c : Cfg} (hw : WF c) (s : St) (i : Nat) (a : ACfg) (hi : i < c.n) (h : Inv c s) :
    Inv c (hitCore c s i a) := by
  unfold hitCore
  simp only
  split
  · split
    · exact Inv.of_same (same_upd _ _ _ rfl) (inv_disableDev hw _ i hi (Inv.of_same (same_upd _ _ _ rfl) h))
    · exact Inv.of_same (same_upd _ _ _ rfl) h
  · exact h

theorem inv_hitDev {c : Cfg} (hw : WF c) (s : St) (i : Nat) (hi : i < c.n) (h : Inv c s) : Inv c (hitDev c s i) := by
  unfold hitDev
  split
  · exact h
  · rename_i a _
    simp only
    split
    · exact h
    · have h1 := inv_hitCore hw s i a hi h
      cases a.fired with
      | none => exact h1
      | some ev =>
        simp only
        split
        · exact inv_evStep hw _ ev h1
        · exact h1

theorem same_upd_swRelease (s : St) (i : Nat) (d : DSt) (f : FCfg) (h : d.enabled = (s.devs i).enabled) :
    Same s (swRelease (upd s i d) i f) := (same_upd s i d h).trans (same_swRelease _ _ _)

theorem same_fireRel (s : St) (i : Nat) (f : FCfg) : Same s (fireRel s i f) := by
  unfold fireRel
  split
  · exact same_upd_swRelease _ _ _ _ rfl
  · exact Same.rfl' s

theorem same_fireEos (s : St) (i : Nat) : Same s (fireEos s i) := by
  unfold fireEos
  split
  · exact same_upd _ _ _ rfl
  · exact Same.rfl' s

theorem same_fireSearch (s : St) (i : Nat) : Same s (fireSearch s i) := by
  unfold fireSearch
  split
  · exact same_upd _ _ _ rfl
  · exact Same.rfl' s

theorem inv_fireRe {c : Cfg} (hw : WF c) (s : St) (i : Nat) (hi : i < c.n) (h : Inv c s) : Inv c (fireRe c s i) := by
  unfold fireRe
  split
  · exact inv_enableDev hw _ i hi (Inv.of_same (same_upd _ _ _ rfl) h)
  · exact h

theorem inv_fireDev {c : Cfg} (hw : WF c) (s : St) (i : Nat) (hi : i < c.n) (h : Inv c s) : Inv c (fireDev c s i) := by
  unfold fireDev
  split
  · exact Inv.of_same ((same_fireRel _ _ _).trans (same_fireEos _ _)) h
  · exact Inv.of_same (same_fireSearch _ _) (inv_fireRe hw s i hi h)

theorem inv_fireAll {c : Cfg} (hw : WF c) (s : St) (h : Inv c s) : Inv c (fireAll c s) :=
  forDevs_inv (P := Inv c) _ c.n (fun s k hk hs => inv_fireDev hw s k hk hs) c.n (Nat.le_refl _) s h

theorem inv_doOp {c : Cfg} (hw : WF c) (s : St) (op : Op) (h : Inv c s) : Inv c (doOp c s op) := by
  cases op with
  | enable i => simp only [doOp]; split; exact inv_enableDev hw s i (by assumption) h; exact h
  | disable i => simp only [doOp]; split; exact inv_disableDev hw s i (by assumption) h; exact h
  | swFlip i =>
    simp only [doOp]; split
    · split
      · exact Inv.of_same (same_swFlip _ _ _) h
      · exact h
    · exact h
  | swRelease i =>
    simp only [doOp]; split
    · split
      · exact Inv.of_same (same_swRelease _ _ _) h
      · exact h
    · exact h
  | search i => simp only [doOp]; split; exact Inv.of_same (same_searchDev _ _ _) h; exact h
  | fsw i w st => simp only [doOp]; split; exact Inv.of_same (same_fswDev _ _ _ _ _) h; exact h
  | hit i => simp only [doOp]; split; exact inv_hitDev hw s i (by assumption) h; exact h
  | ev e => exact inv_evStep hw s e h
  | advance dt => exact Inv.of_same (s := s) ⟨rfl, rfl, fun _ => rfl⟩ h
  | setting v => exact Inv.of_same (s := s) ⟨rfl, rfl, fun _ => rfl⟩ h

theorem inv_step {c : Cfg} (hw : WF c) (s : St) (op : Op) (h : Inv c s) : Inv c (step c s op) := by
  unfold step
  exact inv_fireAll hw _ (inv_doOp hw _ op (Inv.of_same (s := s) ⟨rfl, rfl, fun _ => rfl⟩ h))

theorem inv_run {c : Cfg} (hw : WF c) (ops : List Op) : ∀ s, Inv c s → Inv c (run c s ops) := by
  induction ops with
  | nil => intro s h; exact h
  | cons op rest ih => intro s h; exact ih _ (inv_step hw s op h)

theorem inv_init (c : Cfg) : Inv c init := by
  refine ⟨?_, ?_, ?_, ?_⟩
  · intro e he; simp [init] at he
  · intro i _ hi; simp [init] at hi
  · simp [init]
  · intro a ha; simp [init] at ha



/-! ## a disabled device stays disabled until something enables it -/

/-- device `i` is disabled and (autofire) has no re-enable delay pending -/
def Off (c : Cfg) (s : St) (i : Nat) : Prop :=
  (s.devs i).enabled = false ∧ ∀ a, (c.dev i).kind = .autofire a → (s.devs i).reDue = none

/-- can this request enable device `i`? -/
def enables (c : Cfg) (i : Nat) : Op → Bool
  | .enable j => j == i
  | .ev e => (c.dev i).enEv.contains e
  | .hit j =>
    match (c.dev j).kind with
    | .autofire a => (match a.fired with | some ev => (c.dev i).enEv.contains ev | none => false)
    | .flipper _ => false
  | _ => false

/-- the device states' `enabled` and `reDue` fields agree -/
def SameRe (s s' : St) : Prop := ∀ j, (s'.devs j).enabled = (s.devs j).enabled ∧ (s'.devs j).reDue = (s.devs j).reDue

theorem SameRe.trans {a b d : St} (h1 : SameRe a b) (h2 : SameRe b d) : SameRe a d :=
  fun j => ⟨(h2 j).1.trans (h1 j).1, (h2 j).2.trans (h1 j).2⟩

theorem Off.of_sameRe {c : Cfg} {s s' : St} {i : Nat} (h : SameRe s s') (ho : Off c s i) : Off c s' i :=
  ⟨by rw [(h i).1]; exact ho.1, fun a ha => by rw [(h i).2]; exact ho.2 a ha⟩

theorem sameRe_upd (s : St) (i : Nat) (d : DSt) (h1 : d.enabled = (s.devs i).enabled) (h2 : d.reDue = (s.devs i).reDue) :
    SameRe s (upd s i d) := by
  intro j
  simp only [upd]
  split
  · rename_i hj; subst hj; exact ⟨h1, h2⟩
  · exact ⟨rfl, rfl⟩

theorem sameRe_devs {s s' : St} (h : s'.devs = s.devs) : SameRe s s' := fun j => by rw [h]; exact ⟨rfl, rfl⟩

theorem sameRe_upd_coilOn (s : St) (i : Nat) (d : DSt) (x : Nat) (h1 : d.enabled = (s.devs i).enabled)
    (h2 : d.reDue = (s.devs i).reDue) : SameRe s (coilOn (upd s i d) x) := (sameRe_upd s i d h1 h2).trans (sameRe_devs rfl)
theorem sameRe_upd_coilOff (s : St) (i : Nat) (d : DSt) (x : Nat) (h1 : d.enabled = (s.devs i).enabled)
    (h2 : d.reDue = (s.devs i).reDue) : SameRe s (coilOff (upd s i d) x) := (sameRe_upd s i d h1 h2).trans (sameRe_devs rfl)
theorem sameRe_upd_coilPulse (s : St) (i : Nat) (d : DSt) (x : Nat) (h1 : d.enabled = (s.devs i).enabled)
    (h2 : d.reDue = (s.devs i).reDue) : SameRe s (coilPulse (upd s i d) x) := (sameRe_upd s i d h1 h2).trans (sameRe_devs rfl)

theorem sameRe_swRelease (s : St) (i : Nat) (f : FCfg) : SameRe s (swRelease s i f) := by
  unfold swRelease
  have h1 : SameRe s (coilOff (upd s i { s.devs i with swFlipped := false }) f.main) :=
    sameRe_upd_coilOff _ _ _ _ rfl rfl
  cases f.hold with
  | none => exact h1
  | some h => exact h1.trans (sameRe_devs rfl)

theorem sameRe_swFlip (s : St) (i : Nat) (f : FCfg) : SameRe s (swFlip s i f) := by
  unfold swFlip
  split
  · have h1 := sameRe_upd s i { s.devs i with swFlipped := true } rfl rfl
    cases f.hold with
    | none => exact h1.trans (sameRe_devs rfl)
    | some h => exact h1.trans (sameRe_devs rfl)
  · exact sameRe_devs rfl

theorem sameRe_fswDev (c : Cfg) (s : St) (i w : Nat) (st : Bool) : SameRe s (fswDev c s i w st) := by
  unfold fswDev
  split
  · exact sameRe_devs rfl
  · rename_i f _
    simp only
    split
    · split
      · exact sameRe_devs rfl
      · split
        · exact sameRe_upd _ _ _ rfl rfl
        · split
          · exact sameRe_upd _ _ _ rfl rfl
          · exact sameRe_upd_coilOff _ _ _ _ rfl rfl
    · split
      · exact sameRe_devs rfl
      · split
        · exact sameRe_upd _ _ _ rfl rfl
        · split
          · split <;> exact sameRe_upd _ _ _ rfl rfl
          · split
            · cases f.hold with
              | none => exact sameRe_upd_coilOn _ _ _ _ rfl rfl
              | some h => exact sameRe_upd_coilPulse _ _ _ _ rfl rfl
            · exact sameRe_upd _ _ _ rfl rfl

theorem sameRe_searchDev (c : Cfg) (s : St) (i : Nat) : SameRe s (searchDev c s i) := by
  unfold searchDev
  split
  · rename_i f _
    exact (sameRe_swFlip s i f).trans (sameRe_upd _ _ _ rfl rfl)
  · exact sameRe_upd_coilPulse _ _ _ _ rfl rfl

theorem sameRe_upd_swRelease (s : St) (i : Nat) (d : DSt) (f : FCfg) (h1 : d.enabled = (s.devs i).enabled)
    (h2 : d.reDue = (s.devs i).reDue) : SameRe s (swRelease (upd s i d) i f) :=
  (sameRe_upd s i d h1 h2).trans (sameRe_swRelease _ _ _)

theorem sameRe_fireRel (s : St) (i : Nat) (f : FCfg) : SameRe s (fireRel s i f) := by
  unfold fireRel
  split
  · exact sameRe_upd_swRelease _ _ _ _ rfl rfl
  · exact sameRe_devs rfl

theorem sameRe_fireEos (s : St) (i : Nat) : SameRe s (fireEos s i) := by
  unfold fireEos
  split
  · exact sameRe_upd _ _ _ rfl rfl
  · exact sameRe_devs rfl

theorem sameRe_fireSearch (s : St) (i : Nat) : SameRe s (fireSearch s i) := by
  unfold fireSearch
  split
  · exact sameRe_upd _ _ _ rfl rfl
  · exact sameRe_devs rfl

theorem enableDev_other (c : Cfg) (s : St) (i j : Nat) (h : i ≠ j) : (enableDev c s j).devs i = s.devs i := by
  unfold enableDev
  simp only
  split
  · rfl
  · split
    · cases (c.dev j).kind <;> simp [upd, installRules, h]
    · rfl

theorem disableDev_other (c : Cfg) (s : St) (i j : Nat) (h : i ≠ j) : (disableDev c s j).devs i = s.devs i := by
  unfold disableDev
  simp only
  cases (c.dev j).kind with
  | flipper f =>
    simp only
    split
    · split <;> split <;> simp [upd, coilOff, swRelease, clearRules, h] <;> (try cases f.hold <;> simp [coilOff, h])
    · rfl
  | autofire a =>
    simp only
    split <;> simp [upd, clearRules, h]

theorem off_of_devs {c : Cfg} {s s' : St} {i : Nat} (h : s'.devs i = s.devs i) (ho : Off c s i) : Off c s' i := by
  unfold Off at *
  rw [h]; exact ho

/-- `disable()` leaves its device disabled with no re-enable pending -/
theorem off_disableDev_self (c : Cfg) (s : St) (i : Nat) : Off c (disableDev c s i) i := by
  unfold disableDev Off
  simp only
  cases hk : (c.dev i).kind with
  | flipper f =>
    simp only
    split
    · exact ⟨by rw [upd_devs_same], fun a ha => by cases ha⟩
    · rename_i hd
      exact ⟨by simpa using hd, fun a ha => by cases ha⟩
  | autofire a =>
    simp only
    split
    · exact ⟨by rw [upd_devs_same], fun _ _ => by rw [upd_devs_same]⟩
    · rename_i hd
      exact ⟨by rw [upd_devs_same]; simpa using hd, fun _ _ => by rw [upd_devs_same]⟩

theorem off_disableDev (c : Cfg) (s : St) (i j : Nat) (ho : Off c s i) : Off c (disableDev c s j) i := by
  by_cases h : i = j
  · subst h; exact off_disableDev_self c s i
  · exact off_of_devs (disableDev_other c s i j h) ho

theorem forDevs_id (f : St → Nat → St) (n : Nat) (s : St) (h : ∀ s k, k < n → f s k = s) :
    ∀ m, m ≤ n → forDevs f m s = s := by
  intro m
  induction m with
  | zero => intro _; rfl
  | succ k ih =>
    intro hk
    simp only [forDevs]
    rw [ih (by omega)]
    exact h s k (by omega)

theorem off_evStep (c : Cfg) (s : St) (e i : Nat) (hne : (c.dev i).enEv.contains e = false) (ho : Off c s i) :
    Off c (evStep c s e) i := by
  unfold evStep
  simp only
  apply forDevs_inv (P := fun s => Off c s i) _ c.n _ c.n (Nat.le_refl _)
  · apply forDevs_inv (P := fun s => Off c s i) _ c.n _ c.n (Nat.le_refl _) s ho
    intro s k _ hs
    split
    · exact off_disableDev c s i k hs
    · exact hs
  · intro s k _ hs
    split
    · rename_i hk
      have hik : i ≠ k := by
        intro h; subst h; rw [hne] at hk; exact Bool.noConfusion hk
      exact off_of_devs (enableDev_other c s i k hik) hs
    · exact hs

theorem off_hitCore (c : Cfg) (s : St) (i j : Nat) (a : ACfg) (h : i ≠ j) (ho : Off c s i) : Off c (hitCore c s j a) i := by
  apply off_of_devs _ ho
  unfold hitCore
  simp only
  split
  · split
    · rw [upd_devs_other _ _ _ _ h, disableDev_other c _ i j h, upd_devs_other _ _ _ _ h]
    · rw [upd_devs_other _ _ _ _ h]
  · rfl

theorem off_hitDev (c : Cfg) (s : St) (i j : Nat) (hq : enables c i (.hit j) = false) (ho : Off c s i) :
    Off c (hitDev c s j) i := by
  unfold hitDev
  simp only [enables] at hq
  split
  · exact ho
  · rename_i a hk
    rw [hk] at hq
    simp only at hq ⊢
    split
    · exact ho
    · rename_i hen
      have hij : i ≠ j := by
        intro h; subst h; rw [ho.1] at hen; simp at hen
      have h1 := off_hitCore c s i j a hij ho
      cases hf : a.fired with
      | none => simp only; exact h1
      | some ev =>
        rw [hf] at hq
        simp only at hq ⊢
        split
        · exact off_evStep c _ ev i hq h1
        · exact h1

theorem off_fireDev (c : Cfg) (s : St) (i k : Nat) (ho : Off c s i) : Off c (fireDev c s k) i := by
  unfold fireDev
  split
  · exact Off.of_sameRe ((sameRe_fireRel _ _ _).trans (sameRe_fireEos _ _)) ho
  · rename_i a hk
    apply Off.of_sameRe (sameRe_fireSearch _ _)
    unfold fireRe
    split
    · rename_i hdue
      by_cases h : i = k
      · subst h
        rw [ho.2 a hk] at hdue
        simp [isDue] at hdue
      · exact off_of_devs (by rw [enableDev_other c _ i k h, upd_devs_other _ _ _ _ h]) ho
    · exact ho

theorem off_fireAll (c : Cfg) (s : St) (i : Nat) (ho : Off c s i) : Off c (fireAll c s) i :=
  forDevs_inv (P := fun s => Off c s i) _ c.n (fun s k _ hs => off_fireDev c s i k hs) c.n (Nat.le_refl _) s ho

theorem off_doOp (c : Cfg) (s : St) (i : Nat) (op : Op) (hq : enables c i op = false) (ho : Off c s i) :
    Off c (doOp c s op) i := by
  cases op with
  | enable j =>
    simp only [doOp]; split
    · have hij : i ≠ j := by
        intro h; subst h; simp [enables] at hq
      exact off_of_devs (enableDev_other c s i j hij) ho
    · exact ho
  | disable j => simp only [doOp]; split; exact off_disableDev c s i j ho; exact ho
  | swFlip j =>
    simp only [doOp]; split
    · split
      · exact Off.of_sameRe (sameRe_swFlip _ _ _) ho
      · exact ho
    · exact ho
  | swRelease j =>
    simp only [doOp]; split
    · split
      · exact Off.of_sameRe (sameRe_swRelease _ _ _) ho
      · exact ho
    · exact ho
  | search j => simp only [doOp]; split; exact Off.of_sameRe (sameRe_searchDev _ _ _) ho; exact ho
  | fsw j w st => simp only [doOp]; split; exact Off.of_sameRe (sameRe_fswDev _ _ _ _ _) ho; exact ho
  | hit j => simp only [doOp]; split; exact off_hitDev c s i j hq ho; exact ho
  | ev e => exact off_evStep c s e i (by simpa [enables] using hq) ho
  | advance dt => exact off_of_devs rfl ho
  | setting v => exact off_of_devs rfl ho

theorem off_step (c : Cfg) (s : St) (i : Nat) (op : Op) (hq : enables c i op = false) (ho : Off c s i) :
    Off c (step c s op) i := by
  unfold step
  exact off_fireAll c _ i (off_doOp c _ i op hq (off_of_devs rfl ho))

theorem off_run (c : Cfg) (i : Nat) (ops : List Op) (hq : ∀ op ∈ ops, enables c i op = false) :
    ∀ s, Off c s i → Off c (run c s ops) i := by
  induction ops with
  | nil => intro s h; exact h
  | cons op rest ih =>
    intro s h
    exact ih (fun o ho => hq o (List.mem_cons_of_mem _ ho)) _ (off_step c s i op (hq op (List.mem_cons_self ..)) h)

/-- an event that every device lists in its disable events and none in its enable events leaves every device off -/
theorem off_all_evStep (c : Cfg) (s : St) (e : Nat) (hd : ∀ i, i < c.n → (c.dev i).disEv.contains e = true)
    (hn : ∀ i, i < c.n → (c.dev i).enEv.contains e = false) : ∀ i, i < c.n → Off c (evStep c s e) i := by
  intro i hi
  unfold evStep
  simp only
  rw [forDevs_id _ c.n _ (fun s k hk => by simp only [hn k hk]; rfl) c.n (Nat.le_refl _)]
  have key : ∀ m, m ≤ c.n → ∀ j, j < m →
      Off c (forDevs (fun s i => if (c.dev i).disEv.contains e then disableDev c s i else s) m s) j := by
    intro m
    induction m with
    | zero => intro _ j hj; omega
    | succ k ih =>
      intro hk j hj
      simp only [forDevs, hd k (by omega), if_true]
      by_cases hjk : j = k
      · subst hjk; exact off_disableDev_self c _ j
      · exact off_disableDev c _ j k (ih (by omega) j (by omega))
  exact key c.n (Nat.le_refl _) i hi

end MpfVerif.Rules
