import MpfVerif.Model.RulesGen
import MpfVerif.Lemmas.RulesCoils
/-!
# C10: the hand model's software EOS repulse manager does what the translated methods of `SoftwareEosRepulseManager` do

`genMgr f ds prog` = the log (attribute writes + collaborator calls) the generated program leaves when run on the manager
attributes of device state `ds`; `applyMgr` folds its meaning over the model state.  One theorem per handler: the result is the
hand model's transition (`fswDev`, `fireEos`, the `stop()` part of `disableDev`), the switch bookkeeping (`actOn`, `eosOn`,
`eosSince`, the switch controller's timed handler `eosDue`) being applied first.
-/
namespace MpfVerif.RulesGen
open MpfVerif.Py MpfVerif.Rules MpfVerif.Gen.RulesOps

theorem upd_upd (s : Rules.St) (i : Nat) (a b : DSt) : upd (upd s i a) i b = upd s i b := by
  simp only [upd]
  congr 1
  funext j
  split <;> rfl

@[simp] theorem upd_self (s : Rules.St) (i : Nat) (a : DSt) : (upd s i a).devs i = a := by simp [upd]

macro "mgr_simp" : tactic => `(tactic|
  simp [genMgr, callS, execSL, execSS, evalS, evalE, evalC, evalSArgs, argLocals, mgrStore, mgrCtx, SCtx.at, pb, PyVal.truthy,
        applyMgr, applyMgrEff, Eff.arg, List.lookup, upd_upd, pure, Except.pure, bind, Except.bind,
        mgr_stop, mgr_button_active, mgr_button_inactive, mgr_eos_closed_long_enough, mgr_repulse_on_eos_open])

theorem eos_closed_gen (f : FCfg) (i : Nat) (s : Rules.St) :
    applyMgr f i s (genMgr f (s.devs i) mgr_eos_closed_long_enough) = some (upd s i { s.devs i with eosLong := true }) := by
  mgr_simp

theorem button_active_gen (f : FCfg) (i : Nat) (s : Rules.St) :
    applyMgr f i s (genMgr f (s.devs i) mgr_button_active) = some (upd s i { s.devs i with button := true }) := by
  mgr_simp

theorem button_inactive_gen (f : FCfg) (i : Nat) (s : Rules.St) :
    applyMgr f i s (genMgr f (s.devs i) mgr_button_inactive) =
      some (coilOff (upd s i { s.devs i with button := false, repOn := false }) f.main) := by
  mgr_simp

end MpfVerif.RulesGen

namespace MpfVerif.RulesGen
open MpfVerif.Py MpfVerif.Rules MpfVerif.Gen.RulesOps

theorem eos_closed_long_enough_refines (s : Rules.St) (i : Nat) (f : FCfg) (hdue : isDue (s.devs i).eosDue s.now = true) :
    applyMgr f i (upd s i { s.devs i with eosDue := none }) (genMgr f (s.devs i) mgr_eos_closed_long_enough) =
      some (fireEos s i) := by
  unfold fireEos
  simp only [hdue, if_true]
  mgr_simp

theorem button_active_refines (c : Cfg) (s : Rules.St) (i : Nat) (f : FCfg) (hk : (c.dev i).kind = .flipper f)
    (hen : (s.devs i).enabled = true) (hm : hasManager f = true) (hact : (s.devs i).actOn = false) :
    applyMgr f i (upd s i { s.devs i with actOn := true }) (genMgr f (s.devs i) mgr_button_active) =
      some (fswDev c s i 0 true) := by
  unfold fswDev
  simp only [hk, hen, hm, hact]
  mgr_simp

theorem button_inactive_refines (c : Cfg) (s : Rules.St) (i : Nat) (f : FCfg) (hk : (c.dev i).kind = .flipper f)
    (hen : (s.devs i).enabled = true) (hm : hasManager f = true) (hact : (s.devs i).actOn = true) :
    applyMgr f i (upd s i { s.devs i with actOn := false }) (genMgr f (s.devs i) mgr_button_inactive) =
      some (fswDev c s i 0 false) := by
  unfold fswDev
  simp only [hk, hen, hm, hact]
  mgr_simp

theorem repulse_on_eos_open_refines (c : Cfg) (s : Rules.St) (i : Nat) (f : FCfg) (hk : (c.dev i).kind = .flipper f)
    (hen : (s.devs i).enabled = true) (hm : hasManager f = true) (heos : (s.devs i).eosOn = true) :
    applyMgr f i (upd s i { s.devs i with eosOn := false, eosSince := s.now, eosDue := none })
        (genMgr f (s.devs i) mgr_repulse_on_eos_open) =
      some (fswDev c s i 1 false) := by
  unfold fswDev
  simp only [hk, hen, hm, heos]
  cases hb : (s.devs i).button <;> cases hl : (s.devs i).eosLong <;> cases hh : f.hold <;> mgr_simp <;> simp_all [upd, coilOn, coilPulse] <;> (try rfl) <;> (try mgr_simp) <;> (try (simp only [upd, coilOn, coilPulse]; congr 1; funext j; by_cases hj : j = i <;> simp [hj]))

theorem stop_refines (s1 : Rules.St) (i : Nat) (f : FCfg) :
    applyMgr f i s1 (genMgr f (s1.devs i) mgr_stop) =
      some (if (s1.devs i).repOn then coilOff (upd s1 i { s1.devs i with repOn := false }) f.main else s1) := by
  cases hr : (s1.devs i).repOn <;> mgr_simp <;> simp [hr] <;> mgr_simp

/-! ## `AutofireCoil.enable` / `disable` as translated from the source do what `enableDev` / `disableDev` do

`enable`: the selection of recycle (`coil_overwrite` first, else the coil's default with None read as True), of debounce
(`switch_overwrite` first, else the switch's own, "normal" only), the choice between the plain and the delayed rule setter and the
arguments they are called with give exactly the row `autofireEntry` and the PSU handler of `specsOf`; `_enabled` is set last.
`disable`: the re-enable delay is removed even when the device is disabled; the rule is cleared only when enabled. -/

macro "af_simp" : tactic => `(tactic|
  simp [genAf, callS, execSL, execSS, evalS, evalE, evalC, evalSArgs, argLocals, afStore, afCtx, SCtx.at, pb, PyVal.truthy,
        applyAf, applyAfEff, Eff.arg, List.lookup, upd_upd, pure, Except.pure, bind, Except.bind, pyCmp, PyVal.num, cmpOp,
        optB, optN, debS, af_enable, af_disable, upd, clearRules, *])

theorem af_disable_refines (c : Cfg) (s : Rules.St) (i : Nat) (a : ACfg) (hk : (c.dev i).kind = .autofire a) :
    applyAf (c.dev i) a i s (genAf a (s.devs i) af_disable) = some (disableDev c s i) := by
  unfold disableDev
  simp only [hk]
  cases he : (s.devs i).enabled <;> af_simp

@[simp] theorem vNatD_optN (d : Nat) (x : Option Nat) : vNatD d (optN x) = x.getD d := by
  cases x <;> simp [vNatD, optN]

@[simp] theorem vNatD_succ (d n : Nat) : vNatD d (.int ((n : Int) + 1)) = n + 1 := by
  simp only [vNatD]; omega
@[simp] theorem succ_ne_zero_int (n : Nat) : (((n : Int) + 1) != 0) = true := by
  simp only [bne_iff_ne, ne_eq]; omega

macro "afe_simp" : tactic => `(tactic|
  simp [genAf, callS, execSL, execSS, evalS, evalE, evalC, evalSArgs, argLocals, afStore, afCtx, SCtx.at, pb, PyVal.truthy,
        applyAf, applyAfEff, Eff.arg, List.lookup, pure, Except.pure, bind, Except.bind, pyCmp, PyVal.num, cmpOp,
        optB, debS, af_enable, upd, installRules, entriesOf, auxOf, specsOf, concatMap, autofireEntry, rowOfCall, auxOfCall,
        b2n, *])

theorem af_enable_refines (c : Cfg) (s : Rules.St) (i : Nat) (a : ACfg) (hk : (c.dev i).kind = .autofire a)
    (hok : installable (c.dev i) = true) :
    applyAf (c.dev i) a i s (genAf a (s.devs i) af_enable) = some (enableDev c s i) := by
  unfold enableDev
  simp only [hk, hok]
  cases he : (s.devs i).enabled
  · obtain ⟨sw, coil, reverse, nc, swDeb, owDeb, owRecycle, defRecycle, owPulse, defPulse, owPower, delay, ok, watch, maxHits, disableMs, fired⟩ := a
    rcases owRecycle with _ | r <;> rcases defRecycle with _ | _ | _ <;> rcases owDeb with _ | _ | _ <;> cases swDeb <;> cases delay <;> afe_simp
  · af_simp


end MpfVerif.RulesGen
