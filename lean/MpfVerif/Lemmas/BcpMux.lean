import MpfVerif.Model.BcpMux
import MpfVerif.Lemmas.BcpReader
namespace MpfVerif.Bcp

theorem framesOf_append (c : Nat) (a b : List (Nat × Frame)) : framesOf c (a ++ b) = framesOf c a ++ framesOf c b := by
  induction a with
  | nil => rfl
  | cons x r ih =>
    obtain ⟨k, f⟩ := x
    by_cases h : k = c <;> simp [framesOf, h, ih]

theorem framesOf_tag_same (c : Nat) (fs : List Frame) : framesOf c (fs.map (fun f => (c, f))) = fs := by
  induction fs with
  | nil => rfl
  | cons f r ih => simp [framesOf, ih]

theorem framesOf_tag_other (c k : Nat) (h : k ≠ c) (fs : List Frame) : framesOf c (fs.map (fun f => (k, f))) = [] := by
  induction fs with
  | nil => rfl
  | cons f r ih => simp [framesOf, h, ih]

/-- what client `c` gets dispatched, and the state of its reader, depend only on `c`'s own byte sequence -/
theorem muxRun_client (m : Mux) (sched : List (Nat × Bytes)) (c : Nat) :
    framesOf c (muxRun m sched).2 = (feed (m c) (bytesOf c sched)).2 ∧
      (muxRun m sched).1 c = (feed (m c) (bytesOf c sched)).1 := by
  induction sched generalizing m with
  | nil => simp [muxRun, bytesOf, framesOf, feed]
  | cons x r ih =>
    obtain ⟨k, chunk⟩ := x
    have := ih (muxFeed m k chunk).1
    by_cases h : k = c
    · subst h
      simp only [muxRun, bytesOf, if_true, framesOf_append]
      rw [feed_append]
      simp only [muxFeed, if_true] at this ⊢
      rw [this.1, this.2, framesOf_tag_same]
      exact ⟨rfl, rfl⟩
    · have hc : (muxFeed m k chunk).1 c = m c := by
        have : ¬ c = k := fun e => h e.symm
        simp [muxFeed, this]
      simp only [muxRun, bytesOf, h, if_false, framesOf_append]
      rw [hc] at this
      simp only [muxFeed] at this ⊢
      rw [framesOf_tag_other c k h]
      simpa using this

theorem framesOf_dispatch (known : Bytes → Bool) (c : Nat) (log : List (Nat × Frame)) :
    framesOf c (dispatch known log) = (framesOf c log).filter (fun f => known (splitFirst 63 f.1).1) := by
  induction log with
  | nil => rfl
  | cons x r ih =>
    obtain ⟨k, f⟩ := x
    unfold dispatch at ih ⊢
    by_cases hk : known (splitFirst 63 f.1).1 = true <;> by_cases h : k = c <;>
      simp [List.filter, framesOf, hk, h, ih]

end MpfVerif.Bcp
