import MpfVerif.Model.Light
/-! Helper lemmas for C09 (light stack). -/
namespace MpfVerif.Light

/-- strict order on distinct keys: the invariant of `Light.stack` -/
def Ord (a b : Entry) : Prop := abv a.prio a.key b.prio b.key ∧ a.key ≠ b.key

def SortedU (s : List Entry) : Prop := s.Pairwise Ord

theorem abv_trans {p k p' k' p'' k'' : Nat} (h1 : abv p k p' k') (h2 : abv p' k' p'' k'') : abv p k p'' k'' := by
  unfold abv at *; omega

theorem abv_total {p k p' k' : Nat} (h : k ≠ k') : abv p k p' k' ∨ abv p' k' p k := by
  unfold abv; omega

theorem abv_asymm {p k p' k' : Nat} (h : abv p k p' k') : ¬ abv p' k' p k := by
  unfold abv at *; omega

theorem abv_irrefl (p k : Nat) : ¬ abv p k p k := by unfold abv; omega

theorem mem_insertE (e y : Entry) (s : List Entry) : y ∈ insertE e s ↔ y = e ∨ y ∈ s := by
  induction s with
  | nil => simp [insertE]
  | cons x r ih =>
    unfold insertE
    split
    · simp
    · simp only [List.mem_cons, ih]
      constructor
      · rintro (h | h | h) <;> simp [h]
      · rintro (h | h | h) <;> simp [h]

theorem insertE_sorted (e : Entry) (s : List Entry) (hs : SortedU s) (hk : ∀ x ∈ s, x.key ≠ e.key) :
    SortedU (insertE e s) := by
  induction s with
  | nil => simp [insertE, SortedU]
  | cons x r ih =>
    unfold SortedU at hs ih ⊢
    rw [List.pairwise_cons] at hs
    unfold insertE
    split
    · rename_i h
      rw [List.pairwise_cons]
      refine ⟨?_, List.pairwise_cons.mpr hs⟩
      intro y hy
      rcases List.mem_cons.mp hy with rfl | hy
      · exact ⟨h, fun hh => hk y List.mem_cons_self hh.symm⟩
      · exact ⟨abv_trans h (hs.1 y hy).1, fun hh => hk y (List.mem_cons_of_mem _ hy) hh.symm⟩
    · rename_i h
      rw [List.pairwise_cons]
      refine ⟨?_, ih hs.2 (fun y hy => hk y (List.mem_cons_of_mem _ hy))⟩
      intro y hy
      rcases (mem_insertE e y r).mp hy with rfl | hy
      · have hne := hk x List.mem_cons_self
        rcases abv_total (p := x.prio) (p' := y.prio) hne with h' | h'
        · exact ⟨h', hne⟩
        · exact absurd h' h
      · exact hs.1 y hy

theorem removeKey_sorted (k : Nat) (s : List Entry) (hs : SortedU s) : SortedU (removeKey k s) :=
  List.Pairwise.filter _ hs

theorem removeKey_keys (k : Nat) (s : List Entry) : ∀ x ∈ removeKey k s, x.key ≠ k := by
  intro x hx
  simpa [removeKey] using (List.mem_filter.mp hx).2

theorem schedule_stack (s : LSt) : (schedule s).1.stack = s.stack := by
  unfold schedule
  cases s.last with
  | none => rfl
  | some l =>
    simp only
    split
    · rfl
    · split <;> rfl

theorem schedule_now (s : LSt) : (schedule s).1.now = s.now := by
  unfold schedule
  cases s.last with
  | none => rfl
  | some l =>
    simp only
    split
    · rfl
    · split <;> rfl

theorem addStack_sorted (now : Nat) (c : RGB) (fade p k st : Nat) (s : List Entry) (hs : SortedU s) :
    SortedU (addStack now c fade p k st s) := by
  unfold addStack
  split
  · exact hs
  · apply insertE_sorted _ _ (removeKey_sorted k s hs)
    intro x hx
    have := removeKey_keys k s x hx
    split <;> exact this

theorem stepColor_stack (s : LSt) (c : RGB) (fade p k st : Nat) :
    (stepColor s c fade p k st).1.stack = addStack s.now c fade p k st s.stack := by
  unfold stepColor
  split
  · rw [schedule_stack]
  · rfl

theorem stepRemove_sorted (s : LSt) (k fade : Nat) (hs : SortedU s.stack) : SortedU (stepRemove s k fade).1.stack := by
  unfold stepRemove
  split
  · exact hs
  · exact hs
  · rename_i ch e tl _
    have h1 : SortedU (removeKey k s.stack) := removeKey_sorted k _ hs
    have h2 : SortedU (insertE ⟨e.prio, k, s.now, getColor s.now (e :: tl),
        s.now + (if e.destC.isNone then 0 else fade), none⟩ (removeKey k s.stack)) :=
      insertE_sorted _ _ h1 (removeKey_keys k s.stack)
    by_cases hf : (if e.destC.isNone = true then 0 else fade) = 0
    · simp only [hf, if_true]
      split
      · rw [schedule_stack]; exact h1
      · exact h1
    · simp only [hf, if_false]
      split
      · rw [schedule_stack]; exact h2
      · exact h2

theorem stepFire_sorted (s : LSt) (k : Nat) (hs : SortedU s.stack) :
    SortedU ((stepFire s k).getD (s, [])).1.stack := by
  unfold stepFire
  split
  · simp only
    split
    · exact hs
    · have h1 : SortedU (s.stack.filter (fun e => decide (e.key ≠ k) || e.destC.isSome)) := List.Pairwise.filter _ hs
      split
      · simp only [Option.getD_some]; rw [schedule_stack]; exact h1
      · exact h1
  · exact hs

theorem step_sorted (s : LSt) (o : Op) (hs : SortedU s.stack) : SortedU (step s o).1.stack := by
  cases o with
  | adv t => exact hs
  | color c fade p k st =>
    show SortedU (stepColor s c fade p k st).1.stack
    rw [stepColor_stack]; exact addStack_sorted _ _ _ _ _ _ _ hs
  | remove k fade => exact stepRemove_sorted s k fade hs
  | clear =>
    show SortedU (schedule { s with stack := [] }).1.stack
    rw [schedule_stack]; exact List.Pairwise.nil
  | fire k => exact stepFire_sorted s k hs

/-- induction principle over all operation sequences -/
theorem run_induction (P : LSt → Prop) (hstep : ∀ s o, P s → P (step s o).1) :
    ∀ (ops : List Op) (s : LSt), P s → P (run s ops) := by
  intro ops
  induction ops with
  | nil => intro s h; exact h
  | cons o r ih => intro s h; exact ih _ (hstep s o h)

/-! ### blend -/

theorem blend1_between (s e k n : Nat) (hk : k ≤ n) : min s e ≤ blend1 s e k n ∧ blend1 s e k n ≤ max s e := by
  unfold blend1
  by_cases hn : n = 0
  · subst hn; simp; omega
  · have hpos : 0 < n := Nat.pos_of_ne_zero hn
    split
    · rename_i h
      have : (e - s) * k / n ≤ e - s := Nat.div_le_of_le_mul (by rw [Nat.mul_comm]; exact Nat.mul_le_mul_right _ hk)
      generalize (e - s) * k / n = q at this ⊢
      omega
    · rename_i h
      have : (s - e) * k / n ≤ s - e := Nat.div_le_of_le_mul (by rw [Nat.mul_comm]; exact Nat.mul_le_mul_right _ hk)
      generalize (s - e) * k / n = q at this ⊢
      omega

theorem blend1_zero (s e n : Nat) : blend1 s e 0 n = s := by unfold blend1; simp

theorem blend1_full (s e n : Nat) (hn : 0 < n) : blend1 s e n n = e := by
  unfold blend1
  split
  · rw [Nat.mul_div_cancel _ hn]; omega
  · rw [Nat.mul_div_cancel _ hn]; omega

/-! ### removing keys -/

theorem filter_insertE_key (e : Entry) (s : List Entry) (k : Nat) (he : e.key = k) :
    removeKey k (insertE e s) = removeKey k s := by
  induction s with
  | nil => simp [insertE, removeKey, he]
  | cons x r ih =>
    unfold insertE
    split
    · simp [removeKey, he]
    · unfold removeKey at ih ⊢
      simp only [List.filter_cons, ih]

theorem removeKey_idem (k : Nat) (s : List Entry) : removeKey k (removeKey k s) = removeKey k s := by
  simp [removeKey]

theorem removeKey_absent (k : Nat) (s : List Entry) (h : ∀ x ∈ s, x.key ≠ k) : removeKey k s = s := by
  unfold removeKey
  rw [List.filter_eq_self]
  intro x hx
  simpa using h x hx

theorem scanKey_none (k : Nat) (s : List Entry) (ch : Bool) (h : scanKey k s ch = none) : ∀ x ∈ s, x.key ≠ k := by
  induction s generalizing ch with
  | nil => simp
  | cons e r ih =>
    unfold scanKey at h
    split at h
    · simp at h
    · rename_i hne
      intro x hx
      rcases List.mem_cons.mp hx with rfl | hx
      · exact hne
      · exact ih _ h x hx

/-- `remove_from_stack_by_key(key, fade 0)` leaves exactly the stack without the key -/
theorem stepRemove_zero_stack (s : LSt) (k : Nat) : (stepRemove s k 0).1.stack = removeKey k s.stack := by
  unfold stepRemove
  split
  · rename_i h
    exact (removeKey_absent k _ (scanKey_none k _ _ h)).symm
  · rename_i h
    -- scanKey never answers an empty tail
    exfalso
    have : ∀ (l : List Entry) (ch : Bool) (c : Bool), scanKey k l ch ≠ some (c, []) := by
      intro l
      induction l with
      | nil => intro ch c; simp [scanKey]
      | cons e r ih =>
        intro ch c
        unfold scanKey
        split
        · simp
        · exact ih _ c
    exact this _ _ _ h
  · simp only [ite_self, if_true]
    split
    · rw [schedule_stack]
    · rfl

theorem addStack_removeKey (now : Nat) (c : RGB) (fade p k st : Nat) (s : List Entry) :
    removeKey k (addStack now c fade p k st s) = removeKey k s := by
  unfold addStack
  split
  · rfl
  · rw [filter_insertE_key _ _ k (by split <;> rfl), removeKey_idem]

/-! ### the colour below -/

theorem dropWhile_eq_filter_sorted (p k : Nat) (s : List Entry) (hs : SortedU s) :
    s.dropWhile (fun e => decide (abv e.prio e.key p k)) = s.filter (fun e => !decide (abv e.prio e.key p k)) := by
  induction s with
  | nil => rfl
  | cons x r ih =>
    unfold SortedU at hs ih
    rw [List.pairwise_cons] at hs
    by_cases h : abv x.prio x.key p k
    · simp only [List.dropWhile_cons, h, decide_true, if_true, List.filter_cons, Bool.not_true, Bool.false_eq_true, if_false]
      exact ih hs.2
    · simp only [List.dropWhile_cons, h, decide_false, Bool.false_eq_true, if_false, List.filter_cons, Bool.not_false, if_true]
      congr 1
      symm
      rw [List.filter_eq_self]
      intro y hy
      have := (hs.1 y hy).1
      simp only [Bool.not_eq_eq_eq_not, Bool.not_true, decide_eq_false_iff_not]
      intro hy2
      exact h (abv_trans this hy2)

/-! ### software fade channel -/

/-- the channel invariant: no live task, or exactly one, which is `self.task` and carries the latest command -/
def ChanOK (c : Chan) : Prop :=
  (∀ t ∈ c.tasks, t.id < c.nextId) ∧
  (c.tasks = [] ∨ ∃ t, c.tasks = [t] ∧ c.cur = some t.id ∧
    c.cmd = some ⟨t.sb, t.st, t.tb, some t.tt⟩)

theorem setFade_ok (c : Chan) (now : Nat) (m : Cmd) (h : ChanOK c) : ChanOK (c.setFade now m).1 := by
  obtain ⟨hid, h⟩ := h
  have hempty : c.cancelled = [] := by
    unfold Chan.cancelled
    rcases h with h | ⟨t, ht, hc, _⟩
    · rw [h]; cases c.cur <;> rfl
    · rw [ht, hc]; simp
  unfold Chan.setFade
  rw [hempty]
  cases hm : m.tt with
  | none => exact ⟨by simp, Or.inl rfl⟩
  | some T =>
    simp only
    split
    · refine ⟨by simp, Or.inr ⟨⟨c.nextId, m.sb, m.st, m.tb, T, now⟩, by simp, rfl, ?_⟩⟩
      simp only [← hm]
    · exact ⟨by simp, Or.inl rfl⟩

theorem firstDue_mem (now : Nat) (l : List Task) (t : Task) (h : firstDue now l = some t) : t ∈ l := by
  induction l with
  | nil => simp [firstDue] at h
  | cons x r ih =>
    unfold firstDue at h
    split at h
    · simp only [Option.some.injEq] at h; subst h; exact List.mem_cons_self
    · exact List.mem_cons_of_mem _ (ih h)

theorem stepTask_ok (c : Chan) (now iv : Nat) (r : Chan × Nat × Nat × Bool) (h : ChanOK c)
    (hr : c.stepTask now iv = some r) : ChanOK r.1 := by
  obtain ⟨hid, h⟩ := h
  unfold Chan.stepTask at hr
  split at hr
  · simp at hr
  · rename_i t hfd
    have hmem := firstDue_mem _ _ _ hfd
    rcases h with h | ⟨t0, ht0, hc, hcmd⟩
    · rw [h] at hmem; simp at hmem
    · rw [ht0] at hmem
      simp only [List.mem_singleton] at hmem
      subst hmem
      split at hr
      · simp only [Option.some.injEq] at hr
        subst hr
        refine ⟨?_, Or.inr ⟨{ t with due := now + iv }, ?_, hc, hcmd⟩⟩
        · intro x hx
          simp only [ht0, List.map_cons, List.map_nil, if_true, List.mem_singleton] at hx
          subst hx
          exact hid t (by rw [ht0]; exact List.mem_cons_self)
        · simp [ht0]
      · simp only [Option.some.injEq] at hr
        subst hr
        refine ⟨?_, Or.inl ?_⟩
        · intro x hx
          simp [ht0] at hx
        · simp [ht0]



/-- operations on one software-faded channel: a `set_fade` command at `now`, or the loop resuming a stepping task -/
inductive COp
  | set (now : Nat) (m : Cmd)
  | tick (now iv : Nat)

def cstep (c : Chan) : COp → Chan
  | .set now m => (c.setFade now m).1
  | .tick now iv => match c.stepTask now iv with
    | some r => r.1
    | none => c

def crun (c : Chan) : List COp → Chan
  | [] => c
  | o :: r => crun (cstep c o) r

/-- with no live task the last commanded brightness is the latest command's target -/
def ChanQ (c : Chan) : Prop := c.tasks = [] → ∀ m, c.cmd = some m → c.lastB = (m.tb, 255)

theorem setFade_q (c : Chan) (now : Nat) (m : Cmd) : ChanQ (c.setFade now m).1 := by
  unfold Chan.setFade ChanQ
  cases hm : m.tt with
  | none => simp only; intro _ m' h; simp only [Option.some.injEq] at h; subst h; rfl
  | some T =>
    simp only
    split
    · intro h; simp at h
    · intro _ m' h; simp only [Option.some.injEq] at h; subst h; rfl

theorem stepTask_q (c : Chan) (now iv : Nat) (r : Chan × Nat × Nat × Bool) (h : ChanOK c)
    (hr : c.stepTask now iv = some r) : ChanQ r.1 := by
  obtain ⟨_, h⟩ := h
  unfold Chan.stepTask at hr
  split at hr
  · simp at hr
  · rename_i t hfd
    have hmem := firstDue_mem _ _ _ hfd
    rcases h with h | ⟨t0, ht0, hc, hcmd⟩
    · rw [h] at hmem; simp at hmem
    · rw [ht0] at hmem
      simp only [List.mem_singleton] at hmem
      subst hmem
      split at hr
      · simp only [Option.some.injEq] at hr
        subst hr
        intro h; simp [ht0] at h
      · simp only [Option.some.injEq] at hr
        subst hr
        intro _ m hm
        simp only [hcmd, Option.some.injEq] at hm
        subst hm
        rfl

theorem cstep_inv (c : Chan) (o : COp) (h : ChanOK c ∧ ChanQ c) : ChanOK (cstep c o) ∧ ChanQ (cstep c o) := by
  cases o with
  | set now m => exact ⟨setFade_ok c now m h.1, setFade_q c now m⟩
  | tick now iv =>
    show ChanOK (match c.stepTask now iv with | some r => r.1 | none => c) ∧
      ChanQ (match c.stepTask now iv with | some r => r.1 | none => c)
    cases hr : c.stepTask now iv with
    | none => exact h
    | some r => exact ⟨stepTask_ok c now iv r h.1 hr, stepTask_q c now iv r h.1 hr⟩

theorem crun_inv (ops : List COp) : ∀ c, (ChanOK c ∧ ChanQ c) → ChanOK (crun c ops) ∧ ChanQ (crun c ops) := by
  induction ops with
  | nil => intro c h; exact h
  | cons o r ih => intro c h; exact ih _ (cstep_inv c o h)

theorem chan_init_inv : ChanOK ({} : Chan) ∧ ChanQ ({} : Chan) :=
  ⟨⟨by simp, Or.inl rfl⟩, by intro _ m h; simp at h⟩

end MpfVerif.Light
