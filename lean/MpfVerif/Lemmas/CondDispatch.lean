import MpfVerif.Model.CondDispatch
import MpfVerif.Lemmas.Template
/-! Helper lemmas for the conditional-handler dispatcher (`Model/CondDispatch.lean`). -/
namespace MpfVerif.CondDispatch
open MpfVerif.Template

theorem dispatch_nil (k : Kind) (w : World) : dispatch k w [] = w := rfl
theorem dispatch_cons (k : Kind) (w : World) (h : Handler) (hs : List Handler) :
    dispatch k w (h :: hs) = dispatch k (stepH k w h) hs := rfl

theorem dispatch_append' (k : Kind) (w : World) (pre post : List Handler) :
    dispatch k w (pre ++ post) = dispatch k (dispatch k w pre) post := by
  simp [dispatch, List.foldl_append]

/-- a world that is not running any more is left alone by every further turn -/
theorem stepH_halted (k : Kind) (w : World) (h : Handler) (hw : w.st ≠ .running) : stepH k w h = w := by
  simp [stepH, hw]

theorem dispatch_halted (k : Kind) (w : World) (hs : List Handler) (hw : w.st ≠ .running) : dispatch k w hs = w := by
  induction hs with
  | nil => rfl
  | cons h t ih => rw [dispatch_cons, stepH_halted k w h hw]; exact ih

theorem applyAct_ran (w : World) (a : Act) : (applyAct w a).ran = w.ran := by
  cases a with
  | set l v => rfl
  | fire t => rfl
  | add l n =>
    simp only [applyAct]
    split
    · rfl
    · split <;> rfl
    · rfl

theorem stepS_ran (hk : List (String × Val)) (w : World) (s : Step) : (stepS hk w s).ran = w.ran := by
  simp only [stepS]
  split
  · rfl
  · split
    · exact applyAct_ran w s.act
    · rfl
    · rfl
    · rfl

theorem steps_ran (hk : List (String × Val)) (w : World) (ss : List Step) : (ss.foldl (stepS hk) w).ran = w.ran := by
  induction ss generalizing w with
  | nil => rfl
  | cons s t ih => rw [List.foldl_cons, ih, stepS_ran]

/-- the `ran` log after one turn: unchanged, or the handler's id appended -/
theorem stepH_ran (k : Kind) (w : World) (h : Handler) :
    (stepH k w h).ran = if w.st = .running ∧ verdict (condEnv w h.kw) h.cond = .yes then w.ran ++ [h.id] else w.ran := by
  by_cases hw : w.st = .running
  · have h1 : ¬ (w.st ≠ .running) := by simp [hw]
    unfold stepH
    rw [if_neg h1]
    have := steps_ran h.kw { w with ran := w.ran ++ [h.id] } h.steps
    split
    · next hv => rw [if_neg (by simp [hv])]
    · next hv => rw [if_neg (by simp [hv])]
    · next hv => rw [if_neg (by simp [hv])]
    · next hv =>
      have e : (if w.st = .running ∧ verdict (condEnv w h.kw) h.cond = .yes then w.ran ++ [h.id] else w.ran) = w.ran ++ [h.id] :=
        if_pos ⟨hw, hv⟩
      rw [e]
      dsimp only
      split
      · exact this
      · split
        · exact this
        · split <;> exact this
  · have h1 : w.st ≠ .running := hw
    unfold stepH
    rw [if_pos h1, if_neg (by simp [hw])]

theorem ran_prefix (k : Kind) (w : World) (hs : List Handler) : ∃ r, (dispatch k w hs).ran = w.ran ++ r ∧ ∀ x ∈ r, x ∈ hs.map (·.id) := by
  induction hs generalizing w with
  | nil => exact ⟨[], by simp [dispatch_nil], by simp⟩
  | cons h t ih =>
    rw [dispatch_cons]
    obtain ⟨r, hr, hm⟩ := ih (stepH k w h)
    rw [stepH_ran] at hr
    split at hr
    · refine ⟨h.id :: r, by simpa using hr, ?_⟩
      intro x hx
      simp only [List.mem_cons] at hx
      rcases hx with rfl | hx
      · simp
      · simp only [List.map_cons, List.mem_cons]; exact Or.inr (hm x hx)
    · refine ⟨r, hr, ?_⟩
      intro x hx
      simp only [List.map_cons, List.mem_cons]; exact Or.inr (hm x hx)

/-- `BoolTemplate.evaluate` through the evaluator = truthiness of Python's value -/
theorem verdict_yes_iff (env : Env) (e : Expr) :
    verdict env (some e) = .yes ↔ ∃ v, py false false env e = .ok v ∧ truthy v = true := by
  simp only [verdict]
  rw [eval_out false env e]
  cases hp : py false false env e with
  | ok v =>
    simp only [ofPy]
    by_cases ht : truthy v = true
    · simp [ht]
    · simp [ht]
  | error x => cases x <;> simp [ofPy, mapErr]

theorem insertH_mem (h x : Handler) (hs : List Handler) : x ∈ insertH h hs ↔ x = h ∨ x ∈ hs := by
  induction hs with
  | nil => simp [insertH]
  | cons y t ih =>
    simp only [insertH]
    split
    · simp only [List.mem_cons, ih]; constructor
      · rintro (a | a | a); exact Or.inr (Or.inl a); exact Or.inl a; exact Or.inr (Or.inr a)
      · rintro (a | a | a); exact Or.inr (Or.inl a); exact Or.inl a; exact Or.inr (Or.inr a)
    · simp [List.mem_cons]

def Sorted (hs : List Handler) : Prop := hs.Pairwise (fun a b => a.prio ≥ b.prio)

theorem insertH_sorted (h : Handler) (hs : List Handler) (s : Sorted hs) : Sorted (insertH h hs) := by
  induction hs with
  | nil => simp [insertH, Sorted]
  | cons y t ih =>
    simp only [Sorted, List.pairwise_cons] at s
    simp only [insertH]
    split
    · rename_i hy
      simp only [Sorted, List.pairwise_cons]
      refine ⟨?_, ih s.2⟩
      intro x hx
      rcases (insertH_mem h x t).1 hx with rfl | hx
      · exact hy
      · exact s.1 x hx
    · rename_i hy
      simp only [Sorted, List.pairwise_cons]
      refine ⟨?_, s.1, s.2⟩
      intro x hx
      simp only [List.mem_cons] at hx
      rcases hx with rfl | hx
      · omega
      · have := s.1 x hx; omega

end MpfVerif.CondDispatch
