import MpfVerif.Model.Switch
/-! Invariants of the switch-controller model (one switch) and their preservation by every step. -/
namespace MpfVerif.Switch

def keys (l : List (Nat × List TEntry)) : List Nat := l.map (·.1)

theorem minKey_none {l : List (Nat × List TEntry)} : minKey l = none ↔ l = [] := by
  cases l with
  | nil => simp [minKey]
  | cons kv r =>
    obtain ⟨k, es⟩ := kv
    simp only [minKey]
    cases minKey r <;> simp

/-- `minKey` is a key and a lower bound of all keys -/
theorem minKey_spec {l : List (Nat × List TEntry)} {m : Nat} (h : minKey l = some m) :
    m ∈ keys l ∧ ∀ k ∈ keys l, m ≤ k := by
  induction l generalizing m with
  | nil => simp [minKey] at h
  | cons kv r ih =>
    obtain ⟨k, es⟩ := kv
    simp only [minKey] at h
    cases hr : minKey r with
    | none =>
      simp [hr] at h
      have : r = [] := minKey_none.mp hr
      subst this; subst h
      simp [keys]
    | some m' =>
      simp [hr] at h
      obtain ⟨a, b⟩ := ih hr
      simp only [keys, List.map_cons, List.mem_cons] at a b ⊢
      by_cases c : k ≤ m'
      · simp [c] at h; subst h
        exact ⟨Or.inl rfl, fun x hx => hx.elim (fun e => by omega) (fun e => Nat.le_trans c (b x e))⟩
      · simp [c] at h; subst h
        exact ⟨Or.inr a, fun x hx => hx.elim (fun e => by omega) (fun e => b x e)⟩

/-- characterisation: the unique key that is a lower bound -/
theorem minKey_eq {l : List (Nat × List TEntry)} {m : Nat} (h1 : m ∈ keys l) (h2 : ∀ k ∈ keys l, m ≤ k) :
    minKey l = some m := by
  cases h : minKey l with
  | none => rw [minKey_none.mp h] at h1; simp [keys] at h1
  | some m' =>
    obtain ⟨a, b⟩ := minKey_spec h
    have := h2 m' a
    have := b m h1
    congr 1; omega

theorem keys_insert (key : Nat) (e : TEntry) (l : List (Nat × List TEntry)) :
    ∀ k, k ∈ keys (insertTimed key e l) ↔ k = key ∨ k ∈ keys l := by
  induction l with
  | nil => intro k; simp [insertTimed, keys]
  | cons kv r ih =>
    obtain ⟨k0, es⟩ := kv
    intro k
    simp only [insertTimed]
    split
    · rename_i c; subst c; simp [keys]
    · have := ih k
      simp only [keys, List.map_cons, List.mem_cons] at this ⊢
      rw [this]
      constructor
      · rintro (a | a | a)
        · exact Or.inr (Or.inl a)
        · exact Or.inl a
        · exact Or.inr (Or.inr a)
      · rintro (a | a | a)
        · exact Or.inr (Or.inl a)
        · exact Or.inl a
        · exact Or.inr (Or.inr a)

theorem entries_insert (key : Nat) (e : TEntry) (l : List (Nat × List TEntry)) :
    ∀ kv ∈ insertTimed key e l, ∀ x ∈ kv.2, (kv.1 = key ∧ x = e) ∨ (∃ kv' ∈ l, kv'.1 = kv.1 ∧ x ∈ kv'.2) := by
  induction l with
  | nil =>
    intro kv hkv x hx
    simp [insertTimed] at hkv; subst hkv
    simp at hx
    exact Or.inl ⟨rfl, hx⟩
  | cons kv0 r ih =>
    obtain ⟨k0, es⟩ := kv0
    intro kv hkv x hx
    simp only [insertTimed] at hkv
    split at hkv
    · rename_i c
      rcases List.mem_cons.mp hkv with a | a
      · subst a
        simp at hx
        rcases hx with b | b
        · exact Or.inr ⟨(k0, es), by simp, rfl, b⟩
        · exact Or.inl ⟨c, b⟩
      · exact Or.inr ⟨kv, by simp [a], rfl, hx⟩
    · rcases List.mem_cons.mp hkv with a | a
      · subst a
        exact Or.inr ⟨(k0, es), by simp, rfl, hx⟩
      · rcases ih kv a x hx with b | ⟨kv', b1, b2, b3⟩
        · exact Or.inl b
        · exact Or.inr ⟨kv', by simp [b1], b2, b3⟩

/-- timing invariant: the wake-up is scheduled at the minimum pending deadline and is not overdue; every pending
entry belongs to the current state and its deadline is `last change + its hold time` -/
structure Inv (s : Sw) : Prop where
  wake_min : s.wake = minKey s.timed
  wake_ge : ∀ w, s.wake = some w → s.now ≤ w
  entries : ∀ kv ∈ s.timed, ∀ e ∈ kv.2, ∃ lc, s.lastChange = some lc ∧ kv.1 = lc + e.ms ∧ e.st = s.state ∧ e.ms ≠ 0
  lc_le : ∀ lc, s.lastChange = some lc → lc ≤ s.now

theorem addTimed_inv (s : Sw) (key : Nat) (e : TEntry) (i : Inv s) (hk : s.now ≤ key)
    (he : ∃ lc, s.lastChange = some lc ∧ key = lc + e.ms ∧ e.st = s.state ∧ e.ms ≠ 0) : Inv (addTimed s key e) := by
  have hne : insertTimed key e s.timed ≠ [] := by
    intro c
    have := (keys_insert key e s.timed key).mpr (Or.inl rfl)
    rw [c] at this; simp [keys] at this
  obtain ⟨m, hm⟩ : ∃ m, minKey (insertTimed key e s.timed) = some m := by
    cases h : minKey (insertTimed key e s.timed) with
    | none => exact absurd (minKey_none.mp h) hne
    | some m => exact ⟨m, rfl⟩
  obtain ⟨m1, m2⟩ := minKey_spec hm
  constructor
  · simp only [addTimed, hm, Option.getD_some]
    cases hw : s.wake with
    | none => rfl
    | some w =>
      simp only
      have hw' := i.wake_min
      rw [hw] at hw'
      obtain ⟨w1, w2⟩ := minKey_spec hw'.symm
      have : m ≤ w := m2 w ((keys_insert key e s.timed w).mpr (Or.inr w1))
      split
      · rfl
      · rename_i c
        have : m = w := by omega
        rw [this]
  · intro w hw
    show s.now ≤ w
    simp only [addTimed, hm, Option.getD_some] at hw
    have hmk : s.now ≤ m := by
      rcases (keys_insert key e s.timed m).mp m1 with a | a
      · omega
      · cases hw0 : s.wake with
        | none =>
          have := i.wake_min; rw [hw0] at this
          rw [minKey_none.mp this.symm] at a; simp [keys] at a
        | some w0 =>
          have h0 := i.wake_min; rw [hw0] at h0
          have := (minKey_spec h0.symm).2 m a
          have := i.wake_ge w0 hw0
          omega
    cases hw0 : s.wake with
    | none => simp [hw0] at hw; omega
    | some w0 =>
      simp only [hw0] at hw
      have := i.wake_ge w0 hw0
      split at hw <;> (injection hw with hw; omega)
  · intro kv hkv x hx
    simp only [addTimed] at hkv
    rcases entries_insert key e s.timed kv hkv x hx with ⟨a, b⟩ | ⟨kv', b1, b2, b3⟩
    · subst b; rw [a]; exact he
    · rw [← b2]; exact i.entries kv' b1 x b3
  · exact i.lc_le

theorem addTimed_fields (s : Sw) (key : Nat) (e : TEntry) :
    (addTimed s key e).state = s.state ∧ (addTimed s key e).invert = s.invert ∧ (addTimed s key e).hw = s.hw ∧
    (addTimed s key e).now = s.now ∧ (addTimed s key e).lastChange = s.lastChange ∧
    (addTimed s key e).reg0 = s.reg0 ∧ (addTimed s key e).reg1 = s.reg1 ∧
    (addTimed s key e).mutes = s.mutes ∧ (addTimed s key e).mon = s.mon := by
  simp [addTimed]

/-- the fields that registering, removing and scheduling handlers never touch -/
def Frame (s s' : Sw) : Prop :=
  s'.state = s.state ∧ s'.invert = s.invert ∧ s'.hw = s.hw ∧ s'.now = s.now ∧ s'.lastChange = s.lastChange ∧
  s'.mutes = s.mutes ∧ s'.mon = s.mon

theorem Frame.refl (s : Sw) : Frame s s := ⟨rfl, rfl, rfl, rfl, rfl, rfl, rfl⟩

theorem Frame.trans {a b c : Sw} (h1 : Frame a b) (h2 : Frame b c) : Frame a c := by
  obtain ⟨a1, a2, a3, a4, a5, a6, a7⟩ := h1
  obtain ⟨b1, b2, b3, b4, b5, b6, b7⟩ := h2
  exact ⟨by rw [b1, a1], by rw [b2, a2], by rw [b3, a3], by rw [b4, a4], by rw [b5, a5], by rw [b6, a6], by rw [b7, a7]⟩

theorem addTimed_frame (s : Sw) (key : Nat) (e : TEntry) : Frame s (addTimed s key e) := by
  simp [Frame, addTimed]

theorem addTimed_reg (s : Sw) (key : Nat) (e : TEntry) (b : Bool) : (addTimed s key e).reg b = s.reg b := by
  cases b <;> simp [addTimed, Sw.reg]

theorem setReg_fields (s : Sw) (st : Bool) (l : List Reg) :
    (s.setReg st l).state = s.state ∧ (s.setReg st l).invert = s.invert ∧ (s.setReg st l).hw = s.hw ∧
    (s.setReg st l).now = s.now ∧ (s.setReg st l).lastChange = s.lastChange ∧ (s.setReg st l).timed = s.timed ∧
    (s.setReg st l).wake = s.wake ∧ (s.setReg st l).reg st = l ∧ (s.setReg st l).reg (!st) = s.reg (!st) := by
  cases st <;> simp [Sw.setReg, Sw.reg]

theorem setReg_frame (s : Sw) (st : Bool) (l : List Reg) : Frame s (s.setReg st l) := by
  cases st <;> simp [Frame, Sw.setReg]

theorem setReg_inv (s : Sw) (st : Bool) (l : List Reg) (i : Inv s) : Inv (s.setReg st l) := by
  obtain ⟨f1, f2, f3, f4, f5, f6, f7, _, _⟩ := setReg_fields s st l
  constructor
  · rw [f7, f6]; exact i.wake_min
  · intro w hw; rw [f7] at hw; rw [f4]; exact i.wake_ge w hw
  · intro kv hkv e he; rw [f6] at hkv; rw [f5, f1]; exact i.entries kv hkv e he
  · intro lc h; rw [f5] at h; rw [f4]; exact i.lc_le lc h

theorem minKey_mapSnd (f : List TEntry → List TEntry) (l : List (Nat × List TEntry)) :
    minKey (l.map (fun kv => (kv.1, f kv.2))) = minKey l := by
  induction l with
  | nil => rfl
  | cons kv r ih => obtain ⟨k, es⟩ := kv; simp [minKey, ih]

theorem init_inv (invert state hw : Bool) : Inv { invert := invert, state := state, hw := hw } := by
  constructor <;> simp [minKey]

/-! ### registering and removing a handler (top-level operation or action of a callback) -/

theorem addH_frame (s : Sw) (st : Bool) (ms cb : Nat) : Frame s (addH s st ms cb) := by
  unfold addH
  cases s.lastChange with
  | none => exact setReg_frame _ _ _
  | some lc =>
    simp only
    split
    · exact (setReg_frame _ _ _).trans (addTimed_frame _ _ _)
    · exact setReg_frame _ _ _

theorem removeH_frame (s : Sw) (st : Bool) (ms cb : Nat) : Frame s (removeH s st ms cb) := by
  obtain ⟨f1, f2, f3, f4, f5, f6, f7⟩ := setReg_frame s st ((s.reg st).filter (fun r => !(r.ms == ms && r.cb == cb)))
  exact ⟨f1, f2, f3, f4, f5, f6, f7⟩

theorem addH_inv (s : Sw) (st : Bool) (ms cb : Nat) (i : Inv s) : Inv (addH s st ms cb) := by
  unfold addH
  have i1 := setReg_inv s st (s.reg st ++ [⟨cb, ms⟩]) i
  obtain ⟨f1, f2, f3, f4, f5, f6, f7, _, _⟩ := setReg_fields s st (s.reg st ++ [⟨cb, ms⟩])
  cases hl : s.lastChange with
  | none => exact i1
  | some lc =>
    simp only
    split
    · rename_i c
      exact addTimed_inv _ _ _ i1 (by rw [f4]; omega) ⟨lc, by rw [f5]; exact hl, rfl, by rw [f1]; exact c.2.2, c.1⟩
    · exact i1

theorem removeH_inv (s : Sw) (st : Bool) (ms cb : Nat) (i : Inv s) : Inv (removeH s st ms cb) := by
  have i1 := setReg_inv s st ((s.reg st).filter (fun r => !(r.ms == ms && r.cb == cb))) i
  constructor
  · show _ = minKey (List.map _ _)
    rw [minKey_mapSnd (fun es => es.filter (fun e => !isMatch st ms cb e))]
    exact i1.wake_min
  · exact i1.wake_ge
  · intro kv hkv e he
    obtain ⟨kv0, h0, rfl⟩ := List.mem_map.mp hkv
    exact i1.entries kv0 h0 e (List.mem_filter.mp he).1
  · exact i1.lc_le

theorem applyAct_inv (s : Sw) (a : Act) (i : Inv s) : Inv (applyAct s a) := by
  cases a with
  | add st ms cb => exact addH_inv s st ms cb i
  | remove st ms cb => exact removeH_inv s st ms cb i

theorem applyAct_frame (s : Sw) (a : Act) : Frame s (applyAct s a) := by
  cases a with
  | add st ms cb => exact addH_frame s st ms cb
  | remove st ms cb => exact removeH_frame s st ms cb

theorem applyActs_inv (as : List Act) : ∀ (s : Sw), Inv s → Inv (applyActs s as) := by
  induction as with
  | nil => intro s i; exact i
  | cons a r ih => intro s i; exact ih _ (applyAct_inv s a i)

theorem applyActs_frame (as : List Act) : ∀ (s : Sw), Frame s (applyActs s as) := by
  induction as with
  | nil => intro s; exact Frame.refl s
  | cons a r ih => intro s; exact (applyAct_frame s a).trans (ih _)

/-- the part of the invariant that also holds in the middle of `_process_active_timed_switches` (where the wake-up record
is deleted): every pending entry is for the current state and sits at `last change + its hold time` -/
structure InvE (s : Sw) : Prop where
  entries : ∀ kv ∈ s.timed, ∀ e ∈ kv.2, ∃ lc, s.lastChange = some lc ∧ kv.1 = lc + e.ms ∧ e.st = s.state ∧ e.ms ≠ 0
  lc_le : ∀ lc, s.lastChange = some lc → lc ≤ s.now

theorem Inv.toE {s : Sw} (i : Inv s) : InvE s := ⟨i.entries, i.lc_le⟩

theorem addTimed_invE (s : Sw) (key : Nat) (e : TEntry) (i : InvE s)
    (he : ∃ lc, s.lastChange = some lc ∧ key = lc + e.ms ∧ e.st = s.state ∧ e.ms ≠ 0) : InvE (addTimed s key e) := by
  constructor
  · intro kv hkv x hx
    simp only [addTimed] at hkv
    rcases entries_insert key e s.timed kv hkv x hx with ⟨a, b⟩ | ⟨kv', b1, b2, b3⟩
    · subst b; rw [a]; exact he
    · rw [← b2]; exact i.entries kv' b1 x b3
  · exact i.lc_le

theorem setReg_invE (s : Sw) (st : Bool) (l : List Reg) (i : InvE s) : InvE (s.setReg st l) := by
  obtain ⟨f1, f2, f3, f4, f5, f6, f7, _, _⟩ := setReg_fields s st l
  constructor
  · intro kv hkv e he; rw [f6] at hkv; rw [f5, f1]; exact i.entries kv hkv e he
  · intro lc h; rw [f5] at h; rw [f4]; exact i.lc_le lc h

theorem addH_invE (s : Sw) (st : Bool) (ms cb : Nat) (i : InvE s) : InvE (addH s st ms cb) := by
  unfold addH
  have i1 := setReg_invE s st (s.reg st ++ [⟨cb, ms⟩]) i
  obtain ⟨f1, f2, f3, f4, f5, f6, f7, _, _⟩ := setReg_fields s st (s.reg st ++ [⟨cb, ms⟩])
  cases hl : s.lastChange with
  | none => exact i1
  | some lc =>
    simp only
    split
    · rename_i c
      exact addTimed_invE _ _ _ i1 ⟨lc, by rw [f5]; exact hl, rfl, by rw [f1]; exact c.2.2, c.1⟩
    · exact i1

theorem removeH_invE (s : Sw) (st : Bool) (ms cb : Nat) (i : InvE s) : InvE (removeH s st ms cb) := by
  have i1 := setReg_invE s st ((s.reg st).filter (fun r => !(r.ms == ms && r.cb == cb))) i
  constructor
  · intro kv hkv e he
    obtain ⟨kv0, h0, rfl⟩ := List.mem_map.mp hkv
    exact i1.entries kv0 h0 e (List.mem_filter.mp he).1
  · exact i1.lc_le

theorem applyActs_invE (as : List Act) : ∀ (s : Sw), InvE s → InvE (applyActs s as) := by
  induction as with
  | nil => intro s i; exact i
  | cons a r ih =>
    intro s i
    apply ih
    cases a with
    | add st ms cb => exact addH_invE s st ms cb i
    | remove st ms cb => exact removeH_invE s st ms cb i

/-- every deadline key of `s'` was already there in `s` or lies strictly in the future -/
def NewKeys (s s' : Sw) : Prop := ∀ k ∈ keys s'.timed, k ∈ keys s.timed ∨ s.now < k

theorem addH_newKeys (s : Sw) (st : Bool) (ms cb : Nat) : NewKeys s (addH s st ms cb) := by
  unfold addH
  obtain ⟨f1, f2, f3, f4, f5, f6, f7, _, _⟩ := setReg_fields s st (s.reg st ++ [⟨cb, ms⟩])
  cases hl : s.lastChange with
  | none => intro k hk; simp only at hk; rw [f6] at hk; exact Or.inl hk
  | some lc =>
    simp only
    split
    · rename_i c
      intro k hk
      simp only [addTimed] at hk
      rcases (keys_insert _ _ _ k).mp hk with a | a
      · exact Or.inr (by omega)
      · rw [f6] at a; exact Or.inl a
    · intro k hk; rw [f6] at hk; exact Or.inl hk

theorem removeH_keys (s : Sw) (st : Bool) (ms cb : Nat) : keys (removeH s st ms cb).timed = keys s.timed := by
  obtain ⟨_, _, _, _, _, f6, _⟩ := setReg_fields s st ((s.reg st).filter (fun r => !(r.ms == ms && r.cb == cb)))
  show keys (List.map _ _) = _
  rw [f6]
  simp [keys, List.map_map, Function.comp_def]

theorem applyActs_newKeys (as : List Act) : ∀ (s : Sw), NewKeys s (applyActs s as) := by
  induction as with
  | nil => intro s k hk; exact Or.inl hk
  | cons a r ih =>
    intro s k hk
    have fr := applyAct_frame s a
    rcases ih (applyAct s a) k hk with h | h
    · cases a with
      | add st ms cb => exact addH_newKeys s st ms cb k h
      | remove st ms cb =>
        simp only [applyAct] at h
        rw [removeH_keys] at h
        exact Or.inl h
    · rw [fr.2.2.2.1] at h; exact Or.inr h

/-! ### `_call_handlers` with callbacks that register and remove handlers -/

theorem callHandlers_inv (P : Prog) (st : Bool) (lc : Nat) : ∀ (regs canc : List Reg) (s : Sw), Inv s →
    s.lastChange = some lc → s.state = st → s.now ≤ lc →
    Inv (callHandlers P st lc canc regs s).1 ∧ Frame s (callHandlers P st lc canc regs s).1 := by
  intro regs
  induction regs with
  | nil => intro canc s i _ _ _; exact ⟨i, Frame.refl s⟩
  | cons r rest ih =>
    intro canc s i h1 h2 h3
    simp only [callHandlers]
    split
    · exact ih canc s i h1 h2 h3
    · split
      · have fr := applyActs_frame (P r.cb) s
        obtain ⟨a, b⟩ := ih (canc ++ cancOf st (P r.cb)) _ (applyActs_inv (P r.cb) s i) (by rw [fr.2.2.2.2.1]; exact h1)
          (by rw [fr.1]; exact h2) (by rw [fr.2.2.2.1]; exact h3)
        exact ⟨a, fr.trans b⟩
      · rename_i c
        have fr := addTimed_frame s (lc + r.ms) ⟨r.cb, st, r.ms⟩
        have i1 : Inv (addTimed s (lc + r.ms) ⟨r.cb, st, r.ms⟩) :=
          addTimed_inv s _ _ i (by omega) ⟨lc, h1, rfl, h2.symm, c⟩
        obtain ⟨a, b⟩ := ih canc _ i1 (by rw [fr.2.2.2.2.1]; exact h1) (by rw [fr.1]; exact h2) (by rw [fr.2.2.2.1]; exact h3)
        exact ⟨a, fr.trans b⟩

/-- the calls of one walk: a sub-sequence of the untimed registrations that existed when the change happened, each at most
once, in registration order (so a handler registered by a callback during the walk is not called in this round) -/
theorem callHandlers_sublist (P : Prog) (st : Bool) (lc : Nat) : ∀ (regs canc : List Reg) (s : Sw),
    List.Sublist (callHandlers P st lc canc regs s).2 ((regs.filter (fun r => r.ms = 0)).map (fun r => Obs.call r.cb st 0 lc)) := by
  intro regs
  induction regs with
  | nil => intro canc s; simp [callHandlers]
  | cons r rest ih =>
    intro canc s
    simp only [callHandlers]
    split
    · by_cases c : r.ms = 0
      · simp only [List.filter_cons, c, decide_true, if_true, List.map_cons]
        exact List.Sublist.cons _ (ih canc s)
      · simp only [List.filter_cons, c, decide_false]
        exact ih canc s
    · split
      · rename_i c
        simp only [List.filter_cons, c, decide_true, if_true, List.map_cons]
        exact List.Sublist.cons_cons _ (ih _ _)
      · rename_i c
        simp only [List.filter_cons, c, decide_false]
        exact ih canc _

/-- if nothing is cancelled during the walk (no callback that runs removes a handler of the state being walked), the calls
are exactly the untimed registrations, once each, in order — whatever else the callbacks register -/
theorem callHandlers_obs (P : Prog) (st : Bool) (lc : Nat) : ∀ (regs : List Reg) (s : Sw),
    (∀ r ∈ regs, r.ms = 0 → cancOf st (P r.cb) = []) →
    (callHandlers P st lc [] regs s).2 = (regs.filter (fun r => r.ms = 0)).map (fun r => Obs.call r.cb st 0 lc) := by
  intro regs
  induction regs with
  | nil => intro s _; rfl
  | cons r rest ih =>
    intro s h
    simp only [callHandlers, List.not_mem_nil, if_false]
    split
    · rename_i c
      have hc := h r (by simp) c
      simp only [hc, List.append_nil, List.filter_cons, c, decide_true, if_true, List.map_cons]
      rw [ih _ (fun r' hr' => h r' (by simp [hr']))]
    · rename_i c
      simp only [List.filter_cons, c, decide_false]
      exact ih _ (fun r' hr' => h r' (by simp [hr']))

/-! ### `_process_active_timed_switches` with callbacks that register and remove handlers -/

theorem lookupT_mem {k : Nat} {l : List (Nat × List TEntry)} {e : TEntry} (h : e ∈ lookupT k l) :
    ∃ kv ∈ l, kv.1 = k ∧ e ∈ kv.2 := by
  induction l with
  | nil => simp [lookupT] at h
  | cons kv r ih =>
    obtain ⟨k', es⟩ := kv
    simp only [lookupT] at h
    split at h
    · rename_i c; exact ⟨(k', es), by simp, c, h⟩
    · obtain ⟨kv, a, b⟩ := ih h; exact ⟨kv, by simp [a], b⟩

/-- what one expired bucket does: the state keeps `InvE` and the frame, new deadlines lie in the future, and every call is
of an entry that was in the live bucket `k` at that moment — an entry for the current state with `k = last change + ms` -/
theorem procEntries_spec (P : Prog) (k now : Nat) : ∀ (es : List TEntry) (s : Sw), InvE s →
    InvE (procEntries P k now es s).1 ∧ Frame s (procEntries P k now es s).1 ∧ NewKeys s (procEntries P k now es s).1 ∧
    ∀ o ∈ (procEntries P k now es s).2, ∃ e : TEntry, o = Obs.call e.cb e.st e.ms now ∧ e.st = s.state ∧ e.ms ≠ 0 ∧
      ∃ lc, s.lastChange = some lc ∧ k = lc + e.ms := by
  intro es
  induction es with
  | nil => intro s i; exact ⟨i, Frame.refl s, fun k hk => Or.inl hk, by simp [procEntries]⟩
  | cons e rest ih =>
    intro s i
    simp only [procEntries]
    split
    · rename_i hm
      have fr := applyActs_frame (P e.cb) s
      obtain ⟨a, b, c, d⟩ := ih (applyActs s (P e.cb)) (applyActs_invE _ s i)
      refine ⟨a, fr.trans b, ?_, ?_⟩
      · intro k' hk'
        rcases c k' hk' with h | h
        · exact applyActs_newKeys (P e.cb) s k' h
        · rw [fr.2.2.2.1] at h; exact Or.inr h
      · intro o ho
        rcases List.mem_cons.mp ho with h | h
        · obtain ⟨kv, h1, h2, h3⟩ := lookupT_mem hm
          obtain ⟨lc, e1, e2, e3, e4⟩ := i.entries kv h1 e h3
          exact ⟨e, h, e3, e4, lc, e1, by rw [← h2]; exact e2⟩
        · obtain ⟨e', d1, d2, d3, lc, d4, d5⟩ := d o h
          exact ⟨e', d1, by rw [d2, fr.1], d3, lc, by rw [← fr.2.2.2.2.1]; exact d4, d5⟩
    · exact ih s i

theorem eraseT_mem {k : Nat} {l : List (Nat × List TEntry)} {kv : Nat × List TEntry} (h : kv ∈ eraseT k l) :
    kv ∈ l ∧ kv.1 ≠ k := by
  simp only [eraseT, List.mem_filter] at h
  exact ⟨h.1, by simpa using h.2⟩

/-- the whole wake-up: `InvE` and the frame are kept; a deadline that is still pending afterwards is one of the snapshot
that was not processed, or lies in the future; every call is of an entry for the current state whose deadline
`last change + ms` is an expired key of the snapshot -/
theorem procKeys_spec (P : Prog) (now : Nat) : ∀ (ks : List Nat) (s : Sw), InvE s → s.now = now →
    InvE (procKeys P now ks s).1 ∧ Frame s (procKeys P now ks s).1 ∧
    (∀ k' ∈ keys (procKeys P now ks s).1.timed, now < k' ∨ (k' ∈ keys s.timed ∧ k' ∉ ks)) ∧
    ∀ o ∈ (procKeys P now ks s).2, ∃ e : TEntry, o = Obs.call e.cb e.st e.ms now ∧ e.st = s.state ∧ e.ms ≠ 0 ∧
      ∃ lc k, s.lastChange = some lc ∧ k = lc + e.ms ∧ k ∈ ks ∧ k ≤ now := by
  intro ks
  induction ks with
  | nil =>
    intro s i hn
    refine ⟨i, Frame.refl s, ?_, by simp [procKeys]⟩
    intro k' hk'
    exact Or.inr ⟨hk', by simp⟩
  | cons k ks ih =>
    intro s i hn
    simp only [procKeys]
    split
    · rename_i hle
      obtain ⟨a1, a2, a3, a4⟩ := procEntries_spec P k now (lookupT k s.timed) s i
      have i2 : InvE { (procEntries P k now (lookupT k s.timed) s).1 with
          timed := eraseT k (procEntries P k now (lookupT k s.timed) s).1.timed } := by
        constructor
        · intro kv hkv e he
          exact a1.entries kv (eraseT_mem hkv).1 e he
        · exact a1.lc_le
      have fr2 : Frame (procEntries P k now (lookupT k s.timed) s).1 { (procEntries P k now (lookupT k s.timed) s).1 with
          timed := eraseT k (procEntries P k now (lookupT k s.timed) s).1.timed } := ⟨rfl, rfl, rfl, rfl, rfl, rfl, rfl⟩
      obtain ⟨b1, b2, b3, b4⟩ := ih _ i2 (by show (procEntries P k now (lookupT k s.timed) s).1.now = now; rw [a2.2.2.2.1]; exact hn)
      refine ⟨b1, a2.trans (fr2.trans b2), ?_, ?_⟩
      · intro k' hk'
        rcases b3 k' hk' with h | ⟨h1, h2⟩
        · exact Or.inl h
        · obtain ⟨kv, hkv, rfl⟩ := List.mem_map.mp h1
          obtain ⟨m1, m2⟩ := eraseT_mem hkv
          rcases a3 kv.1 (List.mem_map.mpr ⟨kv, m1, rfl⟩) with h | h
          · exact Or.inr ⟨h, by simp [m2, h2]⟩
          · rw [hn] at h; exact Or.inl h
      · intro o ho
        rcases List.mem_append.mp ho with h | h
        · obtain ⟨e, d1, d2, d3, lc, d4, d5⟩ := a4 o h
          exact ⟨e, d1, d2, d3, lc, k, d4, d5, by simp, hle⟩
        · obtain ⟨e, d1, d2, d3, lc, k0, d4, d5, d6, d7⟩ := b4 o h
          refine ⟨e, d1, ?_, d3, lc, k0, ?_, d5, by simp [d6], d7⟩
          · rw [d2]; exact a2.1
          · rw [← a2.2.2.2.2.1]; exact d4
    · rename_i hgt
      obtain ⟨b1, b2, b3, b4⟩ := ih s i hn
      refine ⟨b1, b2, ?_, ?_⟩
      · intro k' hk'
        rcases b3 k' hk' with h | ⟨h1, h2⟩
        · exact Or.inl h
        · by_cases c : k' = k
          · subst c; exact Or.inl (by omega)
          · exact Or.inr ⟨h1, by simp [c, h2]⟩
      · intro o ho
        obtain ⟨e, d1, d2, d3, lc, k0, d4, d5, d6, d7⟩ := b4 o ho
        exact ⟨e, d1, d2, d3, lc, k0, d4, d5, by simp [d6], d7⟩

/-- the state right after a report that changes the switch satisfies the invariant -/
theorem changed_inv (s : Sw) (st : Bool) : Inv (changed s st) := by
  constructor <;> simp [minKey, changed]

theorem changed_reg (s : Sw) (st b : Bool) : (changed s st).reg b = s.reg b := by
  cases b <;> rfl

theorem reportL_dup (P : Prog) (s : Sw) (st : Bool) (h : st = s.state) : reportL P s st = (s, []) := by
  simp [reportL, h]

theorem reportL_inv (P : Prog) (s : Sw) (st : Bool) (i : Inv s) : Inv (reportL P s st).1 := by
  unfold reportL
  split
  · exact i
  · simp only
    split
    · exact (callHandlers_inv P st s.now _ [] (changed s st) (changed_inv s st) rfl rfl (Nat.le_refl _)).1
    · exact changed_inv s st

/-- every step except a poll (which overwrites the state silently) preserves the timing invariant -/
theorem step_inv (P : Prog) (s : Sw) (op : Op) (r : Sw × List Obs) (i : Inv s) (hp : ∀ hw, op ≠ .poll hw)
    (h : step P s op = some r) : Inv r.1 := by
  cases op with
  | report l v =>
    simp only [step] at h
    injection h with h; subst h
    exact reportL_inv P s _ i
  | add st ms cb =>
    simp only [step] at h
    injection h with h; subst h
    exact addH_inv s st ms cb i
  | remove st ms cb =>
    simp only [step] at h
    injection h with h; subst h
    exact removeH_inv s st ms cb i
  | to t =>
    simp only [step] at h
    split at h
    · rename_i c
      injection h with h; subst h
      constructor
      · exact i.wake_min
      · intro w hw
        have := c.2
        have hw' : s.wake = some w := hw
        rw [hw'] at this
        exact this
      · exact i.entries
      · intro lc hl; have := i.lc_le lc hl; exact Nat.le_trans this c.1
    · cases h
  | wake =>
    simp only [step] at h
    cases hw : s.wake with
    | none => simp [hw] at h
    | some w =>
      simp only [hw] at h
      split at h
      · injection h with h; subst h
        have i0 : InvE { s with wake := none } := ⟨i.entries, i.lc_le⟩
        obtain ⟨a1, a2, a3, _⟩ := procKeys_spec P s.now (s.timed.map (·.1)) { s with wake := none } i0 rfl
        constructor
        · rfl
        · intro w' hw'
          obtain ⟨m1, _⟩ := minKey_spec (l := (procKeys P s.now (s.timed.map (·.1)) { s with wake := none }).1.timed) hw'
          rcases a3 w' m1 with c | ⟨c1, c2⟩
          · show (procKeys P s.now (s.timed.map (·.1)) { s with wake := none }).1.now ≤ w'
            have : (procKeys P s.now (s.timed.map (·.1)) { s with wake := none }).1.now = s.now := a2.2.2.2.1
            omega
          · exact absurd c1 c2
        · exact a1.entries
        · exact a1.lc_le
      · simp at h
  | query st ms =>
    simp only [step] at h
    injection h with h; subst h; exact i
  | mute src =>
    simp only [step] at h
    injection h with h; subst h
    exact ⟨i.wake_min, i.wake_ge, i.entries, i.lc_le⟩
  | unmute src =>
    simp only [step] at h
    injection h with h; subst h
    exact ⟨i.wake_min, i.wake_ge, i.entries, i.lc_le⟩
  | monitor on =>
    simp only [step] at h
    injection h with h; subst h
    exact ⟨i.wake_min, i.wake_ge, i.entries, i.lc_le⟩
  | resync hw =>
    simp only [step] at h
    injection h with h; subst h
    exact reportL_inv P _ _ ⟨i.wake_min, i.wake_ge, i.entries, i.lc_le⟩
  | poll hw => exact absurd rfl (hp hw)

/-! ### a removed handler: neither registered nor pending, hence never called -/

/-- handler `(cb, ms)` for state `st` is neither registered nor pending -/
def Absent (s : Sw) (st : Bool) (ms cb : Nat) : Prop :=
  (⟨cb, ms⟩ : Reg) ∉ s.reg st ∧ ∀ kv ∈ s.timed, (⟨cb, st, ms⟩ : TEntry) ∉ kv.2

/-- no callback registers handler `(st, ms, cb)` -/
def NoAdd (P : Prog) (st : Bool) (ms cb : Nat) : Prop := ∀ c, Act.add st ms cb ∉ P c

theorem addTimed_absent (s : Sw) (key : Nat) (e : TEntry) (st : Bool) (ms cb : Nat) (a : Absent s st ms cb)
    (he : e ≠ ⟨cb, st, ms⟩) : Absent (addTimed s key e) st ms cb := by
  refine ⟨by rw [addTimed_reg]; exact a.1, ?_⟩
  intro kv hkv hm
  simp only [addTimed] at hkv
  rcases entries_insert _ _ _ kv hkv _ hm with ⟨_, c⟩ | ⟨kv', c1, _, c3⟩
  · exact he c.symm
  · exact a.2 kv' c1 c3

theorem addH_absent (s : Sw) (st' : Bool) (ms' cb' : Nat) (st : Bool) (ms cb : Nat) (a : Absent s st ms cb)
    (hne : Act.add st' ms' cb' ≠ Act.add st ms cb) : Absent (addH s st' ms' cb') st ms cb := by
  unfold addH
  obtain ⟨f1, f2, f3, f4, f5, f6, f7, f8, f9⟩ := setReg_fields s st' (s.reg st' ++ [⟨cb', ms'⟩])
  have a1 : Absent (s.setReg st' (s.reg st' ++ [⟨cb', ms'⟩])) st ms cb := by
    refine ⟨?_, by rw [f6]; exact a.2⟩
    by_cases c : st' = st
    · subst c
      rw [f8]
      intro hm
      rcases List.mem_append.mp hm with d | d
      · exact a.1 d
      · simp at d; exact hne (by rw [d.1, d.2])
    · have : st = !st' := by cases st <;> cases st' <;> simp_all
      rw [this, f9, ← this]; exact a.1
  cases hl : s.lastChange with
  | none => exact a1
  | some lc =>
    simp only
    split
    · apply addTimed_absent _ _ _ _ _ _ a1
      intro c
      injection c with c1 c2 c3
      exact hne (by rw [c1, c2, c3])
    · exact a1

theorem removeH_absent (s : Sw) (st' : Bool) (ms' cb' : Nat) (st : Bool) (ms cb : Nat) (a : Absent s st ms cb) :
    Absent (removeH s st' ms' cb') st ms cb := by
  obtain ⟨f1, f2, f3, f4, f5, f6, f7, f8, f9⟩ :=
    setReg_fields s st' ((s.reg st').filter (fun r => !(r.ms == ms' && r.cb == cb')))
  refine ⟨?_, ?_⟩
  · show _ ∉ (s.setReg st' _).reg st
    by_cases c : st' = st
    · subst c
      rw [f8]
      exact fun hm => a.1 (List.mem_filter.mp hm).1
    · have : st = !st' := by cases st <;> cases st' <;> simp_all
      rw [this, f9, ← this]; exact a.1
  · intro kv hkv he
    obtain ⟨kv0, h0, rfl⟩ := List.mem_map.mp hkv
    rw [f6] at h0
    exact a.2 kv0 h0 (List.mem_filter.mp he).1

/-- `remove_switch_handler_obj` leaves the handler neither registered nor pending -/
theorem removeH_makes_absent (s : Sw) (st : Bool) (ms cb : Nat) : Absent (removeH s st ms cb) st ms cb := by
  obtain ⟨_, _, _, _, _, f6, _, f8, _⟩ := setReg_fields s st ((s.reg st).filter (fun r => !(r.ms == ms && r.cb == cb)))
  refine ⟨?_, ?_⟩
  · show _ ∉ (s.setReg st _).reg st
    rw [f8]
    intro hm
    have := (List.mem_filter.mp hm).2
    simp at this
  · intro kv hkv he
    obtain ⟨kv0, _, rfl⟩ := List.mem_map.mp hkv
    have := (List.mem_filter.mp he).2
    simp [isMatch] at this

theorem applyActs_absent (as : List Act) (st : Bool) (ms cb : Nat) : ∀ (s : Sw), Absent s st ms cb →
    Act.add st ms cb ∉ as → Absent (applyActs s as) st ms cb := by
  induction as with
  | nil => intro s a _; exact a
  | cons x r ih =>
    intro s a hn
    apply ih _ _ (fun h => hn (by simp [h]))
    cases x with
    | add st' ms' cb' => exact addH_absent s st' ms' cb' st ms cb a (fun h => hn (by simp [h]))
    | remove st' ms' cb' => exact removeH_absent s st' ms' cb' st ms cb a

/-- a callback whose actions remove the handler (and do not register it) leaves it absent, whatever the state was -/
theorem applyActs_removes (as : List Act) (st : Bool) (ms cb : Nat) : ∀ (s : Sw), Act.remove st ms cb ∈ as →
    Act.add st ms cb ∉ as → Absent (applyActs s as) st ms cb := by
  induction as with
  | nil => intro s h; simp at h
  | cons x r ih =>
    intro s h hn
    have hn' : Act.add st ms cb ∉ r := fun h => hn (by simp [h])
    by_cases c : x = Act.remove st ms cb
    · subst c
      exact applyActs_absent r st ms cb _ (removeH_makes_absent s st ms cb) hn'
    · rcases List.mem_cons.mp h with d | d
      · exact absurd d.symm c
      · exact ih _ d hn'

theorem cancOf_mem (st : Bool) (ms cb : Nat) : ∀ (as : List Act), Act.remove st ms cb ∈ as → (⟨cb, ms⟩ : Reg) ∈ cancOf st as := by
  intro as
  induction as with
  | nil => intro h; simp at h
  | cons x r ih =>
    intro h
    cases x with
    | add st' ms' cb' =>
      simp only [cancOf]
      rcases List.mem_cons.mp h with d | d
      · cases d
      · exact ih d
    | remove st' ms' cb' =>
      simp only [cancOf]
      rcases List.mem_cons.mp h with d | d
      · injection d with d1 d2 d3
        subst d1; subst d2; subst d3
        simp
      · split
        · exact List.mem_cons_of_mem _ (ih d)
        · exact ih d

/-- a walk over the registrations in which the handler is absent and (if it is still in the copy) cancelled never calls it
and leaves it absent -/
theorem callHandlers_absent (P : Prog) (stD : Bool) (lc : Nat) (st : Bool) (ms cb : Nat) (hP : NoAdd P st ms cb) :
    ∀ (regs canc : List Reg) (s : Sw), Absent s st ms cb → (stD = st → (⟨cb, ms⟩ : Reg) ∈ regs → (⟨cb, ms⟩ : Reg) ∈ canc) →
    Absent (callHandlers P stD lc canc regs s).1 st ms cb ∧ ∀ t, Obs.call cb st ms t ∉ (callHandlers P stD lc canc regs s).2 := by
  intro regs
  induction regs with
  | nil => intro canc s a _; exact ⟨a, by simp [callHandlers]⟩
  | cons r rest ih =>
    intro canc s a hc
    simp only [callHandlers]
    split
    · exact ih canc s a (fun e h => hc e (by simp [h]))
    · rename_i hnc
      have hr : stD = st → r ≠ ⟨cb, ms⟩ := fun e h => hnc (h ▸ hc e (by simp [h]))
      split
      · rename_i hz
        obtain ⟨b1, b2⟩ := ih (canc ++ cancOf stD (P r.cb)) _ (applyActs_absent (P r.cb) st ms cb s a (hP r.cb))
          (fun e h => List.mem_append_left _ (hc e (by simp [h])))
        refine ⟨b1, ?_⟩
        intro t ht
        rcases List.mem_cons.mp ht with d | d
        · injection d with d1 d2 d3 d4
          apply hr d2.symm
          cases r; simp_all
        · exact b2 t d
      · apply ih canc _ _ (fun e h => hc e (by simp [h]))
        apply addTimed_absent _ _ _ _ _ _ a
        intro c
        injection c with c1 c2 c3
        apply hr c2
        cases r; simp_all

/-- the rest of a walk after a callback that removed the handler: it is not called any more -/
theorem callHandlers_after (P : Prog) (stD : Bool) (lc : Nat) (st : Bool) (ms cb : Nat) (hP : NoAdd P st ms cb) :
    ∀ (regs canc : List Reg) (s : Sw) (pre post : List Obs) (c : Nat) (st' : Bool) (ms' t : Nat),
    (callHandlers P stD lc canc regs s).2 = pre ++ Obs.call c st' ms' t :: post → Act.remove st ms cb ∈ P c →
    Absent (callHandlers P stD lc canc regs s).1 st ms cb ∧ ∀ t', Obs.call cb st ms t' ∉ post := by
  intro regs
  induction regs with
  | nil => intro canc s pre post c st' ms' t h; simp [callHandlers] at h
  | cons r rest ih =>
    intro canc s pre post c st' ms' t h hrm
    simp only [callHandlers] at h ⊢
    split
    · rename_i hc; simp only [hc, if_true] at h; exact ih canc s pre post c st' ms' t h hrm
    · rename_i hnc
      simp only [hnc, if_false] at h
      split
      · rename_i hz
        simp only [hz, if_true] at h
        cases pre with
        | nil =>
          simp only [List.nil_append] at h
          injection h with h1 h2
          injection h1 with e1 e2 e3 e4
          subst e1
          obtain ⟨b1, b2⟩ := callHandlers_absent P stD lc st ms cb hP rest (canc ++ cancOf stD (P r.cb)) _
            (applyActs_removes (P r.cb) st ms cb s hrm (hP r.cb))
            (fun e _ => List.mem_append_right _ (cancOf_mem stD ms cb _ (e ▸ hrm)))
          exact ⟨b1, fun t' ht' => b2 t' (h2 ▸ ht')⟩
        | cons p pre' =>
          simp only [List.cons_append] at h
          injection h with _ h2
          exact ih _ _ pre' post c st' ms' t h2 hrm
      · rename_i hz
        simp only [hz, if_false] at h
        exact ih canc _ pre post c st' ms' t h hrm

theorem lookupT_absent {k : Nat} {s : Sw} {st : Bool} {ms cb : Nat} (a : Absent s st ms cb) :
    (⟨cb, st, ms⟩ : TEntry) ∉ lookupT k s.timed := by
  intro h
  obtain ⟨kv, h1, _, h3⟩ := lookupT_mem h
  exact a.2 kv h1 h3

theorem procEntries_absent (P : Prog) (k now : Nat) (st : Bool) (ms cb : Nat) (hP : NoAdd P st ms cb) :
    ∀ (es : List TEntry) (s : Sw), Absent s st ms cb →
    Absent (procEntries P k now es s).1 st ms cb ∧ ∀ t, Obs.call cb st ms t ∉ (procEntries P k now es s).2 := by
  intro es
  induction es with
  | nil => intro s a; exact ⟨a, by simp [procEntries]⟩
  | cons e rest ih =>
    intro s a
    simp only [procEntries]
    split
    · rename_i hm
      obtain ⟨b1, b2⟩ := ih _ (applyActs_absent (P e.cb) st ms cb s a (hP e.cb))
      refine ⟨b1, ?_⟩
      intro t ht
      rcases List.mem_cons.mp ht with d | d
      · injection d with d1 d2 d3 d4
        apply lookupT_absent (k := k) a
        have : e = ⟨cb, st, ms⟩ := by cases e; simp_all
        exact this ▸ hm
      · exact b2 t d
    · exact ih s a

theorem eraseT_absent (k : Nat) (s : Sw) (st : Bool) (ms cb : Nat) (a : Absent s st ms cb) :
    Absent { s with timed := eraseT k s.timed } st ms cb := by
  refine ⟨?_, fun kv hkv => a.2 kv (eraseT_mem hkv).1⟩
  have : ({ s with timed := eraseT k s.timed } : Sw).reg st = s.reg st := by cases st <;> rfl
  rw [this]; exact a.1

theorem procKeys_absent (P : Prog) (now : Nat) (st : Bool) (ms cb : Nat) (hP : NoAdd P st ms cb) :
    ∀ (ks : List Nat) (s : Sw), Absent s st ms cb →
    Absent (procKeys P now ks s).1 st ms cb ∧ ∀ t, Obs.call cb st ms t ∉ (procKeys P now ks s).2 := by
  intro ks
  induction ks with
  | nil => intro s a; exact ⟨a, by simp [procKeys]⟩
  | cons k ks ih =>
    intro s a
    simp only [procKeys]
    split
    · obtain ⟨a1, a2⟩ := procEntries_absent P k now st ms cb hP (lookupT k s.timed) s a
      obtain ⟨b1, b2⟩ := ih _ (eraseT_absent k _ st ms cb a1)
      refine ⟨b1, ?_⟩
      intro t ht
      rcases List.mem_append.mp ht with d | d
      · exact a2 t d
      · exact b2 t d
    · exact ih s a

/-- the rest of an expired bucket after a callback that removed the handler: it is not called any more -/
theorem procEntries_after (P : Prog) (k now : Nat) (st : Bool) (ms cb : Nat) (hP : NoAdd P st ms cb) :
    ∀ (es : List TEntry) (s : Sw) (pre post : List Obs) (c : Nat) (st' : Bool) (ms' t : Nat),
    (procEntries P k now es s).2 = pre ++ Obs.call c st' ms' t :: post → Act.remove st ms cb ∈ P c →
    Absent (procEntries P k now es s).1 st ms cb ∧ ∀ t', Obs.call cb st ms t' ∉ post := by
  intro es
  induction es with
  | nil => intro s pre post c st' ms' t h; simp [procEntries] at h
  | cons e rest ih =>
    intro s pre post c st' ms' t h hrm
    simp only [procEntries] at h ⊢
    split
    · rename_i hm
      simp only [hm, if_true] at h
      cases pre with
      | nil =>
        simp only [List.nil_append] at h
        injection h with h1 h2
        injection h1 with e1 e2 e3 e4
        subst e1
        obtain ⟨b1, b2⟩ := procEntries_absent P k now st ms cb hP rest _ (applyActs_removes (P e.cb) st ms cb s hrm (hP e.cb))
        exact ⟨b1, fun t' ht' => b2 t' (h2 ▸ ht')⟩
      | cons p pre' =>
        simp only [List.cons_append] at h
        injection h with _ h2
        exact ih _ pre' post c st' ms' t h2 hrm
    · rename_i hm
      simp only [hm, if_false] at h
      exact ih s pre post c st' ms' t h hrm

/-- the rest of a wake-up (same bucket and later buckets) after a callback that removed the handler -/
theorem procKeys_after (P : Prog) (now : Nat) (st : Bool) (ms cb : Nat) (hP : NoAdd P st ms cb) :
    ∀ (ks : List Nat) (s : Sw) (pre post : List Obs) (c : Nat) (st' : Bool) (ms' t : Nat),
    (procKeys P now ks s).2 = pre ++ Obs.call c st' ms' t :: post → Act.remove st ms cb ∈ P c →
    Absent (procKeys P now ks s).1 st ms cb ∧ ∀ t', Obs.call cb st ms t' ∉ post := by
  intro ks
  induction ks with
  | nil => intro s pre post c st' ms' t h; simp [procKeys] at h
  | cons k ks ih =>
    intro s pre post c st' ms' t h hrm
    simp only [procKeys] at h ⊢
    split
    · rename_i hle
      simp only [hle, if_true] at h
      rcases List.append_eq_append_iff.mp h with ⟨a', h1, h2⟩ | ⟨c', h1, h2⟩
      · exact ih _ a' post c st' ms' t h2 hrm
      · cases c' with
        | nil =>
          simp only [List.nil_append] at h2
          exact ih _ [] post c st' ms' t (by simpa using h2.symm) hrm
        | cons o c'' =>
          simp only [List.cons_append] at h2
          injection h2 with e1 e2
          subst e1
          obtain ⟨a1, a2⟩ := procEntries_after P k now st ms cb hP (lookupT k s.timed) s pre c'' c st' ms' t h1 hrm
          obtain ⟨b1, b2⟩ := procKeys_absent P now st ms cb hP ks _ (eraseT_absent k _ st ms cb a1)
          refine ⟨b1, ?_⟩
          intro t' ht'
          rw [e2] at ht'
          rcases List.mem_append.mp ht' with d | d
          · exact a2 t' d
          · exact b2 t' d
    · rename_i hgt
      simp only [hgt, if_false] at h
      exact ih s pre post c st' ms' t h hrm

theorem reportL_absent (P : Prog) (s : Sw) (stD : Bool) (st : Bool) (ms cb : Nat) (hP : NoAdd P st ms cb)
    (a : Absent s st ms cb) :
    Absent (reportL P s stD).1 st ms cb ∧ ∀ t, Obs.call cb st ms t ∉ (reportL P s stD).2 := by
  unfold reportL
  split
  · exact ⟨a, by simp⟩
  · have a1 : Absent (changed s stD) st ms cb := ⟨by rw [changed_reg]; exact a.1, by simp [changed]⟩
    simp only
    split
    · obtain ⟨b1, b2⟩ := callHandlers_absent P stD s.now st ms cb hP ((changed s stD).reg stD) [] (changed s stD) a1
        (fun e h => by rw [changed_reg, e] at h; exact absurd h a.1)
      refine ⟨b1, ?_⟩
      intro t ht
      rcases List.mem_append.mp ht with d | d
      · exact b2 t d
      · split at d <;> simp at d
    · refine ⟨a1, ?_⟩
      intro t ht
      simp only [List.nil_append] at ht
      split at ht <;> simp at ht

theorem absent_congr {s s' : Sw} {st : Bool} {ms cb : Nat} (h0 : s'.reg0 = s.reg0) (h1 : s'.reg1 = s.reg1)
    (ht : s'.timed = s.timed) (a : Absent s st ms cb) : Absent s' st ms cb := by
  have : s'.reg st = s.reg st := by cases st <;> simp [Sw.reg, h0, h1]
  exact ⟨by rw [this]; exact a.1, by rw [ht]; exact a.2⟩

/-- an absent handler stays absent and is not called by any step other than registering it again -/
theorem step_absent (P : Prog) (s : Sw) (op : Op) (r : Sw × List Obs) (st : Bool) (ms cb : Nat) (hP : NoAdd P st ms cb)
    (a : Absent s st ms cb) (hop : op ≠ .add st ms cb) (h : step P s op = some r) :
    Absent r.1 st ms cb ∧ ∀ t, Obs.call cb st ms t ∉ r.2 := by
  cases op with
  | report l v =>
    simp only [step] at h
    injection h with h; subst h
    exact reportL_absent P s _ st ms cb hP a
  | add st' ms' cb' =>
    simp only [step] at h
    injection h with h; subst h
    exact ⟨addH_absent s st' ms' cb' st ms cb a (fun e => hop (by injection e with e1 e2 e3; rw [e1, e2, e3])), by simp⟩
  | remove st' ms' cb' =>
    simp only [step] at h
    injection h with h; subst h
    exact ⟨removeH_absent s st' ms' cb' st ms cb a, by simp⟩
  | to t =>
    simp only [step] at h
    split at h
    · injection h with h; subst h; exact ⟨absent_congr rfl rfl rfl a, by simp⟩
    · cases h
  | wake =>
    simp only [step] at h
    cases hw : s.wake with
    | none => simp [hw] at h
    | some w =>
      simp only [hw] at h
      split at h
      · injection h with h; subst h
        obtain ⟨b1, b2⟩ := procKeys_absent P s.now st ms cb hP (s.timed.map (·.1)) { s with wake := none }
          (absent_congr rfl rfl rfl a)
        exact ⟨absent_congr rfl rfl rfl b1, b2⟩
      · simp at h
  | query st' ms' =>
    simp only [step] at h
    injection h with h; subst h
    exact ⟨a, by simp⟩
  | mute src =>
    simp only [step] at h
    injection h with h; subst h
    exact ⟨absent_congr rfl rfl rfl a, by simp⟩
  | unmute src =>
    simp only [step] at h
    injection h with h; subst h
    exact ⟨absent_congr rfl rfl rfl a, by simp⟩
  | monitor on =>
    simp only [step] at h
    injection h with h; subst h
    exact ⟨absent_congr rfl rfl rfl a, by simp⟩
  | resync hw =>
    simp only [step] at h
    injection h with h; subst h
    exact reportL_absent P _ _ st ms cb hP (absent_congr rfl rfl rfl a)
  | poll hw =>
    simp only [step] at h
    injection h with h; subst h
    exact ⟨absent_congr rfl rfl rfl a, by simp⟩

theorem procEntries_frame (P : Prog) (k now : Nat) : ∀ (es : List TEntry) (s : Sw), Frame s (procEntries P k now es s).1 := by
  intro es
  induction es with
  | nil => intro s; exact Frame.refl s
  | cons e rest ih =>
    intro s
    simp only [procEntries]
    split
    · exact (applyActs_frame (P e.cb) s).trans (ih _)
    · exact ih s

theorem procKeys_frame (P : Prog) (now : Nat) : ∀ (ks : List Nat) (s : Sw), Frame s (procKeys P now ks s).1 := by
  intro ks
  induction ks with
  | nil => intro s; exact Frame.refl s
  | cons k ks ih =>
    intro s
    simp only [procKeys]
    split
    · have f1 := procEntries_frame P k now (lookupT k s.timed) s
      have f2 : Frame (procEntries P k now (lookupT k s.timed) s).1 { (procEntries P k now (lookupT k s.timed) s).1 with
          timed := eraseT k (procEntries P k now (lookupT k s.timed) s).1.timed } := ⟨rfl, rfl, rfl, rfl, rfl, rfl, rfl⟩
      exact f1.trans (f2.trans (ih _))
    · exact ih s

/-! ### what a step does to invert / state / hw -/

theorem reportL_core (P : Prog) (s : Sw) (st : Bool) :
    (reportL P s st).1.invert = s.invert ∧ (reportL P s st).1.state = st ∧
    (st ≠ s.state → (reportL P s st).1.hw = (st != s.invert)) ∧ (st = s.state → (reportL P s st).1.hw = s.hw) := by
  unfold reportL
  split
  · rename_i e; exact ⟨rfl, e.symm, fun c => absurd e c, fun _ => rfl⟩
  · rename_i ne
    simp only
    split
    · obtain ⟨c1, c2, c3, _⟩ := (callHandlers_inv P st s.now ((changed s st).reg st) [] (changed s st) (changed_inv s st)
        rfl rfl (Nat.le_refl _)).2
      exact ⟨by rw [c2]; rfl, by rw [c1]; rfl, fun _ => by rw [c3]; rfl, fun e => absurd e ne⟩
    · exact ⟨rfl, rfl, fun _ => rfl, fun e => absurd e ne⟩

/-- the logical state an operation stands for, if it is a report of any kind (raw/logical report, resync, poll) -/
def reported (invert : Bool) : Op → Option Bool
  | .report l v => some (logicalOf invert l v)
  | .resync hw => some (hw != invert)
  | .poll hw => some (hw != invert)
  | _ => none

theorem step_core (P : Prog) (s : Sw) (op : Op) (r : Sw × List Obs) (h : step P s op = some r) :
    r.1.invert = s.invert ∧ r.1.state = (reported s.invert op).getD s.state ∧
    ((∀ hw, op ≠ .poll hw) → s.hw = (s.state != s.invert) → r.1.hw = (r.1.state != r.1.invert)) ∧
    (∀ hw, op = .resync hw → r.1.hw = hw) := by
  cases op with
  | report l v =>
    simp only [step] at h
    injection h with h; subst h
    obtain ⟨c1, c2, c3, c4⟩ := reportL_core P s (logicalOf s.invert l v)
    refine ⟨c1, c2, ?_, by intro hw e; cases e⟩
    intro _ hh
    by_cases e : logicalOf s.invert l v = s.state
    · rw [c4 e, c2, c1, e]; exact hh
    · rw [c3 e, c2, c1]
  | add st ms cb =>
    simp only [step] at h
    injection h with h; subst h
    obtain ⟨f1, f2, f3, _⟩ := addH_frame s st ms cb
    exact ⟨f2, f1, fun _ hh => by rw [f3, f1, f2]; exact hh, by intro hw e; cases e⟩
  | remove st ms cb =>
    simp only [step] at h
    injection h with h; subst h
    obtain ⟨f1, f2, f3, _⟩ := removeH_frame s st ms cb
    exact ⟨f2, f1, fun _ hh => by rw [f3, f1, f2]; exact hh, by intro hw e; cases e⟩
  | to t =>
    simp only [step] at h
    split at h
    · injection h with h; subst h; exact ⟨rfl, rfl, fun _ hh => hh, by intro hw e; cases e⟩
    · cases h
  | wake =>
    simp only [step] at h
    cases hw : s.wake with
    | none => simp [hw] at h
    | some w =>
      simp only [hw] at h
      split at h
      · injection h with h; subst h
        have f := procKeys_frame P s.now (s.timed.map (·.1)) { s with wake := none }
        exact ⟨f.2.1, f.1, fun _ hh => by rw [show _ = _ from f.2.2.1, show _ = _ from f.1, show _ = _ from f.2.1]; exact hh,
               by intro hw e; cases e⟩
      · simp at h
  | query st ms =>
    simp only [step] at h
    injection h with h; subst h; exact ⟨rfl, rfl, fun _ hh => hh, by intro hw e; cases e⟩
  | mute src =>
    simp only [step] at h
    injection h with h; subst h; exact ⟨rfl, rfl, fun _ hh => hh, by intro hw e; cases e⟩
  | unmute src =>
    simp only [step] at h
    injection h with h; subst h; exact ⟨rfl, rfl, fun _ hh => hh, by intro hw e; cases e⟩
  | monitor on =>
    simp only [step] at h
    injection h with h; subst h; exact ⟨rfl, rfl, fun _ hh => hh, by intro hw e; cases e⟩
  | resync hw =>
    simp only [step] at h
    injection h with h; subst h
    obtain ⟨c1, c2, c3, c4⟩ := reportL_core P { s with hw := hw } (hw != s.invert)
    have key : (reportL P { s with hw := hw } (hw != s.invert)).1.hw = hw := by
      by_cases e : (hw != s.invert) = s.state
      · exact c4 e
      · rw [c3 e]; show ((hw != s.invert) != s.invert) = hw; cases hw <;> cases s.invert <;> rfl
    refine ⟨c1, c2, ?_, by intro hw' e; injection e with e; subst e; exact key⟩
    intro _ _
    rw [key, c2, c1]
    show hw = ((hw != s.invert) != s.invert)
    cases hw <;> cases s.invert <;> rfl
  | poll hw =>
    simp only [step] at h
    injection h with h; subst h
    exact ⟨rfl, rfl, fun c => absurd rfl (c hw), by intro hw e; cases e⟩

theorem run_cons {P : Prog} {s : Sw} {op : Op} {ops : List Op} {r : Sw × List Obs} (h : run P s (op :: ops) = some r) :
    ∃ r1 r2, step P s op = some r1 ∧ run P r1.1 ops = some r2 ∧ r = (r2.1, r1.2 ++ r2.2) := by
  simp only [run] at h
  cases h1 : step P s op with
  | none => simp [h1] at h
  | some r1 =>
    simp only [h1] at h
    cases h2 : run P r1.1 ops with
    | none => simp [h2] at h
    | some r2 =>
      simp only [h2] at h
      injection h with h
      exact ⟨r1, r2, rfl, h2, h.symm⟩

/-- no operation of the sequence is a poll (the silent overwrite of the state by `update_switches_from_hw`) -/
def NoPoll (ops : List Op) : Prop := ∀ op ∈ ops, ∀ hw, op ≠ .poll hw

theorem run_inv (P : Prog) (ops : List Op) : ∀ (s : Sw) (r : Sw × List Obs), Inv s → NoPoll ops → run P s ops = some r → Inv r.1 := by
  induction ops with
  | nil => intro s r i _ h; simp [run] at h; subst h; exact i
  | cons op ops ih =>
    intro s r i hp h
    obtain ⟨r1, r2, h1, h2, rfl⟩ := run_cons h
    exact ih r1.1 r2 (step_inv P s op r1 i (hp op (by simp)) h1) (fun o ho => hp o (by simp [ho])) h2

/-! ### a handler removed by a callback in the middle of a walk -/

theorem reportL_after (P : Prog) (s : Sw) (stD : Bool) (st : Bool) (ms cb : Nat) (hP : NoAdd P st ms cb)
    (pre post : List Obs) (c : Nat) (st' : Bool) (ms' t : Nat)
    (h : (reportL P s stD).2 = pre ++ Obs.call c st' ms' t :: post) (hrm : Act.remove st ms cb ∈ P c) :
    Absent (reportL P s stD).1 st ms cb ∧ ∀ t', Obs.call cb st ms t' ∉ post := by
  unfold reportL at h ⊢
  split
  · rename_i e; simp [e] at h
  · rename_i ne
    simp only [ne, if_false] at h
    have nomon : ∀ (l : List Obs), l = (if s.mon then [Obs.monitor stD] else []) → ∀ c st ms t, Obs.call c st ms t ∉ l := by
      intro l hl c st ms t hm
      subst hl
      split at hm <;> simp at hm
    simp only
    split
    · rename_i hmu
      simp only [hmu, if_true] at h
      rcases List.append_eq_append_iff.mp h with ⟨a', h1, h2⟩ | ⟨c', h1, h2⟩
      · exact absurd (h2 ▸ List.mem_append_right a' (List.mem_cons_self)) (nomon _ rfl c st' ms' t)
      · cases c' with
        | nil =>
          simp only [List.nil_append] at h2
          exact absurd (h2 ▸ List.mem_cons_self) (nomon _ rfl c st' ms' t)
        | cons o c'' =>
          simp only [List.cons_append] at h2
          injection h2 with e1 e2
          subst e1
          obtain ⟨a1, a2⟩ := callHandlers_after P stD s.now st ms cb hP ((changed s stD).reg stD) [] (changed s stD)
            pre c'' c st' ms' t h1 hrm
          refine ⟨a1, ?_⟩
          intro t' ht'
          rw [e2] at ht'
          rcases List.mem_append.mp ht' with d | d
          · exact a2 t' d
          · exact nomon _ rfl cb st ms t' d
    · rename_i hmu
      simp only [hmu, if_false, List.nil_append] at h
      exact absurd (h ▸ List.mem_append_right pre (List.mem_cons_self)) (nomon _ rfl c st' ms' t)

/-- within ONE step (the walk of a change, or a wake-up with all its expired buckets): once a callback `c` whose actions
remove handler `(st, ms, cb)` has been called, the handler is not called in the rest of that step and is absent afterwards -/
theorem step_after (P : Prog) (s : Sw) (op : Op) (r : Sw × List Obs) (st : Bool) (ms cb : Nat) (hP : NoAdd P st ms cb)
    (pre post : List Obs) (c : Nat) (st' : Bool) (ms' t : Nat) (h : step P s op = some r)
    (hs : r.2 = pre ++ Obs.call c st' ms' t :: post) (hrm : Act.remove st ms cb ∈ P c) :
    Absent r.1 st ms cb ∧ ∀ t', Obs.call cb st ms t' ∉ post := by
  cases op with
  | report l v =>
    simp only [step] at h
    injection h with h; subst h
    exact reportL_after P s _ st ms cb hP pre post c st' ms' t hs hrm
  | resync hw =>
    simp only [step] at h
    injection h with h; subst h
    exact reportL_after P _ _ st ms cb hP pre post c st' ms' t hs hrm
  | wake =>
    simp only [step] at h
    cases hw : s.wake with
    | none => simp [hw] at h
    | some w =>
      simp only [hw] at h
      split at h
      · injection h with h; subst h
        obtain ⟨b1, b2⟩ := procKeys_after P s.now st ms cb hP (s.timed.map (·.1)) { s with wake := none } pre post c st' ms' t hs hrm
        exact ⟨absent_congr rfl rfl rfl b1, b2⟩
      · simp at h
  | add _ _ _ => simp only [step] at h; injection h with h; subst h; simp at hs
  | remove _ _ _ => simp only [step] at h; injection h with h; subst h; simp at hs
  | to _ =>
    simp only [step] at h
    split at h
    · injection h with h; subst h; simp at hs
    · cases h
  | query _ _ =>
    simp only [step] at h; injection h with h; subst h
    cases pre <;> simp at hs
  | mute _ => simp only [step] at h; injection h with h; subst h; simp at hs
  | unmute _ => simp only [step] at h; injection h with h; subst h; simp at hs
  | monitor _ => simp only [step] at h; injection h with h; subst h; simp at hs
  | poll _ => simp only [step] at h; injection h with h; subst h; simp at hs

/-- an absent handler stays absent and uncalled along every continuation in which nobody registers it again -/
theorem absent_run (P : Prog) (st : Bool) (ms cb : Nat) (hP : NoAdd P st ms cb) : ∀ (ops : List Op) (s1 : Sw) (r : Sw × List Obs),
    Absent s1 st ms cb → (∀ op ∈ ops, op ≠ .add st ms cb) → run P s1 ops = some r →
    Absent r.1 st ms cb ∧ ∀ t, Obs.call cb st ms t ∉ r.2 := by
  intro ops
  induction ops with
  | nil => intro s1 r a _ h; simp [run] at h; subst h; exact ⟨a, by simp⟩
  | cons op ops ih =>
    intro s1 r a hops h
    obtain ⟨r1, r2, h1, h2, rfl⟩ := run_cons h
    obtain ⟨b1, b2⟩ := step_absent P s1 op r1 st ms cb hP a (hops op (by simp)) h1
    obtain ⟨c1, c2⟩ := ih r1.1 r2 b1 (fun o ho => hops o (by simp [ho])) h2
    refine ⟨c1, ?_⟩
    intro t ht
    rcases List.mem_append.mp ht with d | d
    · exact b2 t d
    · exact c2 t d

/-! ## Switch device events -/

theorem drun_cons {d : Dev} {op : DOp} {ops : List DOp} {r : Dev × List DObs} (h : drun d (op :: ops) = some r) :
    ∃ r1 r2, dstep d op = some r1 ∧ drun r1.1 ops = some r2 ∧ r = (r2.1, r1.2 ++ r2.2) := by
  simp only [drun] at h
  cases h1 : dstep d op with
  | none => simp [h1] at h
  | some r1 =>
    simp only [h1] at h
    cases h2 : drun r1.1 ops with
    | none => simp [h2] at h
    | some r2 =>
      simp only [h2] at h
      injection h with h
      exact ⟨r1, r2, rfl, h2, h.symm⟩

/-- invariant of the ignore window: an open window is not overdue and was opened by the last post; with no window open
the last post is the current state (listeners are in sync with the switch) -/
structure DInv (d : Dev) : Prop where
  clear_ge : ∀ c, d.clear = some c → d.now ≤ c
  open_posted : d.clear ≠ none → d.posted = d.opened
  closed_sync : d.clear = none → d.posted = d.state
  nowin : d.window = 0 → d.clear = none

theorem dstep_inv (d : Dev) (op : DOp) (r : Dev × List DObs) (i : DInv d) (h : dstep d op = some r) : DInv r.1 := by
  cases op with
  | change st =>
    simp only [dstep] at h
    split at h
    · cases h
    · split at h
      · rename_i hw0
        injection h with h; subst h
        exact ⟨i.clear_ge, fun hn => absurd (i.nowin hw0) hn, fun _ => rfl, i.nowin⟩
      · rename_i hw0
        cases hc : d.clear with
        | some c =>
          simp only [hc] at h; injection h with h; subst h
          exact ⟨by intro c' hc'; simp at hc'; subst hc'; exact i.clear_ge c hc, fun _ => i.open_posted (by simp [hc]), by simp,
                 fun h0 => absurd h0 hw0⟩
        | none =>
          simp only [hc] at h; injection h with h; subst h
          refine ⟨?_, fun _ => rfl, by simp, fun h0 => absurd h0 hw0⟩
          intro c hc'
          simp at hc'
          show d.now ≤ c
          omega
  | to t =>
    simp only [dstep] at h
    split at h
    · rename_i hc
      injection h with h; subst h
      refine ⟨?_, i.open_posted, i.closed_sync, i.nowin⟩
      intro c hc'
      have hc'' : d.clear = some c := hc'
      have := hc.2; rw [hc''] at this; simpa using this
    · cases h
  | pass =>
    simp only [dstep] at h
    cases hc : d.clear with
    | none => simp [hc] at h
    | some c =>
      simp only [hc] at h
      split at h
      · split at h
        · rename_i _ he
          injection h with h; subst h
          refine ⟨by simp, by simp, ?_, fun _ => rfl⟩
          intro _
          show d.posted = d.state
          rw [i.open_posted (by simp [hc]), he]
        · injection h with h; subst h
          exact ⟨by simp, by simp, fun _ => rfl, fun _ => rfl⟩
      · cases h

end MpfVerif.Switch
