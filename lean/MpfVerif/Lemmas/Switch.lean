import MpfVerif.Model.Switch
/-! Invariants of the switch-controller model (one switch) and their preservation by every step. -/
namespace MpfVerif.Switch

def keys (l : List (Nat × List TEntry)) : List Nat := l.map (·.1)

theorem minKey_none {l : List (Nat × List TEntry)} : minKey l = none ↔ l = [] := by
  cases l with
  | nil => simp [minKey]
  | cons kv r =>
    obtain ⟨k, es⟩ := kv
    simp only [minKey]
    cases minKey r <;> simp

/-- `minKey` is a key and a lower bound of all keys -/
theorem minKey_spec {l : List (Nat × List TEntry)} {m : Nat} (h : minKey l = some m) :
    m ∈ keys l ∧ ∀ k ∈ keys l, m ≤ k := by
  induction l generalizing m with
  | nil => simp [minKey] at h
  | cons kv r ih =>
    obtain ⟨k, es⟩ := kv
    simp only [minKey] at h
    cases hr : minKey r with
    | none =>
      simp [hr] at h
      have : r = [] := minKey_none.mp hr
      subst this; subst h
      simp [keys]
    | some m' =>
      simp [hr] at h
      obtain ⟨a, b⟩ := ih hr
      simp only [keys, List.map_cons, List.mem_cons] at a b ⊢
      by_cases c : k ≤ m'
      · simp [c] at h; subst h
        exact ⟨Or.inl rfl, fun x hx => hx.elim (fun e => by omega) (fun e => Nat.le_trans c (b x e))⟩
      · simp [c] at h; subst h
        exact ⟨Or.inr a, fun x hx => hx.elim (fun e => by omega) (fun e => b x e)⟩

/-- characterisation: the unique key that is a lower bound -/
theorem minKey_eq {l : List (Nat × List TEntry)} {m : Nat} (h1 : m ∈ keys l) (h2 : ∀ k ∈ keys l, m ≤ k) :
    minKey l = some m := by
  cases h : minKey l with
  | none => rw [minKey_none.mp h] at h1; simp [keys] at h1
  | some m' =>
    obtain ⟨a, b⟩ := minKey_spec h
    have := h2 m' a
    have := b m h1
    congr 1; omega

theorem keys_insert (key : Nat) (e : TEntry) (l : List (Nat × List TEntry)) :
    ∀ k, k ∈ keys (insertTimed key e l) ↔ k = key ∨ k ∈ keys l := by
  induction l with
  | nil => intro k; simp [insertTimed, keys]
  | cons kv r ih =>
    obtain ⟨k0, es⟩ := kv
    intro k
    simp only [insertTimed]
    split
    · rename_i c; subst c; simp [keys]
    · have := ih k
      simp only [keys, List.map_cons, List.mem_cons] at this ⊢
      rw [this]
      constructor
      · rintro (a | a | a)
        · exact Or.inr (Or.inl a)
        · exact Or.inl a
        · exact Or.inr (Or.inr a)
      · rintro (a | a | a)
        · exact Or.inr (Or.inl a)
        · exact Or.inl a
        · exact Or.inr (Or.inr a)

theorem entries_insert (key : Nat) (e : TEntry) (l : List (Nat × List TEntry)) :
    ∀ kv ∈ insertTimed key e l, ∀ x ∈ kv.2, (kv.1 = key ∧ x = e) ∨ (∃ kv' ∈ l, kv'.1 = kv.1 ∧ x ∈ kv'.2) := by
  induction l with
  | nil =>
    intro kv hkv x hx
    simp [insertTimed] at hkv; subst hkv
    simp at hx
    exact Or.inl ⟨rfl, hx⟩
  | cons kv0 r ih =>
    obtain ⟨k0, es⟩ := kv0
    intro kv hkv x hx
    simp only [insertTimed] at hkv
    split at hkv
    · rename_i c
      rcases List.mem_cons.mp hkv with a | a
      · subst a
        simp at hx
        rcases hx with b | b
        · exact Or.inr ⟨(k0, es), by simp, rfl, b⟩
        · exact Or.inl ⟨c, b⟩
      · exact Or.inr ⟨kv, by simp [a], rfl, hx⟩
    · rcases List.mem_cons.mp hkv with a | a
      · subst a
        exact Or.inr ⟨(k0, es), by simp, rfl, hx⟩
      · rcases ih kv a x hx with b | ⟨kv', b1, b2, b3⟩
        · exact Or.inl b
        · exact Or.inr ⟨kv', by simp [b1], b2, b3⟩

/-- timing invariant: the wake-up is scheduled at the minimum pending deadline and is not overdue; every pending
entry belongs to the current state and its deadline is `last change + its hold time` -/
structure Inv (s : Sw) : Prop where
  wake_min : s.wake = minKey s.timed
  wake_ge : ∀ w, s.wake = some w → s.now ≤ w
  entries : ∀ kv ∈ s.timed, ∀ e ∈ kv.2, ∃ lc, s.lastChange = some lc ∧ kv.1 = lc + e.ms ∧ e.st = s.state ∧ e.ms ≠ 0
  lc_le : ∀ lc, s.lastChange = some lc → lc ≤ s.now

theorem addTimed_inv (s : Sw) (key : Nat) (e : TEntry) (i : Inv s) (hk : s.now ≤ key)
    (he : ∃ lc, s.lastChange = some lc ∧ key = lc + e.ms ∧ e.st = s.state ∧ e.ms ≠ 0) : Inv (addTimed s key e) := by
  have hne : insertTimed key e s.timed ≠ [] := by
    intro c
    have := (keys_insert key e s.timed key).mpr (Or.inl rfl)
    rw [c] at this; simp [keys] at this
  obtain ⟨m, hm⟩ : ∃ m, minKey (insertTimed key e s.timed) = some m := by
    cases h : minKey (insertTimed key e s.timed) with
    | none => exact absurd (minKey_none.mp h) hne
    | some m => exact ⟨m, rfl⟩
  obtain ⟨m1, m2⟩ := minKey_spec hm
  constructor
  · simp only [addTimed, hm, Option.getD_some]
    cases hw : s.wake with
    | none => rfl
    | some w =>
      simp only
      have hw' := i.wake_min
      rw [hw] at hw'
      obtain ⟨w1, w2⟩ := minKey_spec hw'.symm
      have : m ≤ w := m2 w ((keys_insert key e s.timed w).mpr (Or.inr w1))
      split
      · rfl
      · rename_i c
        have : m = w := by omega
        rw [this]
  · intro w hw
    show s.now ≤ w
    simp only [addTimed, hm, Option.getD_some] at hw
    have hmk : s.now ≤ m := by
      rcases (keys_insert key e s.timed m).mp m1 with a | a
      · omega
      · cases hw0 : s.wake with
        | none =>
          have := i.wake_min; rw [hw0] at this
          rw [minKey_none.mp this.symm] at a; simp [keys] at a
        | some w0 =>
          have h0 := i.wake_min; rw [hw0] at h0
          have := (minKey_spec h0.symm).2 m a
          have := i.wake_ge w0 hw0
          omega
    cases hw0 : s.wake with
    | none => simp [hw0] at hw; omega
    | some w0 =>
      simp only [hw0] at hw
      have := i.wake_ge w0 hw0
      split at hw <;> (injection hw with hw; omega)
  · intro kv hkv x hx
    simp only [addTimed] at hkv
    rcases entries_insert key e s.timed kv hkv x hx with ⟨a, b⟩ | ⟨kv', b1, b2, b3⟩
    · subst b; rw [a]; exact he
    · rw [← b2]; exact i.entries kv' b1 x b3
  · exact i.lc_le

theorem addTimed_fields (s : Sw) (key : Nat) (e : TEntry) :
    (addTimed s key e).state = s.state ∧ (addTimed s key e).invert = s.invert ∧ (addTimed s key e).hw = s.hw ∧
    (addTimed s key e).now = s.now ∧ (addTimed s key e).lastChange = s.lastChange ∧
    (addTimed s key e).reg0 = s.reg0 ∧ (addTimed s key e).reg1 = s.reg1 := by
  simp [addTimed]

/-- the fields `callHandlers`/`addTimed` never touch -/
def SameCore (s s' : Sw) : Prop :=
  s'.state = s.state ∧ s'.invert = s.invert ∧ s'.hw = s.hw ∧ s'.now = s.now ∧ s'.lastChange = s.lastChange ∧
  s'.reg0 = s.reg0 ∧ s'.reg1 = s.reg1

theorem callHandlers_inv (st : Bool) (lc : Nat) : ∀ (regs : List Reg) (s : Sw), Inv s → s.lastChange = some lc →
    s.state = st → s.now ≤ lc → Inv (callHandlers st lc regs s).1 ∧ SameCore s (callHandlers st lc regs s).1 := by
  intro regs
  induction regs with
  | nil => intro s i _ _ _; exact ⟨i, rfl, rfl, rfl, rfl, rfl, rfl, rfl⟩
  | cons r rest ih =>
    intro s i h1 h2 h3
    simp only [callHandlers]
    split
    · exact ih s i h1 h2 h3
    · rename_i c
      have f := addTimed_fields s (lc + r.ms) ⟨r.cb, st, r.ms⟩
      have i1 : Inv (addTimed s (lc + r.ms) ⟨r.cb, st, r.ms⟩) :=
        addTimed_inv s _ _ i (by omega) ⟨lc, h1, rfl, h2.symm, c⟩
      obtain ⟨a, b⟩ := ih _ i1 (by rw [f.2.2.2.2.1]; exact h1) (by rw [f.1]; exact h2) (by rw [f.2.2.2.1]; exact h3)
      refine ⟨a, ?_⟩
      obtain ⟨b1, b2, b3, b4, b5, b6, b7⟩ := b
      obtain ⟨f1, f2, f3, f4, f5, f6, f7⟩ := f
      exact ⟨by rw [b1, f1], by rw [b2, f2], by rw [b3, f3], by rw [b4, f4], by rw [b5, f5], by rw [b6, f6], by rw [b7, f7]⟩

theorem callHandlers_obs (st : Bool) (lc : Nat) : ∀ (regs : List Reg) (s : Sw),
    (callHandlers st lc regs s).2 = (regs.filter (fun r => r.ms = 0)).map (fun r => Obs.call r.cb st 0 lc) := by
  intro regs
  induction regs with
  | nil => intro s; rfl
  | cons r rest ih =>
    intro s
    simp only [callHandlers]
    split
    · rename_i c; simp [c, ih s]
    · rename_i c; simp [c, ih _]

/-- the timed entries `callHandlers` creates come from the registrations it walks over -/
theorem callHandlers_entries (st : Bool) (lc : Nat) : ∀ (regs : List Reg) (s : Sw),
    ∀ kv ∈ (callHandlers st lc regs s).1.timed, ∀ e ∈ kv.2,
      (∃ kv' ∈ s.timed, e ∈ kv'.2) ∨ (∃ r ∈ regs, e = ⟨r.cb, st, r.ms⟩) := by
  intro regs
  induction regs with
  | nil => intro s kv hkv e he; exact Or.inl ⟨kv, hkv, he⟩
  | cons r rest ih =>
    intro s kv hkv e he
    simp only [callHandlers] at hkv
    split at hkv
    · rcases ih s kv hkv e he with a | ⟨r', a, b⟩
      · exact Or.inl a
      · exact Or.inr ⟨r', by simp [a], b⟩
    · rcases ih _ kv hkv e he with ⟨kv', a, b⟩ | ⟨r', a, b⟩
      · simp only [addTimed] at a
        rcases entries_insert _ _ s.timed kv' a e b with ⟨_, c⟩ | ⟨kv'', c1, _, c3⟩
        · exact Or.inr ⟨r, by simp, c⟩
        · exact Or.inl ⟨kv'', c1, c3⟩
      · exact Or.inr ⟨r', by simp [a], b⟩

theorem processTimed_res (now : Nat) (l : List (Nat × List TEntry)) :
    (∀ kv ∈ (processTimed now l).1, kv ∈ l ∧ now < kv.1) ∧
    (∀ o ∈ (processTimed now l).2, ∃ kv ∈ l, kv.1 ≤ now ∧ ∃ e ∈ kv.2, o = Obs.call e.cb e.st e.ms now) := by
  induction l with
  | nil => simp [processTimed]
  | cons kv r ih =>
    obtain ⟨k, es⟩ := kv
    simp only [processTimed]
    split
    · rename_i c
      refine ⟨fun kv hkv => ⟨by simp [(ih.1 kv hkv).1], (ih.1 kv hkv).2⟩, ?_⟩
      intro o ho
      rcases List.mem_append.mp ho with a | a
      · obtain ⟨e, he, rfl⟩ := List.mem_map.mp a
        exact ⟨(k, es), by simp, c, e, he, rfl⟩
      · obtain ⟨kv, h1, h2⟩ := ih.2 o a
        exact ⟨kv, by simp [h1], h2⟩
    · rename_i c
      refine ⟨?_, ?_⟩
      · intro kv hkv
        rcases List.mem_cons.mp hkv with a | a
        · subst a; exact ⟨by simp, by simpa using c⟩
        · exact ⟨by simp [(ih.1 kv a).1], (ih.1 kv a).2⟩
      · intro o ho
        obtain ⟨kv, h1, h2⟩ := ih.2 o ho
        exact ⟨kv, by simp [h1], h2⟩

theorem setReg_fields (s : Sw) (st : Bool) (l : List Reg) :
    (s.setReg st l).state = s.state ∧ (s.setReg st l).invert = s.invert ∧ (s.setReg st l).hw = s.hw ∧
    (s.setReg st l).now = s.now ∧ (s.setReg st l).lastChange = s.lastChange ∧ (s.setReg st l).timed = s.timed ∧
    (s.setReg st l).wake = s.wake ∧ (s.setReg st l).reg st = l ∧ (s.setReg st l).reg (!st) = s.reg (!st) := by
  cases st <;> simp [Sw.setReg, Sw.reg]

theorem setReg_inv (s : Sw) (st : Bool) (l : List Reg) (i : Inv s) : Inv (s.setReg st l) := by
  obtain ⟨f1, f2, f3, f4, f5, f6, f7, _, _⟩ := setReg_fields s st l
  constructor
  · rw [f7, f6]; exact i.wake_min
  · intro w hw; rw [f7] at hw; rw [f4]; exact i.wake_ge w hw
  · intro kv hkv e he; rw [f6] at hkv; rw [f5, f1]; exact i.entries kv hkv e he
  · intro lc h; rw [f5] at h; rw [f4]; exact i.lc_le lc h

theorem minKey_mapSnd (f : List TEntry → List TEntry) (l : List (Nat × List TEntry)) :
    minKey (l.map (fun kv => (kv.1, f kv.2))) = minKey l := by
  induction l with
  | nil => rfl
  | cons kv r ih => obtain ⟨k, es⟩ := kv; simp [minKey, ih]

theorem init_inv (invert state hw : Bool) : Inv { invert := invert, state := state, hw := hw } := by
  constructor <;> simp [minKey]

/-- every step preserves the timing invariant -/
theorem step_inv (s : Sw) (op : Op) (r : Sw × List Obs) (i : Inv s) (h : step s op = some r) : Inv r.1 := by
  cases op with
  | report l v =>
    simp only [step] at h
    split at h
    · injection h with h; subst h; exact i
    · injection h with h; subst h
      exact (callHandlers_inv (logicalOf s.invert l v) s.now _
        { s with state := logicalOf s.invert l v, hw := (logicalOf s.invert l v != s.invert),
                 lastChange := some s.now, timed := [], wake := none }
        (by constructor <;> simp [minKey]) rfl rfl (Nat.le_refl _)).1
  | add st ms cb =>
    simp only [step] at h
    have i1 := setReg_inv s st (s.reg st ++ [⟨cb, ms⟩]) i
    obtain ⟨f1, f2, f3, f4, f5, f6, f7, _, _⟩ := setReg_fields s st (s.reg st ++ [⟨cb, ms⟩])
    cases hl : s.lastChange with
    | none => simp [hl] at h; subst h; exact i1
    | some lc =>
      simp only [hl] at h
      split at h
      · rename_i c
        injection h with h; subst h
        exact addTimed_inv _ _ _ i1 (by rw [f4]; omega) ⟨lc, by rw [f5]; exact hl, rfl, by rw [f1]; exact c.2.2, c.1⟩
      · injection h with h; subst h; exact i1
  | remove st ms cb =>
    simp only [step] at h
    injection h with h; subst h
    have i1 := setReg_inv s st ((s.reg st).filter (fun r => !(r.ms == ms && r.cb == cb))) i
    constructor
    · show _ = minKey (List.map _ _)
      rw [minKey_mapSnd (fun es => es.filter (fun e => !isMatch st ms cb e))]
      exact i1.wake_min
    · exact i1.wake_ge
    · intro kv hkv e he
      obtain ⟨kv0, h0, rfl⟩ := List.mem_map.mp hkv
      exact i1.entries kv0 h0 e (List.mem_filter.mp he).1
    · exact i1.lc_le
  | to t =>
    simp only [step] at h
    split at h
    · rename_i c
      injection h with h; subst h
      constructor
      · exact i.wake_min
      · intro w hw
        have := c.2
        have hw' : s.wake = some w := hw
        rw [hw'] at this
        exact this
      · exact i.entries
      · intro lc hl; have := i.lc_le lc hl; exact Nat.le_trans this c.1
    · cases h
  | wake =>
    simp only [step] at h
    cases hw : s.wake with
    | none => simp [hw] at h
    | some w =>
      simp only [hw] at h
      split at h
      · injection h with h; subst h
        have pr := processTimed_res s.now s.timed
        constructor
        · rfl
        · intro w' hw'
          obtain ⟨a, _⟩ := minKey_spec (l := (processTimed s.now s.timed).1) hw'
          obtain ⟨kv, hkv, rfl⟩ := List.mem_map.mp a
          exact Nat.le_of_lt (pr.1 kv hkv).2
        · intro kv hkv e he
          exact i.entries kv (pr.1 kv hkv).1 e he
        · exact i.lc_le
      · simp at h
  | query st ms =>
    simp only [step] at h
    injection h with h; subst h; exact i

/-- the state right after a report that changes the switch, before the handlers are walked -/
def changed (s : Sw) (st : Bool) : Sw :=
  { s with state := st, hw := (st != s.invert), lastChange := some s.now, timed := [], wake := none }

theorem step_report_dup (s : Sw) (l v : Bool) (h : logicalOf s.invert l v = s.state) :
    step s (.report l v) = some (s, []) := by
  simp [step, h]

theorem step_report_change (s : Sw) (l v : Bool) (h : logicalOf s.invert l v ≠ s.state) :
    step s (.report l v) = some (callHandlers (logicalOf s.invert l v) s.now
      ((changed s (logicalOf s.invert l v)).reg (logicalOf s.invert l v)) (changed s (logicalOf s.invert l v))) := by
  simp [step, h, changed]

/-- handler `(cb, ms)` for state `st` is neither registered nor pending -/
def Absent (s : Sw) (st : Bool) (ms cb : Nat) : Prop :=
  (⟨cb, ms⟩ : Reg) ∉ s.reg st ∧ ∀ kv ∈ s.timed, (⟨cb, st, ms⟩ : TEntry) ∉ kv.2

theorem reg_of_sameCore {s s' : Sw} (h : SameCore s s') (st : Bool) : s'.reg st = s.reg st := by
  obtain ⟨_, _, _, _, _, h6, h7⟩ := h
  cases st <;> simp [Sw.reg, h6, h7]

theorem step_absent (s : Sw) (op : Op) (r : Sw × List Obs) (st : Bool) (ms cb : Nat)
    (a : Absent s st ms cb) (hop : op ≠ .add st ms cb) (h : step s op = some r) :
    Absent r.1 st ms cb ∧ ∀ t, Obs.call cb st ms t ∉ r.2 := by
  cases op with
  | report l v =>
    by_cases hne : logicalOf s.invert l v = s.state
    · rw [step_report_dup s l v hne] at h
      injection h with h; subst h; exact ⟨a, by simp⟩
    · rw [step_report_change s l v hne] at h
      injection h with h; subst h
      have hs := (callHandlers_inv (logicalOf s.invert l v) s.now ((changed s (logicalOf s.invert l v)).reg (logicalOf s.invert l v))
        (changed s (logicalOf s.invert l v)) (by constructor <;> simp [minKey, changed]) rfl rfl (Nat.le_refl _)).2
      have hreg : ∀ b, (changed s (logicalOf s.invert l v)).reg b = s.reg b := by
        intro b; cases b <;> rfl
      refine ⟨⟨?_, ?_⟩, ?_⟩
      · rw [reg_of_sameCore hs st, hreg]; exact a.1
      · intro kv hkv he
        rcases callHandlers_entries _ _ _ _ kv hkv _ he with ⟨kv', c, _⟩ | ⟨r', c, d⟩
        · simp [changed] at c
        · rw [hreg] at c
          injection d with d1 d2 d3
          subst d2
          have : r' = ⟨cb, ms⟩ := by cases r'; simp_all
          exact a.1 (this ▸ c)
      · intro t ht
        rw [callHandlers_obs, hreg] at ht
        obtain ⟨r', c, d⟩ := List.mem_map.mp ht
        obtain ⟨c1, c2⟩ := List.mem_filter.mp c
        injection d with d1 d2 d3 d4
        subst d2
        have : r' = ⟨cb, ms⟩ := by cases r'; simp_all
        exact a.1 (this ▸ c1)
  | add st' ms' cb' =>
    simp only [step] at h
    obtain ⟨f1, f2, f3, f4, f5, f6, f7, f8, f9⟩ := setReg_fields s st' (s.reg st' ++ [⟨cb', ms'⟩])
    have a1 : Absent (s.setReg st' (s.reg st' ++ [⟨cb', ms'⟩])) st ms cb := by
      refine ⟨?_, by rw [f6]; exact a.2⟩
      by_cases c : st' = st
      · subst c
        rw [f8]
        intro hm
        rcases List.mem_append.mp hm with d | d
        · exact a.1 d
        · simp at d; exact hop (by rw [d.1, d.2])
      · have : st = !st' := by cases st <;> cases st' <;> simp_all
        rw [this, f9, ← this]; exact a.1
    have a2 : ∀ key, Absent (addTimed (s.setReg st' (s.reg st' ++ [⟨cb', ms'⟩])) key ⟨cb', st', ms'⟩) st ms cb := by
      intro key
      refine ⟨?_, ?_⟩
      · have f := addTimed_fields (s.setReg st' (s.reg st' ++ [⟨cb', ms'⟩])) key ⟨cb', st', ms'⟩
        have : ∀ b, (addTimed (s.setReg st' (s.reg st' ++ [⟨cb', ms'⟩])) key ⟨cb', st', ms'⟩).reg b
            = (s.setReg st' (s.reg st' ++ [⟨cb', ms'⟩])).reg b := by
          intro b
          cases b
          · exact f.2.2.2.2.2.1
          · exact f.2.2.2.2.2.2
        rw [this]; exact a1.1
      · intro kv hkv he
        simp only [addTimed] at hkv
        rcases entries_insert _ _ _ kv hkv _ he with ⟨_, c⟩ | ⟨kv', c1, _, c3⟩
        · injection c with c1 c2 c3
          exact hop (by rw [c1, c2, c3])
        · exact a1.2 kv' c1 c3
    cases hl : s.lastChange with
    | none => simp [hl] at h; subst h; exact ⟨a1, by simp⟩
    | some lc =>
      simp only [hl] at h
      split at h
      · injection h with h; subst h; exact ⟨a2 _, by simp⟩
      · injection h with h; subst h; exact ⟨a1, by simp⟩
  | remove st' ms' cb' =>
    simp only [step] at h
    injection h with h; subst h
    obtain ⟨f1, f2, f3, f4, f5, f6, f7, f8, f9⟩ :=
      setReg_fields s st' ((s.reg st').filter (fun r => !(r.ms == ms' && r.cb == cb')))
    refine ⟨⟨?_, ?_⟩, by simp⟩
    · show _ ∉ (s.setReg st' _).reg st
      by_cases c : st' = st
      · subst c
        rw [f8]
        exact fun hm => a.1 (List.mem_filter.mp hm).1
      · have : st = !st' := by cases st <;> cases st' <;> simp_all
        rw [this, f9, ← this]; exact a.1
    · intro kv hkv he
      obtain ⟨kv0, h0, rfl⟩ := List.mem_map.mp hkv
      rw [f6] at h0
      exact a.2 kv0 h0 (List.mem_filter.mp he).1
  | to t =>
    simp only [step] at h
    split at h
    · injection h with h; subst h; exact ⟨a, by simp⟩
    · cases h
  | wake =>
    simp only [step] at h
    cases hw : s.wake with
    | none => simp [hw] at h
    | some w =>
      simp only [hw] at h
      split at h
      · injection h with h; subst h
        have pr := processTimed_res s.now s.timed
        refine ⟨⟨a.1, fun kv hkv => a.2 kv (pr.1 kv hkv).1⟩, ?_⟩
        intro t ht
        obtain ⟨kv, h1, _, e, h3, h4⟩ := pr.2 _ ht
        injection h4 with d1 d2 d3 d4
        have : e = ⟨cb, st, ms⟩ := by cases e; simp_all
        exact a.2 kv h1 (this ▸ h3)
      · simp at h
  | query st' ms' =>
    simp only [step] at h
    injection h with h; subst h
    exact ⟨a, by simp⟩

/-- what a step does to invert / state / hw -/
theorem step_core (s : Sw) (op : Op) (r : Sw × List Obs) (h : step s op = some r) :
    r.1.invert = s.invert ∧
    (match op with
      | .report l v => r.1.state = logicalOf s.invert l v ∧ (r.1.state ≠ s.state → r.1.hw = (r.1.state != r.1.invert))
      | _ => r.1.state = s.state ∧ r.1.hw = s.hw) ∧
    (r.1.state = s.state → r.1.hw = s.hw) := by
  cases op with
  | report l v =>
    by_cases hne : logicalOf s.invert l v = s.state
    · rw [step_report_dup s l v hne] at h
      injection h with h; subst h
      exact ⟨rfl, ⟨hne.symm, fun c => absurd rfl c⟩, fun _ => rfl⟩
    · rw [step_report_change s l v hne] at h
      injection h with h; subst h
      obtain ⟨c1, c2, c3, _⟩ := (callHandlers_inv (logicalOf s.invert l v) s.now
        ((changed s (logicalOf s.invert l v)).reg (logicalOf s.invert l v)) (changed s (logicalOf s.invert l v))
        (by constructor <;> simp [minKey, changed]) rfl rfl (Nat.le_refl _)).2
      refine ⟨by rw [c2]; rfl, ⟨by rw [c1]; rfl, fun _ => by rw [c3, c1, c2]; rfl⟩, ?_⟩
      intro e
      rw [c1] at e
      exact absurd e hne
  | add st ms cb =>
    simp only [step] at h
    obtain ⟨f1, f2, f3, _⟩ := setReg_fields s st (s.reg st ++ [⟨cb, ms⟩])
    have key : ∀ k e, (addTimed (s.setReg st (s.reg st ++ [⟨cb, ms⟩])) k e).invert = s.invert ∧
        (addTimed (s.setReg st (s.reg st ++ [⟨cb, ms⟩])) k e).state = s.state ∧
        (addTimed (s.setReg st (s.reg st ++ [⟨cb, ms⟩])) k e).hw = s.hw := by
      intro k e
      obtain ⟨g1, g2, g3, _⟩ := addTimed_fields (s.setReg st (s.reg st ++ [⟨cb, ms⟩])) k e
      exact ⟨by rw [g2, f2], by rw [g1, f1], by rw [g3, f3]⟩
    cases hl : s.lastChange with
    | none => simp [hl] at h; subst h; exact ⟨f2, ⟨f1, f3⟩, fun _ => f3⟩
    | some lc =>
      simp only [hl] at h
      split at h
      · injection h with h; subst h
        obtain ⟨k1, k2, k3⟩ := key (lc + ms) ⟨cb, st, ms⟩
        exact ⟨k1, ⟨k2, k3⟩, fun _ => k3⟩
      · injection h with h; subst h; exact ⟨f2, ⟨f1, f3⟩, fun _ => f3⟩
  | remove st ms cb =>
    simp only [step] at h
    injection h with h; subst h
    obtain ⟨f1, f2, f3, _⟩ := setReg_fields s st ((s.reg st).filter (fun r => !(r.ms == ms && r.cb == cb)))
    exact ⟨f2, ⟨f1, f3⟩, fun _ => f3⟩
  | to t =>
    simp only [step] at h
    split at h
    · injection h with h; subst h; exact ⟨rfl, ⟨rfl, rfl⟩, fun _ => rfl⟩
    · cases h
  | wake =>
    simp only [step] at h
    cases hw : s.wake with
    | none => simp [hw] at h
    | some w =>
      simp only [hw] at h
      split at h
      · injection h with h; subst h; exact ⟨rfl, ⟨rfl, rfl⟩, fun _ => rfl⟩
      · simp at h
  | query st ms =>
    simp only [step] at h
    injection h with h; subst h; exact ⟨rfl, ⟨rfl, rfl⟩, fun _ => rfl⟩

theorem run_cons {s : Sw} {op : Op} {ops : List Op} {r : Sw × List Obs} (h : run s (op :: ops) = some r) :
    ∃ r1 r2, step s op = some r1 ∧ run r1.1 ops = some r2 ∧ r = (r2.1, r1.2 ++ r2.2) := by
  simp only [run] at h
  cases h1 : step s op with
  | none => simp [h1] at h
  | some r1 =>
    simp only [h1] at h
    cases h2 : run r1.1 ops with
    | none => simp [h2] at h
    | some r2 =>
      simp only [h2] at h
      injection h with h
      exact ⟨r1, r2, rfl, h2, h.symm⟩

theorem run_inv (ops : List Op) : ∀ (s : Sw) (r : Sw × List Obs), Inv s → run s ops = some r → Inv r.1 := by
  induction ops with
  | nil => intro s r i h; simp [run] at h; subst h; exact i
  | cons op ops ih =>
    intro s r i h
    obtain ⟨r1, r2, h1, h2, rfl⟩ := run_cons h
    exact ih r1.1 r2 (step_inv s op r1 i h1) h2

/-! ## Switch device events -/

theorem drun_cons {d : Dev} {op : DOp} {ops : List DOp} {r : Dev × List DObs} (h : drun d (op :: ops) = some r) :
    ∃ r1 r2, dstep d op = some r1 ∧ drun r1.1 ops = some r2 ∧ r = (r2.1, r1.2 ++ r2.2) := by
  simp only [drun] at h
  cases h1 : dstep d op with
  | none => simp [h1] at h
  | some r1 =>
    simp only [h1] at h
    cases h2 : drun r1.1 ops with
    | none => simp [h2] at h
    | some r2 =>
      simp only [h2] at h
      injection h with h
      exact ⟨r1, r2, rfl, h2, h.symm⟩

/-- invariant of the ignore window: an open window is not overdue and was opened by the last post; with no window open
the last post is the current state (listeners are in sync with the switch) -/
structure DInv (d : Dev) : Prop where
  clear_ge : ∀ c, d.clear = some c → d.now ≤ c
  open_posted : d.clear ≠ none → d.posted = d.opened
  closed_sync : d.clear = none → d.posted = d.state
  nowin : d.window = 0 → d.clear = none

theorem dstep_inv (d : Dev) (op : DOp) (r : Dev × List DObs) (i : DInv d) (h : dstep d op = some r) : DInv r.1 := by
  cases op with
  | change st =>
    simp only [dstep] at h
    split at h
    · cases h
    · split at h
      · rename_i hw0
        injection h with h; subst h
        exact ⟨i.clear_ge, fun hn => absurd (i.nowin hw0) hn, fun _ => rfl, i.nowin⟩
      · rename_i hw0
        cases hc : d.clear with
        | some c =>
          simp only [hc] at h; injection h with h; subst h
          exact ⟨by intro c' hc'; simp at hc'; subst hc'; exact i.clear_ge c hc, fun _ => i.open_posted (by simp [hc]), by simp,
                 fun h0 => absurd h0 hw0⟩
        | none =>
          simp only [hc] at h; injection h with h; subst h
          refine ⟨?_, fun _ => rfl, by simp, fun h0 => absurd h0 hw0⟩
          intro c hc'
          simp at hc'
          show d.now ≤ c
          omega
  | to t =>
    simp only [dstep] at h
    split at h
    · rename_i hc
      injection h with h; subst h
      refine ⟨?_, i.open_posted, i.closed_sync, i.nowin⟩
      intro c hc'
      have hc'' : d.clear = some c := hc'
      have := hc.2; rw [hc''] at this; simpa using this
    · cases h
  | pass =>
    simp only [dstep] at h
    cases hc : d.clear with
    | none => simp [hc] at h
    | some c =>
      simp only [hc] at h
      split at h
      · split at h
        · rename_i _ he
          injection h with h; subst h
          refine ⟨by simp, by simp, ?_, fun _ => rfl⟩
          intro _
          show d.posted = d.state
          rw [i.open_posted (by simp [hc]), he]
        · injection h with h; subst h
          exact ⟨by simp, by simp, fun _ => rfl, fun _ => rfl⟩
      · cases h

end MpfVerif.Switch
