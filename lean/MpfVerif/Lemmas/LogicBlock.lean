import MpfVerif.Model.LogicBlock
/-! Helper definitions and per-step lemmas for C18 (logic blocks). -/
namespace MpfVerif.LogicBlock

/-! ### what is counted in a list of posted events -/

def isHit : Obs → Bool
  | .hit _ _ => true
  | .hitStep _ => true
  | _ => false

def isComplete : Obs → Bool
  | .complete => true
  | _ => false

def isTimeout : Obs → Bool
  | .timeout => true
  | _ => false

def nHit (l : List Obs) : Nat := l.countP isHit
def nComplete (l : List Obs) : Nat := l.countP isComplete
def nTimeout (l : List Obs) : Nat := l.countP isTimeout

/-- a hit on the block is accepted: block present, enabled, and (counter) outside its multiple-hit window -/
def accepted (s : St) : Bool := s.loaded && s.enabled && s.windowUntil.isNone

/-- this op, applied in this state, reaches the block's goal (whether or not the block is already completed) -/
def reaches (c : Cfg) (s : St) : Op → Bool
  | .count => c.kind = .counter && accepted s && goalReached c (s.value + hv c)
  | .add n => c.kind = .counter && s.loaded && goalReached c (s.value + n)
  | .sub n => c.kind = .counter && s.loaded && goalReached c (s.value - n)
  | .set n => c.kind = .counter && s.loaded && goalReached c n
  | .hit k =>
    match c.kind with
    | .accrual => s.loaded && s.enabled && allTrue (if getFlag s.flags k then s.flags else setFlag s.flags k)
    | .sequence => s.loaded && s.enabled && decide ((k : Int) = s.value) && decide ((c.steps : Int) ≤ s.value + 1)
    | .counter => false
  | .advr k => c.kind = .accrual && s.loaded && s.enabled && !getFlag s.flags k && allTrue (setFlag s.flags k)
  | _ => false

/-! ### the small methods -/

@[simp] theorem nHit_nil : nHit [] = 0 := rfl
@[simp] theorem nComplete_nil : nComplete [] = 0 := rfl
@[simp] theorem nTimeout_nil : nTimeout [] = 0 := rfl
@[simp] theorem nHit_append (a b : List Obs) : nHit (a ++ b) = nHit a + nHit b := by simp [nHit]
@[simp] theorem nComplete_append (a b : List Obs) : nComplete (a ++ b) = nComplete a + nComplete b := by simp [nComplete]
@[simp] theorem nTimeout_append (a b : List Obs) : nTimeout (a ++ b) = nTimeout a + nTimeout b := by simp [nTimeout]
@[simp] theorem nHit_cons (a : Obs) (b : List Obs) : nHit (a :: b) = (if isHit a then 1 else 0) + nHit b := by
  simp [nHit, List.countP_cons]; omega
@[simp] theorem nComplete_cons (a : Obs) (b : List Obs) :
    nComplete (a :: b) = (if isComplete a then 1 else 0) + nComplete b := by
  simp [nComplete, List.countP_cons]; omega
@[simp] theorem nTimeout_cons (a : Obs) (b : List Obs) :
    nTimeout (a :: b) = (if isTimeout a then 1 else 0) + nTimeout b := by
  simp [nTimeout, List.countP_cons]; omega

@[simp] theorem isHit_upd (s : St) : isHit (upd s) = false := rfl
@[simp] theorem isComplete_upd (s : St) : isComplete (upd s) = false := rfl
@[simp] theorem isTimeout_upd (s : St) : isTimeout (upd s) = false := rfl
@[simp] theorem isHit_refused : isHit .refused = false := rfl
@[simp] theorem isComplete_refused : isComplete .refused = false := rfl
@[simp] theorem isTimeout_refused : isTimeout .refused = false := rfl

/-- everything `afterComplete` posts is an `updated` event -/
theorem afterComplete_obs (c : Cfg) (s : St) :
    nHit (afterComplete c s).2 = 0 ∧ nComplete (afterComplete c s).2 = 0 ∧ nTimeout (afterComplete c s).2 = 0 := by
  cases hr : c.resetOnComplete <;> cases hd : c.disableOnComplete <;>
    simp [afterComplete, reset, disable, hr, hd]

theorem complete_obs (c : Cfg) (s : St) :
    nHit (complete c s).2 = 0 ∧ nTimeout (complete c s).2 = 0 ∧
    nComplete (complete c s).2 = (if s.completed then 0 else 1) := by
  have h := afterComplete_obs c { s with completed := true, timeoutDue := none }
  cases hc : s.completed <;> simp [complete, hc, isHit, isComplete, isTimeout, h.1, h.2.1, h.2.2]

/-- what `complete` leaves behind when it runs (block was not completed) -/
structure AfterCompletion (c : Cfg) (s s' : St) : Prop where
  reset_value : c.resetOnComplete = true → s'.value = startVal c ∧ s'.flags = startFlags c ∧ s'.completed = false
  no_reset : c.resetOnComplete = false → s'.completed = true ∧ s'.value = s.value ∧ s'.flags = s.flags
  disabled : c.disableOnComplete = true → s'.enabled = false ∧ s'.timeoutDue = none
  not_disabled : c.disableOnComplete = false → s'.enabled = s.enabled
  timer_restarted : c.disableOnComplete = false → c.resetOnComplete = true → c.timeout ≠ 0 →
    s'.timeoutDue = some (s.now + c.timeout)
  timer_stopped : c.resetOnComplete = false → s'.timeoutDue = none
  window_kept : s'.windowUntil = s.windowUntil
  now_kept : s'.now = s.now
  loaded_kept : s'.loaded = s.loaded

theorem complete_state (c : Cfg) (s : St) (h : s.completed = false) : AfterCompletion c s (complete c s).1 := by
  cases hr : c.resetOnComplete <;> cases hd : c.disableOnComplete <;>
    constructor <;> simp [complete, afterComplete, reset, disable, timerStart, h, hr, hd] <;>
    (try split) <;> simp_all

theorem complete_noop (c : Cfg) (s : St) (h : s.completed = true) : complete c s = (s, []) := by
  simp [complete, h]


/-! ### hits -/

@[simp] theorem isHit_hit (n : Int) (e : Option (Int × Int)) : isHit (.hit n e) = true := rfl
@[simp] theorem isHit_hitStep (n : Int) : isHit (.hitStep n) = true := rfl
@[simp] theorem isHit_complete : isHit .complete = false := rfl
@[simp] theorem isHit_timeout : isHit .timeout = false := rfl
@[simp] theorem isComplete_hit (n : Int) (e : Option (Int × Int)) : isComplete (.hit n e) = false := rfl
@[simp] theorem isComplete_hitStep (n : Int) : isComplete (.hitStep n) = false := rfl
@[simp] theorem isComplete_complete : isComplete .complete = true := rfl
@[simp] theorem isComplete_timeout : isComplete .timeout = false := rfl
@[simp] theorem isTimeout_hit (n : Int) (e : Option (Int × Int)) : isTimeout (.hit n e) = false := rfl
@[simp] theorem isTimeout_hitStep (n : Int) : isTimeout (.hitStep n) = false := rfl
@[simp] theorem isTimeout_complete : isTimeout .complete = false := rfl
@[simp] theorem isTimeout_timeout : isTimeout .timeout = true := rfl

@[simp] theorem nHit_ite_complete (c : Cfg) (s : St) (p : Prop) [Decidable p] :
    nHit (if p then complete c s else (s, [])).2 = 0 := by
  split <;> simp [(complete_obs c s).1]

@[simp] theorem nTimeout_ite_complete (c : Cfg) (s : St) (p : Prop) [Decidable p] :
    nTimeout (if p then complete c s else (s, [])).2 = 0 := by
  split <;> simp [(complete_obs c s).2.1]

theorem nComplete_ite_complete (c : Cfg) (s : St) (p : Prop) [Decidable p] :
    nComplete (if p then complete c s else (s, [])).2 = if p ∧ s.completed = false then 1 else 0 := by
  by_cases h : p <;> simp [h, (complete_obs c s).2.2]
  cases s.completed <;> simp

theorem clock_obs (s : St) : nHit (clock s).2 = 0 ∧ nComplete (clock s).2 = 0 ∧ nTimeout (clock s).2 = 0 := by
  unfold clock; split <;> simp

theorem fireW_obs (s : St) : nHit (fireW s).2 = 0 ∧ nComplete (fireW s).2 = 0 ∧ nTimeout (fireW s).2 = 0 := by
  unfold fireW; split <;> simp

theorem fireT_obs (c : Cfg) (s : St) : nHit (fireT c s).2 = 0 ∧ nComplete (fireT c s).2 = 0 := by
  unfold fireT; split <;> simp [reset]

/-- the op is a hit that the block accepts in this state -/
def acceptedHit (c : Cfg) (s : St) : Op → Bool
  | .count => c.kind = .counter && accepted s
  | .hit k =>
    match c.kind with
    | .accrual => s.loaded && s.enabled && !getFlag s.flags k
    | .sequence => s.loaded && s.enabled && decide ((k : Int) = s.value)
    | .counter => false
  | .advr k => c.kind = .accrual && s.loaded && s.enabled && !getFlag s.flags k
  | _ => false

theorem step_nHit (c : Cfg) (s : St) (op : Op) :
    nHit (step c s op).2 = if acceptedHit c s op then 1 else 0 := by
  cases hl : s.loaded
  · cases op <;> simp [step, stepUnloaded, hl, acceptedHit, accepted, load, enable]
    · cases c.kind <;> simp
    · cases c.startEnabled <;> simp
  · cases op with
    | count =>
      cases hk : c.kind <;> simp [step, stepLoaded, hl, hk, acceptedHit, accepted]
      cases he : s.enabled <;> cases hw : s.windowUntil <;> simp [count, he, hw]
    | hit k =>
      cases hk : c.kind <;> simp [step, stepLoaded, hl, hk, acceptedHit]
      · cases he : s.enabled <;> simp [accrualHit, he]
        cases hg : getFlag s.flags k <;> simp
      · cases he : s.enabled <;> simp [sequenceHit, he]
        by_cases hv : (k : Int) = s.value <;> simp [hv]
    | enable => simp [step, stepLoaded, hl, enable, acceptedHit]
    | disable => simp [step, stepLoaded, hl, disable, acceptedHit]
    | reset => simp [step, stepLoaded, hl, reset, acceptedHit]
    | restart => simp [step, stepLoaded, hl, restart, reset, enable, acceptedHit]
    | add n => cases hk : c.kind <;> simp [step, stepLoaded, hl, hk, adjust, acceptedHit]
    | sub n => cases hk : c.kind <;> simp [step, stepLoaded, hl, hk, adjust, acceptedHit]
    | set n => cases hk : c.kind <;> simp [step, stepLoaded, hl, hk, adjust, acceptedHit]
    | clock => simp [step, stepLoaded, hl, acceptedHit, (clock_obs s).1]
    | fireW => simp [step, stepLoaded, hl, acceptedHit, (fireW_obs s).1]
    | fireT => simp [step, stepLoaded, hl, acceptedHit, (fireT_obs c s).1]
    | advr k =>
      cases hk : c.kind <;> simp [step, stepLoaded, hl, hk, acceptedHit]
      cases hg : getFlag s.flags k <;> simp
      cases he : s.enabled <;> simp [accrualHit, he, hg]
    | unload => simp [step, stepLoaded, hl, acceptedHit]
    | load => simp [step, stepLoaded, hl, acceptedHit]

/-- a counter hit that is not accepted changes nothing and posts nothing -/
theorem count_rejected (c : Cfg) (s : St) (h : accepted s = false) : step c s .count = (s, []) := by
  cases hl : s.loaded <;> simp [step, stepLoaded, stepUnloaded, hl]
  cases hk : c.kind <;> simp
  cases he : s.enabled <;> cases hw : s.windowUntil <;> simp_all [count, accepted]

/-! ### completion -/

theorem step_nComplete (c : Cfg) (s : St) (op : Op) :
    nComplete (step c s op).2 = if reaches c s op && !s.completed then 1 else 0 := by
  cases hl : s.loaded
  · cases op <;> simp [step, stepUnloaded, hl, reaches, accepted, load, enable]
    · cases c.kind <;> simp
    · cases c.startEnabled <;> simp
  · cases op with
    | count =>
      cases hk : c.kind <;> simp [step, stepLoaded, hl, hk, reaches, accepted]
      cases he : s.enabled <;> cases hw : s.windowUntil <;> simp [count, he, hw, nComplete_ite_complete]
    | hit k =>
      cases hk : c.kind <;> simp [step, stepLoaded, hl, hk, reaches]
      · cases he : s.enabled <;> simp [accrualHit, he]
        cases hg : getFlag s.flags k <;> simp [nComplete_ite_complete]
      · cases he : s.enabled <;> simp [sequenceHit, he]
        by_cases hv : (k : Int) = s.value <;> simp [hv, nComplete_ite_complete]
    | enable => simp [step, stepLoaded, hl, enable, reaches]
    | disable => simp [step, stepLoaded, hl, disable, reaches]
    | reset => simp [step, stepLoaded, hl, reset, reaches]
    | restart => simp [step, stepLoaded, hl, restart, reset, enable, reaches]
    | add n => cases hk : c.kind <;> simp [step, stepLoaded, hl, hk, adjust, reaches, nComplete_ite_complete]
    | sub n => cases hk : c.kind <;> simp [step, stepLoaded, hl, hk, adjust, reaches, nComplete_ite_complete]
    | set n => cases hk : c.kind <;> simp [step, stepLoaded, hl, hk, adjust, reaches, nComplete_ite_complete]
    | clock => simp [step, stepLoaded, hl, reaches, (clock_obs s).2.1]
    | fireW => simp [step, stepLoaded, hl, reaches, (fireW_obs s).2.1]
    | fireT => simp [step, stepLoaded, hl, reaches, (fireT_obs c s).2]
    | advr k =>
      cases hk : c.kind <;> simp [step, stepLoaded, hl, hk, reaches]
      cases hg : getFlag s.flags k <;> simp
      cases he : s.enabled <;> simp [accrualHit, he, hg, nComplete_ite_complete]
    | unload => simp [step, stepLoaded, hl, reaches]
    | load => simp [step, stepLoaded, hl, reaches]


/-! ### the value ledger of a counter -/

theorem ite_complete_value (c : Cfg) (s : St) (p : Prop) [Decidable p] :
    (if p then complete c s else (s, [])).1.value =
      if p ∧ s.completed = false ∧ c.resetOnComplete = true then startVal c else s.value := by
  by_cases h : p <;> simp [h]
  cases hc : s.completed
  · have := complete_state c s hc
    cases hr : c.resetOnComplete <;> simp
    · exact (this.no_reset hr).2.1
    · exact (this.reset_value hr).1
  · simp [complete_noop c s hc]

theorem complete_value (c : Cfg) (s : St) :
    (complete c s).1.value = if s.completed = false ∧ c.resetOnComplete = true then startVal c else s.value := by
  have := ite_complete_value c s True
  simpa using this

theorem ite_complete_loaded (c : Cfg) (s : St) (p : Prop) [Decidable p] :
    (if p then complete c s else (s, [])).1.loaded = s.loaded := by
  by_cases h : p <;> simp [h]
  cases hc : s.completed
  · exact (complete_state c s hc).loaded_kept
  · simp [complete_noop c s hc]

/-- start value and accepted hits since the last reset (`base` also absorbs explicit add / subtract / jump) -/
structure Ledger where
  base : Int
  hits : Nat
  deriving DecidableEq, Repr

def Ledger.value (c : Cfg) (l : Ledger) : Int := l.base + hv c * (l.hits : Int)

def isResetOp : Op → Bool
  | .reset => true
  | .restart => true
  | _ => false

/-- Bookkeeping from what can be seen from outside: the op and the events the step posted.  A reset is visible as the
reset / restart op, a timeout event, a completion event of a block with `reset_on_complete`, or a mode start. -/
def ledgerStep (c : Cfg) (l : Ledger) (op : Op) (obs : List Obs) : Ledger :=
  if isResetOp op || nTimeout obs != 0 || (c.resetOnComplete && nComplete obs != 0) then ⟨c.start, 0⟩ else
  match op with
  | .count => ⟨l.base, l.hits + nHit obs⟩
  | .add n => ⟨l.base + n, l.hits⟩
  | .sub n => ⟨l.base - n, l.hits⟩
  | .set n => ⟨n, 0⟩
  | .load => if obs.isEmpty then l else ⟨c.start, 0⟩
  | _ => l

def ledgerRun (c : Cfg) : Ledger → List (Op × List Obs) → Ledger
  | l, [] => l
  | l, x :: r => ledgerRun c (ledgerStep c l x.1 x.2) r

theorem fireT_value (c : Cfg) (s : St) :
    (fireT c s).1.loaded = s.loaded ∧
    (fireT c s).1.value = (if s.timeoutDue = some s.now then startVal c else s.value) ∧
    nTimeout (fireT c s).2 = (if s.timeoutDue = some s.now then 1 else 0) := by
  unfold fireT
  by_cases ht : s.timeoutDue = some s.now <;> simp [ht, reset, timerStart] <;> split <;> simp

theorem clock_value (s : St) : (clock s).1.loaded = s.loaded ∧ (clock s).1.value = s.value := by
  unfold clock; split <;> simp

theorem fireW_value (s : St) : (fireW s).1.loaded = s.loaded ∧ (fireW s).1.value = s.value := by
  unfold fireW; split <;> simp

theorem ledger_step (c : Cfg) (s : St) (l : Ledger) (op : Op) (hk : c.kind = .counter)
    (inv : s.loaded = true → s.value = l.value c) (hl' : (step c s op).1.loaded = true) :
    (step c s op).1.value = (ledgerStep c l op (step c s op).2).value c := by
  have hs : startVal c = c.start := by simp [startVal, hk]
  cases hl : s.loaded
  · cases op <;> simp_all [step, stepUnloaded, load, enable, timerStart, ledgerStep, isResetOp, Ledger.value]
    cases c.startEnabled <;> simp <;> split <;> simp
  · have iv := inv hl
    cases op with
    | count =>
      simp only [step, stepLoaded, hl, hk]
      cases he : s.enabled <;> cases hw : s.windowUntil <;>
        simp [count, he, hw, ledgerStep, isResetOp, iv, Ledger.value, startWindow, nComplete_ite_complete,
          ite_complete_value, hs]
      cases hg : goalReached c (l.base + hv c * (l.hits : Int) + hv c) <;> cases hc : s.completed <;>
          cases hr : c.resetOnComplete <;> simp [Int.mul_add, complete_value, hs] <;> (try split) <;>
          (try simp [Int.mul_add, complete_value, hs, hc, hr]) <;> (try omega)
    | hit k => simp [step, stepLoaded, hl, hk, ledgerStep, isResetOp, iv]
    | enable => simp [step, stepLoaded, hl, enable, timerStart, ledgerStep, isResetOp, iv]; split <;> simp
    | disable => simp [step, stepLoaded, hl, disable, ledgerStep, isResetOp, iv]
    | reset => simp [step, stepLoaded, hl, reset, timerStart, ledgerStep, isResetOp, Ledger.value, hs]; split <;> simp [hs]
    | restart =>
      simp [step, stepLoaded, hl, restart, reset, enable, timerStart, ledgerStep, isResetOp, Ledger.value, hs]
      split <;> simp [hs]
    | add n =>
      simp [step, stepLoaded, hl, hk, adjust, ledgerStep, isResetOp, iv, Ledger.value, nComplete_ite_complete,
        ite_complete_value, hs]
      cases hg : goalReached c (l.base + hv c * (l.hits : Int) + n) <;> cases hc : s.completed <;>
        cases hr : c.resetOnComplete <;> simp <;> omega
    | sub n =>
      simp [step, stepLoaded, hl, hk, adjust, ledgerStep, isResetOp, iv, Ledger.value, nComplete_ite_complete,
        ite_complete_value, hs]
      cases hg : goalReached c (l.base + hv c * (l.hits : Int) - n) <;> cases hc : s.completed <;>
        cases hr : c.resetOnComplete <;> simp <;> omega
    | set n =>
      simp [step, stepLoaded, hl, hk, adjust, ledgerStep, isResetOp, iv, Ledger.value, nComplete_ite_complete,
        ite_complete_value, hs]
      cases hg : goalReached c n <;> cases hc : s.completed <;> cases hr : c.resetOnComplete <;> simp
    | clock => simp [step, stepLoaded, hl, ledgerStep, isResetOp, iv, (clock_value s).2, (clock_obs s).2.1, (clock_obs s).2.2]
    | fireW => simp [step, stepLoaded, hl, ledgerStep, isResetOp, iv, (fireW_value s).2, (fireW_obs s).2.1, (fireW_obs s).2.2]
    | fireT =>
      have t := fireT_value c s
      simp [step, stepLoaded, hl, ledgerStep, isResetOp, iv, Ledger.value, t.2.1, t.2.2, (fireT_obs c s).2, hs]
      split <;> simp
    | advr k => simp [step, stepLoaded, hl, hk, ledgerStep, isResetOp, iv]
    | unload => simp [step, stepLoaded, hl, unload] at hl'
    | load => simp [step, stepLoaded, hl, ledgerStep, isResetOp, iv]


/-! ### after a completion -/

/-- the state right after a step that completed the block, relative to the state `s` before the step -/
structure PostCompletion (c : Cfg) (s s' : St) : Prop where
  reset_done : c.resetOnComplete = true → s'.completed = false ∧ s'.value = startVal c ∧ s'.flags = startFlags c
  stays_completed : c.resetOnComplete = false → s'.completed = true ∧ s'.timeoutDue = none
  disabled : c.disableOnComplete = true → s'.enabled = false ∧ s'.timeoutDue = none
  stays_enabled : c.disableOnComplete = false → s'.enabled = s.enabled
  timer_restarted : c.disableOnComplete = false → c.resetOnComplete = true → c.timeout ≠ 0 →
    s'.timeoutDue = some (s.now + c.timeout)

theorem post_of_after (c : Cfg) (s s1 s' : St) (h : AfterCompletion c s1 s') (he : s1.enabled = s.enabled)
    (hn : s1.now = s.now) : PostCompletion c s s' :=
  ⟨fun hr => ⟨(h.reset_value hr).2.2, (h.reset_value hr).1, (h.reset_value hr).2.1⟩,
   fun hr => ⟨(h.no_reset hr).1, h.timer_stopped hr⟩, h.disabled, fun hd => he ▸ h.not_disabled hd,
   fun hd hr ht => hn ▸ h.timer_restarted hd hr ht⟩

theorem post_startWindow (c : Cfg) (s s' : St) (h : PostCompletion c s s') : PostCompletion c s (startWindow c s') := by
  unfold startWindow
  split
  · exact h
  · exact ⟨h.reset_done, h.stays_completed, h.disabled, h.stays_enabled, h.timer_restarted⟩

theorem step_post (c : Cfg) (s : St) (op : Op) (hr : reaches c s op = true) (hc : s.completed = false) :
    PostCompletion c s (step c s op).1 := by
  cases op with
  | count =>
    simp only [reaches, accepted, Bool.and_eq_true, decide_eq_true_eq, Option.isNone_iff_eq_none] at hr
    obtain ⟨⟨hk, ⟨hl, he⟩, hw⟩, hg⟩ := hr
    simp only [step, stepLoaded, hl, hk, count, he, hw, hg]
    simp only [Bool.true_eq_false, if_false, Option.isSome_none, if_true]
    exact post_startWindow c s _ (post_of_after c s _ _ (complete_state c _ hc) he.symm rfl)
  | add n =>
    simp only [reaches, Bool.and_eq_true, decide_eq_true_eq] at hr
    obtain ⟨⟨hk, hl⟩, hg⟩ := hr
    simp only [step, stepLoaded, hl, hk, adjust, hg]
    simp only [Bool.true_eq_false, if_false, if_true]
    exact post_of_after c s _ _ (complete_state c _ hc) rfl rfl
  | sub n =>
    simp only [reaches, Bool.and_eq_true, decide_eq_true_eq] at hr
    obtain ⟨⟨hk, hl⟩, hg⟩ := hr
    simp only [step, stepLoaded, hl, hk, adjust, hg]
    simp only [Bool.true_eq_false, if_false, if_true]
    exact post_of_after c s _ _ (complete_state c _ hc) rfl rfl
  | set n =>
    simp only [reaches, Bool.and_eq_true, decide_eq_true_eq] at hr
    obtain ⟨⟨hk, hl⟩, hg⟩ := hr
    simp only [step, stepLoaded, hl, hk, adjust, hg]
    simp only [Bool.true_eq_false, if_false, if_true]
    exact post_of_after c s _ _ (complete_state c _ hc) rfl rfl
  | hit k =>
    cases hk : c.kind
    · simp [reaches, hk] at hr
    · simp only [reaches, hk, Bool.and_eq_true] at hr
      obtain ⟨⟨hl, he⟩, ha⟩ := hr
      simp only [step, stepLoaded, hl, hk, accrualHit, he]
      simp only [Bool.true_eq_false, if_false]
      cases hg : getFlag s.flags k
      · simp only [hg, Bool.false_eq_true, if_false] at ha ⊢
        simp only [ha, if_true]
        exact post_of_after c s _ _ (complete_state c _ hc) he.symm rfl
      · simp only [hg, if_true] at ha ⊢
        simp only [ha, if_true]
        exact post_of_after c s _ _ (complete_state c _ hc) rfl rfl
    · simp only [reaches, hk, Bool.and_eq_true, decide_eq_true_eq] at hr
      obtain ⟨⟨⟨hl, he⟩, hv⟩, hs⟩ := hr
      simp only [step, stepLoaded, hl, hk, sequenceHit, he, hv, hs]
      simp only [Bool.true_eq_false, if_false, ne_eq, not_true_eq_false, decide_true, if_true]
      exact post_of_after c s _ _ (complete_state c _ hc) he.symm rfl
  | enable => simp [reaches] at hr
  | disable => simp [reaches] at hr
  | reset => simp [reaches] at hr
  | restart => simp [reaches] at hr
  | clock => simp [reaches] at hr
  | fireW => simp [reaches] at hr
  | fireT => simp [reaches] at hr
  | advr k =>
    simp only [reaches, Bool.and_eq_true, decide_eq_true_eq, Bool.not_eq_true'] at hr
    obtain ⟨⟨⟨⟨hk, hl⟩, he⟩, hg⟩, ha⟩ := hr
    simp only [step, stepLoaded, hl, hk, accrualHit, he, hg]
    simp only [Bool.true_eq_false, Bool.false_eq_true, if_false, ha, if_true]
    exact post_of_after c s _ _ (complete_state c _ hc) he.symm rfl
  | unload => simp [reaches] at hr
  | load => simp [reaches] at hr


/-! ### the hit window -/

/-- a pending window deadline is not in the past, at most `multiple_hit_window` away (and only a present block has one) -/
def WindowOk (c : Cfg) (s : St) : Prop :=
  (s.loaded = false → s.windowUntil = none) ∧ ∀ d, s.windowUntil = some d → s.now ≤ d ∧ d ≤ s.now + c.window

theorem step_loaded (c : Cfg) (s : St) (op : Op) (hl : s.loaded = true) : step c s op = stepLoaded c s op := by
  simp [step, hl]

theorem step_unloaded (c : Cfg) (s : St) (op : Op) (hl : s.loaded = false) : step c s op = stepUnloaded c s op := by
  simp [step, hl]

theorem complete_window (c : Cfg) (s : St) :
    (complete c s).1.windowUntil = s.windowUntil ∧ (complete c s).1.now = s.now ∧ (complete c s).1.loaded = s.loaded := by
  cases hc : s.completed
  · exact ⟨(complete_state c s hc).window_kept, (complete_state c s hc).now_kept, (complete_state c s hc).loaded_kept⟩
  · simp [complete_noop c s hc]

theorem ite_complete_window (c : Cfg) (s : St) (p : Prop) [Decidable p] :
    (if p then complete c s else (s, [])).1.windowUntil = s.windowUntil ∧
    (if p then complete c s else (s, [])).1.now = s.now ∧
    (if p then complete c s else (s, [])).1.loaded = s.loaded := by
  by_cases h : p <;> simp [h, complete_window]

/-- the counter state after the value change of an accepted hit -/
def bump (c : Cfg) (s : St) : St := { s with value := s.value + hv c }

theorem count_accepted (c : Cfg) (s : St) (he : s.enabled = true) (hw : s.windowUntil = none) :
    count c s =
      (startWindow c (if goalReached c (bump c s).value then complete c (bump c s) else (bump c s, [])).1,
       upd (bump c s) :: Obs.hit (bump c s).value (hitArgs c (bump c s).value) ::
         (if goalReached c (bump c s).value then complete c (bump c s) else (bump c s, [])).2) := by
  unfold count
  rw [if_neg (by simp [he]), if_neg (by simp [hw])]
  rfl

theorem count_ignored (c : Cfg) (s : St) (h : s.enabled = false ∨ s.windowUntil.isSome = true) : count c s = (s, []) := by
  unfold count
  rcases h with h | h
  · rw [if_pos h]
  · split
    · rfl
    · first | rfl | rw [if_pos h]

theorem accrualHit_frame (c : Cfg) (s : St) (k : Nat) :
    (accrualHit c s k).1.windowUntil = s.windowUntil ∧ (accrualHit c s k).1.now = s.now ∧
    (accrualHit c s k).1.loaded = s.loaded := by
  unfold accrualHit
  by_cases he : s.enabled = false
  · rw [if_pos he]; exact ⟨rfl, rfl, rfl⟩
  · rw [if_neg he]
    by_cases hg : getFlag s.flags k = true
    · rw [if_pos hg]; exact ite_complete_window c s _
    · rw [if_neg hg]; exact ite_complete_window c { s with flags := setFlag s.flags k } _

theorem sequenceHit_frame (c : Cfg) (s : St) (k : Nat) :
    (sequenceHit c s k).1.windowUntil = s.windowUntil ∧ (sequenceHit c s k).1.now = s.now ∧
    (sequenceHit c s k).1.loaded = s.loaded := by
  unfold sequenceHit
  by_cases he : s.enabled = false
  · rw [if_pos he]; exact ⟨rfl, rfl, rfl⟩
  · rw [if_neg he]
    by_cases hv : (k : Int) ≠ s.value
    · rw [if_pos hv]; exact ⟨rfl, rfl, rfl⟩
    · rw [if_neg hv]; exact ite_complete_window c { s with value := s.value + 1 } _

theorem adjust_frame (c : Cfg) (s : St) (v : Int) :
    (adjust c s v).1.windowUntil = s.windowUntil ∧ (adjust c s v).1.now = s.now ∧
    (adjust c s v).1.loaded = s.loaded := by
  unfold adjust
  exact ite_complete_window c { s with value := v } _

/-- a state transformer that keeps clock, window and presence keeps the invariant -/
theorem windowOk_of_same (c : Cfg) (s s' : St) (h : WindowOk c s) (hw : s'.windowUntil = s.windowUntil)
    (hn : s'.now = s.now) (hl : s'.loaded = s.loaded) : WindowOk c s' := by
  unfold WindowOk at *
  rw [hw, hn, hl]; exact h

theorem step_window (c : Cfg) (s : St) (op : Op) (h : WindowOk c s) : WindowOk c (step c s op).1 := by
  cases hl : s.loaded
  · rw [step_unloaded c s op hl]
    have hn := h.1 hl
    cases op <;> try exact h
    · simp [stepUnloaded, WindowOk, hn]
    · simp only [stepUnloaded, load]
      cases c.startEnabled <;> simp [WindowOk, enable, timerStart] <;> split <;> simp
  · rw [step_loaded c s op hl]
    cases op with
    | count =>
      cases hk : c.kind <;> simp only [stepLoaded, hk] <;> try exact h
      cases he : s.enabled
      · rw [count_ignored c s (Or.inl he)]; exact h
      · cases hw : s.windowUntil
        · rw [count_accepted c s he hw]
          have k := ite_complete_window c (bump c s) (goalReached c (bump c s).value = true)
          unfold startWindow
          split
          · exact windowOk_of_same c s _ h k.1 k.2.1 k.2.2
          · refine ⟨fun hf => ?_, fun d hd => ?_⟩
            · have := k.2.2; simp only [bump] at this hf; rw [this, hl] at hf; exact absurd hf (by simp)
            · simp only [Option.some.injEq] at hd
              have := k.2.1; simp only [bump] at this hd ⊢; rw [this] at hd ⊢
              omega
        · rw [count_ignored c s (Or.inr (by simp [hw]))]; exact h
    | hit k =>
      cases hk : c.kind <;> simp only [stepLoaded, hk] <;> try exact h
      · have f := accrualHit_frame c s k; exact windowOk_of_same c s _ h f.1 f.2.1 f.2.2
      · have f := sequenceHit_frame c s k; exact windowOk_of_same c s _ h f.1 f.2.1 f.2.2
    | enable => simp only [stepLoaded, enable, timerStart]; split <;> exact h
    | disable => exact h
    | reset => simp only [stepLoaded, reset, timerStart]; split <;> exact h
    | restart => simp only [stepLoaded, restart, reset, enable, timerStart]; split <;> exact h
    | add n =>
      cases hk : c.kind <;> simp only [stepLoaded, hk] <;> try exact h
      have f := adjust_frame c s (s.value + n); exact windowOk_of_same c s _ h f.1 f.2.1 f.2.2
    | sub n =>
      cases hk : c.kind <;> simp only [stepLoaded, hk] <;> try exact h
      have f := adjust_frame c s (s.value - n); exact windowOk_of_same c s _ h f.1 f.2.1 f.2.2
    | set n =>
      cases hk : c.kind <;> simp only [stepLoaded, hk] <;> try exact h
      have f := adjust_frame c s (n); exact windowOk_of_same c s _ h f.1 f.2.1 f.2.2
    | clock =>
      simp only [stepLoaded, clock]
      split
      · exact h
      · rename_i hg
        refine ⟨fun hf => ?_, fun d hd => ?_⟩
        · simp [hl] at hf
        · simp only at hd ⊢
          have := h.2 d hd
          have : d ≠ s.now := fun e => hg (Or.inl (e ▸ hd))
          omega
    | fireW =>
      simp only [stepLoaded, fireW]
      split
      · exact ⟨fun _ => rfl, fun d hd => by simp at hd⟩
      · exact h
    | fireT =>
      simp only [stepLoaded, fireT]
      split
      · simp only [reset, timerStart]; split <;> exact h
      · exact h
    | advr k =>
      cases hk : c.kind <;> simp only [stepLoaded, hk] <;> try exact h
      split
      · exact h
      · have f := accrualHit_frame c s k; exact windowOk_of_same c s _ h f.1 f.2.1 f.2.2
    | unload => simp [stepLoaded, unload, WindowOk]
    | load => exact h

theorem run_window (c : Cfg) (s : St) (ops : List Op) (h : WindowOk c s) : WindowOk c (run c s ops).1 := by
  induction ops generalizing s with
  | nil => exact h
  | cons op r ih => exact ih _ (step_window c s op h)

/-- at its deadline the window blocks the clock until `stop_ignoring_hits` has run, which reopens it -/
theorem window_deadline (c : Cfg) (s : St) (hl : s.loaded = true) (hw : s.windowUntil = some s.now) :
    step c s .clock = (s, [Obs.refused]) ∧ (step c s .fireW).1.windowUntil = none := by
  rw [step_loaded c s _ hl, step_loaded c s _ hl]
  simp [stepLoaded, clock, fireW, hw]


/-! ### accruals: steps in any order -/

/-- the flags after hits on the steps `ks` (no completion in between) -/
def marks (f : List Bool) (ks : List Nat) : List Bool := ks.foldl setFlag f

theorem setFlag_of_get (f : List Bool) (k : Nat) (h : getFlag f k = true) : setFlag f k = f := by
  induction f generalizing k with
  | nil => rfl
  | cons b r ih =>
    cases k with
    | zero => simp [getFlag] at h; simp [setFlag, h]
    | succ m => simp [getFlag] at h; simp [setFlag, ih m h]

theorem setFlag_comm (f : List Bool) (a b : Nat) : setFlag (setFlag f a) b = setFlag (setFlag f b) a := by
  induction f generalizing a b with
  | nil => rfl
  | cons x r ih => cases a <;> cases b <;> simp [setFlag, ih]

theorem allTrue_setFlag (f : List Bool) (k : Nat) (h : allTrue f = true) : allTrue (setFlag f k) = true := by
  induction f generalizing k with
  | nil => rfl
  | cons b r ih =>
    simp [allTrue] at h
    cases k with
    | zero => simp [setFlag, allTrue, h.2]
    | succ m => simp [setFlag, allTrue, h.1, ih m h.2]

theorem allTrue_marks (f : List Bool) (ks : List Nat) (h : allTrue f = true) : allTrue (marks f ks) = true := by
  induction ks generalizing f with
  | nil => exact h
  | cons k r ih => exact ih _ (allTrue_setFlag f k h)

theorem marks_setFlag (f : List Bool) (ks : List Nat) (a : Nat) : marks (setFlag f a) ks = setFlag (marks f ks) a := by
  induction ks generalizing f with
  | nil => rfl
  | cons k r ih => simp only [marks, List.foldl_cons] at ih ⊢; rw [setFlag_comm, ih]

theorem marks_perm (f : List Bool) (ks ks' : List Nat) (h : ks.Perm ks') : marks f ks = marks f ks' := by
  induction h generalizing f with
  | nil => rfl
  | cons x _ ih => exact ih (setFlag f x)
  | swap x y l => simp only [marks, List.foldl_cons]; rw [setFlag_comm]
  | trans _ _ ih1 ih2 => rw [ih1, ih2]

/-- an accepted accrual step that does not complete the block only sets its flag -/
theorem accrual_step (c : Cfg) (s : St) (k : Nat) (hk : c.kind = .accrual) (hl : s.loaded = true)
    (he : s.enabled = true) (hn : allTrue (setFlag s.flags k) = false) :
    (step c s (.hit k)).1 = { s with flags := setFlag s.flags k } ∧ nComplete (step c s (.hit k)).2 = 0 := by
  rw [step_loaded c s _ hl]
  simp only [stepLoaded, hk]
  unfold accrualHit
  rw [if_neg (by simp [he])]
  by_cases hg : getFlag s.flags k = true
  · have e := setFlag_of_get s.flags k hg
    rw [e] at hn ⊢
    rw [if_pos hg]
    simp [hn]
  · rw [if_neg hg]
    simp [hn]

theorem accrual_run (c : Cfg) (s : St) (ks : List Nat) (hk : c.kind = .accrual) (hl : s.loaded = true)
    (he : s.enabled = true) (hn : allTrue (marks s.flags ks) = false) :
    (run c s (ks.map Op.hit)).1 = { s with flags := marks s.flags ks } ∧
    ((run c s (ks.map Op.hit)).2.map (fun x => nComplete x.2)).sum = 0 := by
  induction ks generalizing s with
  | nil => simp [run, marks]
  | cons k r ih =>
    have h1 : allTrue (setFlag s.flags k) = false := by
      cases h : allTrue (setFlag s.flags k)
      · rfl
      · have := allTrue_marks _ r h
        simp only [marks, List.foldl_cons] at hn this
        rw [this] at hn; exact absurd hn (by simp)
    have st := accrual_step c s k hk hl he h1
    simp only [List.map_cons, run, List.sum_cons]
    rw [st.1, st.2]
    have := ih { s with flags := setFlag s.flags k } hl he (by simpa [marks] using hn)
    simp only [marks, List.foldl_cons] at this ⊢
    simp [this.1, this.2]

/-! ### sequences: strict order -/

/-- the step a sequence waits for after the hits `ks`, starting at step `v` (no completion in between) -/
def seqAdv (v : Int) : List Nat → Int
  | [] => v
  | k :: r => if (k : Int) = v then seqAdv (v + 1) r else seqAdv v r

theorem seqAdv_ge (v : Int) (ks : List Nat) : v ≤ seqAdv v ks := by
  induction ks generalizing v with
  | nil => simp [seqAdv]
  | cons k r ih =>
    simp only [seqAdv]
    split
    · have := ih (v + 1); omega
    · exact ih v

theorem sequence_wrong_step (c : Cfg) (s : St) (k : Nat) (hk : c.kind = .sequence) (hv : (k : Int) ≠ s.value) :
    step c s (.hit k) = (s, []) := by
  cases hl : s.loaded
  · rw [step_unloaded c s _ hl]; rfl
  · rw [step_loaded c s _ hl]
    simp only [stepLoaded, hk]
    unfold sequenceHit
    split
    · rfl
    · first | rfl | rw [if_pos hv]

theorem sequence_right_step (c : Cfg) (s : St) (k : Nat) (hk : c.kind = .sequence) (hl : s.loaded = true)
    (he : s.enabled = true) (hv : (k : Int) = s.value) (hn : s.value + 1 < c.steps) :
    (step c s (.hit k)).1 = { s with value := s.value + 1 } ∧ nComplete (step c s (.hit k)).2 = 0 := by
  rw [step_loaded c s _ hl]
  simp only [stepLoaded, hk]
  unfold sequenceHit
  rw [if_neg (by simp [he]), if_neg (by simp [hv])]
  have : ¬ ((c.steps : Int) ≤ s.value + 1) := by omega
  simp [this]

theorem sequence_run (c : Cfg) (s : St) (ks : List Nat) (hk : c.kind = .sequence) (hl : s.loaded = true)
    (he : s.enabled = true) (hn : seqAdv s.value ks < c.steps) :
    (run c s (ks.map Op.hit)).1 = { s with value := seqAdv s.value ks } ∧
    ((run c s (ks.map Op.hit)).2.map (fun x => nComplete x.2)).sum = 0 := by
  induction ks generalizing s with
  | nil => simp [run, seqAdv]
  | cons k r ih =>
    simp only [List.map_cons, run, List.sum_cons]
    by_cases hv : (k : Int) = s.value
    · simp only [seqAdv, hv, if_true] at hn ⊢
      have hlt : s.value + 1 < c.steps := by have := seqAdv_ge (s.value + 1) r; omega
      have st := sequence_right_step c s k hk hl he hv hlt
      rw [st.1, st.2]
      have := ih { s with value := s.value + 1 } hl he hn
      simp [this.1, this.2]
    · simp only [seqAdv, hv, if_false] at hn ⊢
      rw [sequence_wrong_step c s k hk hv]
      have := ih s hl he hn
      simp [this.1, this.2]

/-! ## the block in its environment (`Sys`, `xstep`) -/

/-- the block method an extended op runs now (`none`: it does not run one - environment change, mode start / stop,
a refused clock tick or a delayed call that is not due) -/
def xcore (y : Sys) : XOp → Option Op
  | .core .unload => none
  | .core .load => none
  | .core .clock => if dueNow y.s.now y.pending then none else some .clock
  | .core o => some o
  | .fireD a k => (takeDue y.s.now a y.pending).map (fun _ => actOp a k)
  | _ => none

/-- the op is a hit - direct or a delayed call running now - that the block accepts -/
def acceptedX (y : Sys) (x : XOp) : Bool :=
  match xcore y x with | some o => acceptedHit y.c y.s o | none => false

/-- the op reaches the goal, as the completion template evaluates now, while the block is not completed -/
def reachesX (y : Sys) (x : XOp) : Bool :=
  match xcore y x with | some o => reaches y.c y.s o && !y.s.completed | none => false

theorem load_obs (c : Cfg) (s : St) :
    nHit (load c s).2 = 0 ∧ nComplete (load c s).2 = 0 ∧ nTimeout (load c s).2 = 0 := by
  cases h : c.startEnabled <;> simp [load, enable, h]

theorem startMode_obs (y : Sys) (p : Nat) :
    nHit (startMode y p).2 = 0 ∧ nComplete (startMode y p).2 = 0 ∧ nTimeout (startMode y p).2 = 0 := by
  unfold startMode
  split
  · simp
  · split
    · simp
    · exact load_obs _ _

/-- an extended op either runs exactly one block method on the current configuration, or posts no hit, completion
or timeout event at all -/
theorem xstep_core (y : Sys) (x : XOp) :
    match xcore y x with
    | some o => (xstep y x).2 = (step y.c y.s o).2 ∧ (xstep y x).1.s = (step y.c y.s o).1 ∧ (xstep y x).1.c = y.c
    | none => nHit (xstep y x).2 = 0 ∧ nComplete (xstep y x).2 = 0 ∧ nTimeout (xstep y x).2 = 0 := by
  cases x with
  | core o =>
    cases o <;> try (simp [xcore, xstep, startMode_obs]; done)
    by_cases h : dueNow y.s.now y.pending = true <;> simp [xcore, xstep, h]
  | dpost a d => simp only [xcore, xstep]; split <;> simp
  | fireD a k =>
    simp only [xcore, xstep]
    cases takeDue y.s.now a y.pending <;> simp
  | setStart n => simp [xcore, xstep]
  | setGoal g => simp [xcore, xstep]
  | stopMode => simp [xcore, xstep]
  | startMode p => simp [xcore, xstep, startMode_obs]
  | newGame => simp only [xcore, xstep]; split <;> simp
  | ctlNone => simp [xcore, xstep]

theorem xstep_nHit (y : Sys) (x : XOp) : nHit (xstep y x).2 = if acceptedX y x then 1 else 0 := by
  have h := xstep_core y x
  unfold acceptedX
  cases hx : xcore y x with
  | none => rw [hx] at h; simp [h.1]
  | some o => rw [hx] at h; simp only [h.1, step_nHit]

theorem xstep_nComplete (y : Sys) (x : XOp) : nComplete (xstep y x).2 = if reachesX y x then 1 else 0 := by
  have h := xstep_core y x
  unfold reachesX
  cases hx : xcore y x with
  | none => rw [hx] at h; simp [h.2.1]
  | some o => rw [hx] at h; simp only [h.1, step_nComplete]

/-! ### the value ledger over the extended ops -/

/-- the ledger of a counter seen from outside, plus what the `starting_count` template evaluates to now -/
structure XLedger where
  l : Ledger
  start : Int
  deriving DecidableEq, Repr

/-- the value the last `updated` event of a mode start announces -/
def announced (obs : List Obs) : Option Int :=
  match obs.getLast? with
  | some (.updated v _ _) => some v
  | _ => none

def restartLedger (xl : XLedger) (obs : List Obs) : XLedger :=
  match announced obs with
  | some v => ⟨⟨v, 0⟩, xl.start⟩
  | none => xl

/-- Bookkeeping from outside over the extended ops: a changed start variable is remembered and becomes the base at
the next reset; a mode start (fresh block or the player's stored state) restarts the ledger at the value it
announces; a delayed call that runs counts like the direct event; a refused one does not count. -/
def xledgerStep (c0 : Cfg) (xl : XLedger) (x : XOp) (obs : List Obs) : XLedger :=
  match x with
  | .setStart n => { xl with start := n }
  | .core .load => restartLedger xl obs
  | .startMode _ => restartLedger xl obs
  | .core .unload => xl
  | .core o => ⟨ledgerStep { c0 with start := xl.start } xl.l o obs, xl.start⟩
  | .fireD a k =>
    if obs.head? = some Obs.refused then xl
    else ⟨ledgerStep { c0 with start := xl.start } xl.l (actOp a k) obs, xl.start⟩
  | _ => xl

def xledgerRun (c0 : Cfg) : XLedger → List (XOp × List Obs) → XLedger
  | xl, [] => xl
  | xl, x :: r => xledgerRun c0 (xledgerStep c0 xl x.1 x.2) r

theorem ledgerStep_congr (c1 c2 : Cfg) (l : Ledger) (o : Op) (obs : List Obs) (h1 : c1.start = c2.start)
    (h2 : c1.resetOnComplete = c2.resetOnComplete) : ledgerStep c1 l o obs = ledgerStep c2 l o obs := by
  unfold ledgerStep; rw [h1, h2]

theorem value_congr (c1 c2 : Cfg) (l : Ledger) (h1 : c1.interval = c2.interval) (h2 : c1.down = c2.down) :
    l.value c1 = l.value c2 := by
  simp [Ledger.value, hv, h1, h2]

/-- what links the running system to the ledger -/
structure LedgerInv (c0 : Cfg) (y : Sys) (xl : XLedger) : Prop where
  kind : y.c.kind = .counter
  interval : y.c.interval = c0.interval
  down : y.c.down = c0.down
  roc : y.c.resetOnComplete = c0.resetOnComplete
  start : xl.start = y.c.start
  value : y.s.loaded = true → y.s.value = xl.l.value c0

/-- a block method never answers `refused` first (only a timer op or the clock can) -/
theorem act_not_refused (c : Cfg) (s : St) (a : Act) (k : Nat) :
    (step c s (actOp a k)).2.head? ≠ some Obs.refused := by
  cases hl : s.loaded
  · cases a <;> simp [actOp, step, stepUnloaded, hl]
  · cases a <;> simp [actOp, step, stepLoaded, hl, enable, disable, reset, restart, upd]
    · cases c.kind <;> simp
      unfold count
      split
      · simp
      · split <;> simp [upd]
    · cases c.kind <;> simp
      split
      · simp
      · unfold accrualHit
        split
        · simp
        · rename_i hg; simp [hg, upd]

theorem load_announced (c : Cfg) (s : St) : announced (load c s).2 = some (load c s).1.value := by
  cases h : c.startEnabled <;> simp [load, enable, announced, upd, h, timerStart] <;> split <;> simp

theorem ledgerInv_core (c0 : Cfg) (y : Sys) (xl : XLedger) (o : Op) (s' : St) (obs : List Obs)
    (inv : LedgerInv c0 y xl) (hs : s' = (step y.c y.s o).1) (ho : obs = (step y.c y.s o).2) (y' : Sys)
    (hy : y'.c = y.c) (hys : y'.s = s') :
    LedgerInv c0 y' ⟨ledgerStep { c0 with start := xl.start } xl.l o obs, xl.start⟩ := by
  refine ⟨hy ▸ inv.kind, hy ▸ inv.interval, hy ▸ inv.down, hy ▸ inv.roc, hy ▸ inv.start, fun hl => ?_⟩
  rw [hys, hs] at hl ⊢
  have iv : y.s.loaded = true → y.s.value = xl.l.value y.c := fun h => by
    rw [inv.value h]; exact (value_congr _ _ _ inv.interval inv.down).symm
  have := ledger_step y.c y.s xl.l o inv.kind iv hl
  rw [this, ho, value_congr _ c0 _ inv.interval inv.down]
  congr 1
  exact ledgerStep_congr _ _ _ _ _ (by simp [inv.start]) (by simp [inv.roc])

theorem startMode_inv (c0 : Cfg) (y : Sys) (xl : XLedger) (p : Nat) (inv : LedgerInv c0 y xl) :
    LedgerInv c0 (startMode y p).1 (restartLedger xl (startMode y p).2) := by
  unfold startMode
  split
  · simp only [restartLedger, announced]; exact inv
  · split
    · refine ⟨inv.kind, inv.interval, inv.down, inv.roc, ?_, ?_⟩
      · simp [restartLedger, announced, upd, inv.start]
      · intro _; simp [restartLedger, announced, upd, Ledger.value]
    · refine ⟨inv.kind, inv.interval, inv.down, inv.roc, ?_, ?_⟩
      · simp only [restartLedger, load_announced]; exact inv.start
      · intro _; simp only [restartLedger, load_announced]; simp [Ledger.value]

theorem stopMode_inv (c0 : Cfg) (y : Sys) (xl : XLedger) (inv : LedgerInv c0 y xl) : LedgerInv c0 (stopMode y) xl := by
  unfold stopMode
  split
  · exact inv
  · exact ⟨inv.kind, inv.interval, inv.down, inv.roc, inv.start, fun h => by simp [unload] at h⟩

theorem xledger_step (c0 : Cfg) (y : Sys) (xl : XLedger) (x : XOp) (inv : LedgerInv c0 y xl) :
    LedgerInv c0 (xstep y x).1 (xledgerStep c0 xl x (xstep y x).2) := by
  cases x with
  | core o =>
    cases o with
    | unload => exact stopMode_inv c0 y xl inv
    | load => exact startMode_inv c0 y xl y.cur inv
    | clock =>
      simp only [xstep, xledgerStep]
      split
      · refine ⟨inv.kind, inv.interval, inv.down, inv.roc, inv.start, fun h => ?_⟩
        simp [ledgerStep, isResetOp, inv.value h]
      · exact ledgerInv_core c0 y xl .clock _ _ inv rfl rfl _ rfl rfl
    | count => exact ledgerInv_core c0 y xl .count _ _ inv rfl rfl _ rfl rfl
    | hit k => exact ledgerInv_core c0 y xl (.hit k) _ _ inv rfl rfl _ rfl rfl
    | enable => exact ledgerInv_core c0 y xl .enable _ _ inv rfl rfl _ rfl rfl
    | disable => exact ledgerInv_core c0 y xl .disable _ _ inv rfl rfl _ rfl rfl
    | reset => exact ledgerInv_core c0 y xl .reset _ _ inv rfl rfl _ rfl rfl
    | restart => exact ledgerInv_core c0 y xl .restart _ _ inv rfl rfl _ rfl rfl
    | add n => exact ledgerInv_core c0 y xl (.add n) _ _ inv rfl rfl _ rfl rfl
    | sub n => exact ledgerInv_core c0 y xl (.sub n) _ _ inv rfl rfl _ rfl rfl
    | set n => exact ledgerInv_core c0 y xl (.set n) _ _ inv rfl rfl _ rfl rfl
    | fireW => exact ledgerInv_core c0 y xl .fireW _ _ inv rfl rfl _ rfl rfl
    | fireT => exact ledgerInv_core c0 y xl .fireT _ _ inv rfl rfl _ rfl rfl
    | advr k => exact ledgerInv_core c0 y xl (.advr k) _ _ inv rfl rfl _ rfl rfl
  | dpost a d =>
    simp only [xstep, xledgerStep]
    split
    · exact ⟨inv.kind, inv.interval, inv.down, inv.roc, inv.start, inv.value⟩
    · exact inv
  | fireD a k =>
    simp only [xstep, xledgerStep]
    rcases Option.eq_none_or_eq_some (takeDue y.s.now a y.pending) with ht | ⟨rest, ht⟩
    · simp only [ht]; simpa using inv
    · simp only [ht, if_neg (act_not_refused y.c y.s a k)]
      exact ledgerInv_core c0 y xl (actOp a k) _ _ inv rfl rfl _ rfl rfl
  | setStart n =>
    exact ⟨inv.kind, inv.interval, inv.down, inv.roc, rfl, inv.value⟩
  | setGoal g => exact ⟨inv.kind, inv.interval, inv.down, inv.roc, inv.start, inv.value⟩
  | stopMode => exact stopMode_inv c0 y xl inv
  | startMode p => exact startMode_inv c0 y xl p inv
  | newGame =>
    simp only [xstep, xledgerStep]
    split
    · exact inv
    · exact ⟨inv.kind, inv.interval, inv.down, inv.roc, inv.start, inv.value⟩
  | ctlNone => exact inv

/-! ### delayed control calls, stored states, the window over the extended ops -/

theorem takeDue_sub (now : Nat) (a : Act) (l rest : List (Nat × Act)) (h : takeDue now a l = some rest) :
    (∀ x ∈ rest, x ∈ l) ∧ rest.length + 1 = l.length := by
  induction l generalizing rest with
  | nil => simp [takeDue] at h
  | cons x r ih =>
    simp only [takeDue] at h
    split at h
    · simp only [Option.some.injEq] at h; subst h
      exact ⟨fun z hz => List.mem_cons_of_mem _ hz, rfl⟩
    · cases hr : takeDue now a r with
      | none => simp [hr] at h
      | some r' =>
        simp only [hr, Option.map_some, Option.some.injEq] at h; subst h
        have := ih r' hr
        refine ⟨fun z hz => ?_, by simp [this.2]⟩
        rcases List.mem_cons.mp hz with e | e
        · exact e ▸ List.mem_cons_self
        · exact List.mem_cons_of_mem _ (this.1 z e)

/-- no block method moves the clock; only `clock` does, by one tick -/
theorem step_now (c : Cfg) (s : St) (o : Op) : (step c s o).1.now = if o = .clock then (step c s o).1.now else s.now := by
  cases hl : s.loaded
  · cases o <;> simp [step, stepUnloaded, hl, load, enable, timerStart]
    cases c.startEnabled <;> simp <;> split <;> simp
  · rw [step_loaded c s o hl]
    cases o with
    | count =>
      cases hk : c.kind <;> simp only [stepLoaded, hk, reduceCtorEq, if_false] <;> try rfl
      cases he : s.enabled
      · rw [count_ignored c s (Or.inl he)]
      · cases hw : s.windowUntil
        · rw [count_accepted c s he hw]
          have k := ite_complete_window c (bump c s) (goalReached c (bump c s).value = true)
          unfold startWindow
          split
          · exact k.2.1
          · exact k.2.1
        · rw [count_ignored c s (Or.inr (by simp [hw]))]
    | hit k =>
      cases hk : c.kind <;> simp only [stepLoaded, hk, reduceCtorEq, if_false] <;> try rfl
      · exact (accrualHit_frame c s k).2.1
      · exact (sequenceHit_frame c s k).2.1
    | enable => simp [stepLoaded, enable, timerStart]; split <;> rfl
    | disable => simp [stepLoaded, disable]
    | reset => simp [stepLoaded, reset, timerStart]; split <;> rfl
    | restart => simp [stepLoaded, restart, reset, enable, timerStart]; split <;> rfl
    | add n =>
      cases hk : c.kind <;> simp only [stepLoaded, hk, reduceCtorEq, if_false] <;> try rfl
      exact (adjust_frame c s _).2.1
    | sub n =>
      cases hk : c.kind <;> simp only [stepLoaded, hk, reduceCtorEq, if_false] <;> try rfl
      exact (adjust_frame c s _).2.1
    | set n =>
      cases hk : c.kind <;> simp only [stepLoaded, hk, reduceCtorEq, if_false] <;> try rfl
      exact (adjust_frame c s _).2.1
    | clock => simp
    | fireW => simp [stepLoaded, fireW]; split <;> rfl
    | fireT => simp [stepLoaded, fireT, reset, timerStart]; split <;> (try split) <;> rfl
    | advr k =>
      cases hk : c.kind <;> simp only [stepLoaded, hk, reduceCtorEq, if_false] <;> try rfl
      split
      · rfl
      · exact (accrualHit_frame c s k).2.1
    | unload => simp [stepLoaded, unload]
    | load => simp [stepLoaded]

/-- no pending delayed call lies in the past -/
def PendingOk (y : Sys) : Prop := ∀ x ∈ y.pending, y.s.now ≤ x.1

theorem startMode_frame (y : Sys) (p : Nat) :
    (startMode y p).1.pending = y.pending ∧ (startMode y p).1.s.now = y.s.now ∧ (startMode y p).1.saved = y.saved := by
  unfold startMode
  split
  · simp
  · split
    · simp
    · simp [load]; cases y.c.startEnabled <;> simp [enable, timerStart] <;> split <;> simp

theorem xstep_core_other (y : Sys) (o : Op) (h1 : o ≠ .clock) (h2 : o ≠ .unload) (h3 : o ≠ .load) :
    xstep y (.core o) = ({ y with s := (step y.c y.s o).1 }, (step y.c y.s o).2) := by
  cases o <;> simp_all [xstep]

theorem xstep_pending (y : Sys) (x : XOp) (h : PendingOk y) : PendingOk (xstep y x).1 := by
  cases x with
  | core o =>
    by_cases hc : o = .clock
    · subst hc
      simp only [xstep]
      split
      · exact h
      · rename_i hd
        intro z hz
        have hz' : z ∈ y.pending := hz
        have h1 := h z hz'
        have h2 : z.1 ≠ y.s.now := fun e => hd (by simp only [dueNow, List.any_eq_true]; exact ⟨z, hz', by simp [e]⟩)
        have h3 : (step y.c y.s .clock).1.now ≤ y.s.now + 1 := by
          cases hl : y.s.loaded
          · simp [step, stepUnloaded, hl]
          · simp [step, stepLoaded, hl, clock]; split <;> simp
        show (step y.c y.s .clock).1.now ≤ z.1
        omega
    · by_cases hu : o = .unload
      · subst hu; simp only [xstep, stopMode]; split; exact h; intro z hz; simp at hz
      · by_cases hl : o = .load
        · subst hl
          simp only [xstep]; intro z hz
          have f := startMode_frame y y.cur
          rw [f.1] at hz; rw [f.2.1]; exact h z hz
        · rw [xstep_core_other y o hc hu hl]
          intro z hz
          have hn := step_now y.c y.s o
          simp only [hc, if_false] at hn
          show (step y.c y.s o).1.now ≤ z.1
          rw [hn]; exact h z hz
  | dpost a d =>
    simp only [xstep]
    split
    · intro z hz
      simp only [List.mem_append, List.mem_singleton] at hz
      rcases hz with hz | hz
      · exact h z hz
      · subst hz; simp
    · exact h
  | fireD a k =>
    simp only [xstep]
    rcases Option.eq_none_or_eq_some (takeDue y.s.now a y.pending) with ht | ⟨rest, ht⟩
    · simp only [ht]; exact h
    · simp only [ht]
      intro z hz
      have hz' : z ∈ rest := hz
      have hn := step_now y.c y.s (actOp a k)
      have : actOp a k ≠ .clock := by cases a <;> simp [actOp]
      simp only [this, if_false] at hn
      show (step y.c y.s (actOp a k)).1.now ≤ z.1
      rw [hn]; exact h z ((takeDue_sub _ _ _ _ ht).1 z hz')
  | setStart n => exact h
  | setGoal g => exact h
  | stopMode => simp only [xstep, stopMode]; split; exact h; intro z hz; simp at hz
  | startMode p =>
    simp only [xstep]; intro z hz
    have f := startMode_frame y p
    rw [f.1] at hz; rw [f.2.1]; exact h z hz
  | newGame => simp only [xstep]; split <;> exact h
  | ctlNone => exact h

theorem xrun_pending (y : Sys) (ops : List XOp) (h : PendingOk y) : PendingOk (xrun y ops).1 := by
  induction ops generalizing y with
  | nil => exact h
  | cons op r ih => exact ih _ (xstep_pending y op h)

theorem xstep_window (y : Sys) (x : XOp) (h : WindowOk y.c y.s) : WindowOk (xstep y x).1.c (xstep y x).1.s := by
  have k := xstep_core y x
  cases hx : xcore y x with
  | some o => rw [hx] at k; rw [k.2.1, k.2.2]; exact step_window y.c y.s o h
  | none =>
    cases x with
    | core o =>
      cases o <;> simp [xcore] at hx
      · simp only [xstep, hx, if_true]; exact h
      · simp only [xstep, stopMode]; split; exact h; simp [unload, WindowOk]
      · simp only [xstep, startMode]
        split; exact h
        split
        · simp [WindowOk]
        · have := step_window y.c y.s .load h
          rename_i hl _ _; simp only [Bool.not_eq_true] at hl
          rw [step_unloaded _ _ _ hl] at this; exact this
    | dpost a d => simp only [xstep]; split <;> exact h
    | fireD a k =>
      simp only [xstep]
      rcases Option.eq_none_or_eq_some (takeDue y.s.now a y.pending) with ht | ⟨rest, ht⟩
      · simp only [ht]; exact h
      · simp [xcore, ht] at hx
    | setStart n => exact h
    | setGoal g => exact h
    | stopMode => simp only [xstep, stopMode]; split; exact h; simp [unload, WindowOk]
    | startMode p =>
      simp only [xstep, startMode]
      split; exact h
      split
      · simp [WindowOk]
      · have := step_window y.c y.s .load h
        rename_i hl _ _; simp only [Bool.not_eq_true] at hl
        rw [step_unloaded _ _ _ hl] at this; exact this
    | newGame => simp only [xstep]; split <;> exact h
    | ctlNone => exact h

theorem xrun_window (y : Sys) (ops : List XOp) (h : WindowOk y.c y.s) : WindowOk (xrun y ops).1.c (xrun y ops).1.s := by
  induction ops generalizing y with
  | nil => exact h
  | cons op r ih => exact ih _ (xstep_window y op h)

end MpfVerif.LogicBlock
