import MpfVerif.Model.LogicBlock
/-! Helper definitions and per-step lemmas for C18 (logic blocks). -/
namespace MpfVerif.LogicBlock

/-! ### what is counted in a list of posted events -/

def isHit : Obs → Bool
  | .hit _ _ => true
  | .hitStep _ => true
  | _ => false

def isComplete : Obs → Bool
  | .complete => true
  | _ => false

def isTimeout : Obs → Bool
  | .timeout => true
  | _ => false

def nHit (l : List Obs) : Nat := l.countP isHit
def nComplete (l : List Obs) : Nat := l.countP isComplete
def nTimeout (l : List Obs) : Nat := l.countP isTimeout

/-- a hit on the block is accepted: block present, enabled, and (counter) outside its multiple-hit window -/
def accepted (s : St) : Bool := s.loaded && s.enabled && s.windowUntil.isNone

/-- this op, applied in this state, reaches the block's goal (whether or not the block is already completed) -/
def reaches (c : Cfg) (s : St) : Op → Bool
  | .count => c.kind = .counter && accepted s && goalReached c (s.value + hv c)
  | .add n => c.kind = .counter && s.loaded && goalReached c (s.value + n)
  | .sub n => c.kind = .counter && s.loaded && goalReached c (s.value - n)
  | .set n => c.kind = .counter && s.loaded && goalReached c n
  | .hit k =>
    match c.kind with
    | .accrual => s.loaded && s.enabled && allTrue (if getFlag s.flags k then s.flags else setFlag s.flags k)
    | .sequence => s.loaded && s.enabled && decide ((k : Int) = s.value) && decide ((c.steps : Int) ≤ s.value + 1)
    | .counter => false
  | _ => false

/-! ### the small methods -/

@[simp] theorem nHit_nil : nHit [] = 0 := rfl
@[simp] theorem nComplete_nil : nComplete [] = 0 := rfl
@[simp] theorem nTimeout_nil : nTimeout [] = 0 := rfl
@[simp] theorem nHit_append (a b : List Obs) : nHit (a ++ b) = nHit a + nHit b := by simp [nHit]
@[simp] theorem nComplete_append (a b : List Obs) : nComplete (a ++ b) = nComplete a + nComplete b := by simp [nComplete]
@[simp] theorem nTimeout_append (a b : List Obs) : nTimeout (a ++ b) = nTimeout a + nTimeout b := by simp [nTimeout]
@[simp] theorem nHit_cons (a : Obs) (b : List Obs) : nHit (a :: b) = (if isHit a then 1 else 0) + nHit b := by
  simp [nHit, List.countP_cons]; omega
@[simp] theorem nComplete_cons (a : Obs) (b : List Obs) :
    nComplete (a :: b) = (if isComplete a then 1 else 0) + nComplete b := by
  simp [nComplete, List.countP_cons]; omega
@[simp] theorem nTimeout_cons (a : Obs) (b : List Obs) :
    nTimeout (a :: b) = (if isTimeout a then 1 else 0) + nTimeout b := by
  simp [nTimeout, List.countP_cons]; omega

@[simp] theorem isHit_upd (s : St) : isHit (upd s) = false := rfl
@[simp] theorem isComplete_upd (s : St) : isComplete (upd s) = false := rfl
@[simp] theorem isTimeout_upd (s : St) : isTimeout (upd s) = false := rfl

/-- everything `afterComplete` posts is an `updated` event -/
theorem afterComplete_obs (c : Cfg) (s : St) :
    nHit (afterComplete c s).2 = 0 ∧ nComplete (afterComplete c s).2 = 0 ∧ nTimeout (afterComplete c s).2 = 0 := by
  cases hr : c.resetOnComplete <;> cases hd : c.disableOnComplete <;>
    simp [afterComplete, reset, disable, hr, hd]

theorem complete_obs (c : Cfg) (s : St) :
    nHit (complete c s).2 = 0 ∧ nTimeout (complete c s).2 = 0 ∧
    nComplete (complete c s).2 = (if s.completed then 0 else 1) := by
  have h := afterComplete_obs c { s with completed := true, timeoutDue := none }
  cases hc : s.completed <;> simp [complete, hc, isHit, isComplete, isTimeout, h.1, h.2.1, h.2.2]

/-- what `complete` leaves behind when it runs (block was not completed) -/
structure AfterCompletion (c : Cfg) (s s' : St) : Prop where
  reset_value : c.resetOnComplete = true → s'.value = startVal c ∧ s'.flags = startFlags c ∧ s'.completed = false
  no_reset : c.resetOnComplete = false → s'.completed = true ∧ s'.value = s.value ∧ s'.flags = s.flags
  disabled : c.disableOnComplete = true → s'.enabled = false ∧ s'.timeoutDue = none
  not_disabled : c.disableOnComplete = false → s'.enabled = s.enabled
  timer_restarted : c.disableOnComplete = false → c.resetOnComplete = true → c.timeout ≠ 0 →
    s'.timeoutDue = some (s.now + c.timeout)
  timer_stopped : c.resetOnComplete = false → s'.timeoutDue = none
  window_kept : s'.windowUntil = s.windowUntil
  now_kept : s'.now = s.now
  loaded_kept : s'.loaded = s.loaded

theorem complete_state (c : Cfg) (s : St) (h : s.completed = false) : AfterCompletion c s (complete c s).1 := by
  cases hr : c.resetOnComplete <;> cases hd : c.disableOnComplete <;>
    constructor <;> simp [complete, afterComplete, reset, disable, timerStart, h, hr, hd] <;>
    (try split) <;> simp_all

theorem complete_noop (c : Cfg) (s : St) (h : s.completed = true) : complete c s = (s, []) := by
  simp [complete, h]


/-! ### hits -/

@[simp] theorem isHit_hit (n : Int) (e : Option (Int × Int)) : isHit (.hit n e) = true := rfl
@[simp] theorem isHit_hitStep (n : Int) : isHit (.hitStep n) = true := rfl
@[simp] theorem isHit_complete : isHit .complete = false := rfl
@[simp] theorem isHit_timeout : isHit .timeout = false := rfl
@[simp] theorem isComplete_hit (n : Int) (e : Option (Int × Int)) : isComplete (.hit n e) = false := rfl
@[simp] theorem isComplete_hitStep (n : Int) : isComplete (.hitStep n) = false := rfl
@[simp] theorem isComplete_complete : isComplete .complete = true := rfl
@[simp] theorem isComplete_timeout : isComplete .timeout = false := rfl
@[simp] theorem isTimeout_hit (n : Int) (e : Option (Int × Int)) : isTimeout (.hit n e) = false := rfl
@[simp] theorem isTimeout_hitStep (n : Int) : isTimeout (.hitStep n) = false := rfl
@[simp] theorem isTimeout_complete : isTimeout .complete = false := rfl
@[simp] theorem isTimeout_timeout : isTimeout .timeout = true := rfl

@[simp] theorem nHit_ite_complete (c : Cfg) (s : St) (p : Prop) [Decidable p] :
    nHit (if p then complete c s else (s, [])).2 = 0 := by
  split <;> simp [(complete_obs c s).1]

@[simp] theorem nTimeout_ite_complete (c : Cfg) (s : St) (p : Prop) [Decidable p] :
    nTimeout (if p then complete c s else (s, [])).2 = 0 := by
  split <;> simp [(complete_obs c s).2.1]

theorem nComplete_ite_complete (c : Cfg) (s : St) (p : Prop) [Decidable p] :
    nComplete (if p then complete c s else (s, [])).2 = if p ∧ s.completed = false then 1 else 0 := by
  by_cases h : p <;> simp [h, (complete_obs c s).2.2]
  cases s.completed <;> simp

theorem tick_obs (c : Cfg) (s : St) : nHit (tick c s).2 = 0 ∧ nComplete (tick c s).2 = 0 := by
  unfold tick
  by_cases hw : s.windowUntil = some (s.now + 1) <;> by_cases ht : s.timeoutDue = some (s.now + 1) <;>
    simp [hw, ht, reset]

/-- the op is a hit that the block accepts in this state -/
def acceptedHit (c : Cfg) (s : St) : Op → Bool
  | .count => c.kind = .counter && accepted s
  | .hit k =>
    match c.kind with
    | .accrual => s.loaded && s.enabled && !getFlag s.flags k
    | .sequence => s.loaded && s.enabled && decide ((k : Int) = s.value)
    | .counter => false
  | _ => false

theorem step_nHit (c : Cfg) (s : St) (op : Op) :
    nHit (step c s op).2 = if acceptedHit c s op then 1 else 0 := by
  cases hl : s.loaded
  · cases op <;> simp [step, stepUnloaded, hl, acceptedHit, accepted, load, enable]
    · cases c.kind <;> simp
    · cases c.startEnabled <;> simp
  · cases op with
    | count =>
      cases hk : c.kind <;> simp [step, stepLoaded, hl, hk, acceptedHit, accepted]
      cases he : s.enabled <;> cases hw : s.windowUntil <;> simp [count, he, hw]
    | hit k =>
      cases hk : c.kind <;> simp [step, stepLoaded, hl, hk, acceptedHit]
      · cases he : s.enabled <;> simp [accrualHit, he]
        cases hg : getFlag s.flags k <;> simp
      · cases he : s.enabled <;> simp [sequenceHit, he]
        by_cases hv : (k : Int) = s.value <;> simp [hv]
    | enable => simp [step, stepLoaded, hl, enable, acceptedHit]
    | disable => simp [step, stepLoaded, hl, disable, acceptedHit]
    | reset => simp [step, stepLoaded, hl, reset, acceptedHit]
    | restart => simp [step, stepLoaded, hl, restart, reset, enable, acceptedHit]
    | add n => cases hk : c.kind <;> simp [step, stepLoaded, hl, hk, adjust, acceptedHit]
    | sub n => cases hk : c.kind <;> simp [step, stepLoaded, hl, hk, adjust, acceptedHit]
    | set n => cases hk : c.kind <;> simp [step, stepLoaded, hl, hk, adjust, acceptedHit]
    | tick => simp [step, stepLoaded, hl, acceptedHit, (tick_obs c s).1]
    | unload => simp [step, stepLoaded, hl, acceptedHit]
    | load => simp [step, stepLoaded, hl, acceptedHit]

/-- a counter hit that is not accepted changes nothing and posts nothing -/
theorem count_rejected (c : Cfg) (s : St) (h : accepted s = false) : step c s .count = (s, []) := by
  cases hl : s.loaded <;> simp [step, stepLoaded, stepUnloaded, hl]
  cases hk : c.kind <;> simp
  cases he : s.enabled <;> cases hw : s.windowUntil <;> simp_all [count, accepted]

/-! ### completion -/

theorem step_nComplete (c : Cfg) (s : St) (op : Op) :
    nComplete (step c s op).2 = if reaches c s op && !s.completed then 1 else 0 := by
  cases hl : s.loaded
  · cases op <;> simp [step, stepUnloaded, hl, reaches, accepted, load, enable]
    · cases c.kind <;> simp
    · cases c.startEnabled <;> simp
  · cases op with
    | count =>
      cases hk : c.kind <;> simp [step, stepLoaded, hl, hk, reaches, accepted]
      cases he : s.enabled <;> cases hw : s.windowUntil <;> simp [count, he, hw, nComplete_ite_complete]
    | hit k =>
      cases hk : c.kind <;> simp [step, stepLoaded, hl, hk, reaches]
      · cases he : s.enabled <;> simp [accrualHit, he]
        cases hg : getFlag s.flags k <;> simp [nComplete_ite_complete]
      · cases he : s.enabled <;> simp [sequenceHit, he]
        by_cases hv : (k : Int) = s.value <;> simp [hv, nComplete_ite_complete]
    | enable => simp [step, stepLoaded, hl, enable, reaches]
    | disable => simp [step, stepLoaded, hl, disable, reaches]
    | reset => simp [step, stepLoaded, hl, reset, reaches]
    | restart => simp [step, stepLoaded, hl, restart, reset, enable, reaches]
    | add n => cases hk : c.kind <;> simp [step, stepLoaded, hl, hk, adjust, reaches, nComplete_ite_complete]
    | sub n => cases hk : c.kind <;> simp [step, stepLoaded, hl, hk, adjust, reaches, nComplete_ite_complete]
    | set n => cases hk : c.kind <;> simp [step, stepLoaded, hl, hk, adjust, reaches, nComplete_ite_complete]
    | tick => simp [step, stepLoaded, hl, reaches, (tick_obs c s).2]
    | unload => simp [step, stepLoaded, hl, reaches]
    | load => simp [step, stepLoaded, hl, reaches]


/-! ### the value ledger of a counter -/

theorem ite_complete_value (c : Cfg) (s : St) (p : Prop) [Decidable p] :
    (if p then complete c s else (s, [])).1.value =
      if p ∧ s.completed = false ∧ c.resetOnComplete = true then startVal c else s.value := by
  by_cases h : p <;> simp [h]
  cases hc : s.completed
  · have := complete_state c s hc
    cases hr : c.resetOnComplete <;> simp
    · exact (this.no_reset hr).2.1
    · exact (this.reset_value hr).1
  · simp [complete_noop c s hc]

theorem complete_value (c : Cfg) (s : St) :
    (complete c s).1.value = if s.completed = false ∧ c.resetOnComplete = true then startVal c else s.value := by
  have := ite_complete_value c s True
  simpa using this

theorem ite_complete_loaded (c : Cfg) (s : St) (p : Prop) [Decidable p] :
    (if p then complete c s else (s, [])).1.loaded = s.loaded := by
  by_cases h : p <;> simp [h]
  cases hc : s.completed
  · exact (complete_state c s hc).loaded_kept
  · simp [complete_noop c s hc]

/-- start value and accepted hits since the last reset (`base` also absorbs explicit add / subtract / jump) -/
structure Ledger where
  base : Int
  hits : Nat
  deriving DecidableEq, Repr

def Ledger.value (c : Cfg) (l : Ledger) : Int := l.base + hv c * (l.hits : Int)

def isResetOp : Op → Bool
  | .reset => true
  | .restart => true
  | _ => false

/-- Bookkeeping from what can be seen from outside: the op and the events the step posted.  A reset is visible as the
reset / restart op, a timeout event, a completion event of a block with `reset_on_complete`, or a mode start. -/
def ledgerStep (c : Cfg) (l : Ledger) (op : Op) (obs : List Obs) : Ledger :=
  if isResetOp op || nTimeout obs != 0 || (c.resetOnComplete && nComplete obs != 0) then ⟨c.start, 0⟩ else
  match op with
  | .count => ⟨l.base, l.hits + nHit obs⟩
  | .add n => ⟨l.base + n, l.hits⟩
  | .sub n => ⟨l.base - n, l.hits⟩
  | .set n => ⟨n, 0⟩
  | .load => if obs.isEmpty then l else ⟨c.start, 0⟩
  | _ => l

def ledgerRun (c : Cfg) : Ledger → List (Op × List Obs) → Ledger
  | l, [] => l
  | l, x :: r => ledgerRun c (ledgerStep c l x.1 x.2) r

theorem tick_value (c : Cfg) (s : St) :
    (tick c s).1.loaded = s.loaded ∧
    (tick c s).1.value = (if s.timeoutDue = some (s.now + 1) then startVal c else s.value) ∧
    nTimeout (tick c s).2 = (if s.timeoutDue = some (s.now + 1) then 1 else 0) := by
  unfold tick
  by_cases hw : s.windowUntil = some (s.now + 1) <;> by_cases ht : s.timeoutDue = some (s.now + 1) <;>
    simp [hw, ht, reset, timerStart] <;> split <;> simp

theorem ledger_step (c : Cfg) (s : St) (l : Ledger) (op : Op) (hk : c.kind = .counter)
    (inv : s.loaded = true → s.value = l.value c) (hl' : (step c s op).1.loaded = true) :
    (step c s op).1.value = (ledgerStep c l op (step c s op).2).value c := by
  have hs : startVal c = c.start := by simp [startVal, hk]
  cases hl : s.loaded
  · cases op <;> simp_all [step, stepUnloaded, load, enable, timerStart, ledgerStep, isResetOp, Ledger.value]
    cases c.startEnabled <;> simp <;> split <;> simp
  · have iv := inv hl
    cases op with
    | count =>
      simp only [step, stepLoaded, hl, hk]
      cases he : s.enabled <;> cases hw : s.windowUntil <;>
        simp [count, he, hw, ledgerStep, isResetOp, iv, Ledger.value, startWindow, nComplete_ite_complete,
          ite_complete_value, hs]
      cases hg : goalReached c (l.base + hv c * (l.hits : Int) + hv c) <;> cases hc : s.completed <;>
          cases hr : c.resetOnComplete <;> simp [Int.mul_add, complete_value, hs] <;> (try split) <;>
          (try simp [Int.mul_add, complete_value, hs, hc, hr]) <;> (try omega)
    | hit k => simp [step, stepLoaded, hl, hk, ledgerStep, isResetOp, iv]
    | enable => simp [step, stepLoaded, hl, enable, timerStart, ledgerStep, isResetOp, iv]; split <;> simp
    | disable => simp [step, stepLoaded, hl, disable, ledgerStep, isResetOp, iv]
    | reset => simp [step, stepLoaded, hl, reset, timerStart, ledgerStep, isResetOp, Ledger.value, hs]; split <;> simp [hs]
    | restart =>
      simp [step, stepLoaded, hl, restart, reset, enable, timerStart, ledgerStep, isResetOp, Ledger.value, hs]
      split <;> simp [hs]
    | add n =>
      simp [step, stepLoaded, hl, hk, adjust, ledgerStep, isResetOp, iv, Ledger.value, nComplete_ite_complete,
        ite_complete_value, hs]
      cases hg : goalReached c (l.base + hv c * (l.hits : Int) + n) <;> cases hc : s.completed <;>
        cases hr : c.resetOnComplete <;> simp <;> omega
    | sub n =>
      simp [step, stepLoaded, hl, hk, adjust, ledgerStep, isResetOp, iv, Ledger.value, nComplete_ite_complete,
        ite_complete_value, hs]
      cases hg : goalReached c (l.base + hv c * (l.hits : Int) - n) <;> cases hc : s.completed <;>
        cases hr : c.resetOnComplete <;> simp <;> omega
    | set n =>
      simp [step, stepLoaded, hl, hk, adjust, ledgerStep, isResetOp, iv, Ledger.value, nComplete_ite_complete,
        ite_complete_value, hs]
      cases hg : goalReached c n <;> cases hc : s.completed <;> cases hr : c.resetOnComplete <;> simp
    | tick =>
      have t := tick_value c s
      simp [step, stepLoaded, hl, ledgerStep, isResetOp, iv, Ledger.value, t.2.1, t.2.2, (tick_obs c s).2, hs]
      split <;> simp
    | unload => simp [step, stepLoaded, hl, unload] at hl'
    | load => simp [step, stepLoaded, hl, ledgerStep, isResetOp, iv]


/-! ### after a completion -/

/-- the state right after a step that completed the block, relative to the state `s` before the step -/
structure PostCompletion (c : Cfg) (s s' : St) : Prop where
  reset_done : c.resetOnComplete = true → s'.completed = false ∧ s'.value = startVal c ∧ s'.flags = startFlags c
  stays_completed : c.resetOnComplete = false → s'.completed = true ∧ s'.timeoutDue = none
  disabled : c.disableOnComplete = true → s'.enabled = false ∧ s'.timeoutDue = none
  stays_enabled : c.disableOnComplete = false → s'.enabled = s.enabled
  timer_restarted : c.disableOnComplete = false → c.resetOnComplete = true → c.timeout ≠ 0 →
    s'.timeoutDue = some (s.now + c.timeout)

theorem post_of_after (c : Cfg) (s s1 s' : St) (h : AfterCompletion c s1 s') (he : s1.enabled = s.enabled)
    (hn : s1.now = s.now) : PostCompletion c s s' :=
  ⟨fun hr => ⟨(h.reset_value hr).2.2, (h.reset_value hr).1, (h.reset_value hr).2.1⟩,
   fun hr => ⟨(h.no_reset hr).1, h.timer_stopped hr⟩, h.disabled, fun hd => he ▸ h.not_disabled hd,
   fun hd hr ht => hn ▸ h.timer_restarted hd hr ht⟩

theorem post_startWindow (c : Cfg) (s s' : St) (h : PostCompletion c s s') : PostCompletion c s (startWindow c s') := by
  unfold startWindow
  split
  · exact h
  · exact ⟨h.reset_done, h.stays_completed, h.disabled, h.stays_enabled, h.timer_restarted⟩

theorem step_post (c : Cfg) (s : St) (op : Op) (hr : reaches c s op = true) (hc : s.completed = false) :
    PostCompletion c s (step c s op).1 := by
  cases op with
  | count =>
    simp only [reaches, accepted, Bool.and_eq_true, decide_eq_true_eq, Option.isNone_iff_eq_none] at hr
    obtain ⟨⟨hk, ⟨hl, he⟩, hw⟩, hg⟩ := hr
    simp only [step, stepLoaded, hl, hk, count, he, hw, hg]
    simp only [Bool.true_eq_false, if_false, Option.isSome_none, if_true]
    exact post_startWindow c s _ (post_of_after c s _ _ (complete_state c _ hc) he.symm rfl)
  | add n =>
    simp only [reaches, Bool.and_eq_true, decide_eq_true_eq] at hr
    obtain ⟨⟨hk, hl⟩, hg⟩ := hr
    simp only [step, stepLoaded, hl, hk, adjust, hg]
    simp only [Bool.true_eq_false, if_false, if_true]
    exact post_of_after c s _ _ (complete_state c _ hc) rfl rfl
  | sub n =>
    simp only [reaches, Bool.and_eq_true, decide_eq_true_eq] at hr
    obtain ⟨⟨hk, hl⟩, hg⟩ := hr
    simp only [step, stepLoaded, hl, hk, adjust, hg]
    simp only [Bool.true_eq_false, if_false, if_true]
    exact post_of_after c s _ _ (complete_state c _ hc) rfl rfl
  | set n =>
    simp only [reaches, Bool.and_eq_true, decide_eq_true_eq] at hr
    obtain ⟨⟨hk, hl⟩, hg⟩ := hr
    simp only [step, stepLoaded, hl, hk, adjust, hg]
    simp only [Bool.true_eq_false, if_false, if_true]
    exact post_of_after c s _ _ (complete_state c _ hc) rfl rfl
  | hit k =>
    cases hk : c.kind
    · simp [reaches, hk] at hr
    · simp only [reaches, hk, Bool.and_eq_true] at hr
      obtain ⟨⟨hl, he⟩, ha⟩ := hr
      simp only [step, stepLoaded, hl, hk, accrualHit, he]
      simp only [Bool.true_eq_false, if_false]
      cases hg : getFlag s.flags k
      · simp only [hg, Bool.false_eq_true, if_false] at ha ⊢
        simp only [ha, if_true]
        exact post_of_after c s _ _ (complete_state c _ hc) he.symm rfl
      · simp only [hg, if_true] at ha ⊢
        simp only [ha, if_true]
        exact post_of_after c s _ _ (complete_state c _ hc) rfl rfl
    · simp only [reaches, hk, Bool.and_eq_true, decide_eq_true_eq] at hr
      obtain ⟨⟨⟨hl, he⟩, hv⟩, hs⟩ := hr
      simp only [step, stepLoaded, hl, hk, sequenceHit, he, hv, hs]
      simp only [Bool.true_eq_false, if_false, ne_eq, not_true_eq_false, decide_true, if_true]
      exact post_of_after c s _ _ (complete_state c _ hc) he.symm rfl
  | enable => simp [reaches] at hr
  | disable => simp [reaches] at hr
  | reset => simp [reaches] at hr
  | restart => simp [reaches] at hr
  | tick => simp [reaches] at hr
  | unload => simp [reaches] at hr
  | load => simp [reaches] at hr


/-! ### the hit window -/

/-- a pending window deadline lies in the future, at most `multiple_hit_window` away (and only a present block has one) -/
def WindowOk (c : Cfg) (s : St) : Prop :=
  (s.loaded = false → s.windowUntil = none) ∧ ∀ d, s.windowUntil = some d → s.now < d ∧ d ≤ s.now + c.window

theorem step_loaded (c : Cfg) (s : St) (op : Op) (hl : s.loaded = true) : step c s op = stepLoaded c s op := by
  simp [step, hl]

theorem step_unloaded (c : Cfg) (s : St) (op : Op) (hl : s.loaded = false) : step c s op = stepUnloaded c s op := by
  simp [step, hl]

theorem complete_window (c : Cfg) (s : St) :
    (complete c s).1.windowUntil = s.windowUntil ∧ (complete c s).1.now = s.now ∧ (complete c s).1.loaded = s.loaded := by
  cases hc : s.completed
  · exact ⟨(complete_state c s hc).window_kept, (complete_state c s hc).now_kept, (complete_state c s hc).loaded_kept⟩
  · simp [complete_noop c s hc]

theorem ite_complete_window (c : Cfg) (s : St) (p : Prop) [Decidable p] :
    (if p then complete c s else (s, [])).1.windowUntil = s.windowUntil ∧
    (if p then complete c s else (s, [])).1.now = s.now ∧
    (if p then complete c s else (s, [])).1.loaded = s.loaded := by
  by_cases h : p <;> simp [h, complete_window]

theorem tick_window (c : Cfg) (s : St) :
    (tick c s).1.windowUntil = (if s.windowUntil = some (s.now + 1) then none else s.windowUntil) ∧
    (tick c s).1.now = s.now + 1 := by
  unfold tick
  by_cases hw : s.windowUntil = some (s.now + 1) <;> by_cases ht : s.timeoutDue = some (s.now + 1) <;>
    simp [hw, ht, reset, timerStart] <;> split <;> simp

/-- the counter state after the value change of an accepted hit -/
def bump (c : Cfg) (s : St) : St := { s with value := s.value + hv c }

theorem count_accepted (c : Cfg) (s : St) (he : s.enabled = true) (hw : s.windowUntil = none) :
    count c s =
      (startWindow c (if goalReached c (bump c s).value then complete c (bump c s) else (bump c s, [])).1,
       upd (bump c s) :: Obs.hit (bump c s).value (hitArgs c (bump c s).value) ::
         (if goalReached c (bump c s).value then complete c (bump c s) else (bump c s, [])).2) := by
  unfold count
  rw [if_neg (by simp [he]), if_neg (by simp [hw])]
  rfl

theorem count_ignored (c : Cfg) (s : St) (h : s.enabled = false ∨ s.windowUntil.isSome = true) : count c s = (s, []) := by
  unfold count
  rcases h with h | h
  · rw [if_pos h]
  · split
    · rfl
    · first | rfl | rw [if_pos h]

theorem accrualHit_frame (c : Cfg) (s : St) (k : Nat) :
    (accrualHit c s k).1.windowUntil = s.windowUntil ∧ (accrualHit c s k).1.now = s.now ∧
    (accrualHit c s k).1.loaded = s.loaded := by
  unfold accrualHit
  by_cases he : s.enabled = false
  · rw [if_pos he]; exact ⟨rfl, rfl, rfl⟩
  · rw [if_neg he]
    by_cases hg : getFlag s.flags k = true
    · rw [if_pos hg]; exact ite_complete_window c s _
    · rw [if_neg hg]; exact ite_complete_window c { s with flags := setFlag s.flags k } _

theorem sequenceHit_frame (c : Cfg) (s : St) (k : Nat) :
    (sequenceHit c s k).1.windowUntil = s.windowUntil ∧ (sequenceHit c s k).1.now = s.now ∧
    (sequenceHit c s k).1.loaded = s.loaded := by
  unfold sequenceHit
  by_cases he : s.enabled = false
  · rw [if_pos he]; exact ⟨rfl, rfl, rfl⟩
  · rw [if_neg he]
    by_cases hv : (k : Int) ≠ s.value
    · rw [if_pos hv]; exact ⟨rfl, rfl, rfl⟩
    · rw [if_neg hv]; exact ite_complete_window c { s with value := s.value + 1 } _

theorem adjust_frame (c : Cfg) (s : St) (v : Int) :
    (adjust c s v).1.windowUntil = s.windowUntil ∧ (adjust c s v).1.now = s.now ∧
    (adjust c s v).1.loaded = s.loaded := by
  unfold adjust
  exact ite_complete_window c { s with value := v } _

/-- a state transformer that keeps clock, window and presence keeps the invariant -/
theorem windowOk_of_same (c : Cfg) (s s' : St) (h : WindowOk c s) (hw : s'.windowUntil = s.windowUntil)
    (hn : s'.now = s.now) (hl : s'.loaded = s.loaded) : WindowOk c s' := by
  unfold WindowOk at *
  rw [hw, hn, hl]; exact h

theorem step_window (c : Cfg) (s : St) (op : Op) (h : WindowOk c s) : WindowOk c (step c s op).1 := by
  cases hl : s.loaded
  · rw [step_unloaded c s op hl]
    have hn := h.1 hl
    cases op <;> try exact h
    · simp [stepUnloaded, WindowOk, hn]
    · simp only [stepUnloaded, load]
      cases c.startEnabled <;> simp [WindowOk, enable, timerStart] <;> split <;> simp
  · rw [step_loaded c s op hl]
    cases op with
    | count =>
      cases hk : c.kind <;> simp only [stepLoaded, hk] <;> try exact h
      cases he : s.enabled
      · rw [count_ignored c s (Or.inl he)]; exact h
      · cases hw : s.windowUntil
        · rw [count_accepted c s he hw]
          have k := ite_complete_window c (bump c s) (goalReached c (bump c s).value = true)
          unfold startWindow
          split
          · exact windowOk_of_same c s _ h k.1 k.2.1 k.2.2
          · refine ⟨fun hf => ?_, fun d hd => ?_⟩
            · have := k.2.2; simp only [bump] at this hf; rw [this, hl] at hf; exact absurd hf (by simp)
            · simp only [Option.some.injEq] at hd
              have := k.2.1; simp only [bump] at this hd ⊢; rw [this] at hd ⊢
              omega
        · rw [count_ignored c s (Or.inr (by simp [hw]))]; exact h
    | hit k =>
      cases hk : c.kind <;> simp only [stepLoaded, hk] <;> try exact h
      · have f := accrualHit_frame c s k; exact windowOk_of_same c s _ h f.1 f.2.1 f.2.2
      · have f := sequenceHit_frame c s k; exact windowOk_of_same c s _ h f.1 f.2.1 f.2.2
    | enable => simp only [stepLoaded, enable, timerStart]; split <;> exact h
    | disable => exact h
    | reset => simp only [stepLoaded, reset, timerStart]; split <;> exact h
    | restart => simp only [stepLoaded, restart, reset, enable, timerStart]; split <;> exact h
    | add n =>
      cases hk : c.kind <;> simp only [stepLoaded, hk] <;> try exact h
      have f := adjust_frame c s (s.value + n); exact windowOk_of_same c s _ h f.1 f.2.1 f.2.2
    | sub n =>
      cases hk : c.kind <;> simp only [stepLoaded, hk] <;> try exact h
      have f := adjust_frame c s (s.value - n); exact windowOk_of_same c s _ h f.1 f.2.1 f.2.2
    | set n =>
      cases hk : c.kind <;> simp only [stepLoaded, hk] <;> try exact h
      have f := adjust_frame c s (n); exact windowOk_of_same c s _ h f.1 f.2.1 f.2.2
    | tick =>
      simp only [stepLoaded]
      refine ⟨fun hf => ?_, fun d hd => ?_⟩
      · rw [(tick_value c s).1, hl] at hf; exact absurd hf (by simp)
      · rw [(tick_window c s).1] at hd
        rw [(tick_window c s).2]
        split at hd
        · simp at hd
        · have := h.2 d hd
          have : d ≠ s.now + 1 := fun e => by subst e; simp_all
          omega
    | unload => simp [stepLoaded, unload, WindowOk]
    | load => exact h

theorem run_window (c : Cfg) (s : St) (ops : List Op) (h : WindowOk c s) : WindowOk c (run c s ops).1 := by
  induction ops generalizing s with
  | nil => exact h
  | cons op r ih => exact ih _ (step_window c s op h)

theorem ticks_reopen (c : Cfg) (n : Nat) (s : St) (d : Nat) (hl : s.loaded = true) (hw : s.windowUntil = some d)
    (hn : d = s.now + n) (hpos : 0 < n) : (ticks c n s).1.windowUntil = none := by
  induction n generalizing s with
  | zero => omega
  | succ m ih =>
    simp only [ticks, step_loaded c s _ hl, stepLoaded]
    have t := tick_window c s
    have tl := (tick_value c s).1
    by_cases hm : m = 0
    · subst hm
      simp only [ticks]
      rw [t.1, hw, hn]; simp
    · apply ih (tick c s).1 (by rw [tl, hl])
      · rw [t.1, hw, if_neg]; simp; omega
      · rw [t.2]; omega
      · omega


/-! ### accruals: steps in any order -/

/-- the flags after hits on the steps `ks` (no completion in between) -/
def marks (f : List Bool) (ks : List Nat) : List Bool := ks.foldl setFlag f

theorem setFlag_of_get (f : List Bool) (k : Nat) (h : getFlag f k = true) : setFlag f k = f := by
  induction f generalizing k with
  | nil => rfl
  | cons b r ih =>
    cases k with
    | zero => simp [getFlag] at h; simp [setFlag, h]
    | succ m => simp [getFlag] at h; simp [setFlag, ih m h]

theorem setFlag_comm (f : List Bool) (a b : Nat) : setFlag (setFlag f a) b = setFlag (setFlag f b) a := by
  induction f generalizing a b with
  | nil => rfl
  | cons x r ih => cases a <;> cases b <;> simp [setFlag, ih]

theorem allTrue_setFlag (f : List Bool) (k : Nat) (h : allTrue f = true) : allTrue (setFlag f k) = true := by
  induction f generalizing k with
  | nil => rfl
  | cons b r ih =>
    simp [allTrue] at h
    cases k with
    | zero => simp [setFlag, allTrue, h.2]
    | succ m => simp [setFlag, allTrue, h.1, ih m h.2]

theorem allTrue_marks (f : List Bool) (ks : List Nat) (h : allTrue f = true) : allTrue (marks f ks) = true := by
  induction ks generalizing f with
  | nil => exact h
  | cons k r ih => exact ih _ (allTrue_setFlag f k h)

theorem marks_setFlag (f : List Bool) (ks : List Nat) (a : Nat) : marks (setFlag f a) ks = setFlag (marks f ks) a := by
  induction ks generalizing f with
  | nil => rfl
  | cons k r ih => simp only [marks, List.foldl_cons] at ih ⊢; rw [setFlag_comm, ih]

theorem marks_perm (f : List Bool) (ks ks' : List Nat) (h : ks.Perm ks') : marks f ks = marks f ks' := by
  induction h generalizing f with
  | nil => rfl
  | cons x _ ih => exact ih (setFlag f x)
  | swap x y l => simp only [marks, List.foldl_cons]; rw [setFlag_comm]
  | trans _ _ ih1 ih2 => rw [ih1, ih2]

/-- an accepted accrual step that does not complete the block only sets its flag -/
theorem accrual_step (c : Cfg) (s : St) (k : Nat) (hk : c.kind = .accrual) (hl : s.loaded = true)
    (he : s.enabled = true) (hn : allTrue (setFlag s.flags k) = false) :
    (step c s (.hit k)).1 = { s with flags := setFlag s.flags k } ∧ nComplete (step c s (.hit k)).2 = 0 := by
  rw [step_loaded c s _ hl]
  simp only [stepLoaded, hk]
  unfold accrualHit
  rw [if_neg (by simp [he])]
  by_cases hg : getFlag s.flags k = true
  · have e := setFlag_of_get s.flags k hg
    rw [e] at hn ⊢
    rw [if_pos hg]
    simp [hn]
  · rw [if_neg hg]
    simp [hn]

theorem accrual_run (c : Cfg) (s : St) (ks : List Nat) (hk : c.kind = .accrual) (hl : s.loaded = true)
    (he : s.enabled = true) (hn : allTrue (marks s.flags ks) = false) :
    (run c s (ks.map Op.hit)).1 = { s with flags := marks s.flags ks } ∧
    ((run c s (ks.map Op.hit)).2.map (fun x => nComplete x.2)).sum = 0 := by
  induction ks generalizing s with
  | nil => simp [run, marks]
  | cons k r ih =>
    have h1 : allTrue (setFlag s.flags k) = false := by
      cases h : allTrue (setFlag s.flags k)
      · rfl
      · have := allTrue_marks _ r h
        simp only [marks, List.foldl_cons] at hn this
        rw [this] at hn; exact absurd hn (by simp)
    have st := accrual_step c s k hk hl he h1
    simp only [List.map_cons, run, List.sum_cons]
    rw [st.1, st.2]
    have := ih { s with flags := setFlag s.flags k } hl he (by simpa [marks] using hn)
    simp only [marks, List.foldl_cons] at this ⊢
    simp [this.1, this.2]

/-! ### sequences: strict order -/

/-- the step a sequence waits for after the hits `ks`, starting at step `v` (no completion in between) -/
def seqAdv (v : Int) : List Nat → Int
  | [] => v
  | k :: r => if (k : Int) = v then seqAdv (v + 1) r else seqAdv v r

theorem seqAdv_ge (v : Int) (ks : List Nat) : v ≤ seqAdv v ks := by
  induction ks generalizing v with
  | nil => simp [seqAdv]
  | cons k r ih =>
    simp only [seqAdv]
    split
    · have := ih (v + 1); omega
    · exact ih v

theorem sequence_wrong_step (c : Cfg) (s : St) (k : Nat) (hk : c.kind = .sequence) (hv : (k : Int) ≠ s.value) :
    step c s (.hit k) = (s, []) := by
  cases hl : s.loaded
  · rw [step_unloaded c s _ hl]; rfl
  · rw [step_loaded c s _ hl]
    simp only [stepLoaded, hk]
    unfold sequenceHit
    split
    · rfl
    · first | rfl | rw [if_pos hv]

theorem sequence_right_step (c : Cfg) (s : St) (k : Nat) (hk : c.kind = .sequence) (hl : s.loaded = true)
    (he : s.enabled = true) (hv : (k : Int) = s.value) (hn : s.value + 1 < c.steps) :
    (step c s (.hit k)).1 = { s with value := s.value + 1 } ∧ nComplete (step c s (.hit k)).2 = 0 := by
  rw [step_loaded c s _ hl]
  simp only [stepLoaded, hk]
  unfold sequenceHit
  rw [if_neg (by simp [he]), if_neg (by simp [hv])]
  have : ¬ ((c.steps : Int) ≤ s.value + 1) := by omega
  simp [this]

theorem sequence_run (c : Cfg) (s : St) (ks : List Nat) (hk : c.kind = .sequence) (hl : s.loaded = true)
    (he : s.enabled = true) (hn : seqAdv s.value ks < c.steps) :
    (run c s (ks.map Op.hit)).1 = { s with value := seqAdv s.value ks } ∧
    ((run c s (ks.map Op.hit)).2.map (fun x => nComplete x.2)).sum = 0 := by
  induction ks generalizing s with
  | nil => simp [run, seqAdv]
  | cons k r ih =>
    simp only [List.map_cons, run, List.sum_cons]
    by_cases hv : (k : Int) = s.value
    · simp only [seqAdv, hv, if_true] at hn ⊢
      have hlt : s.value + 1 < c.steps := by have := seqAdv_ge (s.value + 1) r; omega
      have st := sequence_right_step c s k hk hl he hv hlt
      rw [st.1, st.2]
      have := ih { s with value := s.value + 1 } hl he hn
      simp [this.1, this.2]
    · simp only [seqAdv, hv, if_false] at hn ⊢
      rw [sequence_wrong_step c s k hk hv]
      have := ih s hl he hn
      simp [this.1, this.2]

end MpfVerif.LogicBlock
