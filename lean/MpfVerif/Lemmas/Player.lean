import MpfVerif.Model.Player
/-! Helper lemmas for C11: dictionary updates, list updates at one index, the pointer invariant. -/
namespace MpfVerif.Player

theorem get_put_same (m : Vars) (k : String) (v : Val) : get (put m k v) k = some v := by
  induction m with
  | nil => simp [put, get]
  | cons kv r ih =>
    obtain ⟨k', v'⟩ := kv
    unfold put
    split
    · simp [get, List.lookup]
    · rename_i h
      have : (k == k') = false := by simp; exact fun e => h e.symm
      simp only [get, List.lookup, this] at ih ⊢
      exact ih

theorem get_put_other (m : Vars) (k k2 : String) (v : Val) (h : k2 ≠ k) : get (put m k v) k2 = get m k2 := by
  induction m with
  | nil =>
    have : (k2 == k) = false := by simp; exact h
    simp [put, get, List.lookup, this]
  | cons kv r ih =>
    obtain ⟨k', v'⟩ := kv
    unfold put
    split
    · rename_i e
      subst e
      have : (k2 == k') = false := by simp; exact h
      simp [get, List.lookup, this]
    · cases hk : (k2 == k') <;> simp only [get, List.lookup, hk] at ih ⊢
      exact ih

theorem modify_length (ps : List Vars) (i : Nat) (f : Vars → Vars) : (modify ps i f).length = ps.length := by
  induction ps generalizing i with
  | nil => simp [modify]
  | cons m r ih => cases i <;> simp [modify, ih]

theorem modify_get_other (ps : List Vars) (i q : Nat) (f : Vars → Vars) (h : q ≠ i) : (modify ps i f)[q]? = ps[q]? := by
  induction ps generalizing i q with
  | nil => simp [modify]
  | cons m r ih =>
    cases i with
    | zero => cases q with
      | zero => exact absurd rfl h
      | succ q => simp [modify]
    | succ i => cases q with
      | zero => simp [modify]
      | succ q => simp only [modify, List.getElem?_cons_succ]; exact ih i q (by omega)

theorem modify_get_same (ps : List Vars) (i : Nat) (f : Vars → Vars) (h : i < ps.length) :
    (modify ps i f)[i]? = some (f ((ps[i]?).getD [])) := by
  induction ps generalizing i with
  | nil => simp at h
  | cons m r ih =>
    cases i with
    | zero => simp [modify]
    | succ i => simp only [modify, List.getElem?_cons_succ]; exact ih i (by simpa using h)

/-- the game mode's devices point nowhere, or into the current player's dictionary; the current player exists -/
def Inv (s : St) : Prop := (s.dev = none ∨ s.dev = some s.cur) ∧ (s.players ≠ [] → s.cur < s.players.length)

instance (s : St) : Decidable (Inv s) := by unfold Inv; infer_instance

theorem setOn_players (s : St) (i : Nat) (k : String) (v : Val) :
    (setOn s i k v).1.players = modify s.players i (fun _ => put (varsOf s i) k v) := rfl
theorem setOn_cur (s : St) (i : Nat) (k : String) (v : Val) : (setOn s i k v).1.cur = s.cur := rfl
theorem setOn_dev (s : St) (i : Nat) (k : String) (v : Val) : (setOn s i k v).1.dev = s.dev := rfl

theorem modeStart_cur (c : Cfg) (s : St) (i : Nat) : (modeStart c s i).cur = s.cur := rfl
theorem modeStart_dev (c : Cfg) (s : St) (i : Nat) : (modeStart c s i).dev = some i := rfl
theorem modeStart_other (c : Cfg) (s : St) (i q : Nat) (h : q ≠ i) : (modeStart c s i).players[q]? = s.players[q]? :=
  modify_get_other _ _ _ _ h
theorem modeStart_length (c : Cfg) (s : St) (i : Nat) : (modeStart c s i).players.length = s.players.length :=
  modify_length _ _ _

theorem ballStart_cur (c : Cfg) (s : St) (i : Nat) : (ballStart c s i).cur = s.cur := by
  unfold ballStart; split <;> rfl
theorem ballStart_dev (c : Cfg) (s : St) (i : Nat) : (ballStart c s i).dev = some i ∨ (ballStart c s i).dev = s.dev := by
  unfold ballStart; split
  · exact Or.inl rfl
  · exact Or.inr rfl
theorem ballStart_other (c : Cfg) (s : St) (i q : Nat) (h : q ≠ i) : (ballStart c s i).players[q]? = s.players[q]? := by
  unfold ballStart; split
  · exact modeStart_other _ _ _ _ h
  · rfl
theorem ballStart_length (c : Cfg) (s : St) (i : Nat) : (ballStart c s i).players.length = s.players.length := by
  unfold ballStart; split
  · exact modeStart_length _ _ _
  · rfl

theorem turnStart_cur (c : Cfg) (s : St) (i : Nat) : (turnStart c s i).1.cur = i := by
  unfold turnStart; simp only []; rw [ballStart_cur]; rfl
theorem turnStart_dev (c : Cfg) (s : St) (i : Nat) (h : s.dev = none) :
    (turnStart c s i).1.dev = none ∨ (turnStart c s i).1.dev = some i := by
  unfold turnStart; simp only []
  rcases ballStart_dev c (setOn { s with cur := i } i "ball" (.int (intVar (varsOf s i) "ball" + 1))).1 i with e | e
  · exact Or.inr e
  · left; rw [e, setOn_dev]; exact h
theorem turnStart_other (c : Cfg) (s : St) (i q : Nat) (h : q ≠ i) : (turnStart c s i).1.players[q]? = s.players[q]? := by
  unfold turnStart; simp only []
  rw [ballStart_other _ _ _ _ h, setOn_players]
  exact modify_get_other _ _ _ _ h
theorem turnStart_length (c : Cfg) (s : St) (i : Nat) : (turnStart c s i).1.players.length = s.players.length := by
  unfold turnStart; simp only []
  rw [ballStart_length, setOn_players, modify_length]

theorem targetOf_lt (s : St) (p : Nat) (h : s.players ≠ [] → s.cur < s.players.length) (hne : s.players ≠ []) :
    targetOf s p < s.players.length := by
  unfold targetOf; split
  · assumption
  · exact h hne

theorem inv_drainStep (c : Cfg) (s : St) (h : Inv s) : Inv (drainStep c s).1 := by
  obtain ⟨h1, h2⟩ := h
  simp only [drainStep]
  split
  · exact ⟨h1, h2⟩
  · rename_i hne
    have hc := h2 hne
    split
    · refine ⟨?_, fun _ => ?_⟩
      · rw [ballStart_cur, setOn_cur]
        rcases ballStart_dev c (setOn { s with dev := none } s.cur "extra_balls"
          (.int (intVar (varsOf { s with dev := none } s.cur) "extra_balls" - 1))).1 s.cur with e | e
        · exact Or.inr e
        · exact Or.inl (by rw [e, setOn_dev])
      · rw [ballStart_cur, ballStart_length, setOn_cur, setOn_players, modify_length]; exact hc
    · split
      · exact ⟨Or.inl rfl, fun hp => absurd rfl hp⟩
      · refine ⟨?_, fun _ => ?_⟩
        · rw [turnStart_cur]; exact turnStart_dev _ _ _ rfl
        · rw [turnStart_cur, turnStart_length]
          show (if s.cur + 1 < s.players.length then s.cur + 1 else 0) < s.players.length
          split <;> omega

theorem inv_step (c : Cfg) (s : St) (op : Op) (h : Inv s) : Inv (step c s op).1 := by
  obtain ⟨h1, h2⟩ := h
  cases op with
  | startGame =>
    simp only [step]
    split
    · exact ⟨h1, h2⟩
    · refine ⟨?_, fun _ => ?_⟩
      · rw [turnStart_cur]; exact turnStart_dev _ _ _ rfl
      · rw [turnStart_cur, turnStart_length]; simp
  | addPlayer =>
    simp only [step]
    split
    · exact ⟨h1, h2⟩
    · rename_i hc
      refine ⟨h1, fun _ => ?_⟩
      have : s.players ≠ [] := by intro e; simp [e] at hc
      have := h2 this
      simp only [List.length_append, List.length_singleton]; omega
  | set k v =>
    simp only [step]
    split
    · exact ⟨h1, h2⟩
    · refine ⟨h1, fun _ => ?_⟩
      rw [setOn_players, setOn_cur, modify_length]; exact h2 (by assumption)
  | add k d =>
    simp only [step]
    split
    · exact ⟨h1, h2⟩
    · split
      · refine ⟨h1, fun _ => ?_⟩
        rw [setOn_players, setOn_cur, modify_length]; exact h2 (by assumption)
      · exact ⟨h1, h2⟩
  | setP p k v =>
    simp only [step]
    split
    · exact ⟨h1, h2⟩
    · refine ⟨h1, fun _ => ?_⟩
      rw [setOn_players, setOn_cur, modify_length]; exact h2 (by assumption)
  | addP p k d =>
    simp only [step]
    split
    · exact ⟨h1, h2⟩
    · split
      · refine ⟨h1, fun _ => ?_⟩
        rw [setOn_players, setOn_cur, modify_length]; exact h2 (by assumption)
      · exact ⟨h1, h2⟩
  | setMachine k v =>
    simp only [step]
    split <;> exact ⟨h1, h2⟩
  | addMachine k d =>
    simp only [step]
    split
    · exact ⟨h1, h2⟩
    · split <;> exact ⟨h1, h2⟩
  | wait n =>
    simp only [step]
    split
    · exact ⟨h1, h2⟩
    · refine ⟨h1, fun hp => ?_⟩
      simp only [modify_length] at hp ⊢
      exact h2 (by intro e; simp [e, modify] at hp)
  | dev d code =>
    simp only [step]
    split
    · exact ⟨h1, h2⟩
    · split
      · exact ⟨h1, h2⟩
      · split
        · exact ⟨h1, h2⟩
        · refine ⟨h1, fun hp => ?_⟩
          simp only [modify_length] at hp ⊢
          exact h2 (by intro e; simp [e, modify] at hp)
  | swap d1 d2 =>
    simp only [step]
    split
    · exact ⟨h1, h2⟩
    · refine ⟨h1, fun hp => ?_⟩
      simp only [modify_length] at hp ⊢
      exact h2 (by intro e; simp [e, modify] at hp)
  | drain =>
    simp only [step]
    split
    · exact ⟨h1, h2⟩
    · exact inv_drainStep c s ⟨h1, h2⟩
  | endGame => exact ⟨Or.inl rfl, fun hp => absurd rfl hp⟩
  | modeStop =>
    simp only [step]
    split
    · exact ⟨h1, h2⟩
    · exact ⟨Or.inl rfl, h2⟩
  | modeStopHold =>
    simp only [step]
    split <;> exact ⟨h1, h2⟩
  | release =>
    simp only [step]
    split
    · split
      · exact inv_drainStep c _ ⟨Or.inl rfl, h2⟩
      · exact ⟨Or.inl rfl, h2⟩
    · exact ⟨h1, h2⟩
  | modeStart =>
    simp only [step]
    split
    · exact ⟨h1, h2⟩
    · split
      · exact ⟨h1, h2⟩
      · refine ⟨Or.inr ?_, fun _ => ?_⟩
        · rw [modeStart_dev, modeStart_cur]
        · rw [modeStart_cur, modeStart_length]; exact h2 (by assumption)
  | drainPre =>
    simp only [step]
    split
    · exact ⟨h1, h2⟩
    split
    · exact ⟨h1, h2⟩
    · rename_i hne
      have hc := h2 hne
      split
      · refine ⟨Or.inr ?_, fun _ => ?_⟩
        · rw [setOn_dev, setOn_cur, modeStart_dev, modeStart_cur]
        · rw [setOn_cur, setOn_players, modify_length, modeStart_cur, modeStart_length]; exact hc
      · split
        · exact ⟨Or.inl rfl, fun hp => absurd rfl hp⟩
        · refine ⟨?_, fun _ => ?_⟩
          · rw [turnStart_cur]; exact turnStart_dev _ _ _ rfl
          · rw [turnStart_cur, turnStart_length]
            show (if s.cur + 1 < (modeStart c { s with dev := none } s.cur).players.length then s.cur + 1 else 0)
              < (modeStart c { s with dev := none } s.cur).players.length
            rw [modeStart_length]
            by_cases hh : s.cur + 1 < s.players.length
            · rw [if_pos hh]; exact hh
            · rw [if_neg hh]; exact Nat.lt_of_le_of_lt (Nat.zero_le _) hc

/-- the player an explicitly targeted `variable_player` entry names (that entry is *meant* to write to that player) -/
def explicitTarget : Op → Option Nat
  | .setP p _ _ => some p
  | .addP p _ _ => some p
  | _ => none

theorem dev_eq_cur {s : St} (h : Inv s) {p : Nat} (hp : s.dev = some p) : p = s.cur := by
  rcases h.1 with e | e
  · rw [e] at hp; cases hp
  · rw [e] at hp; cases hp; rfl

theorem frame_drainStep (c : Cfg) (s : St) (q : Nat) (h1 : q ≠ s.cur) (h2 : q ≠ (drainStep c s).1.cur)
    (hg : (drainStep c s).1.players ≠ []) : (drainStep c s).1.players[q]? = s.players[q]? := by
  simp only [drainStep] at hg h2 ⊢
  split
  · rfl
  · split
    · rw [ballStart_other _ _ _ _ h1, setOn_players]
      exact modify_get_other _ _ _ _ h1
    · split
      · rename_i hx; simp [*] at hg
      · rename_i hp hx hy
        simp only [hp, hx, hy, if_false] at h2
        rw [turnStart_cur] at h2
        rw [turnStart_other _ _ _ _ h2]

/-- one request leaves the dictionary of every player who is neither up before nor after it (nor named explicitly by
it) untouched -/
theorem frame_step (c : Cfg) (s : St) (op : Op) (h : Inv s) (q : Nat) (hq : q < s.players.length)
    (h1 : q ≠ s.cur) (h2 : q ≠ (step c s op).1.cur) (hg : (step c s op).1.players ≠ [])
    (h3 : explicitTarget op ≠ some q) :
    (step c s op).1.players[q]? = s.players[q]? := by
  cases op with
  | startGame =>
    simp only [step] at hg h2 ⊢
    split
    · rfl
    · rename_i hp; simp at hp; simp [hp] at hq
  | addPlayer =>
    simp only [step]
    split
    · rfl
    · exact List.getElem?_append_left hq
  | set k v =>
    simp only [step]
    split
    · rfl
    · rw [setOn_players]; exact modify_get_other _ _ _ _ h1
  | add k d =>
    simp only [step]
    split
    · rfl
    · split
      · rw [setOn_players]; exact modify_get_other _ _ _ _ h1
      · rfl
  | setP p k v =>
    have ht : q ≠ targetOf s p := by
      unfold targetOf; split
      · intro e; exact h3 (by simp [explicitTarget, e])
      · exact h1
    simp only [step]
    split
    · rfl
    · rw [setOn_players]; exact modify_get_other _ _ _ _ ht
  | addP p k d =>
    have ht : q ≠ targetOf s p := by
      unfold targetOf; split
      · intro e; exact h3 (by simp [explicitTarget, e])
      · exact h1
    simp only [step]
    split
    · rfl
    · split
      · rw [setOn_players]; exact modify_get_other _ _ _ _ ht
      · rfl
  | setMachine k v =>
    simp only [step]
    split <;> rfl
  | addMachine k d =>
    simp only [step]
    split
    · rfl
    · split <;> rfl
  | wait n =>
    simp only [step]
    split
    · rfl
    · rename_i p hp
      have := dev_eq_cur h hp
      subst this
      exact modify_get_other _ _ _ _ h1
  | dev d code =>
    simp only [step]
    split
    · rfl
    · rename_i p hp
      have := dev_eq_cur h hp
      subst this
      split
      · rfl
      · split
        · rfl
        · exact modify_get_other _ _ _ _ h1
  | swap d1 d2 =>
    simp only [step]
    split
    · rfl
    · rename_i p hp
      have := dev_eq_cur h hp
      subst this
      exact modify_get_other _ _ _ _ h1
  | drain =>
    simp only [step] at hg h2 ⊢
    split
    · rfl
    · rename_i hh
      simp only [hh] at hg h2
      exact frame_drainStep c s q h1 h2 hg
  | endGame => simp [step] at hg
  | modeStop => simp only [step]; split <;> rfl
  | modeStopHold => simp only [step]; split <;> rfl
  | release =>
    simp only [step] at hg h2 ⊢
    split
    · rename_i hh
      simp only [hh, if_true] at hg h2
      split
      · rename_i he
        simp only [he, if_true] at hg h2
        exact frame_drainStep c _ q h1 h2 hg
      · rfl
    · rfl
  | modeStart =>
    simp only [step]
    split
    · rfl
    · split
      · rfl
      · exact modeStart_other _ _ _ _ h1
  | drainPre =>
    simp only [step] at hg h2 ⊢
    split
    · rfl
    split
    · rfl
    · split
      · rw [setOn_players, modify_get_other _ _ _ _ (by rw [modeStart_cur]; exact h1)]
        exact modeStart_other _ _ _ _ h1
      · split
        · rename_i hh hp hx hy
          rw [if_neg hh, if_neg hp, if_neg hx, if_pos hy] at hg
          exact absurd rfl hg
        · rename_i hh hp hx hy
          rw [if_neg hh, if_neg hp, if_neg hx, if_neg hy] at h2
          rw [turnStart_cur] at h2
          rw [turnStart_other _ _ _ _ h2]
          exact modeStart_other _ _ _ _ h1

end MpfVerif.Player

namespace MpfVerif.Player

/-- over the history `ops` from `s`, player `q` is never the one who is up, is never named explicitly as the target of
a `variable_player` entry, and the game does not end -/
def quiet (c : Cfg) (q : Nat) : St → List Op → Prop
  | _, [] => True
  | s, op :: rest => q ≠ s.cur ∧ q ≠ (step c s op).1.cur ∧ (step c s op).1.players ≠ [] ∧ explicitTarget op ≠ some q ∧
      quiet c q (step c s op).1 rest

theorem drainStep_length_mono (c : Cfg) (s : St) (hg : (drainStep c s).1.players ≠ []) :
    s.players.length ≤ (drainStep c s).1.players.length := by
  simp only [drainStep] at hg ⊢
  split
  · simp
  · split
    · simp [ballStart_length, setOn_players, modify_length]
    · split
      · rename_i hx; simp [*] at hg
      · simp [turnStart_length]

theorem step_length_mono (c : Cfg) (s : St) (op : Op) (hg : (step c s op).1.players ≠ []) :
    s.players.length ≤ (step c s op).1.players.length := by
  cases op with
  | startGame =>
    simp only [step]; split
    · exact Nat.le_refl _
    · rename_i hp; simp at hp; simp [hp]
  | addPlayer => simp only [step]; split <;> simp
  | set k v => simp only [step]; split <;> simp [setOn_players, modify_length]
  | add k d =>
    simp only [step]; split
    · simp
    · split <;> simp [setOn_players, modify_length]
  | setP p k v => simp only [step]; split <;> simp [setOn_players, modify_length]
  | addP p k d =>
    simp only [step]; split
    · simp
    · split <;> simp [setOn_players, modify_length]
  | setMachine k v => simp only [step]; split <;> simp
  | addMachine k d =>
    simp only [step]; split
    · simp
    · split <;> simp
  | wait n => simp only [step]; split <;> simp [modify_length]
  | dev d code =>
    simp only [step]; split
    · simp
    · split
      · simp
      · split <;> simp [modify_length]
  | swap d1 d2 => simp only [step]; split <;> simp [modify_length]
  | drain =>
    simp only [step] at hg ⊢
    split
    · simp
    · rename_i hh
      simp only [hh] at hg
      exact drainStep_length_mono c s hg
  | endGame => simp [step] at hg
  | modeStop => simp only [step]; split <;> simp
  | modeStopHold => simp only [step]; split <;> simp
  | release =>
    simp only [step] at hg ⊢
    split
    · rename_i hh
      simp only [hh, if_true] at hg
      split
      · rename_i he
        simp only [he, if_true] at hg
        exact drainStep_length_mono c _ hg
      · simp
    · simp
  | modeStart =>
    simp only [step]; split
    · simp
    · split <;> simp [modeStart_length]
  | drainPre =>
    simp only [step] at hg ⊢
    split
    · simp
    split
    · simp
    · split
      · simp [setOn_players, modify_length, modeStart_length]
      · split
        · rename_i hh hp hx hy
          rw [if_neg hh, if_neg hp, if_neg hx, if_pos hy] at hg
          exact absurd rfl hg
        · simp [turnStart_length, modeStart_length]

end MpfVerif.Player

namespace MpfVerif.Player

/-- device keys are pairwise different and none of them is a variable the game itself writes at ball start -/
def KeysOK (c : Cfg) : Prop :=
  (c.devs.map (·.key)).Nodup ∧ ∀ d ∈ c.devs, d.key ≠ "ball" ∧ d.key ≠ "extra_balls"

/-- the state device `d` takes when the mode starts on dictionary `m` -/
def loaded (d : Dev) (m : Vars) : Val := match get m d.key with | some v => d.load v | none => d.fresh

theorem loadAll_other (devs : List Dev) (m : Vars) (k : String) (h : k ∉ devs.map (·.key)) :
    get (loadAll devs m) k = get m k := by
  induction devs generalizing m with
  | nil => rfl
  | cons d r ih =>
    simp only [List.map_cons, List.mem_cons, not_or] at h
    rw [loadAll, ih _ h.2, get_put_other _ _ _ _ h.1]

theorem loadAll_get (devs : List Dev) (m : Vars) (hn : (devs.map (·.key)).Nodup) (d : Dev) (hd : d ∈ devs) :
    get (loadAll devs m) d.key = some (loaded d m) := by
  induction devs generalizing m with
  | nil => simp at hd
  | cons d0 r ih =>
    simp only [List.map_cons, List.nodup_cons] at hn
    rw [loadAll]
    rcases List.mem_cons.mp hd with e | e
    · subst e
      rw [loadAll_other _ _ _ hn.1, get_put_same]; rfl
    · have hk : d.key ≠ d0.key := by
        intro e2; exact hn.1 (e2 ▸ List.mem_map_of_mem e)
      rw [ih _ hn.2 e]
      unfold loaded
      rw [get_put_other _ _ _ _ hk]

end MpfVerif.Player

namespace MpfVerif.Player

/-- a held stop belongs to a running mode; a ball end only waits behind a held stop -/
def HoldInv (s : St) : Prop := (s.hold = true → s.dev ≠ none) ∧ (s.ending = true → s.hold = true)

theorem ballStart_hold (c : Cfg) (s : St) (i : Nat) :
    (ballStart c s i).hold = s.hold ∧ (ballStart c s i).ending = s.ending := by
  unfold ballStart; split <;> exact ⟨rfl, rfl⟩

theorem turnStart_hold (c : Cfg) (s : St) (i : Nat) :
    (turnStart c s i).1.hold = s.hold ∧ (turnStart c s i).1.ending = s.ending := by
  unfold turnStart; simp only []
  exact ⟨(ballStart_hold c _ i).1, (ballStart_hold c _ i).2⟩

theorem drainStep_hold (c : Cfg) (s : St) (hh : s.hold = false) (he : s.ending = false) :
    (drainStep c s).1.hold = false ∧ (drainStep c s).1.ending = false := by
  simp only [drainStep]
  split
  · exact ⟨hh, he⟩
  · split
    · rw [(ballStart_hold c _ _).1, (ballStart_hold c _ _).2]; exact ⟨hh, he⟩
    · split
      · exact ⟨hh, he⟩
      · rw [(turnStart_hold c _ _).1, (turnStart_hold c _ _).2]; exact ⟨hh, he⟩

theorem holdInv_of_off {s : St} (hh : s.hold = false) (he : s.ending = false) : HoldInv s :=
  ⟨fun h => (by rw [hh] at h; cases h), fun h => (by rw [he] at h; cases h)⟩

theorem holdInv_step (c : Cfg) (s : St) (op : Op) (h : HoldInv s) : HoldInv (step c s op).1 := by
  obtain ⟨h1, h2⟩ := h
  have hoff : s.hold = false → s.ending = false := fun hh => by
    cases he : s.ending with
    | false => rfl
    | true => rw [h2 he] at hh; cases hh
  cases op with
  | startGame =>
    simp only [step]
    split
    · exact ⟨h1, h2⟩
    · exact holdInv_of_off (turnStart_hold c _ 0).1 (turnStart_hold c _ 0).2
  | addPlayer => simp only [step]; split <;> exact ⟨h1, h2⟩
  | set k v => simp only [step]; split <;> exact ⟨h1, h2⟩
  | add k d =>
    simp only [step]; split
    · exact ⟨h1, h2⟩
    · split <;> exact ⟨h1, h2⟩
  | setP p k v => simp only [step]; split <;> exact ⟨h1, h2⟩
  | addP p k d =>
    simp only [step]; split
    · exact ⟨h1, h2⟩
    · split <;> exact ⟨h1, h2⟩
  | setMachine k v => simp only [step]; split <;> exact ⟨h1, h2⟩
  | addMachine k d =>
    simp only [step]; split
    · exact ⟨h1, h2⟩
    · split <;> exact ⟨h1, h2⟩
  | wait n =>
    simp only [step]; split
    · exact ⟨h1, h2⟩
    · rename_i p hp
      exact ⟨fun _ => by simp [hp], h2⟩
  | dev d code =>
    simp only [step]; split
    · exact ⟨h1, h2⟩
    · rename_i p hp
      split
      · exact ⟨h1, h2⟩
      · split
        · exact ⟨h1, h2⟩
        · exact ⟨fun _ => by simp [hp], h2⟩
  | swap d1 d2 =>
    simp only [step]; split
    · exact ⟨h1, h2⟩
    · rename_i p hp
      exact ⟨fun _ => by simp [hp], h2⟩
  | drain =>
    simp only [step]; split
    · rename_i hh
      exact ⟨h1, fun _ => hh⟩
    · rename_i hh
      have hh' : s.hold = false := by simpa using hh
      exact holdInv_of_off (drainStep_hold c s hh' (hoff hh')).1 (drainStep_hold c s hh' (hoff hh')).2
  | endGame => exact holdInv_of_off rfl rfl
  | modeStop =>
    simp only [step]; split
    · exact ⟨h1, h2⟩
    · rename_i hh
      have hh' : s.hold = false := by simpa using hh
      exact holdInv_of_off hh' (hoff hh')
  | modeStopHold =>
    simp only [step]; split
    · exact ⟨h1, h2⟩
    · rename_i p hp
      exact ⟨fun _ => by simp [hp], fun _ => rfl⟩
  | release =>
    simp only [step]; split
    · split
      · exact holdInv_of_off (drainStep_hold c _ rfl rfl).1 (drainStep_hold c _ rfl rfl).2
      · exact holdInv_of_off rfl rfl
    · exact ⟨h1, h2⟩
  | modeStart =>
    simp only [step]; split
    · exact ⟨h1, h2⟩
    · split
      · exact ⟨h1, h2⟩
      · rename_i hd
        exact ⟨fun _ => by simp [modeStart], h2⟩
  | drainPre =>
    simp only [step]; split
    · rename_i hh
      exact ⟨h1, fun _ => hh⟩
    · rename_i hh
      have hh' : s.hold = false := by simpa using hh
      have he' := hoff hh'
      split
      · exact ⟨h1, h2⟩
      · split
        · exact holdInv_of_off hh' he'
        · split
          · exact holdInv_of_off hh' he'
          · exact holdInv_of_off ((turnStart_hold c _ _).1.trans hh') ((turnStart_hold c _ _).2.trans he')

end MpfVerif.Player

namespace MpfVerif.Player

/-! events of devices that write through `Player.__setattr__`: all of them carry the number they were computed for -/

theorem setVar_num (m : Vars) (num : Nat) (k : String) (v : Val) : ∀ e ∈ (setVar m num k v).2, e.num = num ∧ e.name = k := by
  intro e he
  unfold setVar at he
  simp only [] at he
  split at he
  · simp at he; subst he; exact ⟨rfl, rfl⟩
  · simp at he

theorem devEv_num (d : Dev) (m : Vars) (num : Nat) (v : Val) : ∀ e ∈ devEv d m num v, e.num = num := by
  intro e he
  unfold devEv at he
  split at he
  · exact (setVar_num _ _ _ _ e he).1
  · simp at he

theorem loadEvs_num (devs : List Dev) (num : Nat) (m : Vars) : ∀ e ∈ loadEvs devs num m, e.num = num := by
  induction devs generalizing m with
  | nil => intro e he; simp [loadEvs] at he
  | cons d r ih =>
    intro e he
    simp only [loadEvs, List.mem_append] at he
    rcases he with he | he
    · exact devEv_num _ _ _ _ e he
    · exact ih _ e he

theorem tickEvs_num (devs : List Dev) (num : Nat) (ls : List Loc) (m : Vars) : ∀ e ∈ tickEvs devs num ls m, e.num = num := by
  induction devs generalizing ls m with
  | nil => intro e he; simp [tickEvs] at he
  | cons d r ih =>
    intro e he
    simp only [tickEvs] at he
    split at he
    · simp only [List.mem_append] at he
      rcases he with he | he
      · exact devEv_num _ _ _ _ e he
      · exact ih _ _ e he
    · exact ih _ _ e he

theorem elapseEvs_num (devs : List Dev) (num n : Nat) (ls : List Loc) (m : Vars) :
    ∀ e ∈ elapseEvs devs num n ls m, e.num = num := by
  induction n generalizing ls m with
  | zero => intro e he; simp [elapseEvs] at he
  | succ n ih =>
    intro e he
    simp only [elapseEvs, List.mem_append] at he
    rcases he with he | he
    · exact tickEvs_num _ _ _ _ e he
    · exact ih _ _ e he

theorem ballStartEvs_num (c : Cfg) (s : St) (i : Nat) : ∀ e ∈ ballStartEvs c s i, e.num = i + 1 := by
  intro e he
  unfold ballStartEvs at he
  split at he
  · exact loadEvs_num _ _ _ e he
  · simp at he

theorem setOn_num (s : St) (i : Nat) (k : String) (v : Val) : ∀ e ∈ (setOn s i k v).2, e.num = i + 1 :=
  fun e he => (setVar_num _ _ _ _ e he).1

theorem turnStart_num (c : Cfg) (s : St) (i : Nat) : ∀ e ∈ (turnStart c s i).2, e.num = i + 1 := by
  intro e he
  unfold turnStart at he
  simp only [List.mem_append] at he
  rcases he with he | he
  · exact setOn_num _ _ _ _ e he
  · exact ballStartEvs_num _ _ _ e he

/-- every event of the ball end proper carries the number of the player who is up afterwards -/
theorem drainStep_num (c : Cfg) (s : St) : ∀ e ∈ (drainStep c s).2, e.num = (drainStep c s).1.cur + 1 := by
  simp only [drainStep]
  split
  · intro e he; simp at he
  · split
    · intro e he
      rw [ballStart_cur, setOn_cur]
      simp only [List.mem_append] at he
      rcases he with he | he
      · exact setOn_num _ _ _ _ e he
      · exact ballStartEvs_num _ _ _ e he
    · split
      · intro e he; simp at he
      · intro e he
        rw [turnStart_cur]
        exact turnStart_num _ _ _ e he

end MpfVerif.Player
