import MpfVerif.Gen.BcpCodec
import MpfVerif.Lemmas.Bcp
/-!
# The hand model of the BCP codec IS the translated source (C19)

`Gen/BcpCodec.lean` holds `decode_command_string` / `encode_command_string` of `mpf/core/bcp/bcp_socket_client.py` as data
(regenerated from the source on every check by `translate/bcp_codec.py`); `Model/PyStr.lean` is the fixed interpreter.
  * `decode_refines_source` : running the translated decoder on ANY byte list gives `Bcp.decode` of it;
  * `encode_refines_source` : running the translated encoder on ANY command / argument list returns `PyStr.encode`
    (= `Bcp.encodeJson` when a value is a dict/list or a key is `json`, else `Bcp.encodeFlat` of the scalars);
  * neither run is ever stuck (`runDecode?_eq`, and `runEncode … = some …`).
Proof shape: one lemma per loop ROUND (body run from any store whose dict / string variable has a given value), the loop by
induction over the iterated list, the straight-line parts by `simp` with the interpreter's equations.
-/
namespace MpfVerif.PyStr
open MpfVerif.Bcp MpfVerif.Gen.BcpCodec

macro "py_simp" "[" ts:Lean.Parser.Tactic.simpLemma,* "]" : tactic =>
  `(tactic| simp [execL, execS, eval, onStr, onVal, defined, set, sv, bv, truthy, ofOpt, instOf, argPV, strText, $ts,*])

theorem execL_append (d : List (Bytes × Arg) → Bytes) (a b : List St) (σ : Store) :
    execL d (a ++ b) σ = match execL d a σ with | .next σ' => execL d b σ' | o => o := by
  induction a generalizing σ with
  | nil => simp [execL]
  | cons s r ih =>
    simp only [List.cons_append, execL]
    cases execS d s σ <;> simp [ih]

/-! ## decoder -/

def decPre : List St := decodeProg.take 3
def decPost : List St := decodeProg.drop 4
def decBody : List St :=
  match decodeProg with
  | _ :: _ :: _ :: .forStr _ _ b :: _ => b
  | _ => []

theorem decodeProg_split :
    decodeProg = decPre ++ .forStr 3 (.split 38 (.query (.var 1))) decBody :: decPost := rfl

/-- one round of the decoder's loop on the dict (forward order) -/
def stepPair (D : List (Bytes × Val)) (p : Bytes) : Option (List (Bytes × Val)) :=
  if p.isEmpty then some D else
  if hasKey (unquote (plusToSpace (splitFirst 61 p).1)) D then some D else
  (decodeValue ((splitFirst 61 p).2.getD [])).map (fun v => D ++ [(unquote (plusToSpace (splitFirst 61 p).1), v)])

theorem dictSet_new (k : Bytes) (v : Val) (l : List (Bytes × Val)) (h : hasKey k l = false) :
    dictSet k v l = l ++ [(k, v)] := by
  induction l with
  | nil => rfl
  | cons a r ih =>
    obtain ⟨k', v'⟩ := a
    simp only [hasKey, Bool.or_eq_false_iff, decide_eq_false_iff_not] at h
    simp [dictSet, h.1, ih h.2]

theorem decBody_step (d : List (Bytes × Arg) → Bytes) (σ : Store) (D : List (Bytes × Val)) (p : Bytes)
    (h2 : σ 2 = .dict D) :
    match stepPair D p with
    | some D' => ∃ σ', (execL d decBody (set σ 3 (sv p)) = .next σ' ∨ execL d decBody (set σ 3 (sv p)) = .cont σ')
        ∧ σ' 2 = .dict D' ∧ σ' 1 = σ 1
    | none => execL d decBody (set σ 3 (sv p)) = .err .value := by
  unfold stepPair
  by_cases hp : p.isEmpty = true
  · py_simp [hp, decBody, decodeProg, h2]
  · have hp' : p.isEmpty = false := by simpa using hp
    cases hk : hasKey (unquote (plusToSpace (splitFirst 61 p).1)) D with
    | true => py_simp [hp', hk, decBody, decodeProg, h2]
    | false =>
      simp only [hp']
      unfold decodeValue
      simp only [pInt, pFloat, sBoolTrue, sBoolFalse, sNone]
      generalize hraw : (splitFirst 61 p).2.getD [] = raw
      have hds := fun v => dictSet_new _ v _ hk
      by_cases h1 : [105, 110, 116, 58].isPrefixOf raw = true
      · cases hi : parseInt (List.drop 4 (unquote (plusToSpace raw))) with
        | none => py_simp [hp', hk, h1, hi, hraw, decBody, decodeProg, h2]
        | some i => 
          py_simp [hp', hk, h1, hi, hraw, decBody, decodeProg, h2, hds]
      · by_cases h2' : [102, 108, 111, 97, 116, 58].isPrefixOf raw = true
        · py_simp [hp', hk, h1, h2', hraw, decBody, decodeProg, h2, hds]
        · by_cases h3 : toLower raw = [98, 111, 111, 108, 58, 116, 114, 117, 101]
          · py_simp [hp', hk, h1, h2', h3, hraw, decBody, decodeProg, h2, hds]
          · by_cases h4 : toLower raw = [98, 111, 111, 108, 58, 102, 97, 108, 115, 101]
            · py_simp [hp', hk, h1, h2', h3, h4, hraw, decBody, decodeProg, h2, hds]
            · by_cases h5 : raw = [78, 111, 110, 101, 84, 121, 112, 101, 58]
              · have h5' := h5.symm
                py_simp [hp', hk, h1, h2', h3, h4, h5', hraw, decBody, decodeProg, h2, hds]
              · py_simp [hp', hk, h1, h2', h3, h4, h5, hraw, decBody, decodeProg, h2, hds]

/-- the loop of the hand model, accumulating forwards -/
def decFwd : List Bytes → List (Bytes × Val) → Option (List (Bytes × Val))
  | [], D => some D
  | p :: rest, D =>
    match stepPair D p with
    | some D' => decFwd rest D'
    | none => none

theorem hasKey_append (k : Bytes) (a b : List (Bytes × Val)) : hasKey k (a ++ b) = (hasKey k a || hasKey k b) := by
  induction a with
  | nil => simp [hasKey]
  | cons x r ih => obtain ⟨k', v'⟩ := x; simp [hasKey, ih, Bool.or_assoc]

theorem hasKey_reverse (k : Bytes) (l : List (Bytes × Val)) : hasKey k l.reverse = hasKey k l := by
  induction l with
  | nil => rfl
  | cons x r ih => obtain ⟨k', v'⟩ := x; simp [hasKey, hasKey_append, ih, Bool.or_comm]

theorem decodePairs_fwd (ps : List Bytes) (acc : List (Bytes × Val)) : decodePairs ps acc = decFwd ps acc.reverse := by
  induction ps generalizing acc with
  | nil => rfl
  | cons p rest ih =>
    rcases hs : splitFirst 61 p with ⟨n, v⟩
    simp only [decodePairs, decFwd, stepPair, hs, hasKey_reverse]
    by_cases hp : p.isEmpty = true
    · simp [hp, ih]
    · cases hk : hasKey (unquote (plusToSpace n)) acc with
      | true => simp [hp, ih]
      | false =>
        cases hv : decodeValue (v.getD []) with
        | none => simp [hp]
        | some val => simp [hp, ih]

theorem dec_loop (d : List (Bytes × Arg) → Bytes) (ps : List Bytes) (σ : Store) (D : List (Bytes × Val))
    (h2 : σ 2 = .dict D) :
    match decFwd ps D with
    | some D' => ∃ σ', iterStr (execL d decBody) 3 ps σ = .next σ' ∧ σ' 2 = .dict D' ∧ σ' 1 = σ 1
    | none => iterStr (execL d decBody) 3 ps σ = .err .value := by
  induction ps generalizing σ D with
  | nil => exact ⟨σ, rfl, h2, rfl⟩
  | cons p rest ih =>
    have hs := decBody_step d σ D p h2
    cases hsp : stepPair D p with
    | none =>
      rw [hsp] at hs
      simp [decFwd, hsp, iterStr, hs]
    | some D' =>
      rw [hsp] at hs
      obtain ⟨σ', ho, h2', h1'⟩ := hs
      have hi := ih σ' D' h2'
      simp only [decFwd, hsp]
      have hit : iterStr (execL d decBody) 3 (p :: rest) σ = iterStr (execL d decBody) 3 rest σ' := by
        rcases ho with ho | ho <;> simp [iterStr, ho]
      rw [hit]
      cases hf : decFwd rest D' with
      | none => rw [hf] at hi; exact hi
      | some D'' =>
        rw [hf] at hi
        obtain ⟨σ'', e1, e2, e3⟩ := hi
        exact ⟨σ'', e1, e2, e3.trans h1'⟩

theorem take5_json (q : Bytes) : decide (List.take 5 q = [106, 115, 111, 110, 61]) = sJsonEq.isPrefixOf q := by
  rw [Bool.eq_iff_iff]
  simp only [decide_eq_true_eq, List.isPrefixOf_iff_prefix, List.prefix_iff_eq_take, sJsonEq, List.length]
  exact eq_comm

theorem runDecode?_eq (line : Bytes) : runDecode? decodeProg line = some (decode line) := by
  rcases hs : splitFirst 63 line with ⟨cmd, qo⟩
  generalize hq : qo.getD [] = q
  unfold runDecode? decode
  rw [decodeProg_split, execL_append]
  simp only [hs, hq]
  cases hj : sJsonEq.isPrefixOf q with
  | true =>
    py_simp [decPre, decodeProg, hs, hq, take5_json, hj]
  | false =>
    have hpre : execL (fun _ => []) decPre (set Store.empty 0 (sv line)) =
        .next (set (set (set Store.empty 0 (sv line)) 1 (.url cmd q)) 2 (.dict [])) := by
      py_simp [decPre, decodeProg, hs, hq, take5_json, hj]
    rw [hpre]
    have hl := dec_loop (fun _ => []) (splitAll 38 q) (set (set (set Store.empty 0 (sv line)) 1 (.url cmd q)) 2 (.dict [])) []
      (by simp [set])
    simp only [sv] at hl
    rw [decodePairs_fwd]
    simp only [List.reverse_nil]
    cases hf : decFwd (splitAll 38 q) [] with
    | none =>
      rw [hf] at hl
      simp [execL, execS, eval, onVal, onStr, defined, set, sv, hl]
    | some D' =>
      rw [hf] at hl
      obtain ⟨σ', e1, e2, e3⟩ := hl
      simp [set] at e3
      simp [execL, execS, eval, onVal, onStr, defined, set, sv, e1, e2, e3, decPost, decodeProg]

/-- **The hand model's decoder is the translated source**: interpreting the program generated from
`decode_command_string` on any byte list gives `Bcp.decode` of it (flat parameters, the JSON branch, or the ValueError of
`int()`); the run is never stuck (`runDecode?_eq`). -/
theorem decode_refines_source (line : Bytes) : runDecode decodeProg line = decode line := by
  simp [runDecode, runDecode?_eq]

/-! ## encoder -/

def encPre : List St := encodeProg.take 2
def encPost : List St := encodeProg.drop 3
def encBody : List St :=
  match encodeProg with
  | _ :: _ :: .forItems _ _ _ b :: _ => b
  | _ => []

theorem encodeProg_split : encodeProg = encPre ++ .forItems 4 5 (.var 1) encBody :: encPost := rfl

/-- what the Python loop builds: every pair followed by `&` -/
def ampCat : List Bytes → Bytes
  | [] => []
  | x :: r => x ++ 38 :: ampCat r

theorem ampCat_dropLast (ps : List Bytes) : (ampCat ps).dropLast = joinAmp ps := by
  induction ps with
  | nil => rfl
  | cons x r ih =>
    cases r with
    | nil => simp [ampCat, joinAmp, List.dropLast_append_of_ne_nil]
    | cons y r' =>
      have hne : ampCat (y :: r') ≠ [] := by simp [ampCat]
      rw [ampCat, joinAmp, List.dropLast_append_of_ne_nil (by simp), List.dropLast_cons_of_ne_nil hne, ih]

theorem joinAmp_pairs_isEmpty (kw : List (Bytes × Val)) : (joinAmp (kw.map encodePair)).isEmpty = kw.isEmpty := by
  cases kw with
  | nil => rfl
  | cons a r =>
    obtain ⟨t, ht⟩ := joinAmp_cons (encodePair a) (r.map encodePair)
    rw [List.map_cons, ht]
    simp [encodePair]

/-- a round on an entry that needs JSON: `json_needed = True; break` -/
theorem encBody_json (d : List (Bytes × Arg) → Bytes) (σ : Store) (k : Bytes) (a : Arg)
    (h : (isNested a || decide (k = sJson)) = true) :
    ∃ σ', execL d encBody (set (set σ 4 (sv k)) 5 (argPV a)) = .brk σ' ∧ σ' 3 = bv true ∧ σ' 2 = σ 2 ∧ σ' 0 = σ 0 ∧ σ' 1 = σ 1 := by
  cases a with
  | nested n => py_simp [encBody, encodeProg]
  | scalar v =>
    have hk : k = [106, 115, 111, 110] := by
      simp only [isNested, Bool.false_or] at h
      exact of_decide_eq_true h
    py_simp [encBody, encodeProg, hk]

/-- a round on a scalar entry: `kwarg_string += 'k=v&'` -/
theorem encBody_flat (d : List (Bytes × Arg) → Bytes) (σ : Store) (S k : Bytes) (v : Val)
    (h2 : σ 2 = sv S) (hk : k ≠ sJson) :
    ∃ σ', execL d encBody (set (set σ 4 (sv k)) 5 (argPV (.scalar v))) = .next σ' ∧
      σ' 2 = sv (S ++ (encodePair (k, v) ++ [38])) ∧ σ' 3 = σ 3 ∧ σ' 0 = σ 0 ∧ σ' 1 = σ 1 := by
  have hk' : ¬ k = [106, 115, 111, 110] := hk
  simp only [sv] at h2
  cases v with
  | str s => py_simp [encBody, encodeProg, hk', h2, encodePair, encodeValue]
  | int i => py_simp [encBody, encodeProg, hk', h2, encodePair, encodeValue, pInt]
  | flt t => py_simp [encBody, encodeProg, hk', h2, encodePair, encodeValue, pFloat]
  | bool b => py_simp [encBody, encodeProg, hk', h2, encodePair, encodeValue, pBool]
  | none => py_simp [encBody, encodeProg, hk', h2, encodePair, encodeValue, sNone]

theorem enc_loop (d : List (Bytes × Arg) → Bytes) (l : List (Bytes × Arg)) (σ : Store) (S : Bytes)
    (h2 : σ 2 = sv S) (h3 : σ 3 = bv false) :
    ∃ σ', iterItems (execL d encBody) 4 5 l σ = .next σ' ∧ σ' 0 = σ 0 ∧ σ' 1 = σ 1 ∧
      (if needsJson l then σ' 3 = bv true ∧ ∃ S', σ' 2 = sv S'
       else σ' 3 = bv false ∧ σ' 2 = sv (S ++ ampCat ((scalarsOf l).map encodePair))) := by
  induction l generalizing σ S with
  | nil => exact ⟨σ, rfl, rfl, rfl, by simp [needsJson, scalarsOf, ampCat, h2, h3]⟩
  | cons kv r ih =>
    obtain ⟨k, a⟩ := kv
    cases hj : (isNested a || decide (k = sJson)) with
    | true =>
      obtain ⟨σ', e, e3, e2, e0, e1⟩ := encBody_json d σ k a hj
      refine ⟨σ', by simp [iterItems, e], e0, e1, ?_⟩
      simp only [needsJson, hj, Bool.true_or, if_true]
      exact ⟨e3, S, e2.trans h2⟩
    | false =>
      cases a with
      | nested n => simp [isNested] at hj
      | scalar v =>
        have hk : k ≠ sJson := by simpa [isNested] using hj
        obtain ⟨σ', e, e2, e3, e0, e1⟩ := encBody_flat d σ S k v h2 hk
        obtain ⟨σ'', f, f0, f1, f2⟩ := ih σ' _ e2 (e3.trans h3)
        refine ⟨σ'', by simp [iterItems, e, f], f0.trans e0, f1.trans e1, ?_⟩
        have hn : needsJson ((k, Arg.scalar v) :: r) = needsJson r := by simp [needsJson, isNested, hk]
        rw [hn]
        simpa [scalarsOf, ampCat] using f2

/-- the statements after the loop, from any store with these four variables -/
theorem encPost_run (d : List (Bytes × Arg) → Bytes) (σ : Store) (cmd S : Bytes) (l : List (Bytes × Arg)) (j : Bool)
    (h0 : σ 0 = sv cmd) (h1 : σ 1 = .args l) (h2 : σ 2 = sv S) (h3 : σ 3 = bv j) :
    execL d encPost σ = .ret (sv (if j then encodeJson cmd (d l)
      else if S.dropLast.isEmpty then cmd else cmd ++ 63 :: S.dropLast)) := by
  simp only [sv, bv] at h0 h2 h3
  cases j with
  | true => py_simp [encPost, encodeProg, h0, h1, h2, h3, encodeJson, sJsonEq]
  | false =>
    by_cases he : S.dropLast.isEmpty = true
    · py_simp [encPost, encodeProg, h0, h1, h2, h3, he]
    · py_simp [encPost, encodeProg, h0, h1, h2, h3, he]

/-- **The hand model's encoder is the translated source**: interpreting the program generated from
`encode_command_string` on any command and any argument list (scalars and dict/list values, any keys, `dumps` = whatever
`json.dumps(kwargs, cls=MpfJSONEncoder)` returns) returns — never raises, is never stuck — the hand model's `encode`:
`Bcp.encodeJson` when some value is a dict/list or some key is `json` (the flat text built so far is discarded), else
`Bcp.encodeFlat` of the scalars (no `?` for an empty parameter list). -/
theorem encode_refines_source (dumps : List (Bytes × Arg) → Bytes) (cmd : Bytes) (args : List (Bytes × Arg)) :
    runEncode dumps encodeProg cmd args = some (encode dumps cmd args) := by
  unfold runEncode
  rw [encodeProg_split, execL_append]
  have hpre : execL dumps encPre (set (set Store.empty 0 (sv cmd)) 1 (.args args)) =
      .next (set (set (set (set Store.empty 0 (sv cmd)) 1 (.args args)) 2 (sv [])) 3 (bv false)) := by
    py_simp [encPre, encodeProg]
  rw [hpre]
  obtain ⟨σ', e, e0, e1, e23⟩ := enc_loop dumps args
    (set (set (set (set Store.empty 0 (sv cmd)) 1 (.args args)) 2 (sv [])) 3 (bv false)) [] (by simp [set]) (by simp [set])
  have e0' : σ' 0 = sv cmd := by simpa [set] using e0
  have e1' : σ' 1 = .args args := by simpa [set] using e1
  have hloop : execS dumps (.forItems 4 5 (.var 1) encBody)
      (set (set (set (set Store.empty 0 (sv cmd)) 1 (.args args)) 2 (sv [])) 3 (bv false)) = .next σ' := by
    rw [← e]
    simp [execS, eval, defined, set]
  simp only [execL, hloop]
  unfold encode
  cases hn : needsJson args with
  | true =>
    simp only [hn, if_true] at e23
    obtain ⟨e3, S', e2⟩ := e23
    rw [encPost_run dumps σ' cmd S' args true e0' e1' e2 e3]
    simp [sv]
  | false =>
    simp only [hn] at e23
    obtain ⟨e3, e2⟩ := e23
    rw [encPost_run dumps σ' cmd _ args false e0' e1' e2 e3]
    simp [sv, ampCat_dropLast, joinAmp_pairs_isEmpty, encodeFlat]

/-! ## the interpreted programs run in the kernel (the statements above are not vacuous) -/

/-- `trigger?name=a%20b&n=int:5&b=bool:True&z=NoneType:&name=again&&f=float:1.5` (a repeated name and a blank pair are skipped) -/
example : runDecode decodeProg [116, 114, 105, 103, 103, 101, 114, 63, 110, 97, 109, 101, 61, 97, 37, 50, 48, 98, 38, 110, 61,
    105, 110, 116, 58, 53, 38, 98, 61, 98, 111, 111, 108, 58, 84, 114, 117, 101, 38, 122, 61, 78, 111, 110, 101, 84, 121, 112,
    101, 58, 38, 110, 97, 109, 101, 61, 97, 103, 97, 105, 110, 38, 38, 102, 61, 102, 108, 111, 97, 116, 58, 49, 46, 53] =
    .flat [116, 114, 105, 103, 103, 101, 114]
      [([110, 97, 109, 101], .str [97, 32, 98]), ([110], .int 5), ([98], .bool true), ([122], .none), ([102], .flt [49, 46, 53])] := by
  decide

/-- `t?n=int:x` is the ValueError of `int()`; `t?json={"a": [1]}` takes the JSON branch -/
example : runDecode? decodeProg [116, 63, 110, 61, 105, 110, 116, 58, 120] = some .error ∧
    runDecode? decodeProg [116, 63, 106, 115, 111, 110, 61, 123, 34, 97, 34, 58, 32, 91, 49, 93, 125] =
      some (.json [116] [123, 34, 97, 34, 58, 32, 91, 49, 93, 125]) := by
  decide

/-- `encode_command_string('t', a=-5, b=' !', c=False, d=None, e=1.5)` = `t?a=int:-5&b=%20%21&c=bool:False&d=NoneType:&e=float:1.5` -/
example : runEncode (fun _ => [91, 93]) encodeProg [116]
    [([97], .scalar (.int (-5))), ([98], .scalar (.str [32, 33])), ([99], .scalar (.bool false)), ([100], .scalar .none),
     ([101], .scalar (.flt [49, 46, 53]))] =
    some [116, 63, 97, 61, 105, 110, 116, 58, 45, 53, 38, 98, 61, 37, 50, 48, 37, 50, 49, 38, 99, 61, 98, 111, 111, 108, 58, 70, 97,
      108, 115, 101, 38, 100, 61, 78, 111, 110, 101, 84, 121, 112, 101, 58, 38, 101, 61, 102, 108, 111, 97, 116, 58, 49, 46, 53] := by
  decide

/-- a list value after a scalar, a parameter called `json`, no parameters: `t?json=[]`, `t?json=[]`, `t` -/
example : runEncode (fun _ => [91, 93]) encodeProg [116] [([97], .scalar (.int 1)), ([98], .nested 0)] =
      some [116, 63, 106, 115, 111, 110, 61, 91, 93] ∧
    runEncode (fun _ => [91, 93]) encodeProg [116] [([106, 115, 111, 110], .scalar (.int 1))] =
      some [116, 63, 106, 115, 111, 110, 61, 91, 93] ∧
    runEncode (fun _ => [91, 93]) encodeProg [116] [] = some [116] := by
  decide

end MpfVerif.PyStr
