import MpfVerif.Model.ClockGen
import MpfVerif.Lemmas.DelayGen
/-!
# The periodic part of the hand model does what the generated `clock.py` programs do (C13)

One lemma per translated method of `Gen/ClockOps.lean`: what it returns, what it leaves in the object's attributes and which
calls it makes on the loop, started on `taskHeap p`.
-/
set_option linter.unusedSimpArgs false
namespace MpfVerif.Delay
open MpfVerif.Py MpfVerif.Gen.ClockOps

/-- the loop, `callable()` and `cancel()` of a handle do not raise; `loop.time()` answers `now`; a callback is callable.
What the periodic *callback* answers is left open (`ora (tickEff cb)`). -/
def ClockOraOk (ora : DOracle) (now : Nat) : Prop :=
  (∀ args, ora ⟨"loop", "call_at", args⟩ = .ok .none) ∧
  (∀ args, ora ⟨"loop", "time", args⟩ = .ok (.flt now)) ∧
  (∀ args, ora ⟨"builtins", "callable", args⟩ = .ok (.bool true)) ∧
  (∀ args, ora ⟨"event", "cancel", args⟩ = .ok .none)

theorem execCb_id (c : Ctx) (ora : DOracle) (prog : List Py.DSt) : ∀ (H : Dict) (l : Locals),
    execCb c ora id prog H l = execDL c ora H l prog := by
  induction prog with
  | nil => intro H l; simp [execCb, execDL]
  | cons s rest ih =>
    intro H l
    simp only [execCb, execDL]
    rcases execDS c ora H l s with ⟨H', log, r⟩
    rcases r with x | (l' | v)
    · rfl
    · simp only [id, ite_self]; rw [ih]
    · rfl

/-- the attributes of a task, field by field -/
def rawHeap (cn : Bool) (iv : Int) (cb lp : PyVal) (last : Int) : Dict :=
  [(.str "_canceled", [.bool cn]), (.str "_interval", [.flt iv]), (.str "_callback", [cb]),
   (.str "_loop", [lp]), (.str "_last_call", [.flt last])]

def callAtI (when : Int) : Eff := ⟨"loop", "call_at", [("when", .flt when), ("callback", .str "cb:_run")]⟩

theorem taskHeap_raw (p : Per) : taskHeap p = rawHeap p.canceled p.interval (.int p.cb) (.str "loop") p.last := rfl

theorem callAt_I (n : Nat) : callAt n = callAtI n := rfl

theorem schedule_raw (c : Ctx) (ora : DOracle) (now : Nat) (ho : ClockOraOk ora now) (cn : Bool) (iv last : Int)
    (cb lp : PyVal) (l : Locals) :
    dropL (execDL c ora (rawHeap cn iv cb lp last) l p_schedule) =
      (rawHeap cn iv cb lp last, if cn then [] else [callAtI (last + iv)], .ok (if cn then some .none else none)) := by
  cases cn <;>
  simp [p_schedule, rawHeap, callAtI, dropL, execDL, execDS, evalD, evalA, evalE, evalC, evalDArgs,
    dictFind, bindMany, bindTarget, arith, PyVal.num, PyVal.truthy, ho.1, bind, Except.bind, pure, Except.pure]

theorem schedule_run (c : Ctx) (ora : DOracle) (now : Nat) (ho : ClockOraOk ora now) (p : Per) (l : Locals) :
    dropL (execDL c ora (taskHeap p) l p_schedule) =
      (taskHeap p, handSchedule p, .ok (if p.canceled then some .none else none)) := by
  rw [taskHeap_raw, schedule_raw c ora now ho]
  cases hc : p.canceled <;> simp [handSchedule, hc, callAt_I, Per.due]

theorem cancel_run (c : Ctx) (ora : DOracle) (p : Per) (l : Locals) :
    dropL (execDL c ora (taskHeap p) l cancel) = (taskHeap { p with canceled := true }, [], .ok none) := by
  simp [cancel, taskHeap, dropL, execDL, execDS, evalD, evalA, evalE, evalDList, Py.dictSet, bind, Except.bind, pure, Except.pure]

theorem next_call_time_run (c : Ctx) (ora : DOracle) (p : Per) (l : Locals) :
    dropL (execDL c ora (taskHeap p) l get_next_call_time) = (taskHeap p, [], .ok (some (.flt p.due))) := by
  simp [get_next_call_time, taskHeap, Per.due, dropL, execDL, execDS, evalD, evalA, evalE, dictFind, bindMany, arith,
    PyVal.num, bind, Except.bind, pure, Except.pure]

/-- `PeriodicTask.__init__(interval, loop, callback)` on a new object (no attributes yet) at `now` -/
theorem init_run (c : Ctx) (ora : DOracle) (now : Nat) (ho : ClockOraOk ora now) (l : Locals) (iv cb pid : Nat)
    (h1 : l "interval" = .flt iv) (h2 : l "loop" = .str "loop") (h3 : l "callback" = .int cb) :
    dropL (execDL c ora [] l p_init) =
      (taskHeap (newPer pid iv cb now), [timeEff, callAt (now + iv)], .ok none) := by
  obtain ⟨l1, hs⟩ := dropL_next (r := execDL c ora (rawHeap false iv (.int cb) (.str "loop") now) (argLocals []) p_schedule)
    (by simpa using schedule_raw c ora now ho false iv now (.int cb) (.str "loop") (argLocals []))
  simp only [rawHeap] at hs
  simp [p_init, taskHeap, newPer, timeEff, dropL, execDL, execDS, evalD, evalA, evalE, evalDList, evalDArgs,
    Py.dictSet, bindTarget, h1, h2, h3, ho.2.1, hs, callAt_I, callAtI, bind, Except.bind, pure, Except.pure]

/-- `PeriodicTask._run()` of a task that is not cancelled, with a callback that returns: `_last_call` moves on by exactly one
interval (whatever `loop.time()` is — it is not even asked), the callback is called, and then — on the attributes as the
callback left them (`k`: here it may have cancelled the task, `c2`) — `_schedule` asks the loop for the next run at the new
`_last_call + _interval`, unless the task is cancelled now. -/
theorem run_run (c : Ctx) (ora : DOracle) (now : Nat) (ho : ClockOraOk ora now) (p : Per) (l : Locals)
    (hc : p.canceled = false) (v : PyVal) (hcb : ora (tickEff p.cb) = .ok v) (k : Dict → Dict) (c2 : Bool)
    (hk : k (taskHeap (bumpPer p)) = taskHeap { bumpPer p with canceled := c2 }) :
    dropL (execCb c ora k p_run (taskHeap p) l) =
      (taskHeap { bumpPer p with canceled := c2 }, tickEff p.cb :: handSchedule { bumpPer p with canceled := c2 },
        .ok none) := by
  have hs := schedule_raw c ora now ho c2 p.interval (p.last + p.interval) (.int p.cb) (.str "loop") (argLocals [])
  simp only [taskHeap, bumpPer, hc, Int.natCast_add] at hk
  simp only [tickEff] at hcb
  cases c2
  · obtain ⟨l1, hs⟩ := dropL_next (by simpa using hs)
    simp only [rawHeap] at hs
    simp [p_run, taskHeap, bumpPer, handSchedule, tickEff, Per.due, hc, dropL, execCb, isCallbackCall, execDL, execDS, evalD,
      evalA, evalE, evalC, evalDList, evalDArgs, dictFind, Py.dictSet, bindMany, bindTarget, arith, PyVal.num, PyVal.truthy,
      hcb, hk, hs, callAt_I, callAtI, bind, Except.bind, pure, Except.pure]
  · have hs := dropL_done (by simpa using hs)
    simp only [rawHeap] at hs
    simp [p_run, taskHeap, bumpPer, handSchedule, tickEff, Per.due, hc, dropL, execCb, isCallbackCall, execDL, execDS, evalD,
      evalA, evalE, evalC, evalDList, evalDArgs, dictFind, Py.dictSet, bindMany, bindTarget, arith, PyVal.num, PyVal.truthy,
      hcb, hk, hs, callAt_I, callAtI, bind, Except.bind, pure, Except.pure]

/-- … of a cancelled task (a handle that was already in the loop when `cancel()` came): `_last_call` moves on, nothing is
called, nothing is asked of the loop — the task is never heard of again -/
theorem run_canceled (c : Ctx) (ora : DOracle) (p : Per) (l : Locals) (hc : p.canceled = true) (k : Dict → Dict) :
    dropL (execCb c ora k p_run (taskHeap p) l) =
      (taskHeap { p with last := p.last + p.interval }, [], .ok (some .none)) := by
  simp [p_run, taskHeap, hc, dropL, execCb, isCallbackCall, execDL, execDS, evalD,
    evalA, evalE, evalC, evalDList, evalDArgs, dictFind, Py.dictSet, bindMany, bindTarget, arith, PyVal.num, PyVal.truthy,
    bind, Except.bind, pure, Except.pure]

/-- … with a callback that raises: the exception is passed on to the loop after `_last_call` moved on, and the task is NOT
rescheduled -/
theorem run_raises (c : Ctx) (ora : DOracle) (p : Per) (l : Locals) (hc : p.canceled = false) (x : Err)
    (hcb : ora (tickEff p.cb) = .error x) (k : Dict → Dict) :
    dropL (execCb c ora k p_run (taskHeap p) l) =
      (taskHeap { p with last := p.last + p.interval }, [tickEff p.cb], .error x) := by
  simp only [tickEff] at hcb
  simp [p_run, taskHeap, hc, tickEff, dropL, execCb, isCallbackCall, execDL, execDS, evalD,
    evalA, evalE, evalC, evalDList, evalDArgs, dictFind, Py.dictSet, bindMany, bindTarget, arith, PyVal.num, PyVal.truthy,
    hcb, bind, Except.bind, pure, Except.pure]

/-- `ClockBase.schedule_once(callback, timeout)`: one `loop.call_later(delay=timeout, callback=callback)`, whose handle is
returned — the effect `clock.schedule_once` of `Model/DelayGen.lean` is this call -/
theorem schedule_once_run (c : Ctx) (ora : DOracle) (now : Nat) (ho : ClockOraOk ora now) (l : Locals) (cb t h : PyVal)
    (h1 : l "callback" = cb) (h2 : l "timeout" = t) (hh : ora (callLater t cb) = .ok h) :
    dropL (execDL c ora [] l schedule_once) = ([], [callableEff cb, callLater t cb], .ok (some h)) := by
  simp only [callLater] at hh
  simp [schedule_once, callableEff, callLater, dropL, execDL, execDS, evalD, evalA, evalE, evalC, evalDArgs, bindTarget,
    PyVal.truthy, h1, h2, ho.2.2.1, hh, bind, Except.bind, pure, Except.pure]

/-- `ClockBase.unschedule(event)`: `event.cancel()` (a loop handle or a PeriodicTask — for the latter `cancel_run`) -/
theorem unschedule_run (c : Ctx) (ora : DOracle) (now : Nat) (ho : ClockOraOk ora now) (H : Dict) (l : Locals) (ev : PyVal)
    (h1 : l "event" = ev) :
    dropL (execDL c ora H l unschedule) = (H, [cancelEff ev], .ok none) := by
  simp [unschedule, cancelEff, dropL, execDL, execDS, evalD, evalA, evalE, evalDArgs, bindTarget, h1, ho.2.2.2, bind,
    Except.bind, pure, Except.pure]

/-- `ClockBase.schedule_interval(callback, timeout)`: a new PeriodicTask (`init_run`) -/
theorem schedule_interval_run (c : Ctx) (ora : DOracle) (now : Nat) (ho : ClockOraOk ora now) (l : Locals) (iv cb pid : Nat)
    (h1 : l "callback" = .int cb) (h2 : l "timeout" = .flt iv) :
    dropL (execDL c ora [] l schedule_interval) =
      (taskHeap (newPer pid iv cb now), [callableEff (.int cb), timeEff, callAt (now + iv)],
        .ok (some (.str "obj:PeriodicTask"))) := by
  obtain ⟨l1, hi⟩ := dropL_next (init_run c ora now ho
    (argLocals [("interval", .flt iv), ("loop", .str "loop"), ("callback", .int cb)]) iv cb pid
    (by simp [argLocals, List.lookup]) (by simp [argLocals, List.lookup]) (by simp [argLocals, List.lookup]))
  simp [schedule_interval, callableEff, dropL, execDL, execDS, evalD, evalA, evalE, evalC, evalDArgs, bindTarget,
    PyVal.truthy, h1, h2, ho.2.2.1, hi, bind, Except.bind, pure, Except.pure]

theorem callCb_eq (c : Ctx) (ora : DOracle) (k : Dict → Dict) (H : Dict) (prog : List Py.DSt) (args : List (String × PyVal))
    {H' : Dict} {log : List Eff} {r : Except Err (Option PyVal)}
    (h : dropL (execCb c ora k prog H (argLocals args)) = (H', log, r)) :
    callCb c ora k H prog args = (H', log, r.map (fun o => o.getD .none)) := by
  rw [callCb, resOf_eq, h]

end MpfVerif.Delay
