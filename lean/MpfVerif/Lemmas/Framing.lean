import MpfVerif.Model.Framing
/-! Helper lemmas for the C14 framing models. -/
namespace MpfVerif.Framing

/-! ## generic feed -/

theorem feed_cons {σ α : Type} (step : σ → Nat → σ × List α) (s : σ) (b : Nat) (r : Bytes) :
    feed step s (b :: r) = ((feed step (step s b).1 r).1, (step s b).2 ++ (feed step (step s b).1 r).2) := rfl

theorem feed_append {σ α : Type} (step : σ → Nat → σ × List α) (s : σ) (a b : Bytes) :
    feed step s (a ++ b)
      = ((feed step (feed step s a).1 b).1, (feed step s a).2 ++ (feed step (feed step s a).1 b).2) := by
  induction a generalizing s with
  | nil => simp [feed]
  | cons x xs ih =>
    simp only [List.cons_append, feed]
    rw [ih]
    simp [List.append_assoc]

theorem feedChunks_eq_feed {σ α : Type} (step : σ → Nat → σ × List α) (s : σ) (cs : List Bytes) :
    feedChunks step s cs = feed step s cs.flatten := by
  induction cs generalizing s with
  | nil => simp [feedChunks, feed]
  | cons c r ih =>
    simp only [feedChunks, List.flatten_cons]
    rw [feed_append, ih]

/-! ## delimiter framing -/

theorem delim_line (d : Nat) (buf l : Bytes) (h : d ∉ l) : feed (delimStep d) buf l = (buf ++ l, []) := by
  induction l generalizing buf with
  | nil => simp [feed]
  | cons x xs ih =>
    have hx : x ≠ d := fun he => h (by rw [he]; exact List.mem_cons_self)
    rw [feed_cons]
    simp only [delimStep, hx, if_false]
    rw [ih _ (fun hm => h (List.mem_cons_of_mem _ hm))]
    simp

theorem delim_frame (d : Nat) (buf l : Bytes) (h : d ∉ l) :
    feed (delimStep d) buf (l ++ [d]) = ([], [buf ++ l]) := by
  rw [feed_append, delim_line d buf l h]
  simp [feed, delimStep]

/-! ## OPP: the transcription simulates the automaton -/

theorem run_lost_drop (buf : Bytes) :
    feed aStep .lost buf = feed aStep (modeOf (dropToAddr buf).isEmpty) (dropToAddr buf) := by
  induction buf with
  | nil => rfl
  | cons b t ih =>
    by_cases h : isAddr b = true
    · simp [dropToAddr, h, modeOf, feed, aStep]
    · have h' : isAddr b = false := by simpa using h
      simp only [dropToAddr, h', Bool.false_eq_true, if_false]
      rw [← ih, feed_cons]
      simp [aStep, h']

theorem run_body (xs : Bytes) : ∀ (acc : Bytes) (need : Nat) (rest : Bytes), xs.length = need → 1 ≤ need →
    feed aStep (.body acc need) (xs ++ rest)
      = ((feed aStep .idle rest).1, (acc ++ xs) :: (feed aStep .idle rest).2) := by
  induction xs with
  | nil => intro acc need rest h1 h2; simp at h1; omega
  | cons x t ih =>
    intro acc need rest h1 h2
    simp only [List.cons_append]
    rw [feed_cons]
    cases t with
    | nil =>
      have : need ≤ 1 := by simp at h1; omega
      simp [aStep, this]
    | cons y ys =>
      have hn : ¬ need ≤ 1 := by simp at h1; omega
      simp only [aStep, hn, if_false]
      rw [ih (acc ++ [x]) (need - 1) rest (by simp at h1 ⊢; omega) (by simp at h1; omega)]
      simp

theorem body_short (xs : Bytes) : ∀ (acc : Bytes) (need : Nat), xs.length < need →
    (feed aStep (.body acc need) xs).2 = [] := by
  induction xs with
  | nil => intro acc need _; rfl
  | cons x t ih =>
    intro acc need h
    rw [feed_cons]
    have hn : ¬ need ≤ 1 := by simp at h; omega
    simp only [aStep, hn, if_false, List.nil_append]
    exact ih _ _ (by simp at h; omega)

/-- one loop iteration of `_parse_msg` does not change what the automaton makes of the carried bytes -/
theorem iter_sim (s s1 : PSt) (o1 : List Bytes) (h : iter s = some (s1, o1)) :
    feed aStep (modeOf s.lost) s.buf
      = ((feed aStep (modeOf s1.lost) s1.buf).1, o1 ++ (feed aStep (modeOf s1.lost) s1.buf).2) := by
  obtain ⟨buf, lost⟩ := s
  unfold iter at h
  simp only at h
  split at h
  · exact absurd h (by simp)
  · rename_i hlen
    cases lost with
    | true =>
      simp only [if_true] at h
      obtain ⟨rfl, rfl⟩ := Prod.mk.inj (Option.some.inj h)
      simp only [modeOf, if_true, List.nil_append]
      exact run_lost_drop buf
    | false =>
      simp only [Bool.false_eq_true, if_false] at h
      match buf, hlen, h with
      | a :: c :: rest, hlen, h =>
        simp only at h
        by_cases ha : isAddr a = true
        · simp only [ha, if_true] at h
          by_cases hc : c = CMD_INP
          · subst hc
            simp only [if_true] at h
            split at h
            · rename_i h7
              obtain ⟨rfl, rfl⟩ := Prod.mk.inj (Option.some.inj h)
              have hr : 5 ≤ rest.length := by simp at h7; omega
              have e : rest = rest.take 5 ++ rest.drop 5 := (List.take_append_drop 5 rest).symm
              simp only [modeOf, Bool.false_eq_true, if_false, List.drop_succ_cons, List.take_succ_cons,
                List.singleton_append]
              rw [feed_cons, feed_cons]
              simp only [aStep, ha, if_true, List.nil_append]
              conv => lhs; rw [e]
              rw [run_body (rest.take 5) [a, CMD_INP] 5 (rest.drop 5) (by simp; omega) (by omega)]
              simp
            · exact absurd h (by simp)
          · simp only [hc, if_false] at h
            by_cases hm : c = CMD_MTX
            · subst hm
              simp only [if_true] at h
              split at h
              · rename_i h11
                obtain ⟨rfl, rfl⟩ := Prod.mk.inj (Option.some.inj h)
                have hr : 9 ≤ rest.length := by simp at h11; omega
                have e : rest = rest.take 9 ++ rest.drop 9 := (List.take_append_drop 9 rest).symm
                simp only [modeOf, Bool.false_eq_true, if_false, List.drop_succ_cons, List.take_succ_cons,
                  List.singleton_append]
                rw [feed_cons, feed_cons]
                have hne : CMD_MTX ≠ CMD_INP := by decide
                simp only [aStep, ha, if_true, hne, if_false, List.nil_append]
                conv => lhs; rw [e]
                rw [run_body (rest.take 9) [a, CMD_MTX] 9 (rest.drop 9) (by simp; omega) (by omega)]
                simp
              · exact absurd h (by simp)
            · simp only [hm, if_false] at h
              obtain ⟨rfl, rfl⟩ := Prod.mk.inj (Option.some.inj h)
              simp only [modeOf, Bool.false_eq_true, if_false, if_true, List.nil_append]
              rw [feed_cons, feed_cons]
              simp [aStep, ha, hc, hm]
        · have ha' : isAddr a = false := by simpa using ha
          simp only [ha', Bool.false_eq_true, if_false] at h
          by_cases he : a = EOM
          · subst he
            simp only [if_true] at h
            obtain ⟨rfl, rfl⟩ := Prod.mk.inj (Option.some.inj h)
            simp only [modeOf, Bool.false_eq_true, if_false, List.nil_append]
            rw [feed_cons]
            have : isAddr EOM = false := by decide
            simp [aStep, this]
          · simp only [he, if_false] at h
            obtain ⟨rfl, rfl⟩ := Prod.mk.inj (Option.some.inj h)
            simp only [modeOf, Bool.false_eq_true, if_false, if_true, List.nil_append]
            rw [feed_cons]
            simp [aStep, ha', he]
      | [], hlen, _ => simp at hlen
      | [_], hlen, _ => simp at hlen

theorem parseLoop_sim (f : Nat) : ∀ s : PSt,
    feed aStep (modeOf s.lost) s.buf
      = ((feed aStep (modeOf (parseLoop f s).1.lost) (parseLoop f s).1.buf).1,
         (parseLoop f s).2 ++ (feed aStep (modeOf (parseLoop f s).1.lost) (parseLoop f s).1.buf).2) := by
  induction f with
  | zero => intro s; simp [parseLoop]
  | succ n ih =>
    intro s
    unfold parseLoop
    cases hi : iter s with
    | none => simp
    | some p =>
      obtain ⟨s1, o1⟩ := p
      simp only
      rw [iter_sim s s1 o1 hi]
      have := ih s1
      rw [this]
      simp [List.append_assoc]

/-! ### the loop always runs to its exit condition -/

def measure (s : PSt) : Nat := 2 * s.buf.length + (if s.lost then 1 else 0)

theorem dropToAddr_length (b : Bytes) : (dropToAddr b).length ≤ b.length := by
  induction b with
  | nil => simp [dropToAddr]
  | cons x t ih =>
    unfold dropToAddr
    split
    · simp
    · simp; omega

theorem iter_measure (s s1 : PSt) (o1 : List Bytes) (h : iter s = some (s1, o1)) : measure s1 < measure s := by
  obtain ⟨buf, lost⟩ := s
  unfold iter at h
  simp only at h
  split at h
  · exact absurd h (by simp)
  · rename_i hlen
    cases lost with
    | true =>
      simp only [if_true] at h
      obtain ⟨rfl, rfl⟩ := Prod.mk.inj (Option.some.inj h)
      have hl := dropToAddr_length buf
      simp only [measure]
      cases hd : dropToAddr buf with
      | nil => simp; omega
      | cons x t => rw [hd] at hl; simp at hl ⊢; omega
    | false =>
      simp only [Bool.false_eq_true, if_false] at h
      match buf, hlen, h with
      | a :: c :: rest, hlen, h =>
        simp only at h
        split at h
        · split at h
          · split at h
            · obtain ⟨rfl, rfl⟩ := Prod.mk.inj (Option.some.inj h)
              simp [measure] at hlen ⊢; omega
            · exact absurd h (by simp)
          · split at h
            · split at h
              · obtain ⟨rfl, rfl⟩ := Prod.mk.inj (Option.some.inj h)
                simp [measure] at hlen ⊢; omega
              · exact absurd h (by simp)
            · obtain ⟨rfl, rfl⟩ := Prod.mk.inj (Option.some.inj h)
              simp [measure]; omega
        · split at h
          · obtain ⟨rfl, rfl⟩ := Prod.mk.inj (Option.some.inj h)
            simp [measure]
          · obtain ⟨rfl, rfl⟩ := Prod.mk.inj (Option.some.inj h)
            simp [measure] <;> omega
      | [], hlen, _ => simp at hlen
      | [_], hlen, _ => simp at hlen

theorem parseLoop_done (f : Nat) : ∀ s : PSt, measure s < f → iter (parseLoop f s).1 = none := by
  induction f with
  | zero => intro s h; omega
  | succ n ih =>
    intro s h
    unfold parseLoop
    cases hi : iter s with
    | none => simpa using hi
    | some p =>
      obtain ⟨s1, o1⟩ := p
      simp only
      exact ih s1 (by have := iter_measure s s1 o1 hi; omega)

theorem aStep_nobody_out (m : AMode) (b : Nat) (h : ∀ acc n, m ≠ .body acc n) : (aStep m b).2 = [] := by
  cases m with
  | idle => simp only [aStep]; split <;> (try split) <;> rfl
  | lost => simp only [aStep]; split <;> rfl
  | hdr a => simp only [aStep]; split <;> (try split) <;> rfl
  | body acc n => exact absurd rfl (h acc n)

theorem aStep_start_nobody (l : Bool) (b : Nat) : ∀ acc n, (aStep (modeOf l) b).1 ≠ .body acc n := by
  intro acc n
  cases l <;> simp only [modeOf, Bool.false_eq_true, if_false, if_true, aStep] <;> (repeat' split) <;> simp

theorem modeOf_nobody (l : Bool) : ∀ acc n, modeOf l ≠ .body acc n := by
  intro acc n; cases l <;> simp [modeOf]

/-- at loop exit the carried bytes contain no complete frame: the automaton emits nothing on them -/
theorem iter_none_quiet (s : PSt) (h : iter s = none) : (feed aStep (modeOf s.lost) s.buf).2 = [] := by
  obtain ⟨buf, lost⟩ := s
  unfold iter at h
  simp only at h
  split at h
  · rename_i hlen
    match buf, hlen with
    | [], _ => rfl
    | [x], _ =>
      rw [feed_cons]
      simp [feed, aStep_nobody_out _ x (modeOf_nobody lost)]
    | [x, y], _ =>
      rw [feed_cons, feed_cons]
      simp [feed, aStep_nobody_out _ x (modeOf_nobody lost), aStep_nobody_out _ y (aStep_start_nobody lost x)]
    | _ :: _ :: _ :: _, hlen => simp at hlen
  · rename_i hlen
    cases lost with
    | true => simp at h
    | false =>
      simp only [Bool.false_eq_true, if_false] at h
      match buf, hlen, h with
      | a :: c :: rest, hlen, h =>
        simp only at h
        by_cases ha : isAddr a = true
        · simp only [ha, if_true] at h
          by_cases hc : c = CMD_INP
          · simp only [hc, if_true] at h
            split at h
            · exact absurd h (by simp)
            · rename_i h7
              simp only [modeOf, Bool.false_eq_true, if_false]
              rw [feed_cons, feed_cons]
              simp only [aStep, ha, if_true, hc, List.nil_append]
              exact body_short rest _ 5 (by simp at h7; omega)
          · simp only [hc, if_false] at h
            by_cases hm : c = CMD_MTX
            · simp only [hm, if_true] at h
              split at h
              · exact absurd h (by simp)
              · rename_i h11
                simp only [modeOf, Bool.false_eq_true, if_false]
                rw [feed_cons, feed_cons]
                have hne : CMD_MTX ≠ CMD_INP := by decide
                simp only [aStep, ha, if_true, hm, hne, if_false, List.nil_append]
                exact body_short rest _ 9 (by simp at h11; omega)
            · simp [hm] at h
        · have ha' : isAddr a = false := by simpa using ha
          simp only [ha', Bool.false_eq_true, if_false] at h
          split at h <;> simp at h
      | [], hlen, _ => simp at hlen
      | [_], hlen, _ => simp at hlen

/-- the carried state is quiet (invariant of `_parse_msg` between calls) -/
def Quiet (s : PSt) : Prop := (feed aStep (modeOf s.lost) s.buf).2 = []

theorem parseChunk_sim (s : PSt) (c : Bytes) (hq : Quiet s) :
    feed aStep (absSt s) c = (absSt (parseChunk s c).1, (parseChunk s c).2) ∧ Quiet (parseChunk s c).1 := by
  have hdone : iter (parseChunk s c).1 = none := by
    unfold parseChunk
    apply parseLoop_done
    simp only [measure]
    split <;> omega
  have hquiet := iter_none_quiet _ hdone
  refine ⟨?_, hquiet⟩
  have h1 := feed_append aStep (modeOf s.lost) s.buf c
  have h2 := parseLoop_sim (2 * (s.buf ++ c).length + 2) { s with buf := s.buf ++ c }
  simp only at h2
  rw [h2] at h1
  unfold Quiet at hq
  rw [hq] at h1
  unfold parseChunk at hquiet
  rw [hquiet] at h1
  simp only [List.nil_append, List.append_nil] at h1
  have e1 := (Prod.mk.inj h1).1
  have e2 := (Prod.mk.inj h1).2
  unfold parseChunk absSt
  apply Prod.ext
  · simp only; exact e1.symm
  · simp only; exact e2.symm

theorem parseChunks_sim (cs : List Bytes) : ∀ s : PSt, Quiet s →
    feed aStep (absSt s) cs.flatten = (absSt (parseChunks s cs).1, (parseChunks s cs).2) ∧
    Quiet (parseChunks s cs).1 := by
  induction cs with
  | nil => intro s hq; exact ⟨by simp [parseChunks, feed], hq⟩
  | cons c r ih =>
    intro s hq
    obtain ⟨h1, hq1⟩ := parseChunk_sim s c hq
    obtain ⟨h2, hq2⟩ := ih _ hq1
    simp only [List.flatten_cons, parseChunks]
    rw [feed_append, h1]
    simp only
    rw [h2]
    exact ⟨rfl, hq2⟩

/-! ## CRC-8 -/

/-- the generated inverse table really inverts the generated table (so the table is a permutation of 0..255) -/
theorem crc8_table_inv : (List.range 256).all (fun i => Gen.crc8Inv.getD (Gen.crc8Table.getD i 0) 0 == i) = true := by
  decide +kernel

theorem crc8_table_lt : (List.range 256).all (fun i => decide (Gen.crc8Table.getD i 0 < 256)) = true := by
  decide +kernel

theorem tbl_inj (i j : Nat) (hi : i < 256) (hj : j < 256)
    (h : Gen.crc8Table.getD i 0 = Gen.crc8Table.getD j 0) : i = j := by
  have key := crc8_table_inv
  rw [List.all_eq_true] at key
  have a := key i (List.mem_range.mpr hi)
  have b := key j (List.mem_range.mpr hj)
  simp only [beq_iff_eq] at a b
  rw [← a, ← b, h]

theorem tbl_lt (i : Nat) (hi : i < 256) : Gen.crc8Table.getD i 0 < 256 := by
  have key := crc8_table_lt
  rw [List.all_eq_true] at key
  simpa using key i (List.mem_range.mpr hi)

theorem xor_lt (a b : Nat) (ha : a < 256) (hb : b < 256) : a ^^^ b < 256 :=
  Nat.xor_lt_two_pow (n := 8) ha hb

theorem crcStep_lt (c b : Nat) (hc : c < 256) (hb : b < 256) : crcStep c b < 256 :=
  tbl_lt _ (xor_lt c b hc hb)

theorem xor_cancel_left (a b c : Nat) (h : a ^^^ b = a ^^^ c) : b = c := by
  have : a ^^^ (a ^^^ b) = a ^^^ (a ^^^ c) := by rw [h]
  simpa [← Nat.xor_assoc, Nat.xor_self] using this

theorem xor_cancel_right (a b c : Nat) (h : b ^^^ a = c ^^^ a) : b = c := by
  rw [Nat.xor_comm b a, Nat.xor_comm c a] at h
  exact xor_cancel_left a b c h

theorem crcStep_inj_left (c c' b : Nat) (hc : c < 256) (hc' : c' < 256) (hb : b < 256)
    (h : crcStep c b = crcStep c' b) : c = c' := by
  have := tbl_inj _ _ (xor_lt c b hc hb) (xor_lt c' b hc' hb) h
  exact xor_cancel_right b c c' this

theorem crcStep_inj_right (c b b' : Nat) (hc : c < 256) (hb : b < 256) (hb' : b' < 256)
    (h : crcStep c b = crcStep c b') : b = b' := by
  have := tbl_inj _ _ (xor_lt c b hc hb) (xor_lt c b' hc hb') h
  exact xor_cancel_left c b b' this

theorem foldl_crc_lt (m : Bytes) : ∀ c, c < 256 → (∀ b ∈ m, b < 256) → m.foldl crcStep c < 256 := by
  induction m with
  | nil => intro c hc _; simpa
  | cons x t ih =>
    intro c hc hm
    simp only [List.foldl_cons]
    exact ih _ (crcStep_lt c x hc (hm x List.mem_cons_self)) (fun b hb => hm b (List.mem_cons_of_mem _ hb))

theorem foldl_crc_inj (m : Bytes) : ∀ c c', c < 256 → c' < 256 → (∀ b ∈ m, b < 256) →
    m.foldl crcStep c = m.foldl crcStep c' → c = c' := by
  induction m with
  | nil => intro c c' _ _ _ h; simpa using h
  | cons x t ih =>
    intro c c' hc hc' hm h
    simp only [List.foldl_cons] at h
    have hx := hm x List.mem_cons_self
    have := ih _ _ (crcStep_lt c x hc hx) (crcStep_lt c' x hc' hx) (fun b hb => hm b (List.mem_cons_of_mem _ hb)) h
    exact crcStep_inj_left c c' x hc hc' hx this

/-- two messages that differ in exactly one byte have different CRCs -/
theorem crc8_single_byte (p s : Bytes) (b b' : Nat) (hp : ∀ x ∈ p, x < 256) (hs : ∀ x ∈ s, x < 256)
    (hb : b < 256) (hb' : b' < 256) (hne : b ≠ b') : crc8 (p ++ b :: s) ≠ crc8 (p ++ b' :: s) := by
  unfold crc8
  simp only [List.foldl_append, List.foldl_cons]
  intro h
  have hc : p.foldl crcStep 255 < 256 := foldl_crc_lt p 255 (by omega) hp
  have := foldl_crc_inj s _ _ (crcStep_lt _ b hc hb) (crcStep_lt _ b' hc hb') hs h
  exact hne (crcStep_inj_right _ b b' hc hb hb' this)

/-! ## switch states follow the reports -/

theorem updSw_follows : ∀ (old new sw : List Bool), old.length = new.length → sw = old.map (!·) →
    updSw old new sw = new.map (!·) := by
  intro old
  induction old with
  | nil => intro new sw hl _; cases new <;> simp_all [updSw]
  | cons o os ih =>
    intro new sw hl hs
    cases new with
    | nil => simp at hl
    | cons n ns =>
      subst hs
      simp only [List.map_cons, updSw]
      rw [ih ns _ (by simpa using hl) rfl]
      cases o <;> cases n <;> simp

theorem setAt_get (l : List Bool) (n : Nat) (v : Bool) (h : n < l.length) : (setAt l n v)[n]? = some v := by
  induction l generalizing n with
  | nil => simp at h
  | cons x r ih =>
    cases n with
    | zero => simp [setAt]
    | succ k => simp [setAt]; exact ih k (by simpa using h)

theorem setAt_other (l : List Bool) (n m : Nat) (v : Bool) (h : m ≠ n) : (setAt l n v)[m]? = l[m]? := by
  induction l generalizing n m with
  | nil => simp [setAt]
  | cons x r ih =>
    cases n with
    | zero =>
      cases m with
      | zero => exact absurd rfl h
      | succ k => simp [setAt]
    | succ j =>
      cases m with
      | zero => simp [setAt]
      | succ k => simp [setAt]; exact ih j k (by omega)

/-! ## FAST switch states: snapshots and events -/

theorem setAt_length (l : List Bool) (n : Nat) (v : Bool) : (setAt l n v).length = l.length := by
  induction l generalizing n with
  | nil => rfl
  | cons x r ih => cases n <;> simp [setAt, ih]

theorem setAt_get' (l : List Bool) (n m : Nat) (v : Bool) :
    (setAt l n v)[m]? = (l[m]?).map (fun cur => if n = m then v else cur) := by
  by_cases h : m = n
  · subst h
    by_cases hl : m < l.length
    · rw [setAt_get l m v hl]; simp [hl]
    · have h1 : (setAt l m v)[m]? = none := by
        rw [List.getElem?_eq_none_iff, setAt_length]; omega
      have h2 : l[m]? = none := by rw [List.getElem?_eq_none_iff]; omega
      rw [h1, h2]; rfl
  · rw [setAt_other l n m v h]
    have : ¬ n = m := fun e => h e.symm
    cases l[m]? <;> simp [this]

theorem snapUpd_get (cfg inv bits l : List Bool) (n : Nat) :
    (snapUpd cfg inv bits l)[n]? = (l[n]?).map (snapAt cfg inv bits n) := by
  induction l generalizing cfg inv bits n with
  | nil => cases cfg <;> cases inv <;> cases bits <;> simp [snapUpd]
  | cons x r ih =>
    cases cfg with
    | nil => cases hx : (x :: r)[n]? <;> simp [snapUpd, snapAt, hx]
    | cons c cs =>
      cases inv with
      | nil => cases hx : (x :: r)[n]? <;> simp [snapUpd, snapAt, hx]
      | cons i is =>
        cases bits with
        | nil => cases hx : (x :: r)[n]? <;> simp [snapUpd, snapAt, hx]
        | cons b bs =>
          cases n with
          | zero => cases c <;> simp [snapUpd, snapAt]
          | succ k =>
            simp only [snapUpd, List.getElem?_cons_succ]
            rw [ih]
            cases r[k]? <;> simp [snapAt]

theorem swApply_cfg (s : PSw) (o : SOp) : (swApply s o).cfg = s.cfg ∧ (swApply s o).inv = s.inv := by
  cases o with
  | snap bits => exact ⟨rfl, rfl⟩
  | ev n a => simp only [swApply]; split <;> exact ⟨rfl, rfl⟩

/-- one report acts on each switch separately -/
theorem swApply_get (s : PSw) (o : SOp) (n : Nat) :
    (swApply s o).logical[n]? = (s.logical[n]?).map (fun cur => sayAt s n cur o) := by
  cases o with
  | snap bits => simp only [swApply, sayAt]; exact snapUpd_get _ _ _ _ n
  | ev m a =>
    simp only [swApply, sayAt]
    by_cases hc : s.cfg[m]? = some true
    · simp only [hc, if_true]
      rw [setAt_get']
      cases hl : s.logical[n]? with
      | none => rfl
      | some cur =>
        by_cases hm : m = n
        · subst hm; simp [hc]
        · simp [hm]
    · simp only [hc, if_false]
      cases hl : s.logical[n]? with
      | none => rfl
      | some cur =>
        by_cases hm : m = n
        · subst hm; simp [hc]
        · simp [hm]

theorem sayAt_cfg (s s' : PSw) (h : s'.cfg = s.cfg ∧ s'.inv = s.inv) (n : Nat) (cur : Bool) (o : SOp) :
    sayAt s' n cur o = sayAt s n cur o := by
  cases o <;> simp [sayAt, h.1, h.2]

/-- the state of switch `n` after a run is the fold of what the reports say about `n` -/
theorem swRun_get (ops : List SOp) : ∀ (s : PSw) (n : Nat),
    (swRun s ops).logical[n]? = (s.logical[n]?).map (fun cur => ops.foldl (sayAt s n) cur) ∧
    (swRun s ops).cfg = s.cfg ∧ (swRun s ops).inv = s.inv := by
  induction ops with
  | nil => intro s n; cases h : s.logical[n]? <;> simp [swRun, h]
  | cons o r ih =>
    intro s n
    have hc := swApply_cfg s o
    obtain ⟨h1, h2, h3⟩ := ih (swApply s o) n
    simp only [swRun]
    refine ⟨?_, h2.trans hc.1, h3.trans hc.2⟩
    rw [h1, swApply_get]
    cases s.logical[n]? with
    | none => rfl
    | some cur =>
      simp only [Option.map_some, List.foldl_cons]
      congr 1
      have : (fun c o => sayAt (swApply s o) n c o) = (fun c o => sayAt (swApply s o) n c o) := rfl
      have e : sayAt (swApply s o) n = sayAt s n := by
        funext c o'; exact sayAt_cfg s (swApply s o) hc n c o'
      rw [e]

/-- a report says nothing about switch `n` -/
def Silent (s : PSw) (n : Nat) (o : SOp) : Prop := ∀ cur, sayAt s n cur o = cur

theorem foldl_silent (s : PSw) (n : Nat) (post : List SOp) (h : ∀ o ∈ post, Silent s n o) (cur : Bool) :
    post.foldl (sayAt s n) cur = cur := by
  induction post generalizing cur with
  | nil => rfl
  | cons o r ih =>
    simp only [List.foldl_cons]
    rw [h o List.mem_cons_self cur]
    exact ih (fun x hx => h x (List.mem_cons_of_mem _ hx)) cur

theorem swRun_hw_last (pre post : List SOp) (bits : List Bool) (s : PSw)
    (h : ∀ o ∈ post, ∀ b, o ≠ .snap b) : (swRun s (pre ++ .snap bits :: post)).hw = bits := by
  have key : ∀ (post : List SOp) (s : PSw), (∀ o ∈ post, ∀ b, o ≠ .snap b) → (swRun s post).hw = s.hw := by
    intro post
    induction post with
    | nil => intro s _; rfl
    | cons o r ih =>
      intro s h
      simp only [swRun]
      rw [ih _ (fun x hx => h x (List.mem_cons_of_mem _ hx))]
      cases o with
      | snap b => exact absurd rfl (h _ List.mem_cons_self b)
      | ev n a => simp only [swApply]; split <;> rfl
  have app : ∀ (a b : List SOp) (s : PSw), swRun s (a ++ b) = swRun (swRun s a) b := by
    intro a
    induction a with
    | nil => intro b s; rfl
    | cons o r ih => intro b s; simp [swRun, ih]
  rw [app]
  simp only [swRun]
  rw [key post _ h]
  rfl

/-! ## OPP: resynchronisation after idle -/

/-- frame lengths the automaton can be waiting for -/
def NeedOk : AMode → Prop
  | .body _ need => 1 ≤ need ∧ need ≤ 9
  | _ => True

theorem aStep_needOk (m : AMode) (b : Nat) (h : NeedOk m) : NeedOk (aStep m b).1 := by
  cases m with
  | idle => simp only [aStep]; split <;> (try split) <;> simp [NeedOk]
  | lost => simp only [aStep]; split <;> simp [NeedOk]
  | hdr a => simp only [aStep]; split <;> (try split) <;> simp [NeedOk]
  | body acc n =>
    simp only [NeedOk] at h
    simp only [aStep]; split <;> simp [NeedOk]; omega

theorem feed_needOk (l : Bytes) : ∀ m, NeedOk m → NeedOk (feed aStep m l).1 := by
  induction l with
  | nil => intro m h; exact h
  | cons b r ih => intro m h; rw [feed_cons]; exact ih _ (aStep_needOk m b h)

theorem idle_eoms (k : Nat) : (feed aStep .idle (List.replicate k EOM)).1 = .idle := by
  induction k with
  | zero => rfl
  | succ n ih =>
    rw [List.replicate_succ, feed_cons]
    have : aStep .idle EOM = (.idle, []) := by decide
    rw [this]; exact ih

theorem lost_eoms (k : Nat) : (feed aStep .lost (List.replicate k EOM)).1 = .lost := by
  induction k with
  | zero => rfl
  | succ n ih =>
    rw [List.replicate_succ, feed_cons]
    have : aStep .lost EOM = (.lost, []) := by decide
    rw [this]; exact ih

/-- eleven idle bytes bring every reachable automaton state to `idle` or `lost` -/
theorem eoms_settle (m : AMode) (h : NeedOk m) :
    (feed aStep m (List.replicate 11 EOM)).1 = .idle ∨ (feed aStep m (List.replicate 11 EOM)).1 = .lost := by
  cases m with
  | idle => exact Or.inl (idle_eoms 11)
  | lost => exact Or.inr (lost_eoms 11)
  | hdr a =>
    right
    rw [show (11 : Nat) = 10 + 1 from rfl, List.replicate_succ, feed_cons]
    have : aStep (.hdr a) EOM = (.lost, []) := by simp [aStep, EOM, CMD_INP, CMD_MTX]
    rw [this]; exact lost_eoms 10
  | body acc need =>
    left
    simp only [NeedOk] at h
    have e : List.replicate 11 EOM = List.replicate need EOM ++ List.replicate (11 - need) EOM := by
      rw [List.replicate_append_replicate]; congr 1; omega
    rw [e, run_body (List.replicate need EOM) acc need _ (by simp) h.1]
    exact idle_eoms _

/-- from `idle` or `lost` a well-formed input frame is decoded exactly and leaves the decoder idle -/
theorem frame_from_rest (m : AMode) (hm : m = .idle ∨ m = .lost) (a : Nat) (p : Bytes) (ha : isAddr a = true)
    (hp : p.length = 5) : feed aStep m (a :: CMD_INP :: p) = (.idle, [a :: CMD_INP :: p]) := by
  have h2 : feed aStep (.hdr a) (CMD_INP :: p) = (.idle, [a :: CMD_INP :: p]) := by
    rw [feed_cons]
    simp only [aStep, if_true, List.nil_append]
    have := run_body p [a, CMD_INP] 5 [] hp (by omega)
    simp only [List.append_nil] at this
    rw [this]; simp [feed]
  rcases hm with rfl | rfl <;> (rw [feed_cons]; simp only [aStep, ha, if_true, List.nil_append]; rw [h2])

theorem matrix_frame_from_rest (m : AMode) (hm : m = .idle ∨ m = .lost) (a : Nat) (p : Bytes) (ha : isAddr a = true)
    (hp : p.length = 9) : feed aStep m (a :: CMD_MTX :: p) = (.idle, [a :: CMD_MTX :: p]) := by
  have hne : CMD_MTX ≠ CMD_INP := by decide
  have h2 : feed aStep (.hdr a) (CMD_MTX :: p) = (.idle, [a :: CMD_MTX :: p]) := by
    rw [feed_cons]
    simp only [aStep, hne, if_false, if_true, List.nil_append]
    have := run_body p [a, CMD_MTX] 9 [] hp (by omega)
    simp only [List.append_nil] at this
    rw [this]; simp [feed]
  rcases hm with rfl | rfl <;> (rw [feed_cons]; simp only [aStep, ha, if_true, List.nil_append]; rw [h2])

/-! ## FAST writer -/

theorem wRun_append (s : WSt) (a b : List WOp) : wRun s (a ++ b) = wRun (wRun s a) b := by
  induction a generalizing s with
  | nil => rfl
  | cons o r ih => simp [wRun, ih]

/-- ids handed to the communicator, in call order -/
def enqueued : List WOp → List Nat
  | [] => []
  | .enq m :: r => m.id :: enqueued r
  | _ :: r => enqueued r

theorem wStep_fifo (s : WSt) (o : WOp) :
    (wStep s o).log ++ (wStep s o).queue.map (·.id) = s.log ++ s.queue.map (·.id) ++ enqueued [o] := by
  cases o with
  | enq m => simp [wStep, enqueued]
  | step =>
    simp only [wStep, enqueued, List.append_nil]
    cases hq : s.queue with
    | nil => simp [hq]
    | cons m q =>
      simp only
      cases m.confirm <;> simp
  | recv h =>
    simp only [wStep, enqueued, List.append_nil]
    cases s.until_ with
    | none => rfl
    | some u => simp only; split <;> rfl

theorem enqueued_cons (o : WOp) (r : List WOp) : enqueued (o :: r) = enqueued [o] ++ enqueued r := by
  cases o <;> simp [enqueued]

theorem wRun_fifo (ops : List WOp) : ∀ s : WSt,
    (wRun s ops).log ++ (wRun s ops).queue.map (·.id) = s.log ++ s.queue.map (·.id) ++ enqueued ops := by
  induction ops with
  | nil => intro s; simp [wRun, enqueued]
  | cons o r ih =>
    intro s
    simp only [wRun]
    rw [ih, wStep_fifo, enqueued_cons o r]
    simp [List.append_assoc]

/-! ## CRC-8: linearity of the table and burst errors -/

def T (x : Nat) : Nat := Gen.crc8Table.getD x 0

theorem crc8_lin_lo : ((List.range 256).all fun a => (List.range 16).all fun b => T (a ^^^ b) == (T a ^^^ T b)) = true := by
  decide +kernel

theorem crc8_lin_hi : ((List.range 256).all fun a => (List.range 16).all fun h =>
    T (a ^^^ 16 * h) == (T a ^^^ T (16 * h))) = true := by
  decide +kernel

theorem split16 : ((List.range 256).all fun b => b == (16 * (b / 16) ^^^ b % 16)) = true := by decide +kernel

theorem T_zero : T 0 = 0 := by decide

theorem T_lin (a b : Nat) (ha : a < 256) (hb : b < 256) : T (a ^^^ b) = T a ^^^ T b := by
  have lo : ∀ x l, x < 256 → l < 16 → T (x ^^^ l) = T x ^^^ T l := by
    intro x l hx hl
    have := crc8_lin_lo
    rw [List.all_eq_true] at this
    have := this x (List.mem_range.mpr hx)
    rw [List.all_eq_true] at this
    simpa using this l (List.mem_range.mpr hl)
  have hi : ∀ x h, x < 256 → h < 16 → T (x ^^^ 16 * h) = T x ^^^ T (16 * h) := by
    intro x h hx hh
    have := crc8_lin_hi
    rw [List.all_eq_true] at this
    have := this x (List.mem_range.mpr hx)
    rw [List.all_eq_true] at this
    simpa using this h (List.mem_range.mpr hh)
  have sp : b = 16 * (b / 16) ^^^ b % 16 := by
    have := split16
    rw [List.all_eq_true] at this
    simpa using this b (List.mem_range.mpr hb)
  have hh : b / 16 < 16 := by omega
  have hl : b % 16 < 16 := by omega
  have h16 : 16 * (b / 16) < 256 := by omega
  rw [sp, ← Nat.xor_assoc, lo _ _ (xor_lt a _ ha h16) hl, hi a _ ha hh, lo _ _ h16 hl, Nat.xor_assoc]

theorem T_eq_zero (x : Nat) (hx : x < 256) (h : T x = 0) : x = 0 :=
  tbl_inj x 0 hx (by omega) (by rw [show Gen.crc8Table.getD x 0 = T x from rfl, h]; exact T_zero.symm)

theorem crcStep_eq (c b : Nat) : crcStep c b = T (c ^^^ b) := rfl

theorem crcStep_lin (c d b e : Nat) (hc : c < 256) (hd : d < 256) (hb : b < 256) (he : e < 256) :
    crcStep (c ^^^ d) (b ^^^ e) = crcStep c b ^^^ crcStep d e := by
  simp only [crcStep_eq]
  rw [← T_lin _ _ (xor_lt c b hc hb) (xor_lt d e hd he)]
  congr 1
  ac_rfl

/-- bytewise xor of a message with an error pattern -/
def xorL : Bytes → Bytes → Bytes
  | a :: r, b :: t => (a ^^^ b) :: xorL r t
  | _, _ => []

theorem foldl_crc_lin (m : Bytes) : ∀ (e : Bytes) (c d : Nat), m.length = e.length → c < 256 → d < 256 →
    (∀ b ∈ m, b < 256) → (∀ b ∈ e, b < 256) →
    (xorL m e).foldl crcStep (c ^^^ d) = m.foldl crcStep c ^^^ e.foldl crcStep d := by
  induction m with
  | nil => intro e c d hl _ _ _ _; cases e <;> simp_all [xorL]
  | cons a r ih =>
    intro e c d hl hc hd hm he
    cases e with
    | nil => simp at hl
    | cons b t =>
      have ha := hm a List.mem_cons_self
      have hb := he b List.mem_cons_self
      simp only [xorL, List.foldl_cons]
      rw [crcStep_lin c d a b hc hd ha hb]
      exact ih t _ _ (by simpa using hl) (crcStep_lt c a hc ha) (crcStep_lt d b hd hb)
        (fun x hx => hm x (List.mem_cons_of_mem _ hx)) (fun x hx => he x (List.mem_cons_of_mem _ hx))

theorem zeros_from_zero (i : Nat) : (List.replicate i 0).foldl crcStep 0 = 0 := by
  induction i with
  | zero => rfl
  | succ n ih => rw [List.replicate_succ, List.foldl_cons]; exact ih

theorem zeros_keep_nonzero (k : Nat) : ∀ c, c < 256 → c ≠ 0 → (List.replicate k 0).foldl crcStep c ≠ 0 := by
  induction k with
  | zero => intro c _ h; simpa using h
  | succ n ih =>
    intro c hc h
    rw [List.replicate_succ, List.foldl_cons]
    apply ih _ (crcStep_lt c 0 hc (by omega))
    intro h0
    rw [crcStep_eq, Nat.xor_zero] at h0
    exact h (T_eq_zero c hc h0)

/-- the burst patterns: the low `j` bits of one byte (`e1`) and the high `8-j` bits of the next (`h * 2^j`) -/
theorem crc8_burst_table : ((List.range 9).all fun j => (List.range (2 ^ j)).all fun e1 =>
    (List.range (2 ^ (8 - j))).all fun h => (e1 == 0 && h == 0) || T e1 != h * 2 ^ j) = true := by
  decide +kernel

theorem xor_eq_zero_eq (a b : Nat) (h : a ^^^ b = 0) : a = b := by
  have : a ^^^ b = a ^^^ a := by rw [h, Nat.xor_self]
  exact (xor_cancel_left a b a this).symm

theorem burst_bounds (j h e1 : Nat) (hj : j ≤ 8) (h1 : e1 < 2 ^ j) (h2 : h < 2 ^ (8 - j)) :
    e1 < 256 ∧ h * 2 ^ j < 256 := by
  have hp : 2 ^ (8 - j) * 2 ^ j = 256 := by
    rw [← Nat.pow_add]; have : 8 - j + j = 8 := by omega
    rw [this]
  have hle : 2 ^ j ≤ 256 := by
    exact Nat.pow_le_pow_right (show 0 < 2 by omega) hj
  refine ⟨by omega, ?_⟩
  have : h * 2 ^ j < 2 ^ (8 - j) * 2 ^ j := Nat.mul_lt_mul_of_pos_right h2 (Nat.two_pow_pos j)
  omega

theorem burst_residue_ne_zero (i k j h e1 : Nat) (hj : j ≤ 8) (h1 : e1 < 2 ^ j) (h2 : h < 2 ^ (8 - j))
    (hnz : e1 ≠ 0 ∨ h ≠ 0) :
    (List.replicate i 0 ++ [e1, h * 2 ^ j] ++ List.replicate k 0).foldl crcStep 0 ≠ 0 := by
  obtain ⟨b1, b2⟩ := burst_bounds j h e1 hj h1 h2
  have tb : T e1 ≠ h * 2 ^ j := by
    have := crc8_burst_table
    rw [List.all_eq_true] at this
    have := this j (List.mem_range.mpr (by omega))
    rw [List.all_eq_true] at this
    have := this e1 (List.mem_range.mpr h1)
    rw [List.all_eq_true] at this
    have := this h (List.mem_range.mpr h2)
    simp only [Bool.or_eq_true, Bool.and_eq_true, beq_iff_eq, bne_iff_ne, ne_eq] at this
    rcases this with ⟨a, b⟩ | c
    · rcases hnz with h' | h'
      · exact absurd a h'
      · exact absurd b h'
    · exact c
  have tlt : T e1 < 256 := tbl_lt e1 b1
  simp only [List.foldl_append, zeros_from_zero, List.foldl_cons, List.foldl_nil]
  apply zeros_keep_nonzero k _ (crcStep_lt _ _ (crcStep_lt 0 e1 (by omega) b1) b2)
  rw [crcStep_eq, crcStep_eq, Nat.zero_xor]
  intro h0
  have := T_eq_zero _ (xor_lt _ _ tlt b2) h0
  exact tb (xor_eq_zero_eq _ _ this)

theorem xorL_length (m : Bytes) : ∀ e : Bytes, m.length = e.length → (xorL m e).length = m.length := by
  induction m with
  | nil => intro e _; cases e <;> rfl
  | cons a r ih =>
    intro e h
    cases e with
    | nil => simp at h
    | cons b t => simp [xorL, ih t (by simpa using h)]

theorem xorL_lt (m : Bytes) : ∀ e : Bytes, (∀ b ∈ m, b < 256) → (∀ b ∈ e, b < 256) → ∀ x ∈ xorL m e, x < 256 := by
  induction m with
  | nil => intro e _ _ x hx; cases e <;> simp [xorL] at hx
  | cons a r ih =>
    intro e hm he x hx
    cases e with
    | nil => simp [xorL] at hx
    | cons b t =>
      simp only [xorL, List.mem_cons] at hx
      rcases hx with rfl | hx
      · exact xor_lt _ _ (hm a List.mem_cons_self) (he b List.mem_cons_self)
      · exact ih t (fun y hy => hm y (List.mem_cons_of_mem _ hy)) (fun y hy => he y (List.mem_cons_of_mem _ hy)) x hx

/-- the CRC check of `opp.py` is the classical residue test: the CRC over the whole frame, CRC byte included, is 0 -/
theorem crcOk_iff_residue (f : Bytes) (hne : f ≠ []) (hf : ∀ b ∈ f, b < 256) :
    crcOk f = true ↔ f.foldl crcStep 255 = 0 := by
  obtain ⟨d, x, rfl⟩ : ∃ d x, f = d ++ [x] := ⟨f.dropLast, f.getLast hne, (List.dropLast_concat_getLast hne).symm⟩
  have hx : x < 256 := hf x (by simp)
  have hd : crc8 d < 256 := foldl_crc_lt d 255 (by omega) (fun b hb => hf b (by simp [hb]))
  have e : crcOk (d ++ [x]) = (crc8 d == x) := by simp [crcOk]
  rw [e, List.foldl_append]
  simp only [List.foldl_cons, List.foldl_nil, beq_iff_eq]
  show crc8 d = x ↔ crcStep (crc8 d) x = 0
  rw [crcStep_eq]
  constructor
  · intro h; rw [h, Nat.xor_self]; exact T_zero
  · intro h; exact xor_eq_zero_eq _ _ (T_eq_zero _ (xor_lt _ _ hd hx) h)

end MpfVerif.Framing
