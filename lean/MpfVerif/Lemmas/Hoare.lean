import MpfVerif.Model.PyExec
/-! A small program logic for the deep embedding in `Model/PyExec.lean`, proved once.

`Triple c P prog Q R`: started in locals satisfying `P`, `prog` either raises, or falls through into locals
satisfying `Q`, or returns a value satisfying `R`. -/
namespace MpfVerif.Py

def Triple (c : Ctx) (P : Locals → Prop) (prog : List St) (Q : Locals → Prop) (R : PyVal → Prop) : Prop :=
  ∀ l, P l → match execL c l prog with
    | .ok (.next l') => Q l'
    | .ok (.done v) => R v
    | .error _ => True

theorem execL_cons (c : Ctx) (l : Locals) (s : St) (rest : List St) :
    execL c l (s :: rest) = (do match (← execS c l s) with
      | .next l' => execL c l' rest
      | .done v => pure (.done v)) := by
  rw [execL]; rfl

theorem execL_single (c : Ctx) (l : Locals) (s : St) :
    execL c l [s] = execS c l s := by
  rw [execL_cons]
  cases h : execS c l s with
  | error e => rfl
  | ok o => cases o <;> simp [bind, Except.bind, execL, pure, Except.pure]

theorem Triple.cons {c : Ctx} {P : Locals → Prop} (Q : Locals → Prop) {Q' : Locals → Prop} {R} {s : St} {rest : List St}
    (h1 : Triple c P [s] Q R) (h2 : Triple c Q rest Q' R) : Triple c P (s :: rest) Q' R := by
  intro l hP
  have a := h1 l hP
  rw [execL_single] at a
  rw [execL_cons]
  cases hs : execS c l s with
  | error e => simp [bind, Except.bind]
  | ok o =>
    rw [hs] at a
    cases o with
    | next l' => simp only [bind, Except.bind]; exact h2 l' a
    | done v => simpa [bind, Except.bind, pure, Except.pure] using a

theorem Triple.weaken {c : Ctx} {P Q Q' : Locals → Prop} {R prog} (h : Triple c P prog Q R)
    (hq : ∀ l, Q l → Q' l) : Triple c P prog Q' R := by
  intro l hP
  have := h l hP
  cases hx : execL c l prog with
  | error _ => simp
  | ok o => rw [hx] at this; cases o <;> simp_all

theorem Triple.strengthen {c : Ctx} {P P' Q : Locals → Prop} {R prog} (h : Triple c P prog Q R)
    (hp : ∀ l, P' l → P l) : Triple c P' prog Q R := fun l hP => h l (hp l hP)

/-- `if cd: raise e` — falling through means the condition evaluated to `False` -/
theorem Triple.ifRaise (c : Ctx) (P : Locals → Prop) (R) (cd : Cd) (e : Err) :
    Triple c P [St.ifThen cd [St.raise e] []] (fun l => P l ∧ evalC c l cd = .ok false) R := by
  intro l hP
  rw [execL_single]
  simp only [execS, bind, Except.bind]
  cases h : evalC c l cd with
  | error _ => simp
  | ok b => cases b <;> simp [execL, execS, throw, throwThe, MonadExceptOf.throw, pure, Except.pure, hP, h,
      bind, Except.bind]

/-- `return x` -/
theorem Triple.ret (c : Ctx) (P : Locals → Prop) (R : PyVal → Prop) (n : String)
    (h : ∀ l, P l → R (l n)) : Triple c P [St.ret (.var n)] (fun _ => False) R := by
  intro l hP
  rw [execL_single]
  simp [execS, evalE, bind, Except.bind, pure, Except.pure]
  exact h l hP

/-- a statement list that cannot return (no `ret` anywhere) — used for blocks of assignments -/
def noRet : List St → Bool
  | [] => true
  | .ret _ :: _ => false
  | .ifThen _ b e :: r => noRet b && noRet e && noRet r
  | _ :: r => noRet r

/-- direct rule: whatever the statement list does, describe its fall-through states by evaluation -/
theorem Triple.byExec (c : Ctx) (P Q : Locals → Prop) (R) (prog : List St)
    (h : ∀ l, P l → ∀ o, execL c l prog = .ok o → match o with | .next l' => Q l' | .done v => R v) :
    Triple c P prog Q R := by
  intro l hP
  cases hx : execL c l prog with
  | error _ => simp
  | ok o => have := h l hP o hx; cases o <;> simpa using this

end MpfVerif.Py

namespace MpfVerif.Py

/-- `if cd: x = e` (no else) can only fall through -/
theorem Triple.ifAssign_top (c : Ctx) (P : Locals → Prop) (R) (cd : Cd) (n : String) (e : Ex) :
    Triple c P [St.ifThen cd [St.assign n e] []] (fun _ => True) R := by
  intro l _
  rw [execL_single]
  simp only [execS, bind, Except.bind]
  cases evalC c l cd with
  | error _ => simp
  | ok b =>
    cases b
    · simp [execL, pure, Except.pure]
    · simp only [execL_single, execS, bind, Except.bind, ↓reduceIte]
      cases evalE c l e <;> simp [pure, Except.pure]

/-- `x = e` -/
theorem Triple.assign (c : Ctx) (P Q : Locals → Prop) (R) (n : String) (e : Ex)
    (h : ∀ l v, P l → evalE c l e = .ok v → Q (fun m => if m = n then v else l m)) :
    Triple c P [St.assign n e] Q R := by
  intro l hP
  rw [execL_single]
  simp only [execS, bind, Except.bind]
  cases hv : evalE c l e with
  | error _ => simp
  | ok v => simpa [pure, Except.pure] using h l v hP hv

/-- from a triple about the whole body to a statement about `call` -/
theorem call_of_triple {c : Ctx} {prog : List St} {R : PyVal → Prop} (args : List (String × PyVal)) (v : PyVal)
    (h : Triple c (fun _ => True) prog (fun _ => False) R) (hc : call c prog args = .ok v) : R v := by
  unfold call at hc
  simp only [] at hc
  have := h (fun n => (args.lookup n).getD .none) trivial
  cases hx : execL c (fun n => (args.lookup n).getD .none) prog with
  | error e => rw [hx] at hc; simp at hc
  | ok o =>
    rw [hx] at hc this
    cases o with
    | next l' => exact absurd this (by simp)
    | done w => simp at hc this; rw [← hc]; exact this

/-- Bool-valued range test on the numeric view (micro-units); false for NaN and non-numbers -/
def inRangeB (v : PyVal) (lo hi : Int) : Bool :=
  match v.num with
  | some (some m) => decide (lo ≤ m) && decide (m ≤ hi)
  | _ => false

def geB (v : PyVal) (lo : Int) : Bool :=
  match v.num with
  | some (some m) => decide (lo ≤ m)
  | _ => false

end MpfVerif.Py
