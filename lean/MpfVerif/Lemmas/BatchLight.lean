import MpfVerif.Model.BatchLight
/-! C09: the batched back end never loses a dirty light. -/
namespace MpfVerif.Batch

/-- the last brightness queued for light `l` in a list -/
def lastIn (l : Nat) : List (Nat × B) → Option B
  | [] => none
  | x :: r => match lastIn l r with
    | some b => some b
    | none => if x.1 = l then some x.2 else none

def pick3 (a b c : Option B) : Option B :=
  match a with
  | some x => some x
  | none => match b with
    | some y => some y
    | none => c

/-- what the platform has, or will have once everything queued is delivered, for light `l` -/
def view (s : BSt) (l : Nat) : Option B := pick3 (lastIn l s.acc) (lastIn l (s.inflight.getD [])) (s.hw l)

/-- the brightness recorded for `l` is the target of its latest fade -/
def Settled (s : BSt) (l : Nat) : Prop := ∃ b t, s.last l = some (b, t) ∧ eqB b ((s.fade l).tb, 255)

/-- no lost dirty: a light that ever got a command is dirty, taken, scheduled, or settled -/
def D (s : BSt) : Prop :=
  ∀ l, s.ver l = 0 ∨ l ∈ s.dirty ∨ l ∈ s.pending ∨ l ∈ s.sched.map (·.2) ∨ Settled s l

/-- `last_state` describes exactly what is queued / delivered -/
def H (s : BSt) : Prop := ∀ l, view s l = (s.last l).map (·.1)

theorem mem_insertSet (x l : Nat) (d : List Nat) : x ∈ insertSet l d ↔ x = l ∨ x ∈ d := by
  induction d with
  | nil => simp [insertSet]
  | cons y r ih =>
    unfold insertSet
    split
    · rename_i h; subst h; simp
    · split
      · simp
      · simp only [List.mem_cons, ih]
        constructor
        · rintro (h | h | h) <;> simp [h]
        · rintro (h | h | h) <;> simp [h]

theorem mem_foldl_insert (x : Nat) (es : List (Nat × Nat)) : ∀ d0 : List Nat,
    x ∈ es.foldl (fun d e => insertSet e.2 d) d0 ↔ x ∈ d0 ∨ x ∈ es.map (·.2) := by
  induction es with
  | nil => intro d0; simp
  | cons e r ih =>
    intro d0
    simp only [List.foldl_cons, ih, mem_insertSet, List.map_cons, List.mem_cons]
    constructor
    · rintro ((h | h) | h) <;> simp [h]
    · rintro (h | h | h) <;> simp [h]

theorem lastIn_append_single (l k : Nat) (b : B) (a : List (Nat × B)) :
    lastIn l (a ++ [(k, b)]) = if k = l then some b else lastIn l a := by
  induction a with
  | nil => simp [lastIn]
  | cons x r ih =>
    simp only [List.cons_append, lastIn, ih]
    by_cases hk : k = l
    · simp [hk]
    · simp only [hk, if_false]

theorem applyP_view (l : Nat) (p : List (Nat × B)) : ∀ hw : Nat → Option B,
    (match lastIn l p with | some b => some b | none => hw l) = applyP hw p l := by
  induction p with
  | nil => intro hw; rfl
  | cons x r ih =>
    intro hw
    simp only [applyP, lastIn]
    rw [← ih]
    cases lastIn l r with
    | some b => rfl
    | none =>
      simp only [upd]
      by_cases h : x.1 = l
      · simp [h]
      · have : ¬ l = x.1 := fun hh => h hh.symm
        simp [h, this]

theorem brightnessAt_done (f : Fade) (now m : Nat) (b : B) (h : brightnessAt f now m = (b, true)) : b = (f.tb, 255) := by
  unfold brightnessAt at h
  split at h
  · split at h
    · simp at h
    · simp only [Prod.mk.injEq, and_true] at h; exact h.symm
  · simp only [Prod.mk.injEq, and_true] at h; exact h.symm

theorem take_D (s : BSt) (h : D s) : D (take s) := by
  unfold take
  split
  · rename_i hc
    intro l
    rcases h l with h | h | h | h | h
    · exact Or.inl h
    · exact Or.inr (Or.inr (Or.inl h))
    · rw [hc.1] at h; simp at h
    · exact Or.inr (Or.inr (Or.inr (Or.inl h)))
    · exact Or.inr (Or.inr (Or.inr (Or.inr h)))
  · exact h

theorem take_H (s : BSt) (h : H s) : H (take s) := by
  unfold take
  split
  · exact h
  · exact h

theorem mark_D (s : BSt) (l0 : Nat) (f : Fade) (h : D s) : D (mark s l0 f) := by
  intro l
  by_cases hl : l = l0
  · subst hl
    exact Or.inr (Or.inl ((mem_insertSet _ _ _).mpr (Or.inl rfl)))
  · rcases h l with h | h | h | h | h
    · left; simp [mark, upd, hl, h]
    · exact Or.inr (Or.inl ((mem_insertSet _ _ _).mpr (Or.inr h)))
    · exact Or.inr (Or.inr (Or.inl h))
    · refine Or.inr (Or.inr (Or.inr (Or.inl ?_)))
      obtain ⟨e, he, rfl⟩ := List.mem_map.mp h
      exact List.mem_map.mpr ⟨e, List.mem_filter.mpr ⟨he, by simpa using hl⟩, rfl⟩
    · refine Or.inr (Or.inr (Or.inr (Or.inr ?_)))
      obtain ⟨b, t, h1, h2⟩ := h
      exact ⟨b, t, h1, by simpa [mark, upd, hl] using h2⟩

theorem schedfire_D (s : BSt) (h : D s) : D (schedfire s) := by
  intro l
  rcases h l with h | h | h | h | h
  · exact Or.inl h
  · exact Or.inr (Or.inl ((mem_foldl_insert _ _ _).mpr (Or.inl h)))
  · exact Or.inr (Or.inr (Or.inl h))
  · obtain ⟨e, he, rfl⟩ := List.mem_map.mp h
    by_cases hd : e.1 ≤ s.now
    · exact Or.inr (Or.inl ((mem_foldl_insert _ _ _).mpr
        (Or.inr (List.mem_map.mpr ⟨e, List.mem_filter.mpr ⟨he, by simpa using hd⟩, rfl⟩))))
    · exact Or.inr (Or.inr (Or.inr (Or.inl (List.mem_map.mpr ⟨e, List.mem_filter.mpr ⟨he, by simpa using hd⟩, rfl⟩))))
  · exact Or.inr (Or.inr (Or.inr (Or.inr h)))

/-- the effect of one enabled `compute l0` on a state whose dirty set has been taken -/
theorem compute_inv (s0 : BSt) (l0 : Nat) (r : BSt × CRes) (hd : D s0) (hh : H s0) (hr : compute s0 l0 = some r) :
    D r.1 ∧ H r.1 := by
  unfold compute at hr
  split at hr
  · simp at hr
  · have hd' := take_D s0 hd
    have hh' := take_H s0 hh
    generalize take s0 = s at hr hd' hh'
    simp only at hr
    split at hr
    · simp at hr
    · rename_i x rest hp
      split at hr
      · simp at hr
      · rename_i hx
        have hx' : x = l0 := by simpa using hx
        subst hx'
        -- common facts for the lights other than x
        have other : ∀ (s' : BSt), s'.ver = s.ver → s'.dirty = s.dirty → s'.pending = rest → s'.fade = s.fade →
            (∀ l, l ∈ s.sched.map (·.2) → l ∈ s'.sched.map (·.2)) → (∀ l, l ≠ x → s'.last l = s.last l) →
            (x ∈ s'.sched.map (·.2) ∨ Settled s' x) → D s' := by
          intro s' hv hdi hpe hf hsc hla hxx l
          by_cases hl : l = x
          · subst hl
            rcases hxx with h | h
            · exact Or.inr (Or.inr (Or.inr (Or.inl h)))
            · exact Or.inr (Or.inr (Or.inr (Or.inr h)))
          · rcases hd' l with h | h | h | h | h
            · exact Or.inl (by rw [hv]; exact h)
            · exact Or.inr (Or.inl (by rw [hdi]; exact h))
            · rw [hp] at h
              rcases List.mem_cons.mp h with h | h
              · exact absurd h hl
              · exact Or.inr (Or.inr (Or.inl (by rw [hpe]; exact h)))
            · exact Or.inr (Or.inr (Or.inr (Or.inl (hsc l h))))
            · obtain ⟨b, t, h1, h2⟩ := h
              exact Or.inr (Or.inr (Or.inr (Or.inr ⟨b, t, by rw [hla l hl]; exact h1, by rw [hf]; exact h2⟩)))
        have queuedH : ∀ (s' : BSt) (b : B) (tq : Nat), s'.acc = s.acc ++ [(x, b)] → s'.inflight = s.inflight → s'.hw = s.hw →
            s'.last = upd s.last x (some (b, tq)) → H s' := by
          intro s' b tq ha hi hw hl l
          unfold view
          rw [ha, hi, hw, hl, lastIn_append_single]
          by_cases hxl : x = l
          · subst hxl; simp [upd, pick3]
          · have : ¬ l = x := fun h => hxl h.symm
            simp only [hxl, if_false, upd, this]
            exact hh' l
        cases hb : brightnessAt (s.fade x) s.now s.maxFade with
        | mk b done =>
          rw [hb] at hr
          simp only at hr
          cases done with
          | true =>
            have hbt := brightnessAt_done _ _ _ _ hb
            simp only [if_true] at hr
            split at hr
            · rename_i b0 t0 hlast
              split at hr
              · rename_i hskip
                simp only [Option.some.injEq] at hr
                subst hr
                refine ⟨other _ rfl rfl rfl rfl (fun l h => h) (fun l _ => rfl)
                  (Or.inr ⟨b0, t0, hlast, by rw [← hbt]; exact hskip.1⟩), ?_⟩
                intro l; exact hh' l
              · simp only [Option.some.injEq] at hr
                subst hr
                refine ⟨other _ rfl rfl rfl rfl (fun l h => h) (fun l hl => by simp [upd, hl])
                  (Or.inr ⟨b, s.now + fdOf s x, by simp [upd], by rw [hbt]; rfl⟩), queuedH _ b _ rfl rfl rfl rfl⟩
            · simp only [Option.some.injEq] at hr
              subst hr
              refine ⟨other _ rfl rfl rfl rfl (fun l h => h) (fun l hl => by simp [upd, hl])
                (Or.inr ⟨b, s.now + fdOf s x, by simp [upd], by rw [hbt]; rfl⟩), queuedH _ b _ rfl rfl rfl rfl⟩
          | false =>
            simp only [Bool.false_eq_true, if_false, Option.some.injEq] at hr
            subst hr
            refine ⟨other _ rfl rfl rfl rfl (fun l h => by simp only [List.map_append, List.mem_append]; exact Or.inl h)
              (fun l hl => by simp [upd, hl]) (Or.inl (by simp)), queuedH _ b _ rfl rfl rfl rfl⟩

theorem flush_H (s s' : BSt) (h : H s) (hf : flush s = some s') : H s' := by
  unfold flush at hf
  split at hf
  · simp at hf
  · rename_i hc
    simp only [Option.some.injEq] at hf
    subst hf
    have hin : s.inflight = none := by
      cases hi : s.inflight with
      | none => rfl
      | some p => exact absurd (Or.inl (by simp [hi])) hc
    intro l
    have := h l
    unfold view at this ⊢
    rw [hin] at this
    simp only [Option.getD_none, lastIn, Option.getD_some] at this ⊢
    rw [← this]
    unfold pick3
    cases lastIn l s.acc <;> rfl

theorem flushKeep_H (s s' : BSt) (h : H s) (hf : flushKeep s = some s') : H s' := by
  unfold flushKeep at hf
  split at hf
  · simp at hf
  · rename_i hc
    have hin : s.inflight = none := by
      cases hi : s.inflight with
      | none => rfl
      | some p => simp [hi] at hc
    split at hf
    · rename_i x y r hrev
      simp only [Option.some.injEq] at hf
      subst hf
      have hacc : s.acc = (y :: r).reverse ++ [x] := by
        have := congrArg List.reverse hrev
        rw [List.reverse_reverse] at this
        rw [this, List.reverse_cons]
      intro l
      have := h l
      unfold view at this ⊢
      rw [hin, hacc] at this
      obtain ⟨k, v⟩ := x
      rw [lastIn_append_single] at this
      simp only [Option.getD_none, Option.getD_some, lastIn] at this ⊢
      rw [← this]
      unfold pick3
      by_cases hk : k = l
      · simp [hk]
      · simp only [hk, if_false]
        try (cases lastIn l (y :: r).reverse <;> rfl)
    · simp at hf

theorem delivered_H (s s' : BSt) (h : H s) (hf : delivered s = some s') : H s' := by
  unfold delivered at hf
  split at hf
  · rename_i p hp
    simp only [Option.some.injEq] at hf
    subst hf
    intro l
    have := h l
    unfold view at this ⊢
    rw [hp] at this
    simp only [Option.getD_some, Option.getD_none, lastIn] at this ⊢
    rw [← this, ← applyP_view l p s.hw]
    unfold pick3
    cases lastIn l s.acc <;> cases lastIn l p <;> rfl
  · simp at hf

theorem step_inv (s : BSt) (o : Op) (h : D s ∧ H s) : D (step s o) ∧ H (step s o) := by
  cases o with
  | adv t => exact h
  | mark l f => exact ⟨mark_D s l f h.1, h.2⟩
  | schedfire => exact ⟨schedfire_D s h.1, h.2⟩
  | compute l =>
    show D (match compute s l with | some r => r.1 | none => s) ∧ H (match compute s l with | some r => r.1 | none => s)
    cases hr : compute s l with
    | none => exact h
    | some r => exact compute_inv s l r h.1 h.2 hr
  | flush =>
    show D ((flush s).getD s) ∧ H ((flush s).getD s)
    cases hf : flush s with
    | none => exact h
    | some s' =>
      refine ⟨?_, flush_H s s' h.2 hf⟩
      unfold flush at hf
      split at hf
      · simp at hf
      · simp only [Option.some.injEq] at hf; subst hf; exact h.1
  | flushKeep =>
    show D ((flushKeep s).getD s) ∧ H ((flushKeep s).getD s)
    cases hf : flushKeep s with
    | none => exact h
    | some s' =>
      refine ⟨?_, flushKeep_H s s' h.2 hf⟩
      unfold flushKeep at hf
      split at hf
      · simp at hf
      · split at hf
        · simp only [Option.some.injEq] at hf; subst hf; exact h.1
        · simp at hf
  | delivered =>
    show D ((delivered s).getD s) ∧ H ((delivered s).getD s)
    cases hf : delivered s with
    | none => exact h
    | some s' =>
      refine ⟨?_, delivered_H s s' h.2 hf⟩
      unfold delivered at hf
      split at hf
      · simp only [Option.some.injEq] at hf; subst hf; exact h.1
      · simp at hf

theorem run_inv (ops : List Op) : ∀ s, D s ∧ H s → D (run s ops) ∧ H (run s ops) := by
  induction ops with
  | nil => intro s h; exact h
  | cons o r ih => intro s h; exact ih _ (step_inv s o h)

theorem init_inv : D ({} : BSt) ∧ H ({} : BSt) := ⟨fun _ => Or.inl rfl, fun _ => rfl⟩

end MpfVerif.Batch
