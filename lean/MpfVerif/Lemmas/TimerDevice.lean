import MpfVerif.Model.TimerDevice
/-! Invariant of the Timer-device model and its preservation by every step. -/
namespace MpfVerif.TimerDevice

/-- everything but "a running timer is not at its end value" -/
structure Inv0 (s : T) : Prop where
  run_noresume : s.running = true → s.resume = none
  resume_ge : ∀ r, s.resume = some r → s.now ≤ r + s.slack
  arm_ge : s.running = true → ∀ a, s.arm = some a → s.now ≤ a + s.iv + s.slack
  run_armed : s.running = true → ∃ a, s.arm = some a
  /-- the system timer's schedule is absolute: its next run is due at creation time + (runs so far + 1) intervals -/
  arm_abs : ∀ a, s.arm = some a → a = s.t0 + s.cnt * s.iv

structure Inv (c : Cfg) (s : T) : Prop extends Inv0 s where
  run_notdone : s.running = true → done c s.ticks = false

theorem init_inv (c : Cfg) (iv : Nat) : Inv c (init c iv) := by
  constructor
  · constructor <;> simp [init]
  · simp [init]

theorem doStop_inv (c : Cfg) (s : T) : Inv c (doStop s).1 := by
  constructor
  · constructor <;> simp [doStop]
  · simp [doStop]

theorem doComplete_inv (c : Cfg) (s : T) : Inv c (doComplete c s).1 := by
  by_cases hr : c.roc = true
  · by_cases hd : done c (clip c c.start) = true
    · simp only [doComplete, hr, hd, if_true]
      constructor
      · constructor <;> simp [doStop]
      · simp [doStop]
    · simp only [doComplete, hr, hd, if_true]
      constructor
      · constructor <;> simp [doStop] <;> omega
      · intro _; simpa using hd
  · simp only [doComplete, hr]
    exact doStop_inv c s

theorem checkDone_inv (c : Cfg) (s : T) (i : Inv0 s) : Inv c (checkDone c s).1 := by
  unfold checkDone
  split
  · exact doComplete_inv c s
  · rename_i h
    exact ⟨i, fun _ => by simpa using h⟩

theorem doStart_inv (c : Cfg) (s : T) (i : Inv c s) : Inv c (doStart c s).1 := by
  unfold doStart
  split
  · exact i
  · split
    · exact doComplete_inv c s
    · rename_i h
      constructor
      · constructor <;> simp <;> omega
      · intro _; simpa using h

/-- re-creating the system timer now (`_create_system_timer`) keeps the invariant, whatever else stays -/
theorem rearm_inv0 (s : T) (k : Int) (iv : Nat) (i : Inv0 s) :
    Inv0 { s with ticks := k, iv := iv, arm := some s.now, t0 := s.now, cnt := 0 } := by
  constructor
  · exact i.run_noresume
  · exact i.resume_ge
  · intro _ a h; simp at h; subst h; simp; omega
  · intro _; exact ⟨s.now, rfl⟩
  · intro a h; simp at h; subst h; simp

theorem doJump_inv (c : Cfg) (s : T) (v : Int) (i : Inv0 s) : Inv c (doJump c s v).1 := by
  unfold doJump
  apply checkDone_inv
  exact rearm_inv0 s (clip c v) s.iv i

theorem step_inv (c : Cfg) (s : T) (op : Op) (r : T × List Obs) (i : Inv c s) (h : step c s op = some r) :
    Inv c r.1 := by
  cases op with
  | start => simp only [step] at h; injection h with h; subst h; exact doStart_inv c s i
  | stop => simp only [step] at h; injection h with h; subst h; exact doStop_inv c s
  | removed => simp only [step] at h; injection h with h; subst h; exact doStop_inv c s
  | pause ms =>
    simp only [step] at h; injection h with h; subst h
    constructor
    · constructor
      · simp
      · intro r hr
        simp only at hr
        split at hr
        · exact i.resume_ge r hr
        · injection hr with hr; subst hr; simp; omega
      · simp
      · simp
      · simp
    · simp
  | add v =>
    simp only [step] at h; injection h with h; subst h
    exact checkDone_inv c _ ⟨i.run_noresume, i.resume_ge, i.arm_ge, i.run_armed, i.arm_abs⟩
  | sub v =>
    simp only [step] at h; injection h with h; subst h
    exact checkDone_inv c _ ⟨i.run_noresume, i.resume_ge, i.arm_ge, i.run_armed, i.arm_abs⟩
  | jump v => simp only [step] at h; injection h with h; subst h; exact doJump_inv c s v i.toInv0
  | reset => simp only [step] at h; injection h with h; subst h; exact doJump_inv c s c.start i.toInv0
  | restart =>
    simp only [step] at h
    have ij := doJump_inv c s c.start i.toInv0
    split at h
    · split at h
      · injection h with h; subst h; exact doComplete_inv c _
      · injection h with h; subst h; exact ij
    · injection h with h; subst h; exact doStart_inv c _ ij
  | setIv k =>
    simp only [step] at h; injection h with h; subst h
    exact ⟨rearm_inv0 s s.ticks k i.toInv0, i.run_notdone⟩
  | chIv f =>
    simp only [step] at h; injection h with h; subst h
    exact ⟨rearm_inv0 s s.ticks (s.iv * f) i.toInv0, i.run_notdone⟩
  | to t =>
    simp only [step] at h
    split at h
    · rename_i hc
      obtain ⟨c1, c2, c3⟩ := hc
      injection h with h; subst h
      constructor
      · constructor
        · exact i.run_noresume
        · intro r hr
          have hr' : s.resume = some r := hr
          rw [hr'] at c2; simpa using c2
        · intro hrun a ha
          have hrun' : s.running = true := hrun
          simp only [hrun', if_true] at ha
          have := c3 hrun'
          rw [ha] at this
          simpa using this
        · intro hrun
          have hrun' : s.running = true := hrun
          simp only [hrun', if_true]
          exact i.run_armed hrun'
        · intro a ha
          simp only at ha
          split at ha
          · exact i.arm_abs a ha
          · split at ha
            · split at ha
              · cases ha
              · rename_i a' hs' _; injection ha with ha; subst ha; exact i.arm_abs _ hs'
            · cases ha
      · exact i.run_notdone
    · cases h
  | stall d =>
    simp only [step] at h; injection h with h; subst h
    constructor
    · constructor
      · exact i.run_noresume
      · intro r hr; have := i.resume_ge r hr; simp; omega
      · intro hrun a ha; have := i.arm_ge hrun a ha; simp; omega
      · exact i.run_armed
      · exact i.arm_abs
    · exact i.run_notdone
  | clock =>
    simp only [step] at h
    cases ha : s.arm with
    | none => simp [ha] at h
    | some a =>
      simp only [ha] at h
      split at h
      · rename_i hc
        split at h
        · injection h with h; subst h; exact doComplete_inv c _
        · rename_i hd
          injection h with h; subst h
          constructor
          · constructor
            · exact i.run_noresume
            · exact i.resume_ge
            · intro _ a' ha'; simp at ha'; subst ha'
              have := i.arm_ge hc.1 a ha
              show s.now ≤ a + s.iv + s.iv + s.slack
              omega
            · intro _; exact ⟨_, rfl⟩
            · intro a' ha'; simp at ha'; subst ha'
              have := i.arm_abs a ha
              show a + s.iv = s.t0 + (s.cnt + 1) * s.iv
              rw [Nat.succ_mul]; omega
          · intro _; simpa using hd
      · cases h
  | resumeFire =>
    simp only [step] at h
    cases hr : s.resume with
    | none => simp [hr] at h
    | some r =>
      simp only [hr] at h
      split at h
      · injection h with h; subst h
        apply doStart_inv
        exact ⟨⟨fun _ => rfl, fun r hr => by simp at hr, i.arm_ge, i.run_armed, i.arm_abs⟩, i.run_notdone⟩
      · cases h

/-- what the events of one call say: `complete` only at/past the end value; a `tick` event only from a timer that is
running, with the count it carries, not at the end value -/
def Facts (c : Cfg) (r : T × List Obs) : Prop :=
  (∀ k, (⟨.complete, k⟩ : Obs) ∈ r.2 → done c k = true) ∧
  (∀ k, (⟨.tick, k⟩ : Obs) ∈ r.2 → r.1.running = true ∧ r.1.ticks = k ∧ done c k = false)

theorem doComplete_facts (c : Cfg) (s : T) (hd : done c s.ticks = true) :
    Facts c (doComplete c s) ∧ (⟨.complete, s.ticks⟩ : Obs) ∈ (doComplete c s).2 ∧
    (c.roc = false → (doComplete c s).1.running = false) ∧
    (c.roc = true → done c (clip c c.start) = false →
      (doComplete c s).1.running = true ∧ (doComplete c s).1.ticks = clip c c.start) := by
  by_cases hr : c.roc = true
  · by_cases hd2 : done c (clip c c.start) = true
    · simp only [Facts, doComplete, hr, hd2, if_true]
      refine ⟨⟨?_, ?_⟩, by simp, by simp, by simp⟩
      · intro k hk; simp at hk; rw [hk]; exact hd
      · intro k hk; simp at hk
    · simp only [Facts, doComplete, hr, hd2, if_true]
      refine ⟨⟨?_, ?_⟩, by simp, by simp, by simp⟩
      · intro k hk; simp at hk; rw [hk]; exact hd
      · intro k hk; simp at hk; subst hk; simpa using hd2
  · simp only [Facts, doComplete, hr]
    refine ⟨⟨?_, ?_⟩, by simp, by simp [doStop], by simp⟩
    · intro k hk; simp at hk; rw [hk]; exact hd
    · intro k hk; simp at hk

theorem checkDone_facts (c : Cfg) (s : T) : Facts c (checkDone c s) ∧
    (done c s.ticks = true → (⟨.complete, s.ticks⟩ : Obs) ∈ (checkDone c s).2) ∧
    (done c s.ticks = false → checkDone c s = (s, [])) := by
  unfold checkDone
  by_cases hd : done c s.ticks = true
  · simp only [hd, if_true]
    exact ⟨(doComplete_facts c s hd).1, fun _ => (doComplete_facts c s hd).2.1, by simp⟩
  · simp only [hd]
    exact ⟨⟨by simp, by simp⟩, by simp, by simp⟩

theorem doStart_facts (c : Cfg) (s : T) : Facts c (doStart c s) := by
  unfold doStart
  split
  · exact ⟨by simp, by simp⟩
  · split
    · rename_i hd; exact (doComplete_facts c s hd).1
    · rename_i hd
      refine ⟨by simp, ?_⟩
      intro k hk; simp at hk; subst hk; simpa using hd

/-- prefixing events that are neither `tick` nor `complete` keeps the facts -/
theorem Facts.cons {c : Cfg} {r : T × List Obs} (f : Facts c r) (o : Obs) (h1 : o.ev ≠ .tick) (h2 : o.ev ≠ .complete) :
    Facts c (r.1, o :: r.2) := by
  refine ⟨?_, ?_⟩
  · intro k hk
    rcases List.mem_cons.mp hk with a | a
    · rw [← a] at h2; simp at h2
    · exact f.1 k a
  · intro k hk
    rcases List.mem_cons.mp hk with a | a
    · rw [← a] at h1; simp at h1
    · exact f.2 k a

theorem step_facts (c : Cfg) (s : T) (op : Op) (r : T × List Obs) (i : Inv c s) (h : step c s op = some r) :
    Facts c r := by
  cases op with
  | start => simp only [step] at h; injection h with h; subst h; exact doStart_facts c s
  | stop => simp only [step] at h; injection h with h; subst h; exact ⟨by simp [doStop], by simp [doStop]⟩
  | removed => simp only [step] at h; injection h with h; subst h; exact ⟨by simp [doStop], by simp [doStop]⟩
  | pause ms => simp only [step] at h; injection h with h; subst h; exact ⟨by simp, by simp⟩
  | add v =>
    simp only [step] at h; injection h with h; subst h
    exact (checkDone_facts c _).1.cons _ (by simp) (by simp)
  | sub v =>
    simp only [step] at h; injection h with h; subst h
    exact (checkDone_facts c _).1.cons _ (by simp) (by simp)
  | jump v => simp only [step] at h; injection h with h; subst h; exact (checkDone_facts c _).1
  | reset => simp only [step] at h; injection h with h; subst h; exact (checkDone_facts c _).1
  | restart =>
    simp only [step] at h
    have ij := doJump_inv c s c.start i.toInv0
    have fj : Facts c (doJump c s c.start) := (checkDone_facts c _).1
    split at h
    · rename_i hrun
      have hnd := ij.run_notdone hrun
      simp only [hnd] at h
      injection h with h; subst h
      refine ⟨?_, ?_⟩
      · intro k hk
        rcases List.mem_append.mp hk with a | a
        · exact fj.1 k a
        · simp at a
      · intro k hk
        rcases List.mem_append.mp hk with a | a
        · exact fj.2 k a
        · simp at a; subst a; exact ⟨hrun, rfl, hnd⟩
    · rename_i hrun
      injection h with h; subst h
      have fs := doStart_facts c (doJump c s c.start).1
      refine ⟨?_, ?_⟩
      · intro k hk
        rcases List.mem_append.mp hk with a | a
        · exact fj.1 k a
        · exact fs.1 k a
      · intro k hk
        rcases List.mem_append.mp hk with a | a
        · exact absurd (fj.2 k a).1 hrun
        · exact fs.2 k a
  | setIv k => simp only [step] at h; injection h with h; subst h; exact ⟨by simp, by simp⟩
  | chIv f => simp only [step] at h; injection h with h; subst h; exact ⟨by simp, by simp⟩
  | to t =>
    simp only [step] at h
    split at h
    · injection h with h; subst h; exact ⟨by simp, by simp⟩
    · cases h
  | stall d => simp only [step] at h; injection h with h; subst h; exact ⟨by simp, by simp⟩
  | clock =>
    simp only [step] at h
    cases ha : s.arm with
    | none => simp [ha] at h
    | some a =>
      simp only [ha] at h
      split at h
      · rename_i hc
        split at h
        · rename_i hd
          injection h with h; subst h
          exact (doComplete_facts c _ hd).1
        · rename_i hd
          injection h with h; subst h
          refine ⟨by simp, ?_⟩
          intro k hk; simp at hk; subst hk
          exact ⟨hc.1, rfl, by simpa using hd⟩
      · cases h
  | resumeFire =>
    simp only [step] at h
    cases hr : s.resume with
    | none => simp [hr] at h
    | some r =>
      simp only [hr] at h
      split at h
      · injection h with h; subst h; exact doStart_facts c _
      · cases h

theorem run_cons {c : Cfg} {s : T} {op : Op} {ops : List Op} {r : T × List Obs} (h : run c s (op :: ops) = some r) :
    ∃ r1 r2, step c s op = some r1 ∧ run c r1.1 ops = some r2 ∧ r = (r2.1, r1.2 ++ r2.2) := by
  simp only [run] at h
  cases h1 : step c s op with
  | none => simp [h1] at h
  | some r1 =>
    simp only [h1] at h
    cases h2 : run c r1.1 ops with
    | none => simp [h2] at h
    | some r2 =>
      simp only [h2] at h
      injection h with h
      exact ⟨r1, r2, rfl, h2, h.symm⟩

theorem run_inv (c : Cfg) (ops : List Op) : ∀ (s : T) (r : T × List Obs), Inv c s → run c s ops = some r → Inv c r.1 := by
  induction ops with
  | nil => intro s r i h; simp [run] at h; subst h; exact i
  | cons op ops ih =>
    intro s r i h
    obtain ⟨r1, r2, h1, h2, rfl⟩ := run_cons h
    exact ih r1.1 r2 (step_inv c s op r1 i h1) h2

/-! ## the ghost `slack`: only `stall` raises it, `to` (the loop idle) resets it -/

theorem doComplete_slack (c : Cfg) (s : T) : (doComplete c s).1.slack = s.slack := by
  by_cases hr : c.roc = true
  · by_cases hd : done c (clip c c.start) = true <;> simp [doComplete, hr, hd, doStop]
  · simp [doComplete, hr, doStop]

theorem checkDone_slack (c : Cfg) (s : T) : (checkDone c s).1.slack = s.slack := by
  unfold checkDone
  split
  · exact doComplete_slack c s
  · rfl

theorem doStart_slack (c : Cfg) (s : T) : (doStart c s).1.slack = s.slack := by
  unfold doStart
  split
  · rfl
  · split
    · exact doComplete_slack c s
    · rfl

theorem step_slack (c : Cfg) (s : T) (op : Op) (r : T × List Obs) (h : step c s op = some r)
    (hn : ∀ d, op ≠ .stall d) : r.1.slack ≤ s.slack := by
  cases op with
  | start => simp only [step] at h; injection h with h; subst h; rw [doStart_slack]; exact Nat.le_refl _
  | stop => simp only [step] at h; injection h with h; subst h; exact Nat.le_refl _
  | removed => simp only [step] at h; injection h with h; subst h; exact Nat.le_refl _
  | pause ms => simp only [step] at h; injection h with h; subst h; exact Nat.le_refl _
  | add v => simp only [step] at h; injection h with h; subst h; simp only; rw [checkDone_slack]; exact Nat.le_refl _
  | sub v => simp only [step] at h; injection h with h; subst h; simp only; rw [checkDone_slack]; exact Nat.le_refl _
  | jump v => simp only [step, doJump] at h; injection h with h; subst h; rw [checkDone_slack]; exact Nat.le_refl _
  | reset => simp only [step, doJump] at h; injection h with h; subst h; rw [checkDone_slack]; exact Nat.le_refl _
  | restart =>
    simp only [step] at h
    have hj : (doJump c s c.start).1.slack = s.slack := by simp only [doJump]; rw [checkDone_slack]
    split at h
    · split at h
      · injection h with h; subst h; simp only; rw [doComplete_slack, hj]; exact Nat.le_refl _
      · injection h with h; subst h; simp only; rw [hj]; exact Nat.le_refl _
    · injection h with h; subst h; simp only; rw [doStart_slack, hj]; exact Nat.le_refl _
  | setIv k => simp only [step] at h; injection h with h; subst h; exact Nat.le_refl _
  | chIv f => simp only [step] at h; injection h with h; subst h; exact Nat.le_refl _
  | to t =>
    simp only [step] at h
    split at h
    · injection h with h; subst h; exact Nat.zero_le _
    · cases h
  | stall d => exact absurd rfl (hn d)
  | clock =>
    simp only [step] at h
    cases ha : s.arm with
    | none => simp [ha] at h
    | some a =>
      simp only [ha] at h
      split at h
      · split at h
        · injection h with h; subst h; rw [doComplete_slack]; exact Nat.le_refl _
        · injection h with h; subst h; exact Nat.le_refl _
      · cases h
  | resumeFire =>
    simp only [step] at h
    cases hr : s.resume with
    | none => simp [hr] at h
    | some r =>
      simp only [hr] at h
      split at h
      · injection h with h; subst h; rw [doStart_slack]; exact Nat.le_refl _
      · cases h

/-- a run in which nothing ever blocks the loop has no slack: every delivery in it is exact -/
theorem run_noStall_slack (c : Cfg) (ops : List Op) : ∀ (s : T) (r : T × List Obs), s.slack = 0 →
    (∀ op ∈ ops, ∀ d, op ≠ .stall d) → run c s ops = some r → r.1.slack = 0 := by
  induction ops with
  | nil => intro s r hs _ h; simp [run] at h; subst h; exact hs
  | cons op ops ih =>
    intro s r hs hn h
    obtain ⟨r1, r2, h1, h2, rfl⟩ := run_cons h
    have := step_slack c s op r1 h1 (hn op (by simp))
    exact ih r1.1 r2 (by omega) (fun o ho => hn o (by simp [ho])) h2

end MpfVerif.TimerDevice
