import MpfVerif.Model.BcpJson
import MpfVerif.Lemmas.Bcp
/-! Round trip `jdec (jenc v) = some v` of the concrete JSON model (C19), and "the JSON text is one printable-ASCII line". -/
namespace MpfVerif.Bcp

/-! ### strings -/

/-- a Unicode scalar value (a code point that is not a surrogate) -/
def Scalar (c : Nat) : Prop := c < 55296 ∨ (57344 ≤ c ∧ c < 1114112)

theorem unhex_hexLow (n : Nat) (h : n < 16) : unhex (hexLow n) = some n := by
  unfold hexLow unhex
  by_cases h10 : n < 10
  · have : 48 ≤ 48 + n ∧ 48 + n ≤ 57 := by omega
    simp [h10, this]
  · have a : ¬ (48 ≤ 87 + n ∧ 87 + n ≤ 57) := by omega
    have b : ¬ (65 ≤ 87 + n ∧ 87 + n ≤ 70) := by omega
    have c : (97 ≤ 87 + n ∧ 87 + n ≤ 102) := by omega
    simp [h10, a, b, c]

theorem hex4_u4 (n : Nat) (h : n < 65536) :
    hex4 (hexLow (n / 4096 % 16)) (hexLow (n / 256 % 16)) (hexLow (n / 16 % 16)) (hexLow (n % 16)) = some n := by
  unfold hex4
  rw [unhex_hexLow _ (by omega), unhex_hexLow _ (by omega), unhex_hexLow _ (by omega), unhex_hexLow _ (by omega)]
  simp only [Option.some.injEq]
  omega

theorem parseStrS_cons (pend : Option Nat) (b : Nat) (r : Bytes) :
    parseStrS pend (b :: r) =
    if b = 34 then some (pend.toList, r)
    else if b = 92 then
      match r with
      | [] => none
      | e :: r1 =>
        if e = 117 then
          match r1 with
          | h1 :: h2 :: h3 :: h4 :: r2 =>
            match hex4 h1 h2 h3 h4 with
            | none => none
            | some u =>
              match pend with
              | some hi =>
                if 56320 ≤ u ∧ u < 57344 then
                  consCp (65536 + (hi - 55296) * 1024 + (u - 56320)) (parseStrS none r2)
                else if 55296 ≤ u ∧ u < 56320 then consCp hi (parseStrS (some u) r2)
                else consCp hi (consCp u (parseStrS none r2))
              | none =>
                if 55296 ≤ u ∧ u < 56320 then parseStrS (some u) r2
                else consCp u (parseStrS none r2)
          | _ => none
        else
          match unesc e with
          | none => none
          | some c => emitPend pend (consCp c (parseStrS none r1))
    else if b < 32 then none
    else emitPend pend (consCp b (parseStrS none r)) := by
  rw [parseStrS.eq_def]; rfl

theorem parseStrS_u (pend : Option Nat) (h1 h2 h3 h4 : Nat) (r2 : Bytes) :
    parseStrS pend (92 :: 117 :: h1 :: h2 :: h3 :: h4 :: r2) =
      match hex4 h1 h2 h3 h4 with
      | none => none
      | some u =>
        match pend with
        | some hi =>
          if 56320 ≤ u ∧ u < 57344 then
            consCp (65536 + (hi - 55296) * 1024 + (u - 56320)) (parseStrS none r2)
          else if 55296 ≤ u ∧ u < 56320 then consCp hi (parseStrS (some u) r2)
          else consCp hi (consCp u (parseStrS none r2))
        | none =>
          if 55296 ≤ u ∧ u < 56320 then parseStrS (some u) r2
          else consCp u (parseStrS none r2) := by
  rw [parseStrS_cons]; simp

theorem parseStrS_u4 (pend : Option Nat) (n : Nat) (h : n < 65536) (t : Bytes) :
    parseStrS pend (u4 n ++ t) =
        match pend with
        | some hi =>
          if 56320 ≤ n ∧ n < 57344 then
            consCp (65536 + (hi - 55296) * 1024 + (n - 56320)) (parseStrS none t)
          else if 55296 ≤ n ∧ n < 56320 then consCp hi (parseStrS (some n) t)
          else consCp hi (consCp n (parseStrS none t))
        | none =>
          if 55296 ≤ n ∧ n < 56320 then parseStrS (some n) t
          else consCp n (parseStrS none t) := by
  simp only [u4, List.cons_append, List.nil_append]
  rw [parseStrS_u, hex4_u4 n h]

theorem parseStrS_esc (e c : Nat) (t : Bytes) (he : e ≠ 117) (hu : unesc e = some c) :
    parseStrS none (92 :: e :: t) = consCp c (parseStrS none t) := by
  rw [parseStrS_cons]; simp [he, hu, emitPend]

theorem parseStrS_lit (c : Nat) (t : Bytes) (h1 : c ≠ 34) (h2 : c ≠ 92) (h3 : 32 ≤ c) :
    parseStrS none (c :: t) = consCp c (parseStrS none t) := by
  rw [parseStrS_cons]; simp [h1, h2, emitPend]; omega

theorem parseStrS_escCp (c : Nat) (hc : Scalar c) (t : Bytes) :
    parseStrS none (escCp c ++ t) = consCp c (parseStrS none t) := by
  unfold escCp
  split
  · subst c; exact parseStrS_esc 34 34 t (by decide) (by decide)
  split
  · subst c; exact parseStrS_esc 92 92 t (by decide) (by decide)
  split
  · subst c; exact parseStrS_esc 98 8 t (by decide) (by decide)
  split
  · subst c; exact parseStrS_esc 102 12 t (by decide) (by decide)
  split
  · subst c; exact parseStrS_esc 110 10 t (by decide) (by decide)
  split
  · subst c; exact parseStrS_esc 114 13 t (by decide) (by decide)
  split
  · subst c; exact parseStrS_esc 116 9 t (by decide) (by decide)
  split
  · exact parseStrS_lit c t (by omega) (by omega) (by omega)
  split
  · rename_i hlt
    rw [parseStrS_u4 none c hlt]
    unfold Scalar at hc
    have : ¬ (55296 ≤ c ∧ c < 56320) := by omega
    simp [this]
  · unfold Scalar at hc
    rw [List.append_assoc, parseStrS_u4 none _ (by omega)]
    have h1 : 55296 ≤ 55296 + (c - 65536) / 1024 ∧ 55296 + (c - 65536) / 1024 < 56320 := by omega
    simp only [h1, and_self, if_true]
    rw [parseStrS_u4 _ _ (by omega)]
    have h2 : 56320 ≤ 56320 + (c - 65536) % 1024 ∧ 56320 + (c - 65536) % 1024 < 57344 := by omega
    simp only [h2, and_self, if_true]
    have h3 : 65536 + (55296 + (c - 65536) / 1024 - 55296) * 1024 + (56320 + (c - 65536) % 1024 - 56320) = c := by
      omega
    rw [h3]

theorem parseStr_encStrBody (s : List Nat) (hs : ∀ c ∈ s, Scalar c) (rest : Bytes) :
    parseStr (encStrBody s ++ 34 :: rest) = some (s, rest) := by
  unfold parseStr
  induction s with
  | nil => rw [encStrBody, List.nil_append, parseStrS_cons]; simp
  | cons c r ih =>
    rw [encStrBody, List.append_assoc, parseStrS_escCp c (hs c List.mem_cons_self),
      ih (fun x hx => hs x (List.mem_cons_of_mem _ hx))]
    rfl

theorem parseStr_encStr (s : List Nat) (hs : ∀ c ∈ s, Scalar c) (rest : Bytes) :
    parseStr (encStrBody s ++ [34] ++ rest) = some (s, rest) := by
  rw [List.append_assoc]; exact parseStr_encStrBody s hs rest

/-! ### numbers -/

/-- what may follow a value in a JSON text: the end of the text, `,`, `]`, `}` (nothing that could extend a
    number token) -/
def Stop : Bytes → Prop
  | [] => True
  | c :: _ => c = 44 ∨ c = 93 ∨ c = 125

theorem Stop_cases {rest : Bytes} (h : Stop rest) :
    rest = [] ∨ ∃ c r, rest = c :: r ∧ (c = 44 ∨ c = 93 ∨ c = 125) := by
  cases rest with
  | nil => exact Or.inl rfl
  | cons c r => exact Or.inr ⟨c, r, rfl, h⟩

theorem spanDigits_stop {rest : Bytes} (h : Stop rest) : spanDigits rest = ([], rest) := by
  rcases Stop_cases h with rfl | ⟨c, r, rfl, rfl | rfl | rfl⟩ <;> simp [spanDigits, isDigit]

theorem spanDigits_append (t : Bytes) {rest : Bytes} (h : Stop rest) :
    spanDigits (t ++ rest) = ((spanDigits t).1, (spanDigits t).2 ++ rest) := by
  induction t with
  | nil => simp [spanDigits_stop h, spanDigits]
  | cons b r ih =>
    simp only [List.cons_append, spanDigits]
    split <;> simp [ih]

theorem lexMinus_append (t : Bytes) {rest : Bytes} (h : Stop rest) :
    lexMinus (t ++ rest) = ((lexMinus t).1, (lexMinus t).2 ++ rest) := by
  cases t with
  | nil => rcases Stop_cases h with rfl | ⟨c, r, rfl, rfl | rfl | rfl⟩ <;> simp [lexMinus]
  | cons b r => simp only [List.cons_append, lexMinus]; split <;> simp

theorem lexInt_append (t : Bytes) {rest : Bytes} (h : Stop rest) :
    lexInt (t ++ rest) = ((lexInt t).1, (lexInt t).2 ++ rest) := by
  cases t with
  | nil => rcases Stop_cases h with rfl | ⟨c, r, rfl, rfl | rfl | rfl⟩ <;> simp [lexInt, isDigit]
  | cons b r =>
    simp only [List.cons_append, lexInt, spanDigits_append r h]
    split
    · simp
    · split <;> simp

theorem lexFrac_append (t : Bytes) {rest : Bytes} (h : Stop rest) :
    lexFrac (t ++ rest) = ((lexFrac t).1, (lexFrac t).2 ++ rest) := by
  cases t with
  | nil => rcases Stop_cases h with rfl | ⟨c, r, rfl, rfl | rfl | rfl⟩ <;> simp [lexFrac]
  | cons b r =>
    simp only [List.cons_append, lexFrac, spanDigits_append r h]
    split <;> simp

theorem lexSign_append (t : Bytes) {rest : Bytes} (h : Stop rest) :
    lexSign (t ++ rest) = ((lexSign t).1, (lexSign t).2 ++ rest) := by
  cases t with
  | nil => rcases Stop_cases h with rfl | ⟨c, r, rfl, rfl | rfl | rfl⟩ <;> simp [lexSign]
  | cons b r => simp only [List.cons_append, lexSign]; split <;> simp

theorem lexExp_append (t : Bytes) {rest : Bytes} (h : Stop rest) :
    lexExp (t ++ rest) = ((lexExp t).1, (lexExp t).2 ++ rest) := by
  cases t with
  | nil => rcases Stop_cases h with rfl | ⟨c, r, rfl, rfl | rfl | rfl⟩ <;> simp [lexExp]
  | cons b r =>
    simp only [List.cons_append, lexExp, lexSign_append r h, spanDigits_append _ h]
    split <;> simp

/-- a number token is not changed by what follows it, provided that is the end of the text or `,` `]` `}` -/
theorem lexNum_append (t : Bytes) {rest : Bytes} (h : Stop rest) :
    lexNum (t ++ rest) = (lexNum t).map (fun p => (p.1, p.2.1, p.2.2.1, p.2.2.2.1, p.2.2.2.2 ++ rest)) := by
  simp only [lexNum, lexMinus_append t h, lexInt_append _ h, lexFrac_append _ h, lexExp_append _ h]
  split <;> simp

/-! the pieces of a token put together give back the text -/

theorem spanDigits_concat (s : Bytes) : (spanDigits s).1 ++ (spanDigits s).2 = s := by
  induction s with
  | nil => rfl
  | cons b r ih => simp only [spanDigits]; split <;> simp [ih]

theorem lexMinus_concat (s : Bytes) : (lexMinus s).1 ++ (lexMinus s).2 = s := by
  cases s with
  | nil => rfl
  | cons b r => simp only [lexMinus]; split <;> simp_all

theorem lexInt_concat (s : Bytes) : (lexInt s).1 ++ (lexInt s).2 = s := by
  cases s with
  | nil => rfl
  | cons b r =>
    simp only [lexInt]
    split
    · simp_all
    · split <;> simp [spanDigits_concat]

theorem lexFrac_concat (s : Bytes) : (lexFrac s).1 ++ (lexFrac s).2 = s := by
  cases s with
  | nil => rfl
  | cons b r =>
    simp only [lexFrac]
    split
    · rename_i h; simp [spanDigits_concat, h.1]
    · simp

theorem lexSign_concat (s : Bytes) : (lexSign s).1 ++ (lexSign s).2 = s := by
  cases s with
  | nil => rfl
  | cons b r => simp only [lexSign]; split <;> simp

theorem lexExp_concat (s : Bytes) : (lexExp s).1 ++ (lexExp s).2 = s := by
  cases s with
  | nil => rfl
  | cons b r =>
    simp only [lexExp]
    split
    · simp only [List.cons_append, List.append_assoc, spanDigits_concat, lexSign_concat]
    · simp

theorem lexNum_concat {s m i f e r : Bytes} (h : lexNum s = some (m, i, f, e, r)) :
    m ++ (i ++ (f ++ (e ++ r))) = s := by
  unfold lexNum at h
  split at h
  · exact absurd h (by simp)
  · simp only [Option.some.injEq, Prod.mk.injEq] at h
    obtain ⟨rfl, rfl, rfl, rfl, rfl⟩ := h
    rw [lexExp_concat, lexFrac_concat, lexInt_concat, lexMinus_concat]

/-- a number token starts with a digit, or with `-` and a digit -/
theorem lexNum_head {c : Nat} {r : Bytes} {x} (h : lexNum (c :: r) = some x) :
    isDigit c = true ∨ (c = 45 ∧ ∃ d r', r = d :: r' ∧ isDigit d = true) := by
  unfold lexNum at h
  split at h
  · exact absurd h (by simp)
  · rename_i hne
    simp only [lexMinus] at hne
    split at hne
    · right
      refine ⟨by assumption, ?_⟩
      cases r with
      | nil => simp [lexInt] at hne
      | cons d r' =>
        refine ⟨d, r', rfl, ?_⟩
        simp only [lexInt] at hne
        split at hne
        · subst d; rfl
        · split at hne
          · assumption
          · simp at hne
    · left
      simp only [lexInt] at hne
      split at hne
      · subst c; rfl
      · split at hne
        · assumption
        · simp at hne

theorem lexNum_nil : lexNum [] = none := by simp [lexNum, lexMinus, lexInt]

/-! ### unfolding the mutual parsers once -/

theorem parseVal_zero (s : Bytes) : parseVal 0 s = none := by rw [parseVal.eq_def]

theorem parseVal_cons (fuel c : Nat) (r : Bytes) :
    parseVal (fuel + 1) (c :: r) =
      if c = 34 then (parseStr r).map (fun p => (J.str p.1, p.2))
      else if c = 91 then
        match skipWs r with
        | [] => none
        | d :: r1 =>
          if d = 93 then some (J.arr [], r1)
          else (parseElems fuel (d :: r1)).map (fun p => (J.arr p.1, p.2))
      else if c = 123 then
        match skipWs r with
        | [] => none
        | d :: r1 =>
          if d = 125 then some (J.obj [], r1)
          else (parseMembers fuel (d :: r1)).map (fun p => (J.obj p.1, p.2))
      else if c = 110 then (stripPrefix [117, 108, 108] r).map (fun t => (J.null, t))
      else if c = 116 then (stripPrefix [114, 117, 101] r).map (fun t => (J.bool true, t))
      else if c = 102 then (stripPrefix [97, 108, 115, 101] r).map (fun t => (J.bool false, t))
      else if c = 78 then (stripPrefix [97, 78] r).map (fun t => (J.flt sNaN, t))
      else if c = 73 then (stripPrefix [110, 102, 105, 110, 105, 116, 121] r).map (fun t => (J.flt sInfinity, t))
      else if c = 45 ∧ r.head? = some 73 then
        (stripPrefix sInfinity r).map (fun t => (J.flt sNegInfinity, t))
      else parseNum (c :: r) := by
  rw [parseVal.eq_def]; rfl

theorem parseElems_succ (fuel : Nat) (s : Bytes) :
    parseElems (fuel + 1) s =
      match parseVal fuel s with
      | none => none
      | some (v, r) =>
        match skipWs r with
        | [] => none
        | d :: r1 =>
          if d = 93 then some ([v], r1)
          else if d = 44 then (parseElems fuel (skipWs r1)).map (fun p => (v :: p.1, p.2))
          else none := by
  rw [parseElems.eq_def]; rfl

theorem parseMembers_succ (fuel : Nat) (s1 : Bytes) :
    parseMembers (fuel + 1) (34 :: s1) =
        match parseStr s1 with
        | none => none
        | some (k, r) =>
          match skipWs r with
          | [] => none
          | c :: r1 =>
            if c = 58 then
              match parseVal fuel (skipWs r1) with
              | none => none
              | some (v, r2) =>
                match skipWs r2 with
                | [] => none
                | d :: r3 =>
                  if d = 125 then some ([(k, v)], r3)
                  else if d = 44 then (parseMembers fuel (skipWs r3)).map (fun p => ((k, v) :: p.1, p.2))
                  else none
            else none := by
  rw [parseMembers.eq_def]; rfl

/-- a text that starts like a number goes to the number scanner -/
theorem parseVal_num (fuel : Nat) (s : Bytes) {x} (h : lexNum s = some x) :
    parseVal (fuel + 1) s = parseNum s := by
  cases s with
  | nil => rw [lexNum_nil] at h; exact absurd h (by simp)
  | cons c r =>
    rw [parseVal_cons]
    rcases lexNum_head h with hd | ⟨rfl, d, r', rfl, hd⟩
    · simp only [isDigit, Bool.and_eq_true, decide_eq_true_eq] at hd
      have h1 : c ≠ 34 := by omega
      have h2 : c ≠ 91 := by omega
      have h3 : c ≠ 123 := by omega
      have h4 : c ≠ 110 := by omega
      have h5 : c ≠ 116 := by omega
      have h6 : c ≠ 102 := by omega
      have h7 : c ≠ 78 := by omega
      have h8 : c ≠ 73 := by omega
      have h9 : c ≠ 45 := by omega
      simp [h1, h2, h3, h4, h5, h6, h7, h8, h9]
    · simp only [isDigit, Bool.and_eq_true, decide_eq_true_eq] at hd
      have : d ≠ 73 := by omega
      simp [this]

/-! ### integers -/

theorem natDigitsAux_head (fuel n : Nat) (acc : Bytes) (hf : n < fuel) (hn : 0 < n) :
    ∃ c t, natDigitsAux fuel n acc = c :: t ∧ c ≠ 48 := by
  induction fuel generalizing n acc with
  | zero => omega
  | succ f ih =>
    unfold natDigitsAux
    split
    · exact ⟨48 + n, acc, rfl, by omega⟩
    · exact ih (n / 10) _ (by omega) (by omega)

theorem spanDigits_all (d : Bytes) (hd : ∀ b ∈ d, isDigit b = true) : spanDigits d = (d, []) := by
  induction d with
  | nil => rfl
  | cons b r ih =>
    simp [spanDigits, hd b List.mem_cons_self, ih (fun x hx => hd x (List.mem_cons_of_mem _ hx))]

theorem lexInt_natText (n : Nat) : lexInt (natText n) = (natText n, []) := by
  by_cases hn : n = 0
  · subst hn; decide
  · obtain ⟨c, t, hct, hc⟩ := natDigitsAux_head (n + 1) n [] (by omega) (by omega)
    have hd := natText_digits n
    unfold natText at hd ⊢
    rw [hct] at hd ⊢
    have hdc := hd c List.mem_cons_self
    have hsp := spanDigits_all t (fun x hx => hd x (List.mem_cons_of_mem _ hx))
    simp [lexInt, hc, hdc, hsp]

theorem lexMinus_natText (n : Nat) : lexMinus (natText n) = ([], natText n) := by
  cases hx : natText n with
  | nil => rfl
  | cons c t =>
    have hdc := natText_digits n c (by rw [hx]; exact List.mem_cons_self)
    have h45 : c ≠ 45 := by simp [isDigit] at hdc; omega
    simp [lexMinus, h45]

theorem natText_isEmpty (n : Nat) : (natText n).isEmpty = false := by
  cases hx : natText n with
  | nil => exact absurd hx (natText_ne_nil n)
  | cons c t => rfl

theorem lexNum_natText (n : Nat) : lexNum (natText n) = some ([], natText n, [], [], []) := by
  simp [lexNum, lexMinus_natText, lexInt_natText, natText_isEmpty, lexFrac, lexExp]

theorem lexNum_neg_natText (n : Nat) : lexNum (45 :: natText n) = some ([45], natText n, [], [], []) := by
  have : lexMinus (45 :: natText n) = ([45], natText n) := by simp [lexMinus]
  simp [lexNum, this, lexInt_natText, natText_isEmpty, lexFrac, lexExp]

theorem parseNum_intText (i : Int) {rest : Bytes} (h : Stop rest) :
    (∃ x, lexNum (intText i ++ rest) = some x) ∧ parseNum (intText i ++ rest) = some (J.int i, rest) := by
  cases i with
  | ofNat n =>
    have hl : lexNum (intText (Int.ofNat n) ++ rest) = some ([], natText n, [], [], rest) := by
      simp only [intText]
      rw [lexNum_append _ h, lexNum_natText]; simp
    refine ⟨⟨_, hl⟩, ?_⟩
    rw [parseNum, hl]
    simp [digitsVal_natText]
  | negSucc n =>
    have hl : lexNum (intText (Int.negSucc n) ++ rest) = some ([45], natText (n + 1), [], [], rest) := by
      simp only [intText]
      rw [lexNum_append _ h, lexNum_neg_natText]; simp
    refine ⟨⟨_, hl⟩, ?_⟩
    rw [parseNum, hl]
    simp [digitsVal_natText, Int.negSucc_eq]

/-! ### floats -/

theorem parseVal_float (fuel : Nat) (t : Bytes) (ht : isFloatText t = true) {rest : Bytes} (h : Stop rest) :
    parseVal (fuel + 1) (t ++ rest) = some (J.flt t, rest) := by
  unfold isFloatText at ht
  simp only [Bool.or_eq_true, beq_iff_eq] at ht
  rcases ht with (rfl | rfl) | h3
  · simp [sInfinity, parseVal_cons, stripPrefix]
  · simp [sNegInfinity, sInfinity, parseVal_cons, stripPrefix]
  · split at h3
    · rename_i m i f e r hl
      simp only [Bool.and_eq_true, List.isEmpty_iff, Bool.not_eq_true', Bool.and_eq_false_iff] at h3
      obtain ⟨rfl, hfe⟩ := h3
      have hc := lexNum_concat hl
      have hl' : lexNum (t ++ rest) = some (m, i, f, e, rest) := by
        rw [lexNum_append _ h, hl]; simp
      rw [parseVal_num fuel _ hl']
      simp only [parseNum, hl']
      have : ¬ (f.isEmpty = true ∧ e.isEmpty = true) := by
        rcases hfe with h1 | h1 <;> simp [h1]
      simp only [this, if_false]
      simp only [List.append_nil] at hc
      rw [hc]
    · exact absurd h3 (by simp)

/-! ### what a value starts with -/

theorem parseVal_nil (fuel : Nat) : parseVal fuel [] = none := by
  cases fuel with
  | zero => exact parseVal_zero _
  | succ f => rw [parseVal.eq_def]

theorem parseVal_bad (fuel c : Nat) (t : Bytes) (hc : isWs c = true ∨ c = 93 ∨ c = 125) :
    parseVal fuel (c :: t) = none := by
  cases fuel with
  | zero => exact parseVal_zero _
  | succ f =>
    have : c = 32 ∨ c = 9 ∨ c = 10 ∨ c = 13 ∨ c = 93 ∨ c = 125 := by
      rcases hc with h | h | h
      · simp [isWs] at h; omega
      · omega
      · omega
    rw [parseVal_cons]
    rcases this with rfl | rfl | rfl | rfl | rfl | rfl <;>
      simp [parseNum, lexNum, lexMinus, lexInt, isDigit]

/-- a text from which `parseVal` gets a value starts with neither whitespace nor a closing bracket -/
theorem parseVal_head {fuel : Nat} {X : Bytes} {p} (h : parseVal fuel X = some p) :
    ∃ c t, X = c :: t ∧ isWs c = false ∧ c ≠ 93 ∧ c ≠ 125 := by
  cases X with
  | nil => rw [parseVal_nil] at h; exact absurd h (by simp)
  | cons c t =>
    refine ⟨c, t, rfl, ?_, ?_, ?_⟩
    · cases hw : isWs c with
      | false => rfl
      | true => rw [parseVal_bad fuel c t (Or.inl hw)] at h; exact absurd h (by simp)
    · intro hc; rw [parseVal_bad fuel c t (Or.inr (Or.inl hc))] at h; exact absurd h (by simp)
    · intro hc; rw [parseVal_bad fuel c t (Or.inr (Or.inr hc))] at h; exact absurd h (by simp)

theorem skipWs_of_not (c : Nat) (t : Bytes) (h : isWs c = false) : skipWs (c :: t) = c :: t := by
  simp [skipWs, h]

theorem skipWs_space (t : Bytes) : skipWs (32 :: t) = skipWs t := by simp [skipWs, isWs]

/-! ### well-formed values, sizes -/

mutual
/-- the values the round trip is stated for: every code point of every string and key is a Unicode scalar value
    (a Python `str` with a lone surrogate code point is printed as `\udXXX` and two of them in a row would be read
    back as one code point), every float text is what `json.dumps` prints for a float (`isFloatText`).
    Nothing is asked of ints, nesting depth, lengths, or key uniqueness. -/
def J.WF : J → Prop
  | .null => True
  | .bool _ => True
  | .int _ => True
  | .flt t => isFloatText t = true
  | .str s => ∀ c ∈ s, Scalar c
  | .arr l => WFL l
  | .obj l => WFM l
def WFL : List J → Prop
  | [] => True
  | v :: r => v.WF ∧ WFL r
def WFM : List (List Nat × J) → Prop
  | [] => True
  | (k, v) :: r => (∀ c ∈ k, Scalar c) ∧ v.WF ∧ WFM r
end

mutual
/-- number of nodes (values and list/dict entries): the fuel `parseVal` needs -/
def J.size : J → Nat
  | .null => 1
  | .bool _ => 1
  | .int _ => 1
  | .flt _ => 1
  | .str _ => 1
  | .arr l => 1 + sizeL l
  | .obj l => 1 + sizeM l
def sizeL : List J → Nat
  | [] => 0
  | v :: r => 1 + v.size + sizeL r
def sizeM : List (List Nat × J) → Nat
  | [] => 0
  | (_, v) :: r => 1 + v.size + sizeM r
end

theorem J.size_pos (v : J) : 1 ≤ v.size := by
  cases v <;> simp [J.size]

theorem Stop_jencL (r : List J) (rest : Bytes) : Stop (jencL false r ++ rest) := by
  cases r <;> simp [jencL, Stop]

theorem Stop_jencM (r : List (List Nat × J)) (rest : Bytes) : Stop (jencM false r ++ rest) := by
  cases r with
  | nil => simp [jencM, Stop]
  | cons kv r' => obtain ⟨k, v⟩ := kv; simp [jencM, Stop]

/-! ### the round trip -/

/-- the three parsers on the three kinds of encoder output, by induction on the fuel -/
theorem parse_all (fuel : Nat) :
    (∀ v rest, J.WF v → v.size ≤ fuel → Stop rest → parseVal fuel (jenc v ++ rest) = some (v, rest)) ∧
    (∀ v r rest, J.WF v → WFL r → sizeL (v :: r) ≤ fuel →
      parseElems fuel (jenc v ++ (jencL false r ++ rest)) = some (v :: r, rest)) ∧
    (∀ k v r rest, (∀ c ∈ k, Scalar c) → J.WF v → WFM r → sizeM ((k, v) :: r) ≤ fuel →
      parseMembers fuel (34 :: (encStrBody k ++ 34 :: 58 :: 32 :: (jenc v ++ (jencM false r ++ rest)))) =
        some ((k, v) :: r, rest)) := by
  induction fuel with
  | zero =>
    refine ⟨?_, ?_, ?_⟩
    · intro v rest _ hs; have := J.size_pos v; omega
    · intro v r rest _ _ hs; simp only [sizeL] at hs; omega
    · intro k v r rest _ _ _ hs; simp only [sizeM] at hs; omega
  | succ f ih =>
    obtain ⟨ih1, ih2, ih3⟩ := ih
    refine ⟨?_, ?_, ?_⟩
    · intro v rest hwf hsz hst
      cases v with
      | null => simp [jenc, sNull, parseVal_cons, stripPrefix]
      | bool b => cases b <;> simp [jenc, sTrueJ, sFalseJ, parseVal_cons, stripPrefix]
      | int i =>
        obtain ⟨⟨x, hx⟩, hp⟩ := parseNum_intText i hst
        simp only [jenc]
        rw [parseVal_num f _ hx, hp]
      | flt t =>
        simp only [J.WF] at hwf
        simp only [jenc]
        exact parseVal_float f t hwf hst
      | str s =>
        simp only [J.WF] at hwf
        simp only [jenc, encStr, List.cons_append, List.append_assoc]
        rw [parseVal_cons]
        simp [parseStr_encStrBody s hwf]
      | arr l =>
        cases l with
        | nil => simp [jenc, jencL, parseVal_cons, skipWs, isWs]
        | cons v r =>
          simp only [J.WF, WFL] at hwf
          simp only [J.size, sizeL] at hsz
          have hv := ih1 v (jencL false r ++ rest) hwf.1 (by omega) (Stop_jencL r rest)
          obtain ⟨c, t, hX, hws, h93, _⟩ := parseVal_head hv
          have hE := ih2 v r rest hwf.1 hwf.2 (by simp only [sizeL]; omega)
          simp only [jenc, jencL, if_true, List.nil_append, List.cons_append, List.append_assoc]
          rw [hX] at hE ⊢
          rw [parseVal_cons]
          simp [skipWs_of_not c t hws, h93, hE]
      | obj l =>
        cases l with
        | nil => simp [jenc, jencM, parseVal_cons, skipWs, isWs]
        | cons kv r =>
          obtain ⟨k, v⟩ := kv
          simp only [J.WF, WFM] at hwf
          simp only [J.size, sizeM] at hsz
          have hE := ih3 k v r rest hwf.1 hwf.2.1 hwf.2.2 (by simp only [sizeM]; omega)
          simp only [jenc, jencM, encStr, if_true, List.nil_append, List.cons_append, List.append_assoc]
          rw [parseVal_cons]
          simp [skipWs_of_not 34 _ (by decide), hE]
    · intro v r rest hv hr hsz
      simp only [sizeL] at hsz
      rw [parseElems_succ, ih1 v (jencL false r ++ rest) hv (by omega) (Stop_jencL r rest)]
      cases r with
      | nil => simp [jencL, skipWs, isWs]
      | cons w r' =>
        simp only [WFL] at hr
        simp only [sizeL] at hsz
        have hw := ih1 w (jencL false r' ++ rest) hr.1 (by omega) (Stop_jencL r' rest)
        obtain ⟨c, t, hX, hws, _, _⟩ := parseVal_head hw
        have hE := ih2 w r' rest hr.1 hr.2 (by simp only [sizeL]; omega)
        simp only [jencL, Bool.false_eq_true, if_false, List.cons_append, List.nil_append, List.append_assoc]
        rw [hX] at hE ⊢
        simp [skipWs_of_not 44 _ (by decide), skipWs_space, skipWs_of_not c t hws, hE]
    · intro k v r rest hk hv hr hsz
      simp only [sizeM] at hsz
      have hp := ih1 v (jencM false r ++ rest) hv (by omega) (Stop_jencM r rest)
      obtain ⟨c, t, hX, hws, _, _⟩ := parseVal_head hp
      rw [parseMembers_succ, parseStr_encStrBody k hk]
      rw [hX] at hp ⊢
      simp only [skipWs_of_not 58 _ (by decide), skipWs_space, skipWs_of_not c t hws, if_true, hp]
      cases r with
      | nil => simp [jencM, skipWs, isWs]
      | cons kw r' =>
        obtain ⟨k', w⟩ := kw
        simp only [WFM] at hr
        simp only [sizeM] at hsz
        have hE := ih3 k' w r' rest hr.1 hr.2.1 hr.2.2 (by simp only [sizeM]; omega)
        simp only [jencM, encStr, Bool.false_eq_true, if_false, List.cons_append, List.nil_append,
          List.append_assoc]
        simp [skipWs_of_not 44 _ (by decide), skipWs_space, skipWs_of_not 34 _ (by decide), hE]

/-- one value followed by the end of the text or by `,` `]` `}`: `parseVal` gives the value back and stops exactly
    behind its text, whenever the fuel is at least the number of nodes of the value -/
theorem parseVal_jenc (v : J) (h : v.WF) (fuel : Nat) (hf : v.size ≤ fuel) (rest : Bytes) (hs : Stop rest) :
    parseVal fuel (jenc v ++ rest) = some (v, rest) :=
  (parse_all fuel).1 v rest h hf hs

/-- structural induction over a value together with its lists of elements and of members -/
theorem J.induct {P : J → Prop} {PL : List J → Prop} {PM : List (List Nat × J) → Prop}
    (null : P .null) (bool : ∀ b, P (.bool b)) (int : ∀ i, P (.int i)) (flt : ∀ t, P (.flt t))
    (str : ∀ s, P (.str s)) (arr : ∀ l, PL l → P (.arr l)) (obj : ∀ l, PM l → P (.obj l))
    (nilL : PL []) (consL : ∀ v r, P v → PL r → PL (v :: r))
    (nilM : PM []) (consM : ∀ k v r, P v → PM r → PM ((k, v) :: r)) : ∀ v, P v :=
  fun v => J.rec (motive_1 := P) (motive_2 := PL) (motive_3 := PM) (motive_4 := fun kv => P kv.2)
    null bool int flt str arr obj nilL consL nilM (fun kv r h1 h2 => consM kv.1 kv.2 r h1 h2) (fun _ _ h => h) v

theorem intText_length_pos (i : Int) : 1 ≤ (intText i).length := by
  cases i with
  | ofNat n =>
    simp only [intText]
    cases hx : natText n with
    | nil => exact absurd hx (natText_ne_nil n)
    | cons c t => simp
  | negSucc n => simp [intText]

theorem isFloatText_length_pos (t : Bytes) (h : isFloatText t = true) : 1 ≤ t.length := by
  cases t with
  | nil => exact absurd h (by decide)
  | cons c r => simp

/-- the text of a value is at least as long as the value has nodes: `jdec`'s fuel (length + 1) is enough -/
theorem size_le_length (v : J) : v.WF → v.size ≤ (jenc v).length := by
  refine J.induct (P := fun v => v.WF → v.size ≤ (jenc v).length)
    (PL := fun l => WFL l → sizeL l + 1 ≤ (jencL false l).length ∧ sizeL l ≤ (jencL true l).length)
    (PM := fun l => WFM l → sizeM l + 1 ≤ (jencM false l).length ∧ sizeM l ≤ (jencM true l).length)
    ?_ ?_ ?_ ?_ ?_ ?_ ?_ ?_ ?_ ?_ ?_ v
  · intro _; simp [J.size, jenc, sNull]
  · intro b _; cases b <;> simp [J.size, jenc, sTrueJ, sFalseJ]
  · intro i _; simp only [J.size, jenc]; exact intText_length_pos i
  · intro t h; simp only [J.size, jenc]; exact isFloatText_length_pos t h
  · intro s _; simp [J.size, jenc, encStr]
  · intro l ih h
    simp only [J.WF] at h
    have := (ih h).2
    simp only [J.size, jenc, List.length_cons]; omega
  · intro l ih h
    simp only [J.WF] at h
    have := (ih h).2
    simp only [J.size, jenc, List.length_cons]; omega
  · intro _; simp [sizeL, jencL]
  · intro v r ihv ihr h
    simp only [WFL] at h
    have h1 := ihv h.1
    have h2 := (ihr h.2).1
    simp only [sizeL, jencL, List.length_append, List.length_cons, List.length_nil, if_true,
      Bool.false_eq_true, if_false]
    omega
  · intro _; simp [sizeM, jencM]
  · intro k v r ihv ihr h
    simp only [WFM] at h
    have h1 := ihv h.2.1
    have h2 := (ihr h.2.2).1
    simp only [sizeM, jencM, encStr, List.length_append, List.length_cons, List.length_nil, if_true,
      Bool.false_eq_true, if_false]
    omega

/-- **the round trip**: `json.loads(json.dumps(v)) == v` in the model, for every well-formed value -/
theorem jdec_jenc (v : J) (h : v.WF) : jdec (jenc v) = some v := by
  have hp := parseVal_jenc v h ((jenc v).length + 1) (by have := size_le_length v h; omega) [] trivial
  rw [List.append_nil] at hp
  obtain ⟨c, t, hX, hws, _, _⟩ := parseVal_head hp
  unfold jdec
  rw [hX] at hp ⊢
  rw [skipWs_of_not c t hws, hp]
  rfl

theorem jencOther_is_str (t : List Nat) : jencOther t = jenc (.str t) := rfl

/-! ### the JSON text is one line of printable ASCII -/

/-- printable ASCII -/
def Pr (b : Nat) : Prop := 32 ≤ b ∧ b ≤ 126

instance (b : Nat) : Decidable (Pr b) := by unfold Pr; infer_instance

theorem digit_pr {b : Nat} (h : isDigit b = true) : Pr b := by
  simp [isDigit] at h; unfold Pr; omega

theorem hexLow_pr (n : Nat) (h : n < 16) : Pr (hexLow n) := by
  unfold hexLow Pr; split <;> omega

theorem u4_pr (n : Nat) : ∀ b ∈ u4 n, Pr b := by
  intro b hb
  simp only [u4, List.mem_cons, List.not_mem_nil, or_false] at hb
  rcases hb with rfl | rfl | rfl | rfl | rfl | rfl
  · decide
  · decide
  · exact hexLow_pr _ (by omega)
  · exact hexLow_pr _ (by omega)
  · exact hexLow_pr _ (by omega)
  · exact hexLow_pr _ (by omega)

theorem escCp_pr (c : Nat) : ∀ b ∈ escCp c, Pr b := by
  have two : ∀ x y : Nat, Pr x → Pr y → ∀ b ∈ [x, y], Pr b := by
    intro x y hx hy b hb
    simp only [List.mem_cons, List.not_mem_nil, or_false] at hb
    rcases hb with rfl | rfl <;> assumption
  unfold escCp
  split; · exact two _ _ (by decide) (by decide)
  split; · exact two _ _ (by decide) (by decide)
  split; · exact two _ _ (by decide) (by decide)
  split; · exact two _ _ (by decide) (by decide)
  split; · exact two _ _ (by decide) (by decide)
  split; · exact two _ _ (by decide) (by decide)
  split; · exact two _ _ (by decide) (by decide)
  split
  · intro b hb
    simp only [List.mem_cons, List.not_mem_nil, or_false] at hb
    subst hb; assumption
  split
  · exact u4_pr c
  · intro b hb
    rcases List.mem_append.mp hb with h | h
    · exact u4_pr _ b h
    · exact u4_pr _ b h

theorem encStr_pr (s : List Nat) : ∀ b ∈ encStr s, Pr b := by
  have body : ∀ b ∈ encStrBody s, Pr b := by
    induction s with
    | nil => simp [encStrBody]
    | cons c r ih =>
      intro b hb
      rw [encStrBody] at hb
      rcases List.mem_append.mp hb with h | h
      · exact escCp_pr c b h
      · exact ih b h
  intro b hb
  simp only [encStr, List.mem_cons, List.mem_append, List.not_mem_nil, or_false] at hb
  rcases hb with rfl | h | rfl
  · decide
  · exact body b h
  · decide

theorem intText_pr (i : Int) : ∀ b ∈ intText i, Pr b := by
  intro b hb
  cases i with
  | ofNat n => exact digit_pr (natText_digits n b hb)
  | negSucc n =>
    rcases List.mem_cons.mp hb with rfl | h
    · decide
    · exact digit_pr (natText_digits _ b h)

theorem spanDigits_pr (s : Bytes) : ∀ b ∈ (spanDigits s).1, Pr b := by
  induction s with
  | nil => simp [spanDigits]
  | cons c r ih =>
    simp only [spanDigits]
    split
    · rename_i hc
      intro b hb
      rcases List.mem_cons.mp hb with rfl | h
      · exact digit_pr hc
      · exact ih b h
    · simp

theorem lexMinus_pr (s : Bytes) : ∀ b ∈ (lexMinus s).1, Pr b := by
  cases s with
  | nil => simp [lexMinus]
  | cons c r =>
    simp only [lexMinus]
    split
    · intro b hb; simp only [List.mem_cons, List.not_mem_nil, or_false] at hb; subst hb; decide
    · simp

theorem lexInt_pr (s : Bytes) : ∀ b ∈ (lexInt s).1, Pr b := by
  cases s with
  | nil => simp [lexInt]
  | cons c r =>
    simp only [lexInt]
    split
    · intro b hb; simp only [List.mem_cons, List.not_mem_nil, or_false] at hb; subst hb; decide
    · split
      · rename_i hc
        intro b hb
        rcases List.mem_cons.mp hb with rfl | h
        · exact digit_pr hc
        · exact spanDigits_pr r b h
      · simp

theorem lexFrac_pr (s : Bytes) : ∀ b ∈ (lexFrac s).1, Pr b := by
  cases s with
  | nil => simp [lexFrac]
  | cons c r =>
    simp only [lexFrac]
    split
    · intro b hb
      rcases List.mem_cons.mp hb with rfl | h
      · decide
      · exact spanDigits_pr r b h
    · simp

theorem lexSign_pr (s : Bytes) : ∀ b ∈ (lexSign s).1, Pr b := by
  cases s with
  | nil => simp [lexSign]
  | cons c r =>
    simp only [lexSign]
    split
    · rename_i hc
      intro b hb; simp only [List.mem_cons, List.not_mem_nil, or_false] at hb; subst hb
      unfold Pr; omega
    · simp

theorem lexExp_pr (s : Bytes) : ∀ b ∈ (lexExp s).1, Pr b := by
  cases s with
  | nil => simp [lexExp]
  | cons c r =>
    simp only [lexExp]
    split
    · rename_i hc
      intro b hb
      rcases List.mem_cons.mp hb with rfl | h
      · unfold Pr; omega
      · rcases List.mem_append.mp h with h | h
        · exact lexSign_pr r b h
        · exact spanDigits_pr _ b h
    · simp

theorem isFloatText_pr (t : Bytes) (ht : isFloatText t = true) : ∀ b ∈ t, Pr b := by
  unfold isFloatText at ht
  simp only [Bool.or_eq_true, beq_iff_eq] at ht
  rcases ht with (rfl | rfl) | h3
  · decide
  · decide
  · split at h3
    · rename_i m i f e r hl
      simp only [Bool.and_eq_true, List.isEmpty_iff] at h3
      obtain ⟨rfl, _⟩ := h3
      have hc := lexNum_concat hl
      unfold lexNum at hl
      split at hl
      · exact absurd hl (by simp)
      · simp only [Option.some.injEq, Prod.mk.injEq] at hl
        obtain ⟨rfl, rfl, rfl, rfl, _⟩ := hl
        intro b hb
        rw [← hc] at hb
        simp only [List.mem_append, List.not_mem_nil, or_false] at hb
        rcases hb with h | h | h | h
        · exact lexMinus_pr _ b h
        · exact lexInt_pr _ b h
        · exact lexFrac_pr _ b h
        · exact lexExp_pr _ b h
    · exact absurd h3 (by simp)

/-- every byte `json.dumps` prints is printable ASCII (0x20..0x7E) -/
theorem jenc_ascii (v : J) : v.WF → ∀ b ∈ jenc v, 32 ≤ b ∧ b ≤ 126 := by
  refine J.induct (P := fun v => v.WF → ∀ b ∈ jenc v, Pr b)
    (PL := fun l => WFL l → ∀ first, ∀ b ∈ jencL first l, Pr b)
    (PM := fun l => WFM l → ∀ first, ∀ b ∈ jencM first l, Pr b)
    ?_ ?_ ?_ ?_ ?_ ?_ ?_ ?_ ?_ ?_ ?_ v
  · intro _; simp only [jenc]; decide
  · intro b _; cases b <;> simp only [jenc] <;> decide
  · intro i _; simp only [jenc]; exact intText_pr i
  · intro t h; simp only [jenc]; exact isFloatText_pr t h
  · intro s _; simp only [jenc]; exact encStr_pr s
  · intro l ih h b hb
    simp only [jenc] at hb
    rcases List.mem_cons.mp hb with rfl | hb
    · decide
    · exact ih h true b hb
  · intro l ih h b hb
    simp only [jenc] at hb
    rcases List.mem_cons.mp hb with rfl | hb
    · decide
    · exact ih h true b hb
  · intro _ first b hb
    simp only [jencL, List.mem_cons, List.not_mem_nil, or_false] at hb
    subst hb; decide
  · intro v r ihv ihr h first b hb
    simp only [WFL] at h
    simp only [jencL] at hb
    rcases List.mem_append.mp hb with hb | hb
    · cases first
      · simp only [Bool.false_eq_true, if_false, List.mem_cons, List.not_mem_nil, or_false] at hb
        rcases hb with rfl | rfl <;> decide
      · simp at hb
    · rcases List.mem_append.mp hb with hb | hb
      · exact ihv h.1 b hb
      · exact ihr h.2 false b hb
  · intro _ first b hb
    simp only [jencM, List.mem_cons, List.not_mem_nil, or_false] at hb
    subst hb; decide
  · intro k v r ihv ihr h first b hb
    simp only [WFM] at h
    simp only [jencM] at hb
    rcases List.mem_append.mp hb with hb | hb
    · cases first
      · simp only [Bool.false_eq_true, if_false, List.mem_cons, List.not_mem_nil, or_false] at hb
        rcases hb with rfl | rfl <;> decide
      · simp at hb
    · rcases List.mem_append.mp hb with hb | hb
      · exact encStr_pr k b hb
      · simp only [List.mem_cons] at hb
        rcases hb with rfl | rfl | hb
        · decide
        · decide
        · rcases List.mem_append.mp hb with hb | hb
          · exact ihv h.2.1 b hb
          · exact ihr h.2.2 false b hb

/-- no raw newline in the JSON text (the BCP framing is line based) -/
theorem jenc_one_line (v : J) (h : v.WF) : 10 ∉ jenc v := by
  intro hm
  have := jenc_ascii v h 10 hm
  omega

/-! ### the kernel runs the parser -/

/-- `[null, true, -12, 1e+22, "a\"\\\n😀\x7f", [], {}, {"k": [1, false], "": {}}]` -/
def sample : J :=
  .arr [.null, .bool true, .int (-12), .flt [49, 101, 43, 50, 50], .str [97, 34, 92, 10, 128512, 127], .arr [],
    .obj [], .obj [([107], .arr [.int 1, .bool false]), ([], .obj [])]]

example : jdec (jenc sample) = some sample := by rfl

example : jenc (.str [97, 34, 92, 10, 128512, 127]) =
    [34, 97, 92, 34, 92, 92, 92, 110, 92, 117, 100, 56, 51, 100, 92, 117, 100, 101, 48, 48,
     92, 117, 48, 48, 55, 102, 34] := by decide

example : jdec [32, 91, 49, 32, 44, 9, 45, 48, 46, 53, 69, 45, 51, 44, 32, 123, 34, 92, 117, 68, 56, 51, 68, 92, 117,
    100, 101, 48, 48, 92, 47, 34, 10, 58, 32, 110, 117, 108, 108, 125, 93, 13] =
    some (.arr [.int 1, .flt [45, 48, 46, 53, 69, 45, 51], .obj [([128512, 47], .null)]]) := by rfl

example : jdec [91, 49, 44, 93] = none := by rfl   -- `[1,]`
example : jdec [48, 49] = none := by rfl           -- `01`
example : jdec (jenc (.flt sNaN)) = some (.flt sNaN) := by rfl

end MpfVerif.Bcp
