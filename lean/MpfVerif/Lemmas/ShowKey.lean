import MpfVerif.Lemmas.ShowEvents
import MpfVerif.Model.ShowKey
/-! C17: a show-player key with replaced instances — the chain of deferred stops. -/
namespace MpfVerif.ShowKey
open MpfVerif.Show

def AllStopped (l : List Inst) : Prop := ∀ y ∈ l, y.rs.stopped = true

/-- the chain invariant of the instances of one key (newest first): every instance satisfies the single-instance
invariant; an instance that still holds a deferred stop (`replaces`) has neither started nor been stopped and the
instance it names is the one created just before it; an instance that holds none has nothing running below it -/
def Good : List Inst → Prop
  | [] => True
  | x :: rest =>
    Show.Inv x.rs ∧
    (x.replaces.isSome = true → x.rs.started = false ∧ x.rs.stopped = false ∧ x.replaces = some (rest.length - 1) ∧ rest ≠ []) ∧
    (x.replaces = none → AllStopped rest) ∧ Good rest

theorem good_cons (x : Inst) (rest : List Inst) : Good (x :: rest) ↔
    (Show.Inv x.rs ∧
    (x.replaces.isSome = true → x.rs.started = false ∧ x.rs.stopped = false ∧ x.replaces = some (rest.length - 1) ∧ rest ≠ []) ∧
    (x.replaces = none → AllStopped rest) ∧ Good rest) := Iff.rfl

theorem allStopped_cons (x : Inst) (rest : List Inst) : AllStopped (x :: rest) ↔ x.rs.stopped = true ∧ AllStopped rest := by
  unfold AllStopped; simp

theorem good_suffix (pre : List Inst) : ∀ l, Good (pre ++ l) → Good l := by
  induction pre with
  | nil => intro l h; exact h
  | cons y r ih => intro l h; exact ih l h.2.2.2

theorem good_mem (l : List Inst) : Good l → ∀ x ∈ l, Show.Inv x.rs := by
  induction l with
  | nil => intro _ x hx; simp at hx
  | cons y r ih =>
    intro h x hx
    rcases List.mem_cons.mp hx with rfl | hx
    · exact h.1
    · exact ih h.2.2.2 x hx

/-- a stopped instance holds no deferred stop, hence (in a good list) nothing below it runs -/
theorem good_stopped_head (x : Inst) (rest : List Inst) (h : Good (x :: rest)) (hs : x.rs.stopped = true) :
    x.replaces = none ∧ AllStopped rest := by
  have hn : x.replaces = none := by
    cases hr : x.replaces with
    | none => rfl
    | some j =>
      have := (h.2.1 (by rw [hr]; rfl)).2.1
      rw [hs] at this; cases this
  exact ⟨hn, h.2.2.1 hn⟩

theorem stopFrom_good : ∀ (l : List Inst), Good l →
    Good (stopFrom l).1 ∧ AllStopped (stopFrom l).1 ∧ (stopFrom l).1.length = l.length := by
  intro l
  induction l with
  | nil => intro _; exact ⟨trivial, by intro y hy; simp [stopFrom] at hy, rfl⟩
  | cons x rest ih =>
    intro h
    unfold stopFrom
    by_cases hs : x.rs.stopped = true
    · rw [if_pos hs]
      exact ⟨h, (allStopped_cons _ _).mpr ⟨hs, (good_stopped_head x rest h hs).2⟩, rfl⟩
    · rw [if_neg hs]
      have hst := stop_stopped x.rs
      have hinv := stop_inv x.rs h.1
      by_cases hr : x.replaces.isSome = true
      · simp only [hr, if_true]
        have := ih h.2.2.2
        refine ⟨(good_cons _ _).mpr ⟨hinv, (by intro hh; cases hh), fun _ => this.2.1, this.1⟩, ?_, by simp [this.2.2]⟩
        exact (allStopped_cons _ _).mpr ⟨hst, this.2.1⟩
      · simp only [hr]
        have hn : x.replaces = none := by cases hx : x.replaces <;> simp_all
        have hall := h.2.2.1 hn
        refine ⟨(good_cons _ _).mpr ⟨hinv, (by intro hh; cases hh), fun _ => hall, h.2.2.2⟩, ?_, rfl⟩
        exact (allStopped_cons _ _).mpr ⟨hst, hall⟩

/-- one step of an instance inside a good list -/
theorem settle_good (x : Inst) (rest : List Inst) (r : RS × List Obs) (h : Good (x :: rest)) (hi : Show.Inv r.1)
    (hk : x.rs.stopped = true → r.1.stopped = true) :
    Good (settle x rest r).1 ∧ (settle x rest r).1.length = (x :: rest).length ∧
    (AllStopped (x :: rest) → AllStopped (settle x rest r).1) := by
  unfold settle
  by_cases hc : (x.replaces.isSome && (r.1.started || r.1.stopped)) = true
  · rw [if_pos hc]
    have := stopFrom_good rest h.2.2.2
    refine ⟨(good_cons _ _).mpr ⟨hi, (by intro hh; cases hh), fun _ => this.2.1, this.1⟩, by simp [this.2.2], ?_⟩
    intro ha
    have hxs := ((allStopped_cons _ _).mp ha).1
    exact (allStopped_cons _ _).mpr ⟨hk hxs, this.2.1⟩
  · rw [if_neg hc]
    refine ⟨(good_cons _ _).mpr ⟨hi, ?_, ?_, h.2.2.2⟩, rfl, ?_⟩
    · intro hh
      have hh' : x.replaces.isSome = true := hh
      have h0 := h.2.1 hh'
      have hc' : (r.1.started || r.1.stopped) = false := by
        cases hb : (r.1.started || r.1.stopped) with
        | false => rfl
        | true => rw [hh', hb] at hc; simp at hc
      have h1 : r.1.started = false := by cases hb : r.1.started <;> simp_all
      have h2 : r.1.stopped = false := by cases hb : r.1.stopped <;> simp_all
      exact ⟨h1, h2, h0.2.2.1, h0.2.2.2⟩
    · intro hn; exact h.2.2.1 hn
    · intro ha
      have hx := (allStopped_cons _ _).mp ha
      exact (allStopped_cons _ _).mpr ⟨hk hx.1, hx.2⟩

theorem stepAt_good (i : Nat) (op : Show.Op) (hop : op.isPlay = false) : ∀ (l : List Inst), Good l →
    Good (stepAt i op l).1 ∧ (stepAt i op l).1.length = l.length ∧ (AllStopped l → AllStopped (stepAt i op l).1) := by
  intro l
  induction l with
  | nil => intro _; exact ⟨trivial, rfl, fun h => h⟩
  | cons x rest ih =>
    intro h
    unfold stepAt
    by_cases hi : rest.length = i
    · rw [if_pos hi]
      exact settle_good x rest _ h (step_inv x.rs op h.1) (fun hs => (step_after_stop x.rs op hs hop).1)
    · rw [if_neg hi]
      have := ih h.2.2.2
      refine ⟨(good_cons _ _).mpr ⟨h.1, ?_, fun hn => this.2.2 (h.2.2.1 hn), this.1⟩, by simp [this.2.1], ?_⟩
      · intro hh
        have h0 := h.2.1 hh
        refine ⟨h0.1, h0.2.1, by rw [this.2.1]; exact h0.2.2.1, ?_⟩
        intro hnil
        have hl0 : (stepAt i op rest).1.length = 0 := by rw [hnil]; rfl
        rw [this.2.1] at hl0
        exact h0.2.2.2 (List.eq_nil_of_length_eq_zero hl0)
      · intro ha
        have hx := (allStopped_cons _ _).mp ha
        exact (allStopped_cons _ _).mpr ⟨hx.1, this.2.2 hx.2⟩

theorem isReq_notPlay (op : Show.Op) (h : isReq op = true) : op.isPlay = false := by
  cases op <;> simp_all [isReq, Op.isPlay]

/-- a fresh instance played with `sync_ms` waits: not started, not stopped -/
theorem fresh_sync (durs : List Nat) (num den : Nat) (loops : Option Nat) (start : Int) (running manual : Bool)
    (sync t : Nat) (hs : sync ≠ 0) :
    (Show.step {} (.play durs num den loops start running manual sync t)).1.started = false ∧
    (Show.step {} (.play durs num den loops start running manual sync t)).1.stopped = false := by
  simp only [Show.step]
  have hstop : stop (setNow ({} : RS) t) = (setNow {} t, []) := by unfold stop; simp [setNow]
  rw [hstop]
  simp [startPlay, hs]

theorem playNew_good (c : Option (Nat × Option Nat × Nat)) (s : KS) (durs : List Nat) (num den : Nat) (loops : Option Nat)
    (start : Int) (running manual : Bool) (sync t : Nat) (h : Good s.insts) :
    Good (playNew c s durs num den loops start running manual sync t).1.insts := by
  have hf : Show.Inv (Show.step {} (.play durs num den loops start running manual sync t)).1 := step_inv _ _ init_inv
  simp only [playNew]
  cases hl : s.insts with
  | nil => exact (good_cons _ _).mpr ⟨hf, (by intro hh; cases hh), fun _ => by intro y hy; simp at hy, trivial⟩
  | cons x rest =>
    rw [hl] at h
    simp only
    by_cases hs : x.rs.stopped = true
    · rw [if_pos hs]
      refine (good_cons _ _).mpr ⟨hf, (by intro hh; cases hh), fun _ => ?_, h⟩
      exact (allStopped_cons _ _).mpr ⟨hs, (good_stopped_head x rest h hs).2⟩
    · rw [if_neg hs]
      by_cases hsync : sync ≠ 0
      · rw [if_pos hsync]
        have ff := fresh_sync durs num den loops start running manual sync t hsync
        exact (good_cons _ _).mpr ⟨hf, fun _ => ⟨ff.1, ff.2, by simp, by simp⟩, (by intro hh; cases hh), h⟩
      · rw [if_neg hsync]
        have := stopFrom_good (x :: rest) h
        exact (good_cons _ _).mpr ⟨hf, (by intro hh; cases hh), fun _ => this.2.1, this.1⟩

theorem reqStep_good (s : KS) (op : Show.Op) (h : Good s.insts) : Good (reqStep s op).1.insts := by
  simp only [reqStep]
  by_cases hr : isReq op = true
  · rw [if_pos hr]; exact (stepAt_good _ op (isReq_notPlay op hr) s.insts h).1
  · rw [if_neg hr]; exact h

theorem step_good (s : KS) (o : KOp) (h : Good s.insts) : Good (step s o).1.insts := by
  cases o with
  | play durs num den loops start running manual sync t => exact playNew_good _ s _ _ _ _ _ _ _ _ _ h
  | req op => exact reqStep_good s op h
  | fire i t =>
    simp only [step]
    exact (stepAt_good i (.fire t) rfl s.insts h).1
  | playc cid durs num den loops start running manual sync t =>
    simp only [step]
    split
    · exact playNew_good _ s _ _ _ _ _ _ _ _ _ h
    · split
      · exact h
      · exact reqStep_good s _ h
      · exact playNew_good _ s _ _ _ _ _ _ _ _ _ h

theorem run_good (ops : List KOp) : ∀ s, Good s.insts → Good (run s ops).1.insts := by
  induction ops with
  | nil => intro s h; exact h
  | cons o r ih => intro s h; simp only [run]; exact ih _ (step_good s o h)

theorem run_append (a b : List KOp) : ∀ s, run s (a ++ b) = ((run (run s a).1 b).1, (run s a).2 ++ (run (run s a).1 b).2) := by
  induction a with
  | nil => intro s; simp [run]
  | cons o r ih => intro s; simp only [List.cons_append, run, ih, List.append_assoc]

/-! ### a key that is not in the dict has no running newest instance -/

/-- a show instance is in the show player's dict (`known`) or stopped: `stop` is the only request that removes it -/
def KnownInv (s : RS) : Prop := s.stopped = true ∨ s.known = true

theorem playStep_known (s : RS) (idx : Nat) (evs : List Ev) (pa : Bool) : (playStep s idx evs pa).1.known = s.known := by
  unfold playStep; dsimp only; split <;> rfl

theorem stop_known (s : RS) : (stop s).1.known = s.known := by
  unfold stop; split
  · rfl
  · exact cancel_known _

theorem runNext_known (s : RS) (post : List Ev) (pa : Bool) : (runNext s post pa).1.known = s.known := by
  unfold runNext
  split
  · rfl
  · simp only
    generalize (if s.nextIdx < 0 then s.nextIdx % (s.durs.length : Int) else s.nextIdx) = idx0
    by_cases hw : idx0 ≥ (s.durs.length : Int)
    · rw [if_pos hw]
      split
      · exact playStep_known _ _ _ _
      · exact playStep_known { s with loops := some _ } _ _ _
      · exact stop_known s
    · rw [if_neg hw]; exact playStep_known _ _ _ _

theorem reqBody_known (s : RS) (ev : Ev) (back : Bool) : (reqBody s ev back).1.known = s.known := by
  unfold reqBody
  split
  · rfl
  split
  · exact runNext_known _ _ _
  · exact runNext_known _ _ _

theorem timerBody_known (s : RS) : (timerBody s).1.known = s.known := by
  unfold timerBody
  split
  · rfl
  split
  · exact runNext_known _ _ _
  · exact runNext_known _ _ _

theorem step_knownInv (s : RS) (o : Show.Op) (h : KnownInv s) : KnownInv (Show.step s o).1 := by
  by_cases hp : o.isPlay = true
  · cases o with
    | play durs num den loops start running manual sync t =>
      right
      simp only [Show.step, startPlay]
      split
      · rw [runNext_known]
      · rfl
    | _ => simp [Op.isPlay] at hp
  · have hp' : o.isPlay = false := by simpa using hp
    rcases h with hs | hk
    · exact Or.inl (step_after_stop s o hs hp').1
    · cases o with
      | play durs num den loops start running manual sync t => simp [Op.isPlay] at hp
      | stop t =>
        left
        simp only [Show.step, ctl, setNow, hk, if_true]
        exact stop_stopped _
      | pause t => right; simp only [Show.step, ctl, hk, if_true]; rw [cancel_known]; exact hk
      | resume t => right; simp only [Show.step, ctl, hk, if_true]; rw [reqBody_known, cancel_known]; exact hk
      | advance t => right; simp only [Show.step, ctl, hk, if_true]; rw [reqBody_known, cancel_known]; exact hk
      | back t => right; simp only [Show.step, ctl, hk, if_true]; rw [reqBody_known, cancel_known]; exact hk
      | speed num den t => right; simp only [Show.step, ctl, hk, if_true]; exact hk
      | fire t =>
        right
        simp only [Show.step]
        split
        · exact hk
        · rw [timerBody_known]; exact hk

/-- a stop request leaves the instance it reaches stopped — and an instance it does not reach (not in the dict) is -/
theorem stop_req_stops (s : RS) (t : Nat) (h : KnownInv s) : (Show.step s (.stop t)).1.stopped = true := by
  simp only [Show.step, ctl]
  split
  · exact stop_stopped _
  · rename_i hk
    rcases h with hs | hk'
    · exact hs
    · exact absurd hk' hk

def KnownAll (l : List Inst) : Prop := ∀ y ∈ l, KnownInv y.rs

theorem stopFrom_known : ∀ (l : List Inst), KnownAll l → KnownAll (stopFrom l).1 := by
  intro l
  induction l with
  | nil => intro h; exact h
  | cons x rest ih =>
    intro h
    have ht : KnownAll rest := fun y hy => h y (List.mem_cons_of_mem _ hy)
    unfold stopFrom
    split
    · exact h
    · split
      · intro y hy
        rcases List.mem_cons.mp hy with rfl | hy
        · exact Or.inl (stop_stopped _)
        · exact ih ht y hy
      · intro y hy
        rcases List.mem_cons.mp hy with rfl | hy
        · exact Or.inl (stop_stopped _)
        · exact ht y hy

theorem settle_known (x : Inst) (rest : List Inst) (r : RS × List Obs) (h : KnownAll rest) (hr : KnownInv r.1) :
    KnownAll (settle x rest r).1 := by
  unfold settle
  split
  · intro y hy
    rcases List.mem_cons.mp hy with rfl | hy
    · exact hr
    · exact stopFrom_known rest h y hy
  · intro y hy
    rcases List.mem_cons.mp hy with rfl | hy
    · exact hr
    · exact h y hy

theorem stepAt_known (i : Nat) (op : Show.Op) : ∀ (l : List Inst), KnownAll l → KnownAll (stepAt i op l).1 := by
  intro l
  induction l with
  | nil => intro h; exact h
  | cons x rest ih =>
    intro h
    have ht : KnownAll rest := fun y hy => h y (List.mem_cons_of_mem _ hy)
    unfold stepAt
    split
    · exact settle_known x rest _ ht (step_knownInv x.rs op (h x List.mem_cons_self))
    · intro y hy
      rcases List.mem_cons.mp hy with rfl | hy
      · exact h _ List.mem_cons_self
      · exact ih ht y hy

theorem playNew_known (c : Option (Nat × Option Nat × Nat)) (s : KS) (durs : List Nat) (num den : Nat) (loops : Option Nat)
    (start : Int) (running manual : Bool) (sync t : Nat) (h : KnownAll s.insts) :
    KnownAll (playNew c s durs num den loops start running manual sync t).1.insts := by
  have hf : KnownInv (Show.step {} (.play durs num den loops start running manual sync t)).1 :=
    step_knownInv _ _ (Or.inl rfl)
  simp only [playNew]
  cases hl : s.insts with
  | nil => intro y hy; simp only [List.mem_singleton] at hy; subst hy; exact hf
  | cons x rest =>
    rw [hl] at h
    simp only
    split
    · intro y hy
      rcases List.mem_cons.mp hy with rfl | hy
      · exact hf
      · exact h y hy
    · split
      · intro y hy
        rcases List.mem_cons.mp hy with rfl | hy
        · exact hf
        · exact h y hy
      · intro y hy
        rcases List.mem_cons.mp hy with rfl | hy
        · exact hf
        · exact stopFrom_known _ h y hy

theorem reqStep_known (s : KS) (op : Show.Op) (h : KnownAll s.insts) : KnownAll (reqStep s op).1.insts := by
  simp only [reqStep]
  split
  · exact stepAt_known _ op s.insts h
  · exact h

theorem step_known (s : KS) (o : KOp) (h : KnownAll s.insts) : KnownAll (step s o).1.insts := by
  cases o with
  | play durs num den loops start running manual sync t => exact playNew_known _ s _ _ _ _ _ _ _ _ _ h
  | req op => exact reqStep_known s op h
  | fire i t => simp only [step]; exact stepAt_known i _ s.insts h
  | playc cid durs num den loops start running manual sync t =>
    simp only [step]
    split
    · exact playNew_known _ s _ _ _ _ _ _ _ _ _ h
    · split
      · exact h
      · exact reqStep_known s _ h
      · exact playNew_known _ s _ _ _ _ _ _ _ _ _ h

theorem run_known (ops : List KOp) : ∀ s, KnownAll s.insts → KnownAll (run s ops).1.insts := by
  induction ops with
  | nil => intro s h; exact h
  | cons o r ih => intro s h; simp only [run]; exact ih _ (step_known s o h)

/-- the head of the list after a request for the key -/
theorem stepAt_head (op : Show.Op) (x : Inst) (rest : List Inst) :
    ∃ y rest', (stepAt ((x :: rest).length - 1) op (x :: rest)).1 = y :: rest' ∧ y.rs = (Show.step x.rs op).1 := by
  unfold stepAt
  rw [if_pos (by simp)]
  unfold settle
  split
  · exact ⟨_, _, rfl, rfl⟩
  · exact ⟨_, _, rfl, rfl⟩

end MpfVerif.ShowKey
