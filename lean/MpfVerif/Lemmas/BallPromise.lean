import MpfVerif.Model.BallPromise
/-! Helper lemmas for the promise ledger (C05). -/
namespace MpfVerif.BallPromise

theorem total_append (l : List Nat) (k : Nat) : total (l ++ [k]) = total l + k := by
  induction l with
  | nil => simp [total]
  | cons x r ih => simp only [List.cons_append, total, ih]; omega

theorem total_removeFirst (k : Nat) (l r : List Nat) (h : removeFirst k l = some r) : total l = total r + k := by
  induction l generalizing r with
  | nil => simp [removeFirst] at h
  | cons x t ih =>
    simp only [removeFirst] at h
    split at h
    · rename_i hx
      cases h
      simp only [total]; omega
    · split at h
      · rename_i r' hr
        cases h
        have := ih r' hr
        simp only [total]; omega
      · cases h

theorem removeFirst_head (k : Nat) (r : List Nat) : removeFirst k (k :: r) = some r := by
  simp [removeFirst]

/-- the invariant: every announced ball has been requested from the playfield or sits in a pending delay -/
def Inv (s : St) : Prop := s.promised + s.over = s.requested + total s.pending

theorem step_inv (s s' : St) (o : Op) (hi : Inv s) (h : step s o = some s') : Inv s' := by
  unfold Inv at *
  cases o with
  | promise k => simp only [step, Option.some.injEq] at h; subst h; simp only; omega
  | save k =>
    simp only [step] at h
    split at h
    · simp only [Option.some.injEq] at h; subst h; simp only; omega
    · simp only [Option.some.injEq] at h; subst h; simp only [total_append]; omega
  | fire k =>
    simp only [step] at h
    split at h
    · rename_i r hr
      simp only [Option.some.injEq] at h; subst h
      have := total_removeFirst k s.pending r hr
      simp only; omega
    · cases h
  | overask k => simp only [step, Option.some.injEq] at h; subst h; simp only; omega
  | deliver => simp only [step, Option.some.injEq] at h; subst h; simpa using hi

theorem run_inv (ops : List Op) (s s' : St) (hi : Inv s) (h : run s ops = some s') : Inv s' := by
  induction ops generalizing s with
  | nil => simp only [run, Option.some.injEq] at h; subst h; exact hi
  | cons o r ih =>
    simp only [run] at h
    split at h
    · rename_i s1 h1
      exact ih s1 (step_inv s s1 o hi h1) h
    · cases h

end MpfVerif.BallPromise
