import MpfVerif.Model.Template
/-! Helper lemmas for C16 (templates). -/
namespace MpfVerif.Template

/-- every location in the read log has its subscription in the list -/
def Covered (r : Res) : Prop := ∀ l ∈ r.reads, Sub.loc l ∈ r.subs

theorem access_covered (env : Env) (v : Val) (a : String) (subs : List Sub) (reads : List Loc)
    (h : ∀ l ∈ reads, Sub.loc l ∈ subs) : Covered (access true env v a subs reads) := by
  unfold access Covered
  split
  · split
    · intro l hl; simp at hl ⊢; first | exact Or.inl (h l hl) | exact h l hl
    · split
      · exact h
      · split <;>
        · intro l hl
          simp only [List.mem_append, List.mem_singleton] at hl
          simp only [if_true, List.mem_append, List.mem_singleton]
          rcases hl with hl | hl
          · exact Or.inl (h l hl)
          · subst hl; exact Or.inr rfl
  · exact h

theorem itemRes_covered (env : Env) (v vk : Val) (subs : List Sub) (reads : List Loc)
    (h : ∀ l ∈ reads, Sub.loc l ∈ subs) : Covered (itemRes true env v vk subs reads) := by
  unfold itemRes
  split
  · split
    · exact h
    · split
      · exact h
      · exact access_covered env _ _ _ _ h
  · split
    · exact access_covered env _ _ _ _ h
    · exact h
  · exact h
  · exact h

theorem covered_append (a b : Res) (o : Out) (ha : Covered a) (hb : Covered b) :
    Covered { out := o, subs := a.subs ++ b.subs, reads := a.reads ++ b.reads } := by
  intro l hl
  simp only [List.mem_append] at hl ⊢
  rcases hl with hl | hl
  · exact Or.inl (ha l hl)
  · exact Or.inr (hb l hl)

theorem covered_out (r : Res) (o : Out) (h : Covered r) : Covered { r with out := o } := h


/-! ### `eval` against Python -/

theorem ofPy_liftOp (sub : Bool) (r : Except OpErr Val) : ofPy sub (liftOp r) = ofExcept sub r := by
  cases r with
  | ok v => rfl
  | error e => cases e <;> rfl

theorem access_out (sub : Bool) (env : Env) (v : Val) (a : String) (subs : List Sub) (reads : List Loc) :
    (access sub env v a subs reads).out = ofPy sub (pyAccess env v a) := by
  unfold access pyAccess
  split
  · split
    · rfl
    · split
      · split <;> cases sub <;> rfl
      · split <;> rfl
  · rfl

theorem itemRes_out (sub : Bool) (env : Env) (v vk : Val) (subs : List Sub) (reads : List Loc) :
    (itemRes sub env v vk subs reads).out = ofPy sub (pyItem env v vk) := by
  unfold itemRes pyItem
  split
  · split
    · rfl
    · split
      · rfl
      · exact access_out sub env _ _ _ _
  · split
    · exact access_out sub env _ _ _ _
    · rfl
  · rfl
  · simp only [ofPy_liftOp]

/-- the outcome of the strict Python semantics as MPF shows it -/
theorem eval_out (sub : Bool) (env : Env) (e : Expr) : (eval sub env e).out = ofPy sub (py false sub env e) := by
  induction e with
  | const v => rfl
  | name n =>
    simp only [eval, py]
    split
    · rfl
    · split
      · cases sub <;> rfl
      · split
        · rfl
        · cases sub <;> rfl
  | unary op e ih =>
    simp only [eval, py]
    cases h : py false sub env e with
    | ok v => rw [h] at ih; simp only [ofPy] at ih; simp only [ih, ofPy_liftOp]
    | error x => rw [h] at ih; cases x <;> cases sub <;> simp only [ofPy, mapErr] at ih <;> simp [ih, ofPy, mapErr]
  | bin op a b iha ihb =>
    simp only [eval, py]
    cases h : py false sub env a with
    | ok va =>
      rw [h] at iha; simp only [ofPy] at iha; simp only [iha]
      cases h2 : py false sub env b with
      | ok vb => rw [h2] at ihb; simp only [ofPy] at ihb; simp only [ihb, ofPy_liftOp]
      | error x => rw [h2] at ihb; cases x <;> cases sub <;> simp only [ofPy, mapErr] at ihb <;> simp [ihb, ofPy, mapErr]
    | error x => rw [h] at iha; cases x <;> cases sub <;> simp only [ofPy, mapErr] at iha <;> simp [iha, ofPy, mapErr]
  | cmp op a b iha ihb =>
    simp only [eval, py]
    cases h : py false sub env a with
    | ok va =>
      rw [h] at iha; simp only [ofPy] at iha; simp only [iha]
      cases h2 : py false sub env b with
      | ok vb => rw [h2] at ihb; simp only [ofPy] at ihb; simp only [ihb, ofPy_liftOp]
      | error x => rw [h2] at ihb; cases x <;> cases sub <;> simp only [ofPy, mapErr] at ihb <;> simp [ihb, ofPy, mapErr]
    | error x => rw [h] at iha; cases x <;> cases sub <;> simp only [ofPy, mapErr] at iha <;> simp [iha, ofPy, mapErr]
  | boolop op a b iha ihb =>
    simp only [eval, py]
    cases h : py false sub env a with
    | ok va =>
      rw [h] at iha; simp only [ofPy] at iha; simp only [iha, Bool.false_and, Bool.false_eq_true, if_false]
      cases h2 : py false sub env b with
      | ok vb => rw [h2] at ihb; simp only [ofPy] at ihb; simp only [ihb, ofPy_liftOp]
      | error x => rw [h2] at ihb; cases x <;> cases sub <;> simp only [ofPy, mapErr] at ihb <;> simp [ihb, ofPy, mapErr]
    | error x => rw [h] at iha; cases x <;> cases sub <;> simp only [ofPy, mapErr] at iha <;> simp [iha, ofPy, mapErr]
  | ite c a b ihc iha ihb =>
    simp only [eval, py]
    cases h : py false sub env c with
    | ok vc =>
      rw [h] at ihc; simp only [ofPy] at ihc; simp only [ihc]
      cases ht : truthy vc <;> simp [iha, ihb]
    | error x => rw [h] at ihc; cases x <;> cases sub <;> simp only [ofPy, mapErr] at ihc <;> simp [ihc, ofPy, mapErr]
  | tnil => rfl
  | tcons hd t ihh iht =>
    simp only [eval, py]
    cases h : py false sub env hd with
    | ok vh =>
      rw [h] at ihh; simp only [ofPy] at ihh; simp only [ihh]
      cases h2 : py false sub env t with
      | ok vt => rw [h2] at iht; simp only [ofPy] at iht; simp only [iht, ofPy]
      | error x => rw [h2] at iht; cases x <;> cases sub <;> simp only [ofPy, mapErr] at iht <;> simp [iht, ofPy, mapErr]
    | error x => rw [h] at ihh; cases x <;> cases sub <;> simp only [ofPy, mapErr] at ihh <;> simp [ihh, ofPy, mapErr]
  | attr e a ih =>
    simp only [eval, py]
    cases h : py false sub env e with
    | ok v =>
      rw [h] at ih; simp only [ofPy] at ih; simp only [ih]
      cases ht : truthy v
      · cases sub <;> simp [ofPy, mapErr]
      · by_cases hp : v = .obj "players" []
        · simp [hp, ofPy, mapErr]
        · simp [hp, access_out]
    | error x => rw [h] at ih; cases x <;> cases sub <;> simp only [ofPy, mapErr] at ih <;> simp [ih, ofPy, mapErr]
  | slice a b iha ihb =>
    simp only [eval, py]
    cases h : py false sub env a with
    | ok va =>
      rw [h] at iha; simp only [ofPy] at iha; simp only [iha]
      cases h2 : py false sub env b with
      | ok vb => rw [h2] at ihb; simp only [ofPy] at ihb; simp only [ihb, ofPy_liftOp]
      | error x => rw [h2] at ihb; cases x <;> cases sub <;> simp only [ofPy, mapErr] at ihb <;> simp [ihb, ofPy, mapErr]
    | error x => rw [h] at iha; cases x <;> cases sub <;> simp only [ofPy, mapErr] at iha <;> simp [iha, ofPy, mapErr]
  | item e k ihe ihk =>
    simp only [eval, py]
    cases h : py false sub env e with
    | ok v =>
      rw [h] at ihe; simp only [ofPy] at ihe; simp only [ihe]
      cases h2 : py false sub env k with
      | ok vk =>
        rw [h2] at ihk; simp only [ofPy] at ihk; simp only [ihk]
        exact itemRes_out sub env _ _ _ _
      | error x => rw [h2] at ihk; cases x <;> cases sub <;> simp only [ofPy, mapErr] at ihk <;> simp [ihk, ofPy, mapErr]
    | error x => rw [h] at ihe; cases x <;> cases sub <;> simp only [ofPy, mapErr] at ihe <;> simp [ihe, ofPy, mapErr]


/-! ### strict evaluation of `and` / `or` against Python's short-circuit -/

theorem liftOp_ok {r : Except OpErr Val} {v : Val} (h : liftOp r = .ok v) : r = .ok v := by
  cases r with
  | ok w => simpa [liftOp] using h
  | error e => simp [liftOp] at h

/-- when the left operand already decides, folding both operands gives the left operand -/
theorem and_short (va vb : Val) (h : truthy va = false) :
    viaTable boolTable "And" (fun fn => applyBool fn va vb) = .ok va := by
  simp [viaTable, lookup, boolTable, applyBool, h]

theorem or_short (va vb : Val) (h : truthy va = true) :
    viaTable boolTable "Or" (fun fn => applyBool fn va vb) = .ok va := by
  simp [viaTable, lookup, boolTable, applyBool, h]

theorem strict_to_lazy (rej : Bool) (env : Env) (e : Expr) : ∀ v, py false rej env e = .ok v → py true rej env e = .ok v := by
  induction e with
  | const w => intro v h; exact h
  | name n => intro v h; exact h
  | unary op e ih =>
    intro v h
    simp only [py] at h ⊢
    cases h1 : py false rej env e with
    | ok w => rw [h1] at h; rw [ih w h1]; exact h
    | error x => rw [h1] at h; simp at h
  | bin op a b iha ihb =>
    intro v h
    simp only [py] at h ⊢
    cases h1 : py false rej env a with
    | ok va =>
      rw [h1] at h; rw [iha va h1]
      cases h2 : py false rej env b with
      | ok vb => rw [h2] at h; rw [ihb vb h2]; exact h
      | error x => rw [h2] at h; simp at h
    | error x => rw [h1] at h; simp at h
  | slice a b iha ihb =>
    intro v h
    simp only [py] at h ⊢
    cases h1 : py false rej env a with
    | ok va =>
      rw [h1] at h; rw [iha va h1]
      cases h2 : py false rej env b with
      | ok vb => rw [h2] at h; rw [ihb vb h2]; exact h
      | error x => rw [h2] at h; simp at h
    | error x => rw [h1] at h; simp at h
  | cmp op a b iha ihb =>
    intro v h
    simp only [py] at h ⊢
    cases h1 : py false rej env a with
    | ok va =>
      rw [h1] at h; rw [iha va h1]
      cases h2 : py false rej env b with
      | ok vb => rw [h2] at h; rw [ihb vb h2]; exact h
      | error x => rw [h2] at h; simp at h
    | error x => rw [h1] at h; simp at h
  | boolop op a b iha ihb =>
    intro v h
    simp only [py] at h ⊢
    cases h1 : py false rej env a with
    | ok va =>
      rw [h1] at h; rw [iha va h1]
      simp only [Bool.false_and, Bool.false_eq_true, if_false] at h
      cases h2 : py false rej env b with
      | ok vb =>
        rw [h2] at h
        have hv := liftOp_ok h
        simp only [Bool.true_and]
        split
        · rename_i hc
          simp only [Bool.or_eq_true, Bool.and_eq_true, decide_eq_true_eq, Bool.not_eq_true'] at hc
          rcases hc with ⟨ho, ht⟩ | ⟨ho, ht⟩
          · subst ho; rw [and_short va vb ht] at hv; rw [Except.ok.inj hv]
          · subst ho; rw [or_short va vb ht] at hv; rw [Except.ok.inj hv]
        · rw [ihb vb h2]; exact h
      | error x => rw [h2] at h; simp at h
    | error x => rw [h1] at h; simp at h
  | ite c a b ihc iha ihb =>
    intro v h
    simp only [py] at h ⊢
    cases h1 : py false rej env c with
    | ok vc =>
      rw [h1] at h; rw [ihc vc h1]
      cases ht : truthy vc
      · simp only [ht, Bool.false_eq_true, if_false] at h ⊢; exact ihb v h
      · simp only [ht, if_true] at h ⊢; exact iha v h
    | error x => rw [h1] at h; simp at h
  | tnil => intro v h; exact h
  | tcons hd t ihh iht =>
    intro v h
    simp only [py] at h ⊢
    cases h1 : py false rej env hd with
    | ok vh =>
      rw [h1] at h; rw [ihh vh h1]
      cases h2 : py false rej env t with
      | ok vt => rw [h2] at h; rw [iht vt h2]; exact h
      | error x => rw [h2] at h; simp at h
    | error x => rw [h1] at h; simp at h
  | attr e a ih =>
    intro v h
    simp only [py] at h ⊢
    cases h1 : py false rej env e with
    | ok w => rw [h1] at h; rw [ih w h1]; exact h
    | error x => rw [h1] at h; simp at h
  | item e k ihe ihk =>
    intro v h
    simp only [py] at h ⊢
    cases h1 : py false rej env e with
    | ok w =>
      rw [h1] at h; rw [ihe w h1]
      cases h2 : py false rej env k with
      | ok vk => rw [h2] at h; rw [ihk vk h2]; exact h
      | error x => rw [h2] at h; simp at h
    | error x => rw [h1] at h; simp at h


/-! ### freshness: the result depends only on the subscribed locations -/

/-- `env'` has the same parameters and the same placeholder objects as `env`, and the same value (or the same absence) at
every location subscribed in `subs` -/
def Agree (env env' : Env) (subs : List Sub) : Prop :=
  env'.params = env.params ∧ env'.objs = env.objs ∧ ∀ l, Sub.loc l ∈ subs → env'.look l = env.look l

theorem Agree.mono {env env' : Env} {S T : List Sub} (h : Agree env env' T) (hs : S ⊆ T) : Agree env env' S :=
  ⟨h.1, h.2.1, fun l hl => h.2.2 l (hs hl)⟩

theorem access_subs (s : Bool) (env : Env) (v : Val) (a : String) (subs : List Sub) (reads : List Loc) :
    subs ⊆ (access s env v a subs reads).subs := by
  unfold access
  split
  · split
    · simp
    · split
      · simp
      · split <;> simp
  · simp

theorem itemRes_subs (s : Bool) (env : Env) (v vk : Val) (subs : List Sub) (reads : List Loc) :
    subs ⊆ (itemRes s env v vk subs reads).subs := by
  unfold itemRes
  split
  · split
    · simp
    · split
      · simp
      · exact access_subs _ _ _ _ _ _
  · split
    · exact access_subs _ _ _ _ _ _
    · simp
  · simp
  · simp

theorem access_fresh (env env' : Env) (v : Val) (a : String) (subs : List Sub) (reads : List Loc)
    (h : Agree env env' (access true env v a subs reads).subs) :
    access true env' v a subs reads = access true env v a subs reads := by
  unfold access at h ⊢
  split
  · rename_i r p
    rw [h.2.1]
    by_cases h1 : (r, p ++ [a]) ∈ env.objs ∨ (r = "players" ∧ p = [])
    · simp only [h1, if_true]
    · simp only [h1, if_false] at h ⊢
      by_cases h2 : p.length < depth r
      · simp only [h2, if_true]
      · simp only [h2, if_false] at h ⊢
        have hl : env'.look (r, p ++ [a]) = env.look (r, p ++ [a]) := by
          apply h.2.2
          cases hx : env.look (r, p ++ [a]) <;> simp
        rw [hl]
  · rfl

theorem itemRes_fresh (env env' : Env) (v vk : Val) (subs : List Sub) (reads : List Loc)
    (h : Agree env env' (itemRes true env v vk subs reads).subs) :
    itemRes true env' v vk subs reads = itemRes true env v vk subs reads := by
  unfold itemRes at h ⊢
  split
  · split
    · rfl
    · split
      · rfl
      · rename_i h1 h2
        simp only [h1, h2, if_false] at h
        exact access_fresh _ _ _ _ _ _ h
  · split
    · rename_i h1
      obtain ⟨rfl, rfl⟩ := h1
      simp only [and_self, if_true] at h
      exact access_fresh _ _ _ _ _ _ h
    · rfl
  · rfl
  · rfl

theorem subs_unary (s : Bool) (env : Env) (op : String) (e : Expr) :
    (eval s env e).subs ⊆ (eval s env (.unary op e)).subs := by
  simp only [eval]; split <;> simp

theorem subs_bin_l (s : Bool) (env : Env) (op : String) (a b : Expr) :
    (eval s env a).subs ⊆ (eval s env (.bin op a b)).subs := by
  simp only [eval]; split
  · split <;> simp
  · simp

theorem subs_bin_r (s : Bool) (env : Env) (op : String) (a b : Expr) (va : Val) (h : (eval s env a).out = .ok va) :
    (eval s env b).subs ⊆ (eval s env (.bin op a b)).subs := by
  simp only [eval, h]; split <;> simp

theorem subs_slice_l (s : Bool) (env : Env) (a b : Expr) :
    (eval s env a).subs ⊆ (eval s env (.slice a b)).subs := by
  simp only [eval]; split
  · split <;> simp
  · simp

theorem subs_slice_r (s : Bool) (env : Env) (a b : Expr) (va : Val) (h : (eval s env a).out = .ok va) :
    (eval s env b).subs ⊆ (eval s env (.slice a b)).subs := by
  simp only [eval, h]; split <;> simp

theorem subs_cmp_l (s : Bool) (env : Env) (op : String) (a b : Expr) :
    (eval s env a).subs ⊆ (eval s env (.cmp op a b)).subs := by
  simp only [eval]; split
  · split <;> simp
  · simp

theorem subs_cmp_r (s : Bool) (env : Env) (op : String) (a b : Expr) (va : Val) (h : (eval s env a).out = .ok va) :
    (eval s env b).subs ⊆ (eval s env (.cmp op a b)).subs := by
  simp only [eval, h]; split <;> simp

theorem subs_bool_l (s : Bool) (env : Env) (op : String) (a b : Expr) :
    (eval s env a).subs ⊆ (eval s env (.boolop op a b)).subs := by
  simp only [eval]; split
  · split <;> simp
  · simp

theorem subs_bool_r (s : Bool) (env : Env) (op : String) (a b : Expr) (va : Val) (h : (eval s env a).out = .ok va) :
    (eval s env b).subs ⊆ (eval s env (.boolop op a b)).subs := by
  simp only [eval, h]; split <;> simp

theorem subs_tcons_l (s : Bool) (env : Env) (a b : Expr) :
    (eval s env a).subs ⊆ (eval s env (.tcons a b)).subs := by
  simp only [eval]; split
  · split <;> simp
  · simp

theorem subs_tcons_r (s : Bool) (env : Env) (a b : Expr) (va : Val) (h : (eval s env a).out = .ok va) :
    (eval s env b).subs ⊆ (eval s env (.tcons a b)).subs := by
  simp only [eval, h]; split <;> simp

theorem subs_ite_c (s : Bool) (env : Env) (c a b : Expr) :
    (eval s env c).subs ⊆ (eval s env (.ite c a b)).subs := by
  simp only [eval]; split <;> simp

theorem subs_ite_a (s : Bool) (env : Env) (c a b : Expr) (vc : Val) (h : (eval s env c).out = .ok vc)
    (ht : truthy vc = true) : (eval s env a).subs ⊆ (eval s env (.ite c a b)).subs := by
  simp [eval, h, ht]

theorem subs_ite_b (s : Bool) (env : Env) (c a b : Expr) (vc : Val) (h : (eval s env c).out = .ok vc)
    (ht : truthy vc = false) : (eval s env b).subs ⊆ (eval s env (.ite c a b)).subs := by
  simp [eval, h, ht]

theorem subs_attr (s : Bool) (env : Env) (e : Expr) (a : String) :
    (eval s env e).subs ⊆ (eval s env (.attr e a)).subs := by
  simp only [eval]; split
  · split
    · simp
    · split
      · simp
      · exact access_subs _ _ _ _ _ _
  · simp

theorem subs_item_l (s : Bool) (env : Env) (e k : Expr) :
    (eval s env e).subs ⊆ (eval s env (.item e k)).subs := by
  simp only [eval]; split
  · split
    · exact fun x hx => itemRes_subs _ _ _ _ _ _ (List.mem_append_left _ hx)
    · simp
  · simp

theorem subs_item_r (s : Bool) (env : Env) (e k : Expr) (v : Val) (h : (eval s env e).out = .ok v) :
    (eval s env k).subs ⊆ (eval s env (.item e k)).subs := by
  simp only [eval, h]; split
  · exact fun x hx => itemRes_subs _ _ _ _ _ _ (List.mem_append_right _ hx)
  · simp


theorem fresh_eval (env env' : Env) (e : Expr) :
    Agree env env' (eval true env e).subs → eval true env' e = eval true env e := by
  induction e with
  | const v => intro _; rfl
  | name n => intro h; simp only [eval, h.1, h.2.1]
  | unary op e ih =>
    intro h
    have ee := ih (h.mono (subs_unary _ _ _ _))
    simp only [eval, ee]
  | bin op a b iha ihb =>
    intro h
    have ea := iha (h.mono (subs_bin_l _ _ _ _ _))
    simp only [eval, ea]
    cases hao : (eval true env a).out with
    | ok va => have eb := ihb (h.mono (subs_bin_r _ _ _ _ _ va hao)); simp only [eb]
    | default => rfl
    | crash => rfl
    | unmodelled => rfl
  | slice a b iha ihb =>
    intro h
    have ea := iha (h.mono (subs_slice_l _ _ _ _))
    simp only [eval, ea]
    cases hao : (eval true env a).out with
    | ok va => have eb := ihb (h.mono (subs_slice_r _ _ _ _ va hao)); simp only [eb]
    | default => rfl
    | crash => rfl
    | unmodelled => rfl
  | cmp op a b iha ihb =>
    intro h
    have ea := iha (h.mono (subs_cmp_l _ _ _ _ _))
    simp only [eval, ea]
    cases hao : (eval true env a).out with
    | ok va => have eb := ihb (h.mono (subs_cmp_r _ _ _ _ _ va hao)); simp only [eb]
    | default => rfl
    | crash => rfl
    | unmodelled => rfl
  | boolop op a b iha ihb =>
    intro h
    have ea := iha (h.mono (subs_bool_l _ _ _ _ _))
    simp only [eval, ea]
    cases hao : (eval true env a).out with
    | ok va => have eb := ihb (h.mono (subs_bool_r _ _ _ _ _ va hao)); simp only [eb]
    | default => rfl
    | crash => rfl
    | unmodelled => rfl
  | ite c a b ihc iha ihb =>
    intro h
    have ec := ihc (h.mono (subs_ite_c _ _ _ _ _))
    simp only [eval, ec]
    cases hco : (eval true env c).out with
    | ok vc =>
      cases ht : truthy vc
      · have eb := ihb (h.mono (subs_ite_b _ _ _ _ _ vc hco ht)); simp only [ht, Bool.false_eq_true, if_false, eb]
      · have ea := iha (h.mono (subs_ite_a _ _ _ _ _ vc hco ht)); simp only [ht, if_true, ea]
    | default => rfl
    | crash => rfl
    | unmodelled => rfl
  | tnil => intro _; rfl
  | tcons a b iha ihb =>
    intro h
    have ea := iha (h.mono (subs_tcons_l _ _ _ _))
    simp only [eval, ea]
    cases hao : (eval true env a).out with
    | ok va => have eb := ihb (h.mono (subs_tcons_r _ _ _ _ va hao)); simp only [eb]
    | default => rfl
    | crash => rfl
    | unmodelled => rfl
  | attr e a ih =>
    intro h
    have ee := ih (h.mono (subs_attr _ _ _ _))
    simp only [eval, ee]
    cases heo : (eval true env e).out with
    | ok v =>
      dsimp only
      cases ht : truthy v
      · rfl
      · simp only [Bool.true_eq_false, if_false]
        by_cases hp : v = .obj "players" []
        · simp only [hp, if_true]
        · simp only [hp, if_false]
          apply access_fresh
          simpa [eval, heo, ht, hp] using h
    | default => rfl
    | crash => rfl
    | unmodelled => rfl
  | item e k ihe ihk =>
    intro h
    have ee := ihe (h.mono (subs_item_l _ _ _ _))
    simp only [eval, ee]
    cases heo : (eval true env e).out with
    | ok v =>
      have ek := ihk (h.mono (subs_item_r _ _ _ _ v heo))
      simp only [ek]
      cases hko : (eval true env k).out with
      | ok vk =>
        simp only [eval, heo, hko] at h
        exact itemRes_fresh _ _ _ _ _ _ h
      | default => rfl
      | crash => rfl
      | unmodelled => rfl
    | default => rfl
    | crash => rfl
    | unmodelled => rfl

/-! ### text templates -/

theorem textEval_covered (f : Expr → Res) (hf : ∀ e, Covered (f e)) (ps : List Piece) : Covered (textEval f ps) := by
  induction ps with
  | nil => intro l hl; simp [textEval] at hl
  | cons p ps ih =>
    cases p with
    | lit s => simp only [textEval]; exact covered_out _ _ ih
    | fld e spec =>
      simp only [textEval]
      split
      · exact covered_append _ _ _ (hf e) ih
      · exact covered_out _ _ (hf e)

theorem textEval_out (sub : Bool) (env : Env) (ps : List Piece) :
    (textEval (eval sub env) ps).out = textPy sub env ps := by
  induction ps with
  | nil => rfl
  | cons p ps ih =>
    cases p with
    | lit s => simp only [textEval, textPy, ih]
    | fld e spec =>
      simp only [textEval, textPy, eval_out]
      split <;> rename_i h <;> simp [h, ih]

theorem subs_text_fld_l (f : Expr → Res) (e : Expr) (spec : String) (ps : List Piece) :
    (f e).subs ⊆ (textEval f (.fld e spec :: ps)).subs := by
  simp only [textEval]; split <;> simp

theorem subs_text_fld_r (f : Expr → Res) (e : Expr) (spec : String) (ps : List Piece) (s : String)
    (h : fieldOut (f e).out spec = .ok (.str s)) : (textEval f ps).subs ⊆ (textEval f (.fld e spec :: ps)).subs := by
  simp [textEval, h]

theorem fresh_text (env env' : Env) (ps : List Piece) :
    Agree env env' (textEval (eval true env) ps).subs → textEval (eval true env') ps = textEval (eval true env) ps := by
  induction ps with
  | nil => intro _; rfl
  | cons p ps ih =>
    cases p with
    | lit s =>
      intro h
      have := ih (by simpa [textEval] using h)
      simp only [textEval, this]
    | fld e spec =>
      intro h
      have ee := fresh_eval env env' e (h.mono (subs_text_fld_l _ _ _ _))
      simp only [textEval, ee]
      split
      · rename_i s hs
        have := ih (h.mono (subs_text_fld_r _ _ _ _ s hs))
        simp only [this]
      · rfl

end MpfVerif.Template
