import MpfVerif.Model.Template
/-! Helper lemmas for C16 (templates). -/
namespace MpfVerif.Template

/-- every location in the read log has its subscription in the list -/
def Covered (r : Res) : Prop := ∀ l ∈ r.reads, Sub.loc l ∈ r.subs

theorem access_covered (env : Env) (v : Val) (a : String) (subs : List Sub) (reads : List Loc)
    (h : ∀ l ∈ reads, Sub.loc l ∈ subs) : Covered (access true env v a subs reads) := by
  unfold access Covered
  split
  · split
    · intro l hl; simp at hl ⊢; first | exact Or.inl (h l hl) | exact h l hl
    · intro l hl
      simp only [List.mem_append, List.mem_singleton] at hl
      simp only [if_true, List.mem_append, List.mem_singleton]
      rcases hl with hl | hl
      · exact Or.inl (h l hl)
      · subst hl; exact Or.inr rfl
  · exact h

theorem covered_append (a b : Res) (o : Out) (ha : Covered a) (hb : Covered b) :
    Covered { out := o, subs := a.subs ++ b.subs, reads := a.reads ++ b.reads } := by
  intro l hl
  simp only [List.mem_append] at hl ⊢
  rcases hl with hl | hl
  · exact Or.inl (ha l hl)
  · exact Or.inr (hb l hl)

theorem covered_out (r : Res) (o : Out) (h : Covered r) : Covered { r with out := o } := h

end MpfVerif.Template
