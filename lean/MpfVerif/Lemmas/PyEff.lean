import MpfVerif.Model.PyEff
/-! The frame property of the effectful interpreter: running from a log `log` is running from the empty log and prepending `log`. -/
namespace MpfVerif.Py

mutual
theorem execES_frame (c : Ctx) (ora : Oracle) : ∀ (s : ESt) (l : Locals) (log : List Eff),
    execES c ora l log s = (log ++ (execES c ora l [] s).1, (execES c ora l [] s).2)
  | .assign n e, l, log => by
    simp only [execES]; cases evalA c l e <;> simp
  | .ifThen cd b e, l, log => by
    simp only [execES]
    cases h : evalC c l cd with
    | error x => simp
    | ok v =>
      cases v
      · exact execEL_frame c ora e l log
      · exact execEL_frame c ora b l log
  | .raise e, l, log => by simp [execES]
  | .ret e, l, log => by
    simp only [execES]; cases evalA c l e <;> simp
  | .callPure t prog args, l, log => by
    simp only [execES]
    cases evalArgs c l args with
    | error x => simp
    | ok vs => simp only []; cases call c prog vs <;> simp
  | .call t prog args, l, log => by
    simp only [execES]
    cases evalArgs c l args with
    | error x => simp
    | ok vs =>
      simp only []
      rw [execEL_frame c ora prog (argLocals vs) log]
      rcases h : execEL c ora (argLocals vs) [] prog with ⟨lg, r⟩
      cases r with
      | error x => simp
      | ok o => cases o <;> simp
  | .eff t obj meth args, l, log => by
    simp only [execES]
    cases evalArgs c l args <;> simp
theorem execEL_frame (c : Ctx) (ora : Oracle) : ∀ (p : List ESt) (l : Locals) (log : List Eff),
    execEL c ora l log p = (log ++ (execEL c ora l [] p).1, (execEL c ora l [] p).2)
  | [], l, log => by simp [execEL]
  | s :: rest, l, log => by
    rw [execEL, execEL, execES_frame c ora s l log]
    rcases h : execES c ora l [] s with ⟨lg, r⟩
    cases r with
    | error x => simp
    | ok o =>
      cases o with
      | done v => simp
      | next l' =>
        simp only []
        rw [execEL_frame c ora rest l' (log ++ lg), execEL_frame c ora rest l' lg]
        simp [List.append_assoc]
end
end MpfVerif.Py
