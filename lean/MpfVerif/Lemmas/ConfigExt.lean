import MpfVerif.Lemmas.Config
import MpfVerif.Model.ConfigExtDriver
/-! Helper lemmas for the C12 extension (non-scalar validators, recursive sections). -/
namespace MpfVerif.C12
open MpfVerif.Config MpfVerif.ConfigExt

theorem rtOfR_ok (r : R) (out : T) (h : rtOfR r = .ok out) : ∃ y, out = .s y ∧ r = .ok y := by
  cases r <;> simp [rtOfR] at h
  exact ⟨_, h.symm, rfl⟩

theorem hasTypeX_none (env : Env) (vd : XV) : HasTypeX env vd (.s .none) = true := by
  cases vd <;> simp [HasTypeX]

theorem hasTypeX_base (env : Env) (v : V) (y : Y) (hp : v ≠ .pow2) (h : HasType v y = true) :
    HasTypeX env (.base v) (.s y) = true := by
  cases y <;> cases v <;> simp_all [HasTypeX]

theorem vPow2_typed (env : Env) (y out : Y) (h : vPow2 y = .ok out) : HasTypeX env (.base .pow2) (.s out) = true := by
  unfold vPow2 at h
  cases y <;> simp only [] at h
  case none => cases h; simp [HasTypeX]
  all_goals
    (split at h
     · split at h
       · cases h
         rename_i i hi hp
         simp [HasTypeX, hi, hp]
       · cases h
     all_goals (try cases h))

theorem base_typed (env : Env) (v : V) (y : Y) (out : T)
    (h : vScalarX env (.base v) y = .ok out) : HasTypeX env (.base v) out = true := by
  cases v with
  | int r => simp only [vScalarX] at h; obtain ⟨o, rfl, h2⟩ := rtOfR_ok _ _ h
             exact hasTypeX_base env _ _ (by simp) (vInt_typed r _ _ h2)
  | float r => simp only [vScalarX] at h; obtain ⟨o, rfl, h2⟩ := rtOfR_ok _ _ h
               exact hasTypeX_base env _ _ (by simp) (vFloat_typed r _ _ h2)
  | num r => simp only [vScalarX] at h; obtain ⟨o, rfl, h2⟩ := rtOfR_ok _ _ h
             exact hasTypeX_base env _ _ (by simp) (vNum_typed r _ _ h2)
  | bool => simp only [vScalarX] at h; obtain ⟨o, rfl, h2⟩ := rtOfR_ok _ _ h
            rcases vBool_typed _ _ h2 with h1 | ⟨b, h1⟩ <;> subst h1 <;> simp [HasTypeX, HasType]
  | str => simp only [vScalarX] at h; obtain ⟨o, rfl, h2⟩ := rtOfR_ok _ _ h
           rcases vStr_typed _ _ _ h2 with h1 | ⟨s, h1⟩ <;> subst h1 <;> simp [HasTypeX, HasType]
  | lstr => simp only [vScalarX] at h; obtain ⟨o, rfl, h2⟩ := rtOfR_ok _ _ h
            rcases vStr_typed _ _ _ h2 with h1 | ⟨s, h1⟩ <;> subst h1 <;> simp [HasTypeX, HasType]
  | ms => simp only [vScalarX] at h; obtain ⟨o, rfl, h2⟩ := rtOfR_ok _ _ h
          exact hasTypeX_base env _ _ (by simp) (vMs_typed _ _ h2)
  | secs => simp only [vScalarX] at h; obtain ⟨o, rfl, h2⟩ := rtOfR_ok _ _ h
            exact hasTypeX_base env _ _ (by simp) (vSecs_typed _ _ h2)
  | enum vals => simp only [vScalarX] at h; obtain ⟨o, rfl, h2⟩ := rtOfR_ok _ _ h
                 exact hasTypeX_base env _ _ (by simp) (vEnum_typed vals _ _ h2)
  | pow2 => simp only [vScalarX] at h; obtain ⟨o, rfl, h2⟩ := rtOfR_ok _ _ h
            exact vPow2_typed env _ _ h2
  | boolInt => simp only [vScalarX] at h; obtain ⟨o, rfl, h2⟩ := rtOfR_ok _ _ h
               exact hasTypeX_base env _ _ (by simp) (vBoolInt_typed _ _ h2)

theorem orToken_lift (env : Env) (inner : XV) (t : T) (h : HasTypeX env inner t = true) :
    HasTypeX env (.orToken inner) t = true := by
  cases t with
  | s y => cases y <;> simp_all [HasTypeX]
  | token s => simp [HasTypeX]
  | _ => simpa [HasTypeX] using h

theorem colorPieces_color (n : Nat) (ps : List (List Char)) (acc : List Int) (out : T)
    (h : colorPieces n ps acc = .ok out) : ∃ r g b, out = .color r g b := by
  induction n generalizing ps acc with
  | zero =>
    unfold colorPieces at h
    split at h <;> cases h
    exact ⟨_, _, _, rfl⟩
  | succ n ih =>
    cases ps with
    | nil => simp [colorPieces] at h
    | cons p rest =>
      simp only [colorPieces] at h
      split at h
      · cases h
      · split at h
        · exact ih _ _ h
        · cases h
        · cases h

theorem vColor_typed (env : Env) (y : Y) (out : T) (h : vColor y = .ok out) : HasTypeX env .color out = true := by
  have : ∃ r g b, out = .color r g b := by
    unfold vColor at h
    split at h
    · cases h
    · split at h
      · cases h; exact ⟨_, _, _, rfl⟩
      · simp only [] at h
        split at h
        · split at h <;> cases h
          exact ⟨_, _, _, rfl⟩
        · split at h
          · cases h
          · split at h
            · cases h
            · exact colorPieces_color _ _ _ _ h
  obtain ⟨r, g, b, rfl⟩ := this
  simp [HasTypeX]

theorem clamp01_typed (env : Env) (y : Y) (out : T) (h : clamp01 y = .ok out) : HasTypeX env .gain out = true := by
  unfold clamp01 at h
  split at h
  · split at h
    · cases h; simp [HasTypeX, inUnit]
    · split at h
      · cases h; simp [HasTypeX, inUnit]
      · cases h
        simp only [HasTypeX, inUnit, Bool.and_eq_true, decide_eq_true_eq]
        omega
  · cases h; simp [HasTypeX]
  · cases h; split <;> simp [HasTypeX, inUnit]
  · cases h

theorem vGain_typed (env : Env) (y : Y) (out : T) (h : vGain y = .ok out) : HasTypeX env .gain out = true := by
  unfold vGain at h
  split at h
  · cases h; simp [HasTypeX]
  · exact clamp01_typed env _ _ h
  · exact clamp01_typed env _ _ h
  · exact clamp01_typed env _ _ h
  · split at h
    · cases h
    · simp only [] at h
      split at h
      · cases h
      · split at h
        · cases h; simp [HasTypeX, inUnit]
        · split at h
          · split at h
            · split at h
              · cases h; simp [HasTypeX, inUnit]
              · cases h
            · cases h
            · cases h
            · cases h
          · split at h
            · exact clamp01_typed env _ _ h
            · cases h; simp [HasTypeX, inUnit]
            · cases h


theorem vIntFromHex_typed (env : Env) (y : Y) (out : T) (h : vIntFromHex y = .ok out) :
    HasTypeX env .intFromHex out = true := by
  unfold vIntFromHex at h
  split at h
  · cases h
  · split at h
    · cases h
      simp only [HasTypeX, decide_eq_true_eq]
      split <;> omega
    · cases h
    · cases h

theorem exprTmpl_ok (env : Env) (k : TK) (s : String) (out : T) (h : exprTmpl env k s = .ok out) :
    out = .tmpl k false (.str s) := by
  unfold exprTmpl at h
  split at h <;> cases h
  rfl

theorem tmplFloat_ok (env : Env) (y : Y) (out : T) (h : tmplFloat env y = .ok out) :
    ∃ native v, out = .tmpl .float native v ∧ (native = true → isFloatY v = true) := by
  unfold tmplFloat at h
  split at h
  · split at h
    · rename_i v hv
      cases h
      refine ⟨true, v, rfl, fun _ => ?_⟩
      rcases floatOfP_kind _ _ hv with ⟨n, d, rfl⟩ | rfl | ⟨s, rfl⟩ <;> rfl
    · exact ⟨false, _, exprTmpl_ok _ _ _ _ h, by simp⟩
    · cases h
  · cases h
  · split at h
    · cases h
    · rename_i v hn hv
      cases h
      refine ⟨true, v, rfl, fun _ => ?_⟩
      rcases floatConv_kind _ _ hv with rfl | ⟨n, d, rfl⟩ | rfl | ⟨s, rfl⟩
      · exact absurd rfl hn
      · rfl
      · rfl
      · rfl
    · cases h

theorem tmplInt_ok (env : Env) (y : Y) (out : T) (h : tmplInt env y = .ok out) :
    ∃ native v, out = .tmpl .int native v ∧ (native = true → isIntY v = true) := by
  unfold tmplInt at h
  split at h
  · split at h
    · cases h; exact ⟨true, _, rfl, fun _ => rfl⟩
    · exact ⟨false, _, exprTmpl_ok _ _ _ _ h, by simp⟩
    · cases h
  · cases h; exact ⟨true, _, rfl, fun _ => rfl⟩
  · cases h; exact ⟨true, _, rfl, fun _ => rfl⟩
  · cases h

theorem vTmpl_typed (env : Env) (k : TV) (y : Y) (out : T) (h : vTmpl env k y = .ok out) :
    HasTypeX env (.tmpl k) out = true := by
  unfold vTmpl at h
  split at h
  · cases h; simp [HasTypeX]
  · cases k <;> simp only [] at h
    case float =>
      obtain ⟨n, v, rfl, hv⟩ := tmplFloat_ok _ _ _ h
      cases n <;> simp_all [HasTypeX, tmplClassOk]
    case int =>
      split at h
      · obtain ⟨n, v, rfl, hv⟩ := tmplInt_ok _ _ _ h
        cases n <;> simp_all [HasTypeX, tmplClassOk]
      · cases h
    case bool =>
      unfold tmplBool at h
      split at h
      · cases h; simp [HasTypeX, tmplClassOk, isBoolY]
      · rw [exprTmpl_ok _ _ _ _ h]; simp [HasTypeX, tmplClassOk]
      · cases h
    case secs =>
      unfold tmplSecs at h
      split at h
      · cases h
      · split at h
        · cases h; simp [HasTypeX, tmplClassOk, isFloatY]
        · cases h
        · obtain ⟨n, v, rfl, hv⟩ := tmplFloat_ok _ _ _ h
          cases n <;> simp_all [HasTypeX, tmplClassOk]
        · cases h
        · cases h
    case ms =>
      unfold tmplMs at h
      split at h
      · cases h
      · split at h
        · cases h; simp [HasTypeX, tmplClassOk, isIntY]
        · cases h
        · obtain ⟨n, v, rfl, hv⟩ := tmplInt_ok _ _ _ h
          cases n <;> simp_all [HasTypeX, tmplClassOk]
        · cases h
        · cases h
    case str =>
      unfold tmplStr at h
      split at h
      · cases h
      · simp only [] at h
        split at h
        · cases h; simp [HasTypeX, tmplClassOk, isStrY]
        · split at h
          · rw [exprTmpl_ok _ _ _ _ h]; simp [HasTypeX, tmplClassOk, isStrY]
          · cases h; simp [HasTypeX, tmplClassOk, isStrY]

theorem vMachine_typed (env : Env) (c : String) (y : Y) (out : T) (h : vMachine env c y = .ok out) :
    HasTypeX env (.machine c) out = true := by
  unfold vMachine at h
  split at h
  · cases h; simp [HasTypeX]
  · split at h
    · cases h
    · split at h
      · rename_i hc
        cases h
        simp only [HasTypeX, beq_self_eq_true, Bool.true_and]
        exact hc
      · cases h
  · cases h

/-- every extended scalar validator returns a value of its declared type -/
theorem xscalar_typed_aux (env : Env) (vd : XV) (y : Y) (out : T) (h : vScalarX env vd y = .ok out) :
    HasTypeX env vd out = true := by
  induction vd with
  | base v => exact base_typed env v y out h
  | evstr =>
    simp only [vScalarX] at h
    obtain ⟨o, rfl, h2⟩ := rtOfR_ok _ _ h
    rcases vStr_typed _ _ _ h2 with h1 | ⟨s, h1⟩ <;> subst h1 <;> simp [HasTypeX]
  | orToken inner ih =>
    simp only [vScalarX] at h
    split at h
    · cases h; simp [HasTypeX]
    · exact orToken_lift env inner out (ih h)
  | intFromHex => exact vIntFromHex_typed env y out (by simpa [vScalarX] using h)
  | color => exact vColor_typed env y out (by simpa [vScalarX] using h)
  | gain => exact vGain_typed env y out (by simpa [vScalarX] using h)
  | tmpl k => exact vTmpl_typed env k y out (by simpa [vScalarX] using h)
  | machine c => exact vMachine_typed env c y out (by simpa [vScalarX] using h)
  | subconfig n => simp [vScalarX] at h
  | dict => simp [vScalarX] at h
  | list => simp [vScalarX] at h
  | other => simp [vScalarX] at h

/-! ### trees: lists, dicts, sections -/

theorem valElems_typed (f : T → RT) (p : T → Bool) (hf : ∀ x o, f x = .ok o → p o = true) (chk : Bool) (xs : List T)
    (out : T) (h : valElems f chk xs = .ok out) : allT p out = true := by
  induction xs generalizing out with
  | nil => simp [valElems] at h; subst h; simp [allT]
  | cons x rest ih =>
    unfold valElems at h
    split at h
    · cases h
    · cases hx : f x with
      | ok v =>
        simp only [hx] at h
        cases hr : valElems f chk rest with
        | ok o =>
          simp only [hr] at h
          have hrec := ih o hr
          cases o <;> simp only [] at h <;> try (cases h)
          simp only [allT, List.all_cons, Bool.and_eq_true] at hrec ⊢
          exact ⟨hf x v hx, hrec⟩
        | reject => simp [hr] at h
        | raise => simp [hr] at h
        | unmodelled => simp [hr] at h
      | reject => simp [hx] at h
      | raise => simp [hx] at h
      | unmodelled => simp [hx] at h

theorem valPairs_typed (fk fv : T → RT) (pk pv : T → Bool) (hk : ∀ x o, fk x = .ok o → pk o = true)
    (hv : ∀ x o, fv x = .ok o → pv o = true) (kvs : List (Y × T)) (out : T) (h : valPairs fk fv kvs = .ok out) :
    ∃ ps, out = .d ps ∧ ps.all (fun p => pk (.s p.1) && pv p.2) = true := by
  induction kvs generalizing out with
  | nil => simp [valPairs] at h; exact ⟨[], h.symm, by simp⟩
  | cons kv rest ih =>
    obtain ⟨k, v⟩ := kv
    unfold valPairs at h
    split at h
    · rename_i k' v' hkk hvv
      cases hr : valPairs fk fv rest with
      | ok o =>
        simp only [hr] at h
        obtain ⟨ps, rfl, hty⟩ := ih o hr
        simp only [] at h
        split at h
        · cases h
        · cases h
          refine ⟨(k', v') :: ps, rfl, ?_⟩
          simp only [List.all_cons, Bool.and_eq_true]
          exact ⟨⟨hk _ _ hkk, hv _ _ hvv⟩, hty⟩
      | reject => simp [hr] at h
      | raise => simp [hr] at h
      | unmodelled => simp [hr] at h
    all_goals (cases h)

theorem valContainer_ok (v : XV) (out : T) (h : valContainer v = .ok out) : v = .gain ∧ out = .s (.rat 1 1) := by
  unfold valContainer at h
  split at h <;> cases h
  exact ⟨rfl, rfl⟩

theorem valOne_typed (sub : List String → T → RT) (wsub : List String → T → Bool)
    (hs : ∀ names t o, sub names t = .ok o → wsub names o = true) (env : Env) (vd : XV) (item out : T)
    (h : valOne sub env vd item = .ok out) : wtOne wsub env vd out = true := by
  have scalar : ∀ v : XV, valScalarT env v (preNoneT item) = .ok out → HasTypeX env v out = true := by
    intro v hv
    unfold valScalarT at hv
    split at hv
    · exact xscalar_typed_aux env v _ out hv
    · obtain ⟨rfl, rfl⟩ := valContainer_ok _ _ hv; simp [HasTypeX, inUnit]
    · obtain ⟨rfl, rfl⟩ := valContainer_ok _ _ hv; simp [HasTypeX, inUnit]
    · cases hv
  cases vd with
  | subconfig names =>
    simp only [valOne] at h
    split at h
    · cases h; simp [wtOne]
    · have := hs _ _ _ h
      simp only [wtOne]
      split <;> simp_all
  | dict =>
    simp only [valOne] at h
    unfold valDictV at h
    simp only [wtOne]
    split at h <;> (try split at h) <;> cases h <;> rfl
  | list =>
    simp only [valOne] at h
    unfold valListV at h
    simp only [wtOne]
    split at h <;> (try (simp only [] at h; split at h)) <;> (try split at h) <;> cases h <;> rfl
  | base v => exact scalar _ (by simpa [valOne] using h)
  | evstr => exact scalar _ (by simpa [valOne] using h)
  | orToken i => exact scalar _ (by simpa [valOne] using h)
  | intFromHex => exact scalar _ (by simpa [valOne] using h)
  | color => exact scalar _ (by simpa [valOne] using h)
  | gain => exact scalar _ (by simpa [valOne] using h)
  | tmpl k => exact scalar _ (by simpa [valOne] using h)
  | machine c => exact scalar _ (by simpa [valOne] using h)
  | other => exact scalar _ (by simpa [valOne] using h)

theorem valItem_typed (sub : List String → T → RT) (wsub : List String → T → Bool)
    (hs : ∀ names t o, sub names t = .ok o → wsub names o = true) (env : Env) (k : Key) (item out : T)
    (h : valItem sub env k item = .ok out) : wtItem wsub env k out = true := by
  have one := fun vd x o => valOne_typed sub wsub hs env vd x o
  unfold valItem at h
  unfold wtItem
  cases hit : k.it <;> simp only [hit] at h ⊢
  · exact one _ _ _ h
  · split at h
    · exact valElems_typed _ _ (one k.vd) _ _ _ h
    · cases h
    · cases h
  · split at h
    · split at h
      · cases h
      · exact valElems_typed _ _ (one k.vd) _ _ _ h
    · cases h
    · cases h
  · split at h
    · cases h
    · rename_i vv hvv
      simp only [hvv]
      split at h
      · cases h; simp
      · split at h <;> cases h; simp
      · obtain ⟨ps, rfl, hp⟩ := valPairs_typed _ _ _ _ (one k.vd) (one vv) _ _ h
        simpa using hp
      · cases h
      · cases h
      · cases h
  · split at h
    · cases h
    · rename_i vv hvv
      simp only [hvv]
      split at h
      · obtain ⟨ps, rfl, hp⟩ := valPairs_typed _ _ _ _ (one k.vd) (one vv) _ _ h
        simpa using hp
      · cases h
      · cases h

theorem valKeyHere_typed (sub : List String → T → RT) (wsub : List String → T → Bool)
    (hs : ∀ names t o, sub names t = .ok o → wsub names o = true) (env : Env) (secName : String)
    (src : List (Y × T)) (k : Key) (v : T) (h : valKeyHere sub env secName src k = .ok v) :
    (if k.kind == 2 then allT (wsub [secName ++ ":" ++ k.key]) v else wtItem wsub env k v) = true := by
  unfold valKeyHere at h
  split at h
  · rename_i hk
    simp only [hk, if_true]
    split at h
    · cases h; simp [allT]
    · exact valElems_typed _ _ (fun x o hx => hs _ x o hx) _ _ _ h
    · split at h <;> cases h; simp [allT]
    · split at h <;> cases h; simp [allT]
    · cases h
  · rename_i hk
    simp only [hk]
    split at h
    · exact valItem_typed sub wsub hs env k _ _ h
    · split at h
      · exact valItem_typed sub wsub hs env k _ _ h
      · cases h

theorem wtKeys_cons_keep (wsub : List String → T → Bool) (env : Env) (sn : String) (k : Key) (rest : List Key) (v : T)
    (out' : List (Y × T)) (h : skipped k = false) :
    wtKeys wsub env sn (k :: rest) ((.str k.key, v) :: out') =
      ((if k.kind == 2 then allT (wsub [sn ++ ":" ++ k.key]) v else wtItem wsub env k v) && wtKeys wsub env sn rest out') := by
  simp [wtKeys, h]

/-- positional: the result lists every non-skipped key of the spec, in order, each well typed; and every result key is a spec key -/
theorem valKeys_typed (sub : List String → T → RT) (wsub : List String → T → Bool)
    (hs : ∀ names t o, sub names t = .ok o → wsub names o = true) (env : Env) (secName : String)
    (src : List (Y × T)) (keys : List Key) (out : T) (h : valKeys sub env secName src keys = .ok out) :
    ∃ kvs, out = .d kvs ∧ (∀ tail, wtKeys wsub env secName keys (kvs ++ tail) = true) ∧
      ∀ p ∈ kvs, ∃ k ∈ keys, p.1 = .str k.key := by
  induction keys generalizing out with
  | nil => simp [valKeys] at h; exact ⟨[], h.symm, by simp [wtKeys], by simp⟩
  | cons k rest ih =>
    unfold valKeys at h
    split at h
    · rename_i hsk
      obtain ⟨kvs, rfl, hw, hk⟩ := ih out h
      refine ⟨kvs, rfl, ?_, ?_⟩
      · intro tail; simp only [wtKeys, hsk, if_true]; exact hw tail
      · intro p hp; obtain ⟨k', hk', e⟩ := hk p hp; exact ⟨k', List.mem_cons_of_mem _ hk', e⟩
    · rename_i hsk
      split at h
      · rename_i v hv
        cases hr : valKeys sub env secName src rest with
        | ok o =>
          simp only [hr] at h
          obtain ⟨kvs, rfl, hw, hk⟩ := ih o hr
          simp only [] at h
          cases h
          refine ⟨(.str k.key, v) :: kvs, rfl, ?_, ?_⟩
          · intro tail
            have hv' := valKeyHere_typed sub wsub hs env secName src k v hv
            have hsk' : skipped k = false := by simpa using hsk
            rw [List.cons_append, wtKeys_cons_keep _ _ _ _ _ _ _ hsk', hv', hw tail]
            rfl
          · intro p hp
            rcases List.mem_cons.mp hp with rfl | hp
            · exact ⟨k, List.mem_cons_self, rfl⟩
            · obtain ⟨k', hk', e⟩ := hk p hp; exact ⟨k', List.mem_cons_of_mem _ hk', e⟩
        | reject => simp [hr] at h
        | raise => simp [hr] at h
        | unmodelled => simp [hr] at h
      · cases h
      · split at h <;> cases h
      · split at h <;> cases h

theorem knownKey_of_spec (sec : Sec) (k : Key) (hk : k ∈ sec.keys) : knownKey sec (.str k.key) = true := by
  simp only [knownKey, Bool.or_eq_true, List.any_eq_true]
  exact Or.inl ⟨k, hk, by simp⟩

/-- **every depth**: a returned section is a dict that lists every non-ignored spec key with a well-typed value —
subconfigs and nested sections recursively — and holds no key the spec does not know -/
theorem valSec_typed (specs : List Sec) (env : Env) (fuel : Nat) :
    ∀ names src out, valSec specs env fuel names src = .ok out → wtSec specs env fuel names out = true := by
  induction fuel with
  | zero => intro names src out h; simp [valSec] at h
  | succ n ih =>
    intro names src out h
    unfold valSec at h
    unfold wtSec
    split at h
    · cases h
    · rename_i sec hsec
      split at h
      · rename_i kvs
        split at h
        · cases h
        · rename_i hunk
          cases hr : valKeys (valSec specs env n) env (primary names) kvs sec.keys with
          | ok o =>
            simp only [hr] at h
            obtain ⟨res, rfl, hw, hk⟩ := valKeys_typed _ (wtSec specs env n) ih env _ kvs sec.keys o hr
            simp only [] at h
            cases h
            simp only [hsec, Bool.and_eq_true]
            refine ⟨hw _, ?_⟩
            cases ha : sec.allowOthers
            · simp only [Bool.false_or, List.all_append, Bool.and_eq_true, List.all_eq_true]
              constructor
              · intro p hp
                obtain ⟨k, hk', e⟩ := hk p hp
                rw [e]; exact knownKey_of_spec sec k hk'
              · intro p hp
                have hp' : p ∈ kvs := (List.mem_filter.mp hp).1
                by_contra hc
                apply hunk
                rw [ha]
                simp only [Bool.not_false, Bool.true_and, List.any_eq_true]
                exact ⟨p, hp', by simpa using hc⟩
            · simp
          | reject => simp [hr] at h
          | raise => simp [hr] at h
          | unmodelled => simp [hr] at h
      · cases h

end MpfVerif.C12
