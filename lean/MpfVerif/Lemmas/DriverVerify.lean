import MpfVerif.Lemmas.Hoare
import MpfVerif.Gen.DriverVerify
/-! Helper lemmas about the conditions occurring in the translated `get_and_verify_*` functions. -/
namespace MpfVerif.C08
open MpfVerif.Py

theorem pyCmp_le_true (a b : PyVal) (h : pyCmp "<=" a b = .ok true) :
    ∃ x y, a.num = some (some x) ∧ b.num = some (some y) ∧ x ≤ y := by
  unfold pyCmp at h
  cases ha : a.num with
  | none => simp [ha, throw, throwThe, MonadExceptOf.throw] at h
  | some oa =>
    cases hb : b.num with
    | none => simp [ha, hb, throw, throwThe, MonadExceptOf.throw] at h
    | some ob =>
      cases oa with
      | none => simp [ha, hb, pure, Except.pure] at h
      | some x =>
        cases ob with
        | none => simp [ha, hb, pure, Except.pure] at h
        | some y =>
          simp [ha, hb, pure, Except.pure, cmpOp] at h
          exact ⟨x, y, rfl, rfl, h⟩

theorem evalC_not_and_false (c : Ctx) (l : Locals) (A B : Cd) (h : evalC c l (.not (.and A B)) = .ok false) :
    evalC c l A = .ok true ∧ evalC c l B = .ok true := by
  simp only [evalC, bind, Except.bind, pure, Except.pure] at h
  cases hA : evalC c l A with
  | error e => simp [hA] at h
  | ok a =>
    cases a with
    | false => simp [hA] at h
    | true =>
      simp only [hA, if_true] at h
      cases hB : evalC c l B with
      | error e => simp [hB] at h
      | ok b => cases b <;> simp_all

theorem range_of_not_cond (c : Ctx) (l : Locals) (n : String)
    (h : evalC c l (.not (.and (.cmp "<=" (.lit (.int 0)) (.var n)) (.cmp "<=" (.var n) (.lit (.int 1))))) = .ok false) :
    inRangeB (l n) 0 1000000 = true := by
  obtain ⟨h1, h2⟩ := evalC_not_and_false c l _ _ h
  simp only [evalC, evalE, bind, Except.bind, pure, Except.pure] at h1 h2
  obtain ⟨x, y, hx, hy, hxy⟩ := pyCmp_le_true _ _ h1
  obtain ⟨x', y', hx', hy', hxy'⟩ := pyCmp_le_true _ _ h2
  simp [PyVal.num] at hx hy'
  subst hx hy'
  rw [hy] at hx'
  simp at hx'
  subst hx'
  simp [inRangeB, hy]
  omega

theorem isInt_of_not_cond (c : Ctx) (l : Locals) (n : String)
    (h : evalC c l (.not (.isInt (.var n))) = .ok false) : (l n).isInt = true := by
  simp only [evalC, evalE, bind, Except.bind, pure, Except.pure, Except.ok.injEq] at h
  simpa using h

theorem ge_of_lt_cond (c : Ctx) (l : Locals) (n : String) (hi : (l n).isInt = true)
    (h : evalC c l (.cmp "<" (.var n) (.lit (.int 0))) = .ok false) : geB (l n) 0 = true := by
  simp only [evalC, evalE, bind, Except.bind, pure, Except.pure] at h
  generalize l n = p at *
  cases p <;> simp_all [PyVal.isInt, pyCmp, PyVal.num, cmpOp, geB, pure, Except.pure]
  all_goals (try (split <;> omega))
  all_goals (try omega)

theorem limit_of_and_cond (c : Ctx) (l : Locals) (n k : String)
    (h : evalC c l (.and (.truthy (.cfg k)) (.cmp ">" (.var n) (.cfg k))) = .ok false) :
    (c.cfg k).truthy = true → pyCmp ">" (l n) (c.cfg k) = .ok false := by
  intro ht
  simp only [evalC, evalE, bind, Except.bind, pure, Except.pure, ht, if_true] at h
  exact h

end MpfVerif.C08
