import MpfVerif.Model.Delay
/-!
Invariants of the delay / periodic-task model and their preservation by every command, by callback programs (`exec`),
by every top-level step and hence by every run.
-/
namespace MpfVerif.Delay

def entryOf (h : Handle) : Entry := ⟨h.name, h.hid, h.cb, h.arg⟩

/-- The coupling between `DelayManager.delays` and the loop's live handles, plus the timing facts. -/
structure Inv (s : St) : Prop where
  hid_lt : ∀ h ∈ s.live, h.hid < s.nextId
  ehid_lt : ∀ e ∈ s.delays, e.hid < s.nextId
  live_entry : ∀ h ∈ s.live, entryOf h ∈ s.delays
  entry_live : ∀ e ∈ s.delays, ∃ h ∈ s.live, entryOf h = e
  names : s.delays.Pairwise (fun a b => a.name ≠ b.name)
  hids : s.delays.Pairwise (fun a b => a.hid ≠ b.hid)
  due_ge : ∀ h ∈ s.live, s.now ≤ h.due + s.slack
  pid_lt : ∀ p ∈ s.pers, p.pid < s.pers.length
  pids : s.pers.Pairwise (fun a b => a.pid ≠ b.pid)
  last_eq : ∀ p ∈ s.pers, p.last = p.t0 + p.count * p.interval
  pdue_ge : ∀ p ∈ s.pers, p.canceled = false → s.now ≤ p.due + s.slack

/-- handle id `hid` has been issued and is not live any more (it ran or was cancelled) -/
def Dead (s : St) (hid : Nat) : Prop := hid < s.nextId ∧ ∀ h ∈ s.live, h.hid ≠ hid

/-- periodic task `pid` exists and is cancelled -/
def PDead (s : St) (pid : Nat) : Prop := pid < s.pers.length ∧ ∀ p ∈ s.pers, p.pid = pid → p.canceled = true

/-- total time for which callbacks blocked the loop, read off the observations -/
def blockedSum : List Obs → Nat
  | [] => 0
  | .blocked d :: r => d + blockedSum r
  | _ :: r => blockedSum r

theorem blockedSum_append (a b : List Obs) : blockedSum (a ++ b) = blockedSum a + blockedSum b := by
  induction a with
  | nil => simp [blockedSum]
  | cons x r ih => cases x <;> simp [blockedSum, ih]; omega

theorem blockedSum_single (x : Obs) (h : ∀ d, x ≠ .blocked d) : blockedSum [x] = 0 := by
  cases x <;> simp [blockedSum]
  case blocked d => exact absurd rfl (h d)

theorem blockedSum_zero {o : List Obs} (h : ∀ d, Obs.blocked d ∉ o) : blockedSum o = 0 := by
  induction o with
  | nil => rfl
  | cons x r ih =>
    have hr : ∀ d, Obs.blocked d ∉ r := fun d hd => h d (by simp [hd])
    cases x <;> simp [blockedSum, ih hr]
    case blocked d => exact absurd (by simp) (h d)

def Quiet (o : List Obs) : Prop := ∀ x ∈ o, (∀ h t, x ≠ .fired h t) ∧ (∀ a b c, x ≠ .tick a b c)

/-- What one command, and any sequence of commands, does to a state satisfying `Inv`. -/
structure Good (s : St) (o : List Obs) (s' : St) : Prop where
  inv : Inv s'
  now_eq : s'.now = s.now + blockedSum o ∧ s'.slack = s.slack + blockedSum o
  next_le : s.nextId ≤ s'.nextId
  live_from : ∀ h ∈ s'.live, h ∈ s.live ∨ (.sched h ∈ o ∧ s.nextId ≤ h.hid)
  gone : ∀ h ∈ s.live, h ∈ s'.live ∨ .cancel h.hid ∈ o
  sched_acc : ∀ h, .sched h ∈ o → (h ∈ s'.live ∨ .cancel h.hid ∈ o) ∧ s.nextId ≤ h.hid
  cancel_dead : ∀ hid, .cancel hid ∈ o → Dead s' hid
  quiet : Quiet o
  plen : s.pers.length ≤ s'.pers.length
  pers_from : ∀ p' ∈ s'.pers, (∃ p ∈ s.pers, p.pid = p'.pid ∧ p'.t0 = p.t0 ∧ p'.interval = p.interval ∧
      p'.count = p.count ∧ p'.last = p.last ∧ (p.canceled = true → p'.canceled = true)) ∨ s.pers.length ≤ p'.pid
  pers_to : ∀ p ∈ s.pers, ∃ p' ∈ s'.pers, p'.pid = p.pid ∧ p'.t0 = p.t0 ∧ p'.interval = p.interval ∧
      p'.count = p.count

theorem init_inv : Inv init := by
  constructor <;> simp [init]

theorem Good.dead {s o s'} (g : Good s o s') (hid : Nat) (d : Dead s hid) : Dead s' hid := by
  refine ⟨Nat.lt_of_lt_of_le d.1 g.next_le, ?_⟩
  intro h hh
  rcases g.live_from h hh with h1 | ⟨_, h2⟩
  · exact d.2 h h1
  · have := d.1; omega

theorem Good.pdead {s o s'} (g : Good s o s') (pid : Nat) (d : PDead s pid) : PDead s' pid := by
  refine ⟨Nat.lt_of_lt_of_le d.1 g.plen, ?_⟩
  intro p' hp' e
  rcases g.pers_from p' hp' with ⟨p, hp, h1, _, _, _, _, h6⟩ | h2
  · exact h6 (d.2 p hp (by omega))
  · have := d.1; omega

theorem Good.refl {s} (i : Inv s) : Good s [] s := by
  constructor <;> try simp [Quiet, blockedSum]
  · exact i
  · intro p hp; exact Or.inl ⟨p, hp, rfl, rfl, rfl, rfl, rfl, id⟩
  · intro p hp; exact ⟨p, hp, rfl, rfl, rfl, rfl⟩

theorem Good.trans {s o1 s1 o2 s2} (g1 : Good s o1 s1) (g2 : Good s1 o2 s2) : Good s (o1 ++ o2) s2 := by
  constructor
  · exact g2.inv
  · have a := g1.now_eq; have b := g2.now_eq; rw [blockedSum_append]; omega
  · exact Nat.le_trans g1.next_le g2.next_le
  · intro h hh
    rcases g2.live_from h hh with h1 | ⟨h2, h3⟩
    · rcases g1.live_from h h1 with h4 | ⟨h5, h6⟩
      · exact Or.inl h4
      · exact Or.inr ⟨by simp [h5], h6⟩
    · exact Or.inr ⟨by simp [h2], Nat.le_trans g1.next_le h3⟩
  · intro h hh
    rcases g1.gone h hh with h1 | h1
    · rcases g2.gone h h1 with h2 | h2
      · exact Or.inl h2
      · exact Or.inr (by simp [h2])
    · exact Or.inr (by simp [h1])
  · intro h hh
    rcases List.mem_append.mp hh with h1 | h1
    · obtain ⟨a, b⟩ := g1.sched_acc h h1
      refine ⟨?_, b⟩
      rcases a with a | a
      · rcases g2.gone h a with h2 | h2
        · exact Or.inl h2
        · exact Or.inr (by simp [h2])
      · exact Or.inr (by simp [a])
    · obtain ⟨a, b⟩ := g2.sched_acc h h1
      refine ⟨?_, Nat.le_trans g1.next_le b⟩
      rcases a with a | a
      · exact Or.inl a
      · exact Or.inr (by simp [a])
  · intro hid hh
    rcases List.mem_append.mp hh with h1 | h1
    · exact g2.dead hid (g1.cancel_dead hid h1)
    · exact g2.cancel_dead hid h1
  · intro x hx
    rcases List.mem_append.mp hx with h1 | h1
    · exact g1.quiet x h1
    · exact g2.quiet x h1
  · exact Nat.le_trans g1.plen g2.plen
  · intro p' hp'
    rcases g2.pers_from p' hp' with ⟨p1, hp1, a1, a2, a3, a4, a5, a6⟩ | h2
    · rcases g1.pers_from p1 hp1 with ⟨p, hp, b1, b2, b3, b4, b5, b6⟩ | h3
      · exact Or.inl ⟨p, hp, by omega, by omega, by omega, by omega, by omega, fun c => a6 (b6 c)⟩
      · exact Or.inr (by omega)
    · exact Or.inr (Nat.le_trans g1.plen h2)
  · intro p hp
    obtain ⟨p1, hp1, a1, a2, a3, a4⟩ := g1.pers_to p hp
    obtain ⟨p2, hp2, b1, b2, b3, b4⟩ := g2.pers_to p1 hp1
    exact ⟨p2, hp2, by omega, by omega, by omega, by omega⟩

/-- observations that are neither ghost nor timer events can be added freely -/
theorem Good.addObs {s o s'} (g : Good s o s') (x : Obs) (h1 : ∀ h, x ≠ .sched h) (h2 : ∀ i, x ≠ .cancel i)
    (h3 : ∀ h t, x ≠ .fired h t) (h4 : ∀ a b c, x ≠ .tick a b c) (h5 : ∀ d, x ≠ .blocked d) :
    Good s (o ++ [x]) s' := by
  constructor
  · exact g.inv
  · have a := g.now_eq; rw [blockedSum_append, blockedSum_single x h5]; omega
  · exact g.next_le
  · intro h hh
    rcases g.live_from h hh with a | ⟨a, b⟩
    · exact Or.inl a
    · exact Or.inr ⟨by simp [a], b⟩
  · intro h hh
    rcases g.gone h hh with a | a
    · exact Or.inl a
    · exact Or.inr (by simp [a])
  · intro h hh
    rcases List.mem_append.mp hh with a | a
    · obtain ⟨c, d⟩ := g.sched_acc h a
      exact ⟨c.elim Or.inl (fun c => Or.inr (by simp [c])), d⟩
    · simp at a; exact absurd a.symm (h1 h)
  · intro hid hh
    rcases List.mem_append.mp hh with a | a
    · exact g.cancel_dead hid a
    · simp at a; exact absurd a.symm (h2 hid)
  · intro y hy
    rcases List.mem_append.mp hy with a | a
    · exact g.quiet y a
    · simp at a; subst a; exact ⟨h3, h4⟩
  · exact g.plen
  · exact g.pers_from
  · exact g.pers_to

theorem persSame {s : St} : ∀ p' ∈ s.pers, (∃ p ∈ s.pers, p.pid = p'.pid ∧ p'.t0 = p.t0 ∧ p'.interval = p.interval ∧
      p'.count = p.count ∧ p'.last = p.last ∧ (p.canceled = true → p'.canceled = true)) ∨ s.pers.length ≤ p'.pid :=
  fun p hp => Or.inl ⟨p, hp, rfl, rfl, rfl, rfl, rfl, id⟩

theorem persSame' {s : St} : ∀ p ∈ s.pers, ∃ p' ∈ s.pers, p'.pid = p.pid ∧ p'.t0 = p.t0 ∧ p'.interval = p.interval ∧
      p'.count = p.count := fun p hp => ⟨p, hp, rfl, rfl, rfl, rfl⟩

theorem find_name {l : List Entry} {n : Nat} {e : Entry} (h : l.find? (fun e => e.name == n) = some e) :
    e ∈ l ∧ e.name = n := by
  have := List.find?_some h
  exact ⟨List.mem_of_find?_eq_some h, by simpa using this⟩

theorem pairwise_uniq {α β : Type} (f : α → β) {l : List α} (hp : l.Pairwise (fun a b => f a ≠ f b)) {x y : α}
    (hx : x ∈ l) (hy : y ∈ l) (h : f x = f y) : x = y := by
  rcases List.mem_iff_getElem.mp hx with ⟨a, ha, rfl⟩
  rcases List.mem_iff_getElem.mp hy with ⟨b, hb, rfl⟩
  rcases Nat.lt_trichotomy a b with c | c | c
  · exact absurd h (List.pairwise_iff_getElem.mp hp a b ha hb c)
  · subst c; rfl
  · exact absurd h.symm (List.pairwise_iff_getElem.mp hp b a hb ha c)

def popSt (s : St) (n : Nat) (e : Entry) : St :=
  { s with delays := s.delays.filter (fun x => x.name != n), live := s.live.filter (fun h => h.hid != e.hid) }

theorem popName_some {s : St} {n : Nat} {e : Entry} (hf : s.delays.find? (fun e => e.name == n) = some e) :
    popName s n = (popSt s n e, [.cancel e.hid]) := by
  simp [popName, St.entry?, hf, popSt]

theorem popName_none {s : St} {n : Nat} (hf : s.delays.find? (fun e => e.name == n) = none) :
    popName s n = (s, []) := by
  simp [popName, St.entry?, hf]

theorem popSt_inv (s : St) (n : Nat) (e : Entry) (i : Inv s) (he : e ∈ s.delays) (hn : e.name = n) :
    Inv (popSt s n e) := by
    unfold popSt
    constructor
    · intro h hh; exact i.hid_lt h (List.mem_filter.mp hh).1
    · intro x hx; exact i.ehid_lt x (List.mem_filter.mp hx).1
    · intro h hh
      obtain ⟨h1, h2⟩ := List.mem_filter.mp hh
      refine List.mem_filter.mpr ⟨i.live_entry h h1, ?_⟩
      simp only [bne_iff_ne, ne_eq]
      intro c
      have := pairwise_uniq (fun a : Entry => a.name) i.names (i.live_entry h h1) he (by simp [c, hn])
      simp [← this, entryOf] at h2
    · intro x hx
      obtain ⟨h1, h2⟩ := List.mem_filter.mp hx
      obtain ⟨h, hh, he'⟩ := i.entry_live x h1
      refine ⟨h, List.mem_filter.mpr ⟨hh, ?_⟩, he'⟩
      simp only [bne_iff_ne, ne_eq]
      intro c
      have e1 : x.hid = e.hid := by rw [← he']; exact c
      have := pairwise_uniq (fun a : Entry => a.hid) i.hids h1 he e1
      simp [this, hn] at h2
    · exact i.names.filter _
    · exact i.hids.filter _
    · intro h hh; exact i.due_ge h (List.mem_filter.mp hh).1
    · exact i.pid_lt
    · exact i.pids
    · exact i.last_eq
    · exact i.pdue_ge

theorem popName_good (s : St) (n : Nat) (i : Inv s) : Good s (popName s n).2 (popName s n).1 := by
  cases hf : s.delays.find? (fun e => e.name == n) with
  | none => rw [popName_none hf]; exact Good.refl i
  | some e =>
    rw [popName_some hf]
    obtain ⟨he, hn⟩ := find_name hf
    have inv' : Inv (popSt s n e) := popSt_inv s n e i he hn
    constructor
    · exact inv'
    · exact ⟨rfl, rfl⟩
    · exact Nat.le_refl _
    · intro h hh; exact Or.inl (List.mem_filter.mp hh).1
    · intro h hh
      by_cases c : h.hid = e.hid
      · exact Or.inr (by simp [c])
      · exact Or.inl (List.mem_filter.mpr ⟨hh, by simpa using c⟩)
    · intro h hh; simp at hh
    · intro hid hh
      simp at hh; subst hh
      exact ⟨i.ehid_lt e he, fun h hh => by simpa using (List.mem_filter.mp hh).2⟩
    · intro x hx; simp at hx; subst hx; simp
    · exact Nat.le_refl _
    · exact persSame
    · exact persSame'

theorem popName_noname (s : St) (n : Nat) : ∀ e ∈ (popName s n).1.delays, e.name ≠ n := by
  cases hf : s.delays.find? (fun e => e.name == n) with
  | none =>
    rw [popName_none hf]
    intro e he
    have := List.find?_eq_none.mp hf e he
    simpa using this
  | some e =>
    rw [popName_some hf]
    intro x hx
    simpa [popSt] using (List.mem_filter.mp hx).2

def schedSt (s : St) (ms n cb : Nat) (arg : Int) : St :=
  { s with nextId := s.nextId + 1, delays := s.delays ++ [⟨n, s.nextId, cb, arg⟩],
           live := s.live ++ [⟨s.nextId, n, cb, arg, s.now + ms⟩] }

theorem sched_good (s : St) (ms n cb : Nat) (arg : Int) (i : Inv s) (hn : ∀ e ∈ s.delays, e.name ≠ n) :
    Good s [.sched ⟨s.nextId, n, cb, arg, s.now + ms⟩] (schedSt s ms n cb arg) := by
  have inv' : Inv (schedSt s ms n cb arg) := by
    unfold schedSt
    constructor
    · intro h hh
      rcases List.mem_append.mp hh with a | a
      · have := i.hid_lt h a; simp; omega
      · simp at a; subst a; simp
    · intro e he
      rcases List.mem_append.mp he with a | a
      · have := i.ehid_lt e a; simp; omega
      · simp at a; subst a; simp
    · intro h hh
      rcases List.mem_append.mp hh with a | a
      · exact List.mem_append.mpr (Or.inl (i.live_entry h a))
      · simp at a; subst a; simp [entryOf]
    · intro e he
      rcases List.mem_append.mp he with a | a
      · obtain ⟨h, hh, e1⟩ := i.entry_live e a
        exact ⟨h, List.mem_append.mpr (Or.inl hh), e1⟩
      · simp at a; subst a
        exact ⟨⟨s.nextId, n, cb, arg, s.now + ms⟩, by simp, rfl⟩
    · refine List.pairwise_append.mpr ⟨i.names, by simp, ?_⟩
      intro a ha b hb
      simp at hb; subst hb
      exact hn a ha
    · refine List.pairwise_append.mpr ⟨i.hids, by simp, ?_⟩
      intro a ha b hb
      simp at hb; subst hb
      have := i.ehid_lt a ha
      simp; omega
    · intro h hh
      rcases List.mem_append.mp hh with a | a
      · exact i.due_ge h a
      · simp at a; subst a; show s.now ≤ s.now + ms + s.slack; omega
    · exact i.pid_lt
    · exact i.pids
    · exact i.last_eq
    · exact i.pdue_ge
  constructor
  · exact inv'
  · exact ⟨rfl, rfl⟩
  · simp [schedSt]
  · intro h hh
    rcases List.mem_append.mp hh with a | a
    · exact Or.inl a
    · simp at a; subst a; exact Or.inr ⟨by simp, Nat.le_refl _⟩
  · intro h hh; exact Or.inl (List.mem_append.mpr (Or.inl hh))
  · intro h hh
    simp at hh; subst hh
    exact ⟨Or.inl (by simp [schedSt]), Nat.le_refl _⟩
  · intro hid hh; simp at hh
  · intro x hx; simp at hx; subst hx; simp
  · exact Nat.le_refl _
  · exact persSame
  · exact persSame'

theorem doAdd_eq (s : St) (ms n cb : Nat) (arg : Int) :
    doAdd s ms n cb arg = (schedSt (popName s n).1 ms n cb arg,
      (popName s n).2 ++ [.sched ⟨(popName s n).1.nextId, n, cb, arg, (popName s n).1.now + ms⟩]) := rfl

theorem doAdd_good (s : St) (ms n cb : Nat) (arg : Int) (i : Inv s) :
    Good s (doAdd s ms n cb arg).2 (doAdd s ms n cb arg).1 := by
  rw [doAdd_eq]
  have g1 := popName_good s n i
  exact g1.trans (sched_good _ ms n cb arg g1.inv (popName_noname s n))

theorem doClear_good (s : St) (i : Inv s) : Good s (doClear s).2 (doClear s).1 := by
  unfold doClear
  have hl : ∀ h ∈ s.live, (s.delays.any (fun e => e.hid == h.hid)) = true := by
    intro h hh
    simp only [List.any_eq_true, beq_iff_eq]
    exact ⟨entryOf h, i.live_entry h hh, rfl⟩
  have hempty : s.live.filter (fun h => !(s.delays.any (fun e => e.hid == h.hid))) = [] := by
    apply List.filter_eq_nil_iff.mpr
    intro h hh
    simp [hl h hh]
  simp only [hempty]
  constructor
  · constructor <;> try simp
    · exact i.pid_lt
    · exact i.pids
    · exact i.last_eq
    · exact i.pdue_ge
  · have : blockedSum (s.delays.map (fun e => Obs.cancel e.hid)) = 0 :=
      blockedSum_zero (fun d hd => by simp at hd)
    rw [this]; exact ⟨rfl, rfl⟩
  · exact Nat.le_refl _
  · intro h hh; simp at hh
  · intro h hh
    refine Or.inr ?_
    simp only [List.mem_map]
    exact ⟨entryOf h, i.live_entry h hh, rfl⟩
  · intro h hh; simp at hh
  · intro hid hh
    simp only [List.mem_map] at hh
    obtain ⟨e, he, e1⟩ := hh
    simp at e1; subst e1
    exact ⟨i.ehid_lt e he, by simp⟩
  · intro x hx
    simp only [List.mem_map] at hx
    obtain ⟨e, _, e1⟩ := hx
    subst e1; simp
  · exact Nat.le_refl _
  · exact persSame
  · exact persSame'

def pstartSt (s : St) (iv cb : Nat) : St :=
  { s with pers := s.pers ++ [⟨s.pers.length, cb, iv, s.now, 0, s.now, false⟩] }

theorem pstart_good (s : St) (iv cb : Nat) (i : Inv s) :
    Good s [.pstarted s.pers.length iv s.now] (pstartSt s iv cb) := by
  constructor
  · unfold pstartSt
    constructor
    · exact i.hid_lt
    · exact i.ehid_lt
    · exact i.live_entry
    · exact i.entry_live
    · exact i.names
    · exact i.hids
    · exact i.due_ge
    · intro p hp
      rcases List.mem_append.mp hp with a | a
      · have := i.pid_lt p a; simp; omega
      · simp at a; subst a; simp
    · refine List.pairwise_append.mpr ⟨i.pids, by simp, ?_⟩
      intro a ha b hb
      simp at hb; subst hb
      have := i.pid_lt a ha
      simp; omega
    · intro p hp
      rcases List.mem_append.mp hp with a | a
      · exact i.last_eq p a
      · simp at a; subst a; simp
    · intro p hp hc
      rcases List.mem_append.mp hp with a | a
      · exact i.pdue_ge p a hc
      · simp at a; subst a; show s.now ≤ s.now + iv + s.slack; omega
  · exact ⟨rfl, rfl⟩
  · exact Nat.le_refl _
  · intro h hh; exact Or.inl hh
  · intro h hh; exact Or.inl hh
  · intro h hh; simp at hh
  · intro hid hh; simp at hh
  · intro x hx; simp at hx; subst hx; simp
  · simp [pstartSt]
  · intro p' hp'
    rcases List.mem_append.mp hp' with a | a
    · exact Or.inl ⟨p', a, rfl, rfl, rfl, rfl, rfl, id⟩
    · simp at a; subst a; exact Or.inr (Nat.le_refl _)
  · intro p hp
    exact ⟨p, List.mem_append.mpr (Or.inl hp), rfl, rfl, rfl, rfl⟩

def cancelP (pid : Nat) (p : Per) : Per := if p.pid == pid then { p with canceled := true } else p

def pcancelSt (s : St) (pid : Nat) : St := { s with pers := s.pers.map (cancelP pid) }

theorem cancelP_facts (pid : Nat) (p : Per) : (cancelP pid p).pid = p.pid ∧ (cancelP pid p).t0 = p.t0 ∧
    (cancelP pid p).interval = p.interval ∧ (cancelP pid p).count = p.count ∧ (cancelP pid p).last = p.last ∧
    (p.canceled = true → (cancelP pid p).canceled = true) ∧ ((cancelP pid p).canceled = false → p.canceled = false) := by
  unfold cancelP
  split <;> simp

theorem pcancel_good (s : St) (pid : Nat) (i : Inv s) : Good s [] (pcancelSt s pid) := by
  constructor
  · unfold pcancelSt
    constructor
    · exact i.hid_lt
    · exact i.ehid_lt
    · exact i.live_entry
    · exact i.entry_live
    · exact i.names
    · exact i.hids
    · exact i.due_ge
    · intro p hp
      obtain ⟨q, hq, rfl⟩ := List.mem_map.mp hp
      have := i.pid_lt q hq
      simp [(cancelP_facts pid q).1]; exact this
    · refine List.pairwise_map.mpr (i.pids.imp ?_)
      intro a b h
      rw [(cancelP_facts pid a).1, (cancelP_facts pid b).1]; exact h
    · intro p hp
      obtain ⟨q, hq, rfl⟩ := List.mem_map.mp hp
      obtain ⟨_, a2, a3, a4, a5, _⟩ := cancelP_facts pid q
      rw [a5, a2, a4, a3]; exact i.last_eq q hq
    · intro p hp hc
      obtain ⟨q, hq, rfl⟩ := List.mem_map.mp hp
      obtain ⟨_, a2, a3, a4, a5, _, a7⟩ := cancelP_facts pid q
      have := i.pdue_ge q hq (a7 hc)
      simp only [Per.due] at this ⊢
      rw [a5, a3]; exact this
  · exact ⟨rfl, rfl⟩
  · exact Nat.le_refl _
  · intro h hh; exact Or.inl hh
  · intro h hh; exact Or.inl hh
  · intro h hh; simp at hh
  · intro hid hh; simp at hh
  · intro x hx; simp at hx
  · simp [pcancelSt]
  · intro p' hp'
    obtain ⟨q, hq, rfl⟩ := List.mem_map.mp hp'
    obtain ⟨a1, a2, a3, a4, a5, a6, _⟩ := cancelP_facts pid q
    exact Or.inl ⟨q, hq, a1.symm, a2, a3, a4, a5, a6⟩
  · intro p hp
    obtain ⟨a1, a2, a3, a4, _⟩ := cancelP_facts pid p
    exact ⟨cancelP pid p, List.mem_map.mpr ⟨p, hp, rfl⟩, a1, a2, a3, a4⟩

theorem pcancel_pdead (s : St) (pid : Nat) (h : pid < s.pers.length) : PDead (pcancelSt s pid) pid := by
  refine ⟨by simpa [pcancelSt] using h, ?_⟩
  intro p hp e
  obtain ⟨q, _, rfl⟩ := List.mem_map.mp hp
  have := (cancelP_facts pid q).1
  unfold cancelP at e ⊢
  split
  · rfl
  · rename_i c; simp [c] at e; simp [e] at c

theorem block_good (s : St) (d : Nat) (i : Inv s) :
    Good s [.blocked d] { s with now := s.now + d, slack := s.slack + d } := by
  constructor
  · constructor
    · exact i.hid_lt
    · exact i.ehid_lt
    · exact i.live_entry
    · exact i.entry_live
    · exact i.names
    · exact i.hids
    · intro h hh; have := i.due_ge h hh; show s.now + d ≤ h.due + (s.slack + d); omega
    · exact i.pid_lt
    · exact i.pids
    · exact i.last_eq
    · intro p hp hc; have := i.pdue_ge p hp hc; show s.now + d ≤ p.due + (s.slack + d); omega
  · exact ⟨by simp [blockedSum], by simp [blockedSum]⟩
  · exact Nat.le_refl _
  · intro h hh; exact Or.inl hh
  · intro h hh; exact Or.inl hh
  · intro h hh; simp at hh
  · intro hid hh; simp at hh
  · intro x hx; simp at hx; subst hx; simp
  · exact Nat.le_refl _
  · exact persSame
  · exact persSame'

theorem stepCmd_good (P : Nat → List Cmd) (s : St) (c : Cmd) (i : Inv s) :
    Good s (stepCmd P s c).2.1 (stepCmd P s c).1 := by
  cases c with
  | add ms n cb a => exact doAdd_good s ms n cb a i
  | addIf ms n cb a =>
    simp only [stepCmd]
    split
    · exact Good.refl i
    · exact doAdd_good s ms n cb a i
  | reset ms n cb a =>
    simp only [stepCmd]
    split
    · have g1 := popName_good s n i
      exact g1.trans (doAdd_good _ ms n cb a g1.inv)
    · simpa using doAdd_good s ms n cb a i
  | remove n => exact popName_good s n i
  | clear => exact doClear_good s i
  | runNow n =>
    simp only [stepCmd]
    cases hf : s.entry? n with
    | none => exact Good.refl i
    | some e => exact (popName_good s n i).addObs _ (by simp) (by simp) (by simp) (by simp) (by simp)
  | check n =>
    have := (Good.refl i).addObs (.checked n (s.delays.any (fun e => e.name == n))) (by simp) (by simp) (by simp) (by simp) (by simp)
    simpa [stepCmd] using this
  | pstart iv cb => exact pstart_good s iv cb i
  | pcancel pid => exact pcancel_good s pid i
  | prestart pid iv cb =>
    simp only [stepCmd]
    split
    · have g1 := pcancel_good s pid i
      exact g1.trans (pstart_good (pcancelSt s pid) iv cb g1.inv)
    · exact Good.refl i
  | block d => exact block_good s d i
  | raise k =>
    have := (Good.refl i).addObs (.raised k) (by simp) (by simp) (by simp) (by simp) (by simp)
    simpa [stepCmd] using this
  | endTry => exact Good.refl i

theorem exec_good (P : Nat → List Cmd) (f : Nat) : ∀ (s : St) (l : List Cmd), Inv s →
    Good s (exec P f s l).2 (exec P f s l).1 := by
  induction f with
  | zero =>
    intro s l i
    cases l with
    | nil => exact Good.refl i
    | cons c r =>
      have := (Good.refl i).addObs .exhausted (by simp) (by simp) (by simp) (by simp) (by simp)
      simpa [exec] using this
  | succ f ih =>
    intro s l i
    cases l with
    | nil => exact Good.refl i
    | cons c r =>
      simp only [exec]
      have g1 := stepCmd_good P s c i
      cases hc : cont c r with
      | none => exact g1.addObs .escaped (by simp) (by simp) (by simp) (by simp) (by simp)
      | some rest' => exact g1.trans (ih _ _ g1.inv)

def firedHids : List Obs → List Nat
  | [] => []
  | .fired h _ :: r => h.hid :: firedHids r
  | _ :: r => firedHids r

theorem firedHids_append (a b : List Obs) : firedHids (a ++ b) = firedHids a ++ firedHids b := by
  induction a with
  | nil => rfl
  | cons x r ih => cases x <;> simp [firedHids, ih]

theorem mem_firedHids {o : List Obs} {i : Nat} : i ∈ firedHids o ↔ ∃ h t, .fired h t ∈ o ∧ h.hid = i := by
  induction o with
  | nil => simp [firedHids]
  | cons x r ih =>
    have hgen : (∀ h t, x ≠ .fired h t) → (i ∈ firedHids (x :: r) ↔ ∃ h t, .fired h t ∈ x :: r ∧ h.hid = i) := by
      intro hx
      have e : firedHids (x :: r) = firedHids r := by cases x <;> first | rfl | exact absurd rfl (hx _ _)
      rw [e, ih]
      constructor
      · rintro ⟨h, t, a, b⟩; exact ⟨h, t, List.mem_cons_of_mem _ a, b⟩
      · rintro ⟨h, t, a, b⟩
        rcases List.mem_cons.mp a with c | c
        · exact absurd c.symm (hx h t)
        · exact ⟨h, t, c, b⟩
    by_cases hx : ∀ h t, x ≠ .fired h t
    · exact hgen hx
    · have : ∃ h t, x = .fired h t :=
        Classical.byContradiction (fun c => hx (fun h t e => c ⟨h, t, e⟩))
      obtain ⟨h0, t0, rfl⟩ := this
      simp only [firedHids, List.mem_cons, ih]
      constructor
      · rintro (a | ⟨h, t, b, c⟩)
        · exact ⟨h0, t0, Or.inl rfl, a.symm⟩
        · exact ⟨h, t, Or.inr b, c⟩
      · rintro ⟨h, t, (a | b), c⟩
        · injection a with a1 a2; subst a1; exact Or.inl c.symm
        · exact Or.inr ⟨h, t, b, c⟩

theorem firedHids_quiet {o : List Obs} (q : Quiet o) : firedHids o = [] := by
  induction o with
  | nil => rfl
  | cons x r ih =>
    have hx := q x (by simp)
    have hr : Quiet r := fun y hy => q y (by simp [hy])
    cases x <;> simp [firedHids, ih hr]
    case fired h t => exact (hx.1 h t) rfl

/-- What one top-level step does (any op, any program table). -/
structure StepFacts (s : St) (o : List Obs) (s' : St) : Prop where
  inv : Inv s'
  now_le : s.now ≤ s'.now
  dead : ∀ hid, Dead s hid → Dead s' hid
  pdead : ∀ pid, PDead s pid → PDead s' pid
  slack_zero : (∀ d, Obs.blocked d ∉ o) → s.slack = 0 → s'.slack = 0
  fired_ok : ∀ h t, .fired h t ∈ o → h ∈ s.live ∧ (h.due ≤ t ∧ t ≤ h.due + s.slack) ∧ Dead s' h.hid
  fired_one : firedHids o = [] ∨ ∃ i, firedHids o = [i]
  cancel_dead : ∀ hid, .cancel hid ∈ o → Dead s' hid
  live_from : ∀ h ∈ s'.live, h ∈ s.live ∨ .sched h ∈ o
  acc : ∀ h ∈ s.live, h ∈ s'.live ∨ .cancel h.hid ∈ o ∨ h.hid ∈ firedHids o
  sched_acc : ∀ h, .sched h ∈ o → h ∈ s'.live ∨ .cancel h.hid ∈ o
  tick_ok : ∀ pid n t, .tick pid n t ∈ o → (∃ p ∈ s.pers, p.pid = pid ∧ p.canceled = false) ∧
      ∃ p' ∈ s'.pers, p'.pid = pid ∧ (p'.t0 + n * p'.interval ≤ t ∧ t ≤ p'.t0 + n * p'.interval + s.slack) ∧
        1 ≤ n ∧ n ≤ p'.count
  pers_to : ∀ p ∈ s.pers, ∃ p' ∈ s'.pers, p'.pid = p.pid ∧ p'.t0 = p.t0 ∧ p'.interval = p.interval ∧
      p.count ≤ p'.count

theorem Good.stepFacts {s o s'} (g : Good s o s') : StepFacts s o s' := by
  constructor
  · exact g.inv
  · have := g.now_eq; omega
  · exact g.dead
  · exact g.pdead
  · intro hb hz; have := g.now_eq; rw [blockedSum_zero hb] at this; omega
  · intro h t hh; exact absurd rfl ((g.quiet _ hh).1 h t)
  · exact Or.inl (firedHids_quiet g.quiet)
  · exact g.cancel_dead
  · intro h hh; exact (g.live_from h hh).elim Or.inl (fun a => Or.inr a.1)
  · intro h hh; exact (g.gone h hh).elim Or.inl (fun a => Or.inr (Or.inl a))
  · intro h hh; exact (g.sched_acc h hh).1
  · intro pid n t hh; exact absurd rfl ((g.quiet _ hh).2 pid n t)
  · intro p hp
    obtain ⟨p', hp', a1, a2, a3, a4⟩ := g.pers_to p hp
    exact ⟨p', hp', a1, a2, a3, by omega⟩

theorem step_to_facts (P : Nat → List Cmd) (s : St) (t : Nat) (r : St × List Obs) (i : Inv s)
    (h : step P s (.to t) = some r) : StepFacts s r.2 r.1 := by
  simp only [step] at h
  split at h
  · rename_i c
    obtain ⟨c1, c2, c3⟩ := c
    simp at h; subst h
    simp only [List.all_eq_true, decide_eq_true_eq, Bool.or_eq_true] at c2 c3
    constructor
    · constructor
      · exact i.hid_lt
      · exact i.ehid_lt
      · exact i.live_entry
      · exact i.entry_live
      · exact i.names
      · exact i.hids
      · exact c2
      · exact i.pid_lt
      · exact i.pids
      · exact i.last_eq
      · intro p hp hc
        rcases c3 p hp with a | a
        · simp [hc] at a
        · exact a
    · exact c1
    · intro hid d; exact d
    · intro pid d; exact d
    · intro _ _; rfl
    · intro h t hh; simp at hh
    · exact Or.inl rfl
    · intro hid hh; simp at hh
    · intro h hh; exact Or.inl hh
    · intro h hh; exact Or.inl hh
    · intro h hh; simp at hh
    · intro pid n t hh; simp at hh
    · intro p hp; exact ⟨p, hp, rfl, rfl, rfl, Nat.le_refl _⟩
  · simp at h

theorem find_hid {l : List Handle} {i : Nat} {h : Handle} (hf : l.find? (fun h => h.hid == i) = some h) :
    h ∈ l ∧ h.hid = i := by
  have := List.find?_some hf
  exact ⟨List.mem_of_find?_eq_some hf, by simpa using this⟩

theorem step_fire_facts (P : Nat → List Cmd) (s : St) (hid : Nat) (r : St × List Obs) (i : Inv s)
    (h : step P s (.fire hid) = some r) : StepFacts s r.2 r.1 := by
  simp only [step] at h
  cases hf : s.live.find? (fun h => h.hid == hid) with
  | none => simp [hf] at h
  | some hd =>
    simp only [hf] at h
    obtain ⟨hm, hh⟩ := find_hid hf
    split at h
    · rename_i hdue
      simp at h; subst h
      have e1 : ({ s with live := s.live.filter (fun x => x.hid != hid),
                          delays := s.delays.filter (fun e => e.name != hd.name) } : St)
              = popSt s hd.name (entryOf hd) := by
        simp [popSt, entryOf, hh]
      simp only [e1]
      have i1 : Inv (popSt s hd.name (entryOf hd)) := popSt_inv s hd.name (entryOf hd) i (i.live_entry hd hm) rfl
      have g := exec_good P fuel (popSt s hd.name (entryOf hd)) (P hd.cb) i1
      have d1 : Dead (popSt s hd.name (entryOf hd)) hd.hid := by
        refine ⟨i.hid_lt hd hm, ?_⟩
        intro x hx
        have := (List.mem_filter.mp hx).2
        simpa [entryOf] using this
      have hnow : hd.due ≤ s.now ∧ s.now ≤ hd.due + s.slack := ⟨hdue, i.due_ge hd hm⟩
      constructor
      · exact g.inv
      · have := g.now_eq; show s.now ≤ _; have e2 : (popSt s hd.name (entryOf hd)).now = s.now := rfl; omega
      · intro k d
        apply g.dead
        exact ⟨d.1, fun x hx => d.2 x (List.mem_filter.mp hx).1⟩
      · intro pid d; exact g.pdead pid d
      · intro hb hz
        have hb' : ∀ d, Obs.blocked d ∉ (exec P fuel (popSt s hd.name (entryOf hd)) (P hd.cb)).2 :=
          fun d hd' => hb d (List.mem_cons_of_mem _ hd')
        have := g.now_eq; rw [blockedSum_zero hb'] at this
        have e2 : (popSt s hd.name (entryOf hd)).slack = s.slack := rfl
        omega
      · intro h' t hh'
        simp only [List.mem_cons] at hh'
        rcases hh' with a | a
        · injection a with a1 a2
          subst a1; subst a2
          exact ⟨hm, hnow, g.dead _ d1⟩
        · exact absurd rfl ((g.quiet _ a).1 h' t)
      · exact Or.inr ⟨hd.hid, by simp [firedHids, firedHids_quiet g.quiet]⟩
      · intro k hk
        simp only [List.mem_cons] at hk
        rcases hk with a | a
        · simp at a
        · exact g.cancel_dead k a
      · intro x hx
        rcases g.live_from x hx with a | ⟨a, _⟩
        · exact Or.inl (List.mem_filter.mp a).1
        · exact Or.inr (by simp [a])
      · intro x hx
        by_cases c : x.hid = hd.hid
        · exact Or.inr (Or.inr (by simp [firedHids, c]))
        · have : x ∈ (popSt s hd.name (entryOf hd)).live :=
            List.mem_filter.mpr ⟨hx, by simpa [entryOf] using c⟩
          rcases g.gone x this with a | a
          · exact Or.inl a
          · exact Or.inr (Or.inl (by simp [a]))
      · intro x hx
        simp only [List.mem_cons] at hx
        rcases hx with a | a
        · simp at a
        · exact (g.sched_acc x a).1.elim Or.inl (fun b => Or.inr (by simp [b]))
      · intro pid n t hh'
        simp only [List.mem_cons] at hh'
        rcases hh' with a | a
        · simp at a
        · exact absurd rfl ((g.quiet _ a).2 pid n t)
      · intro p hp
        obtain ⟨p', hp', a1, a2, a3, a4⟩ := g.pers_to p hp
        exact ⟨p', hp', a1, a2, a3, by omega⟩
    · simp at h

def bumpP (pid : Nat) (q : Per) : Per :=
  if q.pid == pid then { q with last := q.last + q.interval, count := q.count + 1 } else q

theorem find_pid {l : List Per} {i : Nat} {p : Per} (hf : l.find? (fun p => p.pid == i) = some p) :
    p ∈ l ∧ p.pid = i := by
  have := List.find?_some hf
  exact ⟨List.mem_of_find?_eq_some hf, by simpa using this⟩

theorem step_pfire_facts (P : Nat → List Cmd) (s : St) (pid : Nat) (r : St × List Obs) (i : Inv s)
    (h : step P s (.pfire pid) = some r) : StepFacts s r.2 r.1 := by
  simp only [step] at h
  cases hf : s.pers.find? (fun p => p.pid == pid) with
  | none => simp [hf] at h
  | some p =>
    simp only [hf] at h
    obtain ⟨hm, hp⟩ := find_pid hf
    split at h
    · rename_i hc
      obtain ⟨hc1, hc2⟩ := hc
      simp at hc1
      injection h with h; subst h
      have e1 : ({ s with pers := s.pers.map (fun q => if q.pid == pid then
                      { q with last := q.last + q.interval, count := q.count + 1 } else q) } : St)
              = { s with pers := s.pers.map (bumpP pid) } := rfl
      simp only [e1]
      have hb : ∀ q : Per, (bumpP pid q).pid = q.pid ∧ (bumpP pid q).t0 = q.t0 ∧ (bumpP pid q).interval = q.interval ∧
          (bumpP pid q).canceled = q.canceled ∧ q.count ≤ (bumpP pid q).count ∧
          ((bumpP pid q).last = (bumpP pid q).t0 + (bumpP pid q).count * (bumpP pid q).interval ↔
            q.last = q.t0 + q.count * q.interval) ∧ q.last ≤ (bumpP pid q).last := by
        intro q
        unfold bumpP
        split
        · simp [Nat.succ_mul]; omega
        · simp
      have i1 : Inv { s with pers := s.pers.map (bumpP pid) } := by
        constructor
        · exact i.hid_lt
        · exact i.ehid_lt
        · exact i.live_entry
        · exact i.entry_live
        · exact i.names
        · exact i.hids
        · exact i.due_ge
        · intro q hq
          obtain ⟨q0, hq0, rfl⟩ := List.mem_map.mp hq
          have := i.pid_lt q0 hq0
          simp [(hb q0).1]; exact this
        · refine List.pairwise_map.mpr (i.pids.imp ?_)
          intro a b h
          rw [(hb a).1, (hb b).1]; exact h
        · intro q hq
          obtain ⟨q0, hq0, rfl⟩ := List.mem_map.mp hq
          exact (hb q0).2.2.2.2.2.1.mpr (i.last_eq q0 hq0)
        · intro q hq hcq
          obtain ⟨q0, hq0, rfl⟩ := List.mem_map.mp hq
          obtain ⟨_, _, b3, b4, _, _, b7⟩ := hb q0
          have := i.pdue_ge q0 hq0 (by rw [← b4]; exact hcq)
          simp only [Per.due] at this ⊢
          show s.now ≤ _
          rw [b3]; omega
      have g := exec_good P fuel { s with pers := s.pers.map (bumpP pid) } (P p.cb) i1
      have hnow : p.last + p.interval ≤ s.now ∧ s.now ≤ p.last + p.interval + s.slack := ⟨hc2, i.pdue_ge p hm hc1⟩
      constructor
      · exact g.inv
      · have := g.now_eq; show s.now ≤ _
        have e2 : ({ s with pers := s.pers.map (bumpP pid) } : St).now = s.now := rfl
        omega
      · intro k d; exact g.dead k d
      · intro k d
        apply g.pdead
        refine ⟨by simpa using d.1, ?_⟩
        intro q hq e
        obtain ⟨q0, hq0, rfl⟩ := List.mem_map.mp hq
        rw [(hb q0).2.2.2.1]
        exact d.2 q0 hq0 (by rw [← (hb q0).1]; exact e)
      · intro hb' hz
        have hb2 : ∀ d, Obs.blocked d ∉ (exec P fuel { s with pers := s.pers.map (bumpP pid) } (P p.cb)).2 :=
          fun d hd' => hb' d (List.mem_cons_of_mem _ hd')
        have := g.now_eq; rw [blockedSum_zero hb2] at this
        have e2 : ({ s with pers := s.pers.map (bumpP pid) } : St).slack = s.slack := rfl
        omega
      · intro h' t hh'
        simp only [List.mem_cons] at hh'
        rcases hh' with a | a
        · simp at a
        · exact absurd rfl ((g.quiet _ a).1 h' t)
      · exact Or.inl (by simp [firedHids, firedHids_quiet g.quiet])
      · intro k hk
        simp only [List.mem_cons] at hk
        rcases hk with a | a
        · simp at a
        · exact g.cancel_dead k a
      · intro x hx
        rcases g.live_from x hx with a | ⟨a, _⟩
        · exact Or.inl a
        · exact Or.inr (by simp [a])
      · intro x hx
        rcases g.gone x hx with a | a
        · exact Or.inl a
        · exact Or.inr (Or.inl (by simp [a]))
      · intro x hx
        simp only [List.mem_cons] at hx
        rcases hx with a | a
        · simp at a
        · exact (g.sched_acc x a).1.elim Or.inl (fun b => Or.inr (by simp [b]))
      · intro k n t hh'
        simp only [List.mem_cons] at hh'
        rcases hh' with a | a
        · injection a with a1 a2 a3
          subst a1; subst a2; subst a3
          refine ⟨⟨p, hm, hp, hc1⟩, ?_⟩
          have hbm : bumpP k p ∈ ({ s with pers := s.pers.map (bumpP k) } : St).pers :=
            List.mem_map.mpr ⟨p, hm, rfl⟩
          obtain ⟨p', hp', a1, a2, a3, a4⟩ := g.pers_to _ hbm
          have hc : (bumpP k p).count = p.count + 1 := by simp [bumpP, hp]
          refine ⟨p', hp', ?_, ?_, by omega, ?_⟩
          · rw [a1, (hb p).1]; exact hp
          · have hl := i.last_eq p hm
            rw [a2, a3, (hb p).2.1, (hb p).2.2.1, Nat.succ_mul]
            omega
          · omega
        · exact absurd rfl ((g.quiet _ a).2 k n t)
      · intro q hq
        have hbm : bumpP pid q ∈ ({ s with pers := s.pers.map (bumpP pid) } : St).pers :=
          List.mem_map.mpr ⟨q, hq, rfl⟩
        obtain ⟨p', hp', a1, a2, a3, a4⟩ := g.pers_to _ hbm
        obtain ⟨b1, b2, b3, _, b5, _⟩ := hb q
        exact ⟨p', hp', by omega, by omega, by omega, by omega⟩
    · simp at h

theorem step_facts (P : Nat → List Cmd) (s : St) (op : Op) (r : St × List Obs) (i : Inv s)
    (h : step P s op = some r) : StepFacts s r.2 r.1 := by
  cases op with
  | cmd c =>
    simp only [step] at h
    injection h with h; subst h
    exact (exec_good P fuel s [c] i).stepFacts
  | to t => exact step_to_facts P s t r i h
  | fire hid => exact step_fire_facts P s hid r i h
  | pfire pid => exact step_pfire_facts P s pid r i h

theorem run_cons {P : Nat → List Cmd} {s : St} {op : Op} {ops : List Op} {r : St × List Obs}
    (h : run P s (op :: ops) = some r) :
    ∃ r1 r2, step P s op = some r1 ∧ run P r1.1 ops = some r2 ∧ r = (r2.1, r1.2 ++ r2.2) := by
  simp only [run] at h
  cases h1 : step P s op with
  | none => simp [h1] at h
  | some r1 =>
    simp only [h1] at h
    cases h2 : run P r1.1 ops with
    | none => simp [h2] at h
    | some r2 =>
      simp only [h2] at h
      injection h with h
      exact ⟨r1, r2, rfl, h2, h.symm⟩

/-! ## run-level lemmas (induction over the op list) -/

/-- Reachable states keep the coupling between the `delays` dict and the loop's live handles (`Inv`): one live handle per
entry and one entry per live handle with the same name/callback/argument, distinct names, no live handle overdue. -/
theorem run_inv (P : Nat → List Cmd) (ops : List Op) : ∀ (s : St) (r : St × List Obs), Inv s →
    run P s ops = some r → Inv r.1 := by
  induction ops with
  | nil => intro s r i h; simp [run] at h; subst h; exact i
  | cons op ops ih =>
    intro s r i h
    obtain ⟨r1, r2, h1, h2, rfl⟩ := run_cons h
    exact ih r1.1 r2 (step_facts P s op r1 i h1).inv h2

/-- Once a handle is dead (it ran or was cancelled) it stays dead along every run. -/
theorem run_dead (P : Nat → List Cmd) (ops : List Op) : ∀ (s : St) (r : St × List Obs) (hid : Nat), Inv s →
    run P s ops = some r → Dead s hid → Dead r.1 hid := by
  induction ops with
  | nil => intro s r hid i h d; simp [run] at h; subst h; exact d
  | cons op ops ih =>
    intro s r hid i h d
    obtain ⟨r1, r2, h1, h2, rfl⟩ := run_cons h
    have F := step_facts P s op r1 i h1
    exact ih r1.1 r2 hid F.inv h2 (F.dead hid d)

/-- General form of `fires_once_at_due` from any state satisfying the invariant. -/
theorem fires_once_at_due_from (P : Nat → List Cmd) (ops : List Op) : ∀ (s : St) (r : St × List Obs), Inv s →
    run P s ops = some r →
    (∀ hd t, .fired hd t ∈ r.2 → (hd.due ≤ t ∧ ((∀ d, Obs.blocked d ∉ r.2) → s.slack = 0 → t = hd.due)) ∧
      (hd ∈ s.live ∨ .sched hd ∈ r.2)) ∧
    (firedHids r.2).Nodup ∧ (∀ k ∈ firedHids r.2, ¬ Dead s k) := by
  induction ops with
  | nil =>
    intro s r i h
    simp [run] at h; subst h
    simp [firedHids]
  | cons op ops ih =>
    intro s r i h
    obtain ⟨r1, r2, h1, h2, rfl⟩ := run_cons h
    have F := step_facts P s op r1 i h1
    obtain ⟨ih1, ih2, ih3⟩ := ih r1.1 r2 F.inv h2
    have hfirst : ∀ k ∈ firedHids r1.2, Dead r1.1 k ∧ ¬ Dead s k := by
      intro k hk
      obtain ⟨hd, t, a, b⟩ := mem_firedHids.mp hk
      obtain ⟨c1, _, c3⟩ := F.fired_ok hd t a
      subst b
      exact ⟨c3, fun d => d.2 hd c1 rfl⟩
    refine ⟨?_, ?_, ?_⟩
    · intro hd t hh
      rcases List.mem_append.mp hh with a | a
      · obtain ⟨c1, c2, _⟩ := F.fired_ok hd t a
        exact ⟨⟨c2.1, fun _ hz => by omega⟩, Or.inl c1⟩
      · obtain ⟨c1, c2⟩ := ih1 hd t a
        refine ⟨⟨c1.1, fun hb hz => c1.2 (fun d hd' => hb d (List.mem_append.mpr (Or.inr hd')))
          (F.slack_zero (fun d hd' => hb d (List.mem_append.mpr (Or.inl hd'))) hz)⟩, ?_⟩
        rcases c2 with c | c
        · rcases F.live_from hd c with d | d
          · exact Or.inl d
          · exact Or.inr (List.mem_append.mpr (Or.inl d))
        · exact Or.inr (List.mem_append.mpr (Or.inr c))
    · show (firedHids (r1.2 ++ r2.2)).Nodup
      rw [firedHids_append]
      refine List.nodup_append.mpr ⟨?_, ih2, ?_⟩
      · rcases F.fired_one with a | ⟨k, a⟩ <;> simp [a]
      · intro a ha b hb e
        subst e
        exact ih3 a hb (hfirst a ha).1
    · intro k hk
      show ¬ Dead s k
      have hk' : k ∈ firedHids (r1.2 ++ r2.2) := hk
      rw [firedHids_append] at hk'
      rcases List.mem_append.mp hk' with a | a
      · exact (hfirst k a).2
      · exact fun d => ih3 k a (F.dead k d)

/-- a `cancel hid` observation anywhere in a run leaves the handle dead at the end of that run -/
theorem cancel_dead_run (P : Nat → List Cmd) (ops : List Op) : ∀ (s : St) (r : St × List Obs) (hid : Nat), Inv s →
    run P s ops = some r → .cancel hid ∈ r.2 → Dead r.1 hid := by
  induction ops with
  | nil => intro s r hid i h hc; simp [run] at h; subst h; simp at hc
  | cons op ops ih =>
    intro s r hid i h hc
    obtain ⟨r1, r2, h1, h2, rfl⟩ := run_cons h
    have F := step_facts P s op r1 i h1
    rcases List.mem_append.mp hc with a | a
    · exact run_dead P ops r1.1 r2 hid F.inv h2 (F.cancel_dead hid a)
    · exact ih r1.1 r2 hid F.inv h2 a

/-- General form of `fires_unless_cancelled`. -/
theorem accounted_from (P : Nat → List Cmd) (ops : List Op) : ∀ (s : St) (r : St × List Obs), Inv s →
    run P s ops = some r →
    (∀ h ∈ s.live, h ∈ r.1.live ∨ .cancel h.hid ∈ r.2 ∨ h.hid ∈ firedHids r.2) ∧
    (∀ h, .sched h ∈ r.2 → h ∈ r.1.live ∨ .cancel h.hid ∈ r.2 ∨ h.hid ∈ firedHids r.2) := by
  induction ops with
  | nil =>
    intro s r i h
    simp [run] at h; subst h
    exact ⟨fun h hh => Or.inl hh, fun h hh => by simp at hh⟩
  | cons op ops ih =>
    intro s r i h
    obtain ⟨r1, r2, h1, h2, rfl⟩ := run_cons h
    have F := step_facts P s op r1 i h1
    obtain ⟨ih1, ih2⟩ := ih r1.1 r2 F.inv h2
    have lift : ∀ h : Handle, h ∈ r1.1.live → h ∈ r2.1.live ∨ Obs.cancel h.hid ∈ r1.2 ++ r2.2 ∨
        h.hid ∈ firedHids (r1.2 ++ r2.2) := by
      intro h hh
      rcases ih1 h hh with a | a | a
      · exact Or.inl a
      · exact Or.inr (Or.inl (List.mem_append.mpr (Or.inr a)))
      · exact Or.inr (Or.inr (by rw [firedHids_append]; exact List.mem_append.mpr (Or.inr a)))
    have here : ∀ h : Handle, (Obs.cancel h.hid ∈ r1.2 ∨ h.hid ∈ firedHids r1.2) → Obs.cancel h.hid ∈ r1.2 ++ r2.2 ∨
        h.hid ∈ firedHids (r1.2 ++ r2.2) := by
      intro h hh
      rcases hh with a | a
      · exact Or.inl (List.mem_append.mpr (Or.inl a))
      · exact Or.inr (by rw [firedHids_append]; exact List.mem_append.mpr (Or.inl a))
    refine ⟨?_, ?_⟩
    · intro h hh
      rcases F.acc h hh with a | a
      · exact lift h a
      · exact Or.inr (here h a)
    · intro h hh
      rcases List.mem_append.mp hh with a | a
      · rcases F.sched_acc h a with b | b
        · exact lift h b
        · exact Or.inr (here h (Or.inl b))
      · rcases ih2 h a with b | b | b
        · exact Or.inl b
        · exact Or.inr (Or.inl (List.mem_append.mpr (Or.inr b)))
        · exact Or.inr (Or.inr (by rw [firedHids_append]; exact List.mem_append.mpr (Or.inr b)))

/-- run-level persistence of periodic tasks: identity (pid), creation time and interval never change, counts only grow -/
theorem run_pers (P : Nat → List Cmd) (ops : List Op) : ∀ (s : St) (r : St × List Obs), Inv s →
    run P s ops = some r → ∀ p ∈ s.pers, ∃ p' ∈ r.1.pers, p'.pid = p.pid ∧ p'.t0 = p.t0 ∧ p'.interval = p.interval ∧
      p.count ≤ p'.count := by
  induction ops with
  | nil => intro s r i h p hp; simp [run] at h; subst h; exact ⟨p, hp, rfl, rfl, rfl, Nat.le_refl _⟩
  | cons op ops ih =>
    intro s r i h p hp
    obtain ⟨r1, r2, h1, h2, rfl⟩ := run_cons h
    have F := step_facts P s op r1 i h1
    obtain ⟨p1, hp1, a1, a2, a3, a4⟩ := F.pers_to p hp
    obtain ⟨p2, hp2, b1, b2, b3, b4⟩ := ih r1.1 r2 F.inv h2 p1 hp1
    exact ⟨p2, hp2, by omega, by omega, by omega, by omega⟩

theorem periodic_no_drift_from (P : Nat → List Cmd) (ops : List Op) : ∀ (s : St) (r : St × List Obs), Inv s →
    run P s ops = some r → ∀ pid n t, .tick pid n t ∈ r.2 →
      ∃ p ∈ r.1.pers, p.pid = pid ∧ (p.t0 + n * p.interval ≤ t ∧
        ((∀ d, Obs.blocked d ∉ r.2) → s.slack = 0 → t = p.t0 + n * p.interval)) ∧ 1 ≤ n ∧ n ≤ p.count := by
  induction ops with
  | nil => intro s r i h pid n t hh; simp [run] at h; subst h; simp at hh
  | cons op ops ih =>
    intro s r i h pid n t hh
    obtain ⟨r1, r2, h1, h2, rfl⟩ := run_cons h
    have F := step_facts P s op r1 i h1
    rcases List.mem_append.mp hh with a | a
    · obtain ⟨_, p1, hp1, a1, a2, a3, a4⟩ := F.tick_ok pid n t a
      obtain ⟨p2, hp2, b1, b2, b3, b4⟩ := run_pers P ops r1.1 r2 F.inv h2 p1 hp1
      exact ⟨p2, hp2, by omega, by rw [b2, b3]; exact ⟨a2.1, fun _ hz => by omega⟩, a3, by omega⟩
    · obtain ⟨p2, hp2, b1, b2, b3⟩ := ih r1.1 r2 F.inv h2 pid n t a
      exact ⟨p2, hp2, b1, ⟨b2.1, fun hb hz => b2.2 (fun d hd' => hb d (List.mem_append.mpr (Or.inr hd')))
        (F.slack_zero (fun d hd' => hb d (List.mem_append.mpr (Or.inl hd'))) hz)⟩, b3⟩

/-! ## mode-level histories (`mflat`) -/

theorem run_append (P : Nat → List Cmd) (a b : List Op) : ∀ (s s1 s2 : St) (t1 t2 : List Obs),
    run P s a = some (s1, t1) → run P s1 b = some (s2, t2) → run P s (a ++ b) = some (s2, t1 ++ t2) := by
  induction a with
  | nil => intro s s1 s2 t1 t2 h1 h2; simp [run] at h1; obtain ⟨rfl, rfl⟩ := h1; simpa using h2
  | cons op a ih =>
    intro s s1 s2 t1 t2 h1 h2
    obtain ⟨r1, r2, e1, e2, e3⟩ := run_cons h1
    injection e3 with e3a e3b; subst e3a; subst e3b
    have := ih r1.1 r2.1 s2 r2.2 t2 e2 h2
    simp [run, e1, this]

theorem mflat_append (a b : List MOp) : ∀ ph, mflat ph (a ++ b) = mflat ph a ++ mflat (mphase ph a) b := by
  induction a with
  | nil => intro ph; rfl
  | cons x a ih =>
    intro ph
    cases x with
    | op o => simp [mflat, mphase, ih]
    | stop => cases ph <;> simp [mflat, mphase, ih]
    | finish =>
      rcases ph with _ | _ | ph <;> simp [mflat, mphase, ih]

/-- `delay.clear()` from the top level: every live handle of the manager is cancelled, nothing is left -/
theorem clear_step (P : Nat → List Cmd) (s : St) (i : Inv s) (r : St × List Obs) (h : run P s [.cmd .clear] = some r) :
    (∀ hd ∈ s.live, .cancel hd.hid ∈ r.2) ∧ r.1.live = [] ∧ r.1.delays = [] ∧ r.1.now = s.now := by
  have e : r = ((doClear s).1, (doClear s).2) := by
    simp [run, step, exec, fuel, stepCmd, cont] at h
    rw [← h]
  subst e
  refine ⟨?_, ?_, rfl, rfl⟩
  · intro hd hh
    have := i.live_entry hd hh
    simp only [doClear, List.mem_map]
    exact ⟨entryOf hd, this, rfl⟩
  · have g := doClear_good s i
    cases hl : (doClear s).1.live with
    | nil => rfl
    | cons x r =>
      have := g.inv.live_entry x (by rw [hl]; simp)
      simp [doClear] at this

end MpfVerif.Delay
