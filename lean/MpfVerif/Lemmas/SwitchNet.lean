import MpfVerif.Model.SwitchNet
/-!
# Lemmas about the multi-switch model with re-entrant dispatch (`Model/SwitchNet.lean`, C03)

`Track n n' tr`: going from `n` to `n'` while emitting `tr`, every switch's logical state is the value of the last
`process_switch` call for it in `tr` (its old state if there is none); `Mono n n'`: no switch disappears and no change
counter runs backwards.  Both are proved for the four mutually recursive dispatch functions at once (induction on the fuel),
then for the two loops of the wake-up.
-/
namespace MpfVerif.SwitchNet
open MpfVerif.Switch

def repOf (i : Nat) : NObs → Option Bool
  | .rep j st => if j = i then some st else none
  | _ => none

/-- the logical state of the last `process_switch` call for switch `i` in a trace -/
def lastRep (i : Nat) : List NObs → Option Bool
  | [] => none
  | o :: r => (lastRep i r).orElse (fun _ => repOf i o)

def stateOf (n : Net) (i : Nat) : Option Bool := (n.sws[i]?).map (·.state)

def epochOf (n : Net) (i : Nat) : Option Nat := (n.sws[i]?).map (·.epoch)

def Track (n n' : Net) (tr : List NObs) : Prop :=
  ∀ i, stateOf n' i = (stateOf n i).map (fun b => (lastRep i tr).getD b)

theorem lastRep_append (i : Nat) (a b : List NObs) : lastRep i (a ++ b) = (lastRep i b).orElse (fun _ => lastRep i a) := by
  induction a with
  | nil => simp [lastRep]
  | cons o r ih =>
    simp only [List.cons_append, lastRep, ih]
    cases lastRep i b <;> simp [Option.orElse]

theorem Track.trans {n n1 n2 : Net} {t1 t2 : List NObs} (h1 : Track n n1 t1) (h2 : Track n1 n2 t2) :
    Track n n2 (t1 ++ t2) := by
  intro i
  rw [h2 i, h1 i, lastRep_append]
  cases stateOf n i <;> cases lastRep i t2 <;> simp [Option.orElse]

theorem Track.same (n : Net) (tr : List NObs) (h : ∀ i, lastRep i tr = none) : Track n n tr := by
  intro i
  rw [h i]
  cases stateOf n i <;> simp

theorem Track.nil (n : Net) : Track n n [] := Track.same n [] (fun _ => rfl)

theorem Track.overflow (n : Net) : Track n n [.overflow] := Track.same n _ (fun _ => rfl)

theorem Track.cons {n n' : Net} {tr : List NObs} (o : NObs) (ho : ∀ i, repOf i o = none) (h : Track n n' tr) :
    Track n n' (o :: tr) := by
  have : Track n n [o] := Track.same n [o] (fun i => by simp [lastRep, ho i, Option.orElse])
  exact this.trans h

theorem modAt_get (l : List NSw) (i j : Nat) (f : NSw → NSw) :
    (modAt l i f)[j]? = if j = i then (l[j]?).map f else l[j]? := by
  induction l generalizing i j with
  | nil => simp [modAt]
  | cons s r ih =>
    cases i with
    | zero => cases j <;> simp [modAt]
    | succ i =>
      cases j with
      | zero => simp [modAt]
      | succ j => simp [modAt, ih]

/-- an update of one switch that leaves its logical state alone is invisible to `Track` -/
theorem Track.upd (n : Net) (i : Nat) (f : NSw → NSw) (hf : ∀ s, (f s).state = s.state)
    (n' : Net) (hn : n'.sws = modAt n.sws i f) : Track n n' [] := by
  intro j
  simp only [stateOf, hn, modAt_get, lastRep, Option.getD_none]
  split
  · cases n.sws[j]? <;> simp [hf]
  · cases n.sws[j]? <;> simp

theorem addTimedN_state (s : NSw) (k : Nat) (e : TEntry) : (addTimedN s k e).state = s.state := rfl
theorem addTimedN_epoch (s : NSw) (k : Nat) (e : TEntry) : (addTimedN s k e).epoch = s.epoch := rfl
theorem setReg_state (s : NSw) (st : Bool) (l : List NReg) : (s.setReg st l).state = s.state := by
  unfold NSw.setReg; split <;> rfl
theorem setReg_epoch (s : NSw) (st : Bool) (l : List NReg) : (s.setReg st l).epoch = s.epoch := by
  unfold NSw.setReg; split <;> rfl
theorem setReg_lastChange (s : NSw) (st : Bool) (l : List NReg) : (s.setReg st l).lastChange = s.lastChange := by
  unfold NSw.setReg; split <;> rfl

theorem addHN_state (s : NSw) (now id : Nat) (st : Bool) (ms cb : Nat) : (addHN s now id st ms cb).state = s.state := by
  unfold addHN
  cases s.lastChange with
  | none => simp [setReg_state]
  | some lc => simp only; split <;> simp [addTimedN_state, setReg_state]

theorem removeHN_state (s : NSw) (st : Bool) (ms cb : Nat) : (removeHN s st ms cb).state = s.state := by
  simp [removeHN, setReg_state]

theorem addHN_epoch (s : NSw) (now id : Nat) (st : Bool) (ms cb : Nat) : (addHN s now id st ms cb).epoch = s.epoch := by
  unfold addHN
  cases s.lastChange with
  | none => simp [setReg_epoch]
  | some lc => simp only; split <;> simp [addTimedN_epoch, setReg_epoch]

theorem removeHN_epoch (s : NSw) (st : Bool) (ms cb : Nat) : (removeHN s st ms cb).epoch = s.epoch := by
  simp [removeHN, setReg_epoch]

/-- a real change: the state becomes the reported one -/
theorem Track.changed (n : Net) (i : Nat) (st : Bool) (now : Nat) :
    Track n (n.upd i (fun s => changedN s st now)) [.rep i st] := by
  intro j
  simp only [stateOf, Net.upd, modAt_get, lastRep, repOf, Option.orElse]
  by_cases h : j = i
  · subst h
    cases n.sws[j]? <;> simp [changedN]
  · have h' : ¬ i = j := fun e => h e.symm
    cases n.sws[j]? <;> simp [h, h']

/-! ## the four dispatch functions at once -/

def TrackAll (f : Nat) : Prop :=
  (∀ P d acts n, Track n (runActs f P d acts n).1 (runActs f P d acts n).2) ∧
  (∀ P d a n, Track n (runAct f P d a n).1 (runAct f P d a n).2) ∧
  (∀ P d i st ep rs n, Track n (walk f P d i st ep rs n).1 (walk f P d i st ep rs n).2) ∧
  (∀ P d i st ms n, Track n (monitors f P d i st ms n).1 (monitors f P d i st ms n).2)

theorem trackAll : ∀ f, TrackAll f := by
  intro f
  induction f with
  | zero =>
    refine ⟨?_, ?_, ?_, ?_⟩ <;> intros <;> simp only [runActs, runAct, walk, monitors] <;> exact Track.overflow _
  | succ f ih =>
    obtain ⟨ihActs, ihAct, ihWalk, ihMon⟩ := ih
    refine ⟨?_, ?_, ?_, ?_⟩
    · intro P d acts n
      cases acts with
      | nil => simp only [runActs]; exact Track.nil n
      | cons a r =>
        simp only [runActs]
        exact (ihAct P d a n).trans (ihActs P d r _)
    · intro P d a n
      cases a with
      | add i st ms cb =>
        simp only [runAct]
        exact Track.upd n i _ (fun s => addHN_state s _ _ _ _ _) _ rfl
      | remove i st ms cb =>
        simp only [runAct]
        exact Track.upd n i _ (fun s => removeHN_state s _ _ _) _ rfl
      | report i l v =>
        simp only [runAct]
        split
        · exact Track.nil n
        · split
          · exact Track.nil n
          · rename_i s hs
            split
            · rename_i hdup
              -- duplicate: the reported state is the state it has
              intro j
              simp only [stateOf, lastRep, repOf, Option.orElse]
              by_cases h : j = i
              · subst h; simp [hs, hdup]
              · have h' : ¬ i = j := fun e => h e.symm
                cases n.sws[j]? <;> simp [h']
            · have t1 := Track.changed n i (logicalOf s.invert l v) n.now
              have t2 := ihWalk P (d + 1) i (logicalOf s.invert l v) (s.epoch + 1) (s.reg (logicalOf s.invert l v))
                (n.upd i (fun x => changedN x (logicalOf s.invert l v) n.now))
              have t3 := ihMon P (d + 1) i (logicalOf s.invert l v)
                (walk f P (d + 1) i (logicalOf s.invert l v) (s.epoch + 1) (s.reg (logicalOf s.invert l v))
                  (n.upd i (fun x => changedN x (logicalOf s.invert l v) n.now))).1.mons
                (walk f P (d + 1) i (logicalOf s.invert l v) (s.epoch + 1) (s.reg (logicalOf s.invert l v))
                  (n.upd i (fun x => changedN x (logicalOf s.invert l v) n.now))).1
              have := (t1.trans t2).trans t3
              simpa using this
    · intro P d i st ep rs n
      cases rs with
      | nil => simp only [walk]; exact Track.nil n
      | cons r rest =>
        simp only [walk]
        split
        · exact Track.nil n
        · rename_i s hs
          split
          · exact ihWalk P d i st ep rest n
          · split
            · exact Track.cons _ (fun _ => rfl) ((ihActs P d (P r.cb) n).trans (ihWalk P d i st ep rest _))
            · split
              · have t1 : Track n (n.upd i (fun s => addTimedN s (s.lastChange.getD 0 + r.ms) ⟨r.cb, st, r.ms⟩)) [] :=
                  Track.upd n i _ (fun s => addTimedN_state s _ _) _ rfl
                have := t1.trans (ihWalk P d i st ep rest _)
                simpa using this
              · exact ihWalk P d i st ep rest n
    · intro P d i st ms n
      cases ms with
      | nil => simp only [monitors]; exact Track.nil n
      | cons m rest =>
        simp only [monitors]
        exact Track.cons _ (fun _ => rfl) ((ihActs P d (P m) n).trans (ihMon P d i st rest _))

theorem track_procEntries (f : Nat) (P : NProg) (i k ep : Nat) (es : List TEntry) : ∀ n,
    Track n (procEntriesN f P i k ep es n).1 (procEntriesN f P i k ep es n).2 := by
  induction es with
  | nil => intro n; exact Track.nil n
  | cons e rest ih =>
    intro n
    simp only [procEntriesN]
    split
    · exact Track.nil n
    · split
      · exact Track.nil n
      · split
        · exact Track.cons _ (fun _ => rfl) (((trackAll f).1 P 1 (P e.cb) n).trans (ih _))
        · exact ih n

theorem track_procKeys (f : Nat) (P : NProg) (i ep : Nat) (ks : List Nat) : ∀ n,
    Track n (procKeysN f P i ep ks n).1 (procKeysN f P i ep ks n).2 := by
  induction ks with
  | nil => intro n; exact Track.nil n
  | cons k ks ih =>
    intro n
    simp only [procKeysN]
    split
    · exact Track.nil n
    · rename_i s hs
      split
      · exact Track.nil n
      · split
        · have t1 := track_procEntries f P i k ep (lookupT k s.timed) n
          have t2 : Track (procEntriesN f P i k ep (lookupT k s.timed) n).1
              ((procEntriesN f P i k ep (lookupT k s.timed) n).1.upd i
                (fun s => if s.epoch = ep then { s with timed := eraseT k s.timed } else s)) [] :=
            Track.upd _ i _ (fun s => by split <;> rfl) _ rfl
          have := (t1.trans t2).trans (ih _)
          simpa using this
        · exact ih n

theorem track_step (fuel : Nat) (P : NProg) (n : Net) (op : NOp) (r : Net × List NObs) (h : stepN fuel P n op = some r) :
    Track n r.1 r.2 := by
  cases op with
  | act a => simp only [stepN] at h; injection h with h; subst h; exact (trackAll (fuel + 1)).2.1 P 0 a n
  | to t =>
    simp only [stepN] at h
    split at h
    · injection h with h; subst h; exact Track.nil n
    · cases h
  | wake i =>
    simp only [stepN] at h
    split at h
    · cases h
    · rename_i s hs
      split at h
      · cases h
      · split at h
        · injection h with h; subst h
          have t0 : Track n (n.upd i (fun s => { s with wake := none })) [] := Track.upd n i (fun s => { s with wake := none }) (fun _ => rfl) _ rfl
          have t1 := track_procKeys fuel P i s.epoch (s.timed.map (·.1)) (n.upd i (fun s => { s with wake := none }))
          have t2 : Track (procKeysN fuel P i s.epoch (s.timed.map (·.1)) (n.upd i (fun s => { s with wake := none }))).1
              ((procKeysN fuel P i s.epoch (s.timed.map (·.1)) (n.upd i (fun s => { s with wake := none }))).1.upd i
                (fun s => { s with wake := minKey s.timed })) [] :=
            Track.upd _ i (fun s => { s with wake := minKey s.timed }) (fun _ => rfl) _ rfl
          have := (t0.trans t1).trans t2
          simpa using this
        · cases h
  | monitor m on =>
    simp only [stepN] at h
    injection h with h; subst h
    intro j
    simp [stateOf, lastRep]
    cases n.sws[j]? <;> simp

theorem runN_cons {fuel : Nat} {P : NProg} {n : Net} {op : NOp} {ops : List NOp} {r : Net × List NObs}
    (h : runN fuel P n (op :: ops) = some r) :
    ∃ r1 r2, stepN fuel P n op = some r1 ∧ runN fuel P r1.1 ops = some r2 ∧ r = (r2.1, r1.2 ++ r2.2) := by
  simp only [runN] at h
  cases h1 : stepN fuel P n op with
  | none => simp [h1] at h
  | some r1 =>
    simp only [h1] at h
    cases h2 : runN fuel P r1.1 ops with
    | none => simp [h2] at h
    | some r2 => simp only [h2] at h; injection h with h; exact ⟨r1, r2, rfl, h2, h.symm⟩

theorem track_run (fuel : Nat) (P : NProg) (ops : List NOp) : ∀ (n : Net) (r : Net × List NObs),
    runN fuel P n ops = some r → Track n r.1 r.2 := by
  induction ops with
  | nil => intro n r h; simp [runN] at h; subst h; exact Track.nil n
  | cons op ops ih =>
    intro n r h
    obtain ⟨r1, r2, h1, h2, rfl⟩ := runN_cons h
    exact (track_step fuel P n op r1 h1).trans (ih r1.1 r2 h2)

/-! ## the future of `wait_for_switch` -/

theorem futAlong_resolved (id : Nat) (tr : List NObs) : ∀ (f : Fut) (x : Nat × Nat), f.result = some x →
    futAlong id f tr = f := by
  induction tr with
  | nil => intro f x _; rfl
  | cons o r ih =>
    intro f x hx
    cases o with
    | call sw cb st ms t =>
      simp only [futAlong]
      split
      · have : f.onCall sw t = f := by simp [Fut.onCall, hx]
        rw [this]; exact ih f x hx
      · exact ih f x hx
    | mon m sw st => exact ih f x hx
    | rep sw st => exact ih f x hx
    | overflow => exact ih f x hx

theorem futAlong_fresh (id : Nat) (tr : List NObs) : ∀ (k : Nat),
    futAlong id { result := none, sets := k } tr =
      match firstCall id tr with
      | some x => { result := some x, sets := k + 1 }
      | none => { result := none, sets := k } := by
  induction tr with
  | nil => intro k; rfl
  | cons o r ih =>
    intro k
    cases o with
    | call sw cb st ms t =>
      simp only [futAlong, firstCall]
      split
      · simp only [Fut.onCall]
        exact futAlong_resolved id r _ (sw, t) rfl
      · exact ih k
    | mon m sw st => exact ih k
    | rep sw st => exact ih k
    | overflow => exact ih k

end MpfVerif.SwitchNet
