import MpfVerif.Model.Framing3
import MpfVerif.Lemmas.Framing
/-! Helper lemmas for `Model/Framing3.lean` (C14, third part). -/
namespace MpfVerif.Framing3
open MpfVerif.Framing MpfVerif.Framing2

/-! ## (a) OPP platform level -/

def nbits (m : Bool) : Nat := if m then 64 else 32

theorem byteBits_length (b : Nat) : (byteBits b).length = 8 := by simp [byteBits]

theorem decode_good_length (f : Bytes) (m : Bool) (a : Nat) (b : List Bool) (h : decode f = .good m a b) :
    b.length = nbits m := by
  unfold decode at h
  split at h
  · split at h
    · split at h
      · injection h with h1 h2 h3; subst h1 h3; simp [beBits, byteBits, nbits]
      · cases h
    · cases h
  · split at h
    · split at h
      · injection h with h1 h2 h3; subst h1 h3; simp [beBits, byteBits, nbits]
      · cases h
    · cases h
  · cases h

/-- every card has been read at least once (`old_state` is an int) -/
def AllRead (cs : List OCard) : Prop := ∀ c ∈ cs, c.old.isSome = true

/-- MPF's state of every input is the complement of the card's `old_state` bit, and `old_state` has the card's width -/
def Mirror (cs : List OCard) : Prop :=
  ∀ c ∈ cs, ∃ o, c.old = some o ∧ c.sw = o.map (!·) ∧ o.length = nbits c.mtx

def LenOk (cs : List OCard) : Prop := ∀ c ∈ cs, ∀ o, c.old = some o → o.length = nbits c.mtx

theorem oldOf_setInit (m' : Bool) (a' : Nat) (b : List Bool) (m : Bool) (a : Nat) (cs : List OCard) :
    oldOf m a (setInit m' a' b cs) =
      if m' = m ∧ a' = a then (oldOf m a cs).map (fun _ => some b) else oldOf m a cs := by
  induction cs with
  | nil => simp [setInit, oldOf]
  | cons c r ih =>
    unfold setInit
    by_cases h : c.mtx = m' ∧ c.addr = a'
    · rw [if_pos h]
      obtain ⟨h1, h2⟩ := h
      by_cases g : m' = m ∧ a' = a
      · obtain ⟨g1, g2⟩ := g
        subst g1 g2
        simp [oldOf, h1, h2]
      · rw [if_neg g]
        have : ¬ (c.mtx = m ∧ c.addr = a) := by rw [h1, h2]; exact g
        simp [oldOf, h1, h2, g]
    · rw [if_neg h]
      by_cases g : c.mtx = m ∧ c.addr = a
      · have ng : ¬ (m' = m ∧ a' = a) := by
          intro ⟨x, y⟩; exact h ⟨g.1.trans x.symm, g.2.trans y.symm⟩
        simp [oldOf, g, ng]
      · simp only [oldOf, g, if_false]
        exact ih

theorem lenOk_setInit (m : Bool) (a : Nat) (b : List Bool) (hb : b.length = nbits m) (cs : List OCard) (h : LenOk cs) :
    LenOk (setInit m a b cs) := by
  induction cs with
  | nil => simpa [setInit] using h
  | cons c r ih =>
    unfold setInit
    have hr : LenOk r := fun x hx => h x (List.mem_cons_of_mem _ hx)
    by_cases g : c.mtx = m ∧ c.addr = a
    · rw [if_pos g]
      intro x hx o ho
      rcases List.mem_cons.mp hx with rfl | hx
      · simp only at ho
        injection ho with ho; subst ho
        simpa [g.1] using hb
      · exact hr x hx o ho
    · rw [if_neg g]
      intro x hx o ho
      rcases List.mem_cons.mp hx with rfl | hx
      · exact h x List.mem_cons_self o ho
      · exact ih hr x hx o ho

theorem oldOf_setSteady (m' : Bool) (a' : Nat) (b : List Bool) (m : Bool) (a : Nat) (cs : List OCard)
    (hr : AllRead cs) :
    oldOf m a (setSteady m' a' b cs).1 =
      if m' = m ∧ a' = a then (oldOf m a cs).map (fun _ => some b) else oldOf m a cs := by
  induction cs with
  | nil => simp [setSteady, oldOf]
  | cons c r ih =>
    have hc := hr c List.mem_cons_self
    have hr' : AllRead r := fun x hx => hr x (List.mem_cons_of_mem _ hx)
    unfold setSteady
    by_cases h : c.mtx = m' ∧ c.addr = a'
    · rw [if_pos h]
      obtain ⟨h1, h2⟩ := h
      cases ho : c.old with
      | none => rw [ho] at hc; cases hc
      | some o =>
        simp only
        by_cases g : m' = m ∧ a' = a
        · obtain ⟨g1, g2⟩ := g
          subst g1 g2
          simp [oldOf, h1, h2]
        · rw [if_neg g]
          have : ¬ (c.mtx = m ∧ c.addr = a) := by rw [h1, h2]; exact g
          simp [oldOf, h1, h2, g]
    · rw [if_neg h]
      by_cases g : c.mtx = m ∧ c.addr = a
      · have ng : ¬ (m' = m ∧ a' = a) := by
          intro ⟨x, y⟩; exact h ⟨g.1.trans x.symm, g.2.trans y.symm⟩
        simp [oldOf, g, ng]
      · simp only [oldOf, g, if_false]
        exact ih hr'

theorem mirror_setSteady (m : Bool) (a : Nat) (b : List Bool) (hb : b.length = nbits m) (cs : List OCard)
    (h : Mirror cs) : Mirror (setSteady m a b cs).1 := by
  induction cs with
  | nil => simpa [setSteady] using h
  | cons c r ih =>
    have hr : Mirror r := fun x hx => h x (List.mem_cons_of_mem _ hx)
    obtain ⟨o, ho, hsw, hlen⟩ := h c List.mem_cons_self
    unfold setSteady
    by_cases g : c.mtx = m ∧ c.addr = a
    · rw [if_pos g, ho]
      simp only
      intro x hx
      rcases List.mem_cons.mp hx with rfl | hx
      · refine ⟨b, rfl, ?_, ?_⟩
        · simp only
          exact updSw_follows o b c.sw (by rw [hlen, hb, g.1]) hsw
        · simpa [g.1] using hb
      · exact hr x hx
    · rw [if_neg g]
      intro x hx
      rcases List.mem_cons.mp hx with rfl | hx
      · exact ⟨o, ho, hsw, hlen⟩
      · exact ih hr x hx

theorem mirror_allRead (cs : List OCard) (h : Mirror cs) : AllRead cs := by
  intro c hc
  obtain ⟨o, ho, _⟩ := h c hc
  simp [ho]

/-- one frame, steady state -/
theorem steadyFrame_spec (c : ChainSt) (f : Bytes) (m : Bool) (a : Nat) (h : Mirror c.cards) :
    oldOf m a (steadyFrame c f).1.cards = (oldOf m a c.cards).map (fun o => lastGood m a o [f]) ∧
    Mirror (steadyFrame c f).1.cards := by
  unfold steadyFrame
  cases hd : decode f with
  | good m' a' b =>
    simp only
    refine ⟨?_, mirror_setSteady m' a' b (decode_good_length f m' a' b hd) _ h⟩
    rw [oldOf_setSteady m' a' b m a c.cards (mirror_allRead _ h)]
    by_cases g : m' = m ∧ a' = a
    · simp [lastGood, hd, g]
    · rw [if_neg g]
      generalize oldOf m a c.cards = x; cases x <;> simp [lastGood, hd, g]
  | badCrc => simp only; exact ⟨by generalize oldOf m a c.cards = x; cases x <;> simp [lastGood, hd], h⟩
  | other => simp only; exact ⟨by generalize oldOf m a c.cards = x; cases x <;> simp [lastGood, hd], h⟩

theorem lastGood_cons (m : Bool) (a : Nat) (cur : Option (List Bool)) (f : Bytes) (r : List Bytes) :
    lastGood m a cur (f :: r) = lastGood m a (lastGood m a cur [f]) r := by
  simp only [lastGood]
  cases decode f with
  | good m' a' b => by_cases g : m' = m ∧ a' = a <;> simp [g]
  | badCrc => rfl
  | other => rfl

theorem steadyFrames_spec (fs : List Bytes) : ∀ (c : ChainSt) (m : Bool) (a : Nat), Mirror c.cards →
    oldOf m a (steadyFrames c fs).1.cards = (oldOf m a c.cards).map (fun o => lastGood m a o fs) ∧
    Mirror (steadyFrames c fs).1.cards := by
  induction fs with
  | nil =>
    intro c m a h
    exact ⟨by simp only [steadyFrames]; generalize oldOf m a c.cards = x; cases x <;> simp [lastGood], h⟩
  | cons f r ih =>
    intro c m a h
    obtain ⟨h1, h2⟩ := steadyFrame_spec c f m a h
    obtain ⟨h3, h4⟩ := ih (steadyFrame c f).1 m a h2
    refine ⟨?_, h4⟩
    show oldOf m a (steadyFrames (steadyFrame c f).1 r).1.cards = _
    rw [h3, h1, Option.map_map]
    congr 1
    funext o
    exact (lastGood_cons m a o f r).symm

theorem initFrame_spec (c : ChainSt) (f : Bytes) (m : Bool) (a : Nat) :
    oldOf m a (initFrame c f).cards = (oldOf m a c.cards).map (fun o => lastGood m a o [f]) := by
  unfold initFrame
  cases hd : decode f with
  | good m' a' b =>
    simp only
    rw [oldOf_setInit]
    by_cases g : m' = m ∧ a' = a
    · simp [lastGood, hd, g]
    · rw [if_neg g]
      generalize oldOf m a c.cards = x; cases x <;> simp [lastGood, hd, g]
  | badCrc => simp only; generalize oldOf m a c.cards = x; cases x <;> simp [lastGood, hd]
  | other => simp only; generalize oldOf m a c.cards = x; cases x <;> simp [lastGood, hd]

theorem initFrames_spec (fs : List Bytes) : ∀ (c : ChainSt) (m : Bool) (a : Nat),
    oldOf m a (fs.foldl initFrame c).cards = (oldOf m a c.cards).map (fun o => lastGood m a o fs) := by
  induction fs with
  | nil => intro c m a; simp only [List.foldl_nil]; generalize oldOf m a c.cards = x; cases x <;> simp [lastGood]
  | cons f r ih =>
    intro c m a
    rw [List.foldl_cons, ih, initFrame_spec, Option.map_map]
    congr 1
    funext o
    exact (lastGood_cons m a o f r).symm

theorem initFrame_lenOk (c : ChainSt) (f : Bytes) (h : LenOk c.cards) : LenOk (initFrame c f).cards := by
  unfold initFrame
  cases hd : decode f with
  | good m a b => exact lenOk_setInit m a b (decode_good_length f m a b hd) _ h
  | badCrc => exact h
  | other => exact h

theorem initFrames_lenOk (fs : List Bytes) : ∀ c : ChainSt, LenOk c.cards → LenOk (fs.foldl initFrame c).cards := by
  induction fs with
  | nil => intro c h; exact h
  | cons f r ih => intro c h; rw [List.foldl_cons]; exact ih _ (initFrame_lenOk c f h)

theorem hwCards_spec (cs : List OCard) : ∀ cs', hwCards cs = some cs' → LenOk cs →
    Mirror cs' ∧ ∀ m a, oldOf m a cs' = oldOf m a cs := by
  induction cs with
  | nil => intro cs' h _; simp [hwCards] at h; subst h; exact ⟨(by intro c hc; cases hc), fun _ _ => rfl⟩
  | cons c r ih =>
    intro cs' h hl
    unfold hwCards at h
    cases hc : hwCard c with
    | none => simp [hc] at h
    | some c' =>
      cases hr : hwCards r with
      | none => simp [hc, hr] at h
      | some r' =>
        simp [hc, hr] at h
        subst h
        obtain ⟨ihm, iho⟩ := ih r' hr (fun x hx => hl x (List.mem_cons_of_mem _ hx))
        unfold hwCard at hc
        cases ho : c.old with
        | none => simp [ho] at hc
        | some o =>
          simp [ho] at hc
          subst hc
          constructor
          · intro x hx
            rcases List.mem_cons.mp hx with rfl | hx
            · exact ⟨o, rfl, rfl, hl c List.mem_cons_self o ho⟩
            · exact ihm x hx
          · intro m a
            simp only [oldOf, iho, ho]

/-! chunking: the steady-state reader is `_parse_msg` followed by the frame handlers -/

theorem steadyFrame_ps (c : ChainSt) (p : PSt) (f : Bytes) :
    (steadyFrame { c with ps := p } f).1 = { (steadyFrame c f).1 with ps := p } ∧
    (steadyFrame { c with ps := p } f).2 = (steadyFrame c f).2 := by
  unfold steadyFrame
  cases decode f <;> simp

theorem steadyFrames_ps (fs : List Bytes) : ∀ (c : ChainSt) (p : PSt),
    (steadyFrames { c with ps := p } fs).1 = { (steadyFrames c fs).1 with ps := p } ∧
    (steadyFrames { c with ps := p } fs).2 = (steadyFrames c fs).2 := by
  induction fs with
  | nil => intro c p; simp [steadyFrames]
  | cons f r ih =>
    intro c p
    obtain ⟨a1, a2⟩ := steadyFrame_ps c p f
    simp only [steadyFrames]
    rw [a1, a2]
    obtain ⟨b1, b2⟩ := ih (steadyFrame c f).1 p
    exact ⟨b1, by rw [b2]⟩

theorem steadyFrames_append (xs : List Bytes) : ∀ (c : ChainSt) (ys : List Bytes),
    (steadyFrames c (xs ++ ys)).1 = (steadyFrames (steadyFrames c xs).1 ys).1 ∧
    (steadyFrames c (xs ++ ys)).2 = (steadyFrames c xs).2 ++ (steadyFrames (steadyFrames c xs).1 ys).2 := by
  induction xs with
  | nil => intro c ys; simp [steadyFrames]
  | cons f r ih =>
    intro c ys
    obtain ⟨h1, h2⟩ := ih (steadyFrame c f).1 ys
    simp only [List.cons_append, steadyFrames]
    exact ⟨h1, by rw [h2, List.append_assoc]⟩

theorem steadyFrames_ps_id (fs : List Bytes) : ∀ c : ChainSt, (steadyFrames c fs).1.ps = c.ps := by
  induction fs with
  | nil => intro c; rfl
  | cons f r ih =>
    intro c
    simp only [steadyFrames]
    rw [ih]
    unfold steadyFrame
    cases decode f <;> rfl

/-- the chunked reader = the frame handlers run over the frames `_parse_msg` cuts out of the chunk list -/
theorem steadyReads_eq (ks : List Bytes) : ∀ c : ChainSt,
    (steadyReads c ks).1 = { (steadyFrames c (parseChunks c.ps ks).2).1 with ps := (parseChunks c.ps ks).1 } ∧
    (steadyReads c ks).2 = (steadyFrames c (parseChunks c.ps ks).2).2 := by
  induction ks with
  | nil =>
    intro c
    simp [steadyReads, parseChunks, steadyFrames]
  | cons k r ih =>
    intro c
    simp only [steadyReads, parseChunks]
    obtain ⟨a1, a2⟩ := steadyFrames_ps (parseChunk c.ps k).2 c (parseChunk c.ps k).1
    have e1 : (steadyRead c k).1 = { (steadyFrames c (parseChunk c.ps k).2).1 with ps := (parseChunk c.ps k).1 } := a1
    have e2 : (steadyRead c k).2 = (steadyFrames c (parseChunk c.ps k).2).2 := a2
    obtain ⟨i1, i2⟩ := ih (steadyRead c k).1
    have eps : (steadyRead c k).1.ps = (parseChunk c.ps k).1 := by rw [e1]
    rw [eps] at i1 i2
    obtain ⟨p1, p2⟩ := steadyFrames_append (parseChunk c.ps k).2 c (parseChunks (parseChunk c.ps k).1 r).2
    obtain ⟨q1, q2⟩ := steadyFrames_ps (parseChunks (parseChunk c.ps k).1 r).2 (steadyFrames c (parseChunk c.ps k).2).1
      (parseChunk c.ps k).1
    constructor
    · rw [i1, p1, e1, q1]
    · rw [i2, e2, p2, e1, q2]

/-! chains are independent -/

theorem modChain_other (i j : Nat) (f : ChainSt → ChainSt × List OEv) (s : OSt) (h : i ≠ j) :
    (modChain i f s).1.chains[j]? = s.chains[j]? := by
  unfold modChain
  cases hc : s.chains[i]? with
  | none => rfl
  | some c => simp only; exact List.getElem?_set_ne h

/-! ## (c) PKONE scanners -/

theorem spanDig_append (r : Bytes) : (spanDig r).1 ++ (spanDig r).2 = r := by
  induction r with
  | nil => rfl
  | cons b t ih =>
    unfold spanDig
    split
    · simp [ih]
    · simp

theorem spanDig_digits (r : Bytes) : ∀ x ∈ (spanDig r).1, isDig x = true := by
  induction r with
  | nil => intro x hx; simp [spanDig] at hx
  | cons b t ih =>
    intro x hx
    unfold spanDig at hx
    split at hx
    · rcases List.mem_cons.mp hx with rfl | h
      · assumption
      · exact ih x h
    · simp at hx


end MpfVerif.Framing3
