import MpfVerif.Model.DriverGen
import MpfVerif.Lemmas.PyEff
/-!
# The hand model of the driver requests does what the generated programs do (C08)

One lemma per translated method of `Gen/DriverOps.lean`: folding the effects of a run of the generated program over the
timers and the command list gives exactly what the hand function of `Model/Driver.lean` computes (`genK … = handK …`).
The assumptions are explicit: the verify functions return ints for durations (proved in `Props/C08.lean` and passed in),
the platform's `max_pulse` feature is a number, `max_hold_duration` is a number or None (what config validation returns).
-/
set_option linter.unusedSimpArgs false
namespace MpfVerif.C08
open MpfVerif.Py MpfVerif.Driver MpfVerif.Gen.DriverOps

/-- hand result seen from an accumulated command list -/
def handK (s : Driver.St) (cmds0 : List Cmd) : Except Err (Driver.St × List Cmd) → Bool × Obs
  | .ok (s', cmds) => (true, ⟨s'.timedDisable, s'.limitDue, cmds0 ++ cmds.map Cmd.obs, s'.pend, false⟩)
  | .error _ => (false, ⟨s.timedDisable, s.limitDue, cmds0, s.pend, false⟩)

def outOk : Except Err Out → Bool
  | .ok _ => true | .error _ => false

def genK (s : Driver.St) (cmds0 : List Cmd) (r : List Eff × Except Err Out) : Bool × Obs :=
  (outOk r.2, r.1.foldl (applyEff s.now) ⟨s.timedDisable, s.limitDue, cmds0, s.pend, false⟩)

def NumOrNone (v : PyVal) : Prop := v = .none ∨ v.num.isSome = true

theorem num_int (a : Int) : (PyVal.int a).num = some (some (a * 1000000)) := rfl
theorem num_bool (b : Bool) : (PyVal.bool b).num = some (some (if b then 1000000 else 0)) := rfl

theorem num_flt (m : Int) : (PyVal.flt m).num = some (some m) := rfl
theorem num_nan : PyVal.nan.num = some none := rfl
theorem flt_ms (m : Int) : m * 1000000000 / 1000000 / 1000000 = m / 1000 := by omega

theorem pyCmp_wait0 : pyCmp ">" (.int 0) (.int 0) = .ok false := by rfl

theorem isInt_cases {v : PyVal} (h : v.isInt = true) : (∃ i, v = .int i) ∨ (∃ b, v = .bool b) := by
  cases v <;> simp_all [PyVal.isInt]

theorem timed_enable_run (c : Ctx) (ora : Oracle) (s : Driver.St) (l : Locals) (cmds0 : List Cmd)
    (hint : ∀ x v, vPulseMs c x = .ok v → v.isInt = true) (hint2 : ∀ x v, vTimedMs c x = .ok v → v.isInt = true) :
    genK s cmds0 (execEL c ora l [] timed_enable) =
      handK s cmds0 (doTimedEnable c s (l "timed_enable_ms") (l "hold_power") (l "pulse_ms") (l "pulse_power")) := by
  generalize hte : l "timed_enable_ms" = te
  generalize hhp : l "hold_power" = hp
  generalize hms : l "pulse_ms" = ms
  generalize hpw : l "pulse_power" = pw
  unfold doTimedEnable
  cases h1 : vPulseMs c ms with
  | error e =>
    simp only [vPulseMs] at h1
    rcases Classical.em (l "max_wait_ms" = .none) with hmw | hmw <;> simp [genK, handK, outOk, execEL, execES, evalArgs, evalA, evalE, argLocals, List.lookup, bind, Except.bind, pure, Except.pure, bindTarget, p_notify_psu_and_get_wait_ms, evalC, arith, applyEff, setTimer, addPend, enableNow, Eff.arg, Cmd.obs, delayMs, timed_enable, hmw, hte, hhp, hms, hpw, h1]
  | ok pd =>
    cases h2 : vPulsePower c pw with
    | error e =>
      simp only [vPulseMs, vPulsePower] at h1 h2
      rcases Classical.em (l "max_wait_ms" = .none) with hmw | hmw <;> simp [genK, handK, outOk, execEL, execES, evalArgs, evalA, evalE, argLocals, List.lookup, bind, Except.bind, pure, Except.pure, bindTarget, p_notify_psu_and_get_wait_ms, evalC, arith, applyEff, setTimer, addPend, enableNow, Eff.arg, Cmd.obs, delayMs, timed_enable, hmw, hte, hhp, hms, hpw, h1, h2]
    | ok pp =>
      cases h3 : vTimedMs c te with
      | error e =>
        simp only [vPulseMs, vPulsePower, vTimedMs] at h1 h2 h3
        rcases Classical.em (l "max_wait_ms" = .none) with hmw | hmw <;> simp [genK, handK, outOk, execEL, execES, evalArgs, evalA, evalE, argLocals, List.lookup, bind, Except.bind, pure, Except.pure, bindTarget, p_notify_psu_and_get_wait_ms, evalC, arith, applyEff, setTimer, addPend, enableNow, Eff.arg, Cmd.obs, delayMs, timed_enable, hmw, hte, hhp, hms, hpw, h1, h2, h3]
      | ok hd =>
        cases h4 : vHoldPower c hp with
        | error e =>
          simp only [vPulseMs, vPulsePower, vTimedMs, vHoldPower] at h1 h2 h3 h4
          rcases Classical.em (l "max_wait_ms" = .none) with hmw | hmw <;> simp [genK, handK, outOk, execEL, execES, evalArgs, evalA, evalE, argLocals, List.lookup, bind, Except.bind, pure, Except.pure, bindTarget, p_notify_psu_and_get_wait_ms, evalC, arith, applyEff, setTimer, addPend, enableNow, Eff.arg, Cmd.obs, delayMs, timed_enable, hmw, hte, hhp, hms, hpw, h1, h2, h3, h4]
        | ok h =>
          have i1 := hint _ _ h1
          have i2 := hint2 _ _ h3
          simp only [vPulseMs, vPulsePower, vTimedMs, vHoldPower] at h1 h2 h3 h4
          rcases isInt_cases i1 with ⟨a, rfl⟩ | ⟨_ | _, rfl⟩ <;> rcases isInt_cases i2 with ⟨b, rfl⟩ | ⟨_ | _, rfl⟩ <;>
          rcases Classical.em (l "max_wait_ms" = .none) with hmw | hmw <;> simp [genK, handK, outOk, execEL, execES, evalArgs, evalA, evalE, argLocals, List.lookup, bind, Except.bind, pure, Except.pure, bindTarget, p_notify_psu_and_get_wait_ms, evalC, arith, applyEff, setTimer, addPend, enableNow, Eff.arg, Cmd.obs, delayMs, timed_enable, hmw, hte, hhp, hms, hpw, h1, h2, h3, h4]

theorem disable_run (c : Ctx) (ora : Oracle) (s : Driver.St) (l : Locals) (cmds0 : List Cmd) :
    genK s cmds0 (execEL c ora l [] disable) = handK s cmds0 (.ok (doDisable s)) := by
  simp [genK, handK, outOk, execEL, execES, evalArgs, evalA, evalE, argLocals, List.lookup, bind, Except.bind, pure, Except.pure, bindTarget, p_notify_psu_and_get_wait_ms, evalC, arith, applyEff, setTimer, addPend, enableNow, Eff.arg, Cmd.obs, delayMs, disable, doDisable]


theorem pulse_now_run (c : Ctx) (ora : Oracle) (s : Driver.St) (l : Locals) (cmds0 : List Cmd)
    (hpm : (l "pulse_ms").isInt = true) (hmax : (c.env "max_pulse").num.isSome = true)
    (hint : ∀ x v, vPulseMs c x = .ok v → v.isInt = true) (hint2 : ∀ x v, vTimedMs c x = .ok v → v.isInt = true) :
    genK s cmds0 (execEL c ora l [] p_pulse_now) = handK s cmds0 (pulseNow c s (l "pulse_ms") (l "pulse_power")) := by
  unfold pulseNow
  by_cases hw : (c.cfg "pulse_with_timed_enable").truthy = true
  · have key := timed_enable_run c ora s
      (argLocals [("pulse_ms", l "pulse_ms"), ("pulse_power", l "pulse_power")]) cmds0 hint hint2
    simp only [argLocals, List.lookup] at key
    simp [genK, handK, outOk, execEL, execES, evalArgs, evalA, evalE, argLocals, List.lookup, bind, Except.bind, pure, Except.pure, bindTarget, p_notify_psu_and_get_wait_ms, evalC, arith, applyEff, setTimer, addPend, enableNow, Eff.arg, Cmd.obs, delayMs, p_pulse_now, hw] at key ⊢
    rcases hx : execEL c ora (argLocals [("pulse_ms", l "pulse_ms"), ("pulse_power", l "pulse_power")]) [] timed_enable
      with ⟨L1, r1⟩
    rw [hx] at key
    rcases r1 with e | (l1 | v) <;> simpa using key
  · rcases isInt_cases hpm with ⟨a, ha⟩ | ⟨_ | _, ha⟩ <;>
    rcases hm : (c.env "max_pulse").num with _ | (_ | m) <;> simp [hm] at hmax <;>
    simp [genK, handK, outOk, execEL, execES, evalArgs, evalA, evalE, argLocals, List.lookup, bind, Except.bind, pure, Except.pure, bindTarget, p_notify_psu_and_get_wait_ms, evalC, arith, applyEff, setTimer, addPend, enableNow, Eff.arg, Cmd.obs, delayMs, p_pulse_now, hw, ha, pyCmp, num_int, num_bool, hm, cmpOp, msOf]
    · by_cases h0 : 0 < a * 1000000 <;> by_cases h1 : a * 1000000 ≤ m <;>
        simp [h0, h1, applyEff, setTimer, addPend, enableNow, Eff.arg, Cmd.obs, delayMs, List.lookup]
    · by_cases h1 : 1000000 ≤ m <;> simp [h1, applyEff, setTimer, addPend, enableNow, Eff.arg, Cmd.obs, delayMs, List.lookup]


theorem pulse_refines (c : Ctx) (ora : Oracle) (s : Driver.St) (ms pw : PyVal)
    (hmax : (c.env "max_pulse").num.isSome = true)
    (hint : ∀ x v, vPulseMs c x = .ok v → v.isInt = true) (hint2 : ∀ x v, vTimedMs c x = .ok v → v.isInt = true) :
    hand s (doOp c s (.pulse ms pw)) = gen s (callE c ora pulse [("pulse_ms", ms), ("pulse_power", pw)]) := by
  cases h1 : vPulseMs c ms with
  | error e =>
    simp only [vPulseMs] at h1
    simp [hand, gen, doOp, callE, pulse, vPulseMs, vPulsePower, genK, handK, outOk, execEL, execES, evalArgs, evalA, evalE, argLocals, List.lookup, bind, Except.bind, pure, Except.pure, bindTarget, p_notify_psu_and_get_wait_ms, evalC, arith, applyEff, setTimer, addPend, enableNow, Eff.arg, Cmd.obs, delayMs, h1]
  | ok pm =>
    cases h2 : vPulsePower c pw with
    | error e =>
      simp only [vPulseMs, vPulsePower] at h1 h2
      simp [hand, gen, doOp, callE, pulse, vPulseMs, vPulsePower, genK, handK, outOk, execEL, execES, evalArgs, evalA, evalE, argLocals, List.lookup, bind, Except.bind, pure, Except.pure, bindTarget, p_notify_psu_and_get_wait_ms, evalC, arith, applyEff, setTimer, addPend, enableNow, Eff.arg, Cmd.obs, delayMs, h1, h2]
    | ok pp =>
      have ipm := hint _ _ h1
      have key := pulse_now_run c ora s (argLocals [("pulse_ms", pm), ("pulse_power", pp)]) []
        (by simpa [argLocals, List.lookup] using ipm) hmax hint hint2
      simp only [vPulseMs, vPulsePower] at h1 h2
      simp [hand, gen, doOp, callE, pulse, vPulseMs, vPulsePower, genK, handK, outOk, execEL, execES, evalArgs, evalA, evalE, argLocals, List.lookup, bind, Except.bind, pure, Except.pure, bindTarget, p_notify_psu_and_get_wait_ms, evalC, arith, applyEff, setTimer, addPend, enableNow, Eff.arg, Cmd.obs, delayMs, h1, h2, pyCmp, num_int, cmpOp]
      rw [execEL_frame]
      simp only [argLocals, List.lookup, genK, handK] at key
      simp at key
      rcases hx : execEL c ora (argLocals [("pulse_ms", pm), ("pulse_power", pp)]) [] p_pulse_now with ⟨L1, r1⟩
      rw [hx] at key
      rcases r1 with e | (l1 | v) <;> simp [List.foldl_append, applyEff, outOk] at key ⊢ <;> exact key.symm


theorem disable_refines (c : Ctx) (ora : Oracle) (s : Driver.St) :
    hand s (doOp c s .disable) = gen s (callE c ora disable []) := by
  simp [hand, gen, doOp, callE, disable, doDisable, genK, handK, outOk, execEL, execES, evalArgs, evalA, evalE, argLocals, List.lookup, bind, Except.bind, pure, Except.pure, bindTarget, p_notify_psu_and_get_wait_ms, evalC, arith, applyEff, setTimer, addPend, enableNow, Eff.arg, Cmd.obs, delayMs]

theorem timed_enable_refines (c : Ctx) (ora : Oracle) (s : Driver.St) (te hp ms pw : PyVal)
    (hint : ∀ x v, vPulseMs c x = .ok v → v.isInt = true) (hint2 : ∀ x v, vTimedMs c x = .ok v → v.isInt = true) :
    hand s (doOp c s (.timedEnable te hp ms pw)) =
      gen s (callE c ora timed_enable [("timed_enable_ms", te), ("hold_power", hp), ("pulse_ms", ms), ("pulse_power", pw)]) := by
  have key := timed_enable_run c ora s
    (argLocals [("timed_enable_ms", te), ("hold_power", hp), ("pulse_ms", ms), ("pulse_power", pw)]) []
    hint hint2
  simp only [argLocals, List.lookup, genK, handK] at key
  simp at key
  simp only [hand, gen, doOp, callE, argLocals]
  rcases hx : execEL c ora (argLocals [("timed_enable_ms", te), ("hold_power", hp), ("pulse_ms", ms), ("pulse_power", pw)]) []
    timed_enable with ⟨L1, r1⟩
  rw [hx] at key
  rcases hd : doTimedEnable c s te hp ms pw with e | ⟨s', cmds⟩ <;> rw [hd] at key <;>
  rcases r1 with e | (l1 | v) <;> simp [outOk] at key ⊢ <;> exact key.symm


theorem enable_refines (c : Ctx) (ora : Oracle) (s : Driver.St) (ms pw hp : PyVal)
    (hmd : NumOrNone (c.cfg "max_hold_duration")) :
    hand s (doOp c s (.enable ms pw hp)) =
      gen s (callE c ora enable [("pulse_ms", ms), ("pulse_power", pw), ("hold_power", hp)]) := by
  cases h1 : vPulseMs c ms with
  | error e =>
    simp only [vPulseMs] at h1
    simp [hand, gen, doOp, callE, enable, vPulseMs, vPulsePower, vHoldPower, genK, handK, outOk, execEL, execES, evalArgs, evalA, evalE, argLocals, List.lookup, bind, Except.bind, pure, Except.pure, bindTarget, p_notify_psu_and_get_wait_ms, evalC, arith, applyEff, setTimer, addPend, enableNow, Eff.arg, Cmd.obs, delayMs, h1]
  | ok pm =>
    cases h2 : vPulsePower c pw with
    | error e =>
      simp only [vPulseMs, vPulsePower] at h1 h2
      simp [hand, gen, doOp, callE, enable, vPulseMs, vPulsePower, vHoldPower, genK, handK, outOk, execEL, execES, evalArgs, evalA, evalE, argLocals, List.lookup, bind, Except.bind, pure, Except.pure, bindTarget, p_notify_psu_and_get_wait_ms, evalC, arith, applyEff, setTimer, addPend, enableNow, Eff.arg, Cmd.obs, delayMs, h1, h2]
    | ok pp =>
      cases h3 : vHoldPower c hp with
      | error e =>
        simp only [vPulseMs, vPulsePower, vHoldPower] at h1 h2 h3
        simp [hand, gen, doOp, callE, enable, vPulseMs, vPulsePower, vHoldPower, genK, handK, outOk, execEL, execES, evalArgs, evalA, evalE, argLocals, List.lookup, bind, Except.bind, pure, Except.pure, bindTarget, p_notify_psu_and_get_wait_ms, evalC, arith, applyEff, setTimer, addPend, enableNow, Eff.arg, Cmd.obs, delayMs, h1, h2, h3]
      | ok h =>
        simp only [vPulseMs, vPulsePower, vHoldPower] at h1 h2 h3
        cases h4 : pyCmp "==" h (.flt 0) with
        | error e => simp [hand, gen, doOp, callE, enable, vPulseMs, vPulsePower, vHoldPower, genK, handK, outOk, execEL, execES, evalArgs, evalA, evalE, argLocals, List.lookup, bind, Except.bind, pure, Except.pure, bindTarget, p_notify_psu_and_get_wait_ms, evalC, arith, applyEff, setTimer, addPend, enableNow, Eff.arg, Cmd.obs, delayMs, h1, h2, h3, h4]
        | ok z =>
          cases z with
          | true => simp [hand, gen, doOp, callE, enable, vPulseMs, vPulsePower, vHoldPower, genK, handK, outOk, execEL, execES, evalArgs, evalA, evalE, argLocals, List.lookup, bind, Except.bind, pure, Except.pure, bindTarget, p_notify_psu_and_get_wait_ms, evalC, arith, applyEff, setTimer, addPend, enableNow, Eff.arg, Cmd.obs, delayMs, h1, h2, h3, h4, throw, throwThe, MonadExceptOf.throw]
          | false =>
            rcases hmd with hn | hn
            · simp [hand, gen, doOp, callE, enable, p_enable_now, vPulseMs, vPulsePower, vHoldPower, genK, handK, outOk, execEL, execES, evalArgs, evalA, evalE, argLocals, List.lookup, bind, Except.bind, pure, Except.pure, bindTarget, p_notify_psu_and_get_wait_ms, evalC, arith, applyEff, setTimer, addPend, enableNow, Eff.arg, Cmd.obs, delayMs, h1, h2, h3, h4, hn, PyVal.truthy, pyCmp_wait0]
            · cases hl : s.limitDue <;> cases hv : c.cfg "max_hold_duration" with
              | none => simp [hv, PyVal.num] at hn
              | str x => simp [hv, PyVal.num] at hn
              | bool b => cases b <;> simp [hand, gen, doOp, callE, enable, p_enable_now, vPulseMs, vPulsePower, vHoldPower, genK, handK, outOk, execEL, execES, evalArgs, evalA, evalE, argLocals, List.lookup, bind, Except.bind, pure, Except.pure, bindTarget, p_notify_psu_and_get_wait_ms, evalC, arith, applyEff, setTimer, addPend, enableNow, Eff.arg, Cmd.obs, delayMs, h1, h2, h3, h4, hv, hl, PyVal.truthy, pyCmp_wait0, secsToMs, num_int, num_bool]
              | int i => cases hi : (i != 0) <;> simp [hand, gen, doOp, callE, enable, p_enable_now, vPulseMs, vPulsePower, vHoldPower, genK, handK, outOk, execEL, execES, evalArgs, evalA, evalE, argLocals, List.lookup, bind, Except.bind, pure, Except.pure, bindTarget, p_notify_psu_and_get_wait_ms, evalC, arith, applyEff, setTimer, addPend, enableNow, Eff.arg, Cmd.obs, delayMs, h1, h2, h3, h4, hv, hl, PyVal.truthy, pyCmp_wait0, secsToMs, num_int, num_bool, num_flt, flt_ms, hi]
              | flt m => cases hi : (m != 0) <;> simp [hand, gen, doOp, callE, enable, p_enable_now, vPulseMs, vPulsePower, vHoldPower, genK, handK, outOk, execEL, execES, evalArgs, evalA, evalE, argLocals, List.lookup, bind, Except.bind, pure, Except.pure, bindTarget, p_notify_psu_and_get_wait_ms, evalC, arith, applyEff, setTimer, addPend, enableNow, Eff.arg, Cmd.obs, delayMs, h1, h2, h3, h4, hv, hl, PyVal.truthy, pyCmp_wait0, secsToMs, num_int, num_bool, num_flt, flt_ms, hi]
              | nan => simp [hand, gen, doOp, callE, enable, p_enable_now, vPulseMs, vPulsePower, vHoldPower, genK, handK, outOk, execEL, execES, evalArgs, evalA, evalE, argLocals, List.lookup, bind, Except.bind, pure, Except.pure, bindTarget, p_notify_psu_and_get_wait_ms, evalC, arith, applyEff, setTimer, addPend, enableNow, Eff.arg, Cmd.obs, delayMs, h1, h2, h3, h4, hv, hl, PyVal.truthy, pyCmp_wait0, secsToMs, num_int, num_bool, num_nan]


/-- the `enable_limit_reached` delay fires (the delay manager has already dropped the entry): `_enable_limit_reached` -/
theorem limit_reached_refines (c : Ctx) (ora : Oracle) (s : Driver.St) :
    hand s (.ok (doDisable s)) = gen s (callE c ora p_enable_limit_reached []) := by
  simp [hand, gen, callE, p_enable_limit_reached, disable, doDisable, genK, handK, outOk, execEL, execES, evalArgs, evalA, evalE, argLocals, List.lookup, bind, Except.bind, pure, Except.pure, bindTarget, p_notify_psu_and_get_wait_ms, evalC, arith, applyEff, setTimer, addPend, enableNow, Eff.arg, Cmd.obs, delayMs]

theorem event_pulse_is_pulse (c : Ctx) (ora : Oracle) (s : Driver.St) (a b m : PyVal) :
    gen s (callE c ora event_pulse [("pulse_ms", a), ("pulse_power", b), ("max_wait_ms", m)]) =
      gen s (callE c ora pulse [("pulse_ms", a), ("pulse_power", b), ("max_wait_ms", m)]) := by
  simp only [gen, callE, event_pulse, execEL, execES, evalArgs, evalA, evalE, List.lookup, bind, Except.bind,
    pure, Except.pure, argLocals]
  try simp only [beq_self_eq_true, String.reduceBEq, Option.getD_some]
  generalize execEL c ora _ [] pulse = x
  rcases x with ⟨L, e | (l1 | v)⟩ <;> simp [bindTarget]


theorem event_enable_is_enable (c : Ctx) (ora : Oracle) (s : Driver.St) (a b h : PyVal) :
    gen s (callE c ora event_enable [("pulse_ms", a), ("pulse_power", b), ("hold_power", h)]) = gen s (callE c ora enable [("pulse_ms", a), ("pulse_power", b), ("hold_power", h)]) := by
  simp only [gen, callE, event_enable, execEL, execES, evalArgs, evalA, evalE, List.lookup, bind, Except.bind,
    pure, Except.pure, argLocals]
  try simp only [beq_self_eq_true, String.reduceBEq, Option.getD_some]
  generalize execEL c ora _ [] enable = x
  rcases x with ⟨L, e | (l1 | v)⟩ <;> simp [bindTarget]

theorem event_timed_enable_is_timed_enable (c : Ctx) (ora : Oracle) (s : Driver.St) (t h a b m : PyVal) :
    gen s (callE c ora event_timed_enable [("timed_enable_ms", t), ("hold_power", h), ("pulse_ms", a), ("pulse_power", b), ("max_wait_ms", m)]) = gen s (callE c ora timed_enable [("timed_enable_ms", t), ("hold_power", h), ("pulse_ms", a), ("pulse_power", b), ("max_wait_ms", m)]) := by
  simp only [gen, callE, event_timed_enable, execEL, execES, evalArgs, evalA, evalE, List.lookup, bind, Except.bind,
    pure, Except.pure, argLocals]
  try simp only [beq_self_eq_true, String.reduceBEq, Option.getD_some]
  generalize execEL c ora _ [] timed_enable = x
  rcases x with ⟨L, e | (l1 | v)⟩ <;> simp [bindTarget]

theorem event_disable_is_disable (c : Ctx) (ora : Oracle) (s : Driver.St)  :
    gen s (callE c ora event_disable []) = gen s (callE c ora disable []) := by
  simp only [gen, callE, event_disable, execEL, execES, evalArgs, evalA, evalE, List.lookup, bind, Except.bind,
    pure, Except.pure, argLocals]
  try simp only [beq_self_eq_true, String.reduceBEq, Option.getD_some]
  generalize execEL c ora _ [] disable = x
  rcases x with ⟨L, e | (l1 | v)⟩ <;> simp [bindTarget]

/-! ## requests with `max_wait_ms` and the callbacks of the PSU-delayed calls -/

/-- the PSU answers `w` to `get_wait_time_for_pulse` -/
def PsuAnswers (ora : Oracle) (w : PyVal) : Prop := ∀ args, ora ⟨"psu", "get_wait_time_for_pulse", args⟩ = w

theorem timed_enableW_refines (c : Ctx) (ora : Oracle) (s : Driver.St) (te hp ms pw mw : PyVal)
    (hint : ∀ x v, vPulseMs c x = .ok v → v.isInt = true) (hint2 : ∀ x v, vTimedMs c x = .ok v → v.isInt = true) :
    hand s (doOp c s (.timedEnableW te hp ms pw mw)) =
      gen s (callE c ora timed_enable [("timed_enable_ms", te), ("hold_power", hp), ("pulse_ms", ms), ("pulse_power", pw),
        ("max_wait_ms", mw)]) := by
  have key := timed_enable_run c ora s
    (argLocals [("timed_enable_ms", te), ("hold_power", hp), ("pulse_ms", ms), ("pulse_power", pw), ("max_wait_ms", mw)]) []
    hint hint2
  simp only [argLocals, List.lookup, genK, handK] at key
  simp at key
  simp only [hand, gen, doOp, callE, argLocals]
  rcases hx : execEL c ora (argLocals [("timed_enable_ms", te), ("hold_power", hp), ("pulse_ms", ms), ("pulse_power", pw),
    ("max_wait_ms", mw)]) [] timed_enable with ⟨L1, r1⟩
  rw [hx] at key
  rcases hd : doTimedEnable c s te hp ms pw with e | ⟨s', cmds⟩ <;> rw [hd] at key <;>
  rcases r1 with e | (l1 | v) <;> simp [outOk] at key ⊢ <;> exact key.symm

/-- the delayed callback `_pulse_now(pulse_ms, pulse_power)` -/
theorem pulse_now_refines (c : Ctx) (ora : Oracle) (s : Driver.St) (pm pp : PyVal)
    (hpm : pm.isInt = true) (hmax : (c.env "max_pulse").num.isSome = true)
    (hint : ∀ x v, vPulseMs c x = .ok v → v.isInt = true) (hint2 : ∀ x v, vTimedMs c x = .ok v → v.isInt = true) :
    hand s (pulseNow c s pm pp) = gen s (callE c ora p_pulse_now [("pulse_ms", pm), ("pulse_power", pp)]) := by
  have key := pulse_now_run c ora s (argLocals [("pulse_ms", pm), ("pulse_power", pp)]) []
    (by simpa [argLocals, List.lookup] using hpm) hmax hint hint2
  simp only [argLocals, List.lookup, genK, handK] at key
  simp at key
  simp only [hand, gen, callE, argLocals]
  rcases hx : execEL c ora (argLocals [("pulse_ms", pm), ("pulse_power", pp)]) [] p_pulse_now with ⟨L1, r1⟩
  rw [hx] at key
  rcases hd : pulseNow c s pm pp with e | ⟨s', cmds⟩ <;> rw [hd] at key <;>
  rcases r1 with e | (l1 | v) <;> simp [outOk] at key ⊢ <;> exact key.symm


/-- the delayed callback `_enable_now(pulse_ms, pulse_power, hold_power)` -/
theorem enable_now_refines (c : Ctx) (ora : Oracle) (s : Driver.St) (pm pp h : PyVal)
    (hmd : NumOrNone (c.cfg "max_hold_duration")) :
    hand s (.ok (enableNow c s pm pp h)) =
      gen s (callE c ora p_enable_now [("pulse_ms", pm), ("pulse_power", pp), ("hold_power", h)]) := by
  rcases hmd with hn | hn
  · simp [hand, gen, callE, enableNow, p_enable_now, genK, handK, outOk, execEL, execES, evalArgs, evalA, evalE, argLocals, List.lookup, bind, Except.bind, pure, Except.pure, bindTarget, evalC, arith, applyEff, setTimer, addPend, Eff.arg, Cmd.obs, delayMs, hn, PyVal.truthy]
  · cases hl : s.limitDue <;> cases hv : c.cfg "max_hold_duration" with
    | none => simp [hv, PyVal.num] at hn
    | str x => simp [hv, PyVal.num] at hn
    | bool b => cases b <;> simp [hand, gen, callE, enableNow, p_enable_now, genK, handK, outOk, execEL, execES, evalArgs, evalA, evalE, argLocals, List.lookup, bind, Except.bind, pure, Except.pure, bindTarget, evalC, arith, applyEff, setTimer, addPend, Eff.arg, Cmd.obs, delayMs, hv, hl, PyVal.truthy, secsToMs, num_int, num_bool]
    | int i => cases hi : (i != 0) <;> simp [hand, gen, callE, enableNow, p_enable_now, genK, handK, outOk, execEL, execES, evalArgs, evalA, evalE, argLocals, List.lookup, bind, Except.bind, pure, Except.pure, bindTarget, evalC, arith, applyEff, setTimer, addPend, Eff.arg, Cmd.obs, delayMs, hv, hl, PyVal.truthy, secsToMs, num_int, num_bool, num_flt, flt_ms, hi]
    | flt m => cases hi : (m != 0) <;> simp [hand, gen, callE, enableNow, p_enable_now, genK, handK, outOk, execEL, execES, evalArgs, evalA, evalE, argLocals, List.lookup, bind, Except.bind, pure, Except.pure, bindTarget, evalC, arith, applyEff, setTimer, addPend, Eff.arg, Cmd.obs, delayMs, hv, hl, PyVal.truthy, secsToMs, num_int, num_bool, num_flt, flt_ms, hi]
    | nan => simp [hand, gen, callE, enableNow, p_enable_now, genK, handK, outOk, execEL, execES, evalArgs, evalA, evalE, argLocals, List.lookup, bind, Except.bind, pure, Except.pure, bindTarget, evalC, arith, applyEff, setTimer, addPend, Eff.arg, Cmd.obs, delayMs, hv, hl, PyVal.truthy, secsToMs, num_int, num_bool, num_nan]


theorem pulseW_refines (c : Ctx) (ora : Oracle) (s : Driver.St) (ms pw mw w : PyVal) (hw : PsuAnswers ora w)
    (hmax : (c.env "max_pulse").num.isSome = true)
    (hint : ∀ x v, vPulseMs c x = .ok v → v.isInt = true) (hint2 : ∀ x v, vTimedMs c x = .ok v → v.isInt = true) :
    hand s (doOp c s (.pulseW ms pw mw w)) =
      gen s (callE c ora pulse [("pulse_ms", ms), ("pulse_power", pw), ("max_wait_ms", mw)]) := by
  unfold PsuAnswers at hw
  cases h1 : vPulseMs c ms with
  | error e =>
    simp only [vPulseMs] at h1
    simp [hand, gen, doOp, callE, pulse, vPulseMs, vPulsePower, genK, handK, outOk, execEL, execES, evalArgs, evalA, evalE, argLocals, List.lookup, bind, Except.bind, pure, Except.pure, bindTarget, p_notify_psu_and_get_wait_ms, evalC, arith, applyEff, setTimer, addPend, Eff.arg, Cmd.obs, delayMs, waitOf, h1]
  | ok pm =>
    cases h2 : vPulsePower c pw with
    | error e =>
      simp only [vPulseMs, vPulsePower] at h1 h2
      simp [hand, gen, doOp, callE, pulse, vPulseMs, vPulsePower, genK, handK, outOk, execEL, execES, evalArgs, evalA, evalE, argLocals, List.lookup, bind, Except.bind, pure, Except.pure, bindTarget, p_notify_psu_and_get_wait_ms, evalC, arith, applyEff, setTimer, addPend, Eff.arg, Cmd.obs, delayMs, waitOf, h1, h2]
    | ok pp =>
      have ipm := hint _ _ h1
      have key := pulse_now_run c ora s (argLocals [("pulse_ms", pm), ("pulse_power", pp)]) []
        (by simpa [argLocals, List.lookup] using ipm) hmax hint hint2
      simp only [vPulseMs, vPulsePower] at h1 h2
      by_cases hmw : mw = .none
      · simp [hand, gen, doOp, callE, pulse, vPulseMs, vPulsePower, genK, handK, outOk, execEL, execES, evalArgs, evalA, evalE, argLocals, List.lookup, bind, Except.bind, pure, Except.pure, bindTarget, p_notify_psu_and_get_wait_ms, evalC, arith, applyEff, setTimer, addPend, Eff.arg, Cmd.obs, delayMs, waitOf, h1, h2, hmw, pyCmp, num_int, cmpOp]
        rw [execEL_frame]
        simp only [argLocals, List.lookup, genK, handK] at key
        simp at key
        rcases hx : execEL c ora (argLocals [("pulse_ms", pm), ("pulse_power", pp)]) [] p_pulse_now with ⟨L1, r1⟩
        rw [hx] at key
        rcases r1 with e | (l1 | v) <;> simp [List.foldl_append, applyEff, outOk] at key ⊢ <;> exact key.symm
      · cases h3 : pyCmp ">" w (.int 0) with
        | error e => simp [hand, gen, doOp, callE, pulse, vPulseMs, vPulsePower, genK, handK, outOk, execEL, execES, evalArgs, evalA, evalE, argLocals, List.lookup, bind, Except.bind, pure, Except.pure, bindTarget, p_notify_psu_and_get_wait_ms, evalC, arith, applyEff, setTimer, addPend, Eff.arg, Cmd.obs, delayMs, waitOf, h1, h2, hmw, hw, h3]
        | ok b =>
          cases b with
          | true => simp [hand, gen, doOp, callE, pulse, vPulseMs, vPulsePower, genK, handK, outOk, execEL, execES, evalArgs, evalA, evalE, argLocals, List.lookup, bind, Except.bind, pure, Except.pure, bindTarget, p_notify_psu_and_get_wait_ms, evalC, arith, applyEff, setTimer, addPend, Eff.arg, Cmd.obs, delayMs, waitOf, h1, h2, hmw, hw, h3]
          | false =>
            simp [hand, gen, doOp, callE, pulse, vPulseMs, vPulsePower, genK, handK, outOk, execEL, execES, evalArgs, evalA, evalE, argLocals, List.lookup, bind, Except.bind, pure, Except.pure, bindTarget, p_notify_psu_and_get_wait_ms, evalC, arith, applyEff, setTimer, addPend, Eff.arg, Cmd.obs, delayMs, waitOf, h1, h2, hmw, hw, h3]
            rw [execEL_frame]
            simp only [argLocals, List.lookup, genK, handK] at key
            simp at key
            rcases hx : execEL c ora (argLocals [("pulse_ms", pm), ("pulse_power", pp)]) [] p_pulse_now with ⟨L1, r1⟩
            rw [hx] at key
            rcases r1 with e | (l1 | v) <;> simp [List.foldl_append, applyEff, outOk] at key ⊢ <;> exact key.symm


theorem enableW_refines (c : Ctx) (ora : Oracle) (s : Driver.St) (ms pw hp mw w : PyVal) (hw : PsuAnswers ora w)
    (hmd : NumOrNone (c.cfg "max_hold_duration")) :
    hand s (doOp c s (.enableW ms pw hp mw w)) =
      gen s (callE c ora enable [("pulse_ms", ms), ("pulse_power", pw), ("hold_power", hp), ("max_wait_ms", mw)]) := by
  unfold PsuAnswers at hw
  cases h1 : vPulseMs c ms with
  | error e =>
    simp only [vPulseMs] at h1
    simp [hand, gen, doOp, callE, enable, vPulseMs, vPulsePower, vHoldPower, genK, handK, outOk, execEL, execES, evalArgs, evalA, evalE, argLocals, List.lookup, bind, Except.bind, pure, Except.pure, bindTarget, p_notify_psu_and_get_wait_ms, evalC, arith, applyEff, setTimer, addPend, Eff.arg, Cmd.obs, delayMs, waitOf, h1]
  | ok pm =>
    cases h2 : vPulsePower c pw with
    | error e =>
      simp only [vPulseMs, vPulsePower] at h1 h2
      by_cases hmw : mw = .none <;> simp [hand, gen, doOp, callE, enable, vPulseMs, vPulsePower, vHoldPower, genK, handK, outOk, execEL, execES, evalArgs, evalA, evalE, argLocals, List.lookup, bind, Except.bind, pure, Except.pure, bindTarget, p_notify_psu_and_get_wait_ms, evalC, arith, applyEff, setTimer, addPend, Eff.arg, Cmd.obs, delayMs, waitOf, h1, h2, hmw]
    | ok pp =>
      cases h3 : vHoldPower c hp with
      | error e =>
        simp only [vPulseMs, vPulsePower, vHoldPower] at h1 h2 h3
        by_cases hmw : mw = .none <;> simp [hand, gen, doOp, callE, enable, vPulseMs, vPulsePower, vHoldPower, genK, handK, outOk, execEL, execES, evalArgs, evalA, evalE, argLocals, List.lookup, bind, Except.bind, pure, Except.pure, bindTarget, p_notify_psu_and_get_wait_ms, evalC, arith, applyEff, setTimer, addPend, Eff.arg, Cmd.obs, delayMs, waitOf, h1, h2, h3, hmw]
      | ok h =>
        simp only [vPulseMs, vPulsePower, vHoldPower] at h1 h2 h3
        cases h4 : pyCmp "==" h (.flt 0) with
        | error e => by_cases hmw : mw = .none <;> simp [hand, gen, doOp, callE, enable, vPulseMs, vPulsePower, vHoldPower, genK, handK, outOk, execEL, execES, evalArgs, evalA, evalE, argLocals, List.lookup, bind, Except.bind, pure, Except.pure, bindTarget, p_notify_psu_and_get_wait_ms, evalC, arith, applyEff, setTimer, addPend, Eff.arg, Cmd.obs, delayMs, waitOf, h1, h2, h3, h4, hmw]
        | ok z =>
          cases z with
          | true => by_cases hmw : mw = .none <;> simp [hand, gen, doOp, callE, enable, vPulseMs, vPulsePower, vHoldPower, genK, handK, outOk, execEL, execES, evalArgs, evalA, evalE, argLocals, List.lookup, bind, Except.bind, pure, Except.pure, bindTarget, p_notify_psu_and_get_wait_ms, evalC, arith, applyEff, setTimer, addPend, Eff.arg, Cmd.obs, delayMs, waitOf, h1, h2, h3, h4, hmw, throw, throwThe, MonadExceptOf.throw]
          | false =>
            have key := enable_now_refines c ora s pm pp h hmd
            rcases hx : execEL c ora (argLocals [("pulse_ms", pm), ("pulse_power", pp), ("hold_power", h)]) [] p_enable_now with ⟨L1, r1⟩
            simp only [hand, gen, callE, hx] at key
            by_cases hmw : mw = .none
            · simp [hand, gen, doOp, callE, enable, vPulseMs, vPulsePower, vHoldPower, genK, handK, outOk, execEL, execES, evalArgs, evalA, evalE, argLocals, List.lookup, bind, Except.bind, pure, Except.pure, bindTarget, p_notify_psu_and_get_wait_ms, evalC, arith, applyEff, setTimer, addPend, Eff.arg, Cmd.obs, delayMs, waitOf, h1, h2, h3, h4, hmw, pyCmp_wait0]
              rw [execEL_frame]
              rw [hx]
              rcases r1 with e | (l1 | v) <;> simp [List.foldl_append, applyEff, outOk] at key ⊢ <;> exact key
            · cases h5 : pyCmp ">" w (.int 0) with
              | error e => simp [hand, gen, doOp, callE, enable, vPulseMs, vPulsePower, vHoldPower, genK, handK, outOk, execEL, execES, evalArgs, evalA, evalE, argLocals, List.lookup, bind, Except.bind, pure, Except.pure, bindTarget, p_notify_psu_and_get_wait_ms, evalC, arith, applyEff, setTimer, addPend, Eff.arg, Cmd.obs, delayMs, waitOf, h1, h2, h3, h4, hmw, hw, h5]
              | ok b =>
                cases b with
                | true => simp [hand, gen, doOp, callE, enable, vPulseMs, vPulsePower, vHoldPower, genK, handK, outOk, execEL, execES, evalArgs, evalA, evalE, argLocals, List.lookup, bind, Except.bind, pure, Except.pure, bindTarget, p_notify_psu_and_get_wait_ms, evalC, arith, applyEff, setTimer, addPend, Eff.arg, Cmd.obs, delayMs, waitOf, h1, h2, h3, h4, hmw, hw, h5]
                | false =>
                  simp [hand, gen, doOp, callE, enable, vPulseMs, vPulsePower, vHoldPower, genK, handK, outOk, execEL, execES, evalArgs, evalA, evalE, argLocals, List.lookup, bind, Except.bind, pure, Except.pure, bindTarget, p_notify_psu_and_get_wait_ms, evalC, arith, applyEff, setTimer, addPend, Eff.arg, Cmd.obs, delayMs, waitOf, h1, h2, h3, h4, hmw, hw, h5]
                  rw [execEL_frame]
                  rw [hx]
                  rcases r1 with e | (l1 | v) <;> simp [List.foldl_append, applyEff, outOk] at key ⊢ <;> exact key

end MpfVerif.C08
