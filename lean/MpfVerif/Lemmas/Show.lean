import MpfVerif.Model.Show
/-! Helper lemmas for C17 (running shows). -/
namespace MpfVerif.Show

/-- at most one live timer, and it is the one the show can cancel; a stopped show has none and a clean context -/
def Inv (s : RS) : Prop :=
  (s.timers = [] ∨ ∃ id w, s.timers = [(id, w)] ∧ s.handle = some id) ∧
  (s.stopped = true → s.timers = [] ∧ s.dirty = false)

theorem cancel_timers (s : RS) (h : s.timers = [] ∨ ∃ id w, s.timers = [(id, w)] ∧ s.handle = some id) :
    (cancelHandle s).timers = [] := by
  unfold cancelHandle
  rcases h with h | ⟨id, w, ht, hh⟩
  · cases s.handle <;> simp [h]
  · simp [hh, ht]

theorem cancel_stopped (s : RS) : (cancelHandle s).stopped = s.stopped := by
  unfold cancelHandle; cases s.handle <;> rfl

theorem cancel_dirty (s : RS) : (cancelHandle s).dirty = s.dirty := by
  unfold cancelHandle; cases s.handle <;> rfl

theorem stop_inv (s : RS) (h : Inv s) : Inv (stop s).1 := by
  unfold stop
  split
  · exact h
  · have : (cancelHandle { s with stopped := true }).timers = [] := cancel_timers _ h.1
    exact ⟨Or.inl this, fun _ => ⟨this, rfl⟩⟩

theorem stop_stopped (s : RS) : (stop s).1.stopped = true := by
  unfold stop
  split
  · assumption
  · simp [cancel_stopped]

theorem playStep_inv (s : RS) (idx : Nat) (evs : List Ev) (pa : Bool) (ht : s.timers = []) (hs : s.stopped = false) :
    Inv (playStep s idx evs pa).1 := by
  unfold playStep
  simp only
  split
  · exact ⟨Or.inr ⟨s.nextId, s.nextTime + ttn s idx, by simp [ht], rfl⟩, by simp [hs]⟩
  · exact ⟨Or.inl ht, by simp [hs]⟩

theorem runNext_inv (s : RS) (post : List Ev) (pa : Bool) (ht : s.timers = []) (hi : Inv s) :
    Inv (runNext s post pa).1 := by
  unfold runNext
  by_cases hs : s.stopped = true
  · simp only [hs, if_true]; exact hi
  · have hs' : s.stopped = false := by simpa using hs
    simp only [hs', Bool.false_eq_true, if_false]
    generalize (if s.nextIdx < 0 then s.nextIdx % (s.durs.length : Int) else s.nextIdx) = idx0
    by_cases hw : idx0 ≥ (s.durs.length : Int)
    · rw [if_pos hw]
      split
      · exact playStep_inv _ _ _ _ ht hs'
      · exact playStep_inv _ _ _ _ ht rfl
      · exact stop_inv s hi
    · rw [if_neg hw]
      exact playStep_inv _ _ _ _ ht hs'

theorem setNow_inv (s : RS) (t : Nat) (h : Inv s) : Inv (setNow s t) := h

theorem startPlay_inv (s0 : RS) (running : Bool) (sync : Nat) (ht : s0.timers = []) (hs : s0.stopped = false) :
    Inv (startPlay s0 running sync).1 := by
  unfold startPlay
  split
  · exact runNext_inv _ _ _ ht ⟨Or.inl ht, by simp [hs]⟩
  · exact ⟨Or.inr ⟨s0.nextId, syncTime sync s0.nextTime, by simp [ht], rfl⟩, by simp [hs]⟩

theorem timerBody_inv (s : RS) (ht : s.timers = []) (hi : Inv s) : Inv (timerBody s).1 := by
  unfold timerBody
  split
  · exact hi
  split
  · exact runNext_inv _ _ _ ht ⟨Or.inl ht, fun hs => ⟨ht, (hi.2 hs).2⟩⟩
  · exact runNext_inv _ _ _ ht hi

theorem cancel_inv (s : RS) (h : Inv s) : Inv (cancelHandle s) := by
  have ht : (cancelHandle s).timers = [] := cancel_timers _ h.1
  refine ⟨Or.inl ht, fun hs => ⟨ht, ?_⟩⟩
  rw [cancel_stopped] at hs
  rw [cancel_dirty]
  exact (h.2 hs).2

theorem reqBody_inv (s1 : RS) (ev : Ev) (back : Bool) (ht : s1.timers = []) (hi : Inv s1) : Inv (reqBody s1 ev back).1 := by
  unfold reqBody
  split
  · exact hi
  split
  · exact runNext_inv _ _ _ ht ⟨Or.inl ht, fun hs => ⟨ht, (hi.2 hs).2⟩⟩
  · exact runNext_inv _ _ _ ht ⟨Or.inl ht, fun hs => ⟨ht, (hi.2 hs).2⟩⟩

theorem reqBody_stopped (s1 : RS) (ev : Ev) (back : Bool) (h : s1.stopped = true) : reqBody s1 ev back = (s1, []) := by
  unfold reqBody; rw [if_pos h]

theorem dueAny_mem (s : RS) (tm : Nat × Nat) (h : dueAny s = some tm) : tm ∈ s.timers := by
  unfold dueAny at h
  exact List.mem_of_find?_eq_some h

theorem step_inv (s : RS) (o : Op) (h : Inv s) : Inv (step s o).1 := by
  cases o with
  | play durs num den loops start running manual sync t =>
    simp only [step]
    have h1 : Inv (stop (setNow s t)).1 := stop_inv _ (setNow_inv s t h)
    have h2 : (stop (setNow s t)).1.timers = [] := (h1.2 (stop_stopped _)).1
    apply startPlay_inv
    · exact h2
    · rfl
  | stop t =>
    simp only [step, ctl]
    split
    · exact stop_inv _ (setNow_inv s t h)
    · exact h
  | pause t =>
    simp only [step, ctl]
    split
    · have : (cancelHandle (setNow s t)).timers = [] := cancel_timers _ h.1
      refine ⟨Or.inl this, fun hs => ⟨this, ?_⟩⟩
      rw [cancel_stopped] at hs
      rw [cancel_dirty]
      exact (h.2 hs).2
    · exact h
  | resume t =>
    simp only [step, ctl]
    split
    · exact reqBody_inv _ _ _ (cancel_timers _ h.1) (cancel_inv _ h)
    · exact h
  | advance t =>
    simp only [step, ctl]
    split
    · exact reqBody_inv _ _ _ (cancel_timers _ h.1) (cancel_inv _ h)
    · exact h
  | back t =>
    simp only [step, ctl]
    split
    · exact reqBody_inv _ _ _ (cancel_timers _ h.1) (cancel_inv _ h)
    · exact h
  | speed num den t =>
    simp only [step, ctl]
    split
    · exact h
    · exact h
  | fire t =>
    simp only [step]
    split
    · exact h
    · rename_i tm htm
      have hmem := dueAny_mem _ _ htm
      have hnil : ((setNow s t).timers.filter (fun x => decide (x.1 ≠ tm.1))) = [] := by
        rcases h.1 with h0 | ⟨id, w, ht, _⟩
        · simp [setNow, h0] at hmem
        · simp only [setNow, ht, List.mem_singleton] at hmem
          subst hmem
          simp [setNow, ht]
      apply timerBody_inv _ hnil
      refine ⟨Or.inl hnil, fun hs => ⟨hnil, (h.2 hs).2⟩⟩

theorem run_inv (ops : List Op) : ∀ s, Inv s → Inv (run s ops).1 := by
  induction ops with
  | nil => intro s h; exact h
  | cons o r ih =>
    intro s h
    simp only [run]
    exact ih _ (step_inv s o h)

theorem init_inv : Inv ({} : RS) := ⟨Or.inl rfl, fun _ => ⟨rfl, rfl⟩⟩

/-! ### nothing after stop -/

def Op.isPlay : Op → Bool
  | .play .. => true
  | _ => false

/-- what a stopped show may still emit: the acknowledgement of a pause request, nothing else -/
def onlyPaused (l : List Obs) : Prop := ∀ o ∈ l, o = Obs.ev .paused

theorem runNext_stopped (s : RS) (post : List Ev) (pa : Bool) (h : s.stopped = true) : runNext s post pa = (s, []) := by
  unfold runNext; simp [h]

theorem timerBody_stopped (s : RS) (h : s.stopped = true) : (timerBody s).1.stopped = true ∧ (timerBody s).2 = [] := by
  unfold timerBody
  rw [if_pos h]; exact ⟨h, rfl⟩

theorem step_after_stop (s : RS) (o : Op) (hs : s.stopped = true) (hp : o.isPlay = false) :
    (step s o).1.stopped = true ∧ onlyPaused (step s o).2 := by
  cases o with
  | play durs num den loops start running manual sync t => simp [Op.isPlay] at hp
  | stop t =>
    simp only [step, ctl]
    split
    · have : (stop (setNow s t)) = (setNow s t, []) := by unfold stop; simp [setNow, hs]
      rw [this]; exact ⟨hs, by intro o ho; simp at ho⟩
    · exact ⟨hs, by intro o ho; simp at ho⟩
  | pause t =>
    simp only [step, ctl]
    split
    · exact ⟨by rw [cancel_stopped]; exact hs, by intro o ho; simpa using ho⟩
    · exact ⟨hs, by intro o ho; simp at ho⟩
  | resume t =>
    simp only [step, ctl]
    split
    · have hc : (cancelHandle (setNow s t)).stopped = true := by rw [cancel_stopped]; exact hs
      rw [reqBody_stopped _ _ _ hc]
      exact ⟨hc, by intro o ho; simp at ho⟩
    · exact ⟨hs, by intro o ho; simp at ho⟩
  | advance t =>
    simp only [step, ctl]
    split
    · have hc : (cancelHandle (setNow s t)).stopped = true := by rw [cancel_stopped]; exact hs
      rw [reqBody_stopped _ _ _ hc]
      exact ⟨hc, by intro o ho; simp at ho⟩
    · exact ⟨hs, by intro o ho; simp at ho⟩
  | back t =>
    simp only [step, ctl]
    split
    · have hc : (cancelHandle (setNow s t)).stopped = true := by rw [cancel_stopped]; exact hs
      rw [reqBody_stopped _ _ _ hc]
      exact ⟨hc, by intro o ho; simp at ho⟩
    · exact ⟨hs, by intro o ho; simp at ho⟩
  | speed num den t =>
    simp only [step, ctl]
    split
    · exact ⟨hs, by intro o ho; simp at ho⟩
    · exact ⟨hs, by intro o ho; simp at ho⟩
  | fire t =>
    simp only [step]
    split
    · exact ⟨hs, by intro o ho; simp at ho⟩
    · rename_i tm _
      have f := timerBody_stopped { setNow s t with timers := (setNow s t).timers.filter (fun x => decide (x.1 ≠ tm.1)) }
        (by exact hs)
      exact ⟨f.1, by intro o ho; rw [f.2] at ho; simp at ho⟩

/-! ### the absolute schedule -/

/-- the step after `i` -/
def nxt (total i : Nat) : Nat := if i + 1 ≥ total then 0 else i + 1

def stepDur (durs : List Nat) (num den i : Nat) : Nat := durs.getD i 0 * den / num

/-- the absolute schedule: `k` steps from step `i` at time `t` -/
def sched (durs : List Nat) (num den : Nat) : Nat → Nat → Nat → List Obs
  | 0, _, _ => []
  | k + 1, i, t => Obs.eff i t :: sched durs num den k (nxt durs.length i) (t + stepDur durs num den i)

def isEff : Obs → Bool
  | .eff .. => true
  | _ => false

def effs (l : List Obs) : List Obs := l.filter isEff

theorem effs_append (a b : List Obs) : effs (a ++ b) = effs a ++ effs b := by simp [effs]

theorem effs_evs (l : List Ev) : effs (l.map Obs.ev) = [] := by
  induction l with
  | nil => rfl
  | cons e r ih => simp [effs, isEff] at ih ⊢

theorem sched_prefix_succ (durs : List Nat) (num den : Nat) : ∀ k i t,
    sched durs num den k i t <+: sched durs num den (k + 1) i t := by
  intro k
  induction k with
  | zero => intro i t; exact List.nil_prefix
  | succ k ih =>
    intro i t
    show Obs.eff i t :: _ <+: Obs.eff i t :: _
    exact (List.cons_prefix_cons).mpr ⟨rfl, ih _ _⟩

/-- the step `_run_next_step` plays for `next_step_index = j ≥ 0`: `j` itself, or step 0 after the end of the show -/
def wrapIdx (total j : Nat) : Nat := if j < total then j else 0

theorem nxt_eq_wrap (total i : Nat) : nxt total i = wrapIdx total (i + 1) := by
  unfold nxt wrapIdx; split <;> split <;> omega

/-- the show is stopped/idle, or its single timer is due at `T` for step `i` of the given show -/
def Sch (durs : List Nat) (num den : Nat) (s : RS) (i T : Nat) : Prop :=
  s.timers = [] ∨
  (s.stopped = false ∧ s.pending = false ∧ s.durs = durs ∧ s.spNum = num ∧ s.spDen = den ∧ s.nextTime = T ∧
    ∃ (id j : Nat), s.timers = [(id, T)] ∧ s.nextIdx = (j : Int) ∧ wrapIdx durs.length j = i)

def fires (ts : List Nat) : List Op := ts.map Op.fire

theorem fires_idle (ts : List Nat) : ∀ s, s.timers = [] → effs (run s (fires ts)).2 = [] := by
  induction ts with
  | nil => intro s _; rfl
  | cons t r ih =>
    intro s h
    simp only [fires, List.map_cons, run, step]
    have : dueAny (setNow s t) = none := by simp [dueAny, setNow, h]
    simp only [this]
    have := ih (setNow s t) h
    simpa [fires, effs] using this

theorem playStep_sch (s : RS) (idx : Nat) (evs : List Ev) (ht : s.timers = [])
    (hs : s.stopped = false) (hp : s.pending = false) :
    effs (playStep s idx evs false).2 = [Obs.eff idx s.nextTime] ∧
    Sch s.durs s.spNum s.spDen (playStep s idx evs false).1 (nxt s.durs.length idx)
      (s.nextTime + stepDur s.durs s.spNum s.spDen idx) := by
  unfold playStep
  constructor
  · simp only [effs, List.filter_cons, isEff, if_true]
    have := effs_evs evs
    simp only [effs] at this
    rw [this]
  · simp only
    split
    · refine Or.inr ⟨hs, hp, rfl, rfl, rfl, rfl, s.nextId, idx + 1, ?_, rfl, (nxt_eq_wrap _ _).symm⟩
      simp [ht, ttn, stepDur]
    · exact Or.inl ht

theorem stop_effs (s : RS) : effs (stop s).2 = [] := by
  unfold stop
  split
  · rfl
  · split <;> simp [effs, isEff]

theorem stop_timers_nil (s : RS) (ht : s.timers = []) : (stop s).1.timers = [] := by
  unfold stop
  split
  · exact ht
  · exact cancel_timers _ (Or.inl ht)

/-- one `_run_next_step` of a running show whose timer is gone, at `next_step_index = j ≥ 0`: it plays step
`wrapIdx j` with start time `next_step_time` and schedules the following one, or (no loops left) stops -/
theorem runNext_at (durs : List Nat) (num den : Nat) (s : RS) (j : Nat) (post : List Ev) (hs : s.stopped = false)
    (hp : s.pending = false) (hd : s.durs = durs)
    (hn : s.spNum = num) (hdn : s.spDen = den) (ht : s.timers = []) (hi : s.nextIdx = (j : Int)) :
    (effs (runNext s post false).2 = [] ∧ (runNext s post false).1.timers = []) ∨
    (effs (runNext s post false).2 = [Obs.eff (wrapIdx durs.length j) s.nextTime] ∧
      Sch durs num den (runNext s post false).1 (nxt durs.length (wrapIdx durs.length j))
        (s.nextTime + stepDur durs num den (wrapIdx durs.length j))) := by
  subst hd hn hdn
  unfold runNext
  rw [if_neg (by rw [hs]; simp)]
  have hneg : ¬ (s.nextIdx < 0) := by omega
  simp only [if_neg hneg]
  by_cases hw : s.nextIdx ≥ (s.durs.length : Int)
  · have hnx : wrapIdx s.durs.length j = 0 := by unfold wrapIdx; rw [if_neg (by omega)]
    rw [if_pos hw, hnx]
    split
    · exact Or.inr (playStep_sch s 0 _ ht hs hp)
    · rename_i n _
      exact Or.inr (playStep_sch { s with loops := some n } 0 _ ht hs hp)
    · left
      constructor
      · show effs ((stop s).2 ++ _) = []
        rw [effs_append, stop_effs, effs_evs]; rfl
      · exact stop_timers_nil s ht
  · have hnx : wrapIdx s.durs.length j = j := by unfold wrapIdx; rw [if_pos (by omega)]
    rw [if_neg hw, hnx]
    have : s.nextIdx.toNat = j := by omega
    rw [this]
    exact Or.inr (playStep_sch s j _ ht hs hp)

theorem timerBody_run (s : RS) (hs : s.stopped = false) (hp : s.pending = false) : timerBody s = runNext s [] false := by
  unfold timerBody; rw [if_neg (by rw [hs]; simp), if_neg (by rw [hp]; simp)]

theorem fires_follow_schedule (durs : List Nat) (num den : Nat) (ts : List Nat) : ∀ (s : RS) (i T : Nat),
    Sch durs num den s i T → effs (run s (fires ts)).2 <+: sched durs num den ts.length i T := by
  induction ts with
  | nil => intro s i T _; exact List.nil_prefix
  | cons t r ih =>
    intro s i T h
    rcases h with h | ⟨hs, hp, hd, hn, hdn, hnt, id, j, htm, hidx, hi⟩
    · rw [fires_idle _ s h]; exact List.nil_prefix
    · simp only [fires, List.map_cons, run, step]
      cases hdue : dueAny (setNow s t) with
      | none =>
        simp only
        have h' : Sch durs num den (setNow s t) i T :=
          Or.inr ⟨hs, hp, hd, hn, hdn, hnt, id, j, htm, hidx, hi⟩
        have := ih (setNow s t) i T h'
        simp only [List.nil_append]
        exact List.IsPrefix.trans this (sched_prefix_succ _ _ _ _ _ _)
      | some tm =>
        simp only
        have hmem := dueAny_mem _ _ hdue
        simp only [setNow, htm, List.mem_singleton] at hmem
        subst hmem
        have hnil : ((setNow s t).timers.filter (fun x => decide (x.1 ≠ id))) = [] := by simp [setNow, htm]
        rw [hnil, timerBody_run _ (by exact hs) (by exact hp)]
        have key := runNext_at durs num den { setNow s t with timers := [] } j [] hs hp hd hn hdn rfl hidx
        dsimp only at key
        rw [effs_append]
        rcases key with ⟨he, htn⟩ | ⟨he, hsch⟩
        · have hidle := fires_idle r _ htn
          unfold fires at hidle
          rw [he, hidle]; exact List.nil_prefix
        · rw [he]
          show Obs.eff (wrapIdx durs.length j) (setNow s t).nextTime :: _ <+: Obs.eff i T :: _
          have hT : (setNow s t).nextTime = T := hnt
          rw [hi, hT]
          refine (List.cons_prefix_cons).mpr ⟨rfl, ?_⟩
          have := ih _ _ _ hsch
          rw [hi, hT] at this
          exact this

theorem startIdx_nonneg (start : Int) (total : Nat) (h : 0 < total) : 0 ≤ startIdx start total := by
  unfold startIdx
  split
  · omega
  · split
    · exact Int.emod_nonneg _ (by omega)
    · omega

/-- the step a freshly played show starts with: `start_step` (1-based), a negative one counted from the end, the first
step for 0 and for a value beyond the end -/
def firstIdx (start : Int) (total : Nat) : Nat := wrapIdx total (startIdx start total).toNat

/-- the first `_run_next_step` of a fresh instance (whatever events it posts), followed by any timer callbacks -/
theorem first_step (durs : List Nat) (num den : Nat) (ts : List Nat) (s0 : RS) (post : List Ev) (start : Int) (T : Nat)
    (hlen : 0 < durs.length) (hs : s0.stopped = false) (hp : s0.pending = false) (ht : s0.timers = [])
    (hi : s0.nextIdx = startIdx start durs.length)
    (hd : s0.durs = durs) (hn : s0.spNum = num) (hdn : s0.spDen = den) (hT : s0.nextTime = T) :
    effs ((runNext s0 post false).2 ++ (run (runNext s0 post false).1 (fires ts)).2) <+:
      sched durs num den (ts.length + 1) (firstIdx start durs.length) T := by
  have hnn := startIdx_nonneg start durs.length hlen
  have hi' : s0.nextIdx = (((startIdx start durs.length).toNat : Nat) : Int) := by rw [hi]; omega
  have key := runNext_at durs num den s0 _ post hs hp hd hn hdn ht hi'
  rw [effs_append]
  rcases key with ⟨he, htn⟩ | ⟨he, hsch⟩
  · rw [he, fires_idle ts _ htn]; exact List.nil_prefix
  · rw [he, hT]
    show Obs.eff (firstIdx start durs.length) T :: _ <+: Obs.eff (firstIdx start durs.length) T :: _
    refine (List.cons_prefix_cons).mpr ⟨rfl, ?_⟩
    have := fires_follow_schedule durs num den ts _ _ _ hsch
    rw [hT] at this
    exact this

/-- a show waiting for its synchronised start at `T`: nothing is played before the start timer runs; from then on the
absolute schedule starting at `T` is followed -/
theorem fires_pending (durs : List Nat) (num den : Nat) (start : Int) (T : Nat) (hlen : 0 < durs.length) (ts : List Nat) :
    ∀ (s : RS), s.stopped = false → s.pending = true → s.pauseAfter = false → s.durs = durs → s.spNum = num →
      s.spDen = den → s.nextTime = T → (∃ id, s.timers = [(id, T)]) → s.nextIdx = startIdx start durs.length →
      effs (run s (fires ts)).2 <+: sched durs num den ts.length (firstIdx start durs.length) T := by
  induction ts with
  | nil => intro s _ _ _ _ _ _ _ _ _; exact List.nil_prefix
  | cons t r ih =>
    intro s hs hp hpa hd hn hdn hT ⟨id, htm⟩ hi
    simp only [fires, List.map_cons, run, step]
    cases hdue : dueAny (setNow s t) with
    | none =>
      simp only [List.nil_append]
      have := ih (setNow s t) hs hp hpa hd hn hdn hT ⟨id, htm⟩ hi
      exact List.IsPrefix.trans this (sched_prefix_succ _ _ _ _ _ _)
    | some tm =>
      simp only
      have hmem := dueAny_mem _ _ hdue
      simp only [setNow, htm, List.mem_singleton] at hmem
      subst hmem
      have hnil : ((setNow s t).timers.filter (fun x => decide (x.1 ≠ id))) = [] := by simp [setNow, htm]
      rw [hnil]
      have hb : timerBody { setNow s t with timers := [] } =
          runNext { setNow s t with timers := [], pending := false, started := true } [.played] false := by
        unfold timerBody
        rw [if_neg (by show ¬ (s.stopped = true); rw [hs]; simp), if_pos (by exact hp)]
        have : (setNow s t).pauseAfter = false := hpa
        dsimp only
        rw [this]
      rw [hb]
      exact first_step durs num den r { setNow s t with timers := [], pending := false, started := true } [.played] start T hlen
        hs rfl rfl hi hd hn hdn hT

end MpfVerif.Show
