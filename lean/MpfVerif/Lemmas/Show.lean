import MpfVerif.Model.Show
/-! Helper lemmas for C17 (running shows). -/
namespace MpfVerif.Show

/-- at most one live timer, and it is the one the show can cancel; a stopped show has none and a clean context -/
def Inv (s : RS) : Prop :=
  (s.timers = [] ∨ ∃ id w, s.timers = [(id, w)] ∧ s.handle = some id) ∧
  (s.stopped = true → s.timers = [] ∧ s.dirty = false)

theorem cancel_timers (s : RS) (h : s.timers = [] ∨ ∃ id w, s.timers = [(id, w)] ∧ s.handle = some id) :
    (cancelHandle s).timers = [] := by
  unfold cancelHandle
  rcases h with h | ⟨id, w, ht, hh⟩
  · cases s.handle <;> simp [h]
  · simp [hh, ht]

theorem cancel_stopped (s : RS) : (cancelHandle s).stopped = s.stopped := by
  unfold cancelHandle; cases s.handle <;> rfl

theorem cancel_dirty (s : RS) : (cancelHandle s).dirty = s.dirty := by
  unfold cancelHandle; cases s.handle <;> rfl

theorem stop_inv (s : RS) (h : Inv s) : Inv (stop s).1 := by
  unfold stop
  split
  · exact h
  · have : (cancelHandle { s with stopped := true }).timers = [] := cancel_timers _ h.1
    exact ⟨Or.inl this, fun _ => ⟨this, rfl⟩⟩

theorem stop_stopped (s : RS) : (stop s).1.stopped = true := by
  unfold stop
  split
  · assumption
  · simp [cancel_stopped]

theorem playStep_inv (s : RS) (idx : Nat) (evs : List Ev) (pa : Bool) (ht : s.timers = []) (hs : s.stopped = false) :
    Inv (playStep s idx evs pa).1 := by
  unfold playStep
  simp only
  split
  · exact ⟨Or.inr ⟨s.nextId, s.nextTime + ttn s idx, by simp [ht], rfl⟩, by simp [hs]⟩
  · exact ⟨Or.inl ht, by simp [hs]⟩

theorem runNext_inv (s : RS) (post : List Ev) (pa : Bool) (ht : s.timers = []) (hi : Inv s) :
    Inv (runNext s post pa).1 := by
  unfold runNext
  by_cases hs : s.stopped = true
  · simp only [hs, if_true]; exact hi
  · have hs' : s.stopped = false := by simpa using hs
    simp only [hs', Bool.false_eq_true, if_false]
    generalize (if s.nextIdx < 0 then s.nextIdx % (s.durs.length : Int) else s.nextIdx) = idx0
    by_cases hw : idx0 ≥ (s.durs.length : Int)
    · rw [if_pos hw]
      split
      · exact playStep_inv _ _ _ _ ht hs'
      · exact playStep_inv _ _ _ _ ht rfl
      · exact stop_inv s hi
    · rw [if_neg hw]
      exact playStep_inv _ _ _ _ ht hs'

theorem setNow_inv (s : RS) (t : Nat) (h : Inv s) : Inv (setNow s t) := h

theorem dueAny_mem (s : RS) (tm : Nat × Nat) (h : dueAny s = some tm) : tm ∈ s.timers := by
  unfold dueAny at h
  exact List.mem_of_find?_eq_some h

theorem step_inv (s : RS) (o : Op) (h : Inv s) : Inv (step s o).1 := by
  cases o with
  | play durs num den loops start running manual t =>
    simp only [step]
    have h1 : Inv (stop (setNow s t)).1 := stop_inv _ (setNow_inv s t h)
    have h2 : (stop (setNow s t)).1.timers = [] := (h1.2 (stop_stopped _)).1
    apply runNext_inv
    · exact h2
    · exact ⟨Or.inl h2, by simp⟩
  | stop t =>
    simp only [step, ctl]
    split
    · exact stop_inv _ (setNow_inv s t h)
    · exact h
  | pause t =>
    simp only [step, ctl]
    split
    · have : (cancelHandle (setNow s t)).timers = [] := cancel_timers _ h.1
      refine ⟨Or.inl this, fun hs => ⟨this, ?_⟩⟩
      rw [cancel_stopped] at hs
      rw [cancel_dirty]
      exact (h.2 hs).2
    · exact h
  | resume t =>
    simp only [step, ctl]
    split
    · have ht : (cancelHandle (setNow s t)).timers = [] := cancel_timers _ h.1
      refine runNext_inv _ _ _ ht ?_
      refine ⟨Or.inl ht, fun hs => ⟨ht, ?_⟩⟩
      have hs' : (setNow s t).stopped = true := by rw [← cancel_stopped]; exact hs
      show (cancelHandle (setNow s t)).dirty = false
      rw [cancel_dirty]; exact (h.2 hs').2
    · exact h
  | advance t =>
    simp only [step, ctl]
    split
    · have ht : (cancelHandle (setNow s t)).timers = [] := cancel_timers _ h.1
      refine runNext_inv _ _ _ ht ?_
      refine ⟨Or.inl ht, fun hs => ⟨ht, ?_⟩⟩
      have hs' : (setNow s t).stopped = true := by rw [← cancel_stopped]; exact hs
      show (cancelHandle (setNow s t)).dirty = false
      rw [cancel_dirty]; exact (h.2 hs').2
    · exact h
  | back t =>
    simp only [step, ctl]
    split
    · have ht : (cancelHandle (setNow s t)).timers = [] := cancel_timers _ h.1
      refine runNext_inv _ _ _ ht ?_
      refine ⟨Or.inl ht, fun hs => ⟨ht, ?_⟩⟩
      have hs' : (setNow s t).stopped = true := by rw [← cancel_stopped]; exact hs
      show (cancelHandle (setNow s t)).dirty = false
      rw [cancel_dirty]; exact (h.2 hs').2
    · exact h
  | speed num den t =>
    simp only [step, ctl]
    split
    · exact h
    · exact h
  | fire t =>
    simp only [step]
    split
    · exact h
    · rename_i tm htm
      have hmem := dueAny_mem _ _ htm
      have hnil : ((setNow s t).timers.filter (fun x => decide (x.1 ≠ tm.1))) = [] := by
        rcases h.1 with h0 | ⟨id, w, ht, _⟩
        · simp [setNow, h0] at hmem
        · simp only [setNow, ht, List.mem_singleton] at hmem
          subst hmem
          simp [setNow, ht]
      apply runNext_inv _ _ _ hnil
      refine ⟨Or.inl hnil, fun hs => ⟨hnil, (h.2 hs).2⟩⟩

theorem run_inv (ops : List Op) : ∀ s, Inv s → Inv (run s ops).1 := by
  induction ops with
  | nil => intro s h; exact h
  | cons o r ih =>
    intro s h
    simp only [run]
    exact ih _ (step_inv s o h)

theorem init_inv : Inv ({} : RS) := ⟨Or.inl rfl, fun _ => ⟨rfl, rfl⟩⟩

/-! ### nothing after stop -/

def Op.isPlay : Op → Bool
  | .play .. => true
  | _ => false

/-- what a stopped show may still emit: the acknowledgement of a pause request, nothing else -/
def onlyPaused (l : List Obs) : Prop := ∀ o ∈ l, o = Obs.ev .paused

theorem runNext_stopped (s : RS) (post : List Ev) (pa : Bool) (h : s.stopped = true) : runNext s post pa = (s, []) := by
  unfold runNext; simp [h]

theorem step_after_stop (s : RS) (o : Op) (hs : s.stopped = true) (hp : o.isPlay = false) :
    (step s o).1.stopped = true ∧ onlyPaused (step s o).2 := by
  cases o with
  | play durs num den loops start running manual t => simp [Op.isPlay] at hp
  | stop t =>
    simp only [step, ctl]
    split
    · have : (stop (setNow s t)) = (setNow s t, []) := by unfold stop; simp [setNow, hs]
      rw [this]; exact ⟨hs, by intro o ho; simp at ho⟩
    · exact ⟨hs, by intro o ho; simp at ho⟩
  | pause t =>
    simp only [step, ctl]
    split
    · exact ⟨by rw [cancel_stopped]; exact hs, by intro o ho; simpa using ho⟩
    · exact ⟨hs, by intro o ho; simp at ho⟩
  | resume t =>
    simp only [step, ctl]
    split
    · rw [runNext_stopped _ _ _ (by show (cancelHandle (setNow s t)).stopped = true; rw [cancel_stopped]; exact hs)]
      exact ⟨by show (cancelHandle (setNow s t)).stopped = true; rw [cancel_stopped]; exact hs, by intro o ho; simp at ho⟩
    · exact ⟨hs, by intro o ho; simp at ho⟩
  | advance t =>
    simp only [step, ctl]
    split
    · rw [runNext_stopped _ _ _ (by show (cancelHandle (setNow s t)).stopped = true; rw [cancel_stopped]; exact hs)]
      exact ⟨by show (cancelHandle (setNow s t)).stopped = true; rw [cancel_stopped]; exact hs, by intro o ho; simp at ho⟩
    · exact ⟨hs, by intro o ho; simp at ho⟩
  | back t =>
    simp only [step, ctl]
    split
    · rw [runNext_stopped _ _ _ (by show (cancelHandle (setNow s t)).stopped = true; rw [cancel_stopped]; exact hs)]
      exact ⟨by show (cancelHandle (setNow s t)).stopped = true; rw [cancel_stopped]; exact hs, by intro o ho; simp at ho⟩
    · exact ⟨hs, by intro o ho; simp at ho⟩
  | speed num den t =>
    simp only [step, ctl]
    split
    · exact ⟨hs, by intro o ho; simp at ho⟩
    · exact ⟨hs, by intro o ho; simp at ho⟩
  | fire t =>
    simp only [step]
    split
    · exact ⟨hs, by intro o ho; simp at ho⟩
    · rw [runNext_stopped _ _ _ (by exact hs)]
      exact ⟨hs, by intro o ho; simp at ho⟩

/-! ### the absolute schedule -/

/-- the step after `i` -/
def nxt (total i : Nat) : Nat := if i + 1 ≥ total then 0 else i + 1

def stepDur (durs : List Nat) (num den i : Nat) : Nat := durs.getD i 0 * den / num

/-- the absolute schedule: `k` steps from step `i` at time `t` -/
def sched (durs : List Nat) (num den : Nat) : Nat → Nat → Nat → List Obs
  | 0, _, _ => []
  | k + 1, i, t => Obs.eff i t :: sched durs num den k (nxt durs.length i) (t + stepDur durs num den i)

def isEff : Obs → Bool
  | .eff .. => true
  | _ => false

def effs (l : List Obs) : List Obs := l.filter isEff

theorem effs_append (a b : List Obs) : effs (a ++ b) = effs a ++ effs b := by simp [effs]

theorem effs_evs (l : List Ev) : effs (l.map Obs.ev) = [] := by
  induction l with
  | nil => rfl
  | cons e r ih => simp [effs, isEff] at ih ⊢

theorem sched_prefix_succ (durs : List Nat) (num den : Nat) : ∀ k i t,
    sched durs num den k i t <+: sched durs num den (k + 1) i t := by
  intro k
  induction k with
  | zero => intro i t; exact List.nil_prefix
  | succ k ih =>
    intro i t
    show Obs.eff i t :: _ <+: Obs.eff i t :: _
    exact (List.cons_prefix_cons).mpr ⟨rfl, ih _ _⟩

/-- the show is stopped/idle, or its single timer is due at `T` for step `i` of the given show -/
def Sch (durs : List Nat) (num den : Nat) (s : RS) (i T : Nat) : Prop :=
  s.timers = [] ∨
  (s.stopped = false ∧ s.durs = durs ∧ s.spNum = num ∧ s.spDen = den ∧ s.nextTime = T ∧
    ∃ (id c : Nat), s.timers = [(id, T)] ∧ s.nextIdx = (c : Int) + 1 ∧ c < durs.length ∧ nxt durs.length c = i)

def fires (ts : List Nat) : List Op := ts.map Op.fire

theorem fires_idle (ts : List Nat) : ∀ s, s.timers = [] → effs (run s (fires ts)).2 = [] := by
  induction ts with
  | nil => intro s _; rfl
  | cons t r ih =>
    intro s h
    simp only [fires, List.map_cons, run, step]
    have : dueAny (setNow s t) = none := by simp [dueAny, setNow, h]
    simp only [this]
    have := ih (setNow s t) h
    simpa [fires, effs] using this

theorem playStep_sch (s : RS) (idx : Nat) (evs : List Ev) (hidx : idx < s.durs.length) (ht : s.timers = [])
    (hs : s.stopped = false) :
    effs (playStep s idx evs false).2 = [Obs.eff idx s.nextTime] ∧
    Sch s.durs s.spNum s.spDen (playStep s idx evs false).1 (nxt s.durs.length idx)
      (s.nextTime + stepDur s.durs s.spNum s.spDen idx) := by
  unfold playStep
  constructor
  · simp only [effs, List.filter_cons, isEff, if_true]
    have := effs_evs evs
    simp only [effs] at this
    rw [this]
  · simp only
    split
    · refine Or.inr ⟨hs, rfl, rfl, rfl, rfl, s.nextId, idx, ?_, rfl, hidx, rfl⟩
      simp [ht, ttn, stepDur]
    · exact Or.inl ht

theorem stop_effs (s : RS) : effs (stop s).2 = [] := by
  unfold stop
  split
  · rfl
  · split <;> simp [effs, isEff]

theorem stop_timers_nil (s : RS) (ht : s.timers = []) : (stop s).1.timers = [] := by
  unfold stop
  split
  · exact ht
  · exact cancel_timers _ (Or.inl ht)

/-- firing the timer of a scheduled show plays exactly the scheduled step at the scheduled time -/
theorem runNext_sch (durs : List Nat) (num den : Nat) (s : RS) (c : Nat) (hs : s.stopped = false) (hd : s.durs = durs)
    (hn : s.spNum = num) (hdn : s.spDen = den) (ht : s.timers = []) (hi : s.nextIdx = (c : Int) + 1)
    (hc : c < durs.length) :
    (effs (runNext s [] false).2 = [] ∧ (runNext s [] false).1.timers = []) ∨
    (effs (runNext s [] false).2 = [Obs.eff (nxt durs.length c) s.nextTime] ∧
      Sch durs num den (runNext s [] false).1 (nxt durs.length (nxt durs.length c))
        (s.nextTime + stepDur durs num den (nxt durs.length c))) := by
  subst hd hn hdn
  unfold runNext
  rw [if_neg (by rw [hs]; simp)]
  have hneg : ¬ (s.nextIdx < 0) := by omega
  simp only [if_neg hneg]
  by_cases hw : s.nextIdx ≥ (s.durs.length : Int)
  · have hnx : nxt s.durs.length c = 0 := by unfold nxt; rw [if_pos (by omega)]
    have h0 : 0 < s.durs.length := by omega
    rw [if_pos hw, hnx]
    split
    · exact Or.inr (playStep_sch s 0 _ h0 ht hs)
    · rename_i n _
      exact Or.inr (playStep_sch { s with loops := some n } 0 _ h0 ht hs)
    · left
      constructor
      · show effs ((stop s).2 ++ _) = []
        rw [effs_append, stop_effs, effs_evs]; rfl
      · exact stop_timers_nil s ht
  · have hnx : nxt s.durs.length c = c + 1 := by unfold nxt; rw [if_neg (by omega)]
    rw [if_neg hw, hnx]
    have : s.nextIdx.toNat = c + 1 := by omega
    rw [this]
    exact Or.inr (playStep_sch s (c + 1) _ (by omega) ht hs)

theorem fires_follow_schedule (durs : List Nat) (num den : Nat) (ts : List Nat) : ∀ (s : RS) (i T : Nat),
    Sch durs num den s i T → effs (run s (fires ts)).2 <+: sched durs num den ts.length i T := by
  induction ts with
  | nil => intro s i T _; exact List.nil_prefix
  | cons t r ih =>
    intro s i T h
    rcases h with h | ⟨hs, hd, hn, hdn, hnt, id, c, htm, hidx, hc, hi⟩
    · rw [fires_idle _ s h]; exact List.nil_prefix
    · simp only [fires, List.map_cons, run, step]
      cases hdue : dueAny (setNow s t) with
      | none =>
        simp only
        have h' : Sch durs num den (setNow s t) i T :=
          Or.inr ⟨hs, hd, hn, hdn, hnt, id, c, htm, hidx, hc, hi⟩
        have := ih (setNow s t) i T h'
        simp only [List.nil_append]
        exact List.IsPrefix.trans this (sched_prefix_succ _ _ _ _ _ _)
      | some tm =>
        simp only
        have hmem := dueAny_mem _ _ hdue
        simp only [setNow, htm, List.mem_singleton] at hmem
        subst hmem
        have hnil : ((setNow s t).timers.filter (fun x => decide (x.1 ≠ id))) = [] := by simp [setNow, htm]
        rw [hnil]
        have key := runNext_sch durs num den { setNow s t with timers := [] } c hs hd hn hdn rfl hidx hc
        dsimp only at key
        rw [effs_append]
        rcases key with ⟨he, htn⟩ | ⟨he, hsch⟩
        · have hidle := fires_idle r _ htn
          unfold fires at hidle
          rw [he, hidle]; exact List.nil_prefix
        · rw [he]
          show Obs.eff (nxt durs.length c) (setNow s t).nextTime :: _ <+: Obs.eff i T :: _
          have hT : (setNow s t).nextTime = T := hnt
          rw [hi, hT]
          refine (List.cons_prefix_cons).mpr ⟨rfl, ?_⟩
          have := ih _ _ _ hsch
          rw [hi, hT] at this
          exact this

/-- the first step of a freshly played show, followed by any timer callbacks -/
theorem first_step (durs : List Nat) (num den : Nat) (ts : List Nat) (s0 : RS) (start T : Nat) (h1 : 1 ≤ start)
    (h2 : start ≤ durs.length) (hs : s0.stopped = false) (ht : s0.timers = []) (hi : s0.nextIdx = (start : Int) - 1)
    (hd : s0.durs = durs) (hn : s0.spNum = num) (hdn : s0.spDen = den) (hT : s0.nextTime = T) :
    effs ((runNext s0 [.played] (!true)).2 ++ (run (runNext s0 [.played] (!true)).1 (fires ts)).2) <+:
      sched durs num den (ts.length + 1) (start - 1) T := by
  have hrn : runNext s0 [.played] (!true) = playStep s0 (start - 1) [.played] false := by
    unfold runNext
    rw [if_neg (by rw [hs]; simp)]
    have hneg : ¬ (s0.nextIdx < 0) := by omega
    simp only [if_neg hneg]
    have hw : ¬ (s0.nextIdx ≥ (s0.durs.length : Int)) := by rw [hd]; omega
    rw [if_neg hw]
    have : s0.nextIdx.toNat = start - 1 := by omega
    rw [this]; rfl
  rw [hrn]
  have key := playStep_sch s0 (start - 1) [.played] (by rw [hd]; omega) ht hs
  rw [hd, hn, hdn, hT] at key
  rw [effs_append, key.1]
  show Obs.eff (start - 1) T :: _ <+: Obs.eff (start - 1) T :: _
  exact (List.cons_prefix_cons).mpr ⟨rfl, fires_follow_schedule durs num den ts _ _ _ key.2⟩

end MpfVerif.Show
