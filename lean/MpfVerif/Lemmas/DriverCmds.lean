import MpfVerif.Lemmas.DriverVerify
import MpfVerif.Model.Driver
/-! Lemmas about the command paths of `Model/Driver.lean`. -/
namespace MpfVerif.C08
open MpfVerif.Py MpfVerif.Driver MpfVerif.Gen.DriverVerify

def effMaxPulsePower (c : Ctx) : PyVal :=
  if (c.cfg "max_pulse_power").truthy then c.cfg "max_pulse_power"
  else if (c.cfg "default_pulse_power").truthy then c.cfg "default_pulse_power" else .int 0

def effMaxHoldPower (c : Ctx) : PyVal :=
  if (c.cfg "max_hold_power").truthy then c.cfg "max_hold_power"
  else if (c.cfg "allow_enable").truthy then .flt 1000000
  else if (c.cfg "default_hold_power").truthy then c.cfg "default_hold_power" else .int 0

def PowerOK (c : Ctx) (v : PyVal) : Prop :=
  inRangeB v 0 1000000 = true ∧ pyCmp ">" v (effMaxPulsePower c) = .ok false
def HoldOK (c : Ctx) (v : PyVal) : Prop :=
  inRangeB v 0 1000000 = true ∧ pyCmp ">" v (effMaxHoldPower c) = .ok false
def DurOK (c : Ctx) (v : PyVal) : Prop :=
  v.isInt = true ∧ geB v 0 = true ∧ ((c.cfg "max_pulse_ms").truthy = true → pyCmp ">" v (c.cfg "max_pulse_ms") = .ok false)
def TimedOK (c : Ctx) (v : PyVal) : Prop :=
  v.isInt = true ∧ geB v 0 = true ∧
    ((c.cfg "max_hold_duration").truthy = true → pyCmp ">" v (c.cfg "max_hold_duration") = .ok false)

/-- a platform command respects the coil's limits -/
def CmdOK (c : Ctx) : Cmd → Prop
  | .pulse p d => PowerOK c p ∧ DurOK c d
  | .enable pp pd hp soft =>
      PowerOK c pp ∧ (if soft then pd = .int 0 ∧ hp = pp else DurOK c pd ∧ HoldOK c hp ∧ pyCmp "==" hp (.flt 0) = .ok false)
  | .timedEnable pp pd hp hd => PowerOK c pp ∧ DurOK c pd ∧ HoldOK c hp ∧ TimedOK c hd
  | .disable => True

/-- what `Props/C08.lean` proves about the four translated limit functions, as one hypothesis for the lemmas here -/
structure VerifySound (c : Ctx) : Prop where
  ms : ∀ x v, vPulseMs c x = .ok v → DurOK c v
  pw : ∀ x v, vPulsePower c x = .ok v → PowerOK c v
  hp : ∀ x v, vHoldPower c x = .ok v → HoldOK c v
  te : ∀ x v, vTimedMs c x = .ok v → TimedOK c v

/-- a PSU-delayed call carries verified arguments -/
def PendOK (c : Ctx) : Pend → Prop
  | .pulseNow _ pm pp => DurOK c pm ∧ PowerOK c pp
  | .enableNow _ pm pp h => DurOK c pm ∧ PowerOK c pp ∧ HoldOK c h ∧ pyCmp "==" h (.flt 0) = .ok false

def PendsOK (c : Ctx) (s : Driver.St) : Prop := ∀ p ∈ s.pend, PendOK c p

theorem fireTd_cmds (s : Driver.St) : (fireTd s).1.pend = s.pend ∧ ∀ cmd ∈ (fireTd s).2, cmd = .disable := by
  unfold fireTd
  split
  · split
    · exact ⟨rfl, by simp [doDisable]⟩
    · exact ⟨rfl, by simp⟩
  · exact ⟨rfl, by simp⟩

theorem fireLim_cmds (s : Driver.St) : (fireLim s).1.pend = s.pend ∧ ∀ cmd ∈ (fireLim s).2, cmd = .disable := by
  unfold fireLim
  split
  · split
    · exact ⟨rfl, by simp [doDisable]⟩
    · exact ⟨rfl, by simp⟩
  · exact ⟨rfl, by simp⟩

theorem fireDue_cmds (s : Driver.St) : ∀ cmd ∈ (fireDue s).2, cmd = .disable := by
  intro cmd h
  unfold fireDue at h
  rcases List.mem_append.1 h with h | h
  · exact (fireTd_cmds s).2 cmd h
  · exact (fireLim_cmds _).2 cmd h

theorem fireDue_pend (s : Driver.St) : (fireDue s).1.pend = s.pend := by
  unfold fireDue
  rw [(fireLim_cmds _).1, (fireTd_cmds s).1]

theorem timedEnable_cmds' (c : Ctx) (hv : VerifySound c) (s s' : Driver.St) (te hp ms pw : PyVal) (cmds : List Cmd)
    (h : doTimedEnable c s te hp ms pw = .ok (s', cmds)) : s' = s ∧ ∀ cmd ∈ cmds, CmdOK c cmd := by
  simp only [doTimedEnable, bind, Except.bind] at h
  cases h1 : vPulseMs c ms with
  | error e => simp [h1] at h
  | ok pd =>
    cases h2 : vPulsePower c pw with
    | error e => simp [h1, h2] at h
    | ok pp =>
      cases h3 : vTimedMs c te with
      | error e => simp [h1, h2, h3] at h
      | ok hd =>
        cases h4 : vHoldPower c hp with
        | error e => simp [h1, h2, h3, h4] at h
        | ok hh =>
          simp only [h1, h2, h3, h4, pure, Except.pure, Except.ok.injEq, Prod.mk.injEq] at h
          obtain ⟨rfl, rfl⟩ := h
          refine ⟨rfl, ?_⟩
          intro cmd hc
          simp only [List.mem_singleton] at hc
          subst hc
          exact ⟨hv.pw _ _ h2, hv.ms _ _ h1, hv.hp _ _ h4, hv.te _ _ h3⟩

/-- `_pulse_now` with verified values emits a hardware pulse, a re-verified timed enable, or the software-timed
enable whose hold power is the verified pulse power; it never touches the delayed calls -/
theorem pulseNow_cmds' (c : Ctx) (hv : VerifySound c) (s s' : Driver.St) (pm pp : PyVal) (cmds : List Cmd)
    (hd : DurOK c pm) (hp : PowerOK c pp) (h : pulseNow c s pm pp = .ok (s', cmds)) :
    s'.pend = s.pend ∧ ∀ cmd ∈ cmds, CmdOK c cmd := by
  unfold pulseNow at h
  split at h
  · obtain ⟨rfl, hc⟩ := timedEnable_cmds' c hv s s' _ _ _ _ cmds h
    exact ⟨rfl, hc⟩
  · simp only [bind, Except.bind] at h
    cases h1 : pyCmp "<" (.int 0) pm with
    | error e => simp [h1] at h
    | ok a =>
      cases h2 : pyCmp "<=" pm (c.env "max_pulse") with
      | error e => simp [h1, h2] at h
      | ok b =>
        simp only [h1, h2] at h
        split at h
        · simp only [pure, Except.pure, Except.ok.injEq, Prod.mk.injEq] at h
          obtain ⟨rfl, rfl⟩ := h
          refine ⟨rfl, ?_⟩
          intro cmd hc; simp only [List.mem_singleton] at hc; subst hc
          exact ⟨hp, hd⟩
        · simp only [pure, Except.pure, Except.ok.injEq, Prod.mk.injEq] at h
          obtain ⟨rfl, rfl⟩ := h
          refine ⟨rfl, ?_⟩
          intro cmd hc; simp only [List.mem_singleton] at hc; subst hc
          exact ⟨hp, by simp⟩

theorem enableNow_cmds (c : Ctx) (s : Driver.St) (pm pp h : PyVal) (hd : DurOK c pm) (hp : PowerOK c pp)
    (hh : HoldOK c h) (h0 : pyCmp "==" h (.flt 0) = .ok false) :
    (enableNow c s pm pp h).1.pend = s.pend ∧ ∀ cmd ∈ (enableNow c s pm pp h).2, CmdOK c cmd := by
  unfold enableNow
  refine ⟨by simp only []; split <;> rfl, ?_⟩
  intro cmd hc; simp only [List.mem_singleton] at hc; subst hc
  exact ⟨hp, by simp only [Bool.false_eq_true, if_false]; exact ⟨hd, hh, h0⟩⟩

theorem mem_append_single {α} {l : List α} {a x : α} (h : x ∈ l ++ [a]) : x ∈ l ∨ x = a := by
  simpa using h

/-- every platform command built by one request respects the limits, and every call the request leaves pending carries
verified arguments -/
theorem op_cmds' (c : Ctx) (hv : VerifySound c) (s s' : Driver.St) (op : Op) (cmds : List Cmd) (hs : PendsOK c s)
    (h : doOp c s op = .ok (s', cmds)) : PendsOK c s' ∧ ∀ cmd ∈ cmds, CmdOK c cmd := by
  cases op with
  | pulse ms pw =>
    simp only [doOp, bind, Except.bind] at h
    cases h1 : vPulseMs c ms with
    | error e => simp [h1] at h
    | ok pm =>
      cases h2 : vPulsePower c pw with
      | error e => simp [h1, h2] at h
      | ok pp =>
        simp only [h1, h2] at h
        obtain ⟨hp, hc⟩ := pulseNow_cmds' c hv s s' pm pp cmds (hv.ms _ _ h1) (hv.pw _ _ h2) h
        exact ⟨by unfold PendsOK; rw [hp]; exact hs, hc⟩
  | pulseW ms pw mw w =>
    simp only [doOp, bind, Except.bind] at h
    cases h1 : vPulseMs c ms with
    | error e => simp [h1] at h
    | ok pm =>
      cases h2 : vPulsePower c pw with
      | error e => simp [h1, h2] at h
      | ok pp =>
        cases h3 : pyCmp ">" (waitOf mw w) (.int 0) with
        | error e => simp [h1, h2, h3] at h
        | ok b =>
          cases b with
          | true =>
            simp only [h1, h2, h3, if_true, pure, Except.pure, Except.ok.injEq, Prod.mk.injEq] at h
            obtain ⟨rfl, rfl⟩ := h
            refine ⟨?_, by simp⟩
            intro p hp
            rcases mem_append_single hp with hp | rfl
            · exact hs p hp
            · exact ⟨hv.ms _ _ h1, hv.pw _ _ h2⟩
          | false =>
            simp only [h1, h2, h3, Bool.false_eq_true, if_false] at h
            obtain ⟨hp, hc⟩ := pulseNow_cmds' c hv s s' pm pp cmds (hv.ms _ _ h1) (hv.pw _ _ h2) h
            exact ⟨by unfold PendsOK; rw [hp]; exact hs, hc⟩
  | enable ms pw hp =>
    simp only [doOp, bind, Except.bind] at h
    cases h1 : vPulseMs c ms with
    | error e => simp [h1] at h
    | ok pm =>
      cases h2 : vPulsePower c pw with
      | error e => simp [h1, h2] at h
      | ok pp =>
        cases h3 : vHoldPower c hp with
        | error e => simp [h1, h2, h3] at h
        | ok hh =>
          cases h4 : pyCmp "==" hh (.flt 0) with
          | error e => simp [h1, h2, h3, h4] at h
          | ok z =>
            cases z with
            | true => simp [h1, h2, h3, h4, throw, throwThe, MonadExceptOf.throw] at h
            | false =>
              simp only [h1, h2, h3, h4, pure, Except.pure, Except.ok.injEq, Bool.false_eq_true, if_false] at h
              have key := enableNow_cmds c s pm pp hh (hv.ms _ _ h1) (hv.pw _ _ h2) (hv.hp _ _ h3) h4
              rw [h] at key
              exact ⟨by unfold PendsOK; rw [key.1]; exact hs, key.2⟩
  | enableW ms pw hp mw w =>
    simp only [doOp, bind, Except.bind] at h
    cases h1 : vPulseMs c ms with
    | error e => simp [h1] at h
    | ok pm =>
      cases h2 : vPulsePower c pw with
      | error e => simp [h1, h2] at h
      | ok pp =>
        cases h3 : vHoldPower c hp with
        | error e => simp [h1, h2, h3] at h
        | ok hh =>
          cases h4 : pyCmp "==" hh (.flt 0) with
          | error e => simp [h1, h2, h3, h4] at h
          | ok z =>
            cases z with
            | true => simp [h1, h2, h3, h4, throw, throwThe, MonadExceptOf.throw] at h
            | false =>
              cases h5 : pyCmp ">" (waitOf mw w) (.int 0) with
              | error e => simp [h1, h2, h3, h4, h5] at h
              | ok b =>
                cases b with
                | true =>
                  simp only [h1, h2, h3, h4, h5, if_true, pure, Except.pure, Except.ok.injEq, Prod.mk.injEq,
                    Bool.false_eq_true, if_false] at h
                  obtain ⟨rfl, rfl⟩ := h
                  refine ⟨?_, by simp⟩
                  intro p hp
                  rcases mem_append_single hp with hp | rfl
                  · exact hs p hp
                  · exact ⟨hv.ms _ _ h1, hv.pw _ _ h2, hv.hp _ _ h3, h4⟩
                | false =>
                  simp only [h1, h2, h3, h4, h5, pure, Except.pure, Except.ok.injEq, Bool.false_eq_true, if_false] at h
                  have key := enableNow_cmds c s pm pp hh (hv.ms _ _ h1) (hv.pw _ _ h2) (hv.hp _ _ h3) h4
                  rw [h] at key
                  exact ⟨by unfold PendsOK; rw [key.1]; exact hs, key.2⟩
  | timedEnable te hp ms pw =>
    obtain ⟨rfl, hc⟩ := timedEnable_cmds' c hv s s' _ _ _ _ cmds h
    exact ⟨hs, hc⟩
  | timedEnableW te hp ms pw mw =>
    obtain ⟨rfl, hc⟩ := timedEnable_cmds' c hv s s' _ _ _ _ cmds h
    exact ⟨hs, hc⟩
  | disable =>
    simp only [doOp, doDisable, pure, Except.pure, Except.ok.injEq, Prod.mk.injEq] at h
    obtain ⟨rfl, rfl⟩ := h
    refine ⟨hs, ?_⟩
    intro cmd hc; simp only [List.mem_singleton] at hc; subst hc; trivial
  | advance dt =>
    simp only [doOp, pure, Except.pure, Except.ok.injEq, Prod.mk.injEq] at h
    obtain ⟨rfl, rfl⟩ := h
    exact ⟨hs, by simp⟩
  | fire w =>
    simp only [doOp, pure, Except.pure, Except.ok.injEq, Prod.mk.injEq] at h
    obtain ⟨rfl, rfl⟩ := h
    exact ⟨hs, by simp⟩

theorem runPend_cmds (c : Ctx) (hv : VerifySound c) (s : Driver.St) (p : Pend) (hp : PendOK c p) :
    (runPend c s p).1.pend = s.pend ∧ ∀ cmd ∈ (runPend c s p).2, CmdOK c cmd := by
  cases p with
  | pulseNow d pm pp =>
    simp only [runPend]
    cases h : pulseNow c s pm pp with
    | error e => exact ⟨rfl, by simp⟩
    | ok r =>
      obtain ⟨s', cmds⟩ := r
      exact pulseNow_cmds' c hv s s' pm pp cmds hp.1 hp.2 h
  | enableNow d pm pp h =>
    simp only [runPend]
    exact enableNow_cmds c s pm pp h hp.1 hp.2.1 hp.2.2.1 hp.2.2.2

theorem mem_eraseIdx {α} {l : List α} {i : Nat} {x : α} (h : x ∈ l.eraseIdx i) : x ∈ l :=
  List.mem_of_mem_eraseIdx h

/-- running one timer: commands within the limits, the remaining delayed calls still verified -/
theorem runTimer_cmds (c : Ctx) (hv : VerifySound c) (s : Driver.St) (w : Which) (hs : PendsOK c s) :
    PendsOK c (runTimer c s w).1 ∧ ∀ cmd ∈ (runTimer c s w).2, CmdOK c cmd := by
  cases w with
  | td => exact ⟨hs, by intro cmd hc; simp [runTimer, doDisable] at hc; subst hc; trivial⟩
  | lim => exact ⟨hs, by intro cmd hc; simp [runTimer, doDisable] at hc; subst hc; trivial⟩
  | pend i =>
    simp only [runTimer]
    cases hp : s.pend[i]? with
    | none => exact ⟨hs, by simp⟩
    | some p =>
      simp only []
      have hmem : p ∈ s.pend := List.mem_of_getElem? hp
      obtain ⟨h1, h2⟩ := runPend_cmds c hv { s with pend := s.pend.eraseIdx i } p (hs p hmem)
      refine ⟨?_, h2⟩
      unfold PendsOK
      rw [h1]
      intro q hq
      exact hs q (mem_eraseIdx hq)

theorem advanceTo_cmds (c : Ctx) (hv : VerifySound c) (fuel : Nat) (s : Driver.St) (target : Nat) (hs : PendsOK c s) :
    PendsOK c (advanceTo c fuel s target).1 ∧ ∀ tc ∈ (advanceTo c fuel s target).2, CmdOK c tc.2 := by
  induction fuel generalizing s with
  | zero => exact ⟨hs, by simp [advanceTo]⟩
  | succ f ih =>
    unfold advanceTo
    split
    · rename_i d hd
      split
      · have h1 := runTimer_cmds c hv { s with now := max d s.now } (firstAt s d) hs
        have h2 := ih (runTimer c { s with now := max d s.now } (firstAt s d)).1 h1.1
        refine ⟨h2.1, ?_⟩
        intro tc htc
        simp only [List.mem_append, List.mem_map] at htc
        rcases htc with ⟨x, hx, rfl⟩ | htc
        · exact h1.2 x hx
        · exact h2.2 tc htc
      · exact ⟨hs, by simp⟩
    · exact ⟨hs, by simp⟩

/-- what `step` does for a request (everything but `advance` / `fire`) -/
def reqStep (c : Ctx) (s : Driver.St) (op : Op) : Driver.St × Bool × List (Nat × Cmd) :=
  match doOp c s op with
  | .ok (s1, o1) => ((fireDue s1).1, true, (o1 ++ (fireDue s1).2).map (fun x => (s.now, x)))
  | .error _ => ((fireDue s).1, false, (fireDue s).2.map (fun x => (s.now, x)))

theorem step_cases (c : Ctx) (s : Driver.St) (op : Op) :
    (∃ dt, op = .advance dt ∧ step c s op = ((advance c s dt).1, true, (advance c s dt).2)) ∨
    (∃ w, op = .fire w ∧ step c s op = (match fire c s w with
      | some (s', o) => (s', true, o.map (fun x => (s'.now, x)))
      | none => (s, false, []))) ∨
    step c s op = reqStep c s op := by
  cases op with
  | advance dt => exact Or.inl ⟨dt, rfl, rfl⟩
  | fire w => exact Or.inr (Or.inl ⟨w, rfl, rfl⟩)
  | _ =>
    refine Or.inr (Or.inr ?_)
    simp only [step, reqStep]
    generalize doOp c s _ = r
    rcases r with e | ⟨s1, o1⟩ <;> rfl

theorem fire_cmds (c : Ctx) (hv : VerifySound c) (s s' : Driver.St) (w : Which) (o : List Cmd) (hs : PendsOK c s)
    (h : fire c s w = some (s', o)) : PendsOK c s' ∧ ∀ cmd ∈ o, CmdOK c cmd := by
  unfold fire at h
  cases hd : dueOf s w with
  | none => simp [hd] at h
  | some d =>
    simp only [hd] at h
    split at h
    · simp only [Option.some.injEq] at h
      have h1 := runTimer_cmds c hv { s with now := max d s.now } w hs
      rw [h] at h1
      exact h1
    · simp at h

/-- one harness step: every command within the limits, every call left pending verified -/
theorem step_cmds (c : Ctx) (hv : VerifySound c) (s : Driver.St) (op : Op) (hs : PendsOK c s) :
    PendsOK c (step c s op).1 ∧ ∀ tc ∈ (step c s op).2.2, CmdOK c tc.2 := by
  rcases step_cases c s op with ⟨dt, _, h⟩ | ⟨w, _, h⟩ | h
  · rw [h]; exact advanceTo_cmds c hv _ s _ hs
  · rw [h]
    cases hf : fire c s w with
    | none => exact ⟨hs, by simp⟩
    | some r =>
      obtain ⟨s', o⟩ := r
      have h1 := fire_cmds c hv s s' w o hs hf
      refine ⟨h1.1, ?_⟩
      intro tc htc
      simp only [List.mem_map] at htc
      obtain ⟨x, hx, rfl⟩ := htc
      exact h1.2 x hx
  · rw [h]
    unfold reqStep
    cases hop : doOp c s op with
    | error e =>
      simp only []
      refine ⟨by unfold PendsOK; rw [fireDue_pend]; exact hs, ?_⟩
      intro tc htc
      simp only [List.mem_map] at htc
      obtain ⟨x, hx, rfl⟩ := htc
      rw [fireDue_cmds _ x hx]; trivial
    | ok r =>
      obtain ⟨s1, o1⟩ := r
      simp only []
      have h1 := op_cmds' c hv s s1 op o1 hs hop
      refine ⟨by unfold PendsOK; rw [fireDue_pend]; exact h1.1, ?_⟩
      intro tc htc
      simp only [List.mem_map, List.mem_append] at htc
      obtain ⟨x, hx, rfl⟩ := htc
      rcases hx with hx | hx
      · exact h1.2 x hx
      · rw [fireDue_cmds _ x hx]; trivial

end MpfVerif.C08
