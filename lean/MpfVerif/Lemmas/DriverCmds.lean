import MpfVerif.Lemmas.DriverVerify
import MpfVerif.Model.Driver
/-! Lemmas about the command paths of `Model/Driver.lean`. -/
namespace MpfVerif.C08
open MpfVerif.Py MpfVerif.Driver MpfVerif.Gen.DriverVerify

def effMaxPulsePower (c : Ctx) : PyVal :=
  if (c.cfg "max_pulse_power").truthy then c.cfg "max_pulse_power"
  else if (c.cfg "default_pulse_power").truthy then c.cfg "default_pulse_power" else .int 0

def effMaxHoldPower (c : Ctx) : PyVal :=
  if (c.cfg "max_hold_power").truthy then c.cfg "max_hold_power"
  else if (c.cfg "allow_enable").truthy then .flt 1000000
  else if (c.cfg "default_hold_power").truthy then c.cfg "default_hold_power" else .int 0

def PowerOK (c : Ctx) (v : PyVal) : Prop :=
  inRangeB v 0 1000000 = true ∧ pyCmp ">" v (effMaxPulsePower c) = .ok false
def HoldOK (c : Ctx) (v : PyVal) : Prop :=
  inRangeB v 0 1000000 = true ∧ pyCmp ">" v (effMaxHoldPower c) = .ok false
def DurOK (c : Ctx) (v : PyVal) : Prop :=
  v.isInt = true ∧ geB v 0 = true ∧ ((c.cfg "max_pulse_ms").truthy = true → pyCmp ">" v (c.cfg "max_pulse_ms") = .ok false)
def TimedOK (c : Ctx) (v : PyVal) : Prop :=
  v.isInt = true ∧ geB v 0 = true ∧
    ((c.cfg "max_hold_duration").truthy = true → pyCmp ">" v (c.cfg "max_hold_duration") = .ok false)

/-- a platform command respects the coil's limits -/
def CmdOK (c : Ctx) : Cmd → Prop
  | .pulse p d => PowerOK c p ∧ DurOK c d
  | .enable pp pd hp soft =>
      PowerOK c pp ∧ (if soft then pd = .int 0 ∧ hp = pp else DurOK c pd ∧ HoldOK c hp ∧ pyCmp "==" hp (.flt 0) = .ok false)
  | .timedEnable pp pd hp hd => PowerOK c pp ∧ DurOK c pd ∧ HoldOK c hp ∧ TimedOK c hd
  | .disable => True

theorem fireDue_cmds (s : Driver.St) : ∀ cmd ∈ (fireDue s).2, cmd = .disable := by
  intro cmd h
  unfold fireDue at h
  simp only [doDisable] at h
  split at h <;> split at h <;> (try split at h) <;> (try split at h) <;> simp_all

theorem advanceTo_cmds (fuel : Nat) (s : Driver.St) (target : Nat) :
    ∀ tc ∈ (advanceTo fuel s target).2, tc.2 = .disable := by
  induction fuel generalizing s with
  | zero => simp [advanceTo]
  | succ f ih =>
    intro tc h
    unfold advanceTo at h
    split at h
    · split at h
      · simp only [List.mem_append, List.mem_map] at h
        rcases h with ⟨c, hc, rfl⟩ | h
        · exact fireDue_cmds _ c hc
        · exact ih _ tc h
      · simp at h
    · simp at h

end MpfVerif.C08
