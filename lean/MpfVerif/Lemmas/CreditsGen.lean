import MpfVerif.Model.CreditsGen
/-!
# The hand model of the credits handlers does what the generated programs do (C20)
One lemma per translated handler of `Gen/CreditsOps.lean`: `genRun c s <program> <args>` (fold the logged actions of the
generated program over the state) = the hand function of `Model/Credits.lean`, no action without a meaning, and the result.
-/
set_option linter.unusedSimpArgs false
set_option linter.unusedVariables false
namespace MpfVerif.Credits
open MpfVerif.Py MpfVerif.Gen.CreditsOps

theorem pyCmp_int (op : String) (a b : Int) : pyCmp op (.int a) (.int b) = .ok (cmpOp op (a * 1000000) (b * 1000000)) := rfl
theorem cmp_lt (x y : Int) : cmpOp "<" x y = decide (x < y) := rfl
theorem cmp_gt (x y : Int) : cmpOp ">" x y = decide (x > y) := rfl
theorem cmp_ge (x y : Int) : cmpOp ">=" x y = decide (x ≥ y) := rfl
theorem cmp_le (x y : Int) : cmpOp "<=" x y = decide (x ≤ y) := rfl
theorem cmp_eq (x y : Int) : cmpOp "==" x y = decide (x = y) := rfl
theorem cmp_ne (x y : Int) : cmpOp "!=" x y = decide (x ≠ y) := rfl
theorem scale_lt (a b : Int) : (a * 1000000 < b * 1000000) = (a < b) := by apply propext; omega
theorem scale_le (a b : Int) : (a * 1000000 ≤ b * 1000000) = (a ≤ b) := by apply propext; omega
theorem scale_eq (a b : Int) : (a * 1000000 = b * 1000000) = (a = b) := by apply propext; omega
theorem scale_lt0 (a : Int) : (a * 1000000 < 0) = (a < 0) := by apply propext; omega
theorem scale_le0 (a : Int) : (a * 1000000 ≤ 0) = (a ≤ 0) := by apply propext; omega
theorem toNat_ms (n : Nat) : ((n : Int) * 1000).toNat / 1000 = n := by omega

/-- `_get_credit_units()` returns the machine variable, 0 when it is falsy (None / 0) -/
def unitsOf (v : PyVal) : PyVal := if v.truthy then v else .int 0
@[simp] theorem unitsOf_int (u : Int) : unitsOf (.int u) = .int u := by
  unfold unitsOf PyVal.truthy; by_cases h : u = 0 <;> simp [h]

theorem get_units (ctx : SCtx) (l : Locals) (st : SState) :
    execSL ctx p_get_credit_units l st = (st, .done (unitsOf (st.σ "mv:credit_units"))) := by
  unfold unitsOf
  cases h : (st.σ "mv:credit_units").truthy <;>
  simp [p_get_credit_units, execSL, execSS, evalS, evalE, evalC, bind, Except.bind, pure, Except.pure, SCtx.at, h]

theorem game_started_gen (c : Cfg) (s : St) (hf : s.freePlay = false) :
    genRun c s p_game_started [] = (core (gameStarted s), false, some .none) := by
  simp [genRun, callS, p_game_started, execSL, execSS, evalS, evalE, evalSArgs, argLocals, bind, Except.bind, pure,
    Except.pure, SCtx.at, applyEff, Eff.arg, List.lookup, gameStarted, hf, core, intOf]

theorem ms_truthy (n : Nat) : ((n : Int) * 1000 != 0) = decide (n ≠ 0) := by
  by_cases h : n = 0
  · simp [h]
  · have : (n : Int) * 1000 ≠ 0 := by omega
    simp [h, this]

macro "credits_simp" : tactic => `(tactic|
  simp [genRun, callS, execSL, execSS, evalS, evalE, evalC, evalSArgs, argLocals, bindTarget, bind, Except.bind, pure,
    Except.pure, SCtx.at, sctx, sigma, applyEff, Eff.arg, List.lookup, core, intOf, PyVal.truthy, get_units, pyCmp_int,
    cmp_lt, cmp_gt, cmp_ge, cmp_le, cmp_eq, cmp_ne, scale_lt, scale_le, scale_eq, scale_lt0, scale_le0, toNat_ms, ms_truthy, binop, asInt, updStrings, *])

theorem game_ended_gen (c : Cfg) (s : St) (hf : s.freePlay = false) :
    genRun c s p_game_ended [] = (core { (resetTimeouts c s) with resetThisGame := false }, false, some .none) := by
  by_cases h1 : c.fracExp = 0 <;> by_cases h2 : c.allExp = 0 <;>
  simp [p_game_ended, p_reset_timeouts, resetTimeouts] <;> credits_simp

/-- the start gate: approved iff a full price is there; a refusal posts `not_enough_credits` -/
theorem request_to_start_gen (c : Cfg) (s : St) (hf : s.freePlay = false) :
    genRun c s p_request_to_start_game [] =
      (core (if enough c s then s else notEnough s), false, some (.bool (enough c s))) := by
  by_cases h : s.units ≥ upg c <;>
  simp [p_request_to_start_game, enough, notEnough, hf, h] <;> credits_simp

theorem player_add_request_gen (c : Cfg) (s : St) (hf : s.freePlay = false) :
    genRun c s p_player_add_request [] =
      (core (if enough c s then s else notEnough s), false, some (.bool (enough c s))) := by
  by_cases h : s.units ≥ upg c <;>
  simp [p_player_add_request, enough, notEnough, hf, h] <;> credits_simp

theorem clear_all_gen (c : Cfg) (s : St) :
    genRun c s clear_all_credits [] = (core (clearAll s), false, some .none) := by
  cases hf : s.freePlay <;> simp [clear_all_credits, clearAll] <;> credits_simp

theorem clear_fractional_gen (c : Cfg) (s : St) (hu : 0 < upg c) :
    genRun c s p_clear_fractional_credits [] = (core (clearFrac c s), false, some .none) := by
  have h1 : ¬ (upg c = 0) := by omega
  cases hf : s.freePlay <;> simp [p_clear_fractional_credits, clearFrac] <;> credits_simp

theorem toggle_gen (c : Cfg) (s : St) :
    genRun c s toggle_credit_play [] = (core (togglePlay c s), false, some .none) := by
  cases hf : s.freePlay <;> simp [toggle_credit_play, togglePlay] <;> credits_simp

end MpfVerif.Credits
