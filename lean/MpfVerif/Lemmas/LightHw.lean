import MpfVerif.Lemmas.Light
/-! C09: the hardware target sent by `_schedule_update` follows the stack although updates are skipped/suppressed. -/
namespace MpfVerif.Light

/-- target colour of the last fade sent to the hardware channels (off before anything was sent) -/
def sentTc (s : LSt) : RGB :=
  match s.last with
  | none => off
  | some t => t.tc

def HwInv (s : LSt) : Prop := SortedU s.stack ∧ sentTc s = (targetOf s.stack).tc

/-- every fade is over and no fade-out entry is left -/
def Quiet (now : Nat) (s : List Entry) : Prop := ∀ e ∈ s, e.destC.isSome = true ∧ (e.destT = 0 ∨ e.destT ≤ now)

instance (now : Nat) (s : List Entry) : Decidable (Quiet now s) := by unfold Quiet; exact inferInstance

theorem schedule_sent (s : LSt) : sentTc (schedule s).1 = (targetOf (schedule s).1.stack).tc := by
  rw [schedule_stack]
  unfold schedule
  cases hl : s.last with
  | none => rfl
  | some l =>
    simp only
    by_cases h1 : l = targetOf s.stack
    · rw [if_pos h1]; simp [sentTc, hl, h1]
    · rw [if_neg h1]
      by_cases h2 : (targetOf s.stack).tc = l.tc ∧ l.finished s.now = true
      · rw [if_pos h2]; simp [sentTc, hl, h2.1]
      · rw [if_neg h2]; rfl

theorem targetOf_head_opaque (e : Entry) (r : List Entry) (c : RGB) (h : e.destC = some c) :
    (targetOf (e :: r)).tc = c := by
  unfold targetOf
  split <;> simp [h, Target.tc]

theorem target_eq_color_of_quiet (now : Nat) (s : List Entry) (hq : Quiet now s) :
    (targetOf s).tc = getColor now s := by
  cases s with
  | nil => rfl
  | cons e r =>
    have h := hq e List.mem_cons_self
    cases hc : e.destC with
    | none => simp [hc] at h
    | some c =>
      rw [targetOf_head_opaque e r c hc]
      simp only [getColor, h.2, if_true, hc]

theorem targetOf_prefix (A X Y : List Entry) (h : ∃ a ∈ A, a.destC.isSome = true) :
    targetOf (A ++ X) = targetOf (A ++ Y) := by
  induction A with
  | nil => simp at h
  | cons a A ih =>
    simp only [List.cons_append]
    cases hc : a.destC with
    | some c => unfold targetOf; simp only [hc]
    | none =>
      have h' : ∃ a' ∈ A, a'.destC.isSome = true := by
        obtain ⟨x, hx, hx2⟩ := h
        rcases List.mem_cons.mp hx with rfl | hx
        · simp [hc] at hx2
        · exact ⟨x, hx, hx2⟩
      unfold targetOf
      simp only [hc, ih h']

theorem insertE_append (g : Entry) (A X : List Entry) (h : ∀ a ∈ A, ¬ abv g.prio g.key a.prio a.key) :
    insertE g (A ++ X) = A ++ insertE g X := by
  induction A with
  | nil => rfl
  | cons a A ih =>
    simp only [List.cons_append]
    rw [insertE, if_neg (h a List.mem_cons_self), ih (fun x hx => h x (List.mem_cons_of_mem _ hx))]

theorem scanKey_spec (k : Nat) (s : List Entry) (ch0 ch : Bool) (tail : List Entry)
    (h : scanKey k s ch0 = some (ch, tail)) :
    ∃ A, s = A ++ tail ∧ (∀ a ∈ A, a.key ≠ k) ∧ (∃ e tl, tail = e :: tl ∧ e.key = k) ∧
      (ch0 = true → ch = false → ∃ a ∈ A, a.destC.isSome = true) := by
  induction s generalizing ch0 with
  | nil => simp [scanKey] at h
  | cons e r ih =>
    unfold scanKey at h
    split at h
    · rename_i hk
      simp only [Option.some.injEq, Prod.mk.injEq] at h
      obtain ⟨h1, h2⟩ := h
      subst h1 h2
      exact ⟨[], rfl, by simp, ⟨e, r, rfl, hk⟩, by intro a b; simp [a] at b⟩
    · rename_i hk
      obtain ⟨A, hA, hkeys, htail, hch⟩ := ih _ h
      refine ⟨e :: A, by simp [hA], ?_, htail, ?_⟩
      · intro a ha
        rcases List.mem_cons.mp ha with rfl | ha
        · exact hk
        · exact hkeys a ha
      · intro h0 hf
        subst h0
        cases hc : e.destC with
        | some c => exact ⟨e, List.mem_cons_self, by simp [hc]⟩
        | none =>
          obtain ⟨a, ha, ha2⟩ := hch (by simp [hc]) hf
          exact ⟨a, List.mem_cons_of_mem _ ha, ha2⟩

theorem scanGhost_spec (k : Nat) (s : List Entry) (ch0 ch : Bool) (h : scanGhost k s ch0 = some ch) :
    ∃ A B, s = A ++ B ∧ (∀ a ∈ A, ¬ (a.key = k ∧ a.destC.isNone = true)) ∧
      (ch0 = true → ch = false → ∃ a ∈ A, a.destC.isSome = true) := by
  induction s generalizing ch0 with
  | nil => simp [scanGhost] at h
  | cons e r ih =>
    unfold scanGhost at h
    split at h
    · simp only [Option.some.injEq] at h
      subst h
      exact ⟨[], e :: r, rfl, by simp, by intro a b; simp [a] at b⟩
    · rename_i hk
      obtain ⟨A, B, hA, hkeys, hch⟩ := ih _ h
      refine ⟨e :: A, B, by simp [hA], ?_, ?_⟩
      · intro a ha
        rcases List.mem_cons.mp ha with rfl | ha
        · exact hk
        · exact hkeys a ha
      · intro h0 hf
        subst h0
        cases hc : e.destC with
        | some c => exact ⟨e, List.mem_cons_self, by simp [hc]⟩
        | none =>
          obtain ⟨a, ha, ha2⟩ := hch (by simp [hc]) hf
          exact ⟨a, List.mem_cons_of_mem _ ha, ha2⟩

theorem removeKey_append_absent (k : Nat) (A X : List Entry) (h : ∀ a ∈ A, a.key ≠ k) :
    removeKey k (A ++ X) = A ++ removeKey k X := by
  unfold removeKey
  rw [List.filter_append]
  congr 1
  exact removeKey_absent k A h

/-- a colour command that does not reach `_schedule_update` leaves the stack's target unchanged -/
theorem addStack_target_of_no_change (now : Nat) (c : RGB) (fade p k st : Nat) (s : List Entry)
    (h : topChanges p s = false) : (targetOf (addStack now c fade p k st s)).tc = (targetOf s).tc := by
  cases s with
  | nil => simp [topChanges] at h
  | cons e0 r =>
    simp only [topChanges, Bool.or_eq_false_iff, decide_eq_false_iff_not] at h
    obtain ⟨hp, hopq⟩ := h
    cases hc : e0.destC with
    | none => simp [hc] at hopq
    | some c0 =>
      rw [targetOf_head_opaque e0 r c0 hc]
      unfold addStack
      split
      · exact targetOf_head_opaque e0 r c0 hc
      · rename_i hacc
        by_cases hk : e0.key = k
        · exfalso
          apply hacc
          refine ⟨by simp, ?_⟩
          unfold prioFromKey
          simp only [hk, hc, Option.isSome_some, and_self, if_true]
          omega
        · have h1 : removeKey k (e0 :: r) = e0 :: removeKey k r := by
            simp [removeKey, hk]
          rw [h1]
          have h2 : ∀ (e : Entry), e.prio = p → insertE e (e0 :: removeKey k r) = e0 :: insertE e (removeKey k r) := by
            intro e he
            have : ¬ abv e.prio e.key e0.prio e0.key := by unfold abv; omega
            conv => lhs; unfold insertE
            rw [if_neg this]
          split
          · rw [h2 _ rfl]; exact targetOf_head_opaque _ _ c0 hc
          · rw [h2 _ rfl]; exact targetOf_head_opaque _ _ c0 hc

theorem stepColor_hw (s : LSt) (c : RGB) (fade p k st : Nat) (h : HwInv s) :
    sentTc (stepColor s c fade p k st).1 = (targetOf (stepColor s c fade p k st).1.stack).tc := by
  unfold stepColor
  split
  · exact schedule_sent _
  · rename_i hch
    simp only [Bool.not_eq_true] at hch
    show sentTc s = _
    rw [h.2]
    exact (addStack_target_of_no_change _ _ _ _ _ _ _ hch).symm

theorem stepRemove_hw (s : LSt) (k fade : Nat) (h : HwInv s) :
    sentTc (stepRemove s k fade).1 = (targetOf (stepRemove s k fade).1.stack).tc := by
  unfold stepRemove
  split
  · exact h.2
  · exact h.2
  · rename_i ch e tl hscan
    obtain ⟨A, hA, hkeys, ⟨e', tl', htl, hek⟩, hch⟩ := scanKey_spec k _ _ _ _ hscan
    simp only [List.cons.injEq] at htl
    obtain ⟨rfl, rfl⟩ := htl
    cases ch with
    | true => simp only [if_true]; exact schedule_sent _
    | false =>
      simp only [Bool.false_eq_true, if_false]
      obtain hop := hch rfl rfl
      have hsorted : SortedU (A ++ e :: tl) := hA ▸ h.1
      have habove : ∀ a ∈ A, ¬ abv e.prio k a.prio a.key := by
        intro a ha
        have := (List.pairwise_append.mp hsorted).2.2 a ha e List.mem_cons_self
        rw [← hek]
        exact abv_asymm this.1
      have hrm : removeKey k s.stack = A ++ removeKey k (e :: tl) := by
        rw [hA]; exact removeKey_append_absent k A _ hkeys
      by_cases hf : (if e.destC.isNone = true then 0 else fade) = 0
      · simp only [hf, if_true]
        show sentTc s = (targetOf (removeKey k s.stack)).tc
        rw [h.2, hrm, hA, targetOf_prefix A _ _ hop]
      · simp only [hf, if_false]
        show sentTc s = (targetOf (insertE _ (removeKey k s.stack))).tc
        rw [h.2, hrm, insertE_append _ A _ habove, targetOf_prefix A _ (e :: tl) hop, ← hA]

theorem stepFire_hw (s : LSt) (k : Nat) (h : HwInv s) :
    sentTc ((stepFire s k).getD (s, [])).1 = (targetOf ((stepFire s k).getD (s, [])).1.stack).tc := by
  unfold stepFire
  split
  · simp only
    split
    · exact h.2
    · rename_i ch hscan
      cases ch with
      | true => simp only [if_true, Option.getD_some]; exact schedule_sent _
      | false =>
        simp only [Bool.false_eq_true, if_false, Option.getD_some]
        obtain ⟨A, B, hA, hkeep, hch⟩ := scanGhost_spec k _ _ _ hscan
        obtain hop := hch rfl rfl
        show sentTc s = (targetOf (s.stack.filter (fun e => decide (e.key ≠ k) || e.destC.isSome))).tc
        rw [h.2, hA, List.filter_append]
        have : A.filter (fun e => decide (e.key ≠ k) || e.destC.isSome) = A := by
          rw [List.filter_eq_self]
          intro a ha
          have := hkeep a ha
          cases hc : a.destC with
          | some c => simp
          | none =>
            simp only [hc, Option.isNone_none, and_true] at this
            simp [this]
        rw [this, targetOf_prefix A B _ hop]
  · exact h.2

theorem step_hwinv (s : LSt) (o : Op) (h : HwInv s) : HwInv (step s o).1 := by
  refine ⟨step_sorted s o h.1, ?_⟩
  cases o with
  | adv t => exact h.2
  | color c fade p k st => exact stepColor_hw s c fade p k st h
  | remove k fade => exact stepRemove_hw s k fade h
  | clear => exact schedule_sent _
  | fire k => exact stepFire_hw s k h

end MpfVerif.Light

namespace MpfVerif.Light

/-- every fade-out entry on the stack has its own pending removal delay, due exactly at the end of its fade —
however many keys are fading out at the same time -/
def GhostTimers (s : LSt) : Prop := ∀ e ∈ s.stack, e.destC = none → (e.key, e.destT) ∈ s.timers

theorem schedule_timers (s : LSt) : (schedule s).1.timers = s.timers := by
  unfold schedule
  cases s.last with
  | none => rfl
  | some l =>
    simp only
    split
    · rfl
    · split <;> rfl

theorem ghostTimers_of_eq (s s' : LSt) (hs : s'.stack = s.stack) (ht : s'.timers = s.timers) (h : GhostTimers s) :
    GhostTimers s' := by
  unfold GhostTimers; rw [hs, ht]; exact h

theorem schedule_ghost (s : LSt) (h : GhostTimers s) : GhostTimers (schedule s).1 :=
  ghostTimers_of_eq s _ (schedule_stack s) (schedule_timers s) h

theorem ghost_remove (s : LSt) (k : Nat) (h : GhostTimers s) : GhostTimers { s with stack := removeKey k s.stack } := by
  intro x hx hc
  exact h x (List.mem_filter.mp hx).1 hc

theorem ghost_insert (s : LSt) (g : Entry) (k : Nat) (hk : g.key = k) (h : GhostTimers s) :
    GhostTimers { s with stack := insertE g (removeKey k s.stack),
                         timers := (k, g.destT) :: s.timers.filter (fun t => decide (t.1 ≠ k)) } := by
  intro x hx hc
  simp only at hx
  rcases (mem_insertE _ _ _).mp hx with rfl | hx
  · rw [hk]; exact List.mem_cons_self
  · have hne := removeKey_keys k s.stack x hx
    exact List.mem_cons_of_mem _ (List.mem_filter.mpr ⟨h x (List.mem_filter.mp hx).1 hc, by simpa using hne⟩)

theorem ghost_fire (s : LSt) (k : Nat) (h : GhostTimers s) :
    GhostTimers { s with timers := s.timers.filter (fun t => decide (t.1 ≠ k)),
                         stack := s.stack.filter (fun e => decide (e.key ≠ k) || e.destC.isSome) } := by
  intro e he hc
  have hm := List.mem_filter.mp he
  have hne : e.key ≠ k := by simpa [hc] using hm.2
  exact List.mem_filter.mpr ⟨h e hm.1 hc, by simpa using hne⟩

theorem scanGhost_none (k : Nat) : ∀ (l : List Entry) (ch : Bool), scanGhost k l ch = none →
    ∀ x ∈ l, ¬ (x.key = k ∧ x.destC.isNone = true) := by
  intro l
  induction l with
  | nil => intro _ _ x hx; simp at hx
  | cons y r ih =>
    intro ch hsc x hx
    unfold scanGhost at hsc
    split at hsc
    · simp at hsc
    · rename_i hy
      rcases List.mem_cons.mp hx with rfl | hx
      · exact hy
      · exact ih _ hsc x hx

theorem step_ghostTimers (s : LSt) (o : Op) (h : GhostTimers s) : GhostTimers (step s o).1 := by
  cases o with
  | adv t => exact h
  | color c fade p k st =>
    show GhostTimers (stepColor s c fade p k st).1
    have key : GhostTimers { s with stack := addStack s.now c fade p k st s.stack } := by
      intro e he hc
      simp only at he
      unfold addStack at he
      split at he
      · exact h e he hc
      · rcases (mem_insertE _ _ _).mp he with rfl | he
        · split at hc <;> simp at hc
        · exact h e (List.mem_filter.mp he).1 hc
    unfold stepColor
    split
    · exact schedule_ghost _ key
    · exact key
  | remove k fade =>
    show GhostTimers (stepRemove s k fade).1
    unfold stepRemove
    split
    · exact h
    · exact h
    · rename_i ch e tl _
      by_cases hf : (if e.destC.isNone = true then 0 else fade) = 0
      · simp only [hf, if_true]
        split
        · exact schedule_ghost _ (ghost_remove s k h)
        · exact ghost_remove s k h
      · simp only [hf, if_false]
        split
        · exact schedule_ghost _ (ghost_insert s _ k rfl h)
        · exact ghost_insert s _ k rfl h
  | clear =>
    show GhostTimers (schedule { s with stack := [] }).1
    exact schedule_ghost _ (by intro e he; simp at he)
  | fire k =>
    show GhostTimers ((stepFire s k).getD (s, [])).1
    unfold stepFire
    split
    · simp only
      split
      · rename_i hscan
        intro e he hc
        have hne : e.key ≠ k := fun hk => scanGhost_none k _ _ hscan e he ⟨hk, by simp [hc]⟩
        exact List.mem_filter.mpr ⟨h e he hc, by simpa using hne⟩
      · split
        · simp only [Option.getD_some]; exact schedule_ghost _ (ghost_fire s k h)
        · exact ghost_fire s k h
    · exact h

end MpfVerif.Light
