import MpfVerif.Model.QueueEvent
import MpfVerif.Lemmas.EventBus
/-! # Lemmas for C02: dispatch tasks of queue events; relay / boolean folds of `_run_handlers` -/
namespace MpfVerif.QueueEvent

/-- serials of the callbacks logged so far -/
def cbs (log : List Obs) : List Nat := log.filterMap (fun o => match o with | .cb _ sn _ => some sn | _ => none)

/-- keys of the handlers invoked so far (sync and coroutine handlers) -/
def callKeys (log : List Obs) : List Nat :=
  log.filterMap (fun o => match o with | .call k _ _ _ _ => some k | .acall k _ _ _ _ => some k | _ => none)

theorem clearCell_log (st : St) (c : Nat) : cbs (clearCell st c).log = cbs st.log ∧ callKeys (clearCell st c).log = callKeys st.log := by
  unfold clearCell
  simp only
  split
  · simp [cbs, callKeys, List.filterMap_append]
  · split <;> simp

theorem waitCell_log (st : St) (c : Nat) : cbs (waitCell st c).log = cbs st.log ∧ callKeys (waitCell st c).log = callKeys st.log := by
  unfold waitCell
  simp only
  split
  · simp [cbs, callKeys, List.filterMap_append]
  · simp

theorem runAct_log (own passed : Option Nat) (st : St) (a : Act) :
    cbs (runAct own passed st a).log = cbs st.log ∧ callKeys (runAct own passed st a).log = callKeys st.log := by
  cases a with
  | wait => cases own <;> simp [runAct, waitCell_log]
  | clearOwn => cases own <;> simp [runAct, clearCell_log]
  | clearPassed => cases passed <;> simp [runAct, clearCell_log]
  | postQueue ev cb pass kw => simp only [runAct]; split <;> simp
  | add ev h => simp [runAct]
  | remove ev k => simp [runAct]
  | replace ev h => simp [runAct]
  | removeFn pid => simp [runAct]
  | removeEvFn ev pid => simp [runAct]
  | cancelCoro k => simp [runAct]
  | resolveWait w =>
    simp only [runAct]
    split <;> simp [cbs, callKeys, List.filterMap_append]
  | cancelWait w => simp only [runAct]; split <;> simp
  | stop => simp [runAct, stopAll]

theorem runActs_log (own passed : Option Nat) (st : St) (acts : List Act) :
    cbs (runActs own passed st acts).log = cbs st.log ∧ callKeys (runActs own passed st acts).log = callKeys st.log := by
  induction acts generalizing st with
  | nil => simp [runActs]
  | cons a r ih =>
    simp only [runActs]
    have h1 := runAct_log own passed st a
    have h2 := ih (runAct own passed st a)
    exact ⟨h2.1.trans h1.1, h2.2.trans h1.2⟩

theorem runCallback_log (progs : Nat → Prog) (st : St) (pid sn : Nat) (passed : Option Nat) (kw : Kw) :
    cbs (runCallback progs st pid sn passed kw).log = cbs st.log ++ [sn] ∧
    callKeys (runCallback progs st pid sn passed kw).log = callKeys st.log := by
  unfold runCallback
  have h := runActs_log none passed { st with log := st.log ++ [Obs.cb pid sn kw] } (progs pid).acts
  rw [h.1, h.2]
  simp [cbs, callKeys, List.filterMap_append]

theorem getCell_setCell (cells : List Cell) (i : Nat) (c : Cell) (h : i < cells.length) :
    getCell (setCell cells i c) i = c := by
  induction cells generalizing i with
  | nil => simp at h
  | cons x r ih =>
    cases i with
    | zero => simp [setCell, getCell]
    | succ n =>
      have := ih n (by simpa using h)
      simpa [setCell, getCell] using this

/-- the handlers of a snapshot that are actually called for a post with kwargs `kw`: those whose condition holds on the
merged kwargs -/
def eligible (kw : Kw) (hs : List Handler) : List Handler := hs.filter (fun h => condHolds h.cond (kwUpdate kw h.kw))

/-- What one scheduler step of a dispatch task does, for every handler program: it invokes the eligible handlers of a
prefix of the remaining snapshot, in order; either it reaches the end, logs the callback exactly once and is done, or it
stops right behind the first handler that left its wait registered and sleeps — the rest of the snapshot untouched, no
callback. -/
theorem runTask_spec (progs : Nat → Prog) (t : Task) (hs : List Handler) (st : St) :
    (∃ pre post, hs = pre ++ post ∧
      callKeys (runTask progs t hs st).1.log = callKeys st.log ++ (eligible t.kw pre).map (·.key) ∧
      (((runTask progs t hs st).2.done = true ∧ post = [] ∧ (runTask progs t hs st).2.awaiting = none ∧
          cbs (runTask progs t hs st).1.log = cbs st.log ++ [t.sn]) ∨
       ((runTask progs t hs st).2.done = t.done ∧ eligible t.kw pre ≠ [] ∧ (runTask progs t hs st).2.rest = some post ∧
          (∃ c e, (runTask progs t hs st).2.awaiting = some (c, e)) ∧
          cbs (runTask progs t hs st).1.log = cbs st.log))) := by
  induction hs generalizing st with
  | nil =>
    refine ⟨[], [], rfl, ?_, Or.inl ?_⟩
    · simp [runTask, eligible, (runCallback_log progs st t.cb t.sn t.passed t.kw).2]
    · simp [runTask, (runCallback_log progs st t.cb t.sn t.passed t.kw).1]
  | cons h hs ih =>
    rw [runTask]
    by_cases hc : condHolds h.cond (kwUpdate t.kw h.kw) = true
    · simp only [hc, Bool.not_true, Bool.false_eq_true, if_false]
      -- the state after the handler body
      generalize hst1 : (if (progs h.pid).async = true then
          waitCell { st with cells := st.cells ++ [{}], log := st.log ++
            [if (progs h.pid).async = true then Obs.acall h.key t.ev t.sn st.cells.length (kwUpdate t.kw h.kw)
             else Obs.call h.key t.ev t.sn st.cells.length (kwUpdate t.kw h.kw)] } st.cells.length
        else runActs (some st.cells.length) none { st with cells := st.cells ++ [{}], log := st.log ++
            [if (progs h.pid).async = true then Obs.acall h.key t.ev t.sn st.cells.length (kwUpdate t.kw h.kw)
             else Obs.call h.key t.ev t.sn st.cells.length (kwUpdate t.kw h.kw)] }
            (progs h.pid).acts) = st1
      have hlog : cbs st1.log = cbs st.log ∧ callKeys st1.log = callKeys st.log ++ [h.key] := by
        rw [← hst1]
        split
        · rename_i ha
          rw [(waitCell_log _ _).1, (waitCell_log _ _).2]
          simp [cbs, callKeys, List.filterMap_append]
        · rename_i ha
          rw [(runActs_log _ _ _ _).1, (runActs_log _ _ _ _).2]
          simp [cbs, callKeys, List.filterMap_append]
      split
      · -- the handler left its wait registered: sleep
        refine ⟨[h], hs, rfl, ?_, Or.inr ⟨rfl, by simp [eligible, hc], rfl, ⟨_, _, rfl⟩, ?_⟩⟩
        · simpa [eligible, hc] using hlog.2
        · simpa using hlog.1
      · obtain ⟨pre, post, hsplit, hkeys, hcase⟩ := ih st1
        refine ⟨h :: pre, post, by rw [hsplit]; rfl, ?_, ?_⟩
        · rw [hkeys, hlog.2]; simp [eligible, hc]
        · rcases hcase with ⟨hd, hp, ha, hcb⟩ | ⟨hd, hp, hr, ha, hcb⟩
          · exact Or.inl ⟨hd, hp, ha, by rw [hcb, hlog.1]⟩
          · exact Or.inr ⟨hd, by simp [eligible, hc], hr, ha, by rw [hcb, hlog.1]⟩
    · -- condition false: `continue`
      have hc' : condHolds h.cond (kwUpdate t.kw h.kw) = false := by simpa using hc
      simp only [hc', Bool.not_false, if_true]
      obtain ⟨pre, post, hsplit, hkeys, hcase⟩ := ih st
      refine ⟨h :: pre, post, by rw [hsplit]; rfl, ?_, ?_⟩
      · rw [hkeys]; simp [eligible, hc']
      · rcases hcase with ⟨hd, hp, ha, hcb⟩ | ⟨hd, hp, hr, ha, hcb⟩
        · exact Or.inl ⟨hd, hp, ha, hcb⟩
        · refine Or.inr ⟨hd, ?_, hr, ha, hcb⟩
          simpa [eligible, hc'] using hp

end MpfVerif.QueueEvent
