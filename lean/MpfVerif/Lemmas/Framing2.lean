import MpfVerif.Model.Framing2
import MpfVerif.Lemmas.Framing
/-! Helper lemmas for the second part of C14 (`Model/Framing2.lean`). -/
namespace MpfVerif.Framing2
open MpfVerif.Framing

/-! ## delimiter automaton with handler -/

theorem dStep_line {α : Type} (d : Nat) (h : Bytes → List α) (l : Bytes) :
    ∀ buf : Bytes, d ∉ l → feed (dStep d h) buf l = (buf ++ l, []) := by
  induction l with
  | nil => intro buf _; simp [feed]
  | cons b r ih =>
    intro buf hd
    have hb : b ≠ d := fun e => hd (by simp [e])
    have hr : d ∉ r := fun e => hd (List.mem_cons_of_mem _ e)
    simp only [feed, dStep, hb, if_false]
    rw [ih (buf ++ [b]) hr]
    simp

theorem dStep_frame {α : Type} (d : Nat) (h : Bytes → List α) (buf l : Bytes) (hd : d ∉ l) :
    feed (dStep d h) buf (l ++ [d]) = ([], h (buf ++ l)) := by
  rw [Framing.feed_append, dStep_line d h l buf hd]
  simp [feed, dStep]

theorem dStep_frames {α : Type} (d : Nat) (h : Bytes → List α) (fs : List Bytes) (hd : ∀ f ∈ fs, d ∉ f) :
    feed (dStep d h) [] (fs.flatMap (· ++ [d])) = ([], fs.flatMap h) := by
  induction fs with
  | nil => rfl
  | cons f r ih =>
    simp only [List.flatMap_cons]
    rw [Framing.feed_append, dStep_frame d h [] f (hd f List.mem_cons_self)]
    simp only [List.nil_append]
    rw [ih (fun g hg => hd g (List.mem_cons_of_mem _ hg))]

/-! ## PKONE -/

theorem pk_line (l : Bytes) : ∀ s : PKSt, 69 ∉ l → feed pkStep s l = ({ s with buf := s.buf ++ l }, []) := by
  induction l with
  | nil => intro s _; simp [feed]
  | cons b r ih =>
    intro s hd
    have hb : b ≠ 69 := fun e => hd (by simp [e])
    have hr : 69 ∉ r := fun e => hd (List.mem_cons_of_mem _ e)
    simp only [feed, pkStep, hb, if_false]
    rw [ih _ hr]
    simp

theorem pk_frame (s : PKSt) (f : Bytes) (hd : 69 ∉ f) :
    feed pkStep s (f ++ [69]) = (pkClose { s with buf := s.buf ++ f }, [pkDispatch (s.buf ++ f)]) := by
  rw [Framing.feed_append, pk_line f s hd]
  simp [feed, pkStep]

theorem pkApply_buf (s : PKSt) (o : PKObs) : (pkApply s o).buf = s.buf := by
  cases o <;> rfl

theorem pkClose_buf (s : PKSt) : (pkClose s).buf = [] := by
  simp [pkClose, pkApply_buf]

/-- the switch report a frame stands for -/
def swOf (f : Bytes) : Option (SwKey × Bool) :=
  match pkDispatch f with
  | .sw b n st => some ((b, n), st)
  | _ => none

theorem pkApply_table (s : PKSt) (o : PKObs) :
    (pkApply s o).table = (match o with | .sw b n st => [((b, n), st)] | _ => []) ++ s.table := by
  cases o <;> rfl

theorem pkClose_table (s : PKSt) : (pkClose s).table = (swOf s.buf).toList ++ s.table := by
  simp only [pkClose, pkApply_table, swOf]
  cases pkDispatch s.buf <;> rfl

theorem pk_frames_table (fs : List Bytes) : ∀ s : PKSt, s.buf = [] → (∀ f ∈ fs, 69 ∉ f) →
    (feed pkStep s (fs.flatMap (· ++ [69]))).1.table = (fs.filterMap swOf).reverse ++ s.table ∧
    (feed pkStep s (fs.flatMap (· ++ [69]))).1.buf = [] := by
  induction fs with
  | nil => intro s hb _; simp [feed, hb]
  | cons f r ih =>
    intro s hb hd
    simp only [List.flatMap_cons]
    rw [Framing.feed_append, pk_frame s f (hd f List.mem_cons_self)]
    simp only
    have h2 := ih (pkClose { s with buf := s.buf ++ f }) (pkClose_buf _) (fun g hg => hd g (List.mem_cons_of_mem _ hg))
    refine ⟨?_, h2.2⟩
    rw [h2.1, pkClose_table]
    simp only [hb, List.nil_append, List.filterMap_cons]
    cases swOf f <;> simp

theorem lookup_skip (k : SwKey) (l r : List (SwKey × Bool)) (h : ∀ e ∈ l, e.1 ≠ k) :
    lookupSw k (l ++ r) = lookupSw k r := by
  induction l with
  | nil => rfl
  | cons e t ih =>
    obtain ⟨k', v⟩ := e
    have : k' ≠ k := h (k', v) List.mem_cons_self
    simp only [List.cons_append, lookupSw, this, if_false]
    exact ih (fun e he => h e (List.mem_cons_of_mem _ he))

theorem pk_inflight (l : Bytes) : ∀ s : PKSt,
    (feed pkStep s l).1.inflight = s.inflight - l.count 69 ∧ (s.ready = true → (feed pkStep s l).1.ready = true) ∧
    (feed pkStep s l).1.readTask = s.readTask := by
  induction l with
  | nil => intro s; simp [feed]
  | cons b r ih =>
    intro s
    simp only [feed]
    by_cases hb : b = 69
    · have h1 : (pkStep s b).1 = pkClose s := by simp [pkStep, hb]
      have hi : (pkClose s).inflight = s.inflight - 1 := by
        simp only [pkClose]; cases pkDispatch s.buf <;> rfl
      have hr : s.ready = true → (pkClose s).ready = true := by
        intro h; simp only [pkClose]; cases pkDispatch s.buf <;> simp [pkApply, h]
      have ht : (pkClose s).readTask = s.readTask := by
        simp only [pkClose]; cases pkDispatch s.buf <;> rfl
      have := ih (pkClose s)
      rw [h1]
      refine ⟨?_, fun h => this.2.1 (hr h), by rw [this.2.2, ht]⟩
      rw [this.1, hi, hb]
      simp only [List.count_cons_self]
      omega
    · have h1 : (pkStep s b).1 = { s with buf := s.buf ++ [b] } := by simp [pkStep, hb]
      have := ih { s with buf := s.buf ++ [b] }
      rw [h1]
      refine ⟨?_, this.2.1, this.2.2⟩
      rw [this.1]
      have : (b == 69) = false := by simp [hb]
      simp [List.count_cons, this]

/-! ## OPP initialisation -/

theorem readUntil_body (sep min : Nat) (body rest : Bytes) : ∀ acc : Bytes, acc.length + body.length = min →
    readUntil sep min acc (body ++ sep :: rest) = some (acc ++ body ++ [sep], rest) := by
  induction body with
  | nil =>
    intro acc h
    simp only [List.nil_append, readUntil, List.length_append, List.length_cons, List.length_nil, List.append_nil]
    simp only [List.length_nil, Nat.add_zero] at h
    simp [h]
  | cons b r ih =>
    intro acc h
    simp only [List.cons_append, readUntil, List.length_append, List.length_cons, List.length_nil]
    simp only [List.length_cons] at h
    have : ¬ (b = sep ∧ min < acc.length + (0 + 1)) := by omega
    simp only [this, if_false]
    rw [ih (acc ++ [b]) (by simp; omega)]
    simp

/-- a response of one card: address, command, four payload bytes, CRC -/
def enc (cmd : Nat) (c : Nat × Bytes) : Bytes :=
  match c.2 with
  | [w0, w1, w2, w3] => [c.1, cmd, w0, w1, w2, w3, crc8 [c.1, cmd, w0, w1, w2, w3]]
  | _ => []

def WfCard (c : Nat × Bytes) : Prop := isAddr c.1 = true ∧ c.2.length = 4

theorem wf_enc (cmd : Nat) (c : Nat × Bytes) (h : WfCard c) :
    ∃ w0 w1 w2 w3, c = (c.1, [w0, w1, w2, w3]) ∧
      enc cmd c = [c.1, cmd, w0, w1, w2, w3, crc8 [c.1, cmd, w0, w1, w2, w3]] := by
  obtain ⟨a, p⟩ := c
  obtain ⟨_, hl⟩ := h
  match p, hl with
  | [w0, w1, w2, w3], _ => exact ⟨w0, w1, w2, w3, rfl, rfl⟩

theorem isAddr_ne_255 (a : Nat) (h : isAddr a = true) : a ≠ 255 := by
  intro e; subst e; simp [isAddr] at h

theorem multi_all (cmd : Nat) (cs : List (Nat × Bytes)) : ∀ c : Nat × Bytes, WfCard c → (∀ x ∈ cs, WfCard x) →
    multiParse cmd ((c :: cs).flatMap (enc cmd) ++ [255]) = (c :: cs, .ok) := by
  induction cs with
  | nil =>
    intro c hc _
    obtain ⟨w0, w1, w2, w3, e1, e2⟩ := wf_enc cmd c hc
    rw [e1] at e2 ⊢
    simp only [List.flatMap_cons, List.flatMap_nil, List.append_nil, e2]
    simp [multiParse]
  | cons d r ih =>
    intro c hc hall
    obtain ⟨w0, w1, w2, w3, e1, e2⟩ := wf_enc cmd c hc
    have hd : WfCard d := hall d List.mem_cons_self
    obtain ⟨v0, v1, v2, v3, f1, f2⟩ := wf_enc cmd d hd
    have hrec := ih d hd (fun x hx => hall x (List.mem_cons_of_mem _ hx))
    have hne : d.1 ≠ 255 := isAddr_ne_255 _ hd.1
    rw [List.flatMap_cons, e2, List.append_assoc]
    generalize hrest : (d :: r).flatMap (enc cmd) ++ [255] = rest at hrec
    have hshape : ∃ t, rest = d.1 :: cmd :: t := by
      rw [← hrest, List.flatMap_cons, f2]; exact ⟨_, rfl⟩
    obtain ⟨t, ht⟩ := hshape
    rw [e1]
    simp only [List.cons_append, List.nil_append]
    rw [ht] at hrec ⊢
    simp only [multiParse, ne_eq, not_true_eq_false, if_false, hne, if_true]
    rw [hrec]

theorem multi_bad_crc (cmd : Nat) (pre : List (Nat × Bytes)) :
    ∀ (a w0 w1 w2 w3 k : Nat) (tail : Bytes), (∀ x ∈ pre, WfCard x) → isAddr a = true →
    crc8 [a, cmd, w0, w1, w2, w3] ≠ k →
    multiParse cmd (pre.flatMap (enc cmd) ++ [a, cmd, w0, w1, w2, w3, k] ++ tail) = (pre, .crc) := by
  induction pre with
  | nil =>
    intro a w0 w1 w2 w3 k tail _ _ hk
    simp [multiParse, hk]
  | cons d r ih =>
    intro a w0 w1 w2 w3 k tail hall ha hk
    have hd : WfCard d := hall d List.mem_cons_self
    obtain ⟨v0, v1, v2, v3, f1, f2⟩ := wf_enc cmd d hd
    have hrec := ih a w0 w1 w2 w3 k tail (fun x hx => hall x (List.mem_cons_of_mem _ hx)) ha hk
    rw [List.flatMap_cons, f2, List.append_assoc, List.append_assoc]
    generalize hrest : r.flatMap (enc cmd) ++ ([a, cmd, w0, w1, w2, w3, k] ++ tail) = rest at hrec
    rw [List.append_assoc] at hrec
    rw [hrest] at hrec
    have hshape : ∃ x t, rest = x :: cmd :: t ∧ x ≠ 255 := by
      cases r with
      | nil => rw [← hrest]; exact ⟨a, _, rfl, isAddr_ne_255 _ ha⟩
      | cons e r' =>
        have he : WfCard e := hall e (List.mem_cons_of_mem _ List.mem_cons_self)
        obtain ⟨u0, u1, u2, u3, g1, g2⟩ := wf_enc cmd e he
        rw [← hrest, List.flatMap_cons, g2]
        exact ⟨e.1, _, rfl, isAddr_ne_255 _ he.1⟩
    obtain ⟨x, t, ht, hx⟩ := hshape
    rw [ht] at hrec ⊢
    rw [f1]
    simp only [List.cons_append, List.nil_append, multiParse, ne_eq, not_true_eq_false, if_false, hx, if_true]
    rw [hrec]

/-! ## callers behind the gate -/

def gCalls (s : GSt) : List Nat := (s.written.filter (·.1)).map (·.2) ++ s.waiting

/-- nobody waits before an open gate -/
def GInv (s : GSt) : Prop := s.gate = true → s.waiting = []

theorem filter_true_map (l : List Nat) :
    ((l.map (fun k => ((true, k) : Bool × Nat))).filter (·.1)).map (·.2) = l := by
  induction l with
  | nil => rfl
  | cons a r ih => simp [ih]

theorem gStep_inv (s : GSt) (o : GOp) (h : GInv s) : GInv (gStep s o) := by
  cases o with
  | call k =>
    by_cases hg : s.gate = true
    · simp [gStep, hg, GInv]
    · intro h2; simp [gStep, hg] at h2
  | forget k => exact h
  | resp => intro _; rfl

theorem gStep_fifo (s : GSt) (o : GOp) (h : GInv s) : gCalls (gStep s o) = gCalls s ++ callIds [o] := by
  cases o with
  | call k =>
    by_cases hg : s.gate = true
    · have hw := h hg
      simp [gStep, hg, gCalls, callIds, List.filter_append, hw]
    · simp [gStep, hg, gCalls, callIds]
  | forget k => simp [gStep, gCalls, callIds, List.filter_append]
  | resp =>
    simp only [gStep, gCalls, callIds, List.filter_append, List.map_append, List.append_nil]
    rw [filter_true_map]

theorem callIds_cons (o : GOp) (r : List GOp) : callIds (o :: r) = callIds [o] ++ callIds r := by
  cases o <;> simp [callIds]

theorem gRun_fifo (ops : List GOp) : ∀ s : GSt, GInv s → gCalls (gRun s ops) = gCalls s ++ callIds ops := by
  induction ops with
  | nil => intro s _; simp [gRun, callIds]
  | cons o r ih =>
    intro s h
    simp only [gRun]
    rw [ih _ (gStep_inv s o h), gStep_fifo s o h, callIds_cons o r, List.append_assoc]

end MpfVerif.Framing2
