import MpfVerif.Model.Game
/-! # Lemmas for C06: what one resumption of the game coroutine does; invariants over op sequences -/
namespace MpfVerif.Game

/-- the follow relation of the lifecycle grammar
`game_will_start game_starting game_started turn* game_will_end game_ending game_ended`,
`turn = player_turn_will_start player_turn_starting player_turn_started ball* player_turn_will_end .._ending .._ended`,
`ball = ball_will_start ball_starting ball_started ball_will_end ball_ending ball_ended` -/
def follows : Ev → Ev → Bool
  | .gws, .gsg | .gsg, .gsd | .gsd, .ptws | .gsd, .gwe => true
  | .ptws, .ptsg | .ptsg, .ptsd | .ptsd, .bws | .ptsd, .ptwe => true
  | .bws, .bsg | .bsg, .bsd | .bsd, .bwe | .bwe, .beg | .beg, .bed => true
  | .bed, .bws | .bed, .ptwe | .ptwe, .pteg | .pteg, .pted => true
  | .pted, .ptws | .pted, .gwe | .gwe, .geg | .geg, .ged => true
  | _, _ => false

def tr (st : St) : List Ev := st.log.map (·.1)

def startOk : Option Ev → Ev → Bool
  | none, e => e == .gws
  | some .ged, e => e == .gws          -- a new game after the previous one ended
  | some p, e => follows p e

def okFrom : Option Ev → List Ev → Bool
  | _, [] => true
  | prev, e :: r => startOk prev e && okFrom (some e) r

def lastOf : Option Ev → List Ev → Option Ev
  | p, [] => p
  | _, e :: r => lastOf (some e) r

theorem okFrom_snoc (p : Option Ev) (l : List Ev) (e : Ev) :
    okFrom p (l ++ [e]) = (okFrom p l && startOk (lastOf p l) e) := by
  induction l generalizing p with
  | nil => simp [okFrom, lastOf]
  | cons x r ih => simp [okFrom, lastOf, ih, Bool.and_assoc]

theorem lastOf_snoc (p : Option Ev) (l : List Ev) (e : Ev) : lastOf p (l ++ [e]) = some e := by
  induction l generalizing p with
  | nil => simp [lastOf]
  | cons x r ih => simp [lastOf, ih]

@[simp] theorem emit_pc (st : St) (e : Ev) : (emit st e).pc = some e := rfl
@[simp] theorem emit_tr (st : St) (e : Ev) : tr (emit st e) = tr st ++ [e] := by simp [tr, emit]
@[simp] theorem emit_bip (st : St) (e : Ev) : (emit st e).bip = st.bip := rfl
@[simp] theorem emit_known (st : St) (e : Ev) : (emit st e).known = st.known := rfl
@[simp] theorem emit_ending (st : St) (e : Ev) : (emit st e).ending = st.ending := rfl

theorem setBipTo_le (st : St) (v : Int) : (setBipTo st v).bip ≤ st.known := by
  simp only [setBipTo]
  split
  · exact Nat.le_refl _
  · split
    · exact Nat.zero_le _
    · omega

@[simp] theorem setBipTo_known (st : St) (v : Int) : (setBipTo st v).known = st.known := rfl
@[simp] theorem setBipTo_pc (st : St) (v : Int) : (setBipTo st v).pc = st.pc := rfl
@[simp] theorem setBipTo_ending (st : St) (v : Int) : (setBipTo st v).ending = st.ending := rfl
@[simp] theorem setBipTo_tr (st : St) (v : Int) : tr (setBipTo st v) = tr st := rfl

/-- What one resumption of `_run` does: it posts exactly one lifecycle event, which the grammar allows after the event
awaited before; `ball_will_end` only when the end-of-ball event is set; with `ending` set never `ball_will_start`, and
`ending` stays set; `balls_in_play` stays within 0..num_balls_known. -/
theorem resume_spec (st st' : St) (h : resume st = some st') :
    ∃ p e, st.pc = some p ∧ st'.pc = some e ∧ tr st' = tr st ++ [e] ∧ follows p e = true ∧
      (e = .bwe → st.endEv = true) ∧
      (st.ending = true → e ≠ .bws ∧ st'.ending = true) ∧
      st'.known = st.known ∧ (st.bip ≤ st.known → st'.bip ≤ st'.known) := by
  unfold resume at h
  have hb := setBipTo_le st 1
  cases hp : st.pc with
  | none => simp [hp] at h
  | some p =>
    refine ⟨p, ?_⟩
    cases p
    case gsd | pted =>
      by_cases he : st.ending = true <;> by_cases hs : st.slam = true <;> by_cases hl : st.balls st.cur ≥ st.bpg <;>
        simp [hp, he, hs, hl, loopCheck] at h <;> (try split at h) <;> (try simp at h) <;> subst h <;>
        simp [follows, he, tr, emit]
    case ptsd | bed =>
      by_cases he : st.ending = true <;> by_cases hs : st.slam = true <;> by_cases hx : st.extra st.cur > 0 <;>
        simp [hp, he, hs, hx, extraCheck, startBall] at h <;> subst h <;> simp [follows, he, tr, emit]
    case bsd =>
      by_cases hev : st.endEv = true <;> simp [hp, hev] at h
      subst h
      simp [follows, hev, tr, emit]
    case ged => simp [hp] at h
    case gsg =>
      by_cases h0 : st.players = 0 <;> simp [hp, h0] at h <;> subst h <;> simp [follows, tr, emit]
    case bsg =>
      simp [hp] at h; subst h
      refine ⟨.bsd, rfl, rfl, ?_, rfl, ?_, ?_, rfl, fun _ => hb⟩
      · simp [tr, emit, setBipTo]
      · intro hx; cases hx
      · intro he; exact ⟨by simp, he⟩
    all_goals (simp [hp] at h; subst h; simp [follows, tr, emit])
    all_goals (try (intro h1; omega))
    all_goals (try (intro _; exact hb))


def pcOk (st : St) : Prop :=
  match st.pc with
  | some e => lastOf none (tr st) = some e
  | none => lastOf none (tr st) = none ∨ lastOf none (tr st) = some .ged

structure GInv (st : St) : Prop where
  chain : okFrom none (tr st) = true
  pc : pcOk st
  bip : st.bip ≤ st.known

/-- env requests do not touch the trace or the pc -/
theorem ginv_env (st st' : St) (hI : GInv st) (ht : tr st' = tr st) (hpc : st'.pc = st.pc) (hb : st'.bip ≤ st'.known) :
    GInv st' := by
  refine ⟨by rw [ht]; exact hI.chain, ?_, hb⟩
  have := hI.pc
  unfold pcOk at *
  rw [hpc, ht]
  exact this

theorem step_ginv (st st' : St) (op : Op) (hI : GInv st) (h : step st op = some st') : GInv st' ∧ st'.known = st.known := by
  cases op with
  | start =>
    simp only [step] at h
    split at h
    · cases h
    · rename_i hn
      cases h
      have hpn : st.pc = none := by cases hx : st.pc <;> simp [hx] at hn ⊢
      have hl := hI.pc
      simp only [pcOk, hpn] at hl
      have e1 : ∀ s : St, s.log = st.log → tr s = tr st := fun s h => by simp [tr, h]
      refine ⟨⟨?_, ?_, by simp [emit]⟩, rfl⟩
      · have hc := hI.chain
        rw [emit_tr]
        simp only [tr] at hc hl ⊢
        rw [okFrom_snoc, hc]
        rcases hl with hl | hl <;> simp [hl, startOk]
      · simp only [pcOk, emit_pc]
        rw [emit_tr, lastOf_snoc]
  | resume =>
    simp only [step] at h
    obtain ⟨p, e, hp, hpe, htr, hf, _, _, hk, hb⟩ := resume_spec st st' h
    have hl := hI.pc
    simp only [pcOk, hp] at hl
    refine ⟨⟨?_, ?_, hb (hI.bip)⟩, hk⟩
    · rw [htr, okFrom_snoc, hI.chain, hl]
      cases p <;> simp [startOk, hf] <;> simp [follows] at hf
    · simp only [pcOk, hpe, htr, lastOf_snoc]
  | endBall =>
    simp only [step] at h; split at h
    · cases h
    · cases h; exact ⟨ginv_env st _ hI rfl rfl hI.bip, rfl⟩
  | endGame =>
    simp only [step] at h; split at h
    · cases h
    · cases h; exact ⟨ginv_env st _ hI rfl rfl hI.bip, rfl⟩
  | slam =>
    simp only [step] at h; split at h
    · cases h
    · cases h; exact ⟨ginv_env st _ hI rfl rfl hI.bip, rfl⟩
  | setBip n =>
    simp only [step] at h; split at h
    · cases h
    · cases h; exact ⟨ginv_env st _ hI rfl rfl (setBipTo_le st n), rfl⟩
  | drain n =>
    simp only [step] at h; split at h
    · cases h
      split
      · exact ⟨hI, rfl⟩
      · exact ⟨ginv_env st _ hI rfl rfl (setBipTo_le st _), rfl⟩
    · cases h
  | extraBall =>
    simp only [step] at h; split at h
    · cases h
    · cases h; exact ⟨ginv_env st _ hI rfl rfl hI.bip, rfl⟩
  | addPlayer =>
    simp only [step] at h; split at h
    · cases h
    · split at h
      · cases h; exact ⟨hI, rfl⟩
      · cases h; exact ⟨ginv_env st _ hI rfl rfl hI.bip, rfl⟩
  | addAccepted =>
    simp only [step, stepAdd] at h; split at h
    · cases h
    · cases h; exact ⟨hI, rfl⟩
  | addRejected =>
    simp only [step, stepAdd] at h; split at h
    · cases h
    · cases h; exact ⟨hI, rfl⟩
  | playerAdded =>
    simp only [step, stepAdd] at h; split at h
    · cases h
    · cases h; exact ⟨ginv_env st _ hI rfl rfl hI.bip, rfl⟩
  | finish =>
    simp only [step] at h; split at h
    · rename_i hg
      cases h
      have hl := hI.pc
      simp only [pcOk, hg] at hl
      refine ⟨⟨hI.chain, ?_, hI.bip⟩, rfl⟩
      simp only [pcOk]
      exact Or.inr hl
    · cases h

theorem run_ginv (st : St) (ops : List Op) (hI : GInv st) : GInv (run st ops) ∧ (run st ops).known = st.known := by
  induction ops generalizing st with
  | nil => exact ⟨hI, rfl⟩
  | cons op r ih =>
    simp only [run]
    cases hs : step st op with
    | none => simpa using ih st hI
    | some st' =>
      obtain ⟨h1, h2⟩ := step_ginv st st' op hI hs
      obtain ⟨h3, h4⟩ := ih st' h1
      simp only [Option.getD_some]
      exact ⟨h3, h4.trans h2⟩

/-- no game yet: balls_per_game `b`, max_players `m`, num_balls_known `k` -/
def start0 (b m k : Nat) : St := { bpg := b, maxPlayers := m, known := k }

theorem start0_inv (b m k : Nat) : GInv (start0 b m k) := by
  refine ⟨by simp [start0, tr, okFrom], ?_, by simp [start0]⟩
  simp [pcOk, start0, tr, lastOf]

end MpfVerif.Game
