import MpfVerif.Model.Game
/-! # Lemmas for C06: what one resumption of the game coroutine does; invariants over op sequences -/
namespace MpfVerif.Game

/-- the follow relation of the lifecycle grammar
`game_will_start game_starting (game_started turn*)? game_will_end game_ending game_ended` (a game that is ended
while it is starting ends without having started),
`turn = player_turn_will_start player_turn_starting player_turn_started ball* player_turn_will_end .._ending .._ended`,
`ball = ball_will_start ball_starting ball_started ball_will_end ball_ending ball_ended` -/
def follows : Ev → Ev → Bool
  | .gws, .gsg | .gsg, .gsd | .gsg, .gwe | .gsd, .ptws | .gsd, .gwe => true
  | .ptws, .ptsg | .ptsg, .ptsd | .ptsd, .bws | .ptsd, .ptwe => true
  | .bws, .bsg | .bsg, .bsd | .bsd, .bwe | .bwe, .beg | .beg, .bed => true
  | .bed, .bws | .bed, .ptwe | .ptwe, .pteg | .pteg, .pted => true
  | .pted, .ptws | .pted, .gwe | .gwe, .geg | .geg, .ged => true
  | _, _ => false

def tr (st : St) : List Ev := st.log.map (·.1)

def startOk : Option Ev → Ev → Bool
  | none, e => e == .gws
  | some .ged, e => e == .gws          -- a new game after the previous one ended
  | some .abt, e => e == .gws          -- ... or was stopped from outside
  | some p, e => e == .abt || follows p e   -- the mode may be stopped from outside at any point of a running game

def okFrom : Option Ev → List Ev → Bool
  | _, [] => true
  | prev, e :: r => startOk prev e && okFrom (some e) r

def lastOf : Option Ev → List Ev → Option Ev
  | p, [] => p
  | _, e :: r => lastOf (some e) r

theorem okFrom_snoc (p : Option Ev) (l : List Ev) (e : Ev) :
    okFrom p (l ++ [e]) = (okFrom p l && startOk (lastOf p l) e) := by
  induction l generalizing p with
  | nil => simp [okFrom, lastOf]
  | cons x r ih => simp [okFrom, lastOf, ih, Bool.and_assoc]

theorem lastOf_snoc (p : Option Ev) (l : List Ev) (e : Ev) : lastOf p (l ++ [e]) = some e := by
  induction l generalizing p with
  | nil => simp [lastOf]
  | cons x r ih => simp [lastOf, ih]

@[simp] theorem emit_pc (st : St) (e : Ev) : (emit st e).pc = some e := rfl
@[simp] theorem emit_tr (st : St) (e : Ev) : tr (emit st e) = tr st ++ [e] := by simp [tr, emit]
@[simp] theorem emit_bip (st : St) (e : Ev) : (emit st e).bip = st.bip := rfl
@[simp] theorem emit_known (st : St) (e : Ev) : (emit st e).known = st.known := rfl
@[simp] theorem emit_ending (st : St) (e : Ev) : (emit st e).ending = st.ending := rfl

theorem setBipTo_le (st : St) (v : Int) : (setBipTo st v).bip ≤ st.known := by
  simp only [setBipTo]
  split
  · exact Nat.le_refl _
  · split
    · exact Nat.zero_le _
    · omega

@[simp] theorem setBipTo_known (st : St) (v : Int) : (setBipTo st v).known = st.known := rfl
@[simp] theorem setBipTo_pc (st : St) (v : Int) : (setBipTo st v).pc = st.pc := rfl
@[simp] theorem setBipTo_ending (st : St) (v : Int) : (setBipTo st v).ending = st.ending := rfl
@[simp] theorem setBipTo_tr (st : St) (v : Int) : tr (setBipTo st v) = tr st := rfl

/-- What one resumption of `_run` does: it posts exactly one lifecycle event, which the grammar allows after the event
awaited before; `ball_will_end` only when the end-of-ball event is set; with `ending` set never `ball_will_start`, and
`ending` stays set; `balls_in_play` stays within 0..num_balls_known. -/
theorem resume_spec (st st' : St) (h : resume st = some st') :
    ∃ p e, st.pc = some p ∧ st'.pc = some e ∧ tr st' = tr st ++ [e] ∧ follows p e = true ∧
      (e = .bwe → st.endEv = true) ∧
      (st.ending = true → e ≠ .bws ∧ st'.ending = true) ∧
      st'.known = st.known ∧ (st.bip ≤ st.known → st'.bip ≤ st'.known) := by
  unfold resume at h
  have hb := setBipTo_le st 1
  split at h
  · cases h
  cases hp : st.pc with
  | none => simp [hp] at h
  | some p =>
    refine ⟨p, ?_⟩
    cases p
    case gsd | pted =>
      by_cases he : st.ending = true <;> by_cases hs : st.slam = true <;> by_cases hl : st.balls st.cur ≥ st.bpg <;>
        simp [hp, he, hs, hl, loopCheck] at h <;> (try split at h) <;> (try simp at h) <;> subst h <;>
        simp [follows, he, tr, emit]
    case ptsd | bed =>
      by_cases he : st.ending = true <;> by_cases hs : st.slam = true <;> by_cases hx : st.extra st.cur > 0 <;>
        simp [hp, he, hs, hx, extraCheck, startBall] at h <;> subst h <;> simp [follows, he, tr, emit]
    case bsd =>
      by_cases hev : st.endEv = true <;> simp [hp, hev] at h
      subst h
      simp [follows, hev, tr, emit]
    case ged | abt => simp [hp] at h
    case gsg =>
      by_cases hc : st.checked = true <;> by_cases he : st.ending = true <;> by_cases h0 : st.players = 0 <;>
        simp [hp, hc, he, h0] at h <;> subst h <;> simp [follows, he, tr, emit]
    case bsg =>
      simp [hp] at h; subst h
      refine ⟨.bsd, rfl, rfl, ?_, rfl, ?_, ?_, rfl, fun _ => hb⟩
      · simp [tr, emit, setBipTo]
      · intro hx; cases hx
      · intro he; exact ⟨by simp, he⟩
    all_goals (simp [hp] at h; subst h; simp [follows, tr, emit])
    all_goals (try (intro h1; omega))
    all_goals (try (intro _; exact hb))

/-- what the tilt mode's requests leave alone: everything but `tilted`, `slam`, the end-of-ball event and the warnings -/
structure Frame (st st' : St) : Prop where
  pc : st'.pc = st.pc
  log : st'.log = st.log
  bip : st'.bip = st.bip
  known : st'.known = st.known
  bpg : st'.bpg = st.bpg
  balls : st'.balls = st.balls
  cur : st'.cur = st.cur
  players : st'.players = st.players
  pend : st'.pendAdds = st.pendAdds
  started : st'.started = st.started
  extra : st'.extra = st.extra
  firstBalls : st'.firstBalls = st.firstBalls
  awarded : st'.awarded = st.awarded
  ending : st'.ending = st.ending
  maxPlayers : st'.maxPlayers = st.maxPlayers

theorem tiltNow_frame (st : St) : Frame st (tiltNow st) := by
  unfold tiltNow
  split <;> constructor <;> rfl

theorem tiltWarn_frame (st : St) : Frame st (tiltWarn st) := by
  unfold tiltWarn
  split
  · constructor <;> rfl
  · split
    · have h := tiltNow_frame { st with warn := setAt st.warn st.cur (st.warn st.cur + 1) }
      exact ⟨h.pc, h.log, h.bip, h.known, h.bpg, h.balls, h.cur, h.players, h.pend, h.started, h.extra, h.firstBalls,
        h.awarded, h.ending, h.maxPlayers⟩
    · constructor <;> rfl

/-- the steps of the tilt mode, as a frame -/
theorem tilt_steps_frame (st st' : St) (op : Op)
    (hop : op = .tilt ∨ op = .slamTilt ∨ op = .tiltWarn ∨ op = .warnReset ∨ op = .tiltClear)
    (h : step st op = some st') : Frame st st' := by
  rcases hop with rfl | rfl | rfl | rfl | rfl
  · simp only [step] at h; split at h
    · cases h
    · cases h; exact tiltNow_frame st
  · simp only [step] at h; split at h
    · cases h
    · cases h
      have f := tiltNow_frame { st with slam := true }
      exact ⟨f.pc, f.log, f.bip, f.known, f.bpg, f.balls, f.cur, f.players, f.pend, f.started, f.extra, f.firstBalls,
        f.awarded, f.ending, f.maxPlayers⟩
  · simp only [step] at h; split at h
    · cases h
    · cases h; exact tiltWarn_frame st
  · simp only [step] at h; split at h
    · cases h
    · split at h <;> cases h <;> constructor <;> rfl
  · simp only [step] at h; split at h
    · cases h
    · cases h; constructor <;> rfl

def pcOk (st : St) : Prop :=
  match st.pc with
  | some e => lastOf none (tr st) = some e
  | none => lastOf none (tr st) = none ∨ lastOf none (tr st) = some .ged ∨ lastOf none (tr st) = some .abt

structure GInv (st : St) : Prop where
  chain : okFrom none (tr st) = true
  pc : pcOk st
  bip : st.bip ≤ st.known

/-- env requests do not touch the trace or the pc -/
theorem ginv_env (st st' : St) (hI : GInv st) (ht : tr st' = tr st) (hpc : st'.pc = st.pc) (hb : st'.bip ≤ st'.known) :
    GInv st' := by
  refine ⟨by rw [ht]; exact hI.chain, ?_, hb⟩
  have := hI.pc
  unfold pcOk at *
  rw [hpc, ht]
  exact this

theorem step_ginv (st st' : St) (op : Op) (hI : GInv st) (h : step st op = some st') : GInv st' := by
  have fr : ∀ s : St, Frame st s → GInv s := fun s f =>
    ginv_env st s hI (by simp [tr, f.log]) f.pc (by rw [f.bip, f.known]; exact hI.bip)
  cases op with
  | start =>
    simp only [step] at h
    split at h
    · cases h
    · rename_i hn
      cases h
      have hpn : st.pc = none := by cases hx : st.pc <;> simp [hx] at hn ⊢
      have hl := hI.pc
      simp only [pcOk, hpn] at hl
      have e1 : ∀ s : St, s.log = st.log → tr s = tr st := fun s h => by simp [tr, h]
      refine ⟨?_, ?_, by simp [emit]⟩
      · have hc := hI.chain
        rw [emit_tr]
        simp only [tr] at hc hl ⊢
        rw [okFrom_snoc, hc]
        rcases hl with hl | hl | hl <;> simp [hl, startOk]
      · simp only [pcOk, emit_pc]
        rw [emit_tr, lastOf_snoc]
  | resume =>
    simp only [step] at h
    obtain ⟨p, e, hp, hpe, htr, hf, _, _, hk, hb⟩ := resume_spec st st' h
    have hl := hI.pc
    simp only [pcOk, hp] at hl
    refine ⟨?_, ?_, hb (hI.bip)⟩
    · rw [htr, okFrom_snoc, hI.chain, hl]
      cases p <;> simp [startOk, hf] <;> simp [follows] at hf
    · simp only [pcOk, hpe, htr, lastOf_snoc]
  | endBall =>
    simp only [step] at h; split at h
    · cases h
    · cases h; exact ginv_env st _ hI rfl rfl hI.bip
  | endGame =>
    simp only [step] at h; split at h
    · cases h
    · cases h; exact ginv_env st _ hI rfl rfl hI.bip
  | slam =>
    simp only [step] at h; split at h
    · cases h
    · cases h; exact ginv_env st _ hI rfl rfl hI.bip
  | setBip n =>
    simp only [step] at h; split at h
    · cases h
    · cases h; exact ginv_env st _ hI rfl rfl (setBipTo_le st n)
  | drain n =>
    simp only [step] at h; split at h
    · cases h
      split
      · exact hI
      · exact ginv_env st _ hI rfl rfl (setBipTo_le st _)
    · cases h
  | extraBall =>
    simp only [step] at h; split at h
    · cases h
    · cases h; exact ginv_env st _ hI rfl rfl hI.bip
  | addPlayer =>
    simp only [step] at h; split at h
    · cases h
    · split at h
      · cases h; exact hI
      · cases h; exact ginv_env st _ hI rfl rfl hI.bip
  | addAccepted =>
    simp only [step, stepAdd] at h; split at h
    · cases h
    · cases h; exact ginv_env st _ hI rfl rfl hI.bip
  | startCheck =>
    simp only [step] at h; split at h
    · cases h; exact ginv_env st _ hI rfl rfl hI.bip
    · cases h
  | addRejected =>
    simp only [step, stepAdd] at h; split at h
    · cases h
    · cases h; exact hI
  | playerAdded =>
    simp only [step, stepAdd] at h; split at h
    · cases h
    · cases h; exact ginv_env st _ hI rfl rfl hI.bip
  | finish =>
    simp only [step] at h; split at h
    · rename_i hg
      cases h
      have hl := hI.pc
      simp only [pcOk, hg] at hl
      refine ⟨hI.chain, ?_, hI.bip⟩
      simp only [pcOk]
      exact Or.inr (Or.inl hl)
    · cases h
  | tilt => exact fr _ (tilt_steps_frame st st' _ (Or.inl rfl) h)
  | slamTilt => exact fr _ (tilt_steps_frame st st' _ (Or.inr (Or.inl rfl)) h)
  | tiltWarn => exact fr _ (tilt_steps_frame st st' _ (Or.inr (Or.inr (Or.inl rfl))) h)
  | warnReset => exact fr _ (tilt_steps_frame st st' _ (Or.inr (Or.inr (Or.inr (Or.inl rfl)))) h)
  | tiltClear => exact fr _ (tilt_steps_frame st st' _ (Or.inr (Or.inr (Or.inr (Or.inr rfl)))) h)
  | addVetoed =>
    simp only [step] at h; split at h
    · cases h
    · cases h; exact ginv_env st _ hI rfl rfl hI.bip
  | setKnown n =>
    simp only [step] at h; split at h
    · rename_i hn
      cases h
      exact ginv_env st _ hI rfl rfl (Nat.le_trans hI.bip hn)
    · cases h
  | config b m =>
    simp only [step] at h; split at h
    · cases h; exact ginv_env st _ hI rfl rfl hI.bip
    · cases h
  | abort =>
    simp only [step] at h; split at h
    · cases h
    · rename_i hg
      cases h
      cases hp : st.pc with
      | none => simp [hp] at hg
      | some p =>
        have hl := hI.pc
        simp only [pcOk, hp] at hl
        have hne : p ≠ .ged ∧ p ≠ .abt := by
          constructor <;> (intro hx; subst hx; simp [hp] at hg)
        refine ⟨?_, ?_, hI.bip⟩
        · have hc := hI.chain
          simp only [tr, List.map_append, List.map_cons, List.map_nil] at hc hl ⊢
          rw [okFrom_snoc, hc, hl]
          cases p <;> simp [startOk] <;> simp at hne
        · simp only [pcOk, tr, List.map_append, List.map_cons, List.map_nil, lastOf_snoc]
          first | exact Or.inr (Or.inr rfl) | simp

theorem run_ginv (st : St) (ops : List Op) (hI : GInv st) : GInv (run st ops) := by
  induction ops generalizing st with
  | nil => exact hI
  | cons op r ih =>
    simp only [run]
    cases hs : step st op with
    | none => simpa using ih st hI
    | some st' => simpa using ih st' (step_ginv st st' op hI hs)

/-- no game yet: balls_per_game `b`, max_players `m`, num_balls_known `k` -/
def start0 (b m k : Nat) : St := { bpg := b, maxPlayers := m, known := k }

theorem start0_inv (b m k : Nat) : GInv (start0 b m k) := by
  refine ⟨by simp [start0, tr, okFrom], ?_, by simp [start0]⟩
  simp [pcOk, start0, tr, lastOf]


/-! ## ball numbers: the round structure -/

def pre (pc : Option Ev) : Prop := pc = some .gws ∨ pc = some .gsg ∨ pc = some .gsd

def inTurn (pc : Option Ev) : Prop :=
  pc = some .ptws ∨ pc = some .ptsg ∨ pc = some .ptsd ∨ pc = some .bws ∨ pc = some .bsg ∨ pc = some .bsd ∨
  pc = some .bwe ∨ pc = some .beg ∨ pc = some .bed ∨ pc = some .ptwe ∨ pc = some .pteg ∨ pc = some .pted

/-- Before the first turn nobody has a ball number; during the turns all players up to the current one are on the
current player's ball, all later ones on the ball before (players join only while that is ball 0) — and nobody is ever
beyond balls_per_game. -/
structure BInv (st : St) : Prop where
  bpos : 1 ≤ st.bpg
  bound : ∀ p, st.balls p ≤ st.bpg
  beyond : ∀ p, p > st.players → st.balls p = 0
  preA : pre st.pc → (∀ p, st.balls p = 0) ∧ st.cur = (if st.players = 0 then 0 else 1)
  preD : st.pc = some .gsd → st.players ≥ 1
  turnB : inTurn st.pc → 1 ≤ st.cur ∧ st.cur ≤ st.players ∧ 1 ≤ st.balls st.cur ∧
    (∀ p, 1 ≤ p → p ≤ st.cur → st.balls p = st.balls st.cur) ∧
    (∀ p, st.cur < p → p ≤ st.players → st.balls p = st.balls st.cur - 1)
  pend : st.pendAdds > 0 → ¬(st.cur ≠ 0 ∧ st.balls st.cur > 1)

/-- a step that keeps the roster and the ball numbers and stays in (or leaves) the phase -/
theorem binv_keep (st st' : St) (hI : BInv st) (h1 : st'.bpg = st.bpg) (h2 : st'.balls = st.balls)
    (h3 : st'.cur = st.cur) (h4 : st'.players = st.players) (h5 : st'.pendAdds > 0 → st.pendAdds > 0)
    (hp : pre st'.pc → pre st.pc) (ht : inTurn st'.pc → inTurn st.pc) (hd : st'.pc = some .gsd → st.players ≥ 1) :
    BInv st' := by
  refine ⟨by rw [h1]; exact hI.bpos, by rw [h1, h2]; exact hI.bound, ?_, ?_, ?_, ?_, ?_⟩
  · rw [h2, h4]; exact hI.beyond
  · intro hph; rw [h2, h3, h4]; exact hI.preA (hp hph)
  · intro hx; rw [h4]; exact hd hx
  · intro hph; rw [h2, h3, h4]; exact hI.turnB (ht hph)
  · intro hx; rw [h2, h3]; exact hI.pend (h5 hx)

/-- the beginning of a turn (`_start_player_turn`): the player `c` whose turn it is gets the next ball number -/
theorem binv_turn (st st' : St) (c : Nat) (hI : BInv st) (h1 : st'.bpg = st.bpg)
    (h2 : st'.balls = setAt st.balls c (st.balls c + 1)) (h3 : st'.cur = c) (h4 : st'.players = st.players)
    (h5 : st'.pendAdds = 0) (hpc : st'.pc = some .ptws)
    (hc : (pre st.pc ∧ st.pc = some .gsd ∧ c = 1) ∨
          (inTurn st.pc ∧ ¬(st.balls st.cur ≥ st.bpg ∧ st.cur = st.players) ∧
            c = (if st.cur < st.players then st.cur + 1 else 1))) :
    BInv st' := by
  have hT : inTurn st'.pc := by rw [hpc]; exact Or.inl rfl
  have hnP : ¬ pre st'.pc := by rw [hpc]; intro h; rcases h with h | h | h <;> cases h
  rcases hc with ⟨hpre, hgsd, hc1⟩ | ⟨htn, hlast, hcn⟩
  · obtain ⟨hz, _⟩ := hI.preA hpre
    have hpl := hI.preD hgsd
    subst hc1
    refine ⟨by rw [h1]; exact hI.bpos, ?_, ?_, fun h => absurd h hnP, (fun h => by rw [hpc] at h; cases h), ?_, ?_⟩
    · intro p; rw [h1, h2]; simp only [setAt]; split
      · rw [hz]; exact hI.bpos
      · rw [hz]; exact Nat.zero_le _
    · intro p hp; rw [h2]; simp only [setAt]; rw [h4] at hp; split
      · omega
      · exact hz p
    · intro _; rw [h2, h3, h4]; simp only [setAt, hz]
      refine ⟨Nat.le_refl _, hpl, by simp, ?_, ?_⟩
      · intro p h1p hp1; have : p = 1 := by omega
        simp [this]
      · intro p hp _; have : p ≠ 1 := by omega
        simp [this]
    · intro hx; rw [h5] at hx; omega
  · obtain ⟨hc1, hcp, hb1, hle, hgt⟩ := hI.turnB htn
    have hbey := hI.beyond
    have hbd := hI.bound
    have hbcur := hbd st.cur
    by_cases hlt : st.cur < st.players
    · rw [if_pos hlt] at hcn; subst hcn
      have hnext := hgt (st.cur + 1) (by omega) (by omega)
      refine ⟨by rw [h1]; exact hI.bpos, ?_, ?_, fun h => absurd h hnP, (fun h => by rw [hpc] at h; cases h), ?_, ?_⟩
      · intro p; rw [h1, h2]; simp only [setAt]; split
        · rw [hnext]; omega
        · exact hbd p
      · intro p hp; rw [h2]; simp only [setAt]; rw [h4] at hp; split
        · omega
        · exact hbey p hp
      · intro _; rw [h2, h3, h4]; simp only [setAt, if_true, hnext]
        refine ⟨by omega, by omega, by omega, ?_, ?_⟩
        · intro p h1p hpc'
          split
          · rfl
          · rw [hle p h1p (by omega)]; omega
        · intro p hp hpp
          have : p ≠ st.cur + 1 := by omega
          simp only [this, if_false]
          rw [hgt p (by omega) hpp]; omega
      · intro hx; rw [h5] at hx; omega
    · rw [if_neg hlt] at hcn; subst hcn
      have hceq : st.cur = st.players := by omega
      have hsmall : st.balls st.cur < st.bpg := by
        by_cases hge : st.balls st.cur ≥ st.bpg
        · exact absurd ⟨hge, hceq⟩ hlast
        · omega
      have h1eq : st.balls 1 = st.balls st.cur := hle 1 (Nat.le_refl _) hc1
      refine ⟨by rw [h1]; exact hI.bpos, ?_, ?_, fun h => absurd h hnP, (fun h => by rw [hpc] at h; cases h), ?_, ?_⟩
      · intro p; rw [h1, h2]; simp only [setAt]; split
        · rw [h1eq]; omega
        · exact hbd p
      · intro p hp; rw [h2]; simp only [setAt]; rw [h4] at hp; split
        · omega
        · exact hbey p hp
      · intro _; rw [h2, h3, h4]; simp only [setAt, if_true, h1eq]
        refine ⟨Nat.le_refl _, by omega, by omega, ?_, ?_⟩
        · intro p h1p hp1; have : p = 1 := by omega
          simp [this]
        · intro p hp hpp
          have : p ≠ 1 := by omega
          simp only [this, if_false]
          rw [hle p (by omega) (by omega)]; omega
      · intro hx; rw [h5] at hx; omega


/-- a player joins (only while the current player is not beyond ball 1) -/
theorem binv_add (st st' : St) (hI : BInv st) (h1 : st'.bpg = st.bpg) (h2 : st'.balls = st.balls)
    (h3 : st'.cur = (if st.cur = 0 then st.players + 1 else st.cur)) (h4 : st'.players = st.players + 1)
    (hpc : st'.pc = st.pc)
    (hg : ¬(st.cur ≠ 0 ∧ st.balls st.cur > 1)) : BInv st' := by
  refine ⟨by rw [h1]; exact hI.bpos, by rw [h1, h2]; exact hI.bound, ?_, ?_, ?_, ?_, ?_⟩
  · intro p hp; rw [h2]; rw [h4] at hp; exact hI.beyond p (by omega)
  · intro hph; rw [hpc] at hph
    obtain ⟨hz, hc⟩ := hI.preA hph
    refine ⟨by rw [h2]; exact hz, ?_⟩
    rw [h3, h4, hc]
    by_cases h0 : st.players = 0 <;> simp [h0]
  · intro _; rw [h4]; omega
  · intro hph; rw [hpc] at hph
    obtain ⟨hc1, hcp, hb1, hle, hgt⟩ := hI.turnB hph
    have hc0 : st.cur ≠ 0 := by omega
    have hb : st.balls st.cur = 1 := by
      have : ¬ st.balls st.cur > 1 := fun h => hg ⟨hc0, h⟩
      omega
    rw [h2, h3, h4, if_neg hc0]
    refine ⟨hc1, by omega, hb1, hle, ?_⟩
    intro p hp hpp
    by_cases hlast : p ≤ st.players
    · exact hgt p hp hlast
    · rw [hI.beyond p (by omega), hb]
  · intro _; rw [h2, h3]
    by_cases hc0 : st.cur = 0
    · rw [if_pos hc0]
      intro hx
      have hz : st.balls (st.players + 1) = 0 := hI.beyond _ (by omega)
      omega
    · rw [if_neg hc0]; exact hg


/-- the turns are over (or the game ended while starting): only the bound and the unused slots matter -/
theorem binv_leave (st st' : St) (hI : BInv st) (h1 : st'.bpg = st.bpg) (h2 : st'.balls = st.balls)
    (h4 : st'.players = st.players) (h5 : st'.pendAdds = 0) (hp : ¬ pre st'.pc) (ht : ¬ inTurn st'.pc) : BInv st' := by
  refine ⟨by rw [h1]; exact hI.bpos, by rw [h1, h2]; exact hI.bound, by rw [h2, h4]; exact hI.beyond,
    fun h => absurd h hp, ?_, fun h => absurd h ht, ?_⟩
  · intro hx; exact absurd (Or.inr (Or.inr hx)) hp
  · intro hx; rw [h5] at hx; omega

theorem resume_binv (st st' : St) (hI : BInv st) (h : resume st = some st') : BInv st' := by
  unfold resume at h
  split at h
  · cases h
  rename_i hpend
  have hp0 : st.pendAdds = 0 := by omega
  cases hp : st.pc with
  | none => simp [hp] at h
  | some p =>
    cases p
    case gsd =>
      by_cases he : st.ending = true <;> simp [hp, he, loopCheck] at h <;> subst h
      · refine binv_keep st _ hI rfl rfl rfl rfl (fun h => h) ?_ ?_ ?_ <;> simp [pre, inTurn, hp, emit]
      · have hpre : pre st.pc := by rw [hp]; exact Or.inr (Or.inr rfl)
        have hc := (hI.preA hpre).2
        have hpl := hI.preD hp
        have hc1 : st.cur = 1 := by rw [hc]; simp; omega
        refine binv_turn st _ 1 hI rfl ?_ ?_ rfl hp0 rfl (Or.inl ⟨hpre, hp, rfl⟩) <;> simp [emit, hc1]
    case pted =>
      simp only [hp] at h
      have hT : inTurn st.pc := by rw [hp]; simp [inTurn]
      split at h
      · simp [loopCheck] at h; subst h
        refine binv_leave st _ hI rfl rfl rfl hp0 ?_ ?_ <;> simp [pre, inTurn, emit]
      · rename_i hcond
        have hlast : ¬(st.balls st.cur ≥ st.bpg ∧ st.cur = st.players) := by
          intro ⟨a, b⟩; apply hcond
          have a' : st.balls st.players ≥ st.bpg := b ▸ a
          simp [a', b]
        have hrot : ∀ r : Nat, r = (if st.cur < st.players then st.cur + 1 else 1) → (if r = 0 then 1 else r) = r := by
          intro r hr; have : r ≠ 0 := by rw [hr]; split <;> omega
          simp [this]
        by_cases he : st.ending = true <;> simp [he, loopCheck] at h <;> subst h
        · refine binv_leave st _ hI rfl rfl rfl hp0 ?_ ?_ <;> simp [pre, inTurn, emit]
        · refine binv_turn st _ (if st.cur < st.players then st.cur + 1 else 1) hI rfl ?_ ?_ rfl hp0 rfl
            (Or.inr ⟨hT, hlast, rfl⟩) <;> simp [emit, hrot _ rfl]
    case ptsd | bed =>
      by_cases he : st.ending = true <;> by_cases hs : st.slam = true <;> by_cases hx : st.extra st.cur > 0 <;>
        simp [hp, he, hs, hx, extraCheck, startBall] at h <;> subst h <;>
        (refine binv_keep st _ hI rfl rfl rfl rfl (fun h => h) ?_ ?_ ?_ <;> simp [pre, inTurn, hp, emit])
    case bsd =>
      by_cases hev : st.endEv = true <;> simp [hp, hev] at h
      subst h
      refine binv_keep st _ hI rfl rfl rfl rfl (fun h => h) ?_ ?_ ?_ <;> simp [pre, inTurn, hp, emit]
    case ged | abt => simp [hp] at h
    case gsg =>
      by_cases hc : st.checked = true <;> by_cases he : st.ending = true <;> by_cases h0 : st.players = 0 <;>
        simp [hp, hc, he, h0] at h <;> subst h <;>
        (refine binv_keep st _ hI rfl rfl rfl rfl (fun h => h) ?_ ?_ ?_ <;> simp [pre, inTurn, hp, emit] <;> omega)
    all_goals
      simp [hp] at h
      subst h
      refine binv_keep st _ hI rfl rfl rfl rfl (fun h => h) ?_ ?_ ?_ <;> simp [pre, inTurn, hp, emit]


theorem step_binv (st st' : St) (op : Op) (hI : BInv st) (h : step st op = some st') : BInv st' := by
  have keep : ∀ s : St, s.bpg = st.bpg → s.balls = st.balls → s.cur = st.cur → s.players = st.players →
      s.pendAdds = st.pendAdds → s.pc = st.pc → BInv s := by
    intro s a b c d e f
    exact binv_keep st s hI a b c d (by rw [e]; exact fun x => x) (by rw [f]; exact fun x => x)
      (by rw [f]; exact fun x => x) (by rw [f]; exact hI.preD)
  cases op with
  | start =>
    simp only [step] at h
    split at h
    · cases h
    · cases h
      refine ⟨hI.bpos, fun _ => Nat.zero_le _, fun _ _ => rfl, fun _ => ⟨fun _ => rfl, rfl⟩, ?_, ?_, ?_⟩
      · intro hx; simp [emit] at hx
      · intro hx; simp [inTurn, emit] at hx
      · intro hx; simp [emit] at hx
  | resume => exact resume_binv st st' hI h
  | endBall =>
    simp only [step] at h; split at h
    · cases h
    · cases h; exact keep _ rfl rfl rfl rfl rfl rfl
  | endGame =>
    simp only [step] at h; split at h
    · cases h
    · cases h; exact keep _ rfl rfl rfl rfl rfl rfl
  | slam =>
    simp only [step] at h; split at h
    · cases h
    · cases h; exact keep _ rfl rfl rfl rfl rfl rfl
  | setBip n =>
    simp only [step] at h; split at h
    · cases h
    · cases h; exact keep _ rfl rfl rfl rfl rfl rfl
  | drain n =>
    simp only [step] at h; split at h
    · cases h
      split
      · exact hI
      · exact keep _ rfl rfl rfl rfl rfl rfl
    · cases h
  | extraBall =>
    simp only [step] at h; split at h
    · cases h
    · cases h; exact keep _ rfl rfl rfl rfl rfl rfl
  | addPlayer =>
    simp only [step] at h; split at h
    · cases h
    · split at h
      · cases h; exact hI
      · rename_i hr
        cases h
        have hg : ¬(st.cur ≠ 0 ∧ st.balls st.cur > 1) := by
          intro ⟨a, b⟩; apply hr; simp [addRefused, a, b]
        exact binv_add st { st with players := st.players + 1, cur := if st.cur = 0 then st.players + 1 else st.cur }
          hI rfl rfl rfl rfl rfl hg
  | addAccepted =>
    simp only [step, stepAdd] at h; split at h
    · cases h
    · rename_i hr
      cases h
      have hg : ¬(st.cur ≠ 0 ∧ st.balls st.cur > 1) := by
        intro ⟨a, b⟩; apply hr; simp [addRefused, a, b]
      exact ⟨hI.bpos, hI.bound, hI.beyond, hI.preA, hI.preD, hI.turnB, fun _ => hg⟩
  | addRejected =>
    simp only [step, stepAdd] at h; split at h
    · cases h
    · cases h; exact hI
  | playerAdded =>
    simp only [step, stepAdd] at h; split at h
    · cases h
    · rename_i hr
      cases h
      have hpos : st.pendAdds > 0 := by
        simp only [Bool.or_eq_true, decide_eq_true_eq, not_or] at hr
        omega
      have hB := binv_add st { st with players := st.players + 1, cur := if st.cur = 0 then st.players + 1 else st.cur }
        hI rfl rfl rfl rfl rfl (hI.pend hpos)
      exact ⟨hB.bpos, hB.bound, hB.beyond, hB.preA, hB.preD, hB.turnB, fun _ => hB.pend hpos⟩
  | finish =>
    simp only [step] at h; split at h
    · cases h
      by_cases hp0 : st.pendAdds = 0
      · refine binv_leave st _ hI rfl rfl rfl hp0 ?_ ?_ <;> simp [pre, inTurn]
      · have hg := hI.pend (by omega)
        exact ⟨hI.bpos, hI.bound, hI.beyond, fun hx => by simp [pre] at hx, fun hx => by simp at hx,
          fun hx => by simp [inTurn] at hx, fun _ => hg⟩
    · cases h
  | startCheck =>
    simp only [step] at h; split at h
    · cases h; exact keep _ rfl rfl rfl rfl rfl rfl
    · cases h

  | tilt | slamTilt | tiltWarn | warnReset | tiltClear =>
    have f : Frame st st' := by
      first
        | exact tilt_steps_frame st st' _ (Or.inl rfl) h
        | exact tilt_steps_frame st st' _ (Or.inr (Or.inl rfl)) h
        | exact tilt_steps_frame st st' _ (Or.inr (Or.inr (Or.inl rfl))) h
        | exact tilt_steps_frame st st' _ (Or.inr (Or.inr (Or.inr (Or.inl rfl)))) h
        | exact tilt_steps_frame st st' _ (Or.inr (Or.inr (Or.inr (Or.inr rfl)))) h
    exact keep _ f.bpg f.balls f.cur f.players f.pend f.pc
  | addVetoed =>
    simp only [step] at h; split at h
    · cases h
    · cases h
      exact binv_keep st _ hI rfl rfl rfl rfl (fun hx => by simp only at hx; omega) (fun x => x) (fun x => x) hI.preD
  | setKnown n =>
    simp only [step] at h; split at h
    · cases h; exact keep _ rfl rfl rfl rfl rfl rfl
    · cases h
  | config b m =>
    simp only [step] at h; split at h
    · rename_i hg
      cases h
      simp only [Bool.and_eq_true, decide_eq_true_eq] at hg
      have hpn : st.pc = none := by cases hx : st.pc <;> simp [hx] at hg ⊢
      refine ⟨hg.2, fun _ => Nat.zero_le _, fun _ _ => rfl, ?_, ?_, ?_, ?_⟩
      · intro hx; simp [pre, hpn] at hx
      · intro hx; simp [hpn] at hx
      · intro hx; simp [inTurn, hpn] at hx
      · intro _ hx; simp at hx
    · cases h
  | abort =>
    simp only [step] at h; split at h
    · cases h
    · cases h
      refine binv_leave st _ hI rfl rfl rfl rfl ?_ ?_ <;> simp [pre, inTurn]

theorem run_binv (st : St) (ops : List Op) (hI : BInv st) : BInv (run st ops) := by
  induction ops generalizing st with
  | nil => exact hI
  | cons op r ih =>
    simp only [run]
    cases hs : step st op with
    | none => simpa using ih st hI
    | some st' => simpa using ih st' (step_binv st st' op hI hs)

theorem start0_binv (b m k : Nat) (hb : 1 ≤ b) : BInv (start0 b m k) := by
  refine ⟨hb, fun _ => Nat.zero_le _, fun _ _ => rfl, fun hx => ?_, fun hx => ?_, fun hx => ?_, fun hx => ?_⟩
  · simp [pre, start0] at hx
  · simp [start0] at hx
  · simp [inTurn, start0] at hx
  · simp [start0] at hx

/-! ## extra balls: one ball per turn plus one per extra ball awarded -/

/-- per player, in the current game: balls started + extra balls still pending = turns whose first ball started +
extra balls awarded -/
def Acc (st : St) : Prop := ∀ p, st.started p + st.extra p = st.firstBalls p + st.awarded p

theorem resume_acc (st st' : St) (hA : Acc st) (h : resume st = some st') : Acc st' := by
  unfold resume at h
  split at h
  · cases h
  cases hp : st.pc with
  | none => simp [hp] at h
  | some p =>
    cases p
    case gsd | pted =>
      by_cases he : st.ending = true <;> by_cases hs : st.slam = true <;> by_cases hl : st.balls st.cur ≥ st.bpg <;>
        simp [hp, he, hs, hl, loopCheck] at h <;> (try split at h) <;> (try simp at h) <;> subst h <;> exact hA
    case ptsd | bed =>
      by_cases he : st.ending = true <;> by_cases hs : st.slam = true <;> by_cases hx : st.extra st.cur > 0 <;>
        simp [hp, he, hs, hx, extraCheck, startBall] at h <;> subst h <;> intro q <;> have := hA q <;>
        simp only [emit, setAt] <;> (try split) <;> (try subst_vars) <;> (try omega)
    case bsd =>
      by_cases hev : st.endEv = true <;> simp [hp, hev] at h
      subst h; exact hA
    case ged | abt => simp [hp] at h
    case gsg =>
      by_cases hc : st.checked = true <;> by_cases he : st.ending = true <;> by_cases h0 : st.players = 0 <;>
        simp [hp, hc, he, h0] at h <;> subst h <;> exact hA
    all_goals
      simp [hp] at h
      subst h
      exact hA


theorem step_acc (st st' : St) (op : Op) (hA : Acc st) (h : step st op = some st') : Acc st' := by
  cases op with
  | start =>
    simp only [step] at h; split at h
    · cases h
    · cases h; intro q; simp [emit]
  | resume => exact resume_acc st st' hA h
  | extraBall =>
    simp only [step] at h; split at h
    · cases h
    · cases h; intro q; have := hA q; simp only [setAt]; split <;> (try subst_vars) <;> omega
  | drain n =>
    simp only [step] at h; split at h
    · cases h; split <;> exact hA
    · cases h
  | addPlayer =>
    simp only [step] at h; split at h
    · cases h
    · split at h <;> cases h <;> exact hA
  | finish =>
    simp only [step] at h; split at h <;> cases h; exact hA
  | startCheck =>
    simp only [step] at h; split at h <;> cases h; exact hA
  | endBall => simp only [step] at h; split at h <;> cases h; exact hA
  | endGame => simp only [step] at h; split at h <;> cases h; exact hA
  | slam => simp only [step] at h; split at h <;> cases h; exact hA
  | setBip n => simp only [step] at h; split at h <;> cases h; exact hA
  | addAccepted => simp only [step, stepAdd] at h; split at h <;> cases h; exact hA
  | addRejected => simp only [step, stepAdd] at h; split at h <;> cases h; exact hA
  | playerAdded => simp only [step, stepAdd] at h; split at h <;> cases h; exact hA

  | tilt | slamTilt | tiltWarn | warnReset | tiltClear =>
    have f : Frame st st' := by
      first
        | exact tilt_steps_frame st st' _ (Or.inl rfl) h
        | exact tilt_steps_frame st st' _ (Or.inr (Or.inl rfl)) h
        | exact tilt_steps_frame st st' _ (Or.inr (Or.inr (Or.inl rfl))) h
        | exact tilt_steps_frame st st' _ (Or.inr (Or.inr (Or.inr (Or.inl rfl)))) h
        | exact tilt_steps_frame st st' _ (Or.inr (Or.inr (Or.inr (Or.inr rfl)))) h
    intro q
    rw [f.started, f.extra, f.firstBalls, f.awarded]
    exact hA q
  | addVetoed => simp only [step] at h; split at h <;> cases h; exact hA
  | setKnown n => simp only [step] at h; split at h <;> cases h; exact hA
  | config b m => simp only [step] at h; split at h <;> cases h; exact hA
  | abort => simp only [step] at h; split at h <;> cases h; exact hA

theorem run_acc (st : St) (ops : List Op) (hA : Acc st) : Acc (run st ops) := by
  induction ops generalizing st with
  | nil => exact hA
  | cons op r ih =>
    simp only [run]
    cases hs : step st op with
    | none => simpa using ih st hA
    | some st' => simpa using ih st' (step_acc st st' op hA hs)


/-- one resumption keeps the configuration and the tilt mode's flags -/
theorem resume_keeps (st st' : St) (h : resume st = some st') :
    st'.bpg = st.bpg ∧ st'.maxPlayers = st.maxPlayers ∧ st'.slam = st.slam ∧ st'.tilted = st.tilted ∧ st'.warnTo = st.warnTo := by
  unfold resume at h
  split at h
  · cases h
  cases hp : st.pc with
  | none => simp [hp] at h
  | some p =>
    cases p
    case gsd | pted =>
      by_cases he : st.ending = true <;> by_cases hs : st.slam = true <;> by_cases hl : st.balls st.cur ≥ st.bpg <;>
        simp [hp, he, hs, hl, loopCheck] at h <;> (try split at h) <;> (try simp at h) <;> subst h <;>
        first | exact ⟨rfl, rfl, rfl, rfl, rfl⟩ | (refine ⟨rfl, rfl, ?_, rfl, rfl⟩; simp [emit, hs])
    case ptsd | bed =>
      by_cases he : st.ending = true <;> by_cases hs : st.slam = true <;> by_cases hx : st.extra st.cur > 0 <;>
        simp [hp, he, hs, hx, extraCheck, startBall] at h <;> subst h <;> first | exact ⟨rfl, rfl, rfl, rfl, rfl⟩ | (refine ⟨rfl, rfl, ?_, rfl, rfl⟩; simp [emit, hs])
    case bsd =>
      by_cases hev : st.endEv = true <;> simp [hp, hev] at h
      subst h; first | exact ⟨rfl, rfl, rfl, rfl, rfl⟩ | (refine ⟨rfl, rfl, ?_, rfl, rfl⟩; simp [emit, hs])
    case ged | abt => simp [hp] at h
    case gsg =>
      by_cases hc : st.checked = true <;> by_cases he : st.ending = true <;> by_cases h0 : st.players = 0 <;>
        simp [hp, hc, he, h0] at h <;> subst h <;> first | exact ⟨rfl, rfl, rfl, rfl, rfl⟩ | (refine ⟨rfl, rfl, ?_, rfl, rfl⟩; simp [emit, hs])
    all_goals
      simp [hp] at h
      subst h
      first | exact ⟨rfl, rfl, rfl, rfl, rfl⟩ | (refine ⟨rfl, rfl, ?_, rfl, rfl⟩; simp [emit, hs])

theorem tiltNow_slam (st : St) : (tiltNow st).slam = st.slam := by
  unfold tiltNow; split <;> rfl

theorem tiltWarn_slam (st : St) : (tiltWarn st).slam = st.slam := by
  unfold tiltWarn
  split
  · rfl
  · split
    · exact tiltNow_slam _
    · rfl

/-- the slam-tilt flag survives every step of the game it was set in -/
theorem step_slam (st st' : St) (op : Op) (hop : op ≠ .start) (hs : st.slam = true) (h : step st op = some st') :
    st'.slam = true := by
  cases op with
  | start => exact absurd rfl hop
  | resume => rw [(resume_keeps st st' h).2.2.1]; exact hs
  | tilt =>
    simp only [step] at h; split at h
    · cases h
    · cases h; rw [tiltNow_slam]; exact hs
  | slamTilt =>
    simp only [step] at h; split at h
    · cases h
    · cases h; rw [tiltNow_slam]
  | tiltWarn =>
    simp only [step] at h; split at h
    · cases h
    · cases h; rw [tiltWarn_slam]; exact hs
  | warnReset =>
    simp only [step] at h; split at h
    · cases h
    · split at h <;> cases h <;> exact hs
  | drain n =>
    simp only [step] at h; split at h
    · cases h; split <;> exact hs
    · cases h
  | addPlayer =>
    simp only [step] at h; split at h
    · cases h
    · split at h <;> cases h <;> exact hs
  | addAccepted => simp only [step, stepAdd] at h; split at h <;> cases h; exact hs
  | addRejected => simp only [step, stepAdd] at h; split at h <;> cases h; exact hs
  | playerAdded => simp only [step, stepAdd] at h; split at h <;> cases h; exact hs
  | endBall => simp only [step] at h; split at h <;> cases h; exact hs
  | endGame => simp only [step] at h; split at h <;> cases h; exact hs
  | slam => simp only [step] at h; split at h <;> cases h; rfl
  | setBip n => simp only [step] at h; split at h <;> cases h; exact hs
  | extraBall => simp only [step] at h; split at h <;> cases h; exact hs
  | finish => simp only [step] at h; split at h <;> cases h; exact hs
  | startCheck => simp only [step] at h; split at h <;> cases h; exact hs
  | tiltClear => simp only [step] at h; split at h <;> cases h; exact hs
  | addVetoed => simp only [step] at h; split at h <;> cases h; exact hs
  | abort => simp only [step] at h; split at h <;> cases h; exact hs
  | setKnown n => simp only [step] at h; split at h <;> cases h; exact hs
  | config b m => simp only [step] at h; split at h <;> cases h; exact hs

/-- balls_per_game / max_players only change between games -/
theorem step_config (st st' : St) (op : Op) (hp : st.pc.isSome) (hop : op ≠ .start) (h : step st op = some st') :
    st'.bpg = st.bpg ∧ st'.maxPlayers = st.maxPlayers := by
  have fr : Frame st st' → st'.bpg = st.bpg ∧ st'.maxPlayers = st.maxPlayers := fun f => ⟨f.bpg, f.maxPlayers⟩
  cases op with
  | start => exact absurd rfl hop
  | config b m =>
    simp only [step] at h; split at h
    · rename_i hg
      cases hx : st.pc <;> simp [hx] at hg hp
    · cases h
  | resume => exact ⟨(resume_keeps st st' h).1, (resume_keeps st st' h).2.1⟩
  | tilt => exact fr (tilt_steps_frame st st' _ (Or.inl rfl) h)
  | slamTilt => exact fr (tilt_steps_frame st st' _ (Or.inr (Or.inl rfl)) h)
  | tiltWarn => exact fr (tilt_steps_frame st st' _ (Or.inr (Or.inr (Or.inl rfl))) h)
  | warnReset => exact fr (tilt_steps_frame st st' _ (Or.inr (Or.inr (Or.inr (Or.inl rfl)))) h)
  | tiltClear => exact fr (tilt_steps_frame st st' _ (Or.inr (Or.inr (Or.inr (Or.inr rfl)))) h)
  | drain n =>
    simp only [step] at h; split at h
    · cases h; split <;> exact ⟨rfl, rfl⟩
    · cases h
  | addPlayer =>
    simp only [step] at h; split at h
    · cases h
    · split at h <;> cases h <;> exact ⟨rfl, rfl⟩
  | addAccepted => simp only [step, stepAdd] at h; split at h <;> cases h; exact ⟨rfl, rfl⟩
  | addRejected => simp only [step, stepAdd] at h; split at h <;> cases h; exact ⟨rfl, rfl⟩
  | playerAdded => simp only [step, stepAdd] at h; split at h <;> cases h; exact ⟨rfl, rfl⟩
  | endBall => simp only [step] at h; split at h <;> cases h; exact ⟨rfl, rfl⟩
  | endGame => simp only [step] at h; split at h <;> cases h; exact ⟨rfl, rfl⟩
  | slam => simp only [step] at h; split at h <;> cases h; exact ⟨rfl, rfl⟩
  | setBip n => simp only [step] at h; split at h <;> cases h; exact ⟨rfl, rfl⟩
  | extraBall => simp only [step] at h; split at h <;> cases h; exact ⟨rfl, rfl⟩
  | finish => simp only [step] at h; split at h <;> cases h; exact ⟨rfl, rfl⟩
  | startCheck => simp only [step] at h; split at h <;> cases h; exact ⟨rfl, rfl⟩
  | addVetoed => simp only [step] at h; split at h <;> cases h; exact ⟨rfl, rfl⟩
  | abort => simp only [step] at h; split at h <;> cases h; exact ⟨rfl, rfl⟩
  | setKnown n => simp only [step] at h; split at h <;> cases h; exact ⟨rfl, rfl⟩

end MpfVerif.Game
