import MpfVerif.Lemmas.Rules
/-!
# Lemmas for C10: every coil energised by a software command is owed to a flag of an enabled flipper
-/
namespace MpfVerif.Rules

/-- coil `x` is owed to flipper state `d` (wiring `f`): the flipper is enabled and either `x` is its main coil and it
is software-flipped or repulse-enabled, or `x` is its hold coil and it is software-flipped -/
def owedD (f : FCfg) (d : DSt) (x : Nat) : Prop :=
  d.enabled = true ∧ ((x = f.main ∧ (d.swFlipped = true ∨ d.repOn = true)) ∨ (f.hold = some x ∧ d.swFlipped = true))

def OwedBy (c : Cfg) (s : St) (i x : Nat) : Prop :=
  i < c.n ∧ ∃ f, (c.dev i).kind = .flipper f ∧ owedD f (s.devs i) x

/-- the coil invariant: every coil in `on` is owed to an enabled flipper -/
def InvOn (c : Cfg) (s : St) : Prop := ∀ x ∈ s.on, ∃ i, OwedBy c s i x

theorem owedBy_of_devs {c : Cfg} {s s' : St} {j x : Nat} (h : s'.devs j = s.devs j) (ho : OwedBy c s j x) :
    OwedBy c s' j x := by
  unfold OwedBy at *
  rw [h]; exact ho

/-- a change local to flipper `i` -/
theorem invOn_flip {c : Cfg} {s s' : St} (i : Nat) (f : FCfg) (hi : i < c.n) (hk : (c.dev i).kind = .flipper f)
    (h : InvOn c s) (hoth : ∀ j, j ≠ i → s'.devs j = s.devs j)
    (hon : ∀ y ∈ s'.on, (y ∈ s.on ∧ (owedD f (s.devs i) y → owedD f (s'.devs i) y)) ∨ owedD f (s'.devs i) y) :
    InvOn c s' := by
  intro y hy
  rcases hon y hy with ⟨hy0, hmono⟩ | hnew
  · obtain ⟨j, hj⟩ := h y hy0
    by_cases hji : j = i
    · subst hji
      obtain ⟨_, f', hk', ho⟩ := hj
      rw [hk] at hk'
      cases hk'
      exact ⟨j, hi, f, hk, hmono ho⟩
    · exact ⟨j, owedBy_of_devs (hoth j hji) hj⟩
  · exact ⟨i, hi, f, hk, hnew⟩

/-- a change local to a device that is not a flipper, or that leaves every flipper flag alone: `on` may only shrink -/
theorem invOn_shrink {c : Cfg} {s s' : St} (h : InvOn c s) (hsub : ∀ y ∈ s'.on, y ∈ s.on)
    (hfl : ∀ j f, (c.dev j).kind = .flipper f → ∀ y, owedD f (s.devs j) y → owedD f (s'.devs j) y) : InvOn c s' := by
  intro y hy
  obtain ⟨j, hj, f, hk, ho⟩ := h y (hsub y hy)
  exact ⟨j, hj, f, hk, hfl j f hk y ho⟩

@[simp] theorem on_coilOn (s : St) (x y : Nat) : y ∈ (coilOn s x).on ↔ y = x ∨ y ∈ s.on := by
  unfold coilOn
  simp only
  split
  · rename_i hx
    constructor
    · intro h; exact Or.inr h
    · rintro (h | h)
      · subst h; exact hx
      · exact h
  · simp
@[simp] theorem on_coilOff (s : St) (x y : Nat) : y ∈ (coilOff s x).on ↔ y ∈ s.on ∧ y ≠ x := by
  simp [coilOff, List.mem_filter]
@[simp] theorem on_coilPulse (s : St) (x : Nat) : (coilPulse s x).on = s.on := rfl
@[simp] theorem on_upd (s : St) (i : Nat) (d : DSt) : (upd s i d).on = s.on := rfl
@[simp] theorem devs_coilOn (s : St) (x : Nat) : (coilOn s x).devs = s.devs := rfl
@[simp] theorem devs_coilOff (s : St) (x : Nat) : (coilOff s x).devs = s.devs := rfl
@[simp] theorem devs_coilPulse (s : St) (x : Nat) : (coilPulse s x).devs = s.devs := rfl
@[simp] theorem devs_upd_same (s : St) (i : Nat) (d : DSt) : (upd s i d).devs i = d := by simp [upd]

theorem swRelease_other (s : St) (i j : Nat) (f : FCfg) (h : j ≠ i) : (swRelease s i f).devs j = s.devs j := by
  unfold swRelease
  cases f.hold <;> simp [upd, h]

theorem swFlip_other (s : St) (i j : Nat) (f : FCfg) (h : j ≠ i) : (swFlip s i f).devs j = s.devs j := by
  unfold swFlip
  split
  · cases f.hold <;> simp [upd, h]
  · rfl

theorem invOn_swRelease {c : Cfg} (s : St) (i : Nat) (f : FCfg) (hi : i < c.n) (hk : (c.dev i).kind = .flipper f)
    (h : InvOn c s) : InvOn c (swRelease s i f) := by
  refine invOn_flip i f hi hk h (fun j hj => swRelease_other s i j f hj) ?_
  intro y hy
  left
  unfold swRelease at hy ⊢
  cases hh : f.hold with
  | none =>
    simp only [hh, on_coilOff, on_upd] at hy
    refine ⟨hy.1, ?_⟩
    rintro ⟨_, ⟨hm, _⟩ | ⟨hho, _⟩⟩
    · exact absurd hm hy.2
    · rw [hh] at hho; cases hho
  | some hc =>
    simp only [hh, on_coilOff, on_upd] at hy
    refine ⟨hy.1.1, ?_⟩
    rintro ⟨_, ⟨hm, _⟩ | ⟨hho, _⟩⟩
    · exact absurd hm hy.1.2
    · rw [hh] at hho; cases hho; exact absurd rfl hy.2

theorem invOn_swFlip {c : Cfg} (s : St) (i : Nat) (f : FCfg) (hi : i < c.n) (hk : (c.dev i).kind = .flipper f)
    (h : InvOn c s) : InvOn c (swFlip s i f) := by
  refine invOn_flip i f hi hk h (fun j hj => swFlip_other s i j f hj) ?_
  intro y hy
  unfold swFlip at hy ⊢
  by_cases hen : (s.devs i).enabled = true
  · simp only [hen, if_true] at hy ⊢
    cases hh : f.hold with
    | none =>
      simp only [hh, on_coilOn, on_upd] at hy
      simp only [devs_coilOn, devs_upd_same]
      rcases hy with hy | hy
      · right; exact ⟨by first | rfl | exact hen, Or.inl ⟨hy, Or.inl rfl⟩⟩
      · left; refine ⟨hy, ?_⟩
        rintro ⟨_, ⟨hm, hfl⟩ | ⟨hho, _⟩⟩
        · exact ⟨by first | rfl | exact hen, Or.inl ⟨hm, Or.inl rfl⟩⟩
        · rw [hh] at hho; cases hho
    | some hc =>
      simp only [hh, on_coilOn, on_coilPulse, on_upd] at hy
      simp only [devs_coilOn, devs_coilPulse, devs_upd_same]
      rcases hy with hy | hy
      · right; exact ⟨by first | rfl | exact hen, Or.inr ⟨by rw [hh, hy], rfl⟩⟩
      · left; refine ⟨hy, ?_⟩
        rintro ⟨_, ⟨hm, hfl⟩ | ⟨hho, _⟩⟩
        · exact ⟨by first | rfl | exact hen, Or.inl ⟨hm, Or.inl rfl⟩⟩
        · exact ⟨by first | rfl | exact hen, Or.inr ⟨hho, rfl⟩⟩
  · simp only [hen, Bool.false_eq_true, if_false] at hy ⊢
    left; exact ⟨hy, fun h => h⟩

/-- an update of device `i` that leaves its enabled / swFlipped / repOn flags alone -/
theorem invOn_upd {c : Cfg} (s : St) (i : Nat) (d : DSt) (h : InvOn c s) (h1 : d.enabled = (s.devs i).enabled)
    (h2 : d.swFlipped = (s.devs i).swFlipped) (h3 : d.repOn = (s.devs i).repOn) : InvOn c (upd s i d) := by
  refine invOn_shrink h (fun y hy => hy) ?_
  intro j f _ y ho
  by_cases hji : j = i
  · subst hji
    rw [devs_upd_same]
    unfold owedD at *
    rw [h1, h2, h3]; exact ho
  · rw [upd_devs_other _ _ _ _ hji]; exact ho

theorem invOn_coilOff {c : Cfg} (s : St) (x : Nat) (h : InvOn c s) : InvOn c (coilOff s x) :=
  invOn_shrink h (fun y hy => ((on_coilOff s x y).mp hy).1) (fun _ _ _ _ ho => ho)

theorem invOn_coilPulse {c : Cfg} (s : St) (x : Nat) (h : InvOn c s) : InvOn c (coilPulse s x) :=
  invOn_shrink h (fun _ hy => hy) (fun _ _ _ _ ho => ho)

theorem fswDev_other (c : Cfg) (s : St) (i j w : Nat) (st : Bool) (h : j ≠ i) : (fswDev c s i w st).devs j = s.devs j := by
  unfold fswDev
  split
  · rfl
  · rename_i f _
    simp only
    split
    · split
      · rfl
      · split
        · simp [upd, h]
        · split <;> simp [upd, h]
    · split
      · rfl
      · split
        · simp [upd, h]
        · split
          · split <;> simp [upd, h]
          · split
            · cases f.hold <;> simp [upd, h]
            · simp [upd, h]

theorem invOn_fswDev {c : Cfg} (s : St) (i w : Nat) (st : Bool) (hi : i < c.n) (h : InvOn c s) :
    InvOn c (fswDev c s i w st) := by
  cases hk : (c.dev i).kind with
  | autofire a => unfold fswDev; simp only [hk]; exact h
  | flipper f =>
    refine invOn_flip i f hi hk h (fun j hj => fswDev_other c s i j w st hj) ?_
    intro y hy
    generalize hs' : fswDev c s i w st = s' at hy ⊢
    unfold fswDev at hs'
    simp only [hk] at hs'
    repeat' split at hs'
    all_goals subst hs'
    all_goals try simp only [on_coilOn, on_coilOff, on_coilPulse, on_upd, devs_coilOn, devs_coilOff, devs_coilPulse,
      devs_upd_same] at hy ⊢
    all_goals unfold owedD
    all_goals try simp_all
    all_goals try grind

theorem enableDev_on (c : Cfg) (s : St) (i : Nat) : (enableDev c s i).on = s.on := by
  unfold enableDev
  simp only
  split
  · rfl
  · split
    · cases (c.dev i).kind <;> rfl
    · rfl

theorem invOn_enableDev {c : Cfg} (s : St) (i : Nat) (h : InvOn c s) : InvOn c (enableDev c s i) := by
  intro y hy
  rw [enableDev_on] at hy
  obtain ⟨j, hj⟩ := h y hy
  by_cases hen : (s.devs i).enabled = true
  · have h1 : enableDev c s i = s := by unfold enableDev; simp [hen]
    rw [h1]; exact ⟨j, hj⟩
  · have hji : j ≠ i := by
      intro e; subst e
      obtain ⟨_, f, _, ho⟩ := hj
      exact hen ho.1
    exact ⟨j, owedBy_of_devs (enableDev_other c s j i hji) hj⟩

theorem invOn_disableDev {c : Cfg} (s : St) (i : Nat) (hi : i < c.n) (h : InvOn c s) : InvOn c (disableDev c s i) := by
  cases hk : (c.dev i).kind with
  | autofire a =>
    intro y hy
    have hon : (disableDev c s i).on = s.on := by
      unfold disableDev; simp only [hk]; split <;> rfl
    rw [hon] at hy
    obtain ⟨j, hj⟩ := h y hy
    have hji : j ≠ i := by
      intro e; subst e
      obtain ⟨_, f, hk', _⟩ := hj
      rw [hk] at hk'; cases hk'
    exact ⟨j, owedBy_of_devs (disableDev_other c s j i hji) hj⟩
  | flipper f =>
    refine invOn_flip i f hi hk h (fun j hj => disableDev_other c s j i hj) ?_
    intro y hy
    generalize hs' : disableDev c s i = s' at hy ⊢
    unfold disableDev at hs'
    simp only [hk] at hs'
    unfold swRelease at hs'
    repeat' split at hs'
    all_goals subst hs'
    all_goals try simp only [on_coilOn, on_coilOff, on_coilPulse, on_upd, devs_coilOn, devs_coilOff, devs_coilPulse,
      devs_upd_same] at hy ⊢
    all_goals unfold owedD
    all_goals try simp_all [clearRules]
    all_goals try grind

theorem invOn_hitCore {c : Cfg} (s : St) (i : Nat) (a : ACfg) (hi : i < c.n) (h : InvOn c s) : InvOn c (hitCore c s i a) := by
  unfold hitCore
  simp only
  split
  · split
    · exact invOn_upd _ _ _ (invOn_disableDev _ i hi (invOn_upd _ _ _ h rfl rfl rfl)) rfl rfl rfl
    · exact invOn_upd _ _ _ h rfl rfl rfl
  · exact h

theorem invOn_evStep {c : Cfg} (s : St) (e : Nat) (h : InvOn c s) : InvOn c (evStep c s e) := by
  unfold evStep
  simp only
  apply forDevs_inv (P := InvOn c) _ c.n _ c.n (Nat.le_refl _)
  · apply forDevs_inv (P := InvOn c) _ c.n _ c.n (Nat.le_refl _) s h
    intro s k hk hs
    split
    · exact invOn_disableDev s k hk hs
    · exact hs
  · intro s k _ hs
    split
    · exact invOn_enableDev s k hs
    · exact hs

theorem invOn_hitDev {c : Cfg} (s : St) (i : Nat) (hi : i < c.n) (h : InvOn c s) : InvOn c (hitDev c s i) := by
  unfold hitDev
  split
  · exact h
  · rename_i a _
    simp only
    split
    · exact h
    · have h1 := invOn_hitCore s i a hi h
      cases a.fired with
      | none => exact h1
      | some ev =>
        simp only
        split
        · exact invOn_evStep _ ev h1
        · exact h1

theorem invOn_searchDev {c : Cfg} (s : St) (i : Nat) (hi : i < c.n) (h : InvOn c s) : InvOn c (searchDev c s i) := by
  unfold searchDev
  split
  · rename_i f hk
    exact invOn_upd _ _ _ (invOn_swFlip s i f hi hk h) rfl rfl rfl
  · exact invOn_coilPulse _ _ (invOn_upd _ _ _ h rfl rfl rfl)

theorem invOn_fireDev {c : Cfg} (s : St) (i : Nat) (hi : i < c.n) (h : InvOn c s) : InvOn c (fireDev c s i) := by
  unfold fireDev
  split
  · rename_i f hk
    have h1 : InvOn c (fireRel s i f) := by
      unfold fireRel
      split
      · exact invOn_swRelease _ i f hi hk (invOn_upd _ _ _ h rfl rfl rfl)
      · exact h
    unfold fireEos
    split
    · exact invOn_upd _ _ _ h1 rfl rfl rfl
    · exact h1
  · have h1 : InvOn c (fireRe c s i) := by
      unfold fireRe
      split
      · exact invOn_enableDev _ i (invOn_upd _ _ _ h rfl rfl rfl)
      · exact h
    unfold fireSearch
    split
    · exact invOn_upd _ _ _ h1 rfl rfl rfl
    · exact h1

theorem invOn_fireAll {c : Cfg} (s : St) (h : InvOn c s) : InvOn c (fireAll c s) :=
  forDevs_inv (P := InvOn c) _ c.n (fun s k hk hs => invOn_fireDev s k hk hs) c.n (Nat.le_refl _) s h

theorem invOn_doOp {c : Cfg} (s : St) (op : Op) (h : InvOn c s) : InvOn c (doOp c s op) := by
  cases op with
  | enable i => simp only [doOp]; split; exact invOn_enableDev s i h; exact h
  | disable i => simp only [doOp]; split; exact invOn_disableDev s i (by assumption) h; exact h
  | swFlip i =>
    simp only [doOp]; split
    · split
      · rename_i f hk; exact invOn_swFlip s i f (by assumption) hk h
      · exact h
    · exact h
  | swRelease i =>
    simp only [doOp]; split
    · split
      · rename_i f hk; exact invOn_swRelease s i f (by assumption) hk h
      · exact h
    · exact h
  | search i => simp only [doOp]; split; exact invOn_searchDev s i (by assumption) h; exact h
  | fsw i w st => simp only [doOp]; split; exact invOn_fswDev s i w st (by assumption) h; exact h
  | hit i => simp only [doOp]; split; exact invOn_hitDev s i (by assumption) h; exact h
  | ev e => exact invOn_evStep s e h
  | advance dt => exact fun y hy => h y hy
  | setting v => exact fun y hy => h y hy

theorem invOn_step {c : Cfg} (s : St) (op : Op) (h : InvOn c s) : InvOn c (step c s op) := by
  unfold step
  exact invOn_fireAll _ (invOn_doOp _ op (fun y hy => h y hy))

theorem invOn_run {c : Cfg} (ops : List Op) : ∀ s, InvOn c s → InvOn c (run c s ops) := by
  induction ops with
  | nil => intro s h; exact h
  | cons op rest ih => intro s h; exact ih _ (invOn_step s op h)

theorem invOn_init (c : Cfg) : InvOn c init := by
  intro y hy; simp [init] at hy

end MpfVerif.Rules
