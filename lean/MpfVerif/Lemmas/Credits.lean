import MpfVerif.Model.Credits
/-! Helper lemmas for C20: the bounds invariant and the ledger are preserved by every building block of the model. -/
namespace MpfVerif.Credits

/-- 0 ≤ balance ≤ max_credits · units per game (no upper bound when max_credits is 0) -/
def Inv (c : Cfg) (s : St) : Prop := 0 ≤ s.units ∧ (maxUnits c ≠ 0 → s.units ≤ maxUnits c)

/-- the ghost ledger balances, and nothing but the cap, an expiration or a reset removes units un-played -/
def Ledger (s : St) : Prop :=
  s.units = s.inUnits + s.bonus + s.granted - s.deducted - s.lost ∧ 0 ≤ s.lost

theorem maxUnits_nonneg (c : Cfg) : 0 ≤ maxUnits c := by unfold maxUnits; omega

theorem table_nonneg_of_wf (c : Cfg) (h : WF c = true) (k : Nat) (hk : k ≤ wrap c) : 0 ≤ table c k := by
  simp only [WF, Bool.and_eq_true, tableNonneg, List.all_eq_true, List.mem_range, decide_eq_true_eq] at h
  exact h.2 k (by omega)

theorem wrap_pos_of_wf (c : Cfg) (h : WF c = true) : 0 < wrap c := by
  simp only [WF, Bool.and_eq_true, decide_eq_true_eq] at h
  exact h.1.2

theorem upg_pos_of_wf (c : Cfg) (h : WF c = true) : 0 < upg c := by
  simp only [WF, Bool.and_eq_true, decide_eq_true_eq] at h
  exact h.1.1.1.1.1.2

theorem tierLoop_nonneg (c : Cfg) (h : WF c = true) (n t : Nat) (b : Int) (ht : t < wrap c) (hb : 0 ≤ b) :
    0 ≤ (tierLoop c n t b).2 := by
  induction n generalizing t b with
  | zero => simpa [tierLoop] using hb
  | succ n ih =>
    rw [tierLoop]
    apply ih
    · exact Nat.mod_lt _ (wrap_pos_of_wf c h)
    · have := table_nonneg_of_wf c h (t + 1) (by omega); omega

theorem newUnits_bounds (prev total mx : Int) (hm : 0 ≤ mx) (h0 : 0 ≤ prev) (h1 : mx ≠ 0 → prev ≤ mx)
    (ht : prev ≤ total) : 0 ≤ newUnits prev total mx ∧ (mx ≠ 0 → newUnits prev total mx ≤ mx) ∧
      prev ≤ newUnits prev total mx ∧ newUnits prev total mx ≤ total := by
  unfold newUnits
  split <;> split <;> omega

/-- the bonus `_add_credit_units` is going to grant -/
def addBonus (c : Cfg) (s : St) (n : Nat) (tiering : Bool) : Int :=
  (if tiering then tierLoop c n (s.tier % wrap c) 0 else (s.tier % wrap c, 0)).2

theorem addBonus_nonneg (c : Cfg) (h : WF c = true) (s : St) (n : Nat) (tiering : Bool) :
    0 ≤ addBonus c s n tiering := by
  unfold addBonus
  cases tiering
  · simp
  · simp only [if_true]
    exact tierLoop_nonneg c h n _ 0 (Nat.mod_lt _ (wrap_pos_of_wf c h)) (Int.le_refl 0)

theorem addUnits_units (c : Cfg) (s : St) (n : Nat) (t : Bool) :
    (addUnits c s n t).units = newUnits s.units (n + s.units + addBonus c s n t) (maxUnits c) := rfl

theorem addUnits_inv (c : Cfg) (h : WF c = true) (s : St) (n : Nat) (t : Bool) (hs : Inv c s) :
    Inv c (addUnits c s n t) ∧ s.units ≤ (addUnits c s n t).units := by
  have hb := addBonus_nonneg c h s n t
  have := newUnits_bounds s.units (n + s.units + addBonus c s n t) (maxUnits c) (maxUnits_nonneg c) hs.1 hs.2 (by omega)
  rw [Inv, addUnits_units]
  exact ⟨⟨this.1, this.2.1⟩, this.2.2.1⟩

theorem addUnits_ledger (c : Cfg) (h : WF c = true) (s : St) (n : Nat) (t : Bool) (hs : Inv c s) (hl : Ledger s) :
    let s' := addUnits c s n t
    s'.units = s'.inUnits + s'.bonus + s'.granted - s'.deducted - s'.lost + n ∧ 0 ≤ s'.lost := by
  have hb := addBonus_nonneg c h s n t
  have := newUnits_bounds s.units (n + s.units + addBonus c s n t) (maxUnits c) (maxUnits_nonneg c) hs.1 hs.2 (by omega)
  obtain ⟨h1, h2⟩ := hl
  show newUnits s.units (n + s.units + addBonus c s n t) (maxUnits c) = s.inUnits + (s.bonus + addBonus c s n t) + s.granted
      - s.deducted - (s.lost + (n + s.units + addBonus c s n t - newUnits s.units (n + s.units + addBonus c s n t) (maxUnits c))) + n
      ∧ 0 ≤ s.lost + (n + s.units + addBonus c s n t - newUnits s.units (n + s.units + addBonus c s n t) (maxUnits c))
  omega

theorem emod_le_self (u d : Int) (hu : 0 ≤ u) (hd : 0 < d) : 0 ≤ u % d ∧ u % d ≤ u := by
  have h1 := Int.emod_nonneg u (b := d) (by omega)
  have h2 := Int.mul_ediv_add_emod u d
  have : 0 ≤ d * (u / d) := Int.mul_nonneg (by omega) (Int.ediv_nonneg hu (by omega))
  omega

theorem clearFrac_inv (c : Cfg) (h : WF c = true) (s : St) (hs : Inv c s) : Inv c (clearFrac c s) := by
  have := emod_le_self s.units (upg c) hs.1 (by have := upg_pos_of_wf c h; omega)
  show 0 ≤ s.units - s.units % (upg c : Int) ∧ (maxUnits c ≠ 0 → s.units - s.units % (upg c : Int) ≤ maxUnits c)
  have h2 := hs.2
  constructor
  · omega
  · intro hm; have := h2 hm; omega

theorem clearFrac_ledger (c : Cfg) (h : WF c = true) (s : St) (hs : Inv c s) (hl : Ledger s) : Ledger (clearFrac c s) := by
  have := emod_le_self s.units (upg c) hs.1 (by have := upg_pos_of_wf c h; omega)
  obtain ⟨h1, h2⟩ := hl
  show s.units - s.units % (upg c : Int) = s.inUnits + s.bonus + s.granted - s.deducted - (s.lost + s.units % (upg c : Int))
    ∧ 0 ≤ s.lost + s.units % (upg c : Int)
  omega

theorem clearAll_inv (c : Cfg) (s : St) : Inv c (clearAll s) := by
  show (0 : Int) ≤ 0 ∧ (maxUnits c ≠ 0 → (0 : Int) ≤ maxUnits c)
  exact ⟨Int.le_refl 0, fun _ => maxUnits_nonneg c⟩

theorem clearAll_ledger (c : Cfg) (s : St) (hs : Inv c s) (hl : Ledger s) : Ledger (clearAll s) := by
  obtain ⟨h1, h2⟩ := hl
  have := hs.1
  show (0 : Int) = s.inUnits + s.bonus + s.granted - s.deducted - (s.lost + s.units) ∧ 0 ≤ s.lost + s.units
  omega

theorem deductUnits_bounds (c : Cfg) (u : Int) (h : 0 ≤ u) : 0 ≤ deductUnits c u ∧ deductUnits c u ≤ u := by
  unfold deductUnits; split <;> omega

theorem playerAdded_inv (c : Cfg) (s : St) (hs : Inv c s) : Inv c (playerAdded c s) := by
  have := deductUnits_bounds c s.units hs.1
  have h2 := hs.2
  show 0 ≤ deductUnits c s.units ∧ (maxUnits c ≠ 0 → deductUnits c s.units ≤ maxUnits c)
  exact ⟨this.1, fun hm => by have := h2 hm; omega⟩

theorem playerAdded_ledger (c : Cfg) (s : St) (hl : Ledger s) : Ledger (playerAdded c s) := by
  obtain ⟨h1, h2⟩ := hl
  show deductUnits c s.units = s.inUnits + s.bonus + s.granted - (s.deducted + (s.units - deductUnits c s.units)) - s.lost
    ∧ 0 ≤ s.lost
  omega

end MpfVerif.Credits

namespace MpfVerif.Credits

def Good (c : Cfg) (s : St) : Prop := Inv c s ∧ Ledger s

theorem Inv_congr {c : Cfg} {s s' : St} (h : s'.units = s.units) (hs : Inv c s) : Inv c s' := by
  unfold Inv at *; rw [h]; exact hs

theorem Ledger_congr {s s' : St} (h1 : s'.units = s.units) (h2 : s'.inUnits = s.inUnits) (h3 : s'.bonus = s.bonus)
    (h4 : s'.granted = s.granted) (h5 : s'.deducted = s.deducted) (h6 : s'.lost = s.lost) (hs : Ledger s) : Ledger s' := by
  unfold Ledger at *; rw [h1, h2, h3, h4, h5, h6]; exact hs

theorem Good_congr {c : Cfg} {s s' : St} (h1 : s'.units = s.units) (h2 : s'.inUnits = s.inUnits) (h3 : s'.bonus = s.bonus)
    (h4 : s'.granted = s.granted) (h5 : s'.deducted = s.deducted) (h6 : s'.lost = s.lost) (hs : Good c s) : Good c s' :=
  ⟨Inv_congr h1 hs.1, Ledger_congr h1 h2 h3 h4 h5 h6 hs.2⟩

theorem joinPlayer_good (c : Cfg) (s : St) (g : Game) (hs : Good c s) : Good c (joinPlayer c s g) := by
  unfold joinPlayer
  split
  · exact Good_congr rfl rfl rfl rfl rfl rfl hs
  · have hs' : Good c { s with game := some g } := Good_congr rfl rfl rfl rfl rfl rfl hs
    exact ⟨playerAdded_inv c _ hs'.1, playerAdded_ledger c _ hs'.2⟩

theorem ballStarting_good (c : Cfg) (s : St) (p b : Nat) (hs : Good c s) : Good c (ballStarting s p b) := by
  unfold ballStarting
  split
  · exact Good_congr rfl rfl rfl rfl rfl rfl hs
  · exact hs

theorem gameStarted_good (c : Cfg) (s : St) (hs : Good c s) : Good c (gameStarted s) := by
  unfold gameStarted
  split
  · exact hs
  · exact Good_congr rfl rfl rfl rfl rfl rfl hs

theorem gameOver_good (c : Cfg) (s : St) (hs : Good c s) : Good c (gameOver c s) := by
  unfold gameOver
  split <;> exact Good_congr rfl rfl rfl rfl rfl rfl hs

theorem clearAll_good (c : Cfg) (s : St) (hs : Good c s) : Good c (clearAll s) :=
  ⟨clearAll_inv c s, clearAll_ledger c s hs.1 hs.2⟩

theorem clearFrac_good (c : Cfg) (h : WF c = true) (s : St) (hs : Good c s) : Good c (clearFrac c s) :=
  ⟨clearFrac_inv c h s hs.1, clearFrac_ledger c h s hs.1 hs.2⟩

theorem enableCredit_good (c : Cfg) (s : St) (hs : Good c s) : Good c (enableCredit c s) :=
  Good_congr rfl rfl rfl rfl rfl rfl hs

theorem enableFree_good (c : Cfg) (s : St) (hs : Good c s) : Good c (enableFree c s) :=
  Good_congr rfl rfl rfl rfl rfl rfl hs

theorem togglePlay_good (c : Cfg) (s : St) (hs : Good c s) : Good c (togglePlay c s) := by
  unfold togglePlay
  split
  · exact enableCredit_good c s hs
  · exact enableFree_good c s hs

theorem boot_good (c : Cfg) (s : St) (hs : Good c s) : Good c (boot c s) := by
  unfold boot
  split
  · exact Good_congr rfl rfl rfl rfl rfl rfl (enableFree_good c s hs)
  · exact Good_congr rfl rfl rfl rfl rfl rfl (enableCredit_good c s hs)

/-- a power cycle keeps the balance or drops it (the drop is booked as lost) -/
theorem reboot_good (c : Cfg) (s : St) (off : Nat) (hs : Good c s) : Good c (reboot c s off) := by
  unfold reboot
  apply boot_good
  obtain ⟨⟨h0, hm⟩, ⟨hl, hl0⟩⟩ := hs
  refine ⟨⟨?_, ?_⟩, ⟨?_, ?_⟩⟩
  · show (0 : Int) ≤ if _ then s.units else 0
    split <;> omega
  · intro hx
    show (if _ then s.units else (0 : Int)) ≤ maxUnits c
    have := hm hx
    have := maxUnits_nonneg c
    split <;> omega
  · show (if _ then s.units else (0 : Int)) = s.inUnits + s.bonus + s.granted - s.deducted - (s.lost + (s.units - if _ then s.units else (0 : Int)))
    split <;> omega
  · show 0 ≤ s.lost + (s.units - if _ then s.units else (0 : Int))
    split <;> omega

theorem notEnough_good (c : Cfg) (s : St) (hs : Good c s) : Good c (notEnough s) :=
  Good_congr rfl rfl rfl rfl rfl rfl hs

theorem coinHit_good (c : Cfg) (h : WF c = true) (s : St) (i : Nat) (hs : Good c s) : Good c (coinHit c s i) := by
    unfold coinHit
    split
    · exact hs
    · split
      · exact hs
      · rename_i v _
        have h1 := addUnits_inv c h s (v / creditUnit c) true hs.1
        have h2 := addUnits_ledger c h s (v / creditUnit c) true hs.1 hs.2
        refine ⟨Inv_congr rfl h1.1, ?_⟩
        simp only at h2
        show (addUnits c s (v / creditUnit c) true).units = ((addUnits c s (v / creditUnit c) true).inUnits + ((v / creditUnit c : Nat) : Int))
          + (addUnits c s (v / creditUnit c) true).bonus + (addUnits c s (v / creditUnit c) true).granted
          - (addUnits c s (v / creditUnit c) true).deducted - (addUnits c s (v / creditUnit c) true).lost ∧
          0 ≤ (addUnits c s (v / creditUnit c) true).lost
        omega

theorem act_good (c : Cfg) (h : WF c = true) (s : St) (op : Op) (hs : Good c s) : Good c (act c s op) := by
  cases op with
  | coin i => exact coinHit_good c h s i hs
  | coinToggle i => exact togglePlay_good c _ (coinHit_good c h s i hs)
  | reboot off => exact reboot_good c s off hs
  | service =>
    simp only [act]
    split
    · exact hs
    · have h1 := addUnits_inv c h s (upg c) false hs.1
      have h2 := addUnits_ledger c h s (upg c) false hs.1 hs.2
      refine ⟨Inv_congr rfl h1.1, ?_⟩
      simp only at h2
      show (addUnits c s (upg c) false).units = (addUnits c s (upg c) false).inUnits
          + (addUnits c s (upg c) false).bonus + ((addUnits c s (upg c) false).granted + (upg c : Int))
          - (addUnits c s (upg c) false).deducted - (addUnits c s (upg c) false).lost ∧
          0 ≤ (addUnits c s (upg c) false).lost
      omega
  | event j =>
    simp only [act]
    split
    · exact hs
    · split
      · exact hs
      · rename_i k _
        have h1 := addUnits_inv c h s (k * upg c) false hs.1
        have h2 := addUnits_ledger c h s (k * upg c) false hs.1 hs.2
        refine ⟨Inv_congr rfl h1.1, ?_⟩
        simp only at h2
        show (addUnits c s (k * upg c) false).units = (addUnits c s (k * upg c) false).inUnits
            + (addUnits c s (k * upg c) false).bonus + ((addUnits c s (k * upg c) false).granted + ((k * upg c : Nat) : Int))
            - (addUnits c s (k * upg c) false).deducted - (addUnits c s (k * upg c) false).lost ∧
            0 ≤ (addUnits c s (k * upg c) false).lost
        omega
  | start =>
    simp only [act]
    split
    · split
      · exact ballStarting_good c _ _ _ (joinPlayer_good c _ _ (gameStarted_good c s hs))
      · exact notEnough_good c s hs
    · split
      · split
        · exact joinPlayer_good c _ _ hs
        · exact notEnough_good c s hs
      · exact hs
  | drain =>
    simp only [act]
    split
    · exact hs
    · split
      · exact ballStarting_good c _ _ _ (Good_congr rfl rfl rfl rfl rfl rfl hs)
      · split
        · exact gameOver_good c s hs
        · exact ballStarting_good c _ _ _ (Good_congr rfl rfl rfl rfl rfl rfl hs)
  | endGame =>
    simp only [act]
    split
    · exact hs
    · exact gameOver_good c s hs
  | adv n => exact hs
  | fpOn => exact enableFree_good c s hs
  | fpOff => exact enableCredit_good c s hs
  | toggle => exact togglePlay_good c s hs
  | reset => exact clearAll_good c s hs
  | slam => exact clearAll_good c s hs
  | earnReset => exact Good_congr rfl rfl rfl rfl rfl rfl hs

theorem fireFrac_good (c : Cfg) (h : WF c = true) (s : St) (hs : Good c s) : Good c (fireFrac c s) := by
  unfold fireFrac
  split
  · split
    · exact Good_congr rfl rfl rfl rfl rfl rfl (clearFrac_good c h _ (Good_congr rfl rfl rfl rfl rfl rfl hs))
    · exact hs
  · exact hs

theorem fireAll_good (c : Cfg) (s : St) (hs : Good c s) : Good c (fireAll s) := by
  unfold fireAll
  split
  · split
    · exact Good_congr rfl rfl rfl rfl rfl rfl (clearAll_good c _ (Good_congr rfl rfl rfl rfl rfl rfl hs))
    · exact hs
  · exact hs

theorem tick_good (c : Cfg) (h : WF c = true) (s : St) (dt : Nat) (hs : Good c s) : Good c (tick c s dt) :=
  fireAll_good c _ (fireFrac_good c h _ (Good_congr rfl rfl rfl rfl rfl rfl hs))

theorem step_good (c : Cfg) (h : WF c = true) (s : St) (op : Op) (hs : Good c s) : Good c (step c s op) :=
  tick_good c h _ _ (act_good c h s op hs)

theorem run_good (c : Cfg) (h : WF c = true) (ops : List Op) (s : St) (hs : Good c s) : Good c (run c s ops) := by
  induction ops generalizing s with
  | nil => exact hs
  | cons op rest ih => exact ih _ (step_good c h s op hs)

theorem init_good (c : Cfg) : Good c (init c) :=
  boot_good c _ ⟨⟨Int.le_refl 0, fun _ => maxUnits_nonneg c⟩, ⟨rfl, Int.le_refl 0⟩⟩

end MpfVerif.Credits

namespace MpfVerif.Credits

theorem coinHit_game (c : Cfg) (s : St) (i : Nat) : (coinHit c s i).game = s.game := by
  unfold coinHit; split; rfl; split <;> rfl

theorem togglePlay_game (c : Cfg) (s : St) : (togglePlay c s).game = s.game := by
  unfold togglePlay; split <;> rfl

theorem boot_game (c : Cfg) (s : St) : (boot c s).game = s.game := by
  simp only [boot]; split <;> rfl

theorem boot_audit (c : Cfg) (s : St) : (boot c s).coinCount = s.coinCount ∧ (boot c s).earn = s.earn := by
  simp only [boot]; split <;> exact ⟨rfl, rfl⟩

theorem reboot_game (c : Cfg) (s : St) (off : Nat) : (reboot c s off).game = none := by
  unfold reboot; rw [boot_game]

/-- only the start button makes the number of players grow (a ball end, a game end and a power cycle can only end the
game; nothing else touches the player list) -/
theorem players_not_grow (c : Cfg) (s : St) (op : Op) (h1 : op ≠ .start) : players (act c s op) ≤ players s := by
  cases op with
  | start => exact absurd rfl h1
  | drain =>
    simp only [act]
    split
    · omega
    · rename_i g hg
      unfold ballStarting gameOver
      repeat' split
      all_goals simp [players, hg]
  | endGame =>
    simp only [act]
    split
    · omega
    · unfold gameOver; split <;> simp [players]
  | reboot off => simp [act, players, reboot_game]
  | coin i => simp [act, players, coinHit_game]
  | coinToggle i => simp [act, players, coinHit_game, togglePlay_game]
  | toggle => simp [act, players, togglePlay_game]
  | service =>
    have : (act c s .service).game = s.game := by simp only [act]; split <;> rfl
    simp [players, this]
  | event j =>
    have : (act c s (.event j)).game = s.game := by simp only [act]; split; rfl; split <;> rfl
    simp [players, this]
  | adv n => exact Nat.le_refl _
  | fpOn => exact Nat.le_refl _
  | fpOff => exact Nat.le_refl _
  | reset => exact Nat.le_refl _
  | slam => exact Nat.le_refl _
  | earnReset => exact Nat.le_refl _

end MpfVerif.Credits

namespace MpfVerif.Credits

/-- what the earnings audit has to record for one request: (coins, money) — a coin counts iff the machine is in
credit play (in free play the coin switches are not watched) -/
def accepted (c : Cfg) (s : St) : Op → Nat × Nat
  | .coin i => if s.freePlay then (0, 0) else match c.coins[i]? with | none => (0, 0) | some v => (1, v)
  | .coinToggle i => if s.freePlay then (0, 0) else match c.coins[i]? with | none => (0, 0) | some v => (1, v)
  | _ => (0, 0)

/-- coins and money accepted over a history -/
def coinsIn (c : Cfg) : St → List Op → Nat × Nat
  | _, [] => (0, 0)
  | s, op :: rest => ((accepted c s op).1 + (coinsIn c (step c s op) rest).1,
                      (accepted c s op).2 + (coinsIn c (step c s op) rest).2)

theorem tick_audit (c : Cfg) (s : St) (dt : Nat) :
    (tick c s dt).coinCount = s.coinCount ∧ (tick c s dt).earn = s.earn := by
  unfold tick fireAll fireFrac
  repeat' split
  all_goals exact ⟨rfl, rfl⟩

theorem act_audit (c : Cfg) (s : St) (op : Op) (h : op ≠ .earnReset) :
    (act c s op).coinCount = s.coinCount + (accepted c s op).1 ∧ (act c s op).earn = s.earn + (accepted c s op).2 := by
  cases op with
  | earnReset => exact absurd rfl h
  | coin i =>
    simp only [act, accepted, coinHit]
    cases hf : s.freePlay
    · cases hc : c.coins[i]? with
      | none => exact ⟨rfl, rfl⟩
      | some v => exact ⟨rfl, rfl⟩
    · exact ⟨rfl, rfl⟩
  | coinToggle i =>
    have ht : ∀ x : St, (togglePlay c x).coinCount = x.coinCount ∧ (togglePlay c x).earn = x.earn := by
      intro x; unfold togglePlay; split <;> exact ⟨rfl, rfl⟩
    simp only [act, accepted]
    rw [(ht _).1, (ht _).2]
    simp only [coinHit]
    cases hf : s.freePlay
    · cases hc : c.coins[i]? with
      | none => exact ⟨rfl, rfl⟩
      | some v => exact ⟨rfl, rfl⟩
    · exact ⟨rfl, rfl⟩
  | reboot off => simp only [act, accepted, reboot]; exact boot_audit c _
  | service => simp only [act, accepted]; split <;> exact ⟨rfl, rfl⟩
  | event j =>
    simp only [act, accepted]
    split
    · exact ⟨rfl, rfl⟩
    · split <;> exact ⟨rfl, rfl⟩
  | start =>
    simp only [act, accepted]
    unfold ballStarting joinPlayer gameStarted
    repeat' split
    all_goals exact ⟨rfl, rfl⟩
  | drain =>
    simp only [act, accepted]
    unfold ballStarting gameOver
    repeat' split
    all_goals exact ⟨rfl, rfl⟩
  | endGame =>
    simp only [act, accepted]
    unfold gameOver
    repeat' split
    all_goals exact ⟨rfl, rfl⟩
  | toggle => simp only [act, accepted, togglePlay]; split <;> exact ⟨rfl, rfl⟩
  | adv n => exact ⟨rfl, rfl⟩
  | fpOn => exact ⟨rfl, rfl⟩
  | fpOff => exact ⟨rfl, rfl⟩
  | reset => exact ⟨rfl, rfl⟩
  | slam => exact ⟨rfl, rfl⟩

end MpfVerif.Credits
