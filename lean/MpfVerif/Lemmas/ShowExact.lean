import MpfVerif.Lemmas.Show
/-! C17: the model's schedule is the exact rational one when the time unit is fine enough; the synchronised start. -/
namespace MpfVerif.Show

/-- index of the `k`-th scheduled step when the first one is `i` -/
def idxAt (total : Nat) : Nat → Nat → Nat
  | 0, i => i
  | k + 1, i => idxAt total k (nxt total i)

/-- sum of the (unscaled) durations of the first `k` scheduled steps from step `i` -/
def durSum (durs : List Nat) : Nat → Nat → Nat
  | 0, _ => 0
  | k + 1, i => durs.getD i 0 + durSum durs k (nxt durs.length i)

/-- the unit is fine enough for speed `num/den`: every `dur * den / num` is an integer -/
def Exact (durs : List Nat) (num den : Nat) : Prop := ∀ d ∈ durs, num ∣ d * den

theorem exactFor_iff (durs : List Nat) (num den : Nat) : exactFor durs num den = true ↔ Exact durs num den := by
  unfold exactFor Exact
  simp [List.all_eq_true, Nat.dvd_iff_mod_eq_zero]

theorem stepDur_exact (durs : List Nat) (num den i : Nat) (h : Exact durs num den) :
    stepDur durs num den i * num = durs.getD i 0 * den := by
  unfold stepDur
  apply Nat.div_mul_cancel
  by_cases hi : i < durs.length
  · apply h
    simp [List.getD, List.getElem?_eq_getElem hi]
  · simp [List.getD, List.getElem?_eq_none (Nat.le_of_not_lt hi)]

/-- the `k`-th entry of the schedule: step `idxAt k i` at a time `T` with `T * num = t * num + (Σ durations) * den`,
i.e. exactly `T = t + Σ durations / (num/den)` as a rational number — no rounding, for any speed -/
theorem sched_kth (durs : List Nat) (num den : Nat) (h : Exact durs num den) : ∀ (k n i t : Nat), k < n →
    ∃ T, (sched durs num den n i t)[k]? = some (Obs.eff (idxAt durs.length k i) T) ∧
      T * num = t * num + durSum durs k i * den := by
  intro k
  induction k with
  | zero =>
    intro n i t hk
    cases n with
    | zero => omega
    | succ n => exact ⟨t, rfl, by simp [durSum]⟩
  | succ k ih =>
    intro n i t hk
    cases n with
    | zero => omega
    | succ n =>
      obtain ⟨T, h1, h2⟩ := ih n (nxt durs.length i) (t + stepDur durs num den i) (by omega)
      refine ⟨T, by simpa [sched, idxAt] using h1, ?_⟩
      rw [h2, Nat.add_mul, stepDur_exact durs num den i h]
      simp only [durSum, Nat.add_mul]
      omega

/-- the synchronised start time is a multiple of `sync` -/
theorem syncTime_dvd (sync t : Nat) : sync ∣ syncTime sync t := by
  unfold syncTime
  refine ⟨t / sync + 1, ?_⟩
  have h := Nat.div_add_mod t sync
  have hm : t % sync ≤ t := Nat.mod_le t sync
  rw [Nat.mul_add, Nat.mul_one]
  omega

/-- … strictly after `t` and at most one period away -/
theorem syncTime_bounds (sync t : Nat) (hs : 0 < sync) : t < syncTime sync t ∧ syncTime sync t ≤ t + sync := by
  unfold syncTime
  have := Nat.mod_lt t hs
  have hm : t % sync ≤ t := Nat.mod_le t sync
  omega

/-- … and it is the least such multiple -/
theorem syncTime_least (sync t m : Nat) (hs : 0 < sync) (hd : sync ∣ m) (hm : t < m) : syncTime sync t ≤ m := by
  obtain ⟨c, rfl⟩ := hd
  have hq : t / sync < c := Nat.div_lt_of_lt_mul hm
  have h1 : sync * (t / sync + 1) ≤ sync * c := Nat.mul_le_mul_left _ hq
  have h := Nat.div_add_mod t sync
  have hmod : t % sync ≤ t := Nat.mod_le t sync
  unfold syncTime
  rw [Nat.mul_add, Nat.mul_one] at h1
  omega

end MpfVerif.Show
