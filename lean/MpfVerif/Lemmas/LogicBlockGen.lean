import MpfVerif.Model.LogicBlockGen
/-!
# The hand model of the logic-block methods does what the generated programs do (C18)
-/
set_option linter.unusedSimpArgs false
set_option linter.unusedVariables false
namespace MpfVerif.LogicBlock
open MpfVerif.Py MpfVerif.Gen.LogicBlockOps

theorem ticks_ms (n : Nat) : ((n : Int) * 125).toNat / 125 = n := by omega
theorem ms_truthy (n : Nat) : ((n : Int) * 125 != 0) = decide (n ≠ 0) := by
  by_cases h : n = 0
  · simp [h]
  · have : (n : Int) * 125 ≠ 0 := by omega
    simp [h, this]

theorem pyCmp_int (op : String) (a b : Int) : pyCmp op (.int a) (.int b) = .ok (cmpOp op (a * 1000000) (b * 1000000)) := rfl
theorem pyCmp_str_eq (a b : String) : pyCmp "==" (.str a) (.str b) = .ok (decide (a = b)) := by
  simp [pyCmp, PyVal.num, pure, Except.pure]
theorem cmp_ge (x y : Int) : cmpOp ">=" x y = decide (x ≥ y) := rfl
theorem cmp_le (x y : Int) : cmpOp "<=" x y = decide (x ≤ y) := rfl
theorem scale_le (a b : Int) : (a * 1000000 ≤ b * 1000000) = (a ≤ b) := by apply propext; omega
@[simp] theorem bool_beq_true (b : Bool) : (PyVal.bool b == PyVal.bool true) = b := by cases b <;> rfl

macro "lb_simp" : tactic => `(tactic|
  simp [genRun, callS, execSL, execSS, evalS, evalE, evalC, evalSArgs, argLocals, bindTarget, bind, Except.bind, pure,
    Except.pure, SCtx.at, sctx, sigma, applyEff, Eff.arg, List.lookup, intOf, ticksOf, msOf, PyVal.truthy, ticks_ms, ms_truthy,
    binop, asInt, upd, timerStart, pyCmp_int, pyCmp_str_eq, cmp_ge, cmp_le, scale_le, *])

theorem enable_gen (c : Cfg) (s : St) :
    genRun c s Gen.LogicBlockOps.enable [] = (LogicBlock.enable c s, false, false, some .none) := by
  by_cases h : c.timeout = 0 <;>
  simp [Gen.LogicBlockOps.enable, post_update_event, p_logic_block_timer_start, LogicBlock.enable] <;> lb_simp

theorem disable_gen (c : Cfg) (s : St) :
    genRun c s Gen.LogicBlockOps.disable [] = (LogicBlock.disable s, false, false, some .none) := by
  simp [Gen.LogicBlockOps.disable, post_update_event, LogicBlock.disable] <;> lb_simp

theorem reset_gen (c : Cfg) (s : St) (hk : c.kind = .counter) (hf : s.flags = []) :
    genRun c s Gen.LogicBlockOps.reset [] = (LogicBlock.reset c s, false, false, some .none) := by
  by_cases h : c.timeout = 0 <;>
  simp [Gen.LogicBlockOps.reset, get_start_value, post_update_event, p_logic_block_timer_start, LogicBlock.reset, startVal,
    startFlags, hk] <;> lb_simp

theorem restart_gen (c : Cfg) (s : St) (hk : c.kind = .counter) (hf : s.flags = []) :
    genRun c s Gen.LogicBlockOps.restart [] = (LogicBlock.restart c s, false, false, some .none) := by
  by_cases h : c.timeout = 0 <;>
  simp [Gen.LogicBlockOps.restart, Gen.LogicBlockOps.reset, Gen.LogicBlockOps.enable, get_start_value, post_update_event,
    p_logic_block_timer_start, LogicBlock.restart, LogicBlock.reset, LogicBlock.enable, startVal, startFlags, hk] <;> lb_simp

/-- `_logic_block_timeout` runs when the delay manager has already taken the `timeout` delay out: it is `fireT` -/
theorem timeout_gen (c : Cfg) (s : St) (hk : c.kind = .counter) (hf : s.flags = []) (hd : s.timeoutDue = some s.now) :
    genRun c { s with timeoutDue := none } p_logic_block_timeout [] = (LogicBlock.fireT c s, false, false, some .none) := by
  by_cases h : c.timeout = 0 <;>
  simp [p_logic_block_timeout, Gen.LogicBlockOps.reset, get_start_value, post_update_event, p_logic_block_timer_start,
    LogicBlock.fireT, LogicBlock.reset, startVal, startFlags, hk, hd] <;> lb_simp

/-- `stop_ignoring_hits` is the state change of `fireW` -/
theorem stop_ignoring_gen (c : Cfg) (s : St) (hd : s.windowUntil = some s.now) :
    genRun c s stop_ignoring_hits [] = (LogicBlock.fireW s, false, false, some .none) := by
  simp [stop_ignoring_hits, LogicBlock.fireW, hd] <;> lb_simp

theorem check_complete_gen (c : Cfg) (s : St) :
    genRun c s check_complete [] = ((s, []), false, false, some (.bool (goalReached c s.value))) := by
  cases hg : c.goal with
  | none => cases hd : c.down <;> simp [check_complete, goalReached, hg, hd] <;> lb_simp
  | some g =>
    cases hd : c.down
    · by_cases h : g ≤ s.value <;> simp [check_complete, goalReached, hg, hd, h] <;> lb_simp
    · by_cases h : s.value ≤ g <;> simp [check_complete, goalReached, hg, hd, h] <;> lb_simp

theorem complete_gen (c : Cfg) (s : St) (hk : c.kind = .counter) (hf : s.flags = []) :
    genRun c s Gen.LogicBlockOps.complete [] = (LogicBlock.complete c s, false, false, some .none) := by
  cases hc : s.completed <;> cases hr : c.resetOnComplete <;> cases hd : c.disableOnComplete <;> by_cases h : c.timeout = 0 <;>
  simp [Gen.LogicBlockOps.complete, Gen.LogicBlockOps.reset, Gen.LogicBlockOps.disable, get_start_value, post_update_event,
    p_logic_block_timer_start, LogicBlock.complete, afterComplete, LogicBlock.reset, LogicBlock.disable, startVal, startFlags,
    hk, hc, hr, hd] <;> lb_simp

macro "count_defs" : tactic => `(tactic|
  simp [Gen.LogicBlockOps.count, Gen.LogicBlockOps.complete, Gen.LogicBlockOps.reset, Gen.LogicBlockOps.disable, check_complete,
    p_post_hit_events, get_start_value, post_update_event, p_logic_block_timer_start, LogicBlock.count, LogicBlock.complete,
    afterComplete, LogicBlock.reset, LogicBlock.disable, startVal, startFlags, startWindow, goalReached, hitArgs, *])

theorem count_rejected_gen (c : Cfg) (s : St) (h : s.enabled = false ∨ s.windowUntil.isSome = true) :
    genRun c s Gen.LogicBlockOps.count [] = (LogicBlock.count c s, false, false, some .none) := by
  cases he : s.enabled
  · count_defs <;> lb_simp
  · have hw : s.windowUntil.isSome = true := by rcases h with h | h; simp [he] at h; exact h
    cases hg : c.goal <;> count_defs <;> lb_simp

theorem count_nogoal_gen (c : Cfg) (s : St) (he : s.enabled = true) (hw : s.windowUntil = none) (hg : c.goal = none) :
    genRun c s Gen.LogicBlockOps.count [] = (LogicBlock.count c s, false, false, some .none) := by
  by_cases h : c.window = 0 <;> count_defs <;> lb_simp

theorem count_notreached_gen (c : Cfg) (s : St) (g : Int) (he : s.enabled = true) (hw : s.windowUntil = none)
    (hg : c.goal = some g) (hn : goalReached c (s.value + hv c) = false) :
    genRun c s Gen.LogicBlockOps.count [] = (LogicBlock.count c s, false, false, some .none) := by
  cases hd : c.down <;> simp [goalReached, hg, hd] at hn
  · have hn' : ¬ (g ≤ s.value + hv c) := by omega
    by_cases h : c.window = 0 <;> count_defs <;> lb_simp
  · have hn' : ¬ (s.value + hv c ≤ g) := by omega
    by_cases h : c.window = 0 <;> count_defs <;> lb_simp

theorem count_reached_up_gen (c : Cfg) (s : St) (g : Int) (hk : c.kind = .counter) (hf : s.flags = []) (he : s.enabled = true)
    (hw : s.windowUntil = none) (hg : c.goal = some g) (hd : c.down = false) (hn : g ≤ s.value + hv c) :
    genRun c s Gen.LogicBlockOps.count [] = (LogicBlock.count c s, false, false, some .none) := by
  cases hc : s.completed <;> cases hr : c.resetOnComplete <;> cases hdc : c.disableOnComplete <;>
  by_cases h : c.timeout = 0 <;> by_cases h2 : c.window = 0 <;>
  count_defs <;> lb_simp

theorem count_reached_down_gen (c : Cfg) (s : St) (g : Int) (hk : c.kind = .counter) (hf : s.flags = []) (he : s.enabled = true)
    (hw : s.windowUntil = none) (hg : c.goal = some g) (hd : c.down = true) (hn : s.value + hv c ≤ g) :
    genRun c s Gen.LogicBlockOps.count [] = (LogicBlock.count c s, false, false, some .none) := by
  cases hc : s.completed <;> cases hr : c.resetOnComplete <;> cases hdc : c.disableOnComplete <;>
  by_cases h : c.timeout = 0 <;> by_cases h2 : c.window = 0 <;>
  count_defs <;> lb_simp

/-- `Counter.count()` as generated from the source = `count` of the hand model, in every state of a counter -/
theorem count_gen (c : Cfg) (s : St) (hk : c.kind = .counter) (hf : s.flags = []) :
    genRun c s Gen.LogicBlockOps.count [] = (LogicBlock.count c s, false, false, some .none) := by
  cases he : s.enabled
  · exact count_rejected_gen c s (Or.inl he)
  · cases hw : s.windowUntil with
    | some d => exact count_rejected_gen c s (Or.inr (by simp [hw]))
    | none =>
      cases hg : c.goal with
      | none => exact count_nogoal_gen c s he hw hg
      | some g =>
        cases hn : goalReached c (s.value + hv c)
        · exact count_notreached_gen c s g he hw hg hn
        · cases hd : c.down <;> simp [goalReached, hg, hd] at hn
          · exact count_reached_up_gen c s g hk hf he hw hg hd hn
          · exact count_reached_down_gen c s g hk hf he hw hg hd hn

/-- a counter never has accrual flags -/
theorem counter_step_flags (c : Cfg) (s : St) (op : Op) (hk : c.kind = .counter) (hf : s.flags = []) :
    (step c s op).1.flags = [] := by
  have hsf : startFlags c = [] := by simp [startFlags, hk]
  have hcomp : ∀ s : St, s.flags = [] → (LogicBlock.complete c s).1.flags = [] := by
    intro s hs
    unfold LogicBlock.complete afterComplete
    cases s.completed <;> cases c.resetOnComplete <;> cases c.disableOnComplete <;>
      simp [LogicBlock.reset, LogicBlock.disable, timerStart, hsf, hs] <;> (try split) <;> simp [hsf, hs]
  cases hl : s.loaded
  · cases op <;> simp [step, stepUnloaded, hl, hf, load, LogicBlock.enable, timerStart, hsf]
    cases c.startEnabled <;> simp <;> (try split) <;> simp [hsf]
  · cases op <;> simp [step, stepLoaded, hl, hk, hf, LogicBlock.enable, LogicBlock.disable, LogicBlock.reset, LogicBlock.restart,
      timerStart, hsf, LogicBlock.clock, LogicBlock.fireW, LogicBlock.fireT, unload] <;> (try split) <;> (try simp [hf, hsf])
    · unfold LogicBlock.count
      split; exact hf
      split; exact hf
      simp only [startWindow]
      split <;> split <;> first | exact hcomp _ hf | exact hf | (simp; first | exact hcomp _ hf | exact hf)
    · unfold adjust; simp only; split <;> first | exact hcomp _ hf | exact hf
    · unfold adjust; simp only; split <;> first | exact hcomp _ hf | exact hf
    · unfold adjust; simp only; split <;> first | exact hcomp _ hf | exact hf
    · split <;> rfl

end MpfVerif.LogicBlock
