import MpfVerif.Model.Config
import MpfVerif.Gen.SpecTable
import Mathlib.Algebra.Order.Round
import Mathlib.Tactic.Linarith
import Mathlib.Tactic.Positivity
import Mathlib.Tactic.NormNum
import Mathlib.Tactic.Ring
import Mathlib.Data.Rat.Floor
/-! Helper lemmas for C12. -/
namespace MpfVerif.C12
open MpfVerif.Config MpfVerif.Gen

def modelledValidators : List String :=
  ["int", "float", "num", "bool", "str", "lstr", "ms", "secs", "enum", "pow2", "bool_int",
   -- session 3 (Model/ConfigExt.lean)
   "machine", "subconfig", "dict", "list", "color", "color_or_token", "gain", "event_handler", "event_posted",
   "int_or_token", "ms_or_token", "secs_or_token", "float_or_token", "num_or_token", "bool_or_token", "template_bool",
   "template_float", "template_float_or_token", "template_int", "template_ms", "template_secs", "template_str",
   "boolean", "int_from_hex"]
/-- `ignore` is not a validator (the key is skipped); `kivycolor` (mpf-mc widgets) is answered `unmodelled` -/
def opaqueValidators : List String := ["ignore", "kivycolor"]

/-- branch j is shadowed by an earlier branch i if one of j's suffixes ends with one of i's -/
def noShadowAux : List TimeSuffix.Entry → List TimeSuffix.Entry → Bool
  | _, [] => true
  | earlier, e :: rest =>
    (earlier.all (fun p => p.suffixes.all (fun sp => e.suffixes.all (fun se => !(endsWith se.toList sp.toList))))) &&
    noShadowAux (earlier ++ [e]) rest

def noShadow (t : List TimeSuffix.Entry) : Bool := noShadowAux [] t

def RelErr (u : ℚ) (rnd : ℚ → ℚ) : Prop := ∀ x, |rnd x - x| ≤ u * |x|

theorem relerr_mul (rnd : ℚ → ℚ) (u : ℚ) (hu0 : 0 ≤ u) (hr : RelErr u rnd) (x t e U : ℚ) (hU : 0 ≤ U)
    (he0 : 0 ≤ e) (h : |x - t| ≤ e * |t|) : |rnd (x * U) - t * U| ≤ (u * (1 + e) + e) * |t * U| := by
  have h1 : |rnd (x * U) - x * U| ≤ u * |x * U| := hr _
  have h2 : |x * U - t * U| ≤ e * |t * U| := by
    have : x * U - t * U = (x - t) * U := by ring
    rw [this, abs_mul, abs_mul, abs_of_nonneg hU]
    calc |x - t| * U ≤ (e * |t|) * U := mul_le_mul_of_nonneg_right h hU
      _ = e * (|t| * U) := by ring
  have h3 : |x * U| ≤ (1 + e) * |t * U| := by
    have := abs_sub_abs_le_abs_sub (x * U) (t * U)
    nlinarith [abs_nonneg (t * U)]
  have e1 : rnd (x * U) - t * U = (rnd (x * U) - x * U) + (x * U - t * U) := by ring
  rw [e1]
  calc _ ≤ |rnd (x * U) - x * U| + |x * U - t * U| := abs_add_le _ _
    _ ≤ u * |x * U| + e * |t * U| := add_le_add h1 h2
    _ ≤ u * ((1 + e) * |t * U|) + e * |t * U| := by
        have := mul_le_mul_of_nonneg_left h3 hu0
        linarith
    _ = (u * (1 + e) + e) * |t * U| := by ring

theorem round_of_close (y : ℚ) (n : ℤ) (h : |y - n| < 1 / 2) : round y = n := by
  rw [round_eq, Int.floor_eq_iff]
  rw [abs_lt] at h
  constructor <;> push_cast <;> linarith [h.1, h.2]

theorem round_recovers1 (rnd : ℚ → ℚ) (hr : RelErr (1 / 2 ^ 53) rnd) (d U : ℚ) (n : ℤ)
    (hU : 0 ≤ U) (hn : d * U = n) (hb : |d * U| ≤ 2 ^ 49) : round (rnd (rnd d * U)) = n := by
  have hu0 : (0 : ℚ) ≤ 1 / 2 ^ 53 := by positivity
  have h0 : |rnd d - d| ≤ (1 / 2 ^ 53) * |d| := hr d
  have h1 := relerr_mul rnd _ hu0 hr (rnd d) d (1 / 2 ^ 53) U hU hu0 h0
  apply round_of_close
  rw [← hn]
  have hc : (1 / 2 ^ 53 * (1 + 1 / 2 ^ 53) + 1 / 2 ^ 53 : ℚ) ≤ 3 / 2 ^ 53 := by norm_num
  calc |rnd (rnd d * U) - d * U| ≤ (1 / 2 ^ 53 * (1 + 1 / 2 ^ 53) + 1 / 2 ^ 53) * |d * U| := h1
    _ ≤ (3 / 2 ^ 53) * 2 ^ 49 := mul_le_mul hc hb (abs_nonneg _) (by positivity)
    _ < 1 / 2 := by norm_num

theorem round_recovers2 (rnd : ℚ → ℚ) (hr : RelErr (1 / 2 ^ 53) rnd) (d U₁ U₂ : ℚ) (n : ℤ)
    (hU₁ : 0 ≤ U₁) (hU₂ : 0 ≤ U₂) (hn : d * U₁ * U₂ = n) (hb : |d * U₁ * U₂| ≤ 2 ^ 49) :
    round (rnd (rnd (rnd d * U₁) * U₂)) = n := by
  have hu0 : (0 : ℚ) ≤ 1 / 2 ^ 53 := by positivity
  have h0 : |rnd d - d| ≤ (1 / 2 ^ 53) * |d| := hr d
  have h1 := relerr_mul rnd _ hu0 hr (rnd d) d (1 / 2 ^ 53) U₁ hU₁ hu0 h0
  have he1 : (0 : ℚ) ≤ 1 / 2 ^ 53 * (1 + 1 / 2 ^ 53) + 1 / 2 ^ 53 := by positivity
  have h2 := relerr_mul rnd _ hu0 hr (rnd (rnd d * U₁)) (d * U₁) _ U₂ hU₂ he1 h1
  apply round_of_close
  rw [← hn]
  have hc : (1 / 2 ^ 53 * (1 + (1 / 2 ^ 53 * (1 + 1 / 2 ^ 53) + 1 / 2 ^ 53)) + (1 / 2 ^ 53 * (1 + 1 / 2 ^ 53) + 1 / 2 ^ 53) : ℚ)
      ≤ 7 / 2 ^ 54 := by norm_num
  calc |rnd (rnd (rnd d * U₁) * U₂) - d * U₁ * U₂| ≤ _ * |d * U₁ * U₂| := h2
    _ ≤ (7 / 2 ^ 54) * 2 ^ 49 := mul_le_mul hc hb (abs_nonneg _) (by positivity)
    _ < 1 / 2 := by norm_num

/-! ### validators return values of their declared type -/

theorem rangeCheck_ok (r : Option Range) (c : R) (out : Y) (h : rangeCheck r c = .ok out) :
    out = .none ∨ (c = .ok out ∧ inRange r out = true) := by
  unfold rangeCheck at h
  split at h
  · cases h; exact Or.inl rfl
  · split at h
    · cases h; exact Or.inr ⟨rfl, by assumption⟩
    · cases h
  · rename_i o h1 h2
    subst h
    exact absurd rfl (h2 out)

theorem intConv_int (x out : Y) (h : intConv x = .ok out) : out = .none ∨ ∃ i, out = .int i := by
  unfold intConv at h
  cases x <;> simp only [] at h
  case str s => cases hp : pyInt s <;> simp only [hp] at h <;> cases h; exact Or.inr ⟨_, rfl⟩
  all_goals (first | (cases h; first | exact Or.inl rfl | exact Or.inr ⟨_, rfl⟩) | cases h)

theorem floatOfP_kind (p : P Y) (out : Y) (h : floatOfP p = .ok out) :
    (∃ n d, out = .rat n d) ∨ out = .nan ∨ ∃ s, out = .inf s := by
  unfold floatOfP at h
  split at h <;> cases h
  · exact Or.inl ⟨_, _, rfl⟩
  · exact Or.inr (Or.inl rfl)
  · exact Or.inr (Or.inr ⟨_, rfl⟩)

theorem floatConv_kind (x out : Y) (h : floatConv x = .ok out) :
    out = .none ∨ (∃ n d, out = .rat n d) ∨ out = .nan ∨ ∃ s, out = .inf s := by
  unfold floatConv at h
  cases x <;> simp only [] at h
  case str s => exact Or.inr (floatOfP_kind _ _ h)
  all_goals (cases h)
  · exact Or.inl rfl
  · exact Or.inr (Or.inl ⟨_, _, rfl⟩)
  · exact Or.inr (Or.inl ⟨_, _, rfl⟩)
  · exact Or.inr (Or.inl ⟨_, _, rfl⟩)
  · exact Or.inr (Or.inr (Or.inl rfl))
  · exact Or.inr (Or.inr (Or.inr ⟨_, rfl⟩))

theorem nan_range (r : Option Range) (h : inRange r .nan = true) :
    (match r with | Option.none => true | some rr => rr.lo.isNone && rr.hi.isNone) = true := by
  cases r <;> simpa [inRange] using h

theorem vInt_typed (r : Option Range) (x out : Y) (h : vInt r x = .ok out) : HasType (.int r) out = true := by
  rcases rangeCheck_ok r _ out h with h1 | ⟨h1, h2⟩
  · subst h1; rfl
  · rcases intConv_int x out h1 with h3 | ⟨i, h3⟩ <;> subst h3
    · rfl
    · simpa [HasType] using h2

theorem vFloat_typed (r : Option Range) (x out : Y) (h : vFloat r x = .ok out) : HasType (.float r) out = true := by
  rcases rangeCheck_ok r _ out h with h1 | ⟨h1, h2⟩
  · subst h1; rfl
  · rcases floatConv_kind x out h1 with h3 | ⟨n, d, h3⟩ | h3 | ⟨s, h3⟩ <;> subst h3
    · rfl
    · simpa [HasType] using h2
    · cases r <;> simp_all [HasType, inRange]
    · simpa [HasType] using h2

theorem numConv_kind (x out : Y) (h : numConv x = .ok out) :
    out = .none ∨ (∃ i, out = .int i) ∨ (∃ b, out = .bool b) ∨ (∃ n d, out = .rat n d) ∨ out = .nan ∨ ∃ s, out = .inf s := by
  unfold numConv at h
  cases x <;> simp only [] at h
  case str s =>
    split at h
    · rcases floatOfP_kind _ _ h with h1 | h1 | h1
      · exact Or.inr (Or.inr (Or.inr (Or.inl h1)))
      · exact Or.inr (Or.inr (Or.inr (Or.inr (Or.inl h1))))
      · exact Or.inr (Or.inr (Or.inr (Or.inr (Or.inr h1))))
    · cases hp : pyInt s <;> simp only [hp] at h <;> cases h
      exact Or.inr (Or.inl ⟨_, rfl⟩)
  all_goals (cases h)
  · exact Or.inl rfl
  · exact Or.inr (Or.inr (Or.inl ⟨_, rfl⟩))
  · exact Or.inr (Or.inl ⟨_, rfl⟩)
  · exact Or.inr (Or.inr (Or.inr (Or.inl ⟨_, _, rfl⟩)))
  · exact Or.inr (Or.inr (Or.inr (Or.inr (Or.inl rfl))))
  · exact Or.inr (Or.inr (Or.inr (Or.inr (Or.inr ⟨_, rfl⟩))))

theorem vNum_typed (r : Option Range) (x out : Y) (h : vNum r x = .ok out) : HasType (.num r) out = true := by
  rcases rangeCheck_ok r _ out h with h1 | ⟨h1, h2⟩
  · subst h1; rfl
  · rcases numConv_kind x out h1 with h3 | ⟨i, h3⟩ | ⟨b, h3⟩ | ⟨n, d, h3⟩ | h3 | ⟨s, h3⟩ <;> subst h3 <;>
      first | rfl | simpa [HasType] using h2

theorem msOfUpper_int (tbl : List TimeSuffix.Entry) (u : List Char) (out : Y)
    (ht : ∀ e ∈ tbl, e.floatConv = true → e.outer = "round") (h : msOfUpper tbl u = .ok out) : ∃ i, out = .int i := by
  induction tbl with
  | nil =>
    unfold msOfUpper at h
    cases hp : pyInt (String.ofList u) <;> simp only [hp] at h <;> cases h
    exact ⟨_, rfl⟩
  | cons e rest ih =>
    unfold msOfUpper at h
    split at h
    · split at h
      · rename_i hf
        have ho : e.outer = "round" := ht e List.mem_cons_self hf
        cases hp : pyFloat (String.ofList (dropRight u e.slice)) <;> simp only [hp] at h
        · rename_i y
          cases y <;> simp only [] at h
          case rat n d =>
            simp only [ho, beq_self_eq_true, if_true] at h
            split at h <;> cases h
            exact ⟨_, rfl⟩
          all_goals (cases h)
        · cases h
        · cases h
      · cases hp : pyInt (String.ofList (dropRight u e.slice)) <;> simp only [hp] at h <;> cases h
        exact ⟨_, rfl⟩
    · exact ih (fun e he => ht e (List.mem_cons_of_mem _ he)) h

theorem table_rounds : ∀ e ∈ TimeSuffix.table, e.floatConv = true → e.outer = "round" := by decide

theorem vMs_typed (x out : Y) (h : vMs x = .ok out) : HasType .ms out = true := by
  unfold vMs at h
  cases x <;> simp only [stringToMs] at h
  case str s => obtain ⟨i, rfl⟩ := msOfUpper_int _ _ _ table_rounds h; rfl
  all_goals (cases h <;> rfl)

theorem vSecs_typed (x out : Y) (h : vSecs x = .ok out) : HasType .secs out = true := by
  unfold vSecs at h
  cases x <;> simp only [] at h
  case none => cases h; rfl
  all_goals
    (split at h
     · split at h
       · cases h; rfl
       · cases h
       · rename_i o _ h2
         exact absurd h (h2 out)
     · cases h)

theorem vBool_typed (x out : Y) (h : vBool x = .ok out) : out = .none ∨ ∃ b, out = .bool b := by
  unfold vBool at h
  cases x <;> simp only [] at h
  case str s =>
    split at h
    · cases h; exact Or.inr ⟨_, rfl⟩
    · split at h <;> cases h
      exact Or.inr ⟨_, rfl⟩
  all_goals (first | (cases h; first | exact Or.inl rfl | exact Or.inr ⟨_, rfl⟩) | cases h)

theorem vStr_typed (l : Bool) (x out : Y) (h : vStr l x = .ok out) : out = .none ∨ ∃ s, out = .str s := by
  unfold vStr at h
  cases x <;> simp only [] at h
  case none => cases h; exact Or.inl rfl
  all_goals (split at h <;> cases h; exact Or.inr ⟨_, rfl⟩)

theorem vEnum_typed (vals : List String) (x out : Y) (h : vEnum vals x = .ok out) :
    HasType (.enum vals) out = true := by
  unfold vEnum at h
  simp only [] at h
  repeat' split at h
  all_goals first
    | (cases h; done)
    | (cases h; first | rfl | simp_all [HasType])

theorem vBoolInt_typed (x out : Y) (h : vBoolInt x = .ok out) : HasType .boolInt out = true := by
  unfold vBoolInt at h
  split at h
  · cases h; rfl
  · cases h; rfl
  · rename_i o h1 h2
    rcases vBool_typed x out h with h3 | ⟨b, h3⟩
    · subst h3; exact absurd h (h2 _)
    · subst h3; exact absurd h (h2 _)

theorem validate_typed_aux (vd : V) (item out : Y) (hp : ∀ (_ : vd = .pow2), False)
    (h : validateItem vd item = .ok out) : HasType vd out = true := by
  unfold validateItem at h
  cases vd <;> simp only [] at h
  case int r => exact vInt_typed r _ _ h
  case float r => exact vFloat_typed r _ _ h
  case num r => exact vNum_typed r _ _ h
  case bool => rcases vBool_typed _ _ h with h1 | ⟨b, h1⟩ <;> subst h1 <;> rfl
  case str => rcases vStr_typed _ _ _ h with h1 | ⟨s, h1⟩ <;> subst h1 <;> rfl
  case lstr => rcases vStr_typed _ _ _ h with h1 | ⟨s, h1⟩ <;> subst h1 <;> rfl
  case ms => exact vMs_typed _ _ h
  case secs => exact vSecs_typed _ _ h
  case enum vals => exact vEnum_typed vals _ _ h
  case pow2 => exact absurd rfl (fun h => hp h)
  case boolInt => exact vBoolInt_typed _ _ h

/-! ### lists and dicts -/

theorem validateElems_typed (chk : Bool) (vd : V) (hp : ∀ (_ : vd = .pow2), False) (ys : List Y) (out : Item)
    (h : validateElems chk vd ys = .ok out) :
    ∃ vs, out = .list vs ∧ vs.length = ys.length ∧ ∀ v ∈ vs, HasType vd v = true := by
  induction ys generalizing out with
  | nil => simp [validateElems] at h; exact ⟨[], h.symm, rfl, by simp⟩
  | cons y rest ih =>
    unfold validateElems at h
    split at h
    · cases h
    · cases hv : validateItem vd y with
      | ok v =>
        simp only [hv] at h
        cases hr : validateElems chk vd rest with
        | ok o =>
          simp only [hr] at h
          obtain ⟨vs, rfl, hl, ht⟩ := ih o hr
          simp only [RI.ok.injEq] at h
          subst h
          refine ⟨v :: vs, rfl, by simp [hl], ?_⟩
          intro w hw
          rcases List.mem_cons.mp hw with rfl | hw
          · exact validate_typed_aux vd y w hp hv
          · exact ht w hw
        | reject => simp [hr] at h
        | raise => simp [hr] at h
        | unmodelled => simp [hr] at h
      | reject => simp [hv] at h
      | raise => simp [hv] at h
      | unmodelled => simp [hv] at h

theorem list_typed_aux (vd : V) (vvd : Option V) (brace : Bool) (item out : Item)
    (hp : ∀ (_ : vd = .pow2), False) (h : validateConfigItem .list vd vvd brace item = .ok out) :
    ∃ vs, out = .list vs ∧ ∀ v ∈ vs, HasType vd v = true := by
  unfold validateConfigItem at h
  simp only [] at h
  cases ht : toList brace item with
  | none => simp [ht] at h
  | some o =>
    cases o with
    | none => simp [ht] at h
    | some ys =>
      simp only [ht] at h
      obtain ⟨vs, rfl, _, hty⟩ := validateElems_typed true vd hp ys out h
      exact ⟨vs, rfl, hty⟩

theorem validateElems_length (chk : Bool) (vd : V) (ys : List Y) (out : Item) (h : validateElems chk vd ys = .ok out) :
    ∃ vs, out = .list vs ∧ vs.length = ys.length := by
  induction ys generalizing out with
  | nil => simp [validateElems] at h; exact ⟨[], h.symm, rfl⟩
  | cons y rest ih =>
    unfold validateElems at h
    split at h
    · cases h
    · cases hv : validateItem vd y with
      | ok v =>
        simp only [hv] at h
        cases hr : validateElems chk vd rest with
        | ok o =>
          simp only [hr] at h
          obtain ⟨vs, rfl, hl⟩ := ih o hr
          simp only [RI.ok.injEq] at h
          subst h
          exact ⟨v :: vs, rfl, by simp [hl]⟩
        | reject => simp [hr] at h
        | raise => simp [hr] at h
        | unmodelled => simp [hr] at h
      | reject => simp [hv] at h
      | raise => simp [hv] at h
      | unmodelled => simp [hv] at h

theorem list_length_aux (vd : V) (vvd : Option V) (brace : Bool) (ys : List Y) (out : Item)
    (h : validateConfigItem .list vd vvd brace (.list ys) = .ok out) : ∃ vs, out = .list vs ∧ vs.length = ys.length := by
  unfold validateConfigItem at h
  simp only [toList] at h
  exact validateElems_length true vd ys out h

theorem validatePairs_typed (kvd vvd : V) (hk : ∀ (_ : kvd = .pow2), False) (hv : ∀ (_ : vvd = .pow2), False)
    (kvs : List (Y × Y)) (out : Item) (h : validatePairs kvd vvd kvs = .ok out) :
    ∃ ps, out = .dict ps ∧ ∀ p ∈ ps, HasType kvd p.1 = true ∧ HasType vvd p.2 = true := by
  induction kvs generalizing out with
  | nil => simp [validatePairs] at h; exact ⟨[], h.symm, by simp⟩
  | cons kv rest ih =>
    obtain ⟨k, v⟩ := kv
    unfold validatePairs at h
    cases hkk : validateItem kvd k <;> cases hvv : validateItem vvd v <;> simp only [hkk, hvv] at h <;> try (cases h)
    rename_i k' v'
    cases hr : validatePairs kvd vvd rest with
    | ok o =>
      simp only [hr] at h
      obtain ⟨ps, rfl, hty⟩ := ih o hr
      simp only [] at h
      split at h
      · cases h
      · simp only [RI.ok.injEq] at h
        subst h
        refine ⟨(k', v') :: ps, rfl, ?_⟩
        intro p hpm
        rcases List.mem_cons.mp hpm with rfl | hpm
        · exact ⟨validate_typed_aux kvd k k' hk hkk, validate_typed_aux vvd v v' hv hvv⟩
        · exact hty p hpm
    | reject => simp [hr] at h
    | raise => simp [hr] at h
    | unmodelled => simp [hr] at h

theorem dict_typed_aux (kvd vvd : V) (brace : Bool) (item out : Item)
    (hk : ∀ (_ : kvd = .pow2), False) (hv : ∀ (_ : vvd = .pow2), False)
    (h : validateConfigItem .dict kvd (some vvd) brace item = .ok out) :
    ∃ kvs, out = .dict kvs ∧ ∀ p ∈ kvs, HasType kvd p.1 = true ∧ HasType vvd p.2 = true := by
  unfold validateConfigItem at h
  simp only [] at h
  cases item with
  | scalar y =>
    cases y <;> simp only [] at h <;> try (cases h)
    · exact ⟨[], rfl, by simp⟩
    · split at h
      · cases h; exact ⟨[], rfl, by simp⟩
      · cases h
  | list ys => cases h
  | dict kvs => exact validatePairs_typed kvd vvd hk hv kvs out h

end MpfVerif.C12
