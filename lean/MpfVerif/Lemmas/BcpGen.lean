import MpfVerif.Model.BcpGen
import MpfVerif.Lemmas.Bcp
/-! The table-driven encoder / decoder (`Model/BcpGen.lean`, tables regenerated from the source) ARE the hand model's. -/
namespace MpfVerif.Bcp
open MpfVerif.Gen

theorem quoteWith_nil (l : Bytes) : quoteWith [] l = quote l := by
  induction l with
  | nil => rfl
  | cons b r ih => simp [quoteWith, quote, ih]

theorem encodeValueT_eq (v : Val) : encodeValueT v = encodeValue v := by
  cases v with
  | bool b => cases b <;> rfl
  | none => rfl
  | str s => simp [encodeValueT, BcpTables.encChain, BcpTables.quoteSafeValue, encodeBy, Val.isInstance, Val.pyStr, quoteWith_nil, encodeValue]
  | int i => simp [encodeValueT, BcpTables.encChain, BcpTables.quoteSafeValue, encodeBy, Val.isInstance, Val.pyStr, quoteWith_nil, encodeValue, pInt]
  | flt t => simp [encodeValueT, BcpTables.encChain, BcpTables.quoteSafeValue, encodeBy, Val.isInstance, Val.pyStr, quoteWith_nil, encodeValue, pFloat]

theorem encodePairT_eq (kv : Bytes × Val) : encodePairT kv = some (encodePair kv ++ [38]) := by
  simp [encodePairT, BcpTables.pairFormat, BcpTables.quoteSafeKey, quoteWith_nil, encodeValueT_eq, encodePair]

theorem concatOpt_some (l : List Bytes) : concatOpt (l.map some) = some l.flatten := by
  induction l with
  | nil => rfl
  | cons x r ih => simp [concatOpt, ih]

theorem flatten_amp (ps : List Bytes) :
    (ps.map (· ++ [38])).flatten = if ps.isEmpty then [] else joinAmp ps ++ [38] := by
  induction ps with
  | nil => rfl
  | cons x r ih =>
    cases r with
    | nil => simp [joinAmp]
    | cons y r' =>
      simp only [List.map_cons, List.flatten_cons, List.isEmpty_cons, Bool.false_eq_true, if_false] at ih ⊢
      rw [ih]; simp [joinAmp]

theorem joinAmp_isEmpty (kw : List (Bytes × Val)) (h : kw ≠ []) : (joinAmp (kw.map encodePair)).isEmpty = false := by
  cases kw with
  | nil => exact absurd rfl h
  | cons kv r =>
    obtain ⟨t, ht⟩ := joinAmp_cons (encodePair kv) (r.map encodePair)
    simp only [List.map_cons]
    rw [ht]
    unfold encodePair
    cases quote kv.1 <;> simp

theorem encodeFlatT_eq (cmd : Bytes) (kw : List (Bytes × Val)) : encodeFlatT cmd kw = some (encodeFlat cmd kw) := by
  unfold encodeFlatT encodeFlat
  have e : kw.map encodePairT = (kw.map (fun kv => encodePair kv ++ [38])).map some := by
    simp [encodePairT_eq]
  rw [e, concatOpt_some]
  have e2 : kw.map (fun kv => encodePair kv ++ [38]) = (kw.map encodePair).map (· ++ [38]) := by simp
  rw [e2, flatten_amp]
  cases kw with
  | nil => simp [BcpTables.trailingCut]
  | cons kv r =>
    have hne := joinAmp_isEmpty (kv :: r) (by simp)
    simp only [List.map_cons] at hne ⊢
    have hne' : joinAmp (encodePair kv :: List.map encodePair r) ≠ [] := by
      intro h; rw [h] at hne; simp at hne
    simp [BcpTables.trailingCut, hne']

theorem replace1_plus (l : Bytes) : replace1 ([43], [32]) l = some (plusToSpace l) := rfl

theorem decodeValueT_eq (raw : Bytes) : decodeValueT raw = decodeValue raw := by
  unfold decodeValueT decodeValue
  simp only [BcpTables.valueReplace, replace1_plus, BcpTables.decChain, decodeBy, decodeArm, pInt, pFloat, sBoolTrue,
    sBoolFalse, sNone]
  by_cases h1 : ([105, 110, 116, 58] : Bytes).isPrefixOf raw = true
  · simp [h1]
  · by_cases h2 : ([102, 108, 111, 97, 116, 58] : Bytes).isPrefixOf raw = true
    · simp [h1, h2]
    · by_cases h3 : toLower raw = [98, 111, 111, 108, 58, 116, 114, 117, 101]
      · simp [h1, h2, h3]
      · by_cases h4 : toLower raw = [98, 111, 111, 108, 58, 102, 97, 108, 115, 101]
        · simp [h1, h2, h4]
        · by_cases h5 : raw = [78, 111, 110, 101, 84, 121, 112, 101, 58]
          · subst h5; rfl
          · simp [h1, h2, h3, h4, h5]

theorem decodePairsT_eq (ps : List Bytes) (acc : List (Bytes × Val)) : decodePairsT 61 ps acc = decodePairs ps acc := by
  induction ps generalizing acc with
  | nil => rfl
  | cons p r ih =>
    unfold decodePairsT decodePairs
    simp only [BcpTables.nameReplace, replace1_plus, decodeValueT_eq, ih]
    split
    · rfl
    · split
      · rfl
      · cases decodeValue ((splitFirst 61 p).2.getD []) <;> rfl

theorem take_eq_iff_prefix (p l : Bytes) : (l.take p.length = p) ↔ p.isPrefixOf l = true := by
  rw [List.isPrefixOf_iff_prefix]
  constructor
  · intro h
    refine ⟨l.drop p.length, ?_⟩
    have := List.take_append_drop p.length l
    rw [h] at this; exact this
  · rintro ⟨t, rfl⟩; simp

theorem decodeT_eq (line : Bytes) : decodeT line = decode line := by
  unfold decodeT decode
  simp only [BcpTables.jsonTestLo, BcpTables.jsonTestHi, BcpTables.jsonTest, BcpTables.jsonDrop, BcpTables.splitSep,
    BcpTables.partSep, sepOf, List.drop_zero, Nat.sub_zero, decodePairsT_eq]
  have e := take_eq_iff_prefix sJsonEq ((splitFirst 63 line).2.getD [])
  have e' : (List.take 5 ((splitFirst 63 line).2.getD []) = [106, 115, 111, 110, 61]) ↔
      sJsonEq.isPrefixOf ((splitFirst 63 line).2.getD []) = true := e
  by_cases h : sJsonEq.isPrefixOf ((splitFirst 63 line).2.getD []) = true
  · simp [h, e'.mpr h]
  · have : ¬ (List.take 5 ((splitFirst 63 line).2.getD []) = [106, 115, 111, 110, 61]) := fun x => h (e'.mp x)
    simp only [h, this, if_false, Bool.false_eq_true]
    cases decodePairs (splitAll 38 ((splitFirst 63 line).2.getD [])) [] <;> rfl

theorem markerOfT_eq (line : Bytes) : markerOfT line = markerOf line := rfl

end MpfVerif.Bcp
