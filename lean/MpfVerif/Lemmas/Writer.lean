import MpfVerif.Model.Writer
/-! Invariants of the C15 writer model. -/
namespace MpfVerif.Writer

/-- `x` is the start-up content or a value that was handed to `save_all` -/
def Known (s : St) (x : Nat) : Prop := x = 0 ∨ x ∈ s.saved

/-- everything the thread can ever put on disk is a known value -/
def Safe (s : St) : Prop :=
  Known s s.disk ∧ Known s s.data ∧ Known s s.loc ∧ ∀ v, s.tmp = some v → Known s v

theorem safe_step (s : St) (o : Op) (h : Safe s) : Safe (step s o) := by
  obtain ⟨hd, hda, hl, ht⟩ := h
  cases o with
  | save d =>
    refine ⟨?_, ?_, ?_, ?_⟩
    · exact hd.imp id (List.mem_cons_of_mem _)
    · exact Or.inr List.mem_cons_self
    · exact hl.imp id (List.mem_cons_of_mem _)
    · intro v hv; exact (ht v hv).imp id (List.mem_cons_of_mem _)
  | shutdown => exact ⟨hd, hda, hl, ht⟩
  | crash => exact ⟨hd, hda, hl, ht⟩
  | step =>
    simp only [step, threadStep]
    cases hp : s.pc <;> simp only [Safe, Known] at * <;> (try exact ⟨hd, hda, hl, ht⟩)
    · exact ⟨hd, hda, hda, ht⟩
    · exact ⟨hd, hda, hl, by intro v hv; cases hv; exact hl⟩
    · refine ⟨?_, hda, hl, by intro v hv; cases hv⟩
      cases htm : s.tmp with
      | none => exact hd
      | some v => exact ht v htm
    · exact ⟨hd, hda, hda, ht⟩
    · exact ⟨hd, hda, hl, by intro v hv; cases hv; exact hl⟩
    · refine ⟨?_, hda, hl, by intro v hv; cases hv⟩
      cases htm : s.tmp with
      | none => exact hd
      | some v => exact ht v htm
  | fail =>
    simp only [step, failStep]
    cases hp : s.pc <;> simp only [Option.getD, Safe, Known] at * <;> (try exact ⟨hd, hda, hl, ht⟩)
    · exact ⟨hd, hda, hl, by intro v hv; cases hv⟩
    · exact ⟨hd, hda, hl, by intro v hv; cases hv⟩

theorem safe_run (ops : List Op) : ∀ s, Safe s → Safe (run s ops) := by
  induction ops with
  | nil => intro s h; exact h
  | cons o r ih => intro s h; exact ih _ (safe_step s o h)

/-- the values handed to `save_all` in an op sequence -/
def savesOf : List Op → List Nat
  | [] => []
  | .save d :: r => d :: savesOf r
  | _ :: r => savesOf r

theorem saved_step (s : St) (o : Op) (x : Nat) : x ∈ (step s o).saved ↔ x ∈ s.saved ∨ x ∈ savesOf [o] := by
  cases o with
  | save d => simp [step, savesOf]; exact Or.comm
  | shutdown => simp [step, savesOf]
  | crash => simp [step, savesOf]
  | step => simp only [step, threadStep, savesOf]; cases s.pc <;> simp
  | fail => simp only [step, failStep, savesOf]; cases s.pc <;> simp [Option.getD]

theorem savesOf_cons (o : Op) (r : List Op) : savesOf (o :: r) = savesOf [o] ++ savesOf r := by
  cases o <;> simp [savesOf]

theorem saved_run (ops : List Op) : ∀ (s : St) (x : Nat), x ∈ (run s ops).saved ↔ x ∈ s.saved ∨ x ∈ savesOf ops := by
  induction ops with
  | nil => intro s x; simp [run, savesOf]
  | cons o r ih =>
    intro s x
    simp only [run]
    rw [ih, saved_step, savesOf_cons o r]
    simp only [List.mem_append]
    exact or_assoc

/-! ## fault-free runs: nothing is lost -/

def Good (s : St) : Prop :=
  match s.pc with
  | .s0 | .chk | .wait | .slp | .fchk | .done => s.busy = false ∧ (s.dirty = false → s.disk = s.data)
  | .spin | .clr | .cpy | .fspin | .fclr | .fcpy => s.busy = false
  | .wr | .fwr => s.busy = true ∧ (s.dirty = false → s.loc = s.data)
  | .ren | .fren => s.busy = true ∧ s.tmp = some s.loc ∧ (s.dirty = false → s.loc = s.data)
  | .dead => False

theorem good_step (s : St) (o : Op) (hf : isFault o = false) (h : Good s) : Good (step s o) := by
  cases o with
  | fail => simp [isFault] at hf
  | crash => simp [isFault] at hf
  | save d =>
    unfold Good at h ⊢
    simp only [step]
    cases hp : s.pc <;> simp only [hp] at h ⊢ <;> simp_all
  | shutdown =>
    unfold Good at h ⊢
    simp only [step]
    cases hp : s.pc <;> simp only [hp] at h ⊢ <;> exact h
  | step =>
    unfold Good at h ⊢
    simp only [step, threadStep]
    cases hp : s.pc <;> simp only [hp] at h ⊢
    all_goals (try (cases hs : s.stop)) <;> (try (cases hd : s.dirty)) <;> (try (cases hb : s.busy)) <;> simp_all

theorem good_run (ops : List Op) : ∀ s, Good s → (∀ o ∈ ops, isFault o = false) → Good (run s ops) := by
  induction ops with
  | nil => intro s h _; exact h
  | cons o r ih =>
    intro s h hf
    exact ih _ (good_step s o (hf o List.mem_cons_self) h) (fun x hx => hf x (List.mem_cons_of_mem _ hx))

/-! ## runs with I/O errors (no crash): the busy flag is always released -/

def Sane (s : St) : Prop :=
  (match s.pc with
   | .wr | .fwr => s.busy = true
   | .ren | .fren => s.busy = true ∧ s.tmp = some s.loc
   | .dead => True
   | _ => s.busy = false) ∧
  (match s.pc with
   | .fchk | .fspin | .fclr | .fcpy | .fwr | .fren | .done | .dead => s.stop = true
   | _ => True)

theorem sane_step (s : St) (o : Op) (hc : o ≠ .crash) (h : Sane s) : Sane (step s o) := by
  cases o with
  | crash => exact absurd rfl hc
  | save d =>
    unfold Sane at h ⊢
    simp only [step]
    cases hp : s.pc <;> simp only [hp] at h ⊢ <;> exact h
  | shutdown =>
    unfold Sane at h ⊢
    simp only [step]
    cases hp : s.pc <;> simp only [hp] at h ⊢ <;> simp_all
  | step =>
    unfold Sane at h ⊢
    simp only [step, threadStep]
    cases hp : s.pc <;> simp only [hp] at h ⊢
    all_goals (try (cases hs : s.stop)) <;> (try (cases hd : s.dirty)) <;> (try (cases hb : s.busy)) <;> simp_all
  | fail =>
    unfold Sane at h ⊢
    simp only [step, failStep]
    cases hp : s.pc <;> simp only [hp, Option.getD] at h ⊢ <;> simp_all

theorem sane_run (ops : List Op) : ∀ s, Sane s → (∀ o ∈ ops, o ≠ .crash) → Sane (run s ops) := by
  induction ops with
  | nil => intro s h _; exact h
  | cons o r ih =>
    intro s h hf
    exact ih _ (sane_step s o (hf o List.mem_cons_self) h) (fun x hx => hf x (List.mem_cons_of_mem _ hx))

end MpfVerif.Writer
