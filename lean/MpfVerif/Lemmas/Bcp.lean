import MpfVerif.Model.Bcp
import Mathlib.Tactic.Ring
/-! Helper lemmas for C19 (percent-encoding, decimal text, splitting). -/
namespace MpfVerif.Bcp

theorem unhex_hexDigit (n : Nat) (h : n < 16) : unhex (hexDigit n) = some n := by
  unfold hexDigit unhex
  split <;> split <;> simp_all <;> omega

theorem safe_ne_percent (b : Nat) (h : isSafe b = true) : b ≠ 37 := by
  intro hb; subst hb; simp [isSafe] at h

theorem hexDigit_safe (n : Nat) (h : n < 16) : isSafe (hexDigit n) = true := by
  unfold hexDigit isSafe
  split <;> simp <;> omega

/-- every byte of a quoted string is an unreserved character or `%` -/
def QChar (b : Nat) : Prop := isSafe b = true ∨ b = 37

theorem quote_chars (bs : Bytes) (hb : ∀ b ∈ bs, b < 256) : ∀ c ∈ quote bs, QChar c := by
  induction bs with
  | nil => simp [quote]
  | cons b bs ih =>
    have hb' : ∀ x ∈ bs, x < 256 := fun x hx => hb x (List.mem_cons_of_mem _ hx)
    have hlt : b < 256 := hb b (List.mem_cons_self)
    intro c hc
    unfold quote at hc
    split at hc
    · rename_i hs
      rcases List.mem_cons.mp hc with h | h
      · subst h; exact Or.inl hs
      · exact ih hb' c h
    · simp only [List.mem_cons] at hc
      rcases hc with h | h | h | h
      · exact Or.inr h
      · subst h; exact Or.inl (hexDigit_safe _ (by omega))
      · subst h; exact Or.inl (hexDigit_safe _ (by omega))
      · exact ih hb' c h

theorem unquote_quote (bs : Bytes) (hb : ∀ b ∈ bs, b < 256) : unquote (quote bs) = bs := by
  unfold unquote
  induction bs with
  | nil => simp [quote, unq]
  | cons b bs ih =>
    have hb' : ∀ x ∈ bs, x < 256 := fun x hx => hb x (List.mem_cons_of_mem _ hx)
    have hlt : b < 256 := hb b (List.mem_cons_self)
    unfold quote
    split
    · rename_i hs
      have := safe_ne_percent b hs
      simp [unq, this, ih hb']
    · have h1 := unhex_hexDigit (b / 16) (by omega)
      have h2 := unhex_hexDigit (b % 16) (by omega)
      simp [unq, h1, h2, ih hb']
      omega

theorem QChar_ne {c : Nat} (h : QChar c) : c ≠ 43 ∧ c ≠ 58 ∧ c ≠ 38 ∧ c ≠ 61 ∧ c ≠ 63 ∧ c ≠ 10 := by
  rcases h with h | h
  · simp [isSafe] at h; omega
  · omega

theorem plusToSpace_id (l : Bytes) (h : ∀ c ∈ l, c ≠ 43) : plusToSpace l = l := by
  unfold plusToSpace
  induction l with
  | nil => rfl
  | cons b r ih =>
    have hb : b ≠ 43 := h b List.mem_cons_self
    simp only [List.map_cons, hb, if_false]
    rw [ih (fun a ha => h a (List.mem_cons_of_mem _ ha))]

/-- `unquote` passes a `%`-free prefix through -/
theorem unq_idle_append (a b : Bytes) (h : ∀ c ∈ a, c ≠ 37) : unq .idle (a ++ b) = a ++ unq .idle b := by
  induction a with
  | nil => rfl
  | cons x xs ih =>
    have hx : x ≠ 37 := h x List.mem_cons_self
    simp [unq, hx]
    exact ih (fun c hc => h c (List.mem_cons_of_mem _ hc))

/-! ### decimal text -/

/-- value of a big-endian digit string (no validity check) -/
def valBE (l : Bytes) : Nat := l.foldl (fun a b => a * 10 + (b - 48)) 0

theorem foldl_valBE (l : Bytes) (a : Nat) :
    l.foldl (fun a b => a * 10 + (b - 48)) a = a * 10 ^ l.length + valBE l := by
  unfold valBE
  induction l generalizing a with
  | nil => simp
  | cons x xs ih =>
    simp only [List.foldl_cons, List.length_cons]
    rw [ih, ih (0 * 10 + (x - 48))]
    ring

theorem valBE_cons (x : Nat) (l : Bytes) : valBE (x :: l) = (x - 48) * 10 ^ l.length + valBE l := by
  unfold valBE
  simp only [List.foldl_cons]
  rw [foldl_valBE]
  simp [valBE]

theorem digitsVal_eq (l : Bytes) (h : ∀ b ∈ l, isDigit b = true) (a : Nat) :
    digitsVal a l = some (a * 10 ^ l.length + valBE l) := by
  induction l generalizing a with
  | nil => simp [digitsVal, valBE]
  | cons x xs ih =>
    have hx := h x List.mem_cons_self
    simp only [digitsVal, hx, if_true]
    rw [ih (fun b hb => h b (List.mem_cons_of_mem _ hb)), valBE_cons]
    simp only [List.length_cons]
    congr 1
    ring

theorem natDigitsAux_digits (fuel n : Nat) (acc : Bytes) (hf : n < fuel) (ha : ∀ b ∈ acc, isDigit b = true) :
    ∀ b ∈ natDigitsAux fuel n acc, isDigit b = true := by
  induction fuel generalizing n acc with
  | zero => omega
  | succ f ih =>
    unfold natDigitsAux
    split
    · intro b hb
      rcases List.mem_cons.mp hb with h | h
      · subst h; simp [isDigit]; omega
      · exact ha b h
    · apply ih
      · omega
      · intro b hb
        rcases List.mem_cons.mp hb with h | h
        · subst h; simp [isDigit]; omega
        · exact ha b h

theorem natDigitsAux_val (fuel n : Nat) (acc : Bytes) (hf : n < fuel) :
    valBE (natDigitsAux fuel n acc) = n * 10 ^ acc.length + valBE acc := by
  induction fuel generalizing n acc with
  | zero => omega
  | succ f ih =>
    unfold natDigitsAux
    split
    · rw [valBE_cons]; simp
    · rw [ih (n / 10) _ (by omega), valBE_cons]
      simp only [List.length_cons]
      have h : n = 10 * (n / 10) + n % 10 := by omega
      generalize n / 10 = q at *
      generalize n % 10 = r at *
      subst h
      have : 48 + r - 48 = r := by omega
      rw [this]
      ring

theorem natText_digits (n : Nat) : ∀ b ∈ natText n, isDigit b = true :=
  natDigitsAux_digits (n + 1) n [] (by omega) (by simp)

theorem digitsVal_natText (n : Nat) : digitsVal 0 (natText n) = some n := by
  rw [digitsVal_eq _ (natText_digits n)]
  unfold natText
  rw [natDigitsAux_val _ _ _ (by omega)]
  simp [valBE]

theorem natDigitsAux_ne_nil (fuel n : Nat) (acc : Bytes) (h : 0 < fuel ∨ acc ≠ []) :
    natDigitsAux fuel n acc ≠ [] := by
  induction fuel generalizing n acc with
  | zero => rcases h with h | h; · omega
            · simpa [natDigitsAux] using h
  | succ f ih =>
    unfold natDigitsAux
    split
    · simp
    · exact ih _ _ (Or.inr (by simp))

theorem natText_ne_nil (n : Nat) : natText n ≠ [] := natDigitsAux_ne_nil _ _ _ (Or.inl (by omega))

theorem dropSpaces_id (l : Bytes) (h : ∀ b ∈ l, isSpace b = false) : dropSpaces l = l := by
  cases l with
  | nil => rfl
  | cons b r => simp [dropSpaces, h b List.mem_cons_self]

theorem stripSpaces_id (l : Bytes) (h : ∀ b ∈ l, isSpace b = false) : stripSpaces l = l := by
  unfold stripSpaces
  rw [dropSpaces_id l h, dropSpaces_id l.reverse (fun b hb => h b (List.mem_reverse.mp hb))]
  simp

theorem digit_not_space (b : Nat) (h : isDigit b = true) : isSpace b = false := by
  simp [isDigit, isSpace] at *; omega

theorem parseInt_intText (i : Int) : parseInt (intText i) = some i := by
  cases i with
  | ofNat n =>
    have hd := natText_digits n
    have hne := natText_ne_nil n
    simp only [intText]
    unfold parseInt
    rw [stripSpaces_id _ (fun b hb => digit_not_space b (hd b hb))]
    cases hx : natText n with
    | nil => exact absurd hx hne
    | cons c r =>
      have hc : isDigit c = true := hd c (by rw [hx]; exact List.mem_cons_self)
      have h1 : c ≠ 45 := by simp [isDigit] at hc; omega
      have h2 : c ≠ 43 := by simp [isDigit] at hc; omega
      simp only [h1, h2, if_false]
      rw [← hx, digitsVal_natText]
      rfl
  | negSucc n =>
    have hd := natText_digits (n + 1)
    have hne := natText_ne_nil (n + 1)
    simp only [intText]
    unfold parseInt
    rw [stripSpaces_id]
    · have : (natText (n + 1)).isEmpty = false := by
        cases hx : natText (n + 1) with
        | nil => exact absurd hx hne
        | cons c r => rfl
      simp only [this, if_true, digitsVal_natText, Option.map]
      rfl
    · intro b hb
      rcases List.mem_cons.mp hb with h | h
      · subst h; rfl
      · exact digit_not_space b (hd b h)

/-! ### values -/

def Val.WF : Val → Prop
  | .str s => ∀ b ∈ s, b < 256
  | .flt t => ∀ b ∈ t, b < 256
  | _ => True

theorem not_prefix_of_missing (p l : Bytes) (c : Nat) (hc : c ∈ p) (hl : c ∉ l) : p.isPrefixOf l = false := by
  cases h : p.isPrefixOf l with
  | false => rfl
  | true => exact absurd ((List.isPrefixOf_iff_prefix.mp h).subset hc) hl

theorem toLower_58 (l : Bytes) (h : 58 ∈ toLower l) : 58 ∈ l := by
  unfold toLower at h
  obtain ⟨c, hc, he⟩ := List.mem_map.mp h
  split at he
  · omega
  · subst he; exact hc

theorem intText_lt (i : Int) : ∀ b ∈ intText i, b < 256 := by
  intro b hb
  cases i with
  | ofNat n => have := natText_digits n b hb; simp [isDigit] at this; omega
  | negSucc n =>
    rcases List.mem_cons.mp hb with h | h
    · omega
    · have := natText_digits _ b h; simp [isDigit] at this; omega

theorem unquote_plus_quote (s : Bytes) (h : ∀ b ∈ s, b < 256) : unquote (plusToSpace (quote s)) = s := by
  rw [plusToSpace_id _ (fun c hc => (QChar_ne (quote_chars s h c hc)).1), unquote_quote s h]

theorem decodeValue_str (s : Bytes) (h : ∀ b ∈ s, b < 256) : decodeValue (quote s) = some (.str s) := by
  have h58 : 58 ∉ quote s := fun hc => (QChar_ne (quote_chars s h 58 hc)).2.1 rfl
  unfold decodeValue
  simp only [unquote_plus_quote s h]
  rw [not_prefix_of_missing pInt _ 58 (by decide) h58, not_prefix_of_missing pFloat _ 58 (by decide) h58]
  have h1 : toLower (quote s) ≠ sBoolTrue := fun he => h58 (toLower_58 _ (by rw [he]; decide))
  have h2 : toLower (quote s) ≠ sBoolFalse := fun he => h58 (toLower_58 _ (by rw [he]; decide))
  have h3 : quote s ≠ sNone := fun he => h58 (by rw [he]; decide)
  simp [h1, h2, h3]

theorem prefix_self_append (p l : Bytes) : p.isPrefixOf (p ++ l) = true :=
  List.isPrefixOf_iff_prefix.mpr (List.prefix_append p l)

theorem unquote_prefixed (p s : Bytes) (hp : ∀ c ∈ p, c ≠ 37 ∧ c ≠ 43) (h : ∀ b ∈ s, b < 256) :
    unquote (plusToSpace (p ++ quote s)) = p ++ s := by
  rw [plusToSpace_id]
  · unfold unquote
    rw [unq_idle_append _ _ (fun c hc => (hp c hc).1)]
    have := unquote_quote s h
    unfold unquote at this
    rw [this]
  · intro c hc
    rcases List.mem_append.mp hc with h1 | h1
    · exact (hp c h1).2
    · exact (QChar_ne (quote_chars s h c h1)).1

theorem decodeValue_encodeValue (v : Val) (h : v.WF) : decodeValue (encodeValue v) = some v := by
  cases v with
  | str s => exact decodeValue_str s h
  | int i =>
    unfold decodeValue encodeValue
    simp only [prefix_self_append, if_true]
    rw [unquote_prefixed pInt _ (by decide) (intText_lt i)]
    simp [pInt, parseInt_intText]
  | flt t =>
    unfold decodeValue encodeValue
    have : pInt.isPrefixOf (pFloat ++ quote t) = false := by simp [pInt, pFloat, List.isPrefixOf]
    simp only [this, prefix_self_append, if_true]
    rw [unquote_prefixed pFloat _ (by decide) h]
    simp [pFloat]
  | bool b => cases b <;> decide
  | none => decide

theorem encodeValue_chars (v : Val) (h : v.WF) : ∀ c ∈ encodeValue v, c ≠ 38 ∧ c ≠ 10 := by
  have q : ∀ s : Bytes, (∀ b ∈ s, b < 256) → ∀ c ∈ quote s, c ≠ 38 ∧ c ≠ 10 := fun s hs c hc =>
    ⟨(QChar_ne (quote_chars s hs c hc)).2.2.1, (QChar_ne (quote_chars s hs c hc)).2.2.2.2.2⟩
  intro c hc
  cases v with
  | str s => exact q s h c hc
  | int i =>
    rcases List.mem_append.mp hc with h1 | h1
    · exact (by decide : ∀ c ∈ pInt, c ≠ 38 ∧ c ≠ 10) c h1
    · exact q _ (intText_lt i) c h1
  | flt t =>
    rcases List.mem_append.mp hc with h1 | h1
    · exact (by decide : ∀ c ∈ pFloat, c ≠ 38 ∧ c ≠ 10) c h1
    · exact q _ h c h1
  | bool b =>
    cases b
    · exact (by decide : ∀ c ∈ encodeValue (.bool false), c ≠ 38 ∧ c ≠ 10) c hc
    · exact (by decide : ∀ c ∈ encodeValue (.bool true), c ≠ 38 ∧ c ≠ 10) c hc
  | none => exact (by decide : ∀ c ∈ encodeValue .none, c ≠ 38 ∧ c ≠ 10) c hc

/-! ### splitting -/

theorem splitFirst_append (sep : Nat) (a b : Bytes) (h : sep ∉ a) :
    splitFirst sep (a ++ sep :: b) = (a, some b) := by
  induction a with
  | nil => simp [splitFirst]
  | cons x xs ih =>
    have hx : x ≠ sep := fun he => h (by rw [he]; exact List.mem_cons_self)
    simp [splitFirst, hx, ih (fun hm => h (List.mem_cons_of_mem _ hm))]

theorem splitFirst_none (sep : Nat) (a : Bytes) (h : sep ∉ a) : splitFirst sep a = (a, none) := by
  induction a with
  | nil => simp [splitFirst]
  | cons x xs ih =>
    have hx : x ≠ sep := fun he => h (by rw [he]; exact List.mem_cons_self)
    simp [splitFirst, hx, ih (fun hm => h (List.mem_cons_of_mem _ hm))]

theorem splitAll_single (sep : Nat) (a : Bytes) (h : sep ∉ a) : splitAll sep a = [a] := by
  induction a with
  | nil => simp [splitAll]
  | cons x xs ih =>
    have hx : x ≠ sep := fun he => h (by rw [he]; exact List.mem_cons_self)
    simp [splitAll, hx, ih (fun hm => h (List.mem_cons_of_mem _ hm))]

theorem splitAll_append (sep : Nat) (a b : Bytes) (h : sep ∉ a) :
    splitAll sep (a ++ sep :: b) = a :: splitAll sep b := by
  induction a with
  | nil => simp [splitAll]
  | cons x xs ih =>
    have hx : x ≠ sep := fun he => h (by rw [he]; exact List.mem_cons_self)
    simp [splitAll, hx, ih (fun hm => h (List.mem_cons_of_mem _ hm))]

theorem splitAll_joinAmp (ps : List Bytes) (hne : ps ≠ []) (h : ∀ p ∈ ps, 38 ∉ p) :
    splitAll 38 (joinAmp ps) = ps := by
  induction ps with
  | nil => exact absurd rfl hne
  | cons x r ih =>
    cases r with
    | nil => simp [joinAmp, splitAll_single 38 x (h x List.mem_cons_self)]
    | cons y r' =>
      simp only [joinAmp]
      rw [splitAll_append 38 x _ (h x List.mem_cons_self), ih (by simp) (fun p hp => h p (List.mem_cons_of_mem _ hp))]

theorem joinAmp_cons (x : Bytes) (r : List Bytes) : ∃ t, joinAmp (x :: r) = x ++ t := by
  cases r with
  | nil => exact ⟨[], by simp [joinAmp]⟩
  | cons y r' => exact ⟨38 :: joinAmp (y :: r'), by simp [joinAmp]⟩

/-! ### parameter lists -/

def KwWF (kw : List (Bytes × Val)) : Prop :=
  (∀ kv ∈ kw, (∀ b ∈ kv.1, b < 256) ∧ kv.2.WF) ∧ (kw.map (·.1)).Nodup

theorem encodePair_no_amp (kv : Bytes × Val) (hk : ∀ b ∈ kv.1, b < 256) (hv : kv.2.WF) : 38 ∉ encodePair kv := by
  intro hm
  unfold encodePair at hm
  rcases List.mem_append.mp hm with h | h
  · exact (QChar_ne (quote_chars _ hk 38 h)).2.2.1 rfl
  · rcases List.mem_cons.mp h with h | h
    · omega
    · exact (encodeValue_chars _ hv 38 h).1 rfl

theorem hasKey_false_iff (k : Bytes) (acc : List (Bytes × Val)) : hasKey k acc = false ↔ ∀ kv ∈ acc, kv.1 ≠ k := by
  induction acc with
  | nil => simp [hasKey]
  | cons a r ih =>
    obtain ⟨k', v'⟩ := a
    simp only [hasKey, Bool.or_eq_false_iff, ih, List.mem_cons, forall_eq_or_imp, decide_eq_false_iff_not]
    constructor
    · rintro ⟨h1, h2⟩; exact ⟨fun h => h1 h.symm, h2⟩
    · rintro ⟨h1, h2⟩; exact ⟨fun h => h1 h.symm, h2⟩

theorem decodePairs_encode (kw acc : List (Bytes × Val)) (hwf : KwWF kw)
    (hacc : ∀ kv ∈ kw, hasKey kv.1 acc = false) :
    decodePairs (kw.map encodePair) acc = some (acc.reverse ++ kw) := by
  induction kw generalizing acc with
  | nil => simp [decodePairs]
  | cons kv r ih =>
    obtain ⟨k, v⟩ := kv
    obtain ⟨hall, hnd⟩ := hwf
    have hk : ∀ b ∈ k, b < 256 := (hall (k, v) List.mem_cons_self).1
    have hv : v.WF := (hall (k, v) List.mem_cons_self).2
    have h61 : 61 ∉ quote k := fun hc => (QChar_ne (quote_chars k hk 61 hc)).2.2.2.1 rfl
    simp only [List.map_cons, decodePairs]
    have hne : (encodePair (k, v)).isEmpty = false := by
      unfold encodePair; cases quote k <;> simp
    simp only [hne]
    have hs : splitFirst 61 (encodePair (k, v)) = (quote k, some (encodeValue v)) := by
      unfold encodePair; exact splitFirst_append 61 _ _ h61
    simp only [hs, unquote_plus_quote k hk, hacc (k, v) List.mem_cons_self, Option.getD_some,
      decodeValue_encodeValue v hv]
    simp only [List.map_cons, List.nodup_cons] at hnd
    have := ih ((k, v) :: acc) ⟨fun kv hkv => hall kv (List.mem_cons_of_mem _ hkv), hnd.2⟩ (by
      intro kv hkv
      rw [hasKey_false_iff]
      intro kv' hkv'
      rcases List.mem_cons.mp hkv' with h | h
      · subst h
        intro he
        exact hnd.1 (List.mem_map.mpr ⟨kv, hkv, he.symm⟩)
      · exact (hasKey_false_iff _ _).mp (hacc kv (List.mem_cons_of_mem _ hkv)) kv' h)
    simpa using this

end MpfVerif.Bcp
