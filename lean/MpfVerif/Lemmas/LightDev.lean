import MpfVerif.Lemmas.LightHw
/-! C09: the whole light device of the model (`DSt`: the stack with its suppression shortcuts, brightness factor, colour
correction table, channel mapping and the fade channels) under arbitrary histories: every channel's latest `set_fade`
command is the *corrected* image of the last target that `_schedule_update` sent — the link between the (uncorrected)
`_last_fade_target` bookkeeping and what the hardware channels were told. -/
namespace MpfVerif.Light

/-- what one step of the light emits: nothing, and `_last_fade_target` is untouched — or exactly one target, which is the
new `_last_fade_target` -/
def Emits (s : LSt) (r : LSt × List Target) : Prop :=
  (r.2 = [] ∧ r.1.last = s.last) ∨ ∃ t, r.2 = [t] ∧ r.1.last = some t

theorem schedule_emits (s0 s : LSt) (h : s.last = s0.last) : Emits s0 (schedule s) := by
  unfold schedule
  cases hl : s.last with
  | none => exact Or.inr ⟨_, rfl, rfl⟩
  | some l =>
    simp only
    split
    · exact Or.inl ⟨rfl, h⟩
    · split
      · exact Or.inl ⟨rfl, h⟩
      · exact Or.inr ⟨_, rfl, rfl⟩

theorem step_emits (s : LSt) (o : Op) : Emits s (step s o) := by
  cases o with
  | adv t => exact Or.inl ⟨rfl, rfl⟩
  | color c fade p k st =>
    show Emits s (stepColor s c fade p k st)
    unfold stepColor
    simp only
    split
    · exact schedule_emits s _ rfl
    · exact Or.inl ⟨rfl, rfl⟩
  | remove k fade =>
    show Emits s (stepRemove s k fade)
    unfold stepRemove
    split
    · exact Or.inl ⟨rfl, rfl⟩
    · exact Or.inl ⟨rfl, rfl⟩
    · simp only
      split
      · refine schedule_emits s _ ?_
        split <;> first | rfl | (split <;> rfl)
      · refine Or.inl ⟨rfl, ?_⟩
        split <;> first | rfl | (split <;> rfl)
  | clear => exact schedule_emits s _ rfl
  | fire k =>
    show Emits s ((stepFire s k).getD (s, []))
    unfold stepFire
    split
    · simp only
      split
      · exact Or.inl ⟨rfl, rfl⟩
      · split
        · exact schedule_emits s _ rfl
        · exact Or.inl ⟨rfl, rfl⟩
    · exact Or.inl ⟨rfl, rfl⟩

/-! ### the channels -/

theorem setFade_cmd (c : Chan) (now : Nat) (m : Cmd) : (c.setFade now m).1.cmd = some m := by
  unfold Chan.setFade
  cases m.tt with
  | none => rfl
  | some T => simp only; split <;> rfl

theorem stepTask_cmd (c : Chan) (now iv : Nat) (r : Chan × Nat × Nat × Bool) (hr : c.stepTask now iv = some r) :
    r.1.cmd = c.cmd := by
  unfold Chan.stepTask at hr
  split at hr
  · simp at hr
  · split at hr <;> (simp only [Option.some.injEq] at hr; subst hr; rfl)

theorem cmdOf_tb (tab : List Nat) (q nchan i style : Nat) (t : Target) :
    (cmdOf tab q nchan i style t).tb = chanVal nchan i style (outC tab q t.tc) := by
  cases t <;> rfl

theorem sendAll_cons (tab : List Nat) (q now nchan style : Nat) (t : Target) (i : Nat) (c : Chan) (r : List Chan) :
    (sendAll tab q now nchan style t i (c :: r)).1 =
      (c.setFade now (cmdOf tab q nchan i style t)).1 :: (sendAll tab q now nchan style t (i + 1) r).1 := rfl

theorem sendAll_length (tab : List Nat) (q now nchan style : Nat) (t : Target) :
    ∀ (cs : List Chan) (i : Nat), (sendAll tab q now nchan style t i cs).1.length = cs.length := by
  intro cs
  induction cs with
  | nil => intro i; rfl
  | cons c r ih => intro i; rw [sendAll_cons]; simp [ih]

theorem sendAll_get (tab : List Nat) (q now nchan style : Nat) (t : Target) :
    ∀ (cs : List Chan) (i j : Nat) (c : Chan), cs[j]? = some c →
      (sendAll tab q now nchan style t i cs).1[j]? = some (c.setFade now (cmdOf tab q nchan (i + j) style t)).1 := by
  intro cs
  induction cs with
  | nil => intro i j c h; simp at h
  | cons x r ih =>
    intro i j c h
    rw [sendAll_cons]
    cases j with
    | zero =>
      simp only [List.getElem?_cons_zero, Option.some.injEq] at h
      subst h
      simp
    | succ j =>
      simp only [List.getElem?_cons_succ] at h ⊢
      rw [ih (i + 1) j c h]
      have : i + 1 + j = i + (j + 1) := by omega
      rw [this]

/-! ### the device under arbitrary histories -/

/-- an operation on the device: a command / delay firing / clock advance on the light, or the loop resuming the stepping
task of channel `i` -/
inductive DOp
  | light (o : Op)
  | task (i : Nat)

/-- the state part of `DSt.apply` -/
def DSt.applyS (d : DSt) (res : LSt × List Target) : DSt :=
  match res.2 with
  | [] => { d with l := res.1 }
  | t :: _ => { d with l := res.1, chans := (sendAll d.corr d.bright res.1.now d.nchan d.style t 0 d.chans).1 }

theorem apply_fst (d : DSt) (res : LSt × List Target) : (d.apply res).1 = d.applyS res := by
  obtain ⟨s, ts⟩ := res
  cases ts <;> rfl

def dstep (d : DSt) : DOp → DSt
  | .light o => (d.apply (step d.l o)).1
  | .task i =>
    match d.chans[i]? with
    | none => d
    | some c =>
      match c.stepTask d.l.now d.interval with
      | none => d
      | some r => { d with chans := modAt d.chans i r.1 }

def drun (d : DSt) : List DOp → DSt
  | [] => d
  | o :: r => drun (dstep d o) r

/-- the device as the driver's `init` (+ `corr`) line builds it -/
def dinit (n iv mf style q : Nat) (onC : RGB) (tab : List Nat) : DSt :=
  { l := {}, nchan := n, interval := iv, chans := List.replicate n { maxFade := mf }, corr := tab, style := style,
    bright := q, onC := onC }

/-- the configuration never changes -/
def SameCfg (d d' : DSt) : Prop :=
  d'.nchan = d.nchan ∧ d'.corr = d.corr ∧ d'.bright = d.bright ∧ d'.style = d.style ∧ d'.interval = d.interval

/-- device invariant: the stack invariant with the suppression bookkeeping (`HwInv`), and every channel is well-formed
and carries, as its latest command, the corrected and channel-mapped image of `_last_fade_target` -/
def DInv (d : DSt) : Prop :=
  HwInv d.l ∧ ∀ i c, d.chans[i]? = some c →
    ChanOK c ∧ ChanQ c ∧ c.cmd = d.l.last.map (cmdOf d.corr d.bright d.nchan i d.style)

theorem dstep_cfg (d : DSt) (o : DOp) : SameCfg d (dstep d o) := by
  cases o with
  | light o =>
    show SameCfg d (d.apply (step d.l o)).1
    rw [apply_fst]
    unfold DSt.applyS
    split <;> exact ⟨rfl, rfl, rfl, rfl, rfl⟩
  | task i =>
    show SameCfg d (match d.chans[i]? with
      | none => d
      | some c => match c.stepTask d.l.now d.interval with
        | none => d
        | some r => { d with chans := modAt d.chans i r.1 })
    split
    · exact ⟨rfl, rfl, rfl, rfl, rfl⟩
    · split <;> exact ⟨rfl, rfl, rfl, rfl, rfl⟩

theorem dstep_inv (d : DSt) (o : DOp) (h : DInv d) : DInv (dstep d o) := by
  obtain ⟨hhw, hch⟩ := h
  cases o with
  | light o =>
    show DInv (d.apply (step d.l o)).1
    rw [apply_fst]
    have hhw' := step_hwinv d.l o hhw
    rcases step_emits d.l o with ⟨h2, hl⟩ | ⟨t, h2, hl⟩
    · unfold DSt.applyS
      rw [h2]
      refine ⟨hhw', ?_⟩
      intro i c hc
      obtain ⟨a, b, e⟩ := hch i c hc
      exact ⟨a, b, by rw [e]; simp only [hl]⟩
    · unfold DSt.applyS
      rw [h2]
      refine ⟨hhw', ?_⟩
      intro i c' hc'
      simp only at hc'
      have hlen := sendAll_length d.corr d.bright (step d.l o).1.now d.nchan d.style t d.chans 0
      have hi : i < d.chans.length := by
        rw [← hlen]
        exact (List.getElem?_eq_some_iff.mp hc').1
      have hc : d.chans[i]? = some d.chans[i] := List.getElem?_eq_getElem hi
      have hg := sendAll_get d.corr d.bright (step d.l o).1.now d.nchan d.style t d.chans 0 i _ hc
      rw [hg] at hc'
      simp only [Option.some.injEq] at hc'
      subst hc'
      obtain ⟨a, _, _⟩ := hch i _ hc
      refine ⟨setFade_ok _ _ _ a, setFade_q _ _ _, ?_⟩
      rw [setFade_cmd]
      simp only [hl, Option.map_some, Nat.zero_add]
  | task i =>
    show DInv (match d.chans[i]? with
      | none => d
      | some c => match c.stepTask d.l.now d.interval with
        | none => d
        | some r => { d with chans := modAt d.chans i r.1 })
    split
    · exact ⟨hhw, hch⟩
    · rename_i c hci
      split
      · exact ⟨hhw, hch⟩
      · rename_i r hr
        refine ⟨hhw, ?_⟩
        intro j c' hc'
        simp only [modAt] at hc'
        obtain ⟨a, _, e⟩ := hch i c hci
        by_cases hji : i = j
        · subst hji
          have hi : i < d.chans.length := (List.getElem?_eq_some_iff.mp hci).1
          rw [List.getElem?_set_self hi] at hc'
          simp only [Option.some.injEq] at hc'
          subst hc'
          exact ⟨stepTask_ok c _ _ r a hr, stepTask_q c _ _ r a hr, by rw [stepTask_cmd c _ _ r hr]; exact e⟩
        · rw [List.getElem?_set_ne hji] at hc'
          exact hch j c' hc'

theorem drun_inv (ops : List DOp) : ∀ d, DInv d → DInv (drun d ops) := by
  induction ops with
  | nil => intro d h; exact h
  | cons o r ih => intro d h; exact ih _ (dstep_inv d o h)

theorem drun_cfg (ops : List DOp) : ∀ d, SameCfg d (drun d ops) := by
  induction ops with
  | nil => intro d; exact ⟨rfl, rfl, rfl, rfl, rfl⟩
  | cons o r ih =>
    intro d
    obtain ⟨a1, a2, a3, a4, a5⟩ := dstep_cfg d o
    obtain ⟨b1, b2, b3, b4, b5⟩ := ih (dstep d o)
    exact ⟨b1.trans a1, b2.trans a2, b3.trans a3, b4.trans a4, b5.trans a5⟩

theorem dinit_inv (n iv mf style q : Nat) (onC : RGB) (tab : List Nat) : DInv (dinit n iv mf style q onC tab) := by
  refine ⟨⟨List.Pairwise.nil, rfl⟩, ?_⟩
  intro i c hc
  have hc' : c = { maxFade := mf } := by
    simp only [dinit, List.getElem?_replicate] at hc
    split at hc
    · simp only [Option.some.injEq] at hc; exact hc.symm
    · simp at hc
  subst hc'
  exact ⟨⟨by simp, Or.inl rfl⟩, by intro _ m h; simp at h, rfl⟩

theorem dstep_len (d : DSt) (o : DOp) : (dstep d o).chans.length = d.chans.length := by
  cases o with
  | light o =>
    show (d.apply (step d.l o)).1.chans.length = _
    rw [apply_fst]
    unfold DSt.applyS
    split
    · rfl
    · exact sendAll_length _ _ _ _ _ _ _ _
  | task i =>
    show (match d.chans[i]? with
      | none => d
      | some c => match c.stepTask d.l.now d.interval with
        | none => d
        | some r => { d with chans := modAt d.chans i r.1 }).chans.length = _
    split
    · rfl
    · split
      · rfl
      · simp [modAt]

theorem drun_len (ops : List DOp) : ∀ d (n : Nat), d.chans.length = n → (drun d ops).chans.length = n := by
  induction ops with
  | nil => intro d n h; exact h
  | cons o r ih => intro d n h; exact ih _ n (by rw [dstep_len]; exact h)

end MpfVerif.Light
