import MpfVerif.Model.Mode
/-! # Lemmas for C07: invariants of the mode-lifecycle model, preserved by every step -/
namespace MpfVerif.Mode

def Op.target : Op → Nat
  | .start m _ _ _ => m | .started m => m | .startedCb m => m | .stop m => m | .stopped m => m | .stoppedCb m => m
  | .addH m _ => m | .addSw m _ => m | .addDl m _ => m | .fireDl m _ => m | .turnEnd m => m
  | .cfgPlay m _ => m | .cfgSub m _ _ => m | .addTm m _ => m | .fireTm m _ => m | .remTm m _ => m
  | .ctlCall m _ => m

def evIdx : Ev → Nat
  | .ws => 0 | .sg => 1 | .sd => 2 | .wp => 3 | .pg => 4 | .pd => 5

/-- recogniser of prefixes of (ws sg sd wp pg pd)*, started at position `p`; answers the position reached -/
def dfa : Nat → List Ev → Option Nat
  | p, [] => some p
  | p, e :: r => if evIdx e = p then dfa ((p + 1) % 6) r else none

def proj (m : Nat) (log : List (Nat × Ev)) : List Ev := (log.filter (fun x => x.1 == m)).map (·.2)

/-- where in the cycle a mode is, read off its flags -/
def pos (ms : MState) : Nat := if ms.starting then 2 else if ms.stopping then 5 else if ms.active then 3 else 0

theorem dfa_append (p : Nat) (l1 l2 : List Ev) : dfa p (l1 ++ l2) = (dfa p l1).bind (fun q => dfa q l2) := by
  induction l1 generalizing p with
  | nil => simp [dfa]
  | cons e r ih =>
    simp only [List.cons_append, dfa]
    split
    · exact ih _
    · simp

theorem proj_append (m : Nat) (l1 l2 : List (Nat × Ev)) : proj m (l1 ++ l2) = proj m l1 ++ proj m l2 := by
  simp [proj, List.filter_append]

@[simp] theorem upd_same (f : Nat → MState) (m : Nat) (x : MState) : upd f m x m = x := by simp [upd]
theorem upd_other (f : Nat → MState) (m : Nat) (x : MState) (i : Nat) (h : i ≠ m) : upd f m x i = f i := by simp [upd, h]

theorem before_irrefl (modes : Nat → MState) (a : Nat) : before modes a a = false := by simp [before]

theorem before_iff (modes : Nat → MState) (a b : Nat) :
    before modes a b = true ↔ ((modes b).prio < (modes a).prio ∨ ((modes a).prio = (modes b).prio ∧ b < a)) := by
  simp [before]

theorem before_trans (modes : Nat → MState) (a b c : Nat) (h1 : before modes a b = true) (h2 : before modes b c = true) :
    before modes a c = true := by
  rw [before_iff] at *
  omega

theorem before_total (modes : Nat → MState) (a b : Nat) (hne : a ≠ b) (h : before modes a b = false) :
    before modes b a = true := by
  rw [Bool.eq_false_iff] at h
  rw [ne_eq, before_iff] at h
  rw [before_iff]
  omega

theorem before_congr (f g : Nat → MState) (a b : Nat) (ha : (f a).prio = (g a).prio) (hb : (f b).prio = (g b).prio) :
    before f a b = before g a b := by simp [before, ha, hb]

theorem mem_ins (modes : Nat → MState) (m x : Nat) (l : List Nat) : x ∈ ins modes m l ↔ x = m ∨ x ∈ l := by
  induction l with
  | nil => simp [ins]
  | cons y ys ih =>
    simp only [ins]
    split
    · simp
    · simp only [List.mem_cons, ih]
      constructor
      · rintro (h | h | h) <;> simp [h]
      · rintro (h | h | h) <;> simp [h]

theorem pairwise_ins (modes : Nat → MState) (m : Nat) (l : List Nat) (hm : m ∉ l)
    (hp : l.Pairwise (fun a b => before modes a b = true)) :
    (ins modes m l).Pairwise (fun a b => before modes a b = true) := by
  induction l with
  | nil => simp [ins]
  | cons y ys ih =>
    have hy : y ≠ m := fun h => hm (by simp [h])
    have hys : m ∉ ys := fun h => hm (by simp [h])
    rw [List.pairwise_cons] at hp
    simp only [ins]
    split
    · rename_i hb
      refine List.pairwise_cons.mpr ⟨?_, List.pairwise_cons.mpr hp⟩
      intro z hz
      rcases List.mem_cons.mp hz with h | h
      · rw [h]; exact hb
      · exact before_trans modes m y z hb (hp.1 z h)
    · rename_i hb
      refine List.pairwise_cons.mpr ⟨?_, ih hys hp.2⟩
      intro z hz
      rcases (mem_ins modes m z ys).mp hz with h | h
      · rw [h]; exact before_total modes m y (Ne.symm hy) (by simpa using hb)
      · exact hp.1 z h

theorem mkEnts_owner (o : Nat) (c : Cls) (n : Nat) : ∀ e ∈ mkEnts o c n, e.owner = o ∧ e.cls = c := by
  induction n with
  | zero => simp [mkEnts]
  | succ k ih =>
    intro e he
    simp only [mkEnts, List.mem_append, List.mem_singleton] at he
    rcases he with h | h
    · exact ih e h
    · simp [h]

structure Inv (st : St) : Prop where
  excl : ∀ m, (st.modes m).active = true → (st.modes m).starting = false
  stopAct : ∀ m, (st.modes m).stopping = true → (st.modes m).active = true
  mem : ∀ m, m ∈ st.act ↔ (st.modes m).active = true
  sorted : st.act.Pairwise (fun a b => before st.modes a b = true)
  cfgOwned : ∀ e ∈ st.bus, e.cls = .cfg → (st.modes e.owner).starting = true ∨ (st.modes e.owner).active = true
  life : ∀ m, dfa 0 (proj m st.log) = some (pos (st.modes m))
  turnOwned : ∀ e ∈ st.bus, e.cls = .turn → (st.modes e.owner).starting = true

theorem inv_init (cfg : Nat → Cfg) : Inv (init cfg) := by
  constructor <;> simp [init, proj, dfa, pos]

theorem life_step (st : St) (m : Nat) (evs : List Ev) (q : Nat) (ms' : MState)
    (h : ∀ m', dfa 0 (proj m' st.log) = some (pos (st.modes m')))
    (hq : dfa (pos (st.modes m)) evs = some q) (hp : pos ms' = q) :
    ∀ m', dfa 0 (proj m' (st.log ++ evs.map (fun e => (m, e)))) = some (pos (upd st.modes m ms' m')) := by
  intro m'
  rw [proj_append, dfa_append, h m']
  by_cases hm : m' = m
  · subst hm
    have : proj m' (evs.map (fun e => (m', e))) = evs := by
      simp [proj, List.filter_map, Function.comp_def]
    simp [this, hq, hp]
  · have : proj m' (evs.map (fun e => (m, e))) = [] := by
      simp [proj, List.filter_map, Function.comp_def, Ne.symm hm]
    simp [this, dfa, upd_other _ _ _ _ hm]

theorem life_keep (st : St) (m : Nat) (ms' : MState)
    (h : ∀ m', dfa 0 (proj m' st.log) = some (pos (st.modes m')))
    (hp : pos ms' = pos (st.modes m)) :
    ∀ m', dfa 0 (proj m' st.log) = some (pos (upd st.modes m ms' m')) := by
  intro m'
  by_cases hm : m' = m
  · subst hm; simp [h, hp]
  · simp [h, upd_other _ _ _ _ hm]


theorem pairwise_upd (st : St) (m : Nat) (ms' : MState) (l : List Nat) (hm : m ∉ l)
    (hp : l.Pairwise (fun a b => before st.modes a b = true)) :
    l.Pairwise (fun a b => before (upd st.modes m ms') a b = true) := by
  refine List.Pairwise.imp_of_mem ?_ hp
  intro a b ha hb hab
  have ha' : a ≠ m := fun h => hm (h ▸ ha)
  have hb' : b ≠ m := fun h => hm (h ▸ hb)
  rw [before_congr (upd st.modes m ms') st.modes a b (by rw [upd_other _ _ _ _ ha']) (by rw [upd_other _ _ _ _ hb'])]
  exact hab

theorem pairwise_upd_prio (st : St) (m : Nat) (ms' : MState) (l : List Nat) (hpr : ms'.prio = (st.modes m).prio)
    (hp : l.Pairwise (fun a b => before st.modes a b = true)) :
    l.Pairwise (fun a b => before (upd st.modes m ms') a b = true) := by
  refine List.Pairwise.imp ?_ hp
  intro a b hab
  have hx : ∀ i, (upd st.modes m ms' i).prio = (st.modes i).prio := by
    intro i
    by_cases hi : i = m
    · subst hi; simp [hpr]
    · rw [upd_other _ _ _ _ hi]
  rw [before_congr (upd st.modes m ms') st.modes a b (hx a) (hx b)]
  exact hab

theorem startCore_inv (st : St) (m : Nat) (prio : Option Int) (queue : Bool) (hI : Inv st)
    (hna : (st.modes m).active = false) (hns : (st.modes m).starting = false) : Inv (startCore st m prio queue) := by
  obtain ⟨hexcl, hstop, hmem, hsorted, hcfg, hlife, hturn⟩ := hI
  have hnp : (st.modes m).stopping = false := by
    cases hx : (st.modes m).stopping
    · rfl
    · have := hstop m hx; simp [hna] at this
  have hmn : m ∉ st.act := fun hx => by have := (hmem m).mp hx; simp [hna] at this
  unfold startCore
  first
    | skip
  refine ⟨?_, ?_, ?_, ?_, ?_, ?_, ?_⟩ <;> dsimp only
  · intro m' ha
    by_cases hm : m' = m
    · subst hm; simp [hna] at ha
    · rw [upd_other _ _ _ _ hm] at ha ⊢; exact hexcl m' ha
  · intro m' hs
    by_cases hm : m' = m
    · subst hm; simp [hnp] at hs
    · rw [upd_other _ _ _ _ hm] at hs ⊢; exact hstop m' hs
  · intro m'
    by_cases hm : m' = m
    · subst hm; simp [hna, hmn]
    · simp only [upd_other _ _ _ _ hm]; exact hmem m'
  · exact pairwise_upd st m _ st.act hmn hsorted
  · intro e he hc
    simp only [List.mem_append] at he
    by_cases hm : e.owner = m
    · rw [hm]; simp
    · rw [upd_other _ _ _ _ hm]
      rcases he with (he | he) | he
      · exact hcfg e he hc
      · exact absurd (mkEnts_owner m .own _ e he).1 hm
      · exact absurd (mkEnts_owner m .cfg _ e he).1 hm
  · exact life_step st m [.ws, .sg] 2 _ hlife (by simp [pos, hns, hnp, hna, dfa, evIdx]) (by simp [pos])
  · intro e he hc
    simp only [List.mem_append] at he
    by_cases hm : e.owner = m
    · rw [hm]; simp
    · rw [upd_other _ _ _ _ hm]
      rcases he with (he | he) | he
      · exact hturn e he hc
      · exact absurd (mkEnts_owner m .own _ e he).1 hm
      · exact absurd (mkEnts_owner m .cfg _ e he).1 hm

theorem cbCore_inv (st : St) (m : Nat) (hI : Inv st) : Inv (cbCore st m) := by
  obtain ⟨hexcl, hstop, hmem, hsorted, hcfg, hlife, hturn⟩ := hI
  unfold cbCore
  refine ⟨?_, ?_, ?_, ?_, ?_, ?_, ?_⟩ <;> dsimp only
  · intro m' ha
    by_cases hm : m' = m
    · subst hm; simp at ha ⊢; exact hexcl m' ha
    · rw [upd_other _ _ _ _ hm] at ha ⊢; exact hexcl m' ha
  · intro m' hs
    by_cases hm : m' = m
    · subst hm; simp at hs ⊢; exact hstop m' hs
    · rw [upd_other _ _ _ _ hm] at hs ⊢; exact hstop m' hs
  · intro m'
    by_cases hm : m' = m
    · subst hm; simp; exact hmem m'
    · simp only [upd_other _ _ _ _ hm]; exact hmem m'
  · exact pairwise_upd_prio st m _ st.act rfl hsorted
  · intro e he hc
    by_cases hm : e.owner = m
    · rw [hm]; simp; rw [← hm]; exact hcfg e he hc
    · rw [upd_other _ _ _ _ hm]; exact hcfg e he hc
  · exact life_keep st m _ hlife (by simp [pos])
  · intro e he hc
    by_cases hm : e.owner = m
    · rw [hm]; simp; rw [← hm]; exact hturn e he hc
    · rw [upd_other _ _ _ _ hm]; exact hturn e he hc

theorem cleanup_inv (st : St) (m : Nat) (hI : Inv st) : Inv (cleanup st m) := by
  obtain ⟨hexcl, hstop, hmem, hsorted, hcfg, hlife, hturn⟩ := hI
  unfold cleanup
  split
  · refine ⟨?_, ?_, ?_, ?_, ?_, ?_, ?_⟩ <;> dsimp only
    · intro m' ha
      by_cases hm : m' = m
      · subst hm; simp at ha ⊢; exact hexcl m' ha
      · rw [upd_other _ _ _ _ hm] at ha ⊢; exact hexcl m' ha
    · intro m' hs
      by_cases hm : m' = m
      · subst hm; simp at hs ⊢; exact hstop m' hs
      · rw [upd_other _ _ _ _ hm] at hs ⊢; exact hstop m' hs
    · intro m'
      by_cases hm : m' = m
      · subst hm; simp; exact hmem m'
      · simp only [upd_other _ _ _ _ hm]; exact hmem m'
    · exact pairwise_upd_prio st m _ st.act rfl hsorted
    · intro e he hc
      simp only [List.mem_filter] at he
      by_cases hm : e.owner = m
      · rw [hm]; simp; rw [← hm]; exact hcfg e he.1 hc
      · rw [upd_other _ _ _ _ hm]; exact hcfg e he.1 hc
    · exact life_keep st m _ hlife (by simp [pos])
    · intro e he hc
      simp only [List.mem_filter] at he
      by_cases hm : e.owner = m
      · rw [hm]; simp; rw [← hm]; exact hturn e he.1 hc
      · rw [upd_other _ _ _ _ hm]; exact hturn e he.1 hc
  · exact ⟨hexcl, hstop, hmem, hsorted, hcfg, hlife, hturn⟩

theorem cleanup_other (st : St) (m i : Nat) (h : i ≠ m) : (cleanup st m).modes i = st.modes i := by
  unfold cleanup; split
  · simp [upd, h]
  · rfl

theorem cleanup_prio (st : St) (m i : Nat) : ((cleanup st m).modes i).prio = (st.modes i).prio := by
  unfold cleanup; split
  · by_cases h : i = m
    · subst h; simp
    · simp [upd, h]
  · rfl

theorem cleanup_flags (st : St) (m m' : Nat) :
    ((cleanup st m).modes m').active = (st.modes m').active ∧ ((cleanup st m).modes m').starting = (st.modes m').starting ∧
    ((cleanup st m).modes m').stopping = (st.modes m').stopping ∧ ((cleanup st m).modes m').pStoppedCb = (st.modes m').pStoppedCb := by
  unfold cleanup
  split
  · by_cases hm : m' = m
    · subst hm; simp
    · simp [upd_other _ _ _ _ hm]
  · simp

theorem step_inv (st st' : St) (op : Op) (hI : Inv st) (h : step st op = some st') : Inv st' := by
  obtain ⟨hexcl, hstop, hmem, hsorted, hcfg, hlife, hturn⟩ := hI
  cases op with
  | start m prio queue gameOk =>
    simp only [step] at h
    split at h
    · cases h; exact ⟨hexcl, hstop, hmem, hsorted, hcfg, hlife, hturn⟩
    · rename_i hg
      cases h
      have hna : (st.modes m).active = false := by
        cases hx : (st.modes m).active <;> simp [hx] at hg ⊢
      have hns : (st.modes m).starting = false := by
        cases hx : (st.modes m).starting <;> simp [hx] at hg ⊢
      have hf := cleanup_flags st m m
      exact startCore_inv _ m prio queue (cleanup_inv st m ⟨hexcl, hstop, hmem, hsorted, hcfg, hlife, hturn⟩)
        (by rw [hf.1]; exact hna) (by rw [hf.2.1]; exact hns)
  | started m =>
    simp only [step] at h
    split at h
    · cases h
    · rename_i hs
      cases h
      have hs' : (st.modes m).starting = true := by simpa using hs
      have hna : (st.modes m).active = false := by
        cases hx : (st.modes m).active
        · rfl
        · have := hexcl m hx; simp [hs'] at this
      have hnp : (st.modes m).stopping = false := by
        cases hx : (st.modes m).stopping
        · rfl
        · have := hstop m hx; simp [hna] at this
      have hmn : m ∉ st.act := fun hx => by have := (hmem m).mp hx; simp [hna] at this
      refine ⟨?_, ?_, ?_, ?_, ?_, ?_, ?_⟩ <;> dsimp only
      · intro m' ha
        by_cases hm : m' = m
        · subst hm; simp
        · rw [upd_other _ _ _ _ hm] at ha ⊢; exact hexcl m' ha
      · intro m' hs
        by_cases hm : m' = m
        · subst hm; simp
        · rw [upd_other _ _ _ _ hm] at hs ⊢; exact hstop m' hs
      · intro m'
        simp only [hna, Bool.false_eq_true, if_false, mem_ins]
        by_cases hm : m' = m
        · subst hm; simp
        · simp only [upd_other _ _ _ _ hm, hm, false_or]; exact hmem m'
      · simp only [hna, Bool.false_eq_true, if_false]
        exact pairwise_ins _ m st.act hmn (pairwise_upd_prio st m _ st.act rfl hsorted)
      · intro e he hc
        simp only [List.mem_append] at he
        by_cases hm : e.owner = m
        · rw [hm]; simp
        · rw [upd_other _ _ _ _ hm]
          rcases he with he | he
          · exact hcfg e (List.mem_filter.mp he).1 hc
          · exact absurd (mkEnts_owner m .dev _ e he).1 hm
      · exact life_step st m [.sd] 3 _ hlife (by simp [pos, hs', dfa, evIdx]) (by simp [pos, hnp])
      · intro e he hc
        simp only [List.mem_append] at he
        rcases he with he | he
        · have hf := List.mem_filter.mp he
          by_cases hm : e.owner = m
          · have := hf.2; simp [ownedBy, hm, hc] at this
          · rw [upd_other _ _ _ _ hm]; exact hturn e hf.1 hc
        · have := (mkEnts_owner m .dev _ e he).2; rw [hc] at this; cases this
  | startedCb m =>
    simp only [step] at h
    split at h
    · cases h
    · cases h
      refine ⟨?_, ?_, ?_, ?_, ?_, ?_, ?_⟩ <;> dsimp only
      · intro m' ha
        by_cases hm : m' = m
        · subst hm; simp at ha ⊢; exact hexcl m' ha
        · rw [upd_other _ _ _ _ hm] at ha ⊢; exact hexcl m' ha
      · intro m' hs
        by_cases hm : m' = m
        · subst hm; simp at hs ⊢; exact hstop m' hs
        · rw [upd_other _ _ _ _ hm] at hs ⊢; exact hstop m' hs
      · intro m'
        by_cases hm : m' = m
        · subst hm; simp; exact hmem m'
        · simp only [upd_other _ _ _ _ hm]; exact hmem m'
      · exact pairwise_upd_prio st m _ st.act rfl hsorted
      · intro e he hc
        by_cases hm : e.owner = m
        · rw [hm]; simp; rw [← hm]; exact hcfg e he hc
        · rw [upd_other _ _ _ _ hm]; exact hcfg e he hc
      · exact life_keep st m _ hlife (by simp [pos])
      · intro e he hc
        by_cases hm : e.owner = m
        · rw [hm]; simp; rw [← hm]; exact hturn e he hc
        · rw [upd_other _ _ _ _ hm]; exact hturn e he hc
  | stop m =>
    simp only [step] at h
    split at h
    · cases h; exact ⟨hexcl, hstop, hmem, hsorted, hcfg, hlife, hturn⟩
    · rename_i hg
      cases h
      have ha : (st.modes m).active = true := by
        cases hx : (st.modes m).active <;> simp [hx] at hg ⊢
      have hnp : (st.modes m).stopping = false := by
        cases hx : (st.modes m).stopping <;> simp [hx] at hg ⊢
      have hns := hexcl m ha
      refine ⟨?_, ?_, ?_, ?_, ?_, ?_, ?_⟩ <;> dsimp only
      · intro m' ha'
        by_cases hm : m' = m
        · subst hm; simp [hns]
        · rw [upd_other _ _ _ _ hm] at ha' ⊢; exact hexcl m' ha'
      · intro m' hs
        by_cases hm : m' = m
        · subst hm; simp [ha]
        · rw [upd_other _ _ _ _ hm] at hs ⊢; exact hstop m' hs
      · intro m'
        by_cases hm : m' = m
        · subst hm; simp; exact hmem m'
        · simp only [upd_other _ _ _ _ hm]; exact hmem m'
      · exact pairwise_upd_prio st m _ st.act rfl hsorted
      · intro e he hc
        by_cases hm : e.owner = m
        · rw [hm]; simp [ha]
        · rw [upd_other _ _ _ _ hm]; exact hcfg e he hc
      · exact life_step st m [.wp, .pg] 5 _ hlife (by simp [pos, hns, hnp, ha, dfa, evIdx]) (by simp [pos, hns])
      · intro e he hc
        by_cases hm : e.owner = m
        · rw [hm]; simp; rw [← hm]; exact hturn e he hc
        · rw [upd_other _ _ _ _ hm]; exact hturn e he hc
  | stopped m =>
    simp only [step] at h
    split at h
    · cases h
    · rename_i hs
      cases h
      have hp : (st.modes m).stopping = true := by simpa using hs
      have ha := hstop m hp
      have hns := hexcl m ha
      refine ⟨?_, ?_, ?_, ?_, ?_, ?_, ?_⟩ <;> dsimp only
      · intro m' ha'
        by_cases hm : m' = m
        · subst hm; simp at ha'
        · rw [upd_other _ _ _ _ hm] at ha' ⊢; exact hexcl m' ha'
      · intro m' hs
        by_cases hm : m' = m
        · subst hm; simp at hs
        · rw [upd_other _ _ _ _ hm] at hs ⊢; exact hstop m' hs
      · intro m'
        simp only [ha, if_true, List.mem_filter]
        by_cases hm : m' = m
        · subst hm; simp
        · simp only [upd_other _ _ _ _ hm, bne_iff_ne, ne_eq, hm, not_false_eq_true, and_true]; exact hmem m'
      · simp only [ha, if_true]
        refine pairwise_upd st m _ _ ?_ (hsorted.filter _)
        simp
      · intro e he hc
        simp only [List.mem_filter] at he
        by_cases hm : e.owner = m
        · exfalso
          have := he.2
          simp [ownedBy, hm, hc] at this
        · rw [upd_other _ _ _ _ hm]; exact hcfg e he.1 hc
      · exact life_step st m [.pd] 0 _ hlife (by simp [pos, hns, hp, dfa, evIdx]) (by simp [pos, hns])
      · intro e he hc
        simp only [List.mem_filter] at he
        by_cases hm : e.owner = m
        · rw [hm]; simp; rw [← hm]; exact hturn e he.1 hc
        · rw [upd_other _ _ _ _ hm]; exact hturn e he.1 hc
  | stoppedCb m =>
    simp only [step] at h
    split at h
    · cases h
    · cases h
      exact cbCore_inv _ m (cleanup_inv st m ⟨hexcl, hstop, hmem, hsorted, hcfg, hlife, hturn⟩)
  | addH m id =>
    simp only [step, Option.some.injEq] at h
    cases h
    refine ⟨hexcl, hstop, hmem, hsorted, ?_, hlife, ?_⟩
    · intro e he hc
      simp only [List.mem_append, List.mem_singleton] at he
      rcases he with he | he
      · exact hcfg e he hc
      · rw [he] at hc; cases hc
    · intro e he hc
      simp only [List.mem_append, List.mem_singleton] at he
      rcases he with he | he
      · exact hturn e he hc
      · rw [he] at hc; cases hc
  | addSw m id =>
    simp only [step, Option.some.injEq] at h
    cases h
    exact ⟨hexcl, hstop, hmem, hsorted, hcfg, hlife, hturn⟩
  | addDl m id =>
    simp only [step, Option.some.injEq] at h
    cases h
    exact ⟨hexcl, hstop, hmem, hsorted, hcfg, hlife, hturn⟩
  | fireDl m id =>
    simp only [step] at h
    split at h
    · cases h; exact ⟨hexcl, hstop, hmem, hsorted, hcfg, hlife, hturn⟩
    · cases h
  | turnEnd m =>
    simp only [step] at h
    split at h
    · rename_i hs
      cases h
      refine ⟨hexcl, hstop, hmem, hsorted, ?_, hlife, ?_⟩
      · intro e he hc
        simp only [List.mem_append, List.mem_singleton] at he
        rcases he with he | he
        · exact hcfg e he hc
        · rw [he] at hc; cases hc
      · intro e he hc
        simp only [List.mem_append, List.mem_singleton] at he
        rcases he with he | he
        · exact hturn e he hc
        · rw [he]; exact hs
    · cases h
  | cfgPlay m id =>
    simp only [step] at h
    split at h <;> cases h <;> exact ⟨hexcl, hstop, hmem, hsorted, hcfg, hlife, hturn⟩
  | cfgSub m id on =>
    simp only [step] at h
    split at h
    · cases h
    · split at h
      · cases h; exact ⟨hexcl, hstop, hmem, hsorted, hcfg, hlife, hturn⟩
      · split at h
        · split at h <;> cases h <;> exact ⟨hexcl, hstop, hmem, hsorted, hcfg, hlife, hturn⟩
        · cases h; exact ⟨hexcl, hstop, hmem, hsorted, hcfg, hlife, hturn⟩
  | addTm m id =>
    simp only [step] at h
    split at h
    · cases h; exact ⟨hexcl, hstop, hmem, hsorted, hcfg, hlife, hturn⟩
    · cases h
  | fireTm m id =>
    simp only [step] at h
    split at h
    · cases h; exact ⟨hexcl, hstop, hmem, hsorted, hcfg, hlife, hturn⟩
    · cases h
  | remTm m id =>
    simp only [step, Option.some.injEq] at h
    cases h
    exact ⟨hexcl, hstop, hmem, hsorted, hcfg, hlife, hturn⟩
  | ctlCall m dl =>
    simp only [step] at h
    split at h <;> cases h <;> exact ⟨hexcl, hstop, hmem, hsorted, hcfg, hlife, hturn⟩

theorem run_inv (st : St) (ops : List Op) (hI : Inv st) : Inv (run st ops) := by
  induction ops generalizing st with
  | nil => exact hI
  | cons op r ih =>
    simp only [run]
    cases hs : step st op with
    | none => simpa using ih st hI
    | some st' => simpa using ih st' (step_inv st st' op hI hs)


theorem run_append (st : St) (a b : List Op) : run st (a ++ b) = run (run st a) b := by
  induction a generalizing st with
  | nil => rfl
  | cons op r ih => simp only [List.cons_append, run]; exact ih _

theorem filter_other_self (l : List Ent) (m : Nat) (h : ∀ e ∈ l, e.owner ≠ m) :
    l.filter (fun e => e.owner != m) = l := by
  rw [List.filter_eq_self]
  intro e he
  simpa using h e he

theorem filter_other_mk (m : Nat) (c : Cls) (n : Nat) : (mkEnts m c n).filter (fun e => e.owner != m) = [] := by
  rw [List.filter_eq_nil_iff]
  intro e he
  simp [(mkEnts_owner m c n e he).1]

theorem filter_other_filter (l : List Ent) (m : Nat) (p : Ent → Bool) (hp : ∀ e, e.owner ≠ m → p e = true) :
    (l.filter p).filter (fun e => e.owner != m) = l.filter (fun e => e.owner != m) := by
  rw [List.filter_filter]
  apply List.filter_congr
  intro e _
  by_cases h : e.owner = m
  · simp [h]
  · simp [h, hp e h]

theorem cleanup_frame (st : St) (m : Nat) :
    (cleanup st m).bus.filter (fun e => e.owner != m) = st.bus.filter (fun e => e.owner != m) ∧
    (cleanup st m).sw.filter (fun e => e.owner != m) = st.sw.filter (fun e => e.owner != m) ∧
    (cleanup st m).dl.filter (fun e => e.owner != m) = st.dl.filter (fun e => e.owner != m) := by
  unfold cleanup
  split
  · refine ⟨?_, ?_, ?_⟩ <;> dsimp only <;> apply filter_other_filter <;> intro e he <;> simp [ownedBy, he]
  · exact ⟨rfl, rfl, rfl⟩

theorem step_frame (st st' : St) (op : Op) (h : step st op = some st') :
    st'.bus.filter (fun e => e.owner != op.target) = st.bus.filter (fun e => e.owner != op.target) ∧
    st'.sw.filter (fun e => e.owner != op.target) = st.sw.filter (fun e => e.owner != op.target) ∧
    st'.dl.filter (fun e => e.owner != op.target) = st.dl.filter (fun e => e.owner != op.target) := by
  cases op with
  | start m prio queue gameOk =>
    simp only [step] at h
    split at h
    · cases h; exact ⟨rfl, rfl, rfl⟩
    · cases h
      obtain ⟨c1, c2, c3⟩ := cleanup_frame st m
      refine ⟨?_, c2, c3⟩
      dsimp only [Op.target]
      rw [← c1]
      simp [startCore, List.filter_append, filter_other_mk]
  | started m =>
    simp only [step] at h
    split at h
    · cases h
    · cases h
      refine ⟨?_, rfl, rfl⟩
      dsimp only [Op.target]
      rw [List.filter_append, filter_other_mk, List.append_nil]
      apply filter_other_filter; intro e he; simp [ownedBy, he]
  | startedCb m =>
    simp only [step] at h
    split at h
    · cases h
    · cases h; exact ⟨rfl, rfl, rfl⟩
  | stop m =>
    simp only [step] at h
    split at h
    · cases h; exact ⟨rfl, rfl, rfl⟩
    · cases h
      refine ⟨rfl, ?_, ?_⟩ <;> dsimp only [Op.target] <;> apply filter_other_filter <;> intro e he <;> simp [ownedBy, he]
  | stopped m =>
    simp only [step] at h
    split at h
    · cases h
    · cases h
      refine ⟨?_, rfl, rfl⟩
      dsimp only [Op.target]; apply filter_other_filter; intro e he; simp [ownedBy, he]
  | stoppedCb m =>
    simp only [step] at h
    split at h
    · cases h
    · cases h
      exact cleanup_frame st m
  | addH m id =>
    simp only [step, Option.some.injEq] at h
    cases h
    simp [Op.target, List.filter_append]
  | addSw m id =>
    simp only [step, Option.some.injEq] at h
    cases h
    simp [Op.target, List.filter_append]
  | addDl m id =>
    simp only [step, Option.some.injEq] at h
    cases h
    simp [Op.target, List.filter_append]
  | fireDl m id =>
    simp only [step] at h
    split at h
    · cases h
      refine ⟨rfl, rfl, ?_⟩
      dsimp only [Op.target]; apply filter_other_filter; intro e he
      simp only [bne_iff_ne, ne_eq]
      intro heq; rw [heq] at he; exact he rfl
    · cases h
  | turnEnd m =>
    simp only [step] at h
    split at h
    · cases h
      simp [Op.target, List.filter_append]
    · cases h
  | cfgPlay m id =>
    simp only [step] at h
    split at h <;> cases h <;> exact ⟨rfl, rfl, rfl⟩
  | cfgSub m id on =>
    simp only [step] at h
    split at h
    · cases h
    · split at h
      · cases h; exact ⟨rfl, rfl, rfl⟩
      · split at h
        · split at h <;> cases h <;> exact ⟨rfl, rfl, rfl⟩
        · cases h; exact ⟨rfl, rfl, rfl⟩
  | addTm m id =>
    simp only [step] at h
    split at h
    · cases h; exact ⟨rfl, rfl, rfl⟩
    · cases h
  | fireTm m id =>
    simp only [step] at h
    split at h
    · cases h; exact ⟨rfl, rfl, rfl⟩
    · cases h
  | remTm m id =>
    simp only [step, Option.some.injEq] at h
    cases h
    exact ⟨rfl, rfl, rfl⟩
  | ctlCall m dl =>
    simp only [step] at h
    split at h
    · cases h
      refine ⟨rfl, rfl, ?_⟩
      cases dl <;> simp [Op.target, ctlEnt, List.filter_append]
    · cases h; exact ⟨rfl, rfl, rfl⟩

theorem run_frame (st : St) (ops : List Op) (m : Nat) (ht : ∀ op ∈ ops, op.target = m) :
    (run st ops).bus.filter (fun e => e.owner != m) = st.bus.filter (fun e => e.owner != m) ∧
    (run st ops).sw.filter (fun e => e.owner != m) = st.sw.filter (fun e => e.owner != m) ∧
    (run st ops).dl.filter (fun e => e.owner != m) = st.dl.filter (fun e => e.owner != m) := by
  induction ops generalizing st with
  | nil => exact ⟨rfl, rfl, rfl⟩
  | cons op r ih =>
    simp only [run]
    have ht' : ∀ o ∈ r, o.target = m := fun o ho => ht o (by simp [ho])
    have hm : op.target = m := ht op (by simp)
    cases hs : step st op with
    | none => simpa using ih st ht'
    | some st' =>
      obtain ⟨a, b, c⟩ := step_frame st st' op hs
      rw [hm] at a b c
      obtain ⟨a', b', c'⟩ := ih st' ht'
      simp only [Option.getD_some]
      exact ⟨a'.trans a, b'.trans b, c'.trans c⟩


theorem cleanup_cfg (st : St) (m : Nat) : (cleanup st m).cfg = st.cfg := by
  unfold cleanup; split <;> rfl

theorem step_cfg (st st' : St) (op : Op) (h : step st op = some st') : st'.cfg = st.cfg := by
  cases op <;> simp only [step] at h
  case start => split at h <;> cases h <;> simp [startCore, cleanup_cfg]
  case stoppedCb => split at h <;> cases h; simp [cbCore, cleanup_cfg]
  case cfgSub => (repeat' split at h) <;> cases h <;> rfl
  all_goals (first | (split at h <;> cases h <;> rfl) | (cases h; rfl))

theorem run_cfg (st : St) (ops : List Op) : (run st ops).cfg = st.cfg := by
  induction ops generalizing st with
  | nil => rfl
  | cons op r ih =>
    simp only [run]
    cases hs : step st op with
    | none => simpa using ih st
    | some st' => simpa using (ih st').trans (step_cfg st st' op hs)

/-! ## the registries of config-player effects (`fx`) and of device-owned timers (`tm`) -/

structure Inv2 (st : St) : Prop where
  fxOwned : ∀ e ∈ st.fx, up (st.modes e.owner) = true
  tmOwned : ∀ e ∈ st.tm, alive (st.modes e.owner) = true

theorem inv2_init (cfg : Nat → Cfg) : Inv2 (init cfg) := by
  constructor <;> simp [init]

/-- a predicate on the owner's flags survives an update of mode `m` when no entry belongs to `m` or the new flags satisfy it -/
theorem pred_upd (P : MState → Bool) (f : Nat → MState) (m : Nat) (ms' : MState) (l : List Ent)
    (h : ∀ e ∈ l, P (f e.owner) = true) (hm : (∀ e ∈ l, e.owner ≠ m) ∨ (P (f m) = true → P ms' = true)) :
    ∀ e ∈ l, P (upd f m ms' e.owner) = true := by
  intro e he
  by_cases ho : e.owner = m
  · rcases hm with hm | hm
    · exact absurd ho (hm e he)
    · have := h e he
      rw [ho] at this ⊢
      simpa using hm this
  · rw [upd_other _ _ _ _ ho]; exact h e he

theorem not_owned_of_filter (l : List Ent) (m : Nat) : ∀ e ∈ l.filter (fun e => !ownedBy m e), e.owner ≠ m := by
  intro e he ho
  have := (List.mem_filter.mp he).2
  simp [ownedBy, ho] at this

theorem cleanup_inv2 (st : St) (m : Nat) (h2 : Inv2 st) : Inv2 (cleanup st m) := by
  obtain ⟨hfx, htm⟩ := h2
  unfold cleanup
  split
  · refine ⟨?_, ?_⟩ <;> dsimp only
    · exact pred_upd up st.modes m _ st.fx hfx (Or.inr (by simp [up]))
    · exact pred_upd alive st.modes m _ _ (fun e he => htm e (List.mem_filter.mp he).1) (Or.inl (not_owned_of_filter st.tm m))
  · exact ⟨hfx, htm⟩

theorem step_inv2 (st st' : St) (op : Op) (h2 : Inv2 st) (h : step st op = some st') : Inv2 st' := by
  obtain ⟨hfx, htm⟩ := h2
  cases op with
  | start m prio queue gameOk =>
    simp only [step] at h
    split at h
    · cases h; exact ⟨hfx, htm⟩
    · cases h
      obtain ⟨cfx, ctm⟩ := cleanup_inv2 st m ⟨hfx, htm⟩
      unfold startCore
      refine ⟨?_, ?_⟩ <;> dsimp only
      · exact pred_upd up _ m _ _ cfx (Or.inr (by simp [up]))
      · exact pred_upd alive _ m _ _ ctm (Or.inr (by simp [alive]))
  | started m =>
    simp only [step] at h
    split at h
    · cases h
    · cases h
      exact ⟨pred_upd up _ m _ _ hfx (Or.inr (by simp [up])), pred_upd alive _ m _ _ htm (Or.inr (by simp [alive]))⟩
  | startedCb m =>
    simp only [step] at h
    split at h
    · cases h
    · cases h
      exact ⟨pred_upd up _ m _ _ hfx (Or.inr (by simp [up])), pred_upd alive _ m _ _ htm (Or.inr (by simp [alive]))⟩
  | stop m =>
    simp only [step] at h
    split at h
    · cases h; exact ⟨hfx, htm⟩
    · cases h
      exact ⟨pred_upd up _ m _ _ hfx (Or.inr (by simp [up])), pred_upd alive _ m _ _ htm (Or.inr (by simp [alive]))⟩
  | stopped m =>
    simp only [step] at h
    split at h
    · cases h
    · cases h
      refine ⟨?_, ?_⟩ <;> dsimp only
      · exact pred_upd up _ m _ _ (fun e he => hfx e (List.mem_filter.mp he).1) (Or.inl (not_owned_of_filter st.fx m))
      · exact pred_upd alive _ m _ _ htm (Or.inr (by simp [alive]))
  | stoppedCb m =>
    simp only [step] at h
    split at h
    · cases h
    · cases h
      obtain ⟨cfx, ctm⟩ := cleanup_inv2 st m ⟨hfx, htm⟩
      unfold cbCore
      exact ⟨pred_upd up _ m _ _ cfx (Or.inr (by simp [up])), pred_upd alive _ m _ _ ctm (Or.inr (by simp [alive]))⟩
  | addH m id => simp only [step, Option.some.injEq] at h; cases h; exact ⟨hfx, htm⟩
  | addSw m id => simp only [step, Option.some.injEq] at h; cases h; exact ⟨hfx, htm⟩
  | addDl m id => simp only [step, Option.some.injEq] at h; cases h; exact ⟨hfx, htm⟩
  | fireDl m id =>
    simp only [step] at h
    split at h
    · cases h; exact ⟨hfx, htm⟩
    · cases h
  | turnEnd m =>
    simp only [step] at h
    split at h
    · cases h; exact ⟨hfx, htm⟩
    · cases h
  | cfgPlay m id =>
    simp only [step] at h
    split at h
    · rename_i hg
      cases h
      refine ⟨?_, htm⟩
      intro e he
      simp only [List.mem_append, List.mem_singleton] at he
      rcases he with he | he
      · exact hfx e he
      · rw [he]; simp only [Bool.and_eq_true] at hg; simp [up, hg.1.1]
    · cases h; exact ⟨hfx, htm⟩
  | cfgSub m id on =>
    simp only [step] at h
    split at h
    · cases h
    · rename_i hg
      have hu : up (st.modes m) = true := by simpa using hg
      split at h
      · cases h; exact ⟨hfx, htm⟩
      · split at h
        · split at h
          · cases h; exact ⟨hfx, htm⟩
          · cases h
            refine ⟨?_, htm⟩
            intro e he
            simp only [List.mem_append, List.mem_singleton] at he
            rcases he with he | he
            · exact hfx e he
            · rw [he]; exact hu
        · cases h
          exact ⟨fun e he => hfx e (List.mem_filter.mp he).1, htm⟩
  | addTm m id =>
    simp only [step] at h
    split at h
    · rename_i hg
      cases h
      refine ⟨hfx, ?_⟩
      intro e he
      simp only [List.mem_append, List.mem_singleton] at he
      rcases he with he | he
      · exact htm e he
      · rw [he]; exact hg
    · cases h
  | fireTm m id =>
    simp only [step] at h
    split at h
    · cases h; exact ⟨hfx, fun e he => htm e (List.mem_filter.mp he).1⟩
    · cases h
  | remTm m id =>
    simp only [step, Option.some.injEq] at h
    cases h
    exact ⟨hfx, fun e he => htm e (List.mem_filter.mp he).1⟩
  | ctlCall m dl =>
    simp only [step] at h
    split at h <;> cases h <;> exact ⟨hfx, htm⟩

theorem run_inv2 (st : St) (ops : List Op) (h2 : Inv2 st) : Inv2 (run st ops) := by
  induction ops generalizing st with
  | nil => exact h2
  | cons op r ih =>
    simp only [run]
    cases hs : step st op with
    | none => simpa using ih st h2
    | some st' => simpa using ih st' (step_inv2 st st' op h2 hs)

/-- frame for the two new registries -/
theorem step_frame2 (st st' : St) (op : Op) (h : step st op = some st') :
    st'.fx.filter (fun e => e.owner != op.target) = st.fx.filter (fun e => e.owner != op.target) ∧
    st'.tm.filter (fun e => e.owner != op.target) = st.tm.filter (fun e => e.owner != op.target) := by
  have hcl : ∀ m, (cleanup st m).fx = st.fx ∧
      (cleanup st m).tm.filter (fun e => e.owner != m) = st.tm.filter (fun e => e.owner != m) := by
    intro m
    unfold cleanup
    split
    · refine ⟨rfl, ?_⟩
      dsimp only; apply filter_other_filter; intro e he; simp [ownedBy, he]
    · exact ⟨rfl, rfl⟩
  cases op with
  | start m prio queue gameOk =>
    simp only [step] at h
    split at h
    · cases h; exact ⟨rfl, rfl⟩
    · cases h
      simp only [startCore, Op.target]
      exact ⟨by rw [(hcl m).1], (hcl m).2⟩
  | started m => simp only [step] at h; split at h <;> cases h; exact ⟨rfl, rfl⟩
  | startedCb m => simp only [step] at h; split at h <;> cases h; exact ⟨rfl, rfl⟩
  | stop m => simp only [step] at h; split at h <;> cases h <;> exact ⟨rfl, rfl⟩
  | stopped m =>
    simp only [step] at h
    split at h
    · cases h
    · cases h
      refine ⟨?_, rfl⟩
      dsimp only [Op.target]; apply filter_other_filter; intro e he; simp [ownedBy, he]
  | stoppedCb m =>
    simp only [step] at h
    split at h
    · cases h
    · cases h
      simp only [cbCore, Op.target]
      exact ⟨by rw [(hcl m).1], (hcl m).2⟩
  | addH m id => simp only [step, Option.some.injEq] at h; cases h; exact ⟨rfl, rfl⟩
  | addSw m id => simp only [step, Option.some.injEq] at h; cases h; exact ⟨rfl, rfl⟩
  | addDl m id => simp only [step, Option.some.injEq] at h; cases h; exact ⟨rfl, rfl⟩
  | fireDl m id => simp only [step] at h; split at h <;> cases h; exact ⟨rfl, rfl⟩
  | turnEnd m => simp only [step] at h; split at h <;> cases h; exact ⟨rfl, rfl⟩
  | cfgPlay m id =>
    simp only [step] at h
    split at h
    · cases h; simp [Op.target, List.filter_append]
    · cases h; exact ⟨rfl, rfl⟩
  | cfgSub m id on =>
    simp only [step] at h
    split at h
    · cases h
    · split at h
      · cases h; exact ⟨rfl, rfl⟩
      · split at h
        · split at h
          · cases h; exact ⟨rfl, rfl⟩
          · cases h; simp [Op.target, List.filter_append]
        · cases h
          refine ⟨?_, rfl⟩
          dsimp only [Op.target]; apply filter_other_filter; intro e he
          simp only [bne_iff_ne, ne_eq]
          intro heq; rw [heq] at he; exact he rfl
  | addTm m id =>
    simp only [step] at h
    split at h
    · cases h; simp [Op.target, List.filter_append]
    · cases h
  | fireTm m id =>
    simp only [step] at h
    split at h
    · cases h
      refine ⟨rfl, ?_⟩
      dsimp only [Op.target]; apply filter_other_filter; intro e he
      simp only [bne_iff_ne, ne_eq]
      intro heq; rw [heq] at he; exact he rfl
    · cases h
  | remTm m id =>
    simp only [step, Option.some.injEq] at h
    cases h
    refine ⟨rfl, ?_⟩
    dsimp only [Op.target]; apply filter_other_filter; intro e he
    simp only [bne_iff_ne, ne_eq]
    intro heq; rw [heq] at he; exact he rfl
  | ctlCall m dl =>
    simp only [step] at h
    split at h <;> cases h <;> exact ⟨rfl, rfl⟩

theorem run_frame2 (st : St) (ops : List Op) (m : Nat) (ht : ∀ op ∈ ops, op.target = m) :
    (run st ops).fx.filter (fun e => e.owner != m) = st.fx.filter (fun e => e.owner != m) ∧
    (run st ops).tm.filter (fun e => e.owner != m) = st.tm.filter (fun e => e.owner != m) := by
  induction ops generalizing st with
  | nil => exact ⟨rfl, rfl⟩
  | cons op r ih =>
    simp only [run]
    have ht' : ∀ o ∈ r, o.target = m := fun o ho => ht o (by simp [ho])
    have hm : op.target = m := ht op (by simp)
    cases hs : step st op with
    | none => simpa using ih st ht'
    | some st' =>
      obtain ⟨a, b⟩ := step_frame2 st st' op hs
      rw [hm] at a b
      obtain ⟨a', b'⟩ := ih st' ht'
      simp only [Option.getD_some]
      exact ⟨a'.trans a, b'.trans b⟩

end MpfVerif.Mode
